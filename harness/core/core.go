// Package core: correspondence engine shared by all properties.
// Cases are protocol lines; the real Go code and the Lean driver each answer one line per
// case; outputs are diffed; the property's own oracle is evaluated on every case.
package core

import (
	"bufio"
	"encoding/json"
	"fmt"
	"hash/fnv"
	"os"
	"os/exec"
	"runtime"
	"runtime/debug"
	"sort"
	"strings"
	"sync"
	"time"
)

// Rng is splitmix64; every random choice of a run derives from one seed.
type Rng struct{ s uint64 }

func NewRng(seed uint64) *Rng { return &Rng{s: seed*0x9E3779B97F4A7C15 + 0x1234567} }
func (r *Rng) U64() uint64 {
	r.s += 0x9E3779B97F4A7C15
	z := r.s
	z = (z ^ (z >> 30)) * 0xBF58476D1CE4E5B9
	z = (z ^ (z >> 27)) * 0x94D049BB133111EB
	return z ^ (z >> 31)
}
func (r *Rng) Intn(n int) int {
	if n <= 0 {
		return 0
	}
	return int(r.U64() % uint64(n))
}
func (r *Rng) Range(lo, hi int) int     { return lo + r.Intn(hi-lo+1) }
func (r *Rng) Bool() bool               { return r.U64()&1 == 1 }
func (r *Rng) Chance(num, den int) bool { return r.Intn(den) < num }
func (r *Rng) Fork() *Rng               { return NewRng(r.U64()) }
func (r *Rng) Bytes(n int) []byte {
	b := make([]byte, n)
	for i := range b {
		b[i] = byte(r.U64())
	}
	return b
}

// Interesting returns a value biased towards boundaries of a w-bit unsigned range.
func (r *Rng) Interesting(w uint) uint64 {
	var max uint64 = ^uint64(0)
	if w < 64 {
		max = (uint64(1) << w) - 1
	}
	switch r.Intn(10) {
	case 0:
		return 0
	case 1:
		return 1
	case 2:
		return max
	case 3:
		return max - 1
	case 4:
		return (uint64(1) << uint(r.Intn(int(w)))) & max
	case 5:
		return ((uint64(1) << uint(r.Intn(int(w)))) - 1) & max
	case 6:
		return uint64(r.Intn(300))
	default:
		return r.U64() & max
	}
}

// Prop is one property's correspondence + oracle definition.
type Prop interface {
	ID() string
	Rule() string
	// Gen emits the protocol lines of this run (deterministic in rng, tier).
	Gen(r *Rng, tier string, emit func(line string))
	// RunGo runs the real code on one case and returns the canonical answer line.
	RunGo(line string) string
	// Oracle evaluates the property's own predicate on the real code for this case;
	// "" = holds (or not applicable), otherwise a description of what fails.
	Oracle(line string, goOut string) string
	// NonTrivial says whether the case exercises more than the shortest path.
	NonTrivial(line string) bool
}

// Extra is implemented by properties with checks that are not line-based.
type Extra interface {
	Extra(r *Rng, tier string, res *Result)
}

// Comparer lets a property replace plain string equality (relational ties).
type Comparer interface {
	Agree(line, goOut, modelOut string) bool
}

// Brancher labels a case for the input-distribution histogram.
type Brancher interface {
	Branch(line string, goOut string) string
}

type Disagreement struct {
	Case   string `json:"case"`
	Go     string `json:"go"`
	Model  string `json:"model"`
	Oracle string `json:"oracle"` // "" when the oracle found nothing wrong on this case
}

type Violation struct {
	Case       string `json:"case"`
	Go         string `json:"go"`
	Expected   string `json:"expected,omitempty"`
	What       string `json:"what"`
	Source     string `json:"source"` // oracle | disagreement | extra
	Known      string `json:"known,omitempty"`
	NoWitness  bool   `json:"no_failing_input_found,omitempty"`
	Obligation string `json:"obligation,omitempty"`
}

type Result struct {
	Property      string         `json:"property"`
	Tier          string         `json:"tier"`
	Seed          uint64         `json:"seed"`
	Evaluations   int            `json:"evaluations"`
	DistinctNT    int            `json:"distinct_nontrivial"`
	Rule          string         `json:"rule"`
	Samples       []string       `json:"samples"`
	Histogram     map[string]int `json:"histogram"`
	Disagreements []Disagreement `json:"disagreements"`
	NDisagree     int            `json:"n_disagreements"`
	Violations    []Violation    `json:"violations"`
	Extra         map[string]any `json:"extra,omitempty"`
	Notes         []string       `json:"notes,omitempty"`
	WallS         float64        `json:"wall_s"`
	NViolations   int            `json:"n_violations"`
	perVerb       map[string]int
	mu            sync.Mutex
}

func (res *Result) AddViolation(v Violation) {
	res.mu.Lock()
	defer res.mu.Unlock()
	res.NViolations++
	// keep a diverse sample: at most 8 per verb (first token of the case), 60 in total
	verb := strings.SplitN(v.Case, " ", 2)[0] + "|" + v.Known // instances of a known finding never crowd out new violations
	if res.perVerb == nil {
		res.perVerb = map[string]int{}
	}
	if res.perVerb[verb] >= 8 || len(res.Violations) >= 80 {
		return
	}
	res.perVerb[verb]++
	res.Violations = append(res.Violations, v)
}
func (res *Result) Count(k string, n int) {
	res.mu.Lock()
	defer res.mu.Unlock()
	if res.Histogram == nil {
		res.Histogram = map[string]int{}
	}
	res.Histogram[k] += n
}
func (res *Result) SetExtra(k string, v any) {
	res.mu.Lock()
	defer res.mu.Unlock()
	if res.Extra == nil {
		res.Extra = map[string]any{}
	}
	res.Extra[k] = v
}
func (res *Result) Note(s string) {
	res.mu.Lock()
	defer res.mu.Unlock()
	res.Notes = append(res.Notes, s)
}

// SafeRun runs f under recover; a panic is a result, not a crash of the harness.
func SafeRun(f func() string) (out string) {
	defer func() {
		if e := recover(); e != nil {
			msg := fmt.Sprint(e)
			if len(msg) > 120 {
				msg = msg[:120]
			}
			_ = debug.Stack
			out = "panic " + strings.ReplaceAll(msg, "\n", " ")
		}
	}()
	return f()
}

// RunWithTimeout runs f; if it does not return in d the result is "hang".
func RunWithTimeout(d time.Duration, f func() string) string {
	ch := make(chan string, 1)
	go func() { ch <- SafeRun(f) }()
	select {
	case s := <-ch:
		return s
	case <-time.After(d):
		return "hang"
	}
}

// Driver runs the compiled Lean model on the lines and returns one answer per line.
func Driver(driverPath string, lines []string) ([]string, error) {
	nproc := runtime.NumCPU()
	if nproc > 16 {
		nproc = 16
	}
	if len(lines) < 2000 {
		nproc = 1
	}
	outs := make([]string, len(lines))
	chunk := (len(lines) + nproc - 1) / nproc
	var wg sync.WaitGroup
	errs := make([]error, nproc)
	for w := 0; w < nproc; w++ {
		lo, hi := w*chunk, (w+1)*chunk
		if lo >= len(lines) {
			break
		}
		if hi > len(lines) {
			hi = len(lines)
		}
		wg.Add(1)
		go func(w, lo, hi int) {
			defer wg.Done()
			errs[w] = driverChunk(driverPath, lines[lo:hi], outs[lo:hi])
		}(w, lo, hi)
	}
	wg.Wait()
	for _, e := range errs {
		if e != nil {
			return outs, e
		}
	}
	return outs, nil
}

func driverChunk(driverPath string, lines []string, outs []string) error {
	cmd := exec.Command(driverPath)
	stdin, err := cmd.StdinPipe()
	if err != nil {
		return err
	}
	stdout, err := cmd.StdoutPipe()
	if err != nil {
		return err
	}
	cmd.Stderr = os.Stderr
	if err := cmd.Start(); err != nil {
		return err
	}
	go func() {
		w := bufio.NewWriterSize(stdin, 1<<20)
		for _, l := range lines {
			w.WriteString(l)
			w.WriteByte('\n')
		}
		w.Flush()
		stdin.Close()
	}()
	sc := bufio.NewReaderSize(stdout, 1<<20)
	i := 0
	for {
		s, err := sc.ReadString('\n')
		if len(s) > 0 {
			if i < len(outs) {
				outs[i] = strings.TrimRight(s, "\n")
			}
			i++
		}
		if err != nil {
			break
		}
	}
	werr := cmd.Wait()
	if i != len(lines) {
		return fmt.Errorf("driver answered %d lines for %d cases (exit: %v)", i, len(lines), werr)
	}
	return nil
}

func hash64(s string) uint64 {
	h := fnv.New64a()
	h.Write([]byte(s))
	return h.Sum64()
}

// Execute runs the whole correspondence for one property and fills a Result.  The cases are generated,
// run, answered by the model, compared and judged in batches (bounded by count and by bytes), so the memory
// a run needs does not grow with the tier.
func Execute(p Prop, driverPath string, seed uint64, tier string, replay []string) *Result {
	t0 := time.Now()
	res := &Result{Property: p.ID(), Tier: tier, Seed: seed, Rule: p.Rule(), Histogram: map[string]int{}}
	prof := func(what string) {
		if pf := os.Getenv("VERIF_PROFILE"); pf != "" {
			if f, err := os.OpenFile(pf, os.O_APPEND|os.O_CREATE|os.O_WRONLY, 0o644); err == nil {
				fmt.Fprintf(f, "%s %s at %.1fs\n", p.ID(), what, time.Since(t0).Seconds())
				f.Close()
			}
		}
	}
	const maxBatchLines, maxBatchBytes = 100000, 64 << 20
	batches := make(chan []string, 1)
	corpusN := 0
	go func() {
		var cur []string
		size := 0
		flush := func() {
			if len(cur) > 0 {
				batches <- cur
				cur, size = nil, 0
			}
		}
		emit := func(l string) {
			cur = append(cur, l)
			size += len(l)
			if len(cur) >= maxBatchLines || size >= maxBatchBytes {
				flush()
			}
		}
		if replay != nil {
			for _, l := range replay {
				emit(l)
			}
		} else {
			// corpus of minimised past failures (incl. witnesses of fixed findings) runs first
			if dir := os.Getenv("VERIF_DIR"); dir != "" {
				if b, err := os.ReadFile(dir + "/corpus/" + p.ID() + ".txt"); err == nil {
					for _, l := range strings.Split(string(b), "\n") {
						l = strings.TrimSpace(l)
						if l != "" && !strings.HasPrefix(l, "#") {
							emit(l)
							corpusN++
						}
					}
				}
			}
			p.Gen(NewRng(seed), tier, emit)
		}
		flush()
		close(batches)
	}()
	cmp, hasCmp := p.(Comparer)
	br, hasBr := p.(Brancher)
	seen := map[uint64]struct{}{}
	nBatches := 0
	driverFailed := false
	for lines := range batches {
		nBatches++
		// crash journal: which cases of this batch were in flight if the process running the real code dies
		var journal *os.File
		var jmu sync.Mutex
		if jp := os.Getenv("VERIF_JOURNAL"); jp != "" {
			if b, err := json.Marshal(lines); err == nil {
				os.WriteFile(jp+".lines", b, 0o644)
			}
			journal, _ = os.Create(jp)
		}
		jlog := func(ev string, i int) {
			if journal != nil {
				jmu.Lock()
				fmt.Fprintf(journal, "%s %d\n", ev, i)
				jmu.Unlock()
			}
		}
		// real code, in parallel
		goOuts := make([]string, len(lines))
		var wg sync.WaitGroup
		nw := runtime.NumCPU()
		if s, ok := p.(interface{ Serial() bool }); ok && s.Serial() {
			nw = 1
		}
		idx := make(chan int, 1024)
		for w := 0; w < nw; w++ {
			wg.Add(1)
			go func() {
				defer wg.Done()
				for i := range idx {
					l := lines[i]
					jlog("start", i)
					goOuts[i] = SafeRun(func() string { return p.RunGo(l) })
					jlog("done", i)
				}
			}()
		}
		for i := range lines {
			idx <- i
		}
		close(idx)
		wg.Wait()
		if journal != nil {
			journal.Close()
		}
		// model
		modelOuts, derr := Driver(driverPath, lines)
		if derr != nil && !driverFailed {
			driverFailed = true
			res.Note("driver error: " + derr.Error())
			res.AddViolation(Violation{What: "model driver failed: " + derr.Error(), Source: "disagreement", NoWitness: true, Obligation: "pmdriver run"})
		}
		for i, l := range lines {
			res.Evaluations++
			if p.NonTrivial(l) {
				seen[hash64(l)] = struct{}{}
			}
			if hasBr {
				res.Histogram[br.Branch(l, goOuts[i])]++
				if strings.HasPrefix(l, "cli") {
					res.Histogram["(through the command-line binary)"]++
				}
			}
			agree := goOuts[i] == modelOuts[i]
			if hasCmp {
				agree = cmp.Agree(l, goOuts[i], modelOuts[i])
			}
			if modelOuts[i] == "bad-op" {
				res.Note("bad-op from driver on: " + trunc(l, 200))
				agree = false
			}
			orc := SafeRun(func() string { return p.Oracle(l, goOuts[i]) })
			if !agree {
				res.NDisagree++
				if len(res.Disagreements) < 20 {
					res.Disagreements = append(res.Disagreements, Disagreement{Case: l, Go: goOuts[i], Model: modelOuts[i], Oracle: orc})
				}
			}
			if orc != "" {
				v := Violation{Case: l, Go: goOuts[i], Expected: modelOuts[i], What: orc, Source: "oracle"}
				// an oracle may classify a violation as an instance of a recorded finding: "KNOWN:<id>:<what>"
				if strings.HasPrefix(orc, "KNOWN:") {
					if p := strings.SplitN(orc, ":", 3); len(p) == 3 {
						v.Known, v.What = p[1], p[2]
					}
				}
				res.AddViolation(v)
			}
		}
		// samples: a few from the first batches
		if len(lines) > 0 && len(res.Samples) < 6 {
			step := len(lines)/3 + 1
			for i := 0; i < len(lines) && len(res.Samples) < 6; i += step {
				res.Samples = append(res.Samples, trunc(lines[i], 300)+"  =>  "+trunc(goOuts[i], 200))
			}
		}
		prof(fmt.Sprintf("batch %d done (%d cases)", nBatches, len(lines)))
	}
	if corpusN > 0 {
		res.Count("corpus", corpusN)
	}
	res.DistinctNT = len(seen)
	if ex, ok := p.(Extra); ok && replay == nil {
		ex.Extra(NewRng(seed^0xABCDEF), tier, res)
	}
	res.WallS = time.Since(t0).Seconds()
	return res
}

func trunc(s string, n int) string {
	if len(s) > n {
		return s[:n] + "…"
	}
	return s
}

func WriteResult(res *Result, path string) error {
	// stable key order for histogram is given by encoding/json (sorted map keys)
	b, err := json.MarshalIndent(res, "", " ")
	if err != nil {
		return err
	}
	return os.WriteFile(path, b, 0o644)
}

func SortedKeys(m map[string]int) []string {
	ks := make([]string, 0, len(m))
	for k := range m {
		ks = append(ks, k)
	}
	sort.Strings(ks)
	return ks
}
