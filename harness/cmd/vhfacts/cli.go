package main

// Facts about main.go: how each command hands its options to the library entry point, whether a
// returned error ends the process with a failure status, and the option defaults in the struct tags.
// An argument that is not a plain option (`cli.A.B`, `!cli.A.B`), a literal or one of a few known
// identifiers — or a local variable that cannot be traced back to one — is emitted as `?` (unknown).

import (
	"fmt"
	"go/ast"
	"go/parser"
	"go/token"
	"go/types"
	"reflect"
	"strconv"
	"strings"
)

func cliArg(e ast.Expr, locals map[string]ast.Expr, depth int) string {
	switch x := e.(type) {
	case *ast.BasicLit:
		return x.Value
	case *ast.Ident:
		switch x.Name {
		case "logger", "version", "true", "false", "nil":
			return x.Name
		}
		if v, ok := locals[x.Name]; ok && depth < 3 {
			return cliArg(v, locals, depth+1)
		}
		return "?"
	case *ast.UnaryExpr:
		if x.Op == token.NOT {
			if in := cliArg(x.X, locals, depth); in != "?" && !strings.HasPrefix(in, "!") {
				return "!" + in
			}
		}
		return "?"
	case *ast.SelectorExpr:
		s := types.ExprString(x)
		if s == "os.Stdout" {
			return s
		}
		if strings.HasPrefix(s, "cli.") && strings.Count(s, ".") == 2 {
			return strings.TrimPrefix(s, "cli.")
		}
		return "?"
	}
	return "?"
}

func emitCLIFacts(mainPath string, p func(string, ...any)) {
	wanted := []string{"Show:show", "Show:tile", "NewServer:serve", "Extract:extract", "Cluster:cluster", "Convert:convert", "Verify:verify", "Edit:edit", "Makesync:makesync", "Sync:sync"}
	calls := map[string]string{}
	fatal := map[string]string{}
	defaults := []string{}
	fset := token.NewFileSet()
	f, err := parser.ParseFile(fset, mainPath, nil, 0)
	if err == nil {
		// struct tags of `var cli struct{…}`
		ast.Inspect(f, func(n ast.Node) bool {
			vs, ok := n.(*ast.ValueSpec)
			if !ok || len(vs.Names) != 1 || vs.Names[0].Name != "cli" {
				return true
			}
			st, ok := vs.Type.(*ast.StructType)
			if !ok {
				return false
			}
			for _, cmd := range st.Fields.List {
				inner, ok := cmd.Type.(*ast.StructType)
				if !ok || len(cmd.Names) != 1 {
					continue
				}
				for _, opt := range inner.Fields.List {
					if opt.Tag == nil || len(opt.Names) != 1 {
						continue
					}
					tag, err := strconv.Unquote(opt.Tag.Value)
					if err != nil {
						continue
					}
					if d, ok := reflect.StructTag(tag).Lookup("default"); ok {
						defaults = append(defaults, fmt.Sprintf("(%s, %s)", leanStr(cmd.Names[0].Name+"."+opt.Names[0].Name), leanStr(d)))
					}
				}
			}
			return false
		})
		// the switch over ctx.Command()
		ast.Inspect(f, func(n ast.Node) bool {
			cc, ok := n.(*ast.CaseClause)
			if !ok || len(cc.List) != 1 {
				return true
			}
			lit, ok := cc.List[0].(*ast.BasicLit)
			if !ok || lit.Kind != token.STRING {
				return true
			}
			cmdName := strings.Fields(strings.Trim(lit.Value, "\""))[0]
			locals := map[string]ast.Expr{}
			reassigned := map[string]bool{}
			for _, st := range cc.Body {
				if as, ok := st.(*ast.AssignStmt); ok && len(as.Lhs) == 1 && len(as.Rhs) == 1 {
					if id, ok := as.Lhs[0].(*ast.Ident); ok {
						if _, seen := locals[id.Name]; seen {
							reassigned[id.Name] = true
						}
						locals[id.Name] = as.Rhs[0]
					}
				}
			}
			for k := range reassigned {
				delete(locals, k)
			}
			for i, st := range cc.Body {
				as, ok := st.(*ast.AssignStmt)
				if !ok || len(as.Rhs) != 1 {
					continue
				}
				call, ok := as.Rhs[0].(*ast.CallExpr)
				if !ok {
					continue
				}
				sel, ok := call.Fun.(*ast.SelectorExpr)
				if !ok || types.ExprString(sel.X) != "pmtiles" {
					continue
				}
				key := sel.Sel.Name + ":" + cmdName
				var args []string
				for _, a := range call.Args {
					args = append(args, cliArg(a, locals, 0))
				}
				for j := range args {
					args[j] = leanStr(args[j])
				}
				calls[key] = "[" + strings.Join(args, ", ") + "]"
				// the error variable is the last assigned name
				errName := ""
				if id, ok := as.Lhs[len(as.Lhs)-1].(*ast.Ident); ok {
					errName = id.Name
				}
				state := "none"
				for _, nx := range cc.Body[i+1:] {
					ifs, ok := nx.(*ast.IfStmt)
					if !ok {
						continue
					}
					if strings.ReplaceAll(types.ExprString(ifs.Cond), " ", "") != errName+"!=nil" {
						continue
					}
					state = "some false"
					ast.Inspect(ifs.Body, func(m ast.Node) bool {
						if c, ok := m.(*ast.CallExpr); ok {
							switch types.ExprString(c.Fun) {
							case "logger.Fatalf", "logger.Fatal", "logger.Fatalln", "log.Fatalf", "log.Fatal", "os.Exit", "panic", "logger.Panicf":
								state = "some true"
							}
						}
						return true
					})
					break
				}
				fatal[key] = state
			}
			return true
		})
	}
	var cl, fl []string
	for _, w := range wanted {
		if c, ok := calls[w]; ok {
			cl = append(cl, fmt.Sprintf("(%s, some %s)", leanStr(w), c))
		} else {
			cl = append(cl, fmt.Sprintf("(%s, none)", leanStr(w)))
		}
		st := fatal[w]
		if st == "" {
			st = "none"
		}
		fl = append(fl, fmt.Sprintf("(%s, %s)", leanStr(w), st))
	}
	p("/-- main.go: the arguments each command hands to its library entry point (`?` = not a plain option) -/\n")
	p("def cliCalls : List (String × Option (List String)) := [%s]\n", strings.Join(cl, ", "))
	p("/-- main.go: an error returned by the entry point ends the process through Fatalf/Exit/panic -/\n")
	p("def cliErrFatal : List (String × Option Bool) := [%s]\n", strings.Join(fl, ", "))
	p("/-- main.go: `default:\"…\"` struct tags of the options -/\n")
	p("def cliDefaults : List (String × String) := [%s]\n", strings.Join(defaults, ", "))
}
