// vh: correspondence harness. Usage:
//
//	vh run <prop> --tier quick|thorough --seed N --driver PATH --out result.json [--replay file]
package main

import (
	"encoding/json"
	"flag"
	"fmt"
	"os"

	"verifharness/core"
	"verifharness/props"
)

func main() {
	if len(os.Args) < 3 {
		fmt.Fprintln(os.Stderr, "usage: vh run <prop> [flags] | vh facts <repo> | vh list")
		os.Exit(2)
	}
	switch os.Args[1] {
	case "list":
		for k := range props.All() {
			fmt.Println(k)
		}
	case "editchild":
		props.EditChild(os.Args[2:])
	case "srvdebug":
		props.SrvDebug(os.Args[2:])
	case "srvchild":
		props.SrvChild(os.Args[2:])
	case "syncchild":
		props.SyncChild(os.Args[2:])
	case "syncclichild":
		props.SyncCLIChild(os.Args[2:])
	case "srvrealchild":
		props.SrvRealChild(os.Args[2:])
	case "mksyncchild":
		props.MksyncChild(os.Args[2:])
	case "run":
		id := os.Args[2]
		fs := flag.NewFlagSet("run", flag.ExitOnError)
		tier := fs.String("tier", "quick", "")
		seed := fs.Uint64("seed", 1, "")
		driver := fs.String("driver", "/verif/lean/.lake/build/bin/pmdriver", "")
		out := fs.String("out", "", "")
		replay := fs.String("replay", "", "")
		fs.Parse(os.Args[3:])
		p, ok := props.All()[id]
		if !ok {
			fmt.Fprintln(os.Stderr, "unknown property", id)
			os.Exit(2)
		}
		var rp []string
		if *replay != "" {
			b, err := os.ReadFile(*replay)
			if err != nil {
				fmt.Fprintln(os.Stderr, err)
				os.Exit(2)
			}
			var f struct {
				Cases []string `json:"cases"`
			}
			if err := json.Unmarshal(b, &f); err != nil {
				fmt.Fprintln(os.Stderr, err)
				os.Exit(2)
			}
			rp = f.Cases
			if rp == nil {
				rp = []string{}
			}
		}
		// the code under test prints progress/diagnostics to stdout; keep our own channel
		realStdout := os.Stdout
		realStderr := os.Stderr
		if devnull, err := os.OpenFile(os.DevNull, os.O_WRONLY, 0); err == nil {
			os.Stdout = devnull
			os.Stderr = devnull // progress bars of the commands under test
		}
		defer props.CleanupScratch()
		res := core.Execute(p, *driver, *seed, *tier, rp)
		os.Stdout = realStdout
		os.Stderr = realStderr
		props.CleanupScratch()
		if *out != "" {
			if err := core.WriteResult(res, *out); err != nil {
				fmt.Fprintln(os.Stderr, err)
				os.Exit(2)
			}
		}
		fmt.Printf("%s: %d cases, %d non-trivial distinct, %d disagreements, %d violations, %.1fs\n", id, res.Evaluations, res.DistinctNT, res.NDisagree, len(res.Violations), res.WallS)
	default:
		fmt.Fprintln(os.Stderr, "unknown command")
		os.Exit(2)
	}
}
