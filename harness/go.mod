module verifharness

go 1.22.7

require (
	github.com/RoaringBitmap/roaring v1.5.0
	github.com/cespare/xxhash/v2 v2.3.0
	github.com/paulmach/orb v0.10.0
	github.com/protomaps/go-pmtiles v0.0.0
	zombiezen.com/go/sqlite v1.1.2
)

require (
	cloud.google.com/go v0.115.0 // indirect
	cloud.google.com/go/auth v0.8.1 // indirect
	cloud.google.com/go/auth/oauth2adapt v0.2.4 // indirect
	cloud.google.com/go/compute/metadata v0.5.0 // indirect
	cloud.google.com/go/iam v1.1.13 // indirect
	cloud.google.com/go/storage v1.43.0 // indirect
	github.com/Azure/azure-sdk-for-go/sdk/azcore v1.14.0 // indirect
	github.com/Azure/azure-sdk-for-go/sdk/internal v1.10.0 // indirect
	github.com/Azure/azure-sdk-for-go/sdk/storage/azblob v1.3.2 // indirect
	github.com/aws/aws-sdk-go-v2 v1.30.3 // indirect
	github.com/aws/aws-sdk-go-v2/aws/protocol/eventstream v1.6.3 // indirect
	github.com/aws/aws-sdk-go-v2/internal/configsources v1.3.15 // indirect
	github.com/aws/aws-sdk-go-v2/internal/endpoints/v2 v2.6.15 // indirect
	github.com/aws/aws-sdk-go-v2/internal/v4a v1.3.15 // indirect
	github.com/aws/aws-sdk-go-v2/service/internal/accept-encoding v1.11.3 // indirect
	github.com/aws/aws-sdk-go-v2/service/internal/checksum v1.3.17 // indirect
	github.com/aws/aws-sdk-go-v2/service/internal/presigned-url v1.11.17 // indirect
	github.com/aws/aws-sdk-go-v2/service/internal/s3shared v1.17.15 // indirect
	github.com/aws/aws-sdk-go-v2/service/s3 v1.58.3 // indirect
	github.com/aws/smithy-go v1.20.3 // indirect
	github.com/beorn7/perks v1.0.1 // indirect
	github.com/dustin/go-humanize v1.0.1 // indirect
	github.com/felixge/httpsnoop v1.0.4 // indirect
	github.com/go-logr/logr v1.4.2 // indirect
	github.com/go-logr/stdr v1.2.2 // indirect
	github.com/golang/groupcache v0.0.0-20210331224755-41bb18bfe9da // indirect
	github.com/google/s2a-go v0.1.8 // indirect
	github.com/google/uuid v1.6.0 // indirect
	github.com/googleapis/enterprise-certificate-proxy v0.3.2 // indirect
	github.com/googleapis/gax-go/v2 v2.13.0 // indirect
	github.com/mattn/go-isatty v0.0.20 // indirect
	github.com/mattn/go-runewidth v0.0.14 // indirect
	github.com/mitchellh/colorstring v0.0.0-20190213212951-d06e56a500db // indirect
	github.com/ncruces/go-strftime v0.1.9 // indirect
	github.com/prometheus/client_golang v1.19.1 // indirect
	github.com/prometheus/client_model v0.5.0 // indirect
	github.com/prometheus/common v0.48.0 // indirect
	github.com/prometheus/procfs v0.12.0 // indirect
	github.com/remyoudompheng/bigfft v0.0.0-20230129092748-24d4a6f8daec // indirect
	github.com/rivo/uniseg v0.2.0 // indirect
	github.com/rs/cors v1.11.1 // indirect
	github.com/schollz/progressbar/v3 v3.13.1 // indirect
	go.mongodb.org/mongo-driver v1.11.4 // indirect
	go.opencensus.io v0.24.0 // indirect
	go.opentelemetry.io/contrib/instrumentation/google.golang.org/grpc/otelgrpc v0.53.0 // indirect
	go.opentelemetry.io/contrib/instrumentation/net/http/otelhttp v0.53.0 // indirect
	go.opentelemetry.io/otel v1.28.0 // indirect
	go.opentelemetry.io/otel/metric v1.28.0 // indirect
	go.opentelemetry.io/otel/trace v1.28.0 // indirect
	gocloud.dev v0.40.0 // indirect
	golang.org/x/crypto v0.31.0 // indirect
	golang.org/x/net v0.28.0 // indirect
	golang.org/x/oauth2 v0.22.0 // indirect
	golang.org/x/sync v0.10.0 // indirect
	golang.org/x/sys v0.28.0 // indirect
	golang.org/x/term v0.27.0 // indirect
	golang.org/x/text v0.21.0 // indirect
	golang.org/x/time v0.6.0 // indirect
	golang.org/x/xerrors v0.0.0-20240716161551-93cc26a95ae9 // indirect
	google.golang.org/api v0.191.0 // indirect
	google.golang.org/genproto v0.0.0-20240812133136-8ffd90a71988 // indirect
	google.golang.org/genproto/googleapis/api v0.0.0-20240812133136-8ffd90a71988 // indirect
	google.golang.org/genproto/googleapis/rpc v0.0.0-20240812133136-8ffd90a71988 // indirect
	google.golang.org/grpc v1.65.0 // indirect
	google.golang.org/protobuf v1.34.2 // indirect
	modernc.org/libc v1.41.0 // indirect
	modernc.org/mathutil v1.6.0 // indirect
	modernc.org/memory v1.7.2 // indirect
	modernc.org/sqlite v1.29.1 // indirect
)

replace github.com/protomaps/go-pmtiles => /repo
