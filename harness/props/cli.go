package props

// Operations carried out either through the library entry points or through the real command-line
// binary (built from /repo's main.go on every run, path in VERIF_CLI).  Lines whose verb starts with
// `cli` are the same cases as their library counterparts, executed through the binary: option
// parsing, defaults and flag polarity in main.go are part of what the model's answer is compared with.

import (
	"bytes"
	"errors"
	"fmt"
	"hash/fnv"
	"os"
	"os/exec"
	"path/filepath"
	"strings"
	"sync"

	"github.com/protomaps/go-pmtiles/pmtiles"
)

var errNoCLI = errors.New("no-cli-binary")

// cliRun runs the binary; a non-zero exit becomes an error carrying what logger.Fatalf printed
func cliRun(args ...string) ([]byte, error) {
	bin := os.Getenv("VERIF_CLI")
	if bin == "" {
		return nil, errNoCLI
	}
	cmd := exec.Command(bin, args...)
	var out, errb bytes.Buffer
	cmd.Stdout, cmd.Stderr = &out, &errb
	if err := cmd.Run(); err != nil {
		msg := strings.TrimSpace(out.String())
		if i := strings.LastIndex(msg, "Failed to "); i >= 0 {
			msg = msg[i:]
		}
		if j := strings.Index(msg, ", "); j >= 0 {
			msg = msg[j+2:] // after "Failed to <do something>, "
		}
		if msg == "" {
			msg = strings.TrimSpace(errb.String())
		}
		return out.Bytes(), fmt.Errorf("%s", msg)
	}
	return out.Bytes(), nil
}

// splitCLI: `cliverify …` → (true, `verify …`)
func splitCLI(t []string) (bool, []string) {
	if len(t) > 0 && strings.HasPrefix(t[0], "cli") && len(t[0]) > 3 {
		return true, append([]string{t[0][3:]}, t[1:]...)
	}
	return false, t
}

func opVerify(cli bool, path string) error {
	if cli {
		_, err := cliRun("verify", path)
		return err
	}
	return pmtiles.Verify(discardLogger, path)
}

func opConvert(cli bool, in, out string, dedup bool, tmp *os.File) error {
	if cli {
		// history: an earlier run with the same output name and temporary directory failed at the very end (its
		// output directory does not exist) after writing far more tile data than this run will
		if sm := staleMakerMbtiles(); sm != "" {
			cliRun("convert", sm, filepath.Join(Scratch(), "no-such-directory", filepath.Base(out)), "--tmpdir="+Scratch())
		}
		args := []string{"convert", in, out, "--tmpdir=" + Scratch()}
		if !dedup {
			args = append(args, "--no-deduplication")
		}
		_, err := cliRun(args...)
		return err
	}
	return pmtiles.Convert(discardLogger, in, out, dedup, tmp)
}

func opCluster(cli bool, path string, dedup bool) error {
	if cli {
		args := []string{"cluster", path}
		if !dedup {
			args = append(args, "--no-deduplication")
		}
		_, err := cliRun(args...)
		return err
	}
	return pmtiles.Cluster(discardLogger, path, dedup)
}

func opExtract(cli bool, input string, minz, maxz int8, bbox, output string, threads int, overfetch float32) error {
	if cli {
		args := []string{"extract", input, output}
		if threads == 2 && !strings.HasPrefix(input, "http") {
			// the same source named as bucket + key
			args = []string{"extract", "--bucket=file://" + filepath.Dir(input), filepath.Base(input), output}
		}
		if threads != 4 || overfetch != 0.05 { // 4 and 0.05 are the documented defaults: left to main.go
			args = append(args, fmt.Sprintf("--download-threads=%d", threads), fmt.Sprintf("--overfetch=%v", overfetch))
		}
		if minz != -1 {
			args = append(args, fmt.Sprintf("--minzoom=%d", minz))
		}
		if maxz != -1 {
			args = append(args, fmt.Sprintf("--maxzoom=%d", maxz))
		}
		if bbox != "" {
			args = append(args, "--bbox="+bbox)
		}
		_, err := cliRun(args...)
		return err
	}
	return pmtiles.Extract(discardLogger, "", input, minz, maxz, "", bbox, output, threads, overfetch, false)
}

// opTile: what `pmtiles tile` writes for one tile (library: Show with showTile)
func opTile(cli bool, path string, z, x, y int) ([]byte, error) {
	if cli {
		if (z+x+y)%2 == 1 {
			// the same file named as bucket + key
			return cliRun("tile", "--bucket=file://"+filepath.Dir(path), filepath.Base(path), fmt.Sprint(z), fmt.Sprint(x), fmt.Sprint(y))
		}
		return cliRun("tile", path, fmt.Sprint(z), fmt.Sprint(x), fmt.Sprint(y))
	}
	var buf bytes.Buffer
	err := pmtiles.Show(discardLogger, &buf, "", path, false, false, false, "", true, z, x, y)
	return buf.Bytes(), err
}

// lineHash decides, without touching the PRNG stream, which generated lines are also run through the binary
func lineHash(line string) uint32 {
	h := fnv.New32a()
	h.Write([]byte(line))
	return h.Sum32()
}

// cliDup wraps a Gen's emit: every line is emitted as before; a line with one of the given verbs is, one time
// in `every` (and at most `budget` times), emitted again with the verb prefixed by `cli`
func cliDup(emit func(string), verbs []string, every uint32, budget int) func(string) {
	return func(line string) {
		emit(line)
		if budget <= 0 || lineHash(line)%every != 0 {
			return
		}
		for _, v := range verbs {
			if strings.HasPrefix(line, v+" ") {
				budget--
				emit("cli" + line)
				return
			}
		}
	}
}

// cliDupSrv: a `srvreal <backend> …` script is, one time in `every` (at most `budget` times), emitted again as
// `srvreal cli<backend> …`: the same history against `pmtiles serve` (the real binary) asked over HTTP
func cliDupSrv(emit func(string), every uint32, budget int) func(string) {
	return func(line string) {
		emit(line)
		if budget <= 0 || !strings.HasPrefix(line, "srvreal ") || strings.HasPrefix(line, "srvreal cli") || lineHash(line)%every != 0 {
			return
		}
		budget--
		emit("srvreal cli" + strings.TrimPrefix(line, "srvreal "))
	}
}

var staleMakerOnce sync.Once
var staleMakerPath string

// staleMakerMbtiles: a database with one 200 KB tile, written once per harness process
func staleMakerMbtiles() string {
	staleMakerOnce.Do(func() {
		p := filepath.Join(Scratch(), "stale-maker.mbtiles")
		blob := make([]byte, 200000)
		st := uint64(88172645463325252)
		for i := range blob {
			st ^= st << 13
			st ^= st >> 7
			st ^= st << 17
			blob[i] = byte(st >> 32)
		}
		if writeMbtiles(p, [][2]string{{"format", "png"}, {"bounds", "-10,-10,10,10"}}, []mbRow{{0, 0, 0, blob}}) == nil {
			staleMakerPath = p
		}
	})
	return staleMakerPath
}
