package props

import (
	"bytes"
	"context"
	"encoding/binary"
	"encoding/hex"
	"encoding/json"
	"fmt"
	"math"
	"net/http"
	"net/http/httptest"
	"os"
	"path/filepath"
	"strconv"
	"strings"
	"sync"

	"github.com/cespare/xxhash/v2"
	"github.com/protomaps/go-pmtiles/pmtiles"
	"verifharness/core"
)

// C12 — HTTP contract.
type C12 struct{}

func (C12) ID() string { return "C12" }
func (C12) Rule() string {
	return "lines `http method inm <path> N name H <header> M <metadata> A <archive>`: real Server.ServeHTTP (httptest recorder) over archives with all 5 tile types (+unknown) x 4 tile compressions (+unknown), metadata with unicode/nesting, negative/extreme bounds; request kinds tile (stored / absent / zoom outside / wrong extension / unknown archive), metadata, TileJSON, root, unrecognised; methods GET/HEAD/POST/PUT/DELETE/OPTIONS; If-None-Match none/exact/star/weak/list/other; compared: status, Content-Type, Content-Encoding, ETag presence, body; oracle: ETag = function of the body and injective over the run, TileJSON content vs header/metadata/public URL at E7 resolution; non-trivial = GET/HEAD on a known archive; distinct by hash of the line"
}

var c12Meta = []string{
	`{}`,
	`{"name":"n ü","description":"d","attribution":"© a","version":"2","vector_layers":[{"id":"l","fields":{"f":"String"}}],"extra":{"nested":[1,2,{"k":null}]}}`,
	`{"name":"only-name"}`,
	// descriptive fields are data like any other: TileJSON reports them whatever their JSON type
	`{"name":7,"description":{"en":"d","de":"b"},"attribution":["a","© b"],"version":2,"vector_layers":[]}`,
	`{"version":3.5,"name":true,"attribution":"","description":"x y"}`,
}

func (C12) Gen(r *core.Rng, tier string, emit func(string)) {
	n := 400
	if tier == "thorough" {
		n = 12000
	}
	methods := []string{"GET", "GET", "GET", "HEAD", "HEAD", "POST", "PUT", "DELETE", "OPTIONS"}
	inms := []string{"none", "none", "exact", "star", "weak", "list", "other"}
	exts := []string{"mvt", "png", "jpg", "webp", "avif", "pbf", "x", "jpeg", "PNG", "mvt.gz", "geojson"}
	for i := 0; i < n; i++ {
		// archive: tiles at zooms minz..maxz
		minz := r.Intn(3)
		maxz := minz + r.Intn(3)
		ts := randTileSet(r, 1+r.Intn(25), base(uint(maxz)+1), r.Bool(), 9)
		var es []pmtiles.EntryV3
		for _, e := range ts.entries {
			if e.TileID >= base(uint(minz)) {
				es = append(es, e)
			}
		}
		if len(es) == 0 {
			es = []pmtiles.EntryV3{{TileID: base(uint(minz)), Offset: 0, Length: uint32(len(ts.data)), RunLength: 1}}
			if len(ts.data) == 0 {
				ts.data = []byte("x")
				es[0].Length = 1
			}
		}
		ts.entries = es
		ic := pmtiles.Compression(pmtiles.Gzip)
		if r.Bool() {
			ic = pmtiles.NoCompression
		}
		h := baseHeader()
		h.TileType = pmtiles.TileType([]int{0, 1, 2, 3, 4, 5, 6, 200}[r.Intn(8)])
		h.TileCompression = pmtiles.Compression([]int{0, 1, 2, 3, 4, 5, 99}[r.Intn(7)])
		h.MinZoom, h.MaxZoom, h.CenterZoom = uint8(minz), uint8(maxz), uint8(minz)
		h.MinLonE7, h.MinLatE7, h.MaxLonE7, h.MaxLatE7 = int32(r.U64()), int32(r.U64()), int32(r.U64()), int32(r.U64())
		h.CenterLonE7, h.CenterLatE7 = -1234567, 89000000
		meta := c12Meta[r.Intn(len(c12Meta))]
		root := buildTree(r, ts.entries, r.Intn(2), 1+r.Intn(6), false)
		ba := assembleArchive(root, ts, ic, h, []byte(meta))
		name := []string{"a", "sub/b", "we.ird", "x.json", "t/metadata"}[r.Intn(5)]
		trueExt := map[pmtiles.TileType]string{1: "mvt", 2: "png", 3: "jpg", 4: "webp", 5: "avif"}[h.TileType]
		if trueExt == "" {
			trueExt = "bin"
		}
		for k := 0; k < 6; k++ {
			var p string
			switch r.Intn(11) {
			case 9: // a stored tile's coordinates with x or y moved out of the 2^z grid by a multiple of 2^z (the tile-ID
				// arithmetic ignores the high bits: the request must not be answered with that tile)
				e := ts.entries[r.Intn(len(ts.entries))]
				z, x, y := pmtiles.IDToZxy(e.TileID + uint64(r.Intn(int(e.RunLength))))
				k := uint64(1 + r.Intn(3))
				xx, yy := uint64(x), uint64(y)
				switch r.Intn(3) {
				case 0:
					xx += k << z
				case 1:
					yy += k << z
				default:
					xx += k << z
					yy += (k + 1) << z
				}
				p = fmt.Sprintf("/%s/%d/%d/%d.%s", name, z, xx, yy, trueExt)
			case 10: // numbers that do not fit their field
				e := ts.entries[r.Intn(len(ts.entries))]
				z, x, y := pmtiles.IDToZxy(e.TileID)
				p = []string{
					fmt.Sprintf("/%s/%d/%d/%d.%s", name, 256+int(z), x, y, trueExt),
					fmt.Sprintf("/%s/%d/%d/%d.%s", name, z, uint64(x)+1<<32, y, trueExt),
					fmt.Sprintf("/%s/%d/%d/%d.%s", name, z, x, uint64(y)+1<<32, trueExt),
					fmt.Sprintf("/%s/%d/4294967296/18446744073709551616.%s", name, z, trueExt),
					fmt.Sprintf("/%s/0%d/00%d/000%d.%s", name, z, x, y, trueExt), // zero-padded decimal: the same tile
				}[r.Intn(5)]
			case 0, 1, 2: // stored tile, right extension
				e := ts.entries[r.Intn(len(ts.entries))]
				z, x, y := pmtiles.IDToZxy(e.TileID + uint64(r.Intn(int(e.RunLength))))
				p = fmt.Sprintf("/%s/%d/%d/%d.%s", name, z, x, y, trueExt)
			case 3: // some tile, random extension
				z := minz + r.Intn(maxz-minz+1)
				p = fmt.Sprintf("/%s/%d/%d/%d.%s", name, z, r.Intn(1<<uint(z)), r.Intn(1<<uint(z)), exts[r.Intn(len(exts))])
				if r.Bool() {
					// a STORED tile asked for under a common alias of its type's extension: still the wrong extension
					e := ts.entries[r.Intn(len(ts.entries))]
					ez, ex, ey := pmtiles.IDToZxy(e.TileID)
					alias := map[string]string{"mvt": "pbf", "jpg": "jpeg", "png": "PNG", "webp": "WEBP", "avif": "avifs"}[trueExt]
					if alias != "" {
						p = fmt.Sprintf("/%s/%d/%d/%d.%s", name, ez, ex, ey, alias)
					}
				}
			case 4: // zoom outside
				z := maxz + 1 + r.Intn(3)
				if r.Bool() && minz > 0 {
					z = minz - 1
				}
				p = fmt.Sprintf("/%s/%d/0/0.%s", name, z, trueExt)
			case 5:
				p = "/" + name + "/metadata"
			case 6:
				p = "/" + name + ".json"
			case 7:
				p = []string{"/", "/nope", "/unknown/0/0/0." + trueExt, "/unknown/metadata", "/unknown.json", "/" + name}[r.Intn(6)]
			default: // absent tile in range
				z := minz + r.Intn(maxz-minz+1)
				p = fmt.Sprintf("/%s/%d/%d/%d.%s", name, z, r.Intn(1<<uint(z)), r.Intn(1<<uint(z)), trueExt)
			}
			emit(fmt.Sprintf("http %s %s %s N %s H %s M %s A %s %s %s", methods[r.Intn(len(methods))], inms[r.Intn(len(inms))],
				hexs([]byte(p)), hexs([]byte(name)), hdrFields(ba.header), hexs([]byte(meta)), compName(ic), hexs(ts.data), ba.dirsLine()))
		}
	}
}

func etagOf(body []byte) string {
	var b [8]byte
	binary.LittleEndian.PutUint64(b[:], xxhash.Sum64(body))
	return `"` + hex.EncodeToString(b[:]) + `"`
}

type c12Parsed struct {
	method, inm, path, name string
	h                       pmtiles.HeaderV3
	meta                    []byte
	archive                 []byte
}

func c12Parse(line string) (c12Parsed, bool) {
	t := strings.Fields(line)
	var out c12Parsed
	if len(t) < 10 {
		return out, false
	}
	out.method, out.inm = t[1], t[2]
	pb, _ := unhex(t[3])
	out.path = string(pb)
	rest := t[4:]
	_, rest = splitTok(rest, "N")
	nb, _ := unhex(rest[0])
	out.name = string(nb)
	_, rest = splitTok(rest, "H")
	h, ok := parseHdrFields(rest[:25])
	if !ok {
		return out, false
	}
	_, rest = splitTok(rest, "M")
	out.meta, _ = unhex(rest[0])
	_, rest = splitTok(rest, "A")
	ic := compOf(rest[0])
	data, _ := unhex(rest[1])
	dirs, _, ok := parseDirsLine(rest[2:])
	if !ok {
		return out, false
	}
	out.archive, out.h = archiveFromParsed(ic, data, dirs, h, out.meta)
	return out, true
}

func c12Do(c c12Parsed) (*httptest.ResponseRecorder, []byte) {
	s2, _ := pmtiles.NewServerWithBucket(pmtiles.VerifNewMemoryBucket(map[string][]byte{c.name + ".pmtiles": c.archive}), "", discardLogger, 8, "http://public")
	if lineHash(c.name+" "+c.path+" "+c.method)%3 == 0 && filepath.IsLocal(c.name) && !strings.ContainsAny(c.name, "\\\x00") {
		// one case in three is served the way `pmtiles serve <directory>` does it: NewServer on a local directory
		// (bucket URL construction, file backend, its version tags), the archive a file below it
		dir, err := os.MkdirTemp(Scratch(), "c12srv")
		if err == nil {
			defer os.RemoveAll(dir)
			fp := filepath.Join(dir, filepath.FromSlash(c.name)+".pmtiles")
			if os.MkdirAll(filepath.Dir(fp), 0o755) == nil && os.WriteFile(fp, c.archive, 0o644) == nil {
				if fs, err := pmtiles.NewServer("", dir, discardLogger, 8, "http://public"); err == nil {
					s2 = fs
				}
			}
		}
	}
	s2.Start()
	// the body a plain GET returns (needed to present its ETag)
	req0 := httptest.NewRequest("GET", "http://h/", nil)
	req0.URL.Path = c.path
	w0 := httptest.NewRecorder()
	s2.ServeHTTP(w0, req0)
	body0 := w0.Body.Bytes()
	req := httptest.NewRequest(c.method, "http://h/", nil)
	req.URL.Path = c.path
	tag := w0.Header().Get("ETag")
	switch c.inm {
	case "exact":
		req.Header.Set("If-None-Match", tag)
	case "star":
		req.Header.Set("If-None-Match", "*")
	case "weak":
		req.Header.Set("If-None-Match", "W/"+tag)
	case "list":
		req.Header.Set("If-None-Match", `"zzz", `+tag+`, "yyy"`)
	case "other":
		req.Header.Set("If-None-Match", `"0000000000000000"`)
	}
	w := httptest.NewRecorder()
	s2.ServeHTTP(w, req)
	return w, body0
}

func orDash(s string) string {
	if s == "" {
		return "-"
	}
	return s
}

func (C12) RunGo(line string) string {
	c, ok := c12Parse(line)
	if !ok {
		return "bad-case"
	}
	w, _ := c12Do(c)
	st := w.Code
	body := w.Body.Bytes()
	switch {
	case st == 200 || st == 304:
		e := 0
		if w.Header().Get("ETag") != "" {
			e = 1
		}
		b := hexs(body)
		if strings.HasSuffix(c.path, ".json") && st == 200 && len(body) > 0 {
			if m := tilejsonOK(body, c); m != "" {
				b = "BAD:" + strings.ReplaceAll(m, " ", "_")
			} else {
				b = "TJ"
			}
		}
		ct := w.Header().Get("Content-Type")
		switch ct {
		case "application/x-protobuf", "image/png", "image/jpeg", "image/webp", "image/avif", "application/json":
		default:
			ct = "" // net/http sniffs a type when the handler sets none (unknown tile type): not part of the contract
		}
		return fmt.Sprintf("%d ct=%s ce=%s etag=%d body=%s", st, orDash(ct), orDash(w.Header().Get("Content-Encoding")), e, b)
	case st == 204:
		return "204 body=" + hexs(body)
	}
	return fmt.Sprintf("%d", st)
}

// TileJSON reports the header's bounds, center and zooms, the metadata's descriptive fields and a tiles
// template built from the public URL, the archive name and the tile-type extension
func tilejsonOK(body []byte, c c12Parsed) string {
	var tj map[string]interface{}
	if err := json.Unmarshal(body, &tj); err != nil {
		return "not JSON"
	}
	ext := map[pmtiles.TileType]string{1: ".mvt", 2: ".png", 3: ".jpg", 4: ".webp", 5: ".avif"}[c.h.TileType]
	tiles, _ := tj["tiles"].([]interface{})
	if len(tiles) != 1 || tiles[0] != "http://public/"+c.name+"/{z}/{x}/{y}"+ext {
		return fmt.Sprintf("tiles template %v", tj["tiles"])
	}
	num := func(v interface{}) int64 { f, _ := v.(float64); return int64(math.Round(f * 1e7)) }
	b, _ := tj["bounds"].([]interface{})
	if len(b) != 4 || num(b[0]) != int64(c.h.MinLonE7) || num(b[1]) != int64(c.h.MinLatE7) || num(b[2]) != int64(c.h.MaxLonE7) || num(b[3]) != int64(c.h.MaxLatE7) {
		return fmt.Sprintf("bounds %v", tj["bounds"])
	}
	ce, _ := tj["center"].([]interface{})
	if len(ce) != 3 || num(ce[0]) != int64(c.h.CenterLonE7) || num(ce[1]) != int64(c.h.CenterLatE7) || ce[2] != float64(c.h.CenterZoom) {
		return fmt.Sprintf("center %v", tj["center"])
	}
	if tj["minzoom"] != float64(c.h.MinZoom) || tj["maxzoom"] != float64(c.h.MaxZoom) {
		return "zooms"
	}
	var meta map[string]interface{}
	json.Unmarshal(c.meta, &meta)
	for _, k := range []string{"attribution", "description", "name", "version", "vector_layers"} {
		if v, ok := meta[k]; ok && canonJSON(tj[k]) != canonJSON(v) {
			return "descriptive field " + k
		}
	}
	return ""
}

func (C12) NonTrivial(line string) bool {
	t := strings.Fields(line)
	return t[1] == "GET" || t[1] == "HEAD"
}
func (C12) Branch(line, goOut string) string {
	t := strings.Fields(line)
	return t[1] + " " + t[2] + " -> " + strings.SplitN(goOut, " ", 2)[0]
}

var (
	c12Mu     sync.Mutex
	c12ByBody = map[string]string{} // body -> etag
	c12ByTag  = map[string]string{} // etag -> body
)

func (C12) Oracle(line, goOut string) string {
	if strings.HasPrefix(goOut, "panic") {
		return goOut
	}
	if strings.Contains(goOut, "body=BAD:") {
		return "TileJSON does not report the archive's " + goOut[strings.Index(goOut, "BAD:")+4:]
	}
	c, ok := c12Parse(line)
	if !ok {
		return ""
	}
	if c.method != "GET" && c.method != "HEAD" {
		if goOut != "405" {
			return "method " + c.method + " answered " + goOut + ", want 405"
		}
		return ""
	}
	w, body0 := c12Do(c)
	// a tile request is answered 200 only for coordinates inside the zoom's grid, read as plain decimal numbers
	if segs := strings.Split(c.path, "/"); len(segs) >= 5 && w.Code == 200 && strings.HasPrefix(c.path, "/"+c.name+"/") && len(segs) == len(strings.Split(c.name, "/"))+4 {
		last := segs[len(segs)-1]
		if i := strings.LastIndex(last, "."); i > 0 {
			z, e1 := strconv.ParseUint(segs[len(segs)-3], 10, 64)
			x, e2 := strconv.ParseUint(segs[len(segs)-2], 10, 64)
			y, e3 := strconv.ParseUint(last[:i], 10, 64)
			if e1 != nil || e2 != nil || e3 != nil || z > 31 || x >= 1<<z || y >= 1<<z {
				return fmt.Sprintf("request %s names no tile (coordinates outside the 2^z grid or not numbers of the field's width) but was answered 200 with tile data", c.path)
			}
			ra := readWholeArchive(c.archive)
			if want, ok := ra.tileAt(pmtiles.ZxyToID(uint8(z), uint32(x), uint32(y))); !ok || !bytes.Equal(want, body0) {
				return fmt.Sprintf("request %s answered 200 with bytes that are not the stored bytes of tile %d/%d/%d", c.path, z, x, y)
			}
		}
	}
	// "extension not matching the tile type -> 400": a tile of a known archive of a known type is answered 2xx only
	// under the one extension of that type
	if ok, n, _, _, _, ext := pmtiles.VerifParseTilePath(c.path); ok && n == c.name && (w.Code == 200 || w.Code == 204) {
		if canon := map[pmtiles.TileType]string{pmtiles.Mvt: "mvt", pmtiles.Png: "png", pmtiles.Jpeg: "jpg", pmtiles.Webp: "webp", pmtiles.Avif: "avif"}[c.h.TileType]; canon != "" && ext != canon {
			return fmt.Sprintf("request %s for an archive of tile type %q was answered %d: the extension does not match the tile type, want 400", c.path, canon, w.Code)
		}
	}
	if ok, n, _, _, _, _ := pmtiles.VerifParseTilePath(c.path); ok && n == c.name && w.Code == 200 {
		// a body handed out by Server.Get stays what it was while later requests are served
		s3, _ := pmtiles.NewServerWithBucket(pmtiles.VerifNewMemoryBucket(map[string][]byte{c.name + ".pmtiles": c.archive}), "", discardLogger, 8, "http://public")
		s3.Start()
		_, _, b1 := s3.Get(context.Background(), c.path)
		keep := append([]byte{}, b1...)
		ra := readWholeArchive(c.archive)
		for k := 0; k < len(ra.flat) && k < 4; k++ {
			z, x, y := pmtiles.IDToZxy(ra.flat[len(ra.flat)-1-k].TileID)
			s3.Get(context.Background(), fmt.Sprintf("/%s/%d/%d/%d.%s", c.name, z, x, y, c.path[strings.LastIndex(c.path, ".")+1:]))
		}
		if !bytes.Equal(b1, keep) {
			return "the body returned for " + c.path + " changed after later requests were served (shared or recycled buffer)"
		}
		// replaced by a version that differs only in the declared tile compression / type: the first answer after
		// the replacement carries the new version's content headers, not remembered ones
		items := map[string][]byte{c.name + ".pmtiles": c.archive}
		s4, _ := pmtiles.NewServerWithBucket(pmtiles.VerifNewMemoryBucket(items), "", discardLogger, 8, "http://public")
		s4.Start()
		s4.Get(context.Background(), c.path)
		h2 := c.h
		h2.TileCompression = map[pmtiles.Compression]pmtiles.Compression{pmtiles.Gzip: pmtiles.NoCompression, pmtiles.NoCompression: pmtiles.Zstd, pmtiles.Brotli: pmtiles.NoCompression, pmtiles.Zstd: pmtiles.Gzip}[c.h.TileCompression]
		if h2.TileCompression != 0 {
			b2 := append([]byte{}, c.archive...)
			copy(b2, pmtiles.SerializeHeader(h2))
			items[c.name+".pmtiles"] = b2
			st2, hd2, _ := s4.Get(context.Background(), c.path)
			want := map[pmtiles.Compression]string{pmtiles.Gzip: "gzip", pmtiles.Brotli: "br", pmtiles.Zstd: "zstd"}[h2.TileCompression]
			if st2 == 200 && hd2["Content-Encoding"] != want {
				return fmt.Sprintf("after the archive was replaced by one with tile compression %d, %s was answered with Content-Encoding %q, want %q", h2.TileCompression, c.path, hd2["Content-Encoding"], want)
			}
		}
		// content headers of a tile are a function of the header's tile type and TILE compression
		wantCE := map[pmtiles.Compression]string{pmtiles.Gzip: "gzip", pmtiles.Brotli: "br", pmtiles.Zstd: "zstd"}[c.h.TileCompression]
		if got := w.Header().Get("Content-Encoding"); got != wantCE {
			return fmt.Sprintf("tile with tile compression %d served with Content-Encoding %q, want %q", c.h.TileCompression, got, wantCE)
		}
		wantCT := map[pmtiles.TileType]string{pmtiles.Mvt: "application/x-protobuf", pmtiles.Png: "image/png", pmtiles.Jpeg: "image/jpeg", pmtiles.Webp: "image/webp", pmtiles.Avif: "image/avif"}[c.h.TileType]
		if got := w.Header().Get("Content-Type"); wantCT != "" && got != wantCT {
			return fmt.Sprintf("tile of type %d served with Content-Type %q, want %q", c.h.TileType, got, wantCT)
		}
	}
	if w.Code == 200 || w.Code == 304 {
		tag := w.Header().Get("ETag")
		if tag == "" {
			return "200/304 without ETag"
		}
		if tag != etagOf(body0) {
			return "ETag " + tag + " is not the tag of the body (" + etagOf(body0) + ")"
		}
		c12Mu.Lock()
		defer c12Mu.Unlock()
		if prev, ok := c12ByBody[string(body0)]; ok && prev != tag {
			return "equal bodies with different ETags"
		}
		if prev, ok := c12ByTag[tag]; ok && prev != string(body0) {
			return "different bodies with the same ETag " + tag
		}
		c12ByBody[string(body0)] = tag
		c12ByTag[tag] = string(body0)
		if (c.inm == "exact" || c.inm == "star" || c.inm == "weak" || c.inm == "list") && w.Code != 304 {
			return fmt.Sprintf("%s presenting the response's ETag (%s) got %d, want 304", c.method, c.inm, w.Code)
		}
		if w.Code == 304 && w.Body.Len() != 0 {
			return "304 with a body"
		}
		if c.method == "HEAD" && w.Body.Len() != 0 {
			return "HEAD with a body"
		}
		if c.method == "HEAD" {
			g := c
			g.method = "GET"
			wg, _ := c12Do(g)
			for _, hn := range []string{"ETag", "Content-Type", "Content-Encoding"} {
				if wg.Header().Get(hn) != w.Header().Get(hn) {
					return fmt.Sprintf("HEAD and GET differ in %s: %q vs %q", hn, w.Header().Get(hn), wg.Header().Get(hn))
				}
			}
			if wg.Code != w.Code {
				return fmt.Sprintf("HEAD answers %d where GET answers %d", w.Code, wg.Code)
			}
		}
	}
	return ""
}

var _ = http.MethodGet
