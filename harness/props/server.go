package props

import (
	"bytes"
	"context"
	"errors"
	"fmt"
	"io"
	"os"
	"os/exec"
	"runtime"
	"strconv"
	"strings"
	"sync"
	"sync/atomic"
	"time"

	"github.com/protomaps/go-pmtiles/pmtiles"
	"verifharness/core"
)

// ---------- gating bucket: every call parks until the script serves it ----------

type gcall struct {
	id          int
	key         string
	off, length int64
	etag        string
	release     chan string   // serve mode
	release2    chan struct{} // second gate of mode okhold: read now, deliver later
}

type gversion struct {
	bytes      []byte
	tag        string
	born, died int // op indices; died = -1 while current
	label      string
}

type gateBucket struct {
	mu      sync.Mutex
	cur     map[string]*gversion
	hist    map[string][]*gversion
	parked  []*gcall
	held    []*gcall
	next    int
	gated   bool
	served  []string // log of served calls: key off len etag -> version label
	clock   int
	persist map[string]string // key -> fault mode applied to every read at/after the tile data offset
	dups    []string          // identical header/directory reads that were in flight at the same time
	nserved int
}

func newGate(gated bool) *gateBucket {
	return &gateBucket{cur: map[string]*gversion{}, hist: map[string][]*gversion{}, gated: gated, persist: map[string]string{}}
}

func (g *gateBucket) put(name string, b []byte, label string) {
	g.mu.Lock()
	defer g.mu.Unlock()
	key := name + ".pmtiles"
	if old := g.cur[key]; old != nil {
		old.died = g.clock
	}
	if b == nil {
		delete(g.cur, key)
		return
	}
	v := &gversion{bytes: b, tag: fmt.Sprintf(`"%s-%d"`, label, len(g.hist[key])+1), born: g.clock, died: -1, label: label}
	g.cur[key] = v
	g.hist[key] = append(g.hist[key], v)
}

func (g *gateBucket) Close() error { return nil }
func (g *gateBucket) NewRangeReader(ctx context.Context, key string, offset, length int64) (io.ReadCloser, error) {
	r, _, _, e := g.NewRangeReaderEtag(ctx, key, offset, length, "")
	return r, e
}

type errReader struct {
	data []byte
	pos  int
}

func (e *errReader) Read(p []byte) (int, error) {
	if e.pos >= len(e.data) {
		return 0, errors.New("injected mid-stream read error")
	}
	n := copy(p, e.data[e.pos:])
	e.pos += n
	return n, nil
}
func (e *errReader) Close() error { return nil }

func (g *gateBucket) NewRangeReaderEtag(ctx context.Context, key string, offset, length int64, etag string) (io.ReadCloser, string, int, error) {
	mode := "ok"
	var c *gcall
	if g.gated {
		c = &gcall{key: key, off: offset, length: length, etag: etag, release: make(chan string, 1), release2: make(chan struct{})}
		g.mu.Lock()
		c.id = g.next
		g.next++
		if g.isDirRead(key, offset, length) {
			for _, o := range append(append([]*gcall{}, g.parked...), g.held...) {
				if o.key == key && o.off == offset && o.length == length && o.etag == etag {
					g.dups = append(g.dups, fmt.Sprintf("%s %d %d %s", key, offset, length, etag))
				}
			}
		}
		g.parked = append(g.parked, c)
		g.mu.Unlock()
		select {
		case mode = <-c.release:
		case <-ctx.Done():
			// the caller's context was cancelled while the call was parked: a context-aware backend gives up
			g.mu.Lock()
			for i, x := range g.parked {
				if x == c {
					g.parked = append(g.parked[:i:i], g.parked[i+1:]...)
					break
				}
			}
			g.mu.Unlock()
			return nil, "", 499, ctx.Err()
		}
	}
	hold := mode == "okhold"
	if hold {
		mode = "ok"
	}
	r, tag, st, err := g.readNow(key, offset, length, etag, mode) // linearisation point
	if hold && c != nil {
		g.mu.Lock()
		g.held = append(g.held, c)
		g.mu.Unlock()
		<-c.release2 // the bucket has answered; the answer reaches the server only now
	}
	return r, tag, st, err
}

// header fetch or a read inside the current version's leaf-directory section (the cached kinds)
func (g *gateBucket) isDirRead(key string, offset, length int64) bool {
	if offset == 0 && length == 16384 {
		return true
	}
	v := g.cur[key]
	if v == nil || len(v.bytes) < 127 {
		return false
	}
	h, err := pmtiles.DeserializeHeader(v.bytes[:127])
	if err != nil {
		return false
	}
	return uint64(offset) >= h.LeafDirectoryOffset && uint64(offset) < h.LeafDirectoryOffset+h.LeafDirectoryLength
}

func (g *gateBucket) readNow(key string, offset, length int64, etag string, mode string) (io.ReadCloser, string, int, error) {
	g.mu.Lock()
	defer g.mu.Unlock()
	g.nserved++
	if pm := g.persist[key]; pm != "" && mode == "ok" {
		if v := g.cur[key]; v != nil && len(v.bytes) >= 127 {
			if h, err := pmtiles.DeserializeHeader(v.bytes[:127]); err == nil && uint64(offset) >= h.TileDataOffset {
				mode = pm
			}
		}
	}
	switch mode {
	case "err":
		return nil, "", 500, errors.New("injected bucket error")
	case "e404":
		return nil, "", 404, errors.New("injected not found")
	case "e412":
		return nil, "", 412, &pmtiles.RefreshRequiredError{StatusCode: 412}
	case "e416":
		return nil, "", 416, &pmtiles.RefreshRequiredError{StatusCode: 416}
	}
	v := g.cur[key]
	if v == nil {
		return nil, "", 404, fmt.Errorf("not found %s", key)
	}
	if etag != "" && etag != v.tag {
		return nil, "", 412, &pmtiles.RefreshRequiredError{StatusCode: 412}
	}
	if offset < 0 || length < 0 || offset >= int64(len(v.bytes)) {
		return nil, "", 416, &pmtiles.RefreshRequiredError{StatusCode: 416}
	}
	end := offset + length
	if end > int64(len(v.bytes)) {
		end = int64(len(v.bytes))
	}
	data := append([]byte{}, v.bytes[offset:end]...)
	if mode == "garbage" && len(v.bytes) >= 127 {
		// garbage of the right length in a tile or metadata payload is undetectable without checksums
		// (outside what any server can contain): only structure reads (header, directories) get garbage
		if h, err := pmtiles.DeserializeHeader(v.bytes[:127]); err == nil {
			o := uint64(offset)
			if (o >= h.TileDataOffset && h.TileDataOffset > 0) || (o == h.MetadataOffset && uint64(length) == h.MetadataLength) {
				mode = "ok"
			}
		}
	}
	g.served = append(g.served, fmt.Sprintf("%s %d %d %s -> %s", key, offset, length, etag, v.tag))
	switch mode {
	case "short":
		data = data[:len(data)/2]
	case "garbage":
		for i := range data {
			data[i] = byte(i*131 + 7)
		}
	case "midstream":
		return &errReader{data: data[:len(data)/3]}, v.tag, 206, nil
	case "empty":
		data = data[:0]
	}
	return io.NopCloser(bytes.NewReader(data)), v.tag, 206, nil
}

// deliver the k-th held answer
func (g *gateBucket) deliver(k int) bool {
	g.mu.Lock()
	if k >= len(g.held) {
		g.mu.Unlock()
		return false
	}
	c := g.held[k]
	g.held = append(g.held[:k:k], g.held[k+1:]...)
	g.mu.Unlock()
	close(c.release2)
	return true
}

func (g *gateBucket) nheld() int { g.mu.Lock(); defer g.mu.Unlock(); return len(g.held) }

func (g *gateBucket) nparked() int { g.mu.Lock(); defer g.mu.Unlock(); return len(g.parked) }

// serve the i-th parked call (arrival order); false if there is none within the deadline
func (g *gateBucket) serve(i int, mode string) bool {
	deadline := time.Now().Add(1 * time.Millisecond)
	for {
		g.mu.Lock()
		if i < len(g.parked) {
			c := g.parked[i]
			g.parked = append(g.parked[:i:i], g.parked[i+1:]...)
			g.mu.Unlock()
			c.release <- mode
			return true
		}
		g.mu.Unlock()
		if time.Now().After(deadline) {
			return false
		}
		time.Sleep(100 * time.Microsecond)
	}
}

// ---------- script world ----------

type reqRec struct {
	id         int
	path       string
	start, end int
	status     int
	body       []byte
	done       bool
	ce, ct     string // Content-Encoding / Content-Type of the answer
	noHdr      bool   // the headers were not recorded (child-process scripts)
	cancel     context.CancelFunc
	cancelled  bool
}

type world struct {
	g     *gateBucket
	srv   *pmtiles.Server
	mu    sync.Mutex
	reqs  []*reqRec
	wg    sync.WaitGroup
	opIdx int
	notes []string
}

func newWorld(cacheMB int, gated bool) *world {
	w := &world{g: newGate(gated)}
	s, _ := pmtiles.NewServerWithBucket(w.g, "", discardLogger, cacheMB, "http://public")
	s.Start()
	w.srv = s
	return w
}

func (w *world) finished() int {
	w.mu.Lock()
	defer w.mu.Unlock()
	n := 0
	for _, r := range w.reqs {
		if r.done {
			n++
		}
	}
	return n
}

// settle: wait until nothing moves (parked calls, finished requests, loop events) for a while
func (w *world) settle() {
	last := [3]int{-1, -1, -1}
	stableSince := time.Now()
	begin := time.Now()
	for {
		cur := [3]int{w.g.nparked(), w.finished(), pmtiles.VerifLogLen()}
		if cur != last {
			last = cur
			stableSince = time.Now()
		} else if time.Since(stableSince) > 500*time.Microsecond {
			return
		}
		if time.Since(begin) > 3*time.Second {
			return
		}
		runtime.Gosched()
	}
}

func (w *world) start(path string) {
	ctx, cancel := context.WithCancel(context.Background())
	r := &reqRec{id: len(w.reqs), path: path, start: w.opIdx, cancel: cancel}
	w.mu.Lock()
	w.reqs = append(w.reqs, r)
	w.mu.Unlock()
	w.wg.Add(1)
	go func() {
		defer w.wg.Done()
		defer func() {
			if e := recover(); e != nil {
				w.mu.Lock()
				r.status, r.body, r.done = -1, []byte(fmt.Sprint("panic: ", e)), true
				r.end = w.g.clockNow()
				w.mu.Unlock()
			}
		}()
		st, hdrs, body := w.srv.Get(ctx, path)
		w.mu.Lock()
		r.status, r.body, r.done = st, body, true
		r.ce, r.ct = hdrs["Content-Encoding"], hdrs["Content-Type"]
		r.end = w.g.clockNow()
		w.mu.Unlock()
	}()
}

func (g *gateBucket) clockNow() int { g.mu.Lock(); defer g.mu.Unlock(); return g.clock }
func (g *gateBucket) tick(i int)    { g.mu.Lock(); g.clock = i; g.mu.Unlock() }

// ---------- deterministic archive versions ----------

// version `ver` of archive `name`: same tile IDs, different contents, sizes, layout and metadata
func scriptArchive(name string, ver int, big bool) []byte {
	var ts tileSet
	n := 14
	if big {
		n = 60000
	}
	var off uint64
	for i := 0; i < n; i++ {
		id := uint64(i)
		if i >= 5 && !big {
			id = uint64(i) + 2 // leave IDs 5,6 absent
		}
		content := fmt.Sprintf("%s|v%d|t%d|%s", name, ver, id, strings.Repeat("x", (ver*3+i)%5))
		if big {
			content = "b"
			if i > 0 {
				// one shared content for the bulk keeps the data small
				ts.entries = append(ts.entries, pmtiles.EntryV3{TileID: id, Offset: 0, Length: 1, RunLength: 1})
				continue
			}
		}
		ts.entries = append(ts.entries, pmtiles.EntryV3{TileID: id, Offset: off, Length: uint32(len(content)), RunLength: 1})
		ts.data = append(ts.data, content...)
		off += uint64(len(content))
	}
	depth, leaf := 0, 4
	switch ver % 3 {
	case 1:
		depth, leaf = 1, 3
	case 2:
		depth, leaf = 1, 5
	}
	if big {
		depth, leaf = 1, 20000
	}
	h := baseHeader()
	h.TileType = pmtiles.Mvt
	// the declared tile compression differs between versions (the server only reports it): an answer must carry
	// the Content-Encoding of the version its bytes come from
	h.TileCompression = []pmtiles.Compression{pmtiles.Gzip, pmtiles.NoCompression, pmtiles.Brotli, pmtiles.Zstd}[ver%4]
	h.MinZoom, h.MaxZoom = 0, 2
	if big {
		h.MaxZoom = 8
	}
	h.Clustered = true
	ic := pmtiles.Compression(pmtiles.Gzip)
	if ver%2 == 0 {
		ic = pmtiles.NoCompression
	}
	if big {
		ic = pmtiles.NoCompression
	}
	root := buildTree(core.NewRng(uint64(ver)), ts.entries, depth, leaf, false)
	meta := fmt.Sprintf(`{"name":"%s","version":"%d","pad":"%s"}`, name, ver, strings.Repeat("m", (ver%6)*7%11))
	return assembleArchive(root, ts, ic, h, []byte(meta)).bytes
}

// what one fixed version answers to a request path (uncached, fault-free), via the independent reader
func answerOf(v []byte, name, path string) (int, []byte) {
	ra := readWholeArchive(v)
	if ra.err != "" {
		return 404, nil
	}
	if ok, n, z, x, y, ext := pmtiles.VerifParseTilePath(path); ok && n == name {
		if z < ra.h.MinZoom || z > ra.h.MaxZoom {
			return 404, nil
		}
		want := map[pmtiles.TileType]string{1: "mvt", 2: "png", 3: "jpg", 4: "webp", 5: "avif"}[ra.h.TileType]
		if want != "" && ext != want {
			return 400, nil
		}
		if b, ok := ra.tileAt(pmtiles.ZxyToID(z, x, y)); ok {
			return 200, b
		}
		return 204, nil
	}
	if ok, n := pmtiles.VerifParseTilejsonPath(path); ok && n == name {
		tj, _ := pmtiles.CreateTileJSON(ra.h, ra.metaRaw, "http://public/"+name)
		return 200, tj
	}
	if ok, n := pmtiles.VerifParseMetadataPath(path); ok && n == name {
		return 200, ra.metaRaw
	}
	return 404, nil
}

// content headers one fixed version attaches to a stored tile
func tileHeadersOf(v []byte) (ce, ct string) {
	h, err := pmtiles.DeserializeHeader(v[:127])
	if err != nil {
		return "", ""
	}
	ce = map[pmtiles.Compression]string{pmtiles.Gzip: "gzip", pmtiles.Brotli: "br", pmtiles.Zstd: "zstd"}[h.TileCompression]
	ct = map[pmtiles.TileType]string{pmtiles.Mvt: "application/x-protobuf", pmtiles.Png: "image/png", pmtiles.Jpeg: "image/jpeg", pmtiles.Webp: "image/webp", pmtiles.Avif: "image/avif"}[h.TileType]
	return
}

func pathName(path string) string {
	if ok, n, _, _, _, _ := pmtiles.VerifParseTilePath(path); ok {
		return n
	}
	if ok, n := pmtiles.VerifParseTilejsonPath(path); ok {
		return n
	}
	if ok, n := pmtiles.VerifParseMetadataPath(path); ok {
		return n
	}
	return ""
}

// ---------- script execution ----------
// ops: P:<name>:<ver>[:big|trunc<N>|corrupt<off>=<val>|garbage<N>|del]   S:<path>   V:<k>:<mode>   A (serve everything ok until quiet)

type scriptResult struct {
	reqs    []*reqRec
	hist    map[string][]*gversion
	log     []pmtiles.VerifEv
	hangs   int
	notes   []string
	faulted bool
	gServed []string
	runaway bool
	dups    []string
}

// scripts that end with a request that never completes cost a watchdog period each (and leave goroutines
// behind): after four of them (six for child-process scripts) the remaining scripts of the run are not executed any more
var srvHangCount int32

func runScript(cacheMB int, ops []string, gated bool) scriptResult {
	if atomic.LoadInt32(&srvHangCount) >= 4 {
		return scriptResult{hangs: 1, notes: []string{"not run: four earlier scripts of this run never completed"}, hist: map[string][]*gversion{}}
	}
	res := runScriptInner(cacheMB, ops, gated)
	if res.hangs > 0 {
		atomic.AddInt32(&srvHangCount, 1)
	}
	return res
}

func runScriptInner(cacheMB int, ops []string, gated bool) scriptResult {
	pmtiles.VerifStartLog()
	w := newWorld(cacheMB, gated)
	var res scriptResult
	for i, op := range ops {
		if res.runaway {
			break // a request that keeps calling the bucket without ever finishing: report it as it is
		}
		w.opIdx = i
		w.g.tick(i)
		p := strings.Split(op, ":")
		switch p[0] {
		case "P":
			name := p[1]
			ver, _ := strconv.Atoi(p[2])
			mod := ""
			if len(p) > 3 {
				mod = p[3]
			}
			b := applyMod(scriptArchive(name, ver, mod == "big"), mod)
			w.g.put(name, b, fmt.Sprintf("%s.v%d%s", name, ver, mod))
		case "S":
			w.start(strings.Join(p[1:], ":"))
		case "V":
			k, _ := strconv.Atoi(p[1])
			if p[2] != "ok" {
				res.faulted = true
			}
			if !w.g.serve(k, p[2]) {
				res.notes = append(res.notes, fmt.Sprintf("op %d: no parked call %d", i, k))
			}
		case "R":
			k, _ := strconv.Atoi(p[1])
			w.g.deliver(k)
		case "X": // X:<k>: the client of request k goes away (its context is cancelled)
			k, _ := strconv.Atoi(p[1])
			w.mu.Lock()
			if k < len(w.reqs) {
				w.reqs[k].cancelled = true
				w.reqs[k].cancel()
			}
			w.mu.Unlock()
		case "Z": // Z:<name>:<mode|ok>: every read of the archive's tile data fails this way from now on
			w.g.mu.Lock()
			if p[2] == "ok" {
				delete(w.g.persist, p[1]+".pmtiles")
			} else {
				w.g.persist[p[1]+".pmtiles"] = p[2]
				res.faulted = true
			}
			w.g.mu.Unlock()
		case "A":
			for n := 0; w.g.nparked() > 0 || w.g.nheld() > 0; n++ {
				if n > 300 {
					res.notes = append(res.notes, fmt.Sprintf("op %d: more than 300 bucket calls without the requests finishing (runaway)", i))
					res.runaway = true
					break
				}
				if w.g.nparked() > 0 {
					w.g.serve(0, "ok")
				} else {
					w.g.deliver(0)
				}
				w.settle()
			}
		}
		if gated {
			w.settle()
		}
	}
	// drain: serve everything that is still parked, then wait for the requests (watchdog)
	w.g.tick(len(ops))
	deadline := time.Now().Add(4 * time.Second)
	for nd := 0; time.Now().Before(deadline); nd++ {
		if w.finished() == len(w.reqs) {
			break
		}
		if res.runaway || nd > 2000 {
			res.runaway = true
			break // leave the runaway request parked: it is reported as never completing
		}
		if gated && w.g.nparked() > 0 {
			w.g.serve(0, "ok")
			w.settle()
			continue
		}
		if gated && w.g.nheld() > 0 {
			w.g.deliver(0)
			w.settle()
			continue
		}
		time.Sleep(200 * time.Microsecond)
	}
	w.mu.Lock()
	for _, r := range w.reqs {
		if !r.done {
			res.hangs++
			r.status = -2
			r.end = len(ops)
		}
		cp := *r
		res.reqs = append(res.reqs, &cp)
	}
	w.mu.Unlock()
	res.hist = w.g.hist
	w.g.mu.Lock()
	res.gServed = append([]string{}, w.g.served...)
	res.dups = append([]string{}, w.g.dups...)
	w.g.mu.Unlock()
	res.log = pmtiles.VerifTakeLog()
	return res
}

func fmtEvents(log []pmtiles.VerifEv) string {
	var p []string
	for _, e := range log {
		p = append(p, fmt.Sprintf("%s|%s|%s|%d|%d|%d|%d|%d|%d|%d|%s", e.Kind, e.Name, e.Etag, e.Off, e.Len, e.Total, e.NCache, e.NList, e.NInflightKeys, e.NWaiters, strings.ReplaceAll(strings.TrimSpace(e.Detail), " ", ";")))
	}
	return strings.Join(p, " ")
}

func fmtResps(rs []*reqRec) string {
	var p []string
	for _, r := range rs {
		p = append(p, fmt.Sprintf("r%d=%d:%s", r.id, r.status, hexs(r.body)))
	}
	return strings.Join(p, " ")
}

// run a script in a child process so that a crash of the code under test is an observation, not the end of the harness
var srvChildHangs int32

func runScriptChild(cacheMB int, ops []string) (string, bool) {
	if atomic.LoadInt32(&srvChildHangs) >= 6 {
		return "hangs=1 not-run:six-earlier-scripts-of-this-run-had-requests-that-never-completed", false
	}
	cmd := exec.Command(os.Args[0], "srvchild", strconv.Itoa(cacheMB), strings.Join(ops, " "))
	var out, errb bytes.Buffer
	cmd.Stdout, cmd.Stderr = &out, &errb
	done := make(chan error, 1)
	cmd.Start()
	go func() { done <- cmd.Wait() }()
	select {
	case err := <-done:
		if err != nil {
			tail := errb.String()
			if len(tail) > 300 {
				tail = tail[:300]
			}
			return "crash: " + strings.ReplaceAll(strings.TrimSpace(tail), "\n", " / "), false
		}
		res := strings.TrimSpace(out.String())
		if strings.HasPrefix(res, "hangs=") && !strings.HasPrefix(res, "hangs=0") {
			atomic.AddInt32(&srvChildHangs, 1) // requests that never complete: each costs a watchdog period
		}
		return res, true
	case <-time.After(20 * time.Second):
		cmd.Process.Kill()
		atomic.AddInt32(&srvChildHangs, 1)
		return "hang: process did not finish", false
	}
}

// SrvChild is the entry point of the child process.
func SrvChild(args []string) {
	cacheMB, _ := strconv.Atoi(args[0])
	ops := strings.Fields(args[1])
	res := runScript(cacheMB, ops, true)
	fmt.Printf("hangs=%d %s\n", res.hangs, fmtResps(res.reqs))
}

// applyMod turns a pristine archive into the malformed object a script asks for (nil = deleted)
func applyMod(b []byte, mod string) []byte {
	switch {
	case mod == "del":
		return nil
	case strings.HasPrefix(mod, "trunc"):
		n, _ := strconv.Atoi(mod[5:])
		if n < len(b) {
			b = b[:n]
		}
	case strings.HasPrefix(mod, "garbage"):
		n, _ := strconv.Atoi(mod[7:])
		b = make([]byte, n)
		for k := range b {
			b[k] = byte(k*37 + 11)
		}
	case mod == "cuttiles" || mod == "cutmeta":
		// a complete header and root directory, the file ends before the tile data (before the metadata):
		// every read of what lies behind starts beyond the end of the file
		if h, err := pmtiles.DeserializeHeader(b[:127]); err == nil {
			n := h.TileDataOffset
			if mod == "cutmeta" {
				n = h.MetadataOffset
			}
			if n < uint64(len(b)) {
				b = b[:n]
			}
		}
	case mod == "hugecount":
		// a well-formed header whose (uncompressed) root directory announces 2^62 entries
		if h, err := pmtiles.DeserializeHeader(b[:127]); err == nil {
			root := append(bytes.Repeat([]byte{0x80}, 8), 0x40, 0x01, 0x01, 0x01, 0x01)
			h.InternalCompression = pmtiles.NoCompression
			h.RootOffset, h.RootLength = 127, uint64(len(root))
			end := 127 + uint64(len(root))
			h.MetadataOffset, h.MetadataLength = end, 0
			h.LeafDirectoryOffset, h.LeafDirectoryLength = end, 0
			h.TileDataOffset, h.TileDataLength = end, 8
			b = append(append(pmtiles.SerializeHeader(h), root...), "tiledata"...)
		}
	case mod == "nometa":
		// drop the metadata section (zero-length metadata is legal with uncompressed internals)
		if h, err := pmtiles.DeserializeHeader(b[:127]); err == nil && h.InternalCompression == pmtiles.NoCompression &&
			h.LeafDirectoryOffset == h.MetadataOffset+h.MetadataLength && h.TileDataOffset == h.LeafDirectoryOffset+h.LeafDirectoryLength {
			ml := h.MetadataLength
			nb := append([]byte{}, b[:h.MetadataOffset]...)
			nb = append(nb, b[h.MetadataOffset+ml:]...)
			h.MetadataLength = 0
			h.LeafDirectoryOffset -= ml
			h.TileDataOffset -= ml
			copy(nb, pmtiles.SerializeHeader(h))
			b = nb
		}
	case strings.HasPrefix(mod, "size"):
		// pad the (uncompressed) metadata with JSON whitespace so that the whole file has exactly N bytes:
		// versions of equal size but different layout (what a size-based version tag cannot tell apart)
		n, _ := strconv.Atoi(mod[4:])
		if h, err := pmtiles.DeserializeHeader(b[:127]); err == nil && h.InternalCompression == pmtiles.NoCompression && n > len(b) &&
			h.LeafDirectoryOffset == h.MetadataOffset+h.MetadataLength && h.TileDataOffset == h.LeafDirectoryOffset+h.LeafDirectoryLength {
			delta := uint64(n - len(b))
			end := h.MetadataOffset + h.MetadataLength
			nb := append([]byte{}, b[:end]...)
			nb = append(nb, bytes.Repeat([]byte{' '}, int(delta))...)
			nb = append(nb, b[end:]...)
			h.MetadataLength += delta
			h.LeafDirectoryOffset += delta
			h.TileDataOffset += delta
			copy(nb, pmtiles.SerializeHeader(h))
			b = nb
		}
	case strings.HasPrefix(mod, "corrupt"):
		kv := strings.Split(mod[7:], "=")
		o, _ := strconv.Atoi(kv[0])
		val, _ := strconv.ParseUint(kv[1], 10, 64)
		if o+8 <= len(b) {
			for k := 0; k < 8 && o+k < 127; k++ {
				b[o+k] = byte(val >> (8 * uint(k)))
			}
		}
	}
	return b
}

// SrvDebug prints the bucket calls and loop events of a script (diagnostics).
func SrvDebug(args []string) {
	cacheMB, _ := strconv.Atoi(args[0])
	res := runScript(cacheMB, strings.Fields(args[1]), true)
	for _, s := range res.gServed {
		fmt.Println("served", s)
	}
	for _, e := range res.log {
		fmt.Printf("%s %s %s %d+%d total=%d ncache=%d infl=%d w=%d %s\n", e.Kind, e.Name, e.Etag, e.Off, e.Len, e.Total, e.NCache, e.NInflightKeys, e.NWaiters, e.Detail)
	}
	fmt.Println(fmtResps(res.reqs), res.notes)
}
