package props

import (
	"context"
	"fmt"
	"os"
	"strconv"
	"strings"
	"time"

	"github.com/protomaps/go-pmtiles/pmtiles"
	"verifharness/core"
)

// C04 — tile lookup.
type C04 struct{}

func (C04) ID() string { return "C04" }
func (C04) Rule() string {
	return "lines `find t <entries>` (raw findTile via hook on sorted directories of 0..3 and up to thousands of entries, queries at first-1, id-1, id, id+rl-1, id+rl, last+rl, random) and `arch ic <tiledata> <dirs> Q t...` (whole archives built by the harness writer: depth 0..3, chosen leaf sizes, mixed tile/pointer directories, run lengths, shared contents, both internal compressions; queried through the real Server.Get over the in-memory bucket and through Show(tile) over the file backend at first/last ID of every directory and around every run); non-trivial = find with >= 2 entries or an archive with at least one leaf level; distinct by hash of the line"
}

const maxTileID = uint64(6148914691236517205) // base(32)

func queriesFor(r *core.Rng, es []pmtiles.EntryV3, maxQ int) []uint64 {
	var qs []uint64
	add := func(v uint64) {
		if v < maxTileID {
			qs = append(qs, v)
		}
	}
	if len(es) == 0 {
		add(0)
		add(r.U64() % 1000)
		return qs
	}
	add(es[0].TileID - 1)
	last := es[len(es)-1]
	add(last.TileID + uint64(last.RunLength))
	add(last.TileID + uint64(last.RunLength) + 1)
	idx := make([]int, 0)
	if len(es) <= maxQ/5 {
		for i := range es {
			idx = append(idx, i)
		}
	} else {
		for k := 0; k < maxQ/5; k++ {
			idx = append(idx, r.Intn(len(es)))
		}
		idx = append(idx, 0, len(es)-1)
	}
	for _, i := range idx {
		e := es[i]
		add(e.TileID - 1)
		add(e.TileID)
		add(e.TileID + uint64(e.RunLength) - 1)
		add(e.TileID + uint64(e.RunLength))
		if e.RunLength > 2 {
			add(e.TileID + uint64(r.Intn(int(e.RunLength))))
		}
	}
	for k := 0; k < 3; k++ {
		add(r.U64() % (last.TileID + 10))
	}
	return qs
}

func (C04) Gen(r *core.Rng, tier string, emit func(string)) {
	if tier == "thorough" {
		emit = cliDup(emit, []string{"arch"}, 9, 200)
	} else {
		emit = cliDup(emit, []string{"arch"}, 9, 20)
	}
	nFind, nArch := 20000, 1200
	if tier == "thorough" {
		nFind, nArch = 600000, 25000
	}
	for i := 0; i < nFind; i++ {
		es := randDir(r, dirGen{maxN: 3000, leafPtrs: true, bigDeltas: false})
		// make runs non-overlapping is not required for findTile; keep as drawn (ascending IDs)
		for _, q := range queriesFor(r, es, 10) {
			if i%3 == 0 || r.Chance(1, 4) {
				emit(fmt.Sprintf("find %d %s", q, fmtEntries(es)))
			}
		}
		if len(es) > 60 {
			i += 20 // big directories are expensive lines; weight them
		}
	}
	for i := 0; i < nArch; i++ {
		n := []int{0, 1, 2, 5, 30, 200, 1500}[r.Intn(7)]
		if n > 30 {
			n = 30 + r.Intn(n)
		}
		ts := randTileSet(r, n, maxTileID, r.Bool(), 6)
		depth := r.Intn(4)
		leafSize := []int{1, 2, 3, 7, 50}[r.Intn(5)]
		if len(ts.entries) > 300 && leafSize < 7 {
			leafSize = 7 + r.Intn(40)
		}
		ic := pmtiles.Compression(pmtiles.NoCompression)
		if r.Bool() {
			ic = pmtiles.Gzip
		}
		root := buildTree(r, ts.entries, depth, leafSize, r.Chance(1, 3))
		ba := assembleArchive(root, ts, ic, baseHeader(), []byte("{}"))
		// queries: around entries of every directory (first/last of each leaf) and around runs
		var qs []uint64
		for _, d := range ba.dirs {
			if len(d.entries) > 0 {
				f, l := d.entries[0], d.entries[len(d.entries)-1]
				for _, v := range []uint64{f.TileID - 1, f.TileID, l.TileID, l.TileID + uint64(l.RunLength) - 1, l.TileID + uint64(l.RunLength)} {
					if v < maxTileID {
						qs = append(qs, v)
					}
				}
			}
			if len(qs) > 60 {
				break
			}
		}
		qs = append(qs, queriesFor(r, ts.entries, 25)...)
		var sb strings.Builder
		fmt.Fprintf(&sb, "arch %s %s %s Q", compName(ic), hexs(ts.data), ba.dirsLine())
		for _, q := range qs {
			fmt.Fprintf(&sb, " %d", q)
		}
		emit(sb.String())
	}
	// a root directory that ends exactly at byte 16384 of the archive (127 + 16257: the largest the format allows),
	// one byte short of it, and well inside: the last byte of the first 16 KiB belongs to the root
	for _, target := range []int{16257, 16256, 16200} {
		n := (target - 2) / 4
		extra := target - 2 - 4*n // entries whose length takes a second varint byte
		data := make([]byte, 200)
		for i := range data {
			data[i] = byte('a' + i%26)
		}
		es := make([]pmtiles.EntryV3, n)
		for i := range es {
			l := uint32(3)
			if i < extra {
				l = 200
			}
			es[i] = pmtiles.EntryV3{TileID: uint64(1 + i), Offset: 0, Length: l, RunLength: 1}
		}
		ts := tileSet{entries: es, data: data}
		ba := assembleArchive(&archDir{entries: es, sub: make([]*archDir, n)}, ts, pmtiles.NoCompression, baseHeader(), []byte("{}"))
		if int(ba.header.RootLength) != target {
			continue // the construction did not land on the byte: nothing to say
		}
		var sb strings.Builder
		fmt.Fprintf(&sb, "arch none %s %s Q", hexs(data), ba.dirsLine())
		for _, q := range []uint64{0, 1, 2, uint64(extra), uint64(extra) + 1, uint64(n / 2), uint64(n) - 1, uint64(n), uint64(n) + 1} {
			fmt.Fprintf(&sb, " %d", q)
		}
		emit(sb.String())
	}
}

func baseHeader() pmtiles.HeaderV3 {
	return pmtiles.HeaderV3{MinZoom: 0, MaxZoom: 31, TileType: pmtiles.Png, TileCompression: pmtiles.NoCompression,
		MinLonE7: -1800000000, MinLatE7: -850000000, MaxLonE7: 1800000000, MaxLatE7: 850000000, Clustered: false}
}

func (C04) RunGo(line string) string {
	cliMode, t := splitCLI(strings.Fields(line))
	_ = cliMode
	switch t[0] {
	case "find":
		q, _ := strconv.ParseUint(t[1], 10, 64)
		es, _, ok := parseEntries(t[2:])
		if !ok {
			return "bad-case"
		}
		e, found := pmtiles.VerifFindTile(es, q)
		if !found {
			return "none"
		}
		return fmt.Sprintf("some %d:%d:%d:%d", e.TileID, e.Offset, e.Length, e.RunLength)
	case "arch":
		ic := compOf(t[1])
		data, ok := unhex(t[2])
		if !ok {
			return "bad-case"
		}
		dirs, rest, ok := parseDirsLine(t[3:])
		if !ok || len(rest) == 0 || rest[0] != "Q" || len(dirs) == 0 {
			return "bad-case"
		}
		ab, _ := archiveFromParsed(ic, data, dirs, baseHeader(), []byte("{}"))
		srv := newServer(map[string][]byte{"a.pmtiles": ab}, 64)
		path := scratchFile(".pmtiles")
		os.WriteFile(path, ab, 0o644)
		defer os.Remove(path)
		// all answers of one archive are collected first and printed afterwards: a body handed out by the
		// server must stay what it was while later requests are served (no shared or recycled buffers)
		type ans struct {
			st   int
			body []byte
			to   string
			cli  string
		}
		var answers []ans
		for _, qs := range rest[1:] {
			q, _ := strconv.ParseUint(qs, 10, 64)
			z, x, y := pmtiles.IDToZxy(q)
			var a ans
			res := core.RunWithTimeout(10*time.Second, func() string {
				st, _, body := srv.Get(context.Background(), fmt.Sprintf("/a/%d/%d/%d.png", z, x, y))
				a.st, a.body = st, body
				return ""
			})
			a.to = res
			tb, err := opTile(cliMode, path, int(z), int(x), int(y))
			if cliMode && string(tb) == "Tile not found in archive.\n" {
				tb = nil // the message the command prints on stdout for an absent tile
			}
			if err != nil {
				a.cli = " cli=err"
			} else {
				a.cli = " cli=" + hexs(tb)
			}
			answers = append(answers, a)
		}
		var outs []string
		for _, a := range answers {
			s := a.to
			if s == "" {
				if a.st == 200 {
					s = "srv=200:" + hexs(a.body)
				} else {
					s = fmt.Sprintf("srv=%d", a.st)
				}
			}
			outs = append(outs, s+a.cli)
		}
		return strings.Join(outs, " ")
	}
	return "bad-case"
}

func (C04) NonTrivial(line string) bool {
	cliMode, t := splitCLI(strings.Fields(line))
	_ = cliMode
	if t[0] == "find" {
		n, _ := strconv.Atoi(t[2])
		return n >= 2
	}
	nd, _ := strconv.Atoi(t[3])
	return nd >= 2
}

func (C04) Branch(line, goOut string) string {
	cliMode, t := splitCLI(strings.Fields(line))
	_ = cliMode
	if t[0] == "find" {
		return "find " + strings.SplitN(goOut, " ", 2)[0]
	}
	nd, _ := strconv.Atoi(t[3])
	b := "1"
	switch {
	case nd > 50:
		b = ">50"
	case nd > 5:
		b = "6-50"
	case nd > 1:
		b = "2-5"
	}
	return "arch " + t[1] + " dirs=" + b
}

// Oracle: linear scan of the independently flattened directory.
func (C04) Oracle(line, goOut string) string {
	cliMode, t := splitCLI(strings.Fields(line))
	_ = cliMode
	switch t[0] {
	case "find":
		q, _ := strconv.ParseUint(t[1], 10, 64)
		es, _, _ := parseEntries(t[2:])
		// last entry with id <= q
		want := "none"
		for i := len(es) - 1; i >= 0; i-- {
			if es[i].TileID <= q {
				e := es[i]
				if e.RunLength == 0 || q-e.TileID < uint64(e.RunLength) {
					want = fmt.Sprintf("some %d:%d:%d:%d", e.TileID, e.Offset, e.Length, e.RunLength)
				}
				break
			}
		}
		if goOut != want {
			return "findTile returned [" + goOut + "], linear scan says [" + want + "]"
		}
	case "arch":
		data, _ := unhex(t[2])
		dirs, rest, ok := parseDirsLine(t[3:])
		if !ok {
			return ""
		}
		// flatten by following pointers (independent of the code under test)
		byRange := map[[2]uint64][]pmtiles.EntryV3{}
		for _, d := range dirs[1:] {
			byRange[[2]uint64{d.off, d.length}] = d.entries
		}
		var flat []pmtiles.EntryV3
		var walk func(es []pmtiles.EntryV3, depth int)
		walk = func(es []pmtiles.EntryV3, depth int) {
			for _, e := range es {
				if e.RunLength > 0 {
					flat = append(flat, e)
				} else if depth < 3 {
					walk(byRange[[2]uint64{e.Offset, uint64(e.Length)}], depth+1)
				}
			}
		}
		walk(dirs[0].entries, 0)
		outs := strings.Fields(goOut)
		qs := rest[1:]
		if len(outs) != 2*len(qs) {
			return "malformed result: " + trunc(goOut, 200)
		}
		for i, qstr := range qs {
			q, _ := strconv.ParseUint(qstr, 10, 64)
			want := "srv=204 cli=-"
			for _, e := range flat {
				if e.TileID <= q && q < e.TileID+uint64(e.RunLength) {
					b := data[e.Offset : e.Offset+uint64(e.Length)]
					want = "srv=200:" + hexs(b) + " cli=" + hexs(b)
					break
				}
			}
			got := outs[2*i] + " " + outs[2*i+1]
			if got != want {
				z, x, y := pmtiles.IDToZxy(q)
				return fmt.Sprintf("tile id %d (%d/%d/%d): got [%s], archive stores [%s]", q, z, x, y, got, want)
			}
		}
	}
	return ""
}

func trunc(s string, n int) string {
	if len(s) > n {
		return s[:n] + "…"
	}
	return s
}
