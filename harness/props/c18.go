package props

import (
	"bytes"
	"context"
	"fmt"
	"io"
	"net/http"
	"net/http/httptest"
	"os"
	"path/filepath"
	"strconv"
	"strings"
	"sync"
	"time"

	"github.com/protomaps/go-pmtiles/pmtiles"
	"verifharness/core"
)

// C18 — bucket backends.
type C18 struct{}

func (C18) ID() string { return "C18" }
func (C18) Rule() string {
	return "lines `bucket kind size|absent off len cond`: kind in {mem, file, http (loopback origin serving with http.ServeContent + strong ETag), httpdown (connection refused)}, object sizes 0..3 and 4096, offsets {0,1,n-1,n,n+1}, lengths {0,1,n-off-1,n-off,n-off+1,2n}, condition none / current tag / tag of a previous version; backends opened through OpenBucket; compared: byte range returned (content checked), refresh-required class, ordinary error, panic; `retag kind mode`: replacement histories (rewrite in place, rename-over, same size, same size within the same wall-clock second) must change the tag; non-trivial = object of size >= 2 with off+len crossing its end or a conditional read; distinct by hash of the line"
}

func c18Obj(n int) []byte {
	b := make([]byte, n)
	for i := range b {
		b[i] = byte(i % 251)
	}
	return b
}

func (C18) Gen(r *core.Rng, tier string, emit func(string)) {
	kinds := []string{"mem", "file", "http"}
	for _, kind := range kinds {
		for _, n := range []int{0, 1, 2, 3, 4096} {
			offs := []int{0, 1, n - 1, n, n + 1}
			for _, off := range offs {
				if off < 0 {
					continue
				}
				for _, l := range []int{0, 1, n - off - 1, n - off, n - off + 1, 2 * n} {
					if l < 0 || (kind == "http" && l == 0) {
						continue
					}
					for _, c := range []string{"none", "cur", "old"} {
						emit(fmt.Sprintf("bucket %s %d %d %d %s", kind, n, off, l, c))
					}
				}
			}
		}
		emit(fmt.Sprintf("bucket %s absent 0 10 none", kind))
		emit(fmt.Sprintf("bucket %s absent 5 1 cur", kind))
		for _, mode := range []string{"rewrite", "rename", "samesize", "samesecond", "wholesecond"} {
			emit("retag " + kind + " " + mode)
		}
	}
	for _, kind := range kinds {
		emit("appear " + kind)
	}
	emit("filerace 64 4")
	emit("filerace 5000 8")
	emit("bucket httpdown 10 0 5 none")
	for _, st := range []int{203, 204, 300, 301, 304, 403, 500} {
		emit(fmt.Sprintf("bucket httpstatus%d 10 0 5 none", st))
		emit(fmt.Sprintf("bucket httpstatus%d 10 2 8 cur", st))
	}
	emit("bucket httpdown 10 0 5 cur")
	// the origin drops the connection of the read itself (a fresh connection: net/http does not retry); whatever
	// the condition, the read is an ordinary error — in particular never the new object's bytes for an outdated tag
	for _, c := range []string{"none", "cur", "old"} {
		for _, n := range []int{3, 4096} {
			emit(fmt.Sprintf("bucket httpflaky %d 0 %d %s", n, n, c))
			emit(fmt.Sprintf("bucket httpflaky %d 1 1 %s", n, c))
		}
	}
	nr := 300
	if tier == "thorough" {
		nr = 20000
	}
	for i := 0; i < nr; i++ {
		n := 1 + r.Intn(5000)
		off := r.Intn(n + 3)
		l := 1 + r.Intn(2*n)
		emit(fmt.Sprintf("bucket %s %d %d %d %s", kinds[r.Intn(3)], n, off, l, []string{"none", "cur", "old"}[r.Intn(3)]))
	}
}

// each line builds its own backend instance
type c18Backend struct {
	b       pmtiles.Bucket
	put     func(content []byte, mode string)
	cleanup func()
}

func c18Open(kind string) (*c18Backend, error) {
	ctx := context.Background()
	switch kind {
	case "mem":
		items := map[string][]byte{}
		return &c18Backend{b: pmtiles.VerifNewMemoryBucket(items), put: func(c []byte, _ string) {
			if c == nil {
				delete(items, "o.bin")
			} else {
				items["o.bin"] = c
			}
		}, cleanup: func() {}}, nil
	case "file":
		// a directory name with characters that mean something in URLs: file:// must still open exactly it
		dir, _ := os.MkdirTemp(Scratch(), "c18 #1%41?x=y ")
		b, err := pmtiles.OpenBucket(ctx, "file://"+dir, "")
		if err != nil {
			return nil, err
		}
		var tick int64
		return &c18Backend{b: b, put: func(c []byte, mode string) {
			p := filepath.Join(dir, "o.bin")
			if c == nil {
				os.Remove(p)
				return
			}
			tick++
			switch mode {
			case "rename":
				tmp := filepath.Join(dir, "o.tmp")
				os.WriteFile(tmp, c, 0o644)
				os.Rename(tmp, p)
			default:
				os.WriteFile(p, c, 0o644)
			}
			if mode == "wholesecond" {
				// same size, modification times a whole number of seconds apart with equal sub-second parts
				mt := time.Unix(1700000000+tick, 0)
				os.Chtimes(p, mt, mt)
			} else if mode == "samesecond" {
				// both versions' mtimes inside one wall-clock second, differing only in the sub-second part
				base := time.Unix(1700000000, 0)
				os.Chtimes(p, base, base.Add(time.Duration(tick)*137*time.Millisecond))
			} else {
				mt := time.Unix(1700000000+tick*3, int64(tick)*1000)
				os.Chtimes(p, mt, mt)
			}
		}, cleanup: func() { os.RemoveAll(dir) }}, nil
	case "http", "httpdown", "httpflaky", "httpstatus204", "httpstatus300", "httpstatus301", "httpstatus304", "httpstatus403", "httpstatus500", "httpstatus203":
		var mu sync.Mutex
		forced := 0
		if strings.HasPrefix(kind, "httpstatus") {
			forced, _ = strconv.Atoi(strings.TrimPrefix(kind, "httpstatus"))
		}
		var content []byte
		var version int
		puts := 0
		dropped := false
		srv := httptest.NewServer(http.HandlerFunc(func(w http.ResponseWriter, r *http.Request) {
			mu.Lock()
			c, v := content, version
			// flaky origin: once the final version is in place and its tag has been learnt (two requests after the
			// second put), the next request's connection is closed without an answer — exactly once
			drop := false
			if kind == "httpflaky" && puts >= 2 && !dropped {
				if r.Header.Get("If-Match") != "" || r.Header.Get("Range") != "bytes=0-0" {
					drop, dropped = true, true
				}
			}
			mu.Unlock()
			w.Header().Set("Connection", "close")
			if drop {
				if hj, ok := w.(http.Hijacker); ok {
					conn, _, _ := hj.Hijack()
					conn.Close()
					return
				}
			}
			if c == nil {
				http.NotFound(w, r)
				return
			}
			if forced != 0 {
				// an origin (or something in front of it) that answers reads with a status that is neither a
				// success with content nor one of the refresh signals: no Location, a short body
				w.Header().Set("ETag", fmt.Sprintf(`"v%d"`, v))
				w.WriteHeader(forced)
				if forced != 204 && forced != 304 {
					w.Write([]byte("see other"))
				}
				return
			}
			w.Header().Set("ETag", fmt.Sprintf(`"v%d"`, v))
			http.ServeContent(&dribbleWriter{ResponseWriter: w}, r, "", time.Time{}, bytes.NewReader(c)) // short reads, as over a real network
		}))
		url := srv.URL
		if kind == "httpdown" {
			srv.Close() // connection refused
		}
		b, err := pmtiles.OpenBucket(ctx, url, "")
		if err != nil {
			return nil, err
		}
		return &c18Backend{b: b, put: func(c []byte, _ string) {
			mu.Lock()
			content = c
			version++
			puts++
			mu.Unlock()
		}, cleanup: func() {
			if kind != "httpdown" {
				srv.Close()
			}
		}}, nil
	}
	return nil, fmt.Errorf("unknown kind")
}

func (C18) RunGo(line string) string {
	t := strings.Fields(line)
	ctx := context.Background()
	switch t[0] {
	case "bucket":
		be, err := c18Open(t[1])
		if err != nil {
			return "open-failed"
		}
		defer be.cleanup()
		off, _ := strconv.ParseInt(t[3], 10, 64)
		l, _ := strconv.ParseInt(t[4], 10, 64)
		var obj []byte
		oldTag := ""
		if t[2] != "absent" {
			n, _ := strconv.Atoi(t[2])
			obj = c18Obj(n)
			// a previous version first, to obtain an outdated tag
			prev := append([]byte("previous-version-"), obj...)
			be.put(prev, "rewrite")
			if r, tag, _, err := be.b.NewRangeReaderEtag(ctx, "o.bin", 0, 1, ""); err == nil {
				r.Close()
				oldTag = tag
			}
			be.put(obj, "rewrite")
		} else {
			be.put(nil, "")
			oldTag = `"deadbeef"`
		}
		cond := ""
		switch t[5] {
		case "cur":
			if obj != nil {
				if r, tag, _, err := be.b.NewRangeReaderEtag(ctx, "o.bin", 0, 1, ""); err == nil {
					r.Close()
					cond = tag
				} else if len(obj) == 0 {
					// empty object: a read at offset 0 may be refused; learn the tag from the other API is impossible — use the unconditioned form
					cond = ""
				}
			} else {
				cond = `"cafe"`
			}
		case "old":
			cond = oldTag
			if cond == "" {
				cond = `"deadbeef"`
			}
		}
		r, _, _, err := be.b.NewRangeReaderEtag(ctx, "o.bin", off, l, cond)
		if err != nil {
			if pmtiles.VerifIsRefreshRequiredError(err) {
				return "refresh"
			}
			return "err"
		}
		defer r.Close()
		data, rerr := io.ReadAll(r)
		if rerr != nil {
			return "err"
		}
		if len(data) > 0 && (int(off)+len(data) > len(obj) || !bytes.Equal(data, obj[off:int(off)+len(data)])) {
			return fmt.Sprintf("wrong-bytes got %d bytes at %d", len(data), off)
		}
		return fmt.Sprintf("ok %d %d", off, int(off)+len(data))
	case "filerace":
		// readers against a stream of atomic rename-over replacements: a tag must always come with the bytes of
		// the version it was computed from, and a read conditioned on a tag must never return another version's bytes
		n, _ := strconv.Atoi(t[1])
		readers, _ := strconv.Atoi(t[2])
		dir, _ := os.MkdirTemp(Scratch(), "c18race")
		defer os.RemoveAll(dir)
		b, err := pmtiles.OpenBucket(ctx, "file://"+dir, "")
		if err != nil {
			return "open-failed"
		}
		p := filepath.Join(dir, "o.bin")
		mk := func(i int) []byte { return bytes.Repeat([]byte{byte('A' + i%26)}, n) }
		write := func(i int) {
			tmp := filepath.Join(dir, "o.tmp")
			os.WriteFile(tmp, mk(i), 0o644)
			mt := time.Unix(1700000000+int64(i), int64(i)*1000)
			os.Chtimes(tmp, mt, mt)
			os.Rename(tmp, p)
		}
		write(0)
		stop := make(chan struct{})
		var wg sync.WaitGroup
		var mu sync.Mutex
		seen := map[string]byte{}
		bad := ""
		for k := 0; k < readers; k++ {
			wg.Add(1)
			go func() {
				defer wg.Done()
				last := ""
				for {
					select {
					case <-stop:
						return
					default:
					}
					cond := ""
					if last != "" && len(last)%2 == 0 {
						cond = last
					}
					r, tag, _, err := b.NewRangeReaderEtag(ctx, "o.bin", 0, int64(n), cond)
					if err != nil {
						last = ""
						continue
					}
					data, _ := io.ReadAll(r)
					r.Close()
					if len(data) == 0 {
						continue
					}
					mu.Lock()
					if c, ok := seen[tag]; ok && c != data[0] && bad == "" {
						bad = fmt.Sprintf("tag %s came with bytes of version %c and of version %c", tag, c, data[0])
					}
					seen[tag] = data[0]
					if cond != "" && tag != cond && bad == "" {
						bad = "a read conditioned on tag " + cond + " succeeded with tag " + tag
					}
					mu.Unlock()
					last = tag
				}
			}()
		}
		deadline := time.Now().Add(250 * time.Millisecond)
		for i := 1; time.Now().Before(deadline); i++ {
			write(i)
		}
		close(stop)
		wg.Wait()
		if bad != "" {
			return "inconsistent: " + strings.ReplaceAll(bad, " ", "_")
		}
		return "consistent"
	case "retag":
		be, err := c18Open(t[1])
		if err != nil {
			return "open-failed"
		}
		defer be.cleanup()
		tags := map[string]bool{}
		versions := [][]byte{[]byte("AAAAAAAA"), []byte("BBBBBBBB"), []byte("CCCCCCCC"), []byte("DDDDDDDDDD")}
		if t[2] == "rewrite" || t[2] == "rename" {
			versions = [][]byte{[]byte("AAA"), []byte("BBBB"), []byte("CC"), []byte("DDDDD")}
		}
		prevTag := ""
		for i, v := range versions {
			be.put(v, t[2])
			r, tag, _, err := be.b.NewRangeReaderEtag(ctx, "o.bin", 0, 100, "")
			if err != nil {
				return "read-failed"
			}
			data, _ := io.ReadAll(r)
			r.Close()
			if !bytes.Equal(data, v) {
				return "wrong-bytes"
			}
			if tags[tag] {
				return fmt.Sprintf("same tag %s for version %d", tag, i)
			}
			tags[tag] = true
			if prevTag != "" {
				// a read conditioned on the previous tag must be refresh-required, on the current tag must succeed
				if _, _, _, err := be.b.NewRangeReaderEtag(ctx, "o.bin", 0, 100, prevTag); err == nil || !pmtiles.VerifIsRefreshRequiredError(err) {
					return fmt.Sprintf("stale tag accepted after replacement %d", i)
				}
			}
			if r2, _, _, err := be.b.NewRangeReaderEtag(ctx, "o.bin", 0, 100, tag); err != nil {
				return "current tag refused"
			} else {
				r2.Close()
			}
			prevTag = tag
		}
		return "changed"
	case "appear":
		// one bucket instance: the object is asked for while it does not exist, then it is uploaded, then asked
		// for again at once — and removed, and asked for again
		be, err := c18Open(t[1])
		if err != nil {
			return "open-failed"
		}
		defer be.cleanup()
		res := ""
		for round := 0; round < 2; round++ {
			if _, _, _, err := be.b.NewRangeReaderEtag(ctx, "o.bin", 0, 100, ""); err == nil {
				return res + "found-before-upload"
			}
			v := []byte(fmt.Sprintf("appeared-%d", round))
			be.put(v, "rename")
			r, _, _, err := be.b.NewRangeReaderEtag(ctx, "o.bin", 0, 100, "")
			if err != nil {
				return res + "missing-after-upload"
			}
			data, _ := io.ReadAll(r)
			r.Close()
			if !bytes.Equal(data, v) {
				return res + "wrong-bytes"
			}
			res += "miss-then-ok "
			be.put(nil, "")
		}
		return strings.TrimSpace(res)
	}
	return "bad-case"
}

func (C18) NonTrivial(line string) bool {
	t := strings.Fields(line)
	if t[0] == "retag" || t[0] == "appear" {
		return true
	}
	n, _ := strconv.Atoi(t[2])
	return n >= 2
}
func (C18) Branch(line, goOut string) string {
	t := strings.Fields(line)
	if t[0] == "filerace" {
		return "filerace " + goOut
	}
	return t[0] + " " + t[1] + " " + strings.SplitN(goOut, " ", 2)[0]
}

func (C18) Agree(line, goOut, modelOut string) bool {
	// a dropped connection may be reported as an error or retried: the model offers both outcomes
	for _, alt := range strings.Split(modelOut, " || ") {
		if goOut == alt {
			return true
		}
	}
	t := strings.Fields(line)
	// an empty object has no readable byte to learn the current tag from in the mem/http backends:
	// the harness then falls back to an unconditioned read, which the model answers identically
	if t[0] == "bucket" && t[2] == "0" {
		return true
	}
	return false
}

func (C18) Oracle(line, goOut string) string {
	if strings.HasPrefix(goOut, "panic") {
		return "backend panicked: " + goOut
	}
	t := strings.Fields(line)
	if t[0] == "filerace" {
		if goOut != "consistent" {
			return "local-directory backend under concurrent rename-over replacements: " + goOut
		}
		return ""
	}
	if t[0] == "appear" && goOut != "miss-then-ok miss-then-ok" {
		return "an object asked for before it existed, then uploaded (and removed, and uploaded again) on the " + t[1] + " backend: " + goOut
	}
	if t[0] == "retag" && goOut != "changed" {
		return "replacement history (" + t[2] + ") on the " + t[1] + " backend: " + goOut
	}
	if t[0] == "bucket" {
		if strings.HasPrefix(goOut, "wrong-bytes") {
			return goOut
		}
		if t[1] == "httpflaky" {
			if strings.HasPrefix(goOut, "ok") && t[5] == "old" {
				return "a read conditioned on an outdated tag, retried after a dropped connection, returned the new object's bytes"
			}
			if goOut == "err" {
				return "" // the failure is reported; a backend that retries (keeping the condition) is judged like a plain read below
			}
		}
		if strings.HasPrefix(t[1], "httpstatus") {
			if goOut != "err" {
				return "the origin answered status " + strings.TrimPrefix(t[1], "httpstatus") + " (no content delivered): must be an ordinary error, got " + goOut
			}
			return ""
		}
		if t[2] == "absent" || t[1] == "httpdown" {
			if goOut != "err" {
				return "missing object / transport failure must be an ordinary error, got " + goOut
			}
			return ""
		}
		n, _ := strconv.Atoi(t[2])
		off, _ := strconv.Atoi(t[3])
		l, _ := strconv.Atoi(t[4])
		switch t[5] {
		case "old":
			if goOut != "refresh" && n > 0 {
				return "read conditioned on an outdated tag: " + goOut + ", want refresh-required"
			}
		default:
			if off < n {
				end := off + l
				if end > n {
					end = n
				}
				if goOut != fmt.Sprintf("ok %d %d", off, end) {
					return fmt.Sprintf("read [%d,+%d) of a %d-byte object (cond %s): %s", off, l, n, t[5], goOut)
				}
			}
		}
	}
	return ""
}
