package props

import (
	"math"
	"fmt"
	"os"
	"strconv"
	"strings"

	"github.com/protomaps/go-pmtiles/pmtiles"
	"verifharness/core"
)

// C05 — written directories.
type C05 struct{}

func (C05) ID() string { return "C05" }
func (C05) Rule() string {
	return "lines `build ls <entries>` (hook buildRootsLeaves, compression none, exact bytes vs model), `optcheck ic budget <entries> C <certificate>` (hook optimizeDirectories on lists of 0, 1, 16383, 16384, 16385, 4096k±1 … 3e5 (thorough 2e6) entries from regular to incompressible; the decoded root, leaf lengths and decoded leaves are the certificate the model checks against the OptResult relation) and `finroot seed n` (real finalize() on incompressible entry lists tuned by bisection so the gzip root lands in the 127-byte window below/above the budget); `f32mul bits` / `f32init n` / `f32member n ls` / `f32sched n ls` (the float32 leaf-size schedule: Go's `x *= 1.2`, `int(x)` and clamped initial value against the bit-exact model, and whether the leaf size the real loop settled on is a member of the modelled schedule — recorded, not a verdict); non-trivial = at least 2 leaves or a root within 200 bytes of the budget; distinct by hash of the line"
}

// ascending tile entries; style 0 = regular/compressible, 1 = incompressible (random deltas, lengths, scattered offsets)
func tileEntries(r *core.Rng, n int, style int) []pmtiles.EntryV3 {
	es := make([]pmtiles.EntryV3, n)
	var id, off uint64
	for i := 0; i < n; i++ {
		switch style {
		case 0:
			id++
			es[i] = pmtiles.EntryV3{TileID: id, Offset: off, Length: 100, RunLength: 1}
			off += 100
		case 1:
			id += 1 + r.U64()%(1<<20)
			l := uint32(1 + r.U64()%(1<<14))
			es[i] = pmtiles.EntryV3{TileID: id, Offset: r.U64() % (1 << 40), Length: l, RunLength: uint32(1 + r.Intn(3))}
		default:
			id += 1 + uint64(r.Intn(4))
			l := uint32(1 + r.Intn(2000))
			rl := uint32(1)
			if r.Chance(1, 5) {
				rl = uint32(1 + r.Intn(50))
			}
			es[i] = pmtiles.EntryV3{TileID: id, Offset: off, Length: l, RunLength: rl}
			id += uint64(rl) - 1
			if r.Chance(9, 10) {
				off += uint64(l)
			}
		}
	}
	return es
}

func decodeDirBytes(b []byte, ic pmtiles.Compression) ([]pmtiles.EntryV3, bool) {
	if ic == pmtiles.Gzip {
		p, err := gunzip(b)
		if err != nil {
			return nil, false
		}
		b = p
	}
	return specDecodeDir(b)
}

// certificate of an optimizeDirectories result: rootLen, decoded root, per-leaf (byte length, decoded entries)
// lastSched: entry count, number of leaves and length of the first leaf of the latest optimizeDirectories run
// (the leaf size the real loop settled on, when there are at least two leaves)
type schedObs [3]int

func optCertificate(es []pmtiles.EntryV3, budget int, ic pmtiles.Compression) (string, string) {
	c, bad, _ := optCertificateObs(es, budget, ic)
	return c, bad
}

func optCertificateObs(es []pmtiles.EntryV3, budget int, ic pmtiles.Compression) (string, string, schedObs) {
	var obs schedObs
	c, bad := optCertificateInto(es, budget, ic, &obs)
	return c, bad, obs
}

func optCertificateInto(es []pmtiles.EntryV3, budget int, ic pmtiles.Compression, lastSched *schedObs) (string, string) {
	root, leaves, n := pmtiles.VerifOptimizeDirectories(es, budget, ic)
	*lastSched = schedObs{len(es), n, 0}
	rootEntries, ok := decodeDirBytes(root, ic)
	if !ok {
		return "", "root does not decode"
	}
	var sb strings.Builder
	fmt.Fprintf(&sb, "%d %s", len(root), fmtEntries(rootEntries))
	if n == 0 {
		if len(leaves) != 0 {
			return "", "numLeaves = 0 but leaf bytes present"
		}
		sb.WriteString(" 0")
		return sb.String(), ""
	}
	fmt.Fprintf(&sb, " %d", len(rootEntries))
	if n != len(rootEntries) {
		return "", fmt.Sprintf("numLeaves=%d but root has %d entries", n, len(rootEntries))
	}
	for _, p := range rootEntries {
		if p.Offset+uint64(p.Length) > uint64(len(leaves)) {
			return "", "pointer outside the leaf section"
		}
		le, ok := decodeDirBytes(leaves[p.Offset:p.Offset+uint64(p.Length)], ic)
		if !ok {
			return "", "leaf does not decode"
		}
		if lastSched[2] == 0 {
			lastSched[2] = len(le)
		}
		fmt.Fprintf(&sb, " %d %s", p.Length, fmtEntries(le))
	}
	return sb.String(), ""
}

// f32Lines: the leaf size the real loop used (first of at least two leaves) against the bit-exact float32
// schedule of the model, and the arithmetic of one growth step on the values around it
func f32Lines(emit func(string), lastSched schedObs) {
	if lastSched[1] >= 2 && lastSched[2] > 0 {
		emit(fmt.Sprintf("f32sched %d %d", lastSched[0], lastSched[2]))
	}
}

// goSchedule: is ls a member of 4096, int(4096*1.2), … in Go's own float32 arithmetic (the expression of
// optimizeDirectories, re-evaluated here: this side of the line ties the MODEL's arithmetic to the compiler's)
func goSchedule(n, ls int) string {
	var leafSize float32
	leafSize = float32(n) / 3500
	if leafSize < 4096 {
		leafSize = 4096
	}
	for i := 0; i < 400; i++ {
		if int(leafSize) == ls {
			return "on"
		}
		if int(leafSize) > ls {
			return "off"
		}
		leafSize *= 1.2
	}
	return "off"
}

// entries for the end-to-end finalize run: incompressible id deltas and lengths, contiguous offsets (as a resolver produces them)
func finrootLens(seed uint64, n int) ([]uint64, []uint32) {
	r := core.NewRng(seed)
	ids := make([]uint64, n)
	lens := make([]uint32, n)
	var id uint64
	for i := 0; i < n; i++ {
		id += 1 + r.U64()%(1<<14)
		ids[i] = id
		lens[i] = uint32(1 + r.U64()%127)
	}
	return ids, lens
}

func finrootEntries(seed uint64, n int) []pmtiles.EntryV3 {
	ids, lens := finrootLens(seed, n)
	es := make([]pmtiles.EntryV3, n)
	var off uint64
	for i := range es {
		es[i] = pmtiles.EntryV3{TileID: ids[i], Offset: off, Length: lens[i], RunLength: 1}
		off += uint64(lens[i])
	}
	return es
}

func (C05) Gen(r *core.Rng, tier string, emit func(string)) {
	nBuild, nOpt, bigMax := 300, 40, 300000
	if tier == "thorough" {
		nBuild, nOpt, bigMax = 6000, 300, 2000000
	}
	for i := 0; i < nBuild; i++ {
		n := []int{0, 1, 2, 5, 17, 100, 1000}[r.Intn(7)]
		if n > 5 {
			n = n/2 + r.Intn(n)
		}
		es := tileEntries(r, n, r.Intn(3))
		ls := 1 + r.Intn(8)
		switch r.Intn(4) {
		case 0:
			if n > 0 {
				ls = n // exactly one leaf
			}
		case 1:
			ls = n + 1 + r.Intn(3)
		case 2:
			if n > 1 {
				ls = n - 1 // last leaf of one entry
			}
		}
		emit(fmt.Sprintf("build %d %s", ls, fmtEntries(es)))
	}
	// deduplicated contents: a reference back to an earlier content, then a fresh content that starts where the
	// data written so far ends (A B A C, A B C A D, …) — "contiguous with the previous entry" and "contiguous with
	// the end of the data" are different things
	for _, shape := range [][]int{{0, 1, 0, 2}, {0, 1, 2, 0, 3}, {0, 1, 0, 1, 2}, {0, 0, 1, 0, 2, 1, 3}} {
		var es []pmtiles.EntryV3
		id := uint64(r.Intn(50))
		for _, c := range shape {
			es = append(es, pmtiles.EntryV3{TileID: id, Offset: uint64(c) * 10, Length: 10, RunLength: 1})
			id += 1 + uint64(r.Intn(3))
		}
		for _, ls := range []int{1, 2, len(es), len(es) + 1} {
			emit(fmt.Sprintf("build %d %s", ls, fmtEntries(es)))
		}
	}
	budget := 16384 - 127
	sizes := []int{0, 1, 16383, 16384, 16385, 4095, 4096, 4097, 8191, 8193, 40000}
	for i := 0; i < nOpt; i++ {
		var n int
		if i < len(sizes) {
			n = sizes[i]
		} else {
			n = r.Intn(60000)
		}
		for _, style := range []int{0, 1, 2} {
			if n > 20000 && style != 1 && i%3 != 0 {
				continue
			}
			ic := pmtiles.Compression(pmtiles.Gzip)
			if r.Chance(1, 3) {
				ic = pmtiles.NoCompression
			}
			es := tileEntries(r, n, style)
			b := budget
			if r.Chance(1, 4) {
				b = 200 + r.Intn(4000) // small budgets force the growth loop through several rounds
			}
			cert, bad, obs := optCertificateObs(es, b, ic)
			if bad != "" {
				cert = "0 0 0 # " + strings.ReplaceAll(bad, " ", "_")
			}
			emit(fmt.Sprintf("optcheck %s %d %s C %s", compName(ic), b, fmtEntries(es), cert))
			f32Lines(emit, obs)
		}
	}
	for _, n := range []int{0, 1, 3500, 16384, 4096 * 3500 / 2, 14335999, 14335998, 14335744, 14336000, 14336001, 14337750, 1 << 24, 1<<24 + 1, 1<<24 + 3, 3500 << 24, 3500<<24 + 1750, 1<<40 + 1<<16, 1<<62 - 1, r.Intn(14336000), r.Intn(14336000)} {
		emit(fmt.Sprintf("f32init %d", n))
	}
	for i := 0; i < 200; i++ {
		// entry counts from 2^23 to 2^50 with few or many significant bits: both roundings (int→float32, /3500) at work
		n := int(r.U64()%(1<<27)) << uint(r.Intn(24))
		if i%3 == 0 {
			n = int(r.U64() % (1 << uint(24+r.Intn(26))))
		}
		emit(fmt.Sprintf("f32init %d", n))
		if i%10 == 0 {
			x := float32(n) / 3500
			if x < 4096 {
				x = 4096
			}
			for k := r.Intn(6); k > 0; k-- {
				x *= 1.2
			}
			emit(fmt.Sprintf("f32member %d %d", n, int(x)))
			emit(fmt.Sprintf("f32member %d %d", n, int(x)+1))
		}
	}
	// one growth step on arbitrary float32 values from 4096 up to 2^63 (mantissas random, all-ones, ties)
	for i := 0; i < 400; i++ {
		exp := uint64(139 + r.Intn(51))
		man := r.U64() % (1 << 23)
		switch i % 8 {
		case 0:
			man = (1 << 23) - 1 - uint64(r.Intn(4))
		case 1:
			man = uint64(r.Intn(4))
		case 2:
			man = (r.U64() % (1 << 23)) &^ 0xfff // few significant bits: products that end in exact ties
		}
		emit(fmt.Sprintf("f32mul %d", exp<<23|man))
	}
	// tiny budgets on long scattered lists: the first leaf size (4096) gives a root of 8–25 pointers that
	// does not fit, so the growth loop must run several rounds (a root of one pointer always fits: ≥ 64 bytes)
	nTiny := 6
	if tier == "thorough" {
		nTiny = 60
	}
	for i := 0; i < nTiny; i++ {
		n := 30000 + r.Intn(70000)
		ic := pmtiles.Compression(pmtiles.Gzip)
		b := 64 + r.Intn(70)
		if i%2 == 1 {
			ic = pmtiles.NoCompression
			b = 40 + r.Intn(80)
		}
		es := tileEntries(r, n, 1)
		cert, bad, obs := optCertificateObs(es, b, ic)
		if bad != "" {
			cert = "0 0 0 # " + strings.ReplaceAll(bad, " ", "_")
		}
		emit(fmt.Sprintf("optcheck %s %d %s C %s", compName(ic), b, fmtEntries(es), cert))
		f32Lines(emit, obs)
	}
	// short lists of FAT entries (sparse IDs, scattered offsets, long lengths: well over 8 bytes each, and nothing
	// for gzip to find): whether a list fits the root is a matter of its bytes, not of its length
	for _, n := range []int{900, 1400, 1900, 2032, 2033} {
		es := make([]pmtiles.EntryV3, n)
		id := uint64(0)
		for i := range es {
			id += 1 + r.U64()%(1<<40)
			es[i] = pmtiles.EntryV3{TileID: id, Offset: r.U64() % (1 << 45), Length: uint32(1 + r.U64()%(1<<28)), RunLength: uint32(1 + r.U64()%(1<<20))}
		}
		for _, ic := range []pmtiles.Compression{pmtiles.Gzip, pmtiles.NoCompression} {
			cert, bad := optCertificate(es, budget, ic)
			if bad != "" {
				cert = "0 0 0 # " + strings.ReplaceAll(bad, " ", "_")
			}
			emit(fmt.Sprintf("optcheck %s %d %s C %s", compName(ic), budget, fmtEntries(es), cert))
		}
	}
	// a few very large lists
	for _, n := range []int{bigMax, bigMax/2 + 1} {
		es := tileEntries(r, n, 1)
		cert, _ := optCertificate(es, budget, pmtiles.Gzip)
		emit(fmt.Sprintf("optcheck gzip %d %s C %s", budget, fmtEntries(es), cert))
	}
	// end to end through finalize(): tune n so that the single gzip root lands around the budget
	nSeeds := 2
	if tier == "thorough" {
		nSeeds = 8
	}
	for s := 0; s < nSeeds; s++ {
		seed := r.U64() % 1000000
		full := finrootEntries(seed, 9000)
		lo, hi := 1, 9000
		for lo < hi { // smallest n whose single-directory encoding exceeds the budget
			mid := (lo + hi) / 2
			if len(pmtiles.SerializeEntries(full[:mid], pmtiles.Gzip)) > budget {
				hi = mid
			} else {
				lo = mid + 1
			}
		}
		for n := lo - 4; n < lo+70; n++ {
			if n > 0 && n <= 9000 {
				emit(fmt.Sprintf("finroot %d %d", seed, n))
				if s == 0 {
					emit(fmt.Sprintf("finrootx %d %d", seed, n)) // the other writer of a root directory: a whole-archive Extract
				}
			}
		}
	}
}

func (C05) RunGo(line string) string {
	t, _ := stripComment(strings.Fields(line))
	switch t[0] {
	case "build":
		ls, _ := strconv.Atoi(t[1])
		es, _, ok := parseEntries(t[2:])
		if !ok {
			return "bad-case"
		}
		root, leaves, n := pmtiles.VerifBuildRootsLeaves(es, ls, pmtiles.NoCompression)
		return fmt.Sprintf("%s %s %d", hexs(root), hexs(leaves), n)
	case "optcheck":
		ic := compOf(t[1])
		budget, _ := strconv.Atoi(t[2])
		es, rest, ok := parseEntries(t[3:])
		if !ok || len(rest) == 0 || rest[0] != "C" {
			return "bad-case"
		}
		cert, bad := optCertificate(es, budget, ic)
		if bad != "" {
			return "uncheckable: " + bad
		}
		if cert != strings.Join(rest[1:], " ") {
			return "cert-differs-from-recorded"
		}
		return "ok"
	case "f32mul":
		b, _ := strconv.ParseUint(t[1], 10, 32)
		x := math.Float32frombits(uint32(b))
		y := x
		y *= 1.2
		return fmt.Sprintf("%d %d", math.Float32bits(y), int64(x))
	case "f32sched", "f32member":
		n, _ := strconv.Atoi(t[1])
		ls, _ := strconv.Atoi(t[2])
		return goSchedule(n, ls)
	case "f32init":
		// the initial leaf size after the clamp: float32(n)/3500, two roundings, at least 4096
		n, _ := strconv.Atoi(t[1])
		var leafSize float32
		leafSize = float32(n) / 3500
		if leafSize < 4096 {
			leafSize = 4096
		}
		return fmt.Sprintf("%d", math.Float32bits(leafSize))
	case "finroot":
		seed, _ := strconv.ParseUint(t[1], 10, 64)
		n, _ := strconv.Atoi(t[2])
		return runFinroot(seed, n)
	case "finrootx":
		seed, _ := strconv.ParseUint(t[1], 10, 64)
		n, _ := strconv.Atoi(t[2])
		return runFinrootExtract(seed, n)
	}
	return "bad-case"
}

// runFinrootExtract: the same entry list as a clustered source archive (its own directories in leaves), extracted
// whole by the real Extract; reports where the root directory of the OUTPUT ends.
func runFinrootExtract(seed uint64, n int) string {
	es := finrootEntries(seed, n)
	buf := make([]byte, 128)
	for i := range buf {
		buf[i] = byte(i)
	}
	var data []byte
	for _, e := range es {
		data = append(data, buf[:e.Length]...)
	}
	ts := tileSet{entries: es, data: data}
	h := baseHeader()
	h.Clustered, h.TileType = true, pmtiles.Png
	z0, _, _ := pmtiles.IDToZxy(es[0].TileID)
	z1, _, _ := pmtiles.IDToZxy(es[len(es)-1].TileID)
	h.MinZoom, h.MaxZoom, h.CenterZoom = z0, z1, z0
	root := buildTree(core.NewRng(seed), es, 1, 1500, false)
	ba := assembleArchive(root, ts, pmtiles.Gzip, h, []byte("{}"))
	src := scratchFile(".pmtiles")
	out := scratchFile(".out.pmtiles")
	defer os.Remove(src)
	defer os.Remove(out)
	os.WriteFile(src, ba.bytes, 0o644)
	if err := pmtiles.Extract(discardLogger, "", src, -1, -1, "", "", out, 2, 0.05, false); err != nil {
		return "extract-failed " + strings.ReplaceAll(trunc2(err.Error(), 60), " ", "_")
	}
	fb, err := os.ReadFile(out)
	if err != nil || len(fb) < 127 {
		return "no-output"
	}
	fh, err := pmtiles.DeserializeHeader(fb[:127])
	if err != nil {
		return "header-unreadable"
	}
	if fh.TileEntriesCount != uint64(n) {
		return fmt.Sprintf("entries=%d want %d", fh.TileEntriesCount, n)
	}
	if end := fh.RootOffset + fh.RootLength; fh.RootOffset < 127 || end > 16384 {
		return fmt.Sprintf("exceeds end=%d", end)
	}
	return "within"
}

func trunc2(s string, n int) string {
	if len(s) > n {
		return s[:n]
	}
	return s
}

// runFinroot drives the real finalize() (as convert does) and reports where the root directory ends.
func runFinroot(seed uint64, n int) string {
	ids, lens := finrootLens(seed, n)
	res := pmtiles.VerifNewResolver(false, false)
	tmp, err := os.CreateTemp(Scratch(), "tiles")
	if err != nil {
		return "tmpfile-failed"
	}
	defer os.Remove(tmp.Name())
	defer tmp.Close()
	buf := make([]byte, 128)
	for i := range buf {
		buf[i] = byte(i)
	}
	for i := 0; i < n; i++ {
		if isNew, data := res.AddTileIsNew(ids[i], buf[:lens[i]], 1); isNew {
			tmp.Write(data)
		}
	}
	header, _, err := pmtiles.VerifMbtilesToHeaderJSON([]string{"format", "png", "bounds", "-10,-10,10,10"})
	if err != nil {
		return "header-failed"
	}
	out := scratchFile(".pmtiles")
	defer os.Remove(out)
	h, err := pmtiles.VerifFinalize(discardLogger, res, header, tmp, out, map[string]interface{}{})
	if err != nil {
		return "finalize-failed " + err.Error()
	}
	end := h.RootOffset + h.RootLength
	if h.RootOffset < 127 || end > 16384 {
		return fmt.Sprintf("exceeds end=%d", end)
	}
	// and the file really has it there
	fb, _ := os.ReadFile(out)
	fh, err := pmtiles.DeserializeHeader(fb[:127])
	if err != nil || fh.RootOffset+fh.RootLength != end {
		return "header-mismatch"
	}
	return "within"
}

func (C05) NonTrivial(line string) bool {
	t := strings.Fields(line)
	switch t[0] {
	case "build":
		ls, _ := strconv.Atoi(t[1])
		n, _ := strconv.Atoi(t[2])
		return ls > 0 && n > ls
	case "optcheck":
		n, _ := strconv.Atoi(t[3])
		return n >= 16384 || n > 2000
	}
	return true
}

func (C05) Branch(line, goOut string) string {
	t := strings.Fields(line)
	switch t[0] {
	case "optcheck":
		n, _ := strconv.Atoi(t[3])
		sz := "n<16384"
		if n >= 16384 {
			sz = "n>=16384"
		}
		return "optcheck " + t[1] + " " + sz
	case "finroot", "finrootx":
		return t[0] + " " + strings.SplitN(goOut, " ", 2)[0]
	case "f32sched":
		if goOut != "on" {
			return "f32sched: leaf size of the real loop " + goOut + " the modelled float32 schedule (" + line + ")"
		}
		return "f32sched: leaf size of the real loop on the modelled float32 schedule"
	}
	return t[0]
}

// Oracle: the property's predicates on Go's output through the independent decoder.
func (C05) Oracle(line, goOut string) string {
	t, _ := stripComment(strings.Fields(line))
	switch t[0] {
	case "build":
		ls, _ := strconv.Atoi(t[1])
		es, _, _ := parseEntries(t[2:])
		root, leaves, n := pmtiles.VerifBuildRootsLeaves(es, ls, pmtiles.NoCompression)
		return checkRootLeaves(es, root, leaves, n, pmtiles.NoCompression, 1<<40)
	case "optcheck":
		ic := compOf(t[1])
		budget, _ := strconv.Atoi(t[2])
		es, _, _ := parseEntries(t[3:])
		root, leaves, n := pmtiles.VerifOptimizeDirectories(es, budget, ic)
		if budget+127 > 16384 {
			budget = 16384 - 127
		}
		return checkRootLeaves(es, root, leaves, n, ic, budget)
	case "finroot", "finrootx":
		if goOut != "within" {
			return "archive written by " + map[string]string{"finroot": "finalize()", "finrootx": "Extract"}[t[0]] + ": header + root directory not within the first 16384 bytes: " + goOut
		}
	}
	return ""
}

func checkRootLeaves(es []pmtiles.EntryV3, root, leaves []byte, n int, ic pmtiles.Compression, budget int) string {
	if len(root) > budget {
		return fmt.Sprintf("root directory is %d bytes, budget %d", len(root), budget)
	}
	re, ok := decodeDirBytes(root, ic)
	if !ok {
		return "root does not decode"
	}
	if n == 0 {
		if fmtEntries(re) != fmtEntries(es) || len(leaves) != 0 {
			return "root-only result does not reproduce the entries"
		}
		return ""
	}
	var pos uint64
	var all []pmtiles.EntryV3
	for i, p := range re {
		if p.RunLength != 0 {
			return fmt.Sprintf("root entry %d has run length %d, want 0", i, p.RunLength)
		}
		if p.Offset != pos {
			return fmt.Sprintf("leaf %d starts at %d, previous leaf ended at %d (gap/overlap)", i, p.Offset, pos)
		}
		if p.Offset+uint64(p.Length) > uint64(len(leaves)) {
			return fmt.Sprintf("leaf %d reaches outside the leaf section", i)
		}
		le, ok := decodeDirBytes(leaves[p.Offset:p.Offset+uint64(p.Length)], ic)
		if !ok || len(le) == 0 {
			return fmt.Sprintf("leaf %d does not decode", i)
		}
		if le[0].TileID != p.TileID {
			return fmt.Sprintf("pointer %d has tile ID %d, its leaf starts with %d", i, p.TileID, le[0].TileID)
		}
		all = append(all, le...)
		pos += uint64(p.Length)
	}
	if pos != uint64(len(leaves)) {
		return "leaf section has trailing bytes not covered by a pointer"
	}
	if fmtEntries(all) != fmtEntries(es) {
		return "reading root then leaves does not reproduce the entries in order"
	}
	return ""
}
