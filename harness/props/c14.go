package props

import (
	"bytes"
	"encoding/json"
	"fmt"
	"os"
	"os/exec"
	"strconv"
	"strings"
	"syscall"

	"github.com/protomaps/go-pmtiles/pmtiles"
	"verifharness/core"
)

// C14 — edit.
type C14 struct{}

func (C14) ID() string { return "C14" }
func (C14) Rule() string {
	return "lines `e7 <decimal>` (all E7 corner values and random ones with 0–7 decimals through the real degrees→E7 conversion vs exact rational rounding), `hjson <header>` (headerToJson's floats converted back), `edit <header> H <edit|-> A <sections> N <new metadata section|->` (real pmtiles.Edit on temp copies: header-only and metadata paths, every type/compression name, zooms 0–255, unicode/nested metadata; whole file compared with the model), `showedit <header> A <sections>` (real Show --header-json fed back into Edit: file byte-identical) and `editcrash limit …` (child process under RLIMIT_FSIZE = limit for every 257th output size and densely over the last 4200 bytes: the archive path must hold the old or the fully edited file); non-trivial = edit that changes at least two fields or the metadata; distinct by hash of the line"
}

func decimalOfE7(v int64, digits int) string {
	neg := v < 0
	if neg {
		v = -v
	}
	s := fmt.Sprintf("%d.%07d", v/10000000, v%10000000)
	s = s[:len(s)-(7-digits)]
	s = strings.TrimSuffix(s, ".")
	if neg {
		s = "-" + s
	}
	return s
}

type c14Arch struct {
	h                         pmtiles.HeaderV3
	root, meta, leaves, tiles []byte
}

// the file: every section at the offset its header declares (gaps zero-filled)
func (a c14Arch) file() []byte {
	end := func(o uint64, b []byte) uint64 { return o + uint64(len(b)) }
	size := uint64(127)
	for _, e := range []uint64{end(a.h.RootOffset, a.root), end(a.h.MetadataOffset, a.meta), end(a.h.LeafDirectoryOffset, a.leaves), end(a.h.TileDataOffset, a.tiles)} {
		if e > size && e < 1<<24 {
			size = e
		}
	}
	out := make([]byte, size)
	copy(out, pmtiles.SerializeHeader(a.h))
	put := func(o uint64, b []byte) {
		if o+uint64(len(b)) <= size {
			copy(out[o:], b)
		}
	}
	put(a.h.RootOffset, a.root)
	put(a.h.MetadataOffset, a.meta)
	put(a.h.LeafDirectoryOffset, a.leaves)
	put(a.h.TileDataOffset, a.tiles)
	return out
}

func (a c14Arch) line() string {
	return fmt.Sprintf("%s A %s %s %s %s", hdrFields(a.h), hexs(a.root), hexs(a.meta), hexs(a.leaves), hexs(a.tiles))
}

func randC14Arch(r *core.Rng, tileBytes int) c14Arch {
	ts := randTileSet(r, 1+r.Intn(12), base(4), true, 9)
	if tileBytes > 0 {
		ts = tileSet{entries: []pmtiles.EntryV3{{TileID: 0, Offset: 0, Length: uint32(tileBytes), RunLength: 1}}, data: r.Bytes(tileBytes)}
	}
	ic := pmtiles.Compression(pmtiles.Gzip)
	if r.Bool() {
		ic = pmtiles.NoCompression
	}
	h := baseHeader()
	h.TileType = pmtiles.TileType(1 + r.Intn(5))
	h.TileCompression = pmtiles.Compression(1 + r.Intn(4))
	h.MinZoom, h.MaxZoom, h.CenterZoom = uint8(r.Intn(4)), uint8(3+r.Intn(10)), uint8(r.Intn(4))
	h.MinLonE7, h.MinLatE7, h.MaxLonE7, h.MaxLatE7 = int32(r.U64()), int32(r.U64()), int32(r.U64()), int32(r.U64())
	h.CenterLonE7, h.CenterLatE7 = int32(r.U64()), int32(r.U64())
	h.Clustered = r.Bool()
	root := buildTree(r, ts.entries, r.Intn(2), 1+r.Intn(5), false)
	ba := assembleArchive(root, ts, ic, h, []byte(`{"name":"orig","n":1}`))
	hh := ba.header
	defer func() {}()
	if tileBytes == 0 && r.Chance(1, 4) {
		// a valid archive whose root does not start at byte 127 (padding after the header, gaps between sections)
		pad := uint64(1 + r.Intn(40))
		g := c14Arch{hh, ba.bytes[hh.RootOffset : hh.RootOffset+hh.RootLength], ba.bytes[hh.MetadataOffset : hh.MetadataOffset+hh.MetadataLength],
			ba.bytes[hh.LeafDirectoryOffset : hh.LeafDirectoryOffset+hh.LeafDirectoryLength], ba.bytes[hh.TileDataOffset : hh.TileDataOffset+hh.TileDataLength]}
		g.h.RootOffset += pad
		g.h.MetadataOffset += pad + uint64(r.Intn(3))
		g.h.LeafDirectoryOffset = g.h.MetadataOffset + g.h.MetadataLength + uint64(r.Intn(3))
		g.h.TileDataOffset = g.h.LeafDirectoryOffset + g.h.LeafDirectoryLength + uint64(r.Intn(3))
		return g
	}
	return c14Arch{hh, ba.bytes[hh.RootOffset : hh.RootOffset+hh.RootLength], ba.bytes[hh.MetadataOffset : hh.MetadataOffset+hh.MetadataLength],
		ba.bytes[hh.LeafDirectoryOffset : hh.LeafDirectoryOffset+hh.LeafDirectoryLength], ba.bytes[hh.TileDataOffset : hh.TileDataOffset+hh.TileDataLength]}
}

var c14Metas = []string{`{"name":"ü new","vector_layers":[{"id":"a"}],"nested":{"x":[1,2.5,{"y":null}]}}`, `{}`, `{"attribution":"© x","description":"d"}`}

func randEditFields(r *core.Rng) string {
	tts := []string{"mvt", "png", "jpg", "webp", "avif", "bogus", "MVT"}
	tcs := []string{"none", "gzip", "br", "zstd", "bogus"}
	dec := func() string {
		switch r.Intn(5) {
		case 0:
			return decimalOfE7([]int64{0, 1, -1, 2147483647, -2147483648, 1800000000, -1800000000, 435029000}[r.Intn(8)], 7)
		default:
			d := r.Intn(8)
			v := int64(int32(r.U64()))
			scale := int64(1)
			for k := 0; k < 7-d; k++ {
				scale *= 10
			}
			return decimalOfE7(v/scale*scale, d)
		}
	}
	zoom := func() int {
		if r.Chance(1, 5) {
			return 0 // an explicit zero must be applied like any other value
		}
		return r.Intn(256)
	}
	return fmt.Sprintf("%s %s %d %d %s %s %s %s %s %s %d", tts[r.Intn(len(tts))], tcs[r.Intn(len(tcs))], zoom(), zoom(), dec(), dec(), dec(), dec(), dec(), dec(), zoom())
}

func headerJSONText(f []string) string {
	return fmt.Sprintf(`{"tile_type":%q,"tile_compression":%q,"minzoom":%s,"maxzoom":%s,"bounds":[%s,%s,%s,%s],"center":[%s,%s,%s]}`, f[0], f[1], f[2], f[3], f[4], f[5], f[6], f[7], f[8], f[9], f[10])
}

// run the real Edit on a temp copy; returns the resulting file
func runEdit(a c14Arch, editFields []string, meta string) ([]byte, error) {
	path := scratchFile(".pmtiles")
	os.WriteFile(path, a.file(), 0o644)
	defer os.Remove(path)
	defer os.Remove(path + ".tmp")
	hj, mf := "", ""
	if editFields != nil {
		hj = scratchFile(".json")
		os.WriteFile(hj, []byte(headerJSONText(editFields)), 0o644)
		defer os.Remove(hj)
	}
	if meta != "" {
		mf = scratchFile(".meta.json")
		os.WriteFile(mf, []byte(meta), 0o644)
		defer os.Remove(mf)
	}
	if err := pmtiles.Edit(discardLogger, path, hj, mf); err != nil {
		return nil, err
	}
	return os.ReadFile(path)
}

func parseC14Arch(t []string) (c14Arch, []string, bool) {
	var a c14Arch
	if len(t) < 30 {
		return a, nil, false
	}
	h, ok := parseHdrFields(t[:25])
	if !ok {
		return a, nil, false
	}
	a.h = h
	rest := t[25:]
	var editT []string
	if rest[0] == "H" {
		editT, rest = splitTok(rest[1:], "A")
	} else if rest[0] == "A" {
		rest = rest[1:]
	}
	if len(rest) < 4 {
		return a, nil, false
	}
	a.root, _ = unhex(rest[0])
	a.meta, _ = unhex(rest[1])
	a.leaves, _ = unhex(rest[2])
	a.tiles, _ = unhex(rest[3])
	_ = editT
	return a, rest[4:], true
}

func (C14) Gen(r *core.Rng, tier string, emit func(string)) {
	n := 4000
	nEdit := 120
	if tier == "thorough" {
		n, nEdit = 400000, 4000
	}
	for _, v := range []int64{0, 1, -1, 2147483647, -2147483648, 1800000000, -1800000000, 435029000, 435028999, -1367823872} {
		for d := 0; d <= 7; d++ {
			scale := int64(1)
			for k := 0; k < 7-d; k++ {
				scale *= 10
			}
			emit("e7 " + decimalOfE7(v/scale*scale, d))
		}
	}
	for i := 0; i < n; i++ {
		d := r.Intn(8)
		v := int64(int32(r.U64()))
		scale := int64(1)
		for k := 0; k < 7-d; k++ {
			scale *= 10
		}
		emit("e7 " + decimalOfE7(v/scale*scale, d))
		if i%4 == 0 {
			h := randHeader(r)
			h.TileType = pmtiles.TileType(r.Intn(7))
			h.TileCompression = pmtiles.Compression(r.Intn(6))
			emit("hjson " + hdrFields(h))
		}
	}
	for i := 0; i < nEdit; i++ {
		a := randC14Arch(r, 0)
		var fields []string
		fl := "-"
		if r.Chance(2, 3) {
			fl = randEditFields(r)
			fields = strings.Fields(fl)
		}
		meta := ""
		if r.Chance(1, 2) || fields == nil {
			meta = c14Metas[r.Intn(len(c14Metas))]
		}
		cert := "-"
		if meta != "" {
			out, err := runEdit(a, fields, meta)
			if err != nil || len(out) < 127 {
				continue
			}
			oh, _ := pmtiles.DeserializeHeader(out[:127])
			if oh.MetadataOffset+oh.MetadataLength > uint64(len(out)) {
				continue
			}
			cert = hexs(out[oh.MetadataOffset : oh.MetadataOffset+oh.MetadataLength])
		}
		mh := "-"
		if meta != "" {
			mh = hexs([]byte(meta))
		}
		emit(fmt.Sprintf("edit %s H %s A %s %s %s %s N %s # %s", hdrFields(a.h), fl, hexs(a.root), hexs(a.meta), hexs(a.leaves), hexs(a.tiles), cert, mh))
		if i%3 == 0 {
			emit("showedit " + a.line())
		}
		if i%12 == 1 {
			// degenerate descriptive fields are data like any other: zero bounds / zero center / zoom 0 must come
			// back from `show` exactly as stored
			z := a
			switch (i / 12) % 3 {
			case 0:
				z.h.MinLonE7, z.h.MinLatE7, z.h.MaxLonE7, z.h.MaxLatE7 = 0, 0, 0, 0
			case 1:
				z.h.CenterLonE7, z.h.CenterLatE7, z.h.CenterZoom = 0, 0, 0
			default:
				z.h.MinLonE7, z.h.MinLatE7, z.h.MaxLonE7, z.h.MaxLatE7 = 0, 0, 0, 0
				z.h.CenterLonE7, z.h.CenterLatE7, z.h.CenterZoom, z.h.MinZoom, z.h.MaxZoom = 0, 0, 0, 0, 0
			}
			emit("showedit " + z.line())
		}
	}
	// crash injection: tile section of 32768+1500 bytes (the last io.Copy chunk is small), limits over the whole output
	a := randC14Arch(core.NewRng(7), 32768+1500)
	meta := c14Metas[0]
	full, err := runEdit(a, nil, meta)
	if err == nil {
		step := 257
		if tier == "thorough" {
			step = 61
		}
		limits := []int{}
		for l := 0; l < len(full); l += step {
			limits = append(limits, l)
		}
		for l := len(full) - 4200; l <= len(full)+1; l += 97 {
			if l > 0 {
				limits = append(limits, l)
			}
		}
		limits = append(limits, len(full)-1, len(full), len(full)+1, 126, 127, 128)
		for _, l := range limits {
			emit(fmt.Sprintf("editcrash %d %s # %s", l, a.line(), hexs([]byte(meta))))
		}
		// the same through the command line (`pmtiles edit FILE --header-json=… --metadata=…`, the real binary):
		// option handling is part of what must leave the archive old or new
		for i, l := range limits {
			if i%4 == 0 || l >= len(full)-200 {
				emit(fmt.Sprintf("editcli %d %s # %s", l, a.line(), hexs([]byte(meta))))
			}
		}
		// header-only path under a limit, too
		// the in-place path is one 127-byte write at offset 0, assumed atomic (sub-page pwrite); a size limit below
		// 127 bytes on an existing larger file would tear it and is outside the modelled failures
		for _, l := range []int{127, 128, 4096, len(full)} {
			emit(fmt.Sprintf("editcrash %d %s # -", l, a.line()))
		}
	}
	// an archive without tiles: nothing is written after the new metadata, so a failure inside it has no later
	// write to be noticed by
	z := zeroTileArch()
	zmeta := `{"name":"empty, edited","description":"` + strings.Repeat("still no tiles ", 20) + `"}`
	if zfull, err := runEdit(z, nil, zmeta); err == nil {
		step := 5
		if tier == "thorough" {
			step = 1
		}
		for l := 127; l <= len(zfull)+1; l += step {
			emit(fmt.Sprintf("editcrash %d %s # %s", l, z.line(), hexs([]byte(zmeta))))
		}
		emit(fmt.Sprintf("editcrash %d %s # %s", len(zfull)-1, z.line(), hexs([]byte(zmeta))))
		emit(fmt.Sprintf("editcrash %d %s # %s", len(zfull), z.line(), hexs([]byte(zmeta))))
	}
}

// zeroTileArch: a legal archive without tiles — empty root directory, no leaf directories, no tile data: the
// metadata is the last thing an edit writes
func zeroTileArch() c14Arch {
	h := baseHeader()
	h.TileType = pmtiles.Mvt
	h.MinZoom, h.MaxZoom, h.CenterZoom = 0, 0, 0
	ba := assembleArchive(&archDir{}, tileSet{}, pmtiles.Gzip, h, []byte(`{"name":"empty","description":"`+strings.Repeat("no tiles yet ", 20)+`"}`))
	hh := ba.header
	return c14Arch{hh, ba.bytes[hh.RootOffset : hh.RootOffset+hh.RootLength], ba.bytes[hh.MetadataOffset : hh.MetadataOffset+hh.MetadataLength], nil, nil}
}

func (C14) RunGo(line string) string {
	body, cm := stripComment(strings.Fields(line))
	switch body[0] {
	case "e7":
		f, err := strconv.ParseFloat(body[1], 64)
		if err != nil {
			return "bad-case"
		}
		return strconv.FormatInt(int64(pmtiles.VerifDegreesToE7(f)), 10)
	case "hjson":
		h, ok := parseHdrFields(body[1:])
		if !ok {
			return "bad-case"
		}
		j := pmtiles.VerifHeaderToJson(h)
		e := func(f float64) int32 { return pmtiles.VerifDegreesToE7(f) }
		return fmt.Sprintf("%s %s %d %d %d %d %d %d %d %d %d", j.TileType, j.TileCompression, j.MinZoom, j.MaxZoom, e(j.Bounds[0]), e(j.Bounds[1]), e(j.Bounds[2]), e(j.Bounds[3]), e(j.Center[0]), e(j.Center[1]), int(j.Center[2]))
	case "edit":
		a, _, ok := parseC14Arch(body[1:])
		if !ok {
			return "bad-case"
		}
		_, rest := splitTok(body, "H")
		editT, _ := splitTok(rest, "A")
		var fields []string
		if len(editT) == 11 {
			fields = editT
		}
		meta := ""
		if len(cm) > 0 && cm[0] != "-" {
			mb, _ := unhex(cm[0])
			meta = string(mb)
		}
		out, err := runEdit(a, fields, meta)
		if err != nil {
			return "edit-error " + strings.ReplaceAll(trunc(err.Error(), 60), " ", "_")
		}
		return hexs(out)
	case "showedit":
		a, _, ok := parseC14Arch(body[1:])
		if !ok {
			return "bad-case"
		}
		path := scratchFile(".pmtiles")
		os.WriteFile(path, a.file(), 0o644)
		defer os.Remove(path)
		var buf bytes.Buffer
		if err := pmtiles.Show(discardLogger, &buf, "", path, true, false, false, "", false, 0, 0, 0); err != nil {
			return "show-error"
		}
		hj := scratchFile(".json")
		os.WriteFile(hj, buf.Bytes(), 0o644)
		defer os.Remove(hj)
		if err := pmtiles.Edit(discardLogger, path, hj, ""); err != nil {
			return "edit-error"
		}
		after, _ := os.ReadFile(path)
		if bytes.Equal(after, a.file()) {
			return "identical"
		}
		return "changed"
	case "editcrash", "editcli":
		limit := body[1]
		meta := "-"
		if len(cm) > 0 {
			meta = cm[0]
		}
		cli := ""
		if body[0] == "editcli" {
			cli = os.Getenv("VERIF_CLI")
			if cli == "" {
				return "no-cli-binary"
			}
		}
		cmd := exec.Command(os.Args[0], "editchild", limit, strings.Join(body[2:], " "), meta, cli)
		out, err := cmd.Output()
		if err != nil {
			return "child-failed"
		}
		return strings.TrimSpace(string(out))
	}
	return "bad-case"
}

// EditChild runs Edit under RLIMIT_FSIZE and reports what the archive path holds afterwards.
func EditChild(args []string) {
	limit, _ := strconv.ParseUint(args[0], 10, 64)
	a, _, ok := parseC14Arch(strings.Fields(args[1]))
	if !ok {
		fmt.Println("bad-case")
		return
	}
	meta := ""
	if args[2] != "-" {
		mb, _ := unhex(args[2])
		meta = string(mb)
	}
	dir, _ := os.MkdirTemp("", "editchild")
	defer os.RemoveAll(dir)
	path := dir + "/a.pmtiles"
	old := a.file()
	os.WriteFile(path, old, 0o644)
	// expected new file, computed without a limit on a copy
	ref := dir + "/ref.pmtiles"
	os.WriteFile(ref, old, 0o644)
	mf := ""
	if meta != "" {
		mf = dir + "/m.json"
		os.WriteFile(mf, []byte(meta), 0o644)
	}
	hj := dir + "/h.json"
	os.WriteFile(hj, []byte(headerJSONText(strings.Fields("png gzip 1 9 1.5 2.5 3.5 4.5 2.25 3.25 4"))), 0o644)
	if err := pmtiles.Edit(discardLogger, ref, hj, mf); err != nil {
		fmt.Println("ref-edit-failed")
		return
	}
	want, _ := os.ReadFile(ref)
	signalIgnoreXFSZ()
	var rl syscall.Rlimit
	syscall.Getrlimit(syscall.RLIMIT_FSIZE, &rl)
	saved := rl
	rl.Cur = limit
	syscall.Setrlimit(syscall.RLIMIT_FSIZE, &rl)
	var err error
	if len(args) > 3 && args[3] != "" {
		// the real command-line tool, inheriting the size limit
		cargs := []string{"edit", path, "--header-json=" + hj}
		if mf != "" {
			cargs = append(cargs, "--metadata="+mf)
		}
		c := exec.Command(args[3], cargs...)
		err = c.Run()
	} else {
		err = pmtiles.Edit(discardLogger, path, hj, mf)
	}
	syscall.Setrlimit(syscall.RLIMIT_FSIZE, &saved)
	got, _ := os.ReadFile(path)
	res := "damaged"
	if bytes.Equal(got, old) {
		res = "old"
	} else if bytes.Equal(got, want) {
		res = "new"
	}
	e := "ok"
	if err != nil {
		e = "err"
	}
	fmt.Printf("%s edit=%s len=%d\n", res, e, len(got))
}

func (C14) Agree(line, goOut, modelOut string) bool {
	if strings.HasPrefix(line, "editcrash") || strings.HasPrefix(line, "editcli") {
		return strings.HasPrefix(goOut, "old") || strings.HasPrefix(goOut, "new")
	}
	return goOut == modelOut
}

func (C14) NonTrivial(line string) bool {
	t := strings.Fields(line)
	return t[0] != "e7" || strings.Contains(t[1], ".")
}
func (C14) Branch(line, goOut string) string {
	t := strings.Fields(line)
	if t[0] == "editcrash" || t[0] == "editcli" {
		return t[0] + " " + strings.SplitN(goOut, " ", 2)[0]
	}
	return t[0]
}

func (C14) Oracle(line, goOut string) string {
	body, cm := stripComment(strings.Fields(line))
	if strings.HasPrefix(goOut, "panic") {
		return goOut
	}
	switch body[0] {
	case "e7":
		want, ok := exactE7(body[1])
		if ok && goOut != strconv.FormatInt(want, 10) {
			return fmt.Sprintf("coordinate %s stored as %s, exact value is %d", body[1], goOut, want)
		}
	case "hjson":
		h, _ := parseHdrFields(body[1:])
		f := strings.Fields(goOut)
		if len(f) == 11 {
			want := []int32{h.MinLonE7, h.MinLatE7, h.MaxLonE7, h.MaxLatE7, h.CenterLonE7, h.CenterLatE7}
			for i, w := range want {
				if f[4+i] != strconv.Itoa(int(w)) {
					return fmt.Sprintf("show→edit changes E7 value %d into %s", w, f[4+i])
				}
			}
		}
	case "showedit":
		if goOut != "identical" {
			return "feeding show's header JSON back into edit did not leave the archive byte-identical: " + goOut
		}
	case "editcrash", "editcli":
		if strings.HasPrefix(goOut, "damaged") {
			return "after a failed/limited edit the archive path holds neither the original nor the fully edited archive: " + goOut
		}
		if strings.HasPrefix(goOut, "old edit=ok") && body[1] != "0" {
			// Edit reported success but the file is unchanged — only acceptable if the edit is a no-op (it is not)
			return "edit returned success but the archive is unchanged: " + goOut
		}
	case "edit":
		a, _, ok := parseC14Arch(body[1:])
		if !ok || strings.HasPrefix(goOut, "edit-error") {
			return ""
		}
		out, ok := unhex(goOut)
		if !ok {
			return ""
		}
		before := readWholeArchive(a.file())
		after := readWholeArchive(out)
		if after.err != "" {
			return "edited archive unreadable: " + after.err
		}
		if fmtEntries(before.flat) != fmtEntries(after.flat) || !bytes.Equal(before.data, after.data) {
			return "edit changed the directories or the tile data"
		}
		if len(cm) > 0 && cm[0] != "-" {
			mb, _ := unhex(cm[0])
			var want interface{}
			json.Unmarshal(mb, &want)
			if canonJSON(after.metadata) != canonJSON(want) {
				return "new metadata does not read back JSON-equal"
			}
		} else if !bytes.Equal(before.metaRaw, after.metaRaw) {
			return "header-only edit changed the metadata"
		}
		bh, ah := before.h, after.h
		// what was asked for is what the header now says
		_, restH := splitTok(body, "H")
		editT, _ := splitTok(restH, "A")
		if len(editT) == 11 {
			z := func(s string) uint8 { v, _ := strconv.Atoi(s); return uint8(v) }
			if ah.MinZoom != z(editT[2]) || ah.MaxZoom != z(editT[3]) || ah.CenterZoom != z(editT[10]) {
				return fmt.Sprintf("edit asked for zooms %s/%s/%s, the header now has %d/%d/%d", editT[2], editT[3], editT[10], ah.MinZoom, ah.MaxZoom, ah.CenterZoom)
			}
			got := []int32{ah.MinLonE7, ah.MinLatE7, ah.MaxLonE7, ah.MaxLatE7, ah.CenterLonE7, ah.CenterLatE7}
			for i, k := range []int{4, 5, 6, 7, 8, 9} {
				if want, ok := exactE7(editT[k]); ok && want >= -2147483648 && want <= 2147483647 && int64(got[i]) != want {
					return fmt.Sprintf("edit asked for coordinate %s, the header stores %d (exact value %d)", editT[k], got[i], want)
				}
			}
			if tt, ok := map[string]pmtiles.TileType{"mvt": pmtiles.Mvt, "png": pmtiles.Png, "jpg": pmtiles.Jpeg, "webp": pmtiles.Webp, "avif": pmtiles.Avif}[editT[0]]; ok && ah.TileType != tt {
				return fmt.Sprintf("edit asked for tile type %s, the header has %d", editT[0], ah.TileType)
			}
			if tc, ok := map[string]pmtiles.Compression{"none": pmtiles.NoCompression, "gzip": pmtiles.Gzip, "br": pmtiles.Brotli, "zstd": pmtiles.Zstd}[editT[1]]; ok && ah.TileCompression != tc {
				return fmt.Sprintf("edit asked for tile compression %s, the header has %d", editT[1], ah.TileCompression)
			}
		}
		if ah.AddressedTilesCount != bh.AddressedTilesCount || ah.TileEntriesCount != bh.TileEntriesCount || ah.TileContentsCount != bh.TileContentsCount || ah.Clustered != bh.Clustered || ah.InternalCompression != bh.InternalCompression {
			return "a non-editable header field changed"
		}
	}
	return ""
}
