package props

import (
	"bytes"
	"encoding/hex"
	"fmt"
	"math/big"
	"os"
	"strconv"
	"strings"

	"github.com/protomaps/go-pmtiles/pmtiles"
	"verifharness/core"
	"zombiezen.com/go/sqlite"
	"zombiezen.com/go/sqlite/sqlitex"
)

// ---------- shared: resolver lines ----------

func isGzMagic(b []byte) bool { return len(b) >= 2 && b[0] == 31 && b[1] == 139 }

type addReq struct {
	id   uint64
	rl   uint32
	blob []byte
}

func fmtAdds(as []addReq) string {
	var sb strings.Builder
	for i, a := range as {
		if i > 0 {
			sb.WriteByte(' ')
		}
		fmt.Fprintf(&sb, "%d:%d:%s", a.id, a.rl, hexs(a.blob))
	}
	return sb.String()
}

func parseAdds(t []string) ([]addReq, bool) {
	var out []addReq
	for _, s := range t {
		p := strings.Split(s, ":")
		if len(p) != 3 {
			return nil, false
		}
		id, _ := strconv.ParseUint(p[0], 10, 64)
		rl, _ := strconv.ParseUint(p[1], 10, 32)
		b, ok := unhex(p[2])
		if !ok {
			return nil, false
		}
		out = append(out, addReq{id, uint32(rl), b})
	}
	return out, true
}

// gzip length certificates for the blobs the resolver would compress
func gzCerts(blobs [][]byte) string {
	seen := map[string]bool{}
	var parts []string
	for _, b := range blobs {
		if isGzMagic(b) || seen[string(b)] {
			continue
		}
		seen[string(b)] = true
		r := pmtiles.VerifNewResolver(false, true)
		_, nd := r.AddTileIsNew(0, b, 1)
		parts = append(parts, fmt.Sprintf("%s=%d", hexs(b), len(nd)))
	}
	return strings.Join(parts, " ")
}

func runResolver(dedup, compress bool, as []addReq) string {
	r := pmtiles.VerifNewResolver(dedup, compress)
	var segs []string
	for _, a := range as {
		blobCopy := append([]byte{}, a.blob...)
		isNew, nd := r.AddTileIsNew(a.id, blobCopy, a.rl)
		if isNew {
			if compress && !isGzMagic(a.blob) {
				p, err := gunzip(nd)
				if err != nil || !bytes.Equal(p, a.blob) {
					segs = append(segs, "bad-gzip")
				} else {
					segs = append(segs, "gz:"+hexs(a.blob))
				}
			} else {
				segs = append(segs, "raw:"+hexs(nd))
			}
		}
	}
	return fmt.Sprintf("E %s S %d %s A %d N %d C %d L %d", fmtEntries(r.Entries()), len(segs), strings.Join(segs, " "), r.AddressedTiles(), len(r.Entries()), r.NumContents(), r.Offset())
}

// random add sequences: ascending ids, small content alphabet (duplicates, alternations), contiguous and gapped, runs
func randAdds(r *core.Rng, n int, withRuns bool) []addReq {
	nalpha := 1 + r.Intn(4)
	alpha := make([][]byte, nalpha)
	for i := range alpha {
		l := 1 + r.Intn(6)
		if r.Chance(1, 3) {
			l = 2 + r.Intn(2) // equal lengths, different contents
		}
		b := r.Bytes(l)
		if r.Chance(1, 5) && l >= 2 {
			b[0], b[1] = 31, 139 // pre-gzipped look
		}
		alpha[i] = b
	}
	var out []addReq
	var id uint64 = uint64(r.Intn(3))
	for i := 0; i < n; i++ {
		var b []byte
		switch r.Intn(4) {
		case 0:
			b = alpha[i%nalpha] // alternation A B A B …
		case 1:
			b = alpha[0]
		default:
			b = alpha[r.Intn(nalpha)]
		}
		if r.Chance(1, 8) {
			b = r.Bytes(1 + r.Intn(5)) // fresh content
		}
		rl := uint32(1)
		if withRuns && r.Chance(1, 3) {
			rl = uint32(1 + r.Intn(5))
		}
		out = append(out, addReq{id, rl, b})
		id += uint64(rl)
		if r.Chance(1, 4) {
			id += uint64(1 + r.Intn(50))
		}
	}
	return out
}

// ---------- C06 ----------

type C06 struct{}

func (C06) ID() string { return "C06" }
func (C06) Rule() string {
	return "lines `resolve dedup compress <adds> G <gzip length certificates>` (hook resolver: ascending IDs, small content alphabets — alternations, equal-length distinct contents, pre-gzipped blobs — run length 1) and `convert dedup format <rows z:col:row:blob> M <metadata pairs> G <certs>` (real MBTiles file written with SQLite, real pmtiles.Convert with and without deduplication and a temp file, output re-read by an independent reader: entries, data segments, counts, type, zooms compared with the model; oracle: tile (z,x,2^z-1-row) = source blob (gzip-wrapped for pbf), nothing else addressed, header counts = directories, bounds/center = exact rounding of the metadata strings, metadata keys present, Verify passes, dedup on/off maps equal); non-trivial = at least 3 tiles with a duplicate or empty blob; distinct by hash of the line"
}

type mbRow struct {
	z, col, row int
	blob        []byte
}

func fmtRows(rs []mbRow) string {
	var sb strings.Builder
	for i, r := range rs {
		if i > 0 {
			sb.WriteByte(' ')
		}
		fmt.Fprintf(&sb, "%d:%d:%d:%s", r.z, r.col, r.row, hexs(r.blob))
	}
	return sb.String()
}

func parseRows(t []string) ([]mbRow, bool) {
	var out []mbRow
	for _, s := range t {
		p := strings.Split(s, ":")
		if len(p) != 4 {
			return nil, false
		}
		z, _ := strconv.Atoi(p[0])
		c, _ := strconv.Atoi(p[1])
		r, _ := strconv.Atoi(p[2])
		b, ok := unhex(p[3])
		if !ok {
			return nil, false
		}
		out = append(out, mbRow{z, c, r, b})
	}
	return out, true
}

func splitTok(t []string, tok string) ([]string, []string) {
	for i, x := range t {
		if x == tok {
			return t[:i], t[i+1:]
		}
	}
	return t, nil
}

func randRows(r *core.Rng) []mbRow {
	maxz := r.Intn(5)
	if r.Chance(1, 6) {
		maxz = 6 + r.Intn(15)
	}
	fixedLen := 0
	if r.Chance(1, 2) {
		fixedLen = 4 + r.Intn(8) // equal-length tiles (the buffer-reuse shape)
	}
	alpha := [][]byte{}
	for i := 0; i < 1+r.Intn(3); i++ {
		l := fixedLen
		if l == 0 {
			l = 1 + r.Intn(10)
		}
		alpha = append(alpha, r.Bytes(l))
	}
	var rows []mbRow
	seen := map[[3]int]bool{}
	minz := 0
	if r.Chance(1, 3) {
		minz = r.Intn(maxz + 1)
	}
	for z := minz; z <= maxz; z++ {
		n := 1 << uint(z)
		cnt := n * n
		if cnt > 40 {
			cnt = 5 + r.Intn(30)
		}
		dense := z <= 3 && r.Chance(2, 3)
		for k := 0; k < cnt; k++ {
			var c, ro int
			if dense {
				c, ro = k%n, k/n
			} else {
				c, ro = r.Intn(n), r.Intn(n)
			}
			if seen[[3]int{z, c, ro}] {
				continue
			}
			seen[[3]int{z, c, ro}] = true
			var b []byte
			switch r.Intn(6) {
			case 0:
				b = []byte{} // empty blob: not addressed
			case 1, 2:
				b = alpha[r.Intn(len(alpha))]
			default:
				l := fixedLen
				if l == 0 {
					l = 1 + r.Intn(12)
				}
				b = r.Bytes(l)
			}
			if r.Chance(1, 10) && len(b) >= 2 {
				b = append([]byte{31, 139}, b[2:]...)
			}
			rows = append(rows, mbRow{z, c, ro, b})
		}
	}
	// insertion order is random
	for i := len(rows) - 1; i > 0; i-- {
		j := r.Intn(i + 1)
		rows[i], rows[j] = rows[j], rows[i]
	}
	return rows
}

func (C06) Gen(r *core.Rng, tier string, emit func(string)) {
	if tier == "thorough" {
		emit = cliDup(emit, []string{"convert"}, 7, 200)
	} else {
		emit = cliDup(emit, []string{"convert"}, 7, 20)
	}
	nRes, nConv := 3000, 120
	if tier == "thorough" {
		nRes, nConv = 100000, 3000
	}
	for i := 0; i < nRes; i++ {
		as := randAdds(r, r.Intn(14), false)
		d, c := r.Intn(2), r.Intn(2)
		certs := ""
		if c == 1 {
			var bl [][]byte
			for _, a := range as {
				bl = append(bl, a.blob)
			}
			certs = gzCerts(bl)
		}
		emit(fmt.Sprintf("resolve %d %d %s G %s", d, c, fmtAdds(as), certs))
	}
	// directed: the highest tile is addressed by the END of a run — the last tile (in ID order) of zoom z and the
	// first tile(s) of zoom z+1 share their content and nothing else is stored at z+1 (with deduplication one
	// entry covers both zooms; the header's maximum zoom is z+1 all the same)
	for zz := 0; zz < 4; zz++ {
		x := r.Bytes(3 + r.Intn(6))
		var rows []mbRow
		for z := 0; z <= zz; z++ {
			for id := base(uint(z)); id < base(uint(z)+1); id++ {
				if id == base(uint(zz)+1)-1 || r.Chance(1, 2) {
					_, c, y := pmtiles.IDToZxy(id)
					b := r.Bytes(1 + r.Intn(8))
					if id == base(uint(zz)+1)-1 {
						b = x
					}
					rows = append(rows, mbRow{z, int(c), (1 << uint(z)) - 1 - int(y), b})
				}
			}
		}
		for k := 0; k <= r.Intn(3); k++ {
			_, c, y := pmtiles.IDToZxy(base(uint(zz)+1) + uint64(k))
			rows = append(rows, mbRow{zz + 1, int(c), (1 << uint(zz+1)) - 1 - int(y), x})
		}
		for i := len(rows) - 1; i > 0; i-- {
			j := r.Intn(i + 1)
			rows[i], rows[j] = rows[j], rows[i]
		}
		for d := 0; d < 2; d++ {
			emit(fmt.Sprintf("convert %d png %s M %s G ", d, fmtRows(rows), randMbMetadata(r, "png")))
		}
	}
	// setZoomCenterDefaults alone (hook): zoom range from the first tile and from the END of the last run, the
	// center filled in only when all three center fields are zero
	nZD := 300
	if tier == "thorough" {
		nZD = 20000
	}
	for i := 0; i < nZD; i++ {
		es := randTileSet(r, 1+r.Intn(6), maxTileID, true, 5).entries
		if len(es) == 0 {
			continue
		}
		cz, clon, clat := 0, int32(0), int32(0)
		switch r.Intn(4) {
		case 0:
			cz, clon, clat = r.Intn(12), int32(r.U64()), int32(r.U64())
		case 1:
			cz = r.Intn(3) // zoom 0 with a real position is a declared center
			clon = int32(r.U64())
		case 2:
			clat = int32(r.U64())
		}
		emit(fmt.Sprintf("zoomdef %d %d %d %d %d %d %d E %s", cz, clon, clat, int32(r.U64()), int32(r.U64()), int32(r.U64()), int32(r.U64()), fmtEntries(es)))
	}
	formats := []string{"pbf", "png", "jpg", "webp", "avif"}
	// tiles around buffer-size boundaries (4 KiB, 64 KiB, 1 MiB, several MiB): one big blob among small ones
	bigSizes := []int{4095, 4096, 65535, 65536, 65537, 1<<20 - 1, 1 << 20, 1<<20 + 1, 1<<20 + 4097, 3 << 20}
	nBig := 3
	if tier == "thorough" {
		nBig = len(bigSizes) * 2
	}
	for i := 0; i < nConv+nBig; i++ {
		rows := randRows(r)
		f := formats[r.Intn(len(formats))]
		if i%2 == 0 {
			f = "pbf"
		}
		if i >= nConv && len(rows) > 0 {
			sz := bigSizes[(i-nConv+int(r.U64()%uint64(len(bigSizes))))%len(bigSizes)]
			if tier != "thorough" && i == nConv {
				sz = 1<<20 + 1 + r.Intn(5000)
			}
			big := make([]byte, sz)
			st := r.U64()
			for k := range big {
				if k%64 == 0 {
					st = st*6364136223846793005 + 1442695040888963407
				}
				big[k] = byte(st>>56) + byte(k>>12)
			}
			rows[r.Intn(len(rows))].blob = big
			f = []string{"png", "pbf"}[i%2]
		}
		meta := randMbMetadata(r, f)
		certs := ""
		if f == "pbf" {
			var bl [][]byte
			for _, x := range rows {
				if len(x.blob) > 0 {
					bl = append(bl, x.blob)
				}
			}
			certs = gzCerts(bl)
		}
		emit(fmt.Sprintf("convert %d %s %s M %s G %s", r.Intn(2), f, fmtRows(rows), meta, certs))
	}
}

// metadata rows as hex(name)=hex(value) pairs; always a format row (first or not), valid bounds, optional center/json/others
func randMbMetadata(r *core.Rng, format string) string {
	dec := func(lo, hi float64, digits int) string {
		span := int64((hi - lo) * 1e7)
		v := int64(lo*1e7) + int64(r.U64()%uint64(span))
		scale := int64(1)
		for k := 0; k < 7-digits; k++ {
			scale *= 10
		}
		v = v / scale * scale
		neg := v < 0
		if neg {
			v = -v
		}
		s := fmt.Sprintf("%d.%07d", v/10000000, v%10000000)
		s = s[:len(s)-(7-digits)]
		s = strings.TrimSuffix(s, ".")
		if neg {
			s = "-" + s
		}
		return s
	}
	digits := r.Intn(8)
	minLon, maxLon := dec(-180, -1, digits), dec(1, 180, digits)
	minLat, maxLat := dec(-85, -1, digits), dec(1, 85, digits)
	pairs := [][2]string{{"format", format}}
	if r.Chance(4, 5) {
		sep := ","
		if r.Chance(1, 4) {
			sep = ", "
		}
		pairs = append(pairs, [2]string{"bounds", minLon + sep + minLat + sep + maxLon + sep + maxLat})
	}
	if r.Chance(1, 2) {
		pairs = append(pairs, [2]string{"center", dec(-170, 170, digits) + "," + dec(-80, 80, digits) + "," + "CZ"})
	}
	for _, k := range []string{"name", "attribution", "description", "type", "version", "scheme"} {
		if r.Chance(1, 2) {
			pairs = append(pairs, [2]string{k, "v-" + k + "-ü"})
		}
	}
	if r.Chance(1, 2) {
		pairs = append(pairs, [2]string{"json", `{"vector_layers":[{"id":"a","fields":{"x":"Number"}}],"tilestats":{"n":1}}`})
	}
	if format == "pbf" && r.Chance(1, 2) {
		pairs = append(pairs, [2]string{"compression", "gzip"})
	}
	for i := len(pairs) - 1; i > 0; i-- {
		j := r.Intn(i + 1)
		pairs[i], pairs[j] = pairs[j], pairs[i]
	}
	var parts []string
	for _, p := range pairs {
		parts = append(parts, hex.EncodeToString([]byte(p[0]))+"="+hex.EncodeToString([]byte(p[1])))
	}
	return strings.Join(parts, " ")
}

func parsePairs(t []string) [][2]string {
	var out [][2]string
	for _, s := range t {
		p := strings.Split(s, "=")
		if len(p) != 2 {
			continue
		}
		a, _ := hex.DecodeString(p[0])
		b, _ := hex.DecodeString(p[1])
		out = append(out, [2]string{string(a), string(b)})
	}
	return out
}

func writeMbtiles(path string, meta [][2]string, rows []mbRow) error {
	conn, err := sqlite.OpenConn(path, sqlite.OpenReadWrite|sqlite.OpenCreate)
	if err != nil {
		return err
	}
	defer conn.Close()
	if err := sqlitex.ExecuteTransient(conn, "CREATE TABLE metadata (name text, value text)", nil); err != nil {
		return err
	}
	if err := sqlitex.ExecuteTransient(conn, "CREATE TABLE tiles (zoom_level integer, tile_column integer, tile_row integer, tile_data blob)", nil); err != nil {
		return err
	}
	sqlitex.ExecuteTransient(conn, "BEGIN", nil)
	for _, kv := range meta {
		if err := sqlitex.ExecuteTransient(conn, "INSERT INTO metadata VALUES (?,?)", &sqlitex.ExecOptions{Args: []any{kv[0], kv[1]}}); err != nil {
			return err
		}
	}
	for _, r := range rows {
		if err := sqlitex.ExecuteTransient(conn, "INSERT INTO tiles VALUES (?,?,?,?)", &sqlitex.ExecOptions{Args: []any{r.z, r.col, r.row, r.blob}}); err != nil {
			return err
		}
	}
	return sqlitex.ExecuteTransient(conn, "COMMIT", nil)
}

// centre zoom placeholder "CZ" is replaced by a zoom inside the tiles' range (property: a declared center zoom lies within)
func fixCenterZoom(meta [][2]string, rows []mbRow) [][2]string {
	minz, maxz := 99, -1
	for _, r := range rows {
		if len(r.blob) == 0 {
			continue
		}
		if r.z < minz {
			minz = r.z
		}
		if r.z > maxz {
			maxz = r.z
		}
	}
	out := make([][2]string, len(meta))
	for i, kv := range meta {
		if kv[0] == "center" {
			cz := minz
			if maxz >= minz && maxz >= 0 {
				cz = minz + (len(rows) % (maxz - minz + 1))
			}
			if cz == 99 {
				cz = 0
			}
			kv[1] = strings.Replace(kv[1], "CZ", strconv.Itoa(cz), 1)
		}
		out[i] = kv
	}
	return out
}

func convertOnce(cli bool, dedup bool, meta [][2]string, rows []mbRow) (readArchive, error, error) {
	in := scratchFile(".mbtiles")
	out := scratchFile(".pmtiles")
	staleOutput(out)
	defer os.Remove(in)
	defer os.Remove(out)
	if err := writeMbtiles(in, meta, rows); err != nil {
		return readArchive{}, fmt.Errorf("mbtiles: %v", err), nil
	}
	tmp, err := os.CreateTemp(Scratch(), "conv")
	if err != nil {
		return readArchive{}, err, nil
	}
	defer os.Remove(tmp.Name())
	defer tmp.Close()
	if err := opConvert(cli, in, out, dedup, tmp); err != nil {
		return readArchive{}, err, nil
	}
	b, err := os.ReadFile(out)
	if err != nil {
		return readArchive{}, err, nil
	}
	verr := pmtiles.Verify(discardLogger, out)
	return readWholeArchive(b), nil, verr
}

func convertCanon(ra readArchive, format string, srcBlobs map[string]bool) string {
	segs, bad := ra.segments()
	if bad != "" {
		return "layout: " + bad
	}
	var ss []string
	for _, s := range segs {
		if format == "pbf" && isGzMagic(s) && !srcBlobs[string(s)] {
			p, err := gunzip(s)
			if err != nil {
				ss = append(ss, "bad-gzip")
			} else {
				ss = append(ss, "gz:"+hexs(p))
			}
		} else {
			ss = append(ss, "raw:"+hexs(s))
		}
	}
	cl := 0
	if ra.h.Clustered {
		cl = 1
	}
	return fmt.Sprintf("E %s S %d %s A %d N %d C %d L %d T %d Z %d %d CL %d", fmtEntries(ra.flat), len(ss), strings.Join(ss, " "),
		ra.h.AddressedTilesCount, ra.h.TileEntriesCount, ra.h.TileContentsCount, ra.h.TileDataLength, ra.h.TileType, ra.h.MinZoom, ra.h.MaxZoom, cl)
}

func (C06) RunGo(line string) string {
	cliMode, t := splitCLI(strings.Fields(line))
	_ = cliMode
	switch t[0] {
	case "zoomdef":
		if len(t) < 10 {
			return "bad-case"
		}
		var v [7]int64
		for k := 0; k < 7; k++ {
			v[k], _ = strconv.ParseInt(t[1+k], 10, 64)
		}
		es, _, ok := parseEntries(t[9:])
		if !ok || len(es) == 0 {
			return "no-entries"
		}
		h := pmtiles.HeaderV3{CenterZoom: uint8(v[0]), CenterLonE7: int32(v[1]), CenterLatE7: int32(v[2]), MinLonE7: int32(v[3]), MinLatE7: int32(v[4]), MaxLonE7: int32(v[5]), MaxLatE7: int32(v[6])}
		pmtiles.VerifSetZoomCenterDefaults(&h, es)
		return fmt.Sprintf("%d %d %d %d %d", h.MinZoom, h.MaxZoom, h.CenterZoom, h.CenterLonE7, h.CenterLatE7)
	case "resolve":
		body, _ := splitTok(t[3:], "G")
		as, ok := parseAdds(body)
		if !ok {
			return "bad-case"
		}
		return runResolver(t[1] == "1", t[2] == "1", as)
	case "convert":
		body, rest := splitTok(t[3:], "M")
		metaT, _ := splitTok(rest, "G")
		rows, ok := parseRows(body)
		if !ok {
			return "bad-case"
		}
		meta := fixCenterZoom(parsePairs(metaT), rows)
		ra, err, _ := convertOnce(cliMode, t[1] == "1", meta, rows)
		if err != nil {
			nonEmpty := 0
			for _, rw := range rows {
				if len(rw.blob) > 0 {
					nonEmpty++
				}
			}
			if nonEmpty == 0 {
				return "no-tiles" // a database without a non-empty tile cannot be converted, whatever the message says
			}
			return "convert-error " + strings.ReplaceAll(trunc(err.Error(), 80), " ", "_")
		}
		if ra.err != "" {
			return "unreadable: " + ra.err
		}
		src := map[string]bool{}
		for _, r := range rows {
			src[string(r.blob)] = true
		}
		return convertCanon(ra, t[2], src)
	}
	return "bad-case"
}

func (C06) NonTrivial(line string) bool {
	return strings.Count(line, ":") >= 6
}

func (C06) Branch(line, goOut string) string {
	cliMode, t := splitCLI(strings.Fields(line))
	_ = cliMode
	if t[0] == "convert" {
		return "convert " + t[2] + " dedup=" + t[1]
	}
	if t[0] == "zoomdef" {
		return "zoomdef"
	}
	return "resolve d=" + t[1] + " c=" + t[2]
}

// exact E7 of a decimal string (round half away from zero) — independent of float arithmetic
func exactE7(s string) (int64, bool) {
	rat, ok := new(big.Rat).SetString(strings.TrimSpace(s))
	if !ok {
		return 0, false
	}
	rat.Mul(rat, big.NewRat(10000000, 1))
	neg := rat.Sign() < 0
	if neg {
		rat.Neg(rat)
	}
	rat.Add(rat, big.NewRat(1, 2))
	q := new(big.Int).Quo(rat.Num(), rat.Denom())
	v := q.Int64()
	if neg {
		v = -v
	}
	return v, true
}

func (C06) Oracle(line, goOut string) string {
	cliMode, t := splitCLI(strings.Fields(line))
	_ = cliMode
	if strings.HasPrefix(goOut, "panic") {
		return goOut
	}
	switch t[0] {
	case "zoomdef":
		// independent: zoom of the lowest and of the highest ADDRESSED tile, by searching the zoom blocks
		es, _, ok := parseEntries(t[9:])
		f := strings.Fields(goOut)
		if ok && len(es) > 0 && len(f) == 5 {
			zoomOf := func(id uint64) int {
				z := 0
				for z < 31 && id >= base(uint(z)+1) {
					z++
				}
				return z
			}
			last := es[len(es)-1]
			lastID := last.TileID
			if last.RunLength > 1 {
				lastID += uint64(last.RunLength) - 1
			}
			if want := fmt.Sprintf("%d %d", zoomOf(es[0].TileID), zoomOf(lastID)); f[0]+" "+f[1] != want {
				return "zoom range written " + f[0] + ".." + f[1] + ", the addressed tiles span zooms " + want
			}
		}
		return ""
	case "resolve":
		body, _ := splitTok(t[3:], "G")
		as, _ := parseAdds(body)
		// the tile map through the entries/segments equals the adds; dedup-irrelevance
		m1 := resolverTileMap(t[1] == "1", t[2] == "1", as)
		m2 := resolverTileMap(t[1] != "1", t[2] == "1", as)
		for _, a := range as {
			for k := uint64(0); k < uint64(a.rl); k++ {
				want := "raw:" + hexs(a.blob)
				if t[2] == "1" && !isGzMagic(a.blob) {
					want = "gz:" + hexs(a.blob)
				}
				if m1[a.id+k] != want {
					return fmt.Sprintf("after the adds, tile %d maps to [%s], added content was [%s]", a.id+k, m1[a.id+k], want)
				}
				if m2[a.id+k] != want {
					return fmt.Sprintf("with the other deduplication setting tile %d maps to [%s], want [%s]", a.id+k, m2[a.id+k], want)
				}
			}
		}
		if len(m1) != len(m2) {
			return "deduplication changes the set of addressed tiles"
		}
	case "convert":
		body, rest := splitTok(t[3:], "M")
		metaT, _ := splitTok(rest, "G")
		rows, _ := parseRows(body)
		meta := fixCenterZoom(parsePairs(metaT), rows)
		if goOut == "no-tiles" {
			return ""
		}
		var ras [2]readArchive
		for i, dd := range []bool{true, false} {
			ra, err, verr := convertOnce(cliMode, dd, meta, rows)
			if err != nil {
				nonEmpty := false
				for _, r := range rows {
					if len(r.blob) > 0 {
						nonEmpty = true
					}
				}
				if !nonEmpty {
					return ""
				}
				return "convert failed: " + err.Error()
			}
			if ra.err != "" {
				return "output unreadable by the independent reader: " + ra.err
			}
			if verr != nil {
				return "converted archive does not pass verify: " + verr.Error()
			}
			if m := ra.countsOK(); m != "" {
				return m
			}
			if !ra.h.Clustered {
				return "output not marked clustered"
			}
			ras[i] = ra
			// tile map vs source rows (first matching row per coordinate = the only one: rows are unique)
			want := map[uint64][]byte{}
			for _, r := range rows {
				if len(r.blob) == 0 {
					continue
				}
				id := pmtiles.ZxyToID(uint8(r.z), uint32(r.col), uint32((1<<uint(r.z))-1-r.row))
				want[id] = r.blob
			}
			var addressed uint64
			for _, e := range ra.flat {
				addressed += uint64(e.RunLength)
			}
			if addressed != uint64(len(want)) {
				return fmt.Sprintf("archive addresses %d tiles, source has %d non-empty rows", addressed, len(want))
			}
			for id, blob := range want {
				got, ok := ra.tileAt(id)
				if !ok {
					return fmt.Sprintf("tile id %d of a non-empty source row is not in the archive", id)
				}
				exp := blob
				if t[2] == "pbf" && !isGzMagic(blob) {
					p, err := gunzip(got)
					if err != nil {
						return fmt.Sprintf("tile id %d: pbf content not gzip-wrapped", id)
					}
					got = p
				}
				if !bytes.Equal(got, exp) {
					z, x, y := pmtiles.IDToZxy(id)
					return fmt.Sprintf("dedup=%v: tile %d/%d/%d holds %x, source row holds %x", dd, z, x, y, got, exp)
				}
			}
			// header declarations
			wantType := map[string]pmtiles.TileType{"pbf": pmtiles.Mvt, "png": pmtiles.Png, "jpg": pmtiles.Jpeg, "webp": pmtiles.Webp, "avif": pmtiles.Avif}[t[2]]
			if ra.h.TileType != wantType {
				return fmt.Sprintf("tile type %d, format row says %s", ra.h.TileType, t[2])
			}
			wantTC := pmtiles.Compression(pmtiles.NoCompression)
			if t[2] == "pbf" {
				wantTC = pmtiles.Gzip
			}
			if ra.h.TileCompression != wantTC {
				return fmt.Sprintf("tile compression %d, want %d", ra.h.TileCompression, wantTC)
			}
			for _, kv := range meta {
				switch kv[0] {
				case "bounds":
					p := strings.Split(kv[1], ",")
					got := []int32{ra.h.MinLonE7, ra.h.MinLatE7, ra.h.MaxLonE7, ra.h.MaxLatE7}
					for k := 0; k < 4; k++ {
						if w, ok := exactE7(p[k]); ok && int64(got[k]) != w {
							return fmt.Sprintf("bounds[%d] stored as %d, metadata says %s (= %d)", k, got[k], strings.TrimSpace(p[k]), w)
						}
					}
				case "center":
					p := strings.Split(kv[1], ",")
					got := []int32{ra.h.CenterLonE7, ra.h.CenterLatE7}
					for k := 0; k < 2; k++ {
						if w, ok := exactE7(p[k]); ok && int64(got[k]) != w {
							return fmt.Sprintf("center[%d] stored as %d, metadata says %s", k, got[k], p[k])
						}
					}
					if cz, err := strconv.Atoi(strings.TrimSpace(p[2])); err == nil && int(ra.h.CenterZoom) != cz {
						return fmt.Sprintf("center zoom %d, metadata says %d", ra.h.CenterZoom, cz)
					}
				case "format", "scheme", "json", "compression":
				default:
					if v, ok := ra.metadata[kv[0]]; !ok || fmt.Sprint(v) != kv[1] {
						return fmt.Sprintf("metadata row %q missing from the JSON metadata", kv[0])
					}
				}
				if kv[0] == "json" {
					for _, k := range []string{"vector_layers", "tilestats"} {
						if _, ok := ra.metadata[k]; !ok {
							return "key " + k + " of the json row missing from the JSON metadata"
						}
					}
				}
			}
			// zooms
			if len(ra.flat) > 0 {
				zmin, _, _ := pmtiles.IDToZxy(ra.flat[0].TileID)
				lastE := ra.flat[len(ra.flat)-1]
				zmax, _, _ := pmtiles.IDToZxy(lastE.TileID + uint64(lastE.RunLength) - 1) // the last ADDRESSED tile
				if ra.h.MinZoom != zmin || ra.h.MaxZoom != zmax {
					return fmt.Sprintf("header zoom range %d..%d, tiles span %d..%d", ra.h.MinZoom, ra.h.MaxZoom, zmin, zmax)
				}
			}
		}
		// dedup on/off: identical tile-to-content map
		for _, e := range ras[0].flat {
			for k := uint64(0); k < uint64(e.RunLength); k++ {
				a, _ := ras[0].tileAt(e.TileID + k)
				b, ok := ras[1].tileAt(e.TileID + k)
				if !ok || !bytes.Equal(a, b) {
					return fmt.Sprintf("tile id %d differs between deduplication on and off", e.TileID+k)
				}
			}
		}
	}
	return ""
}

func resolverTileMap(dedup, compress bool, as []addReq) map[uint64]string {
	r := pmtiles.VerifNewResolver(dedup, compress)
	var data []byte
	for _, a := range as {
		if isNew, nd := r.AddTileIsNew(a.id, append([]byte{}, a.blob...), a.rl); isNew {
			data = append(data, nd...)
		}
	}
	m := map[uint64]string{}
	for _, e := range r.Entries() {
		seg := data[e.Offset : e.Offset+uint64(e.Length)]
		s := "raw:" + hexs(seg)
		if compress && isGzMagic(seg) {
			if p, err := gunzip(seg); err == nil {
				// a pre-gzipped source blob stays raw; we cannot tell here, so report both forms canonically:
				s = "gz:" + hexs(p)
				for _, a := range as {
					if bytes.Equal(a.blob, seg) {
						s = "raw:" + hexs(seg)
					}
				}
			}
		}
		for k := uint64(0); k < uint64(e.RunLength); k++ {
			m[e.TileID+k] = s
		}
	}
	return m
}
