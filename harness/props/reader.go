package props

import (
	"bytes"
	"encoding/json"
	"fmt"
	"sort"
	"strings"

	"github.com/protomaps/go-pmtiles/pmtiles"
)

// independent reader of a whole archive: header via the spec table, directories via the spec decoder
type readArchive struct {
	h        pmtiles.HeaderV3
	flat     []pmtiles.EntryV3 // enumeration order
	data     []byte
	metadata map[string]interface{}
	metaRaw  []byte
	err      string
}

func readWholeArchive(b []byte) readArchive {
	var ra readArchive
	if len(b) < 127 {
		ra.err = "short file"
		return ra
	}
	hs, ok := specReadHeader(b[:127])
	if !ok {
		ra.err = "bad magic"
		return ra
	}
	h, ok := parseHdrFields(strings.Fields(hs))
	if !ok {
		ra.err = "bad header"
		return ra
	}
	ra.h = h
	sec := func(off, l uint64) ([]byte, bool) {
		if off+l > uint64(len(b)) || off+l < off {
			return nil, false
		}
		return b[off : off+l], true
	}
	dec := func(raw []byte) ([]pmtiles.EntryV3, bool) { return decodeDirBytes(raw, h.InternalCompression) }
	var walk func(off, l uint64, depth int) bool
	walk = func(off, l uint64, depth int) bool {
		raw, ok := sec(off, l)
		if !ok || depth > 6 {
			return false
		}
		es, ok := dec(raw)
		if !ok {
			return false
		}
		for _, e := range es {
			if e.RunLength > 0 {
				ra.flat = append(ra.flat, e)
			} else if !walk(h.LeafDirectoryOffset+e.Offset, uint64(e.Length), depth+1) {
				return false
			}
		}
		return true
	}
	if !walk(h.RootOffset, h.RootLength, 0) {
		ra.err = "directory unreadable"
		return ra
	}
	d, ok := sec(h.TileDataOffset, h.TileDataLength)
	if !ok {
		ra.err = "tile data outside file"
		return ra
	}
	ra.data = d
	m, ok := sec(h.MetadataOffset, h.MetadataLength)
	if ok {
		if h.InternalCompression == pmtiles.Gzip {
			if p, err := gunzip(m); err == nil {
				m = p
			}
		}
		ra.metaRaw = m
		json.Unmarshal(m, &ra.metadata)
	}
	return ra
}

// tileMap: tile ID -> content for every addressed ID (runs expanded up to a cap)
func (ra readArchive) tileAt(id uint64) ([]byte, bool) {
	for _, e := range ra.flat {
		if e.TileID <= id && id < e.TileID+uint64(e.RunLength) {
			if e.Offset+uint64(e.Length) > uint64(len(ra.data)) {
				return nil, false
			}
			return ra.data[e.Offset : e.Offset+uint64(e.Length)], true
		}
	}
	return nil, false
}

// segments: the data section cut at first occurrences in entry order (clustered layout expected)
func (ra readArchive) segments() ([][]byte, string) {
	var segs [][]byte
	var cur uint64
	seen := map[uint64]bool{}
	for _, e := range ra.flat {
		if seen[e.Offset] {
			continue
		}
		seen[e.Offset] = true
		if e.Offset != cur {
			return nil, fmt.Sprintf("first occurrence at offset %d, expected %d (not clustered)", e.Offset, cur)
		}
		if cur+uint64(e.Length) > uint64(len(ra.data)) {
			return nil, "segment outside data"
		}
		segs = append(segs, ra.data[cur:cur+uint64(e.Length)])
		cur += uint64(e.Length)
	}
	if cur != uint64(len(ra.data)) {
		return nil, "data section has bytes no entry refers to"
	}
	return segs, ""
}

func (ra readArchive) countsOK() string {
	var addressed uint64
	offs := map[uint64]bool{}
	for _, e := range ra.flat {
		addressed += uint64(e.RunLength)
		offs[e.Offset] = true
	}
	if addressed != ra.h.AddressedTilesCount || uint64(len(ra.flat)) != ra.h.TileEntriesCount || uint64(len(offs)) != ra.h.TileContentsCount {
		return fmt.Sprintf("header counts (%d,%d,%d) differ from the written directories (%d,%d,%d)", ra.h.AddressedTilesCount, ra.h.TileEntriesCount, ra.h.TileContentsCount, addressed, len(ra.flat), len(offs))
	}
	return ""
}

func canonJSON(v interface{}) string {
	b, _ := json.Marshal(v) // map keys are sorted by encoding/json
	return string(b)
}

func sortedKeys(m map[string]interface{}) []string {
	ks := make([]string, 0, len(m))
	for k := range m {
		ks = append(ks, k)
	}
	sort.Strings(ks)
	return ks
}

var _ = bytes.Equal
