package props

import (
	"fmt"
	"strconv"
	"strings"

	"github.com/protomaps/go-pmtiles/pmtiles"
	"verifharness/core"
)

// C01 — tile IDs.
type C01 struct{}

func (C01) ID() string { return "C01" }
func (C01) Rule() string {
	return "lines `zxy z x y`, `id i`, `parent i`; exhaustive low zooms + per-zoom uniform random + block edges + single-high-bit coordinates; non-trivial = zoom >= 2 (rotation and at least two loop iterations exercised); distinct by hash of the line"
}

func base(z uint) uint64 { return ((uint64(1) << (2 * z)) - 1) / 3 }

func (C01) Gen(r *core.Rng, tier string, emit func(string)) {
	exZ, nrand := uint(7), 60000
	if tier == "thorough" {
		exZ, nrand = 10, 3000000
	}
	for z := uint(0); z <= exZ; z++ {
		n := uint32(1) << z
		for x := uint32(0); x < n; x++ {
			for y := uint32(0); y < n; y++ {
				emit(fmt.Sprintf("zxy %d %d %d", z, x, y))
			}
		}
		for i := base(z); i < base(z+1); i++ {
			emit(fmt.Sprintf("id %d", i))
			if z >= 1 {
				emit(fmt.Sprintf("parent %d", i))
			}
		}
	}
	for z := uint(0); z <= 31; z++ {
		n := uint64(1) << z
		// block edges
		for _, i := range []uint64{base(z), base(z) + 1, base(z+1) - 1, base(z+1) - 2, base(z) + (base(z+1)-base(z))/2} {
			if i >= base(z) && i < base(z+1) {
				emit(fmt.Sprintf("id %d", i))
				if z >= 1 {
					emit(fmt.Sprintf("parent %d", i))
				}
			}
		}
		// corners and single-bit coordinates
		for _, x := range []uint64{0, n - 1, n / 2, n/2 - 1} {
			for _, y := range []uint64{0, n - 1, n / 2, n/2 - 1} {
				if x < n && y < n {
					emit(fmt.Sprintf("zxy %d %d %d", z, x, y))
				}
			}
		}
		for b := uint(0); b < z; b++ {
			emit(fmt.Sprintf("zxy %d %d %d", z, uint64(1)<<b, r.U64()%n))
			emit(fmt.Sprintf("zxy %d %d %d", z, r.U64()%n, uint64(1)<<b))
			emit(fmt.Sprintf("zxy %d %d %d", z, (n-1)^(uint64(1)<<b), (n-1)^(uint64(1)<<((b+1)%z))))
		}
	}
	// structured in-zoom positions: few non-zero base-4 digits (long zero / three runs), and
	// coordinates with few bits set — the places where width or early-exit slips hide
	for z := uint(1); z <= 31; z++ {
		span := base(z+1) - base(z)
		for k := 0; k < 40; k++ {
			var t uint64
			nd := 1 + r.Intn(3)
			for d := 0; d < nd; d++ {
				t |= uint64(1+r.Intn(3)) << (2 * uint(r.Intn(int(z))))
			}
			if r.Chance(1, 4) {
				t = span - 1 - t%span
			}
			t %= span
			emit(fmt.Sprintf("id %d", base(z)+t))
			emit(fmt.Sprintf("parent %d", base(z)+t))
			if t+1 < span {
				emit(fmt.Sprintf("id %d", base(z)+t+1))
			}
			if t > 0 {
				emit(fmt.Sprintf("id %d", base(z)+t-1))
			}
			n := uint64(1) << z
			x := (uint64(1)<<uint(r.Intn(int(z))) | uint64(1)<<uint(r.Intn(int(z)))) % n
			y := (uint64(1)<<uint(r.Intn(int(z))) | uint64(r.Intn(2))) % n
			if r.Bool() {
				x = n - 1 - x
			}
			if r.Bool() {
				y = n - 1 - y
			}
			emit(fmt.Sprintf("zxy %d %d %d", z, x, y))
		}
	}
	for k := 0; k < nrand; k++ {
		z := uint(r.Intn(32))
		n := uint64(1) << z
		x, y := r.U64()%n, r.U64()%n
		emit(fmt.Sprintf("zxy %d %d %d", z, x, y))
		i := base(z) + r.U64()%(base(z+1)-base(z))
		emit(fmt.Sprintf("id %d", i))
		if z >= 1 {
			emit(fmt.Sprintf("parent %d", i))
		}
	}
}

func (C01) RunGo(line string) string {
	t := strings.Fields(line)
	switch t[0] {
	case "zxy":
		z, _ := strconv.ParseUint(t[1], 10, 8)
		x, _ := strconv.ParseUint(t[2], 10, 32)
		y, _ := strconv.ParseUint(t[3], 10, 32)
		return fmt.Sprintf("id %d", pmtiles.ZxyToID(uint8(z), uint32(x), uint32(y)))
	case "id":
		i, _ := strconv.ParseUint(t[1], 10, 64)
		z, x, y := pmtiles.IDToZxy(i)
		return fmt.Sprintf("zxy %d %d %d", z, x, y)
	case "parent":
		i, _ := strconv.ParseUint(t[1], 10, 64)
		return fmt.Sprintf("id %d", pmtiles.ParentID(i))
	}
	return "bad-case"
}

func (C01) NonTrivial(line string) bool {
	t := strings.Fields(line)
	switch t[0] {
	case "zxy":
		z, _ := strconv.Atoi(t[1])
		return z >= 2
	default:
		i, _ := strconv.ParseUint(t[1], 10, 64)
		return i >= 5
	}
}

func (C01) Branch(line, _ string) string {
	t := strings.Fields(line)
	if t[0] == "zxy" {
		z, _ := strconv.Atoi(t[1])
		return fmt.Sprintf("zxy z%02d", z)
	}
	i, _ := strconv.ParseUint(t[1], 10, 64)
	z := uint(0)
	for base(z+1) <= i {
		z++
	}
	return fmt.Sprintf("%s z%02d", t[0], z)
}

// independent spec Hilbert index (quadrant recursion, written from the spec text — not Go's loop)
func specH(k uint, d uint64) (uint64, uint64) {
	if k == 0 {
		return 0, 0
	}
	s := uint64(1) << (k - 1)
	q := d >> (2 * (k - 1))
	px, py := specH(k-1, d&((uint64(1)<<(2*(k-1)))-1))
	switch q {
	case 0:
		return py, px
	case 1:
		return px, py + s
	case 2:
		return px + s, py + s
	default:
		return 2*s - 1 - py, s - 1 - px
	}
}

// Oracle: the property's own predicates on the Go functions alone.
func (C01) Oracle(line, goOut string) string {
	t := strings.Fields(line)
	switch t[0] {
	case "zxy":
		z64, _ := strconv.ParseUint(t[1], 10, 8)
		x64, _ := strconv.ParseUint(t[2], 10, 32)
		y64, _ := strconv.ParseUint(t[3], 10, 32)
		z, x, y := uint8(z64), uint32(x64), uint32(y64)
		id := pmtiles.ZxyToID(z, x, y)
		if id < base(uint(z)) || id >= base(uint(z)+1) {
			return fmt.Sprintf("ID %d of (%d,%d,%d) outside zoom block [%d,%d)", id, z, x, y, base(uint(z)), base(uint(z)+1))
		}
		hx, hy := specH(uint(z), id-base(uint(z)))
		if hx != uint64(x) || hy != uint64(y) {
			return fmt.Sprintf("ID %d of (%d,%d,%d) is not the spec Hilbert numbering: spec cell of that ID is (%d,%d)", id, z, x, y, hx, hy)
		}
		z2, x2, y2 := pmtiles.IDToZxy(id)
		if z2 != z || x2 != x || y2 != y {
			return fmt.Sprintf("round trip (%d,%d,%d) -> %d -> (%d,%d,%d)", z, x, y, id, z2, x2, y2)
		}
		if z >= 1 {
			if p, want := pmtiles.ParentID(id), pmtiles.ZxyToID(z-1, x/2, y/2); p != want {
				return fmt.Sprintf("ParentID(%d)=%d but ID of (%d,%d,%d) is %d", id, p, z-1, x/2, y/2, want)
			}
		}
	case "id":
		i, _ := strconv.ParseUint(t[1], 10, 64)
		z, x, y := pmtiles.IDToZxy(i)
		if z > 31 || uint64(x) >= uint64(1)<<z || uint64(y) >= uint64(1)<<z {
			return fmt.Sprintf("IDToZxy(%d)=(%d,%d,%d) out of range", i, z, x, y)
		}
		if back := pmtiles.ZxyToID(z, x, y); back != i {
			return fmt.Sprintf("round trip %d -> (%d,%d,%d) -> %d", i, z, x, y, back)
		}
		if i+1 < base(uint(z)+1) {
			z2, x2, y2 := pmtiles.IDToZxy(i + 1)
			dx, dy := int64(x2)-int64(x), int64(y2)-int64(y)
			if z2 != z || dx*dx+dy*dy != 1 {
				return fmt.Sprintf("IDs %d,%d not edge-adjacent: (%d,%d,%d) (%d,%d,%d)", i, i+1, z, x, y, z2, x2, y2)
			}
		}
	case "parent":
		i, _ := strconv.ParseUint(t[1], 10, 64)
		z, x, y := pmtiles.IDToZxy(i)
		if z >= 1 {
			if p, want := pmtiles.ParentID(i), pmtiles.ZxyToID(z-1, x/2, y/2); p != want {
				return fmt.Sprintf("ParentID(%d)=%d, expected %d = ID of (%d,%d,%d)", i, p, want, z-1, x/2, y/2)
			}
		}
	}
	return ""
}
