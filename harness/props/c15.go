package props

import (
	"fmt"
	"os"
	"strconv"
	"strings"

	"github.com/protomaps/go-pmtiles/pmtiles"
	"verifharness/core"
)

// C15 — verify.
type C15 struct{}

func (C15) ID() string { return "C15" }
func (C15) Rule() string {
	return "lines `verify ic pad size <25 header fields> <dirs>`: a valid archive (harness writer: depth 0..2, clustered and unclustered layouts, run lengths, shared contents, both internal compressions, padded and unpadded root) with exactly one corruption applied (each count ±1, min/max/centre zoom ±1, each section length ±1, zero offsets, file size ±1, degenerate bounds, one entry's length or offset pushed beyond the section — first or later reference of a shared content —, two first-occurrence offsets swapped, clustered flag flipped on an unordered archive) or none; real pmtiles.Verify on a temp file vs the model's verdict and error class; non-trivial = at least 3 entries; distinct by hash of the line"
}

// padded layout: root padded with zeros to byte 16384
func rebuildForVerify(ic pmtiles.Compression, pad bool, dirs []parsedDir, data []byte) ([]byte, pmtiles.HeaderV3) {
	ab, h := archiveFromParsed(ic, data, dirs, baseHeader(), []byte("{}"))
	if !pad {
		return ab, h
	}
	rootEnd := h.RootOffset + h.RootLength
	padding := make([]byte, 16384-int(rootEnd))
	out := append([]byte{}, ab[:rootEnd]...)
	out = append(out, padding...)
	out = append(out, ab[rootEnd:]...)
	shift := uint64(len(padding))
	h.MetadataOffset += shift
	h.LeafDirectoryOffset += shift
	h.TileDataOffset += shift
	copy(out, pmtiles.SerializeHeader(h))
	return out, h
}

func verifyLine(ic pmtiles.Compression, pad bool, size int, h pmtiles.HeaderV3, dl string) string {
	p := 0
	if pad {
		p = 1
	}
	return fmt.Sprintf("verify %s %d %d %s %s", compName(ic), p, size, hdrFields(h), dl)
}

func idZoom(id uint64) uint8 { z, _, _ := pmtiles.IDToZxy(id); return z }

func (C15) Gen(r *core.Rng, tier string, emit func(string)) {
	if tier == "thorough" {
		emit = cliDup(emit, []string{"verify"}, 9, 300)
	} else {
		emit = cliDup(emit, []string{"verify"}, 9, 25)
	}
	n := 250
	if tier == "thorough" {
		n = 8000
	}
	for i := 0; i < n; i++ {
		cnt := []int{1, 2, 3, 8, 40, 300}[r.Intn(6)]
		clustered := r.Chance(2, 3)
		ts := randTileSet(r, cnt, maxTileID, clustered, 9)
		if len(ts.entries) == 0 {
			continue
		}
		depth := r.Intn(3)
		ic := pmtiles.Compression(pmtiles.Gzip)
		if r.Chance(1, 3) {
			ic = pmtiles.NoCompression
		}
		pad := r.Chance(1, 4)
		nkinds := 27
		for kind := 0; kind < nkinds; kind++ {
			if kind > 0 && tier != "thorough" && r.Chance(1, 2) {
				continue
			}
			es := append([]pmtiles.EntryV3{}, ts.entries...)
			data := ts.data
			origContents := -1 // set by kind 26: the header declares the distinct offsets of the UNshifted entries
			distinctBefore := map[uint64]bool{}
			for _, e := range es {
				distinctBefore[e.Offset] = true
			}
			// entry-level corruptions happen before the tree is built
			switch kind {
			case 24, 25: // run lengths whose sum reaches 2^32 (consistent archive; kind 25 then corrupts the count by 2^32)
				es[0].RunLength = 4294967295
				for k := 1; k < len(es); k++ {
					es[k].TileID += 4294967296
				}
				if len(es) == 1 {
					es = append(es, pmtiles.EntryV3{TileID: es[0].TileID + 4294967296, Offset: es[0].Offset, Length: es[0].Length, RunLength: 7})
				}
			case 17: // one entry's length pushed beyond the section (any reference, incl. later ones of a shared content)
				k := r.Intn(len(es))
				es[k].Length = uint32(len(data)) + 1 + uint32(r.Intn(5))
			case 18: // one entry's offset shifted beyond the section
				k := r.Intn(len(es))
				es[k].Offset = uint64(len(data)) + uint64(r.Intn(3))
			case 19: // two neighbouring entries swap offsets/lengths
				if len(es) >= 2 {
					k := r.Intn(len(es) - 1)
					es[k].Offset, es[k+1].Offset = es[k+1].Offset, es[k].Offset
					es[k].Length, es[k+1].Length = es[k+1].Length, es[k].Length
				}
			case 26: // a LATER reference of a shared content is shifted by one byte, staying inside the data and below
				// everything written so far; the header keeps the content count of the unshifted archive (below)
				for k := len(es) - 1; k > 0; k-- {
					dup := false
					for j := 0; j < k; j++ {
						if es[j].Offset == es[k].Offset {
							dup = true
						}
					}
					if dup && es[k].Length >= 2 {
						es[k].Offset++
						es[k].Length--
						origContents = 0
						break
					}
				}
			case 20: // a duplicate reference (same offset) gets a different, too long length
				for k := len(es) - 1; k > 0; k-- {
					dup := false
					for j := 0; j < k; j++ {
						if es[j].Offset == es[k].Offset {
							dup = true
						}
					}
					if dup {
						es[k].Length = uint32(len(data)) + 7
						break
					}
				}
			}
			// a third of the trees mix tile entries and leaf pointers in one directory (legal; enumeration order matters)
			root := buildTree(r.Fork(), es, depth, 1+r.Intn(6), r.Chance(1, 3))
			tsk := tileSet{entries: es, data: data}
			ba := assembleArchive(root, tsk, ic, baseHeader(), []byte("{}"))
			dl := ba.dirsLine()
			dirs, _, _ := parseDirsLine(strings.Fields(dl))
			ab, h := rebuildForVerify(ic, pad, dirs, data)
			// a consistent header for this archive
			var addressed uint64
			offs := map[uint64]bool{}
			minID, maxID := es[0].TileID, es[0].TileID
			for _, e := range es {
				addressed += uint64(e.RunLength)
				offs[e.Offset] = true
				if e.TileID < minID {
					minID = e.TileID
				}
				if l := e.TileID + uint64(e.RunLength) - 1; e.RunLength > 0 && l > maxID { // the run's last tile
					maxID = l
				}
			}
			h.AddressedTilesCount, h.TileEntriesCount, h.TileContentsCount = addressed, uint64(len(es)), uint64(len(offs))
			h.MinZoom, h.MaxZoom = idZoom(minID), idZoom(maxID)
			h.CenterZoom = h.MinZoom + uint8(r.Intn(int(h.MaxZoom-h.MinZoom)+1))
			h.Clustered = clustered
			size := len(ab)
			pm := func() int {
				if r.Bool() {
					return 1
				}
				return -1
			}
			switch kind {
			case 1:
				h.AddressedTilesCount += uint64(pm())
			case 2:
				h.TileEntriesCount += uint64(pm())
			case 3:
				h.TileContentsCount += uint64(pm())
			case 4:
				h.MinZoom += uint8(pm())
			case 5:
				h.MaxZoom += uint8(pm())
			case 6:
				if r.Bool() {
					h.CenterZoom = h.MaxZoom + 1
				} else if h.MinZoom > 0 {
					h.CenterZoom = h.MinZoom - 1
				} else {
					h.CenterZoom = h.MaxZoom + 2
				}
			case 7:
				h.RootLength += uint64(pm())
			case 8:
				h.MetadataLength += uint64(pm())
			case 9:
				h.LeafDirectoryLength += uint64(pm())
			case 10:
				h.TileDataLength += uint64(pm())
			case 11:
				size += 1
			case 12:
				size -= 1
			case 13:
				switch r.Intn(4) {
				case 0:
					h.RootOffset = 0
				case 1:
					h.MetadataOffset = 0
				case 2:
					h.LeafDirectoryOffset = 0 // enumeration of root-only archives is unaffected; zero offset is rejected first
				default:
					h.TileDataOffset = 0
				}
			case 14:
				h.MinLonE7, h.MaxLonE7 = h.MaxLonE7, h.MinLonE7
			case 15:
				h.MinLatE7 = h.MaxLatE7
			case 16:
				h.Clustered = !h.Clustered
			case 21:
				h.TileDataLength = uint64(size) + 1 + uint64(r.Intn(3)) // section longer than the file
			case 22:
				h.MinLonE7 = h.MaxLonE7
			case 23:
				h.CenterZoom = h.MinZoom // boundary: still valid
			case 25:
				h.AddressedTilesCount -= 4294967296 // equal modulo 2^32: must be rejected
			case 26:
				if origContents == 0 {
					h.TileContentsCount = uint64(len(distinctBefore))
				}
			}
			if kind == 13 && h.LeafDirectoryOffset == 0 && len(dirs) > 1 {
				continue // would change what the enumeration reads
			}
			if kind == 7 && pad {
				continue // a padded archive's total length does not involve RootLength: the root would be read truncated and the enumeration itself changes
			}
			emit(verifyLine(ic, pad, size, h, dl))
		}
	}
}

func (C15) RunGo(line string) string {
	cliMode, t := splitCLI(strings.Fields(line))
	if t[0] != "verify" || len(t) < 30 {
		return "bad-case"
	}
	ic := compOf(t[1])
	pad := t[2] == "1"
	size, _ := strconv.Atoi(t[3])
	h, ok := parseHdrFields(t[4:29])
	if !ok {
		return "bad-case"
	}
	dirs, _, ok := parseDirsLine(t[29:])
	if !ok || len(dirs) == 0 {
		return "bad-case"
	}
	// tile data is not inspected by verify: only its length matters (taken from the true layout)
	var dataLen uint64
	for _, d := range dirs {
		for _, e := range d.entries {
			if e.RunLength > 0 && e.Offset+uint64(e.Length) > dataLen && e.Offset+uint64(e.Length) < 1<<20 {
				dataLen = e.Offset + uint64(e.Length)
			}
		}
	}
	ab, trueH := rebuildForVerify(ic, pad, dirs, make([]byte, dataLen))
	_ = trueH
	copy(ab, pmtiles.SerializeHeader(h))
	// bring the file to the stated size
	if size < len(ab) {
		ab = ab[:size]
	} else {
		ab = append(ab, make([]byte, size-len(ab))...)
	}
	path := scratchFile(".pmtiles")
	os.WriteFile(path, ab, 0o644)
	defer os.Remove(path)
	err := opVerify(cliMode, path)
	if err == errNoCLI {
		return "no-cli-binary"
	}
	if err == nil {
		return "ok"
	}
	return "err " + verifyErrClass(err.Error())
}

func verifyErrClass(m string) string {
	switch {
	case strings.Contains(m, "must not be 0"):
		return "zero-offset"
	case strings.Contains(m, "out of bounds"):
		return "section-oob"
	case strings.Contains(m, "total length"):
		return "total-length"
	case strings.Contains(m, "outside of tile data"), strings.Contains(m, "out-of-order"):
		return "entry"
	case strings.Contains(m, "AddressedTilesCount"):
		return "addressed"
	case strings.Contains(m, "TileEntriesCount"):
		return "entries"
	case strings.Contains(m, "TileContentsCount"):
		return "contents"
	case strings.Contains(m, "MinZoom=") && strings.Contains(m, "does not match"):
		return "minzoom"
	case strings.Contains(m, "MaxZoom=") && strings.Contains(m, "does not match"):
		return "maxzoom"
	case strings.Contains(m, "CenterZoom"):
		return "centerzoom"
	case strings.Contains(m, "bounds"):
		return "bounds"
	}
	return "other:" + strings.ReplaceAll(trunc(m, 60), " ", "_")
}

// Agree: which of several reasons an archive is rejected for — and in what words — is not part of the property;
// accepted vs rejected is.  (Each generated case carries at most one corruption, so a check that disappears
// turns "err" into "ok".)
func (C15) Agree(line, goOut, modelOut string) bool {
	return goOut == modelOut || (strings.HasPrefix(goOut, "err ") && strings.HasPrefix(modelOut, "err "))
}

func (C15) NonTrivial(line string) bool {
	return strings.Count(line, ":") >= 9 // at least 3 entries
}

func (C15) Branch(line, goOut string) string { return goOut }

// Oracle: `Consistent` evaluated independently from header fields + flattened entries.
func (C15) Oracle(line, goOut string) string {
	_, t := splitCLI(strings.Fields(line))
	size, _ := strconv.Atoi(t[3])
	h, _ := parseHdrFields(t[4:29])
	dirs, _, ok := parseDirsLine(t[29:])
	if !ok {
		return ""
	}
	byRange := map[[2]uint64][]pmtiles.EntryV3{}
	for _, d := range dirs[1:] {
		byRange[[2]uint64{d.off, d.length}] = d.entries
	}
	var flat []pmtiles.EntryV3
	var walk func(es []pmtiles.EntryV3)
	walk = func(es []pmtiles.EntryV3) {
		for _, e := range es {
			if e.RunLength > 0 {
				flat = append(flat, e)
			} else {
				walk(byRange[[2]uint64{e.Offset, uint64(e.Length)}])
			}
		}
	}
	walk(dirs[0].entries)
	consistent := true
	why := ""
	no := func(s string) {
		if consistent {
			why = s
		}
		consistent = false
	}
	sz := uint64(size)
	if h.RootOffset == 0 || h.MetadataOffset == 0 || h.LeafDirectoryOffset == 0 || h.TileDataOffset == 0 {
		no("zero offset")
	}
	if h.RootLength > sz || h.MetadataLength > sz || h.LeafDirectoryLength > sz || h.TileDataLength > sz {
		no("section longer than file")
	}
	if !(sz == 127+h.RootLength+h.MetadataLength+h.LeafDirectoryLength+h.TileDataLength || sz == 16384+h.MetadataLength+h.LeafDirectoryLength+h.TileDataLength) {
		no("total length")
	}
	var addressed uint64
	offs := map[uint64]bool{}
	var cur uint64
	minID, maxID := ^uint64(0), uint64(0)
	for _, e := range flat {
		addressed += uint64(e.RunLength)
		if e.Offset+uint64(e.Length) > h.TileDataLength {
			no("entry outside tile data")
		}
		if !offs[e.Offset] {
			if h.Clustered && e.Offset != cur {
				no("clustered but not laid out in tile-ID order")
			}
			cur += uint64(e.Length)
		}
		offs[e.Offset] = true
		if e.TileID < minID {
			minID = e.TileID
		}
		if l := e.TileID + uint64(e.RunLength) - 1; e.RunLength > 0 && l > maxID { // the run's last tile
			maxID = l
		}
	}
	if addressed != h.AddressedTilesCount || uint64(len(flat)) != h.TileEntriesCount || uint64(len(offs)) != h.TileContentsCount {
		no("counts")
	}
	if len(flat) > 0 && (idZoom(minID) != h.MinZoom || idZoom(maxID) != h.MaxZoom) {
		no("zoom range")
	}
	if !(h.CenterZoom >= h.MinZoom && h.CenterZoom <= h.MaxZoom) {
		no("center zoom")
	}
	if h.MinLonE7 >= h.MaxLonE7 || h.MinLatE7 >= h.MaxLatE7 {
		no("bounds")
	}
	if consistent && goOut != "ok" {
		return "consistent archive rejected: " + goOut
	}
	if !consistent && goOut == "ok" {
		return "inconsistent archive accepted (" + why + ")"
	}
	return ""
}
