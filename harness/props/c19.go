package props

import (
	"fmt"
	"math"
	"math/big"
	"os"
	"sort"
	"strconv"
	"strings"

	"github.com/protomaps/go-pmtiles/pmtiles"
	"verifharness/core"
)

// C19 — extract transfer budget.
type C19 struct{}

func (C19) ID() string { return "C19" }
func (C19) Rule() string {
	return "lines `mergecheck num den <ranges> P <plans>` (real MergeRanges at volume: gaps of varied size, back-references, budgets met exactly, totals around 2^24 where float32 rounds; plans are a certificate decided by mergeOK under the exact budget floor(total*overfetch)) and `extract …` (real pmtiles.Extract from a loopback HTTP origin that records every Range header, overfetch in {0,0.05,0.375,1,8}, threads {1,2,4,8}; tile-data bytes requested vs (1+overfetch) x result size in exact rational arithmetic, overlap of requests, containment of every request in its section); non-trivial = at least 3 ranges; distinct by hash of the line"
}

func (C19) Gen(r *core.Rng, tier string, emit func(string)) {
	nHook, nE2E := 4000, 70
	if tier == "thorough" {
		nHook, nE2E = 200000, 800
	}
	for i := 0; i < nHook; i++ {
		ranges := randRanges(r, r.Intn(14), r.Chance(1, 5))
		of := overfetchChoices[r.Intn(len(overfetchChoices))]
		if r.Chance(1, 4) {
			of = float32(r.Intn(1000)) / 100
		}
		emit(mergeLine(ranges, of))
	}
	// float32 rounding window: totals just above 2^24 with a gap equal to the rounded-up budget
	for _, extra := range []uint64{1, 2, 3, 5} {
		l2 := uint64(1<<24) + extra
		rs := []pmtiles.VerifRange{{SrcOffset: 0, DstOffset: 0, Length: 1}, {SrcOffset: 1 + l2 + 2, DstOffset: 1, Length: l2}}
		emit(mergeLine(rs, 1))
		rs[1].SrcOffset = 1 + l2 + 1
		emit(mergeLine(rs, 1))
	}
	// float64 rounding window: totals of hundreds of megabytes and more where total × overfetch lies a hair
	// below an integer, so that a budget computed in float64 rounds up across it (total·num ≡ −1 mod den for overfetch = num/den);
	// the gap is one byte more than the exact budget floor(total × overfetch) and must not be bridged
	for _, of := range []float32{0.1, 0.05, 0.3, 0.7, 0.2, 1.1, 0.015} {
		num, den := ratOfFloat32(of) // den is a power of two, num odd
		inv := new(big.Int).ModInverse(num, den)
		if inv == nil {
			continue
		}
		// T·num ≡ -1 (mod den): total × overfetch = integer − 1/den
		t0 := new(big.Int).Mod(new(big.Int).Neg(inv), den)
		for _, m := range []int64{4, 9, 130} {
			Tb := new(big.Int).Add(t0, new(big.Int).Mul(big.NewInt(m), den))
			if !Tb.IsUint64() || Tb.Uint64() < 1<<20 || Tb.Uint64() > 1<<45 {
				continue
			}
			T := Tb.Uint64()
			exact := new(big.Int).Div(new(big.Int).Mul(Tb, num), den).Uint64()
			gap := exact + 1
			rs := []pmtiles.VerifRange{{SrcOffset: 0, DstOffset: 0, Length: 1}, {SrcOffset: 1 + gap, DstOffset: 1, Length: T - 1}}
			emit(mergeLine(rs, of))
			rs[1].SrcOffset = 1 + exact // exactly the budget: may be bridged, must stay within the bound
			emit(mergeLine(rs, of))
		}
	}
	// chains with increasing gaps and a final gap just beyond the remaining budget (under-charging shapes)
	for _, g := range [][]uint64{{10, 200, 220}, {1, 2, 300}, {5, 50, 500, 5000}} {
		var rs []pmtiles.VerifRange
		var src, dst uint64
		for i := 0; i <= len(g); i++ {
			rs = append(rs, pmtiles.VerifRange{SrcOffset: src, DstOffset: dst, Length: 200})
			src += 200
			dst += 200
			if i < len(g) {
				src += g[i]
			}
		}
		for _, of := range []float32{0.375, 0.2625, 0.3, 0.5, 0.7, 1} {
			emit(mergeLine(rs, of))
		}
	}
	// the ranges extract asks the origin for: entry lists over a few contents stored back to back, with repeated
	// and back-referenced contents in every order — no source byte may be covered by two ranges
	nRe := 600
	if tier == "thorough" {
		nRe = 30000
	}
	for i := 0; i < nRe; i++ {
		nc := 2 + r.Intn(5)
		var offs []uint64
		var lens []uint32
		var off uint64
		for k := 0; k < nc; k++ {
			l := uint32(1 + r.Intn(40))
			offs = append(offs, off)
			lens = append(lens, l)
			off += uint64(l)
			if r.Chance(1, 5) {
				off += uint64(1 + r.Intn(30)) // a content the region does not need lies in between
			}
		}
		var es []pmtiles.EntryV3
		id := uint64(r.Intn(50))
		for k := 0; k < 2+r.Intn(9); k++ {
			c := r.Intn(nc)
			rl := uint32(1)
			if r.Chance(1, 6) {
				rl = uint32(2 + r.Intn(4))
			}
			es = append(es, pmtiles.EntryV3{TileID: id, Offset: offs[c], Length: lens[c], RunLength: rl})
			id += uint64(rl) + uint64(r.Intn(3))
		}
		emit("reencode " + fmtEntries(es))
	}
	// thousands of separate download ranges: a source holding three tile rows of one zoom, of which the
	// region selects the middle one — in Hilbert order the selected tiles are scattered among the others
	nStrip := 2
	if tier == "thorough" {
		nStrip = 12
	}
	for i := 0; i < nStrip; i++ {
		z := uint8(10 + r.Intn(2))
		row := uint32(300 + r.Intn(400))
		ba, ts, ic, bbox := stripSource(r, z, row)
		ivs, err := extractSet(int8(z), int8(z), bbox)
		if err != nil {
			continue
		}
		emit(fmt.Sprintf("extract %d %s A %s %s %s # %d %d %s", z, fmtIvs(ivs), compName(ic), hexs(ts.data), ba.dirsLine(), -1, -1, bbox))
	}
	for i := 0; i < nE2E; i++ {
		ba, ts, ic := randClusteredSource(r)
		if len(ts.entries) == 0 {
			continue
		}
		minz, maxz := int8(-1), int8(-1)
		if r.Bool() {
			maxz = int8(1 + r.Intn(7))
		}
		bbox := "-"
		if r.Chance(2, 3) {
			w, s := -170+r.Intn(300), -70+r.Intn(120)
			bbox = fmt.Sprintf("%d,%d,%d,%d", w, s, w+5+r.Intn(60), s+3+r.Intn(25))
		}
		cmin, cmax := clampZooms(ba.header, minz, maxz)
		if cmin > cmax {
			continue
		}
		bb := bbox
		if bb == "-" {
			bb = ""
		}
		ivs, err := extractSet(cmin, cmax, bb)
		if err != nil {
			continue
		}
		emit(fmt.Sprintf("extract %d %s A %s %s %s # %d %d %s", cmax, fmtIvs(ivs), compName(ic), hexs(ts.data), ba.dirsLine(), minz, maxz, bbox))
	}
}

// {8,0}: no merging and eight download threads — the configuration in which a request issued twice
// (or a dropped one) by racing workers shows up in the origin's log
// stripSource: all tiles of rows row-1, row, row+1 of zoom z (distinct small contents, clustered), and a bbox that
// touches only the middle row
func stripSource(r *core.Rng, z uint8, row uint32) (builtArchive, tileSet, pmtiles.Compression, string) {
	n := uint32(1) << z
	type te struct {
		id uint64
	}
	var ids []uint64
	for y := row - 1; y <= row+1; y++ {
		for x := uint32(0); x < n; x++ {
			ids = append(ids, pmtiles.ZxyToID(z, x, y))
		}
	}
	sort.Slice(ids, func(i, j int) bool { return ids[i] < ids[j] })
	var ts tileSet
	for k, id := range ids {
		c := []byte(fmt.Sprintf("%d;", k))
		ts.entries = append(ts.entries, pmtiles.EntryV3{TileID: id, Offset: uint64(len(ts.data)), Length: uint32(len(c)), RunLength: 1})
		ts.data = append(ts.data, c...)
	}
	ic := pmtiles.Compression(pmtiles.Gzip)
	root := buildTree(r, ts.entries, 1, 1500, false)
	h := baseHeader()
	h.Clustered = true
	h.TileType = pmtiles.Mvt
	h.MinZoom, h.MaxZoom, h.CenterZoom = z, z, z
	ba := assembleArchive(root, ts, ic, h, clusterMeta)
	// latitude strictly inside tile row `row`
	lat := func(y float64) float64 {
		return math.Atan(math.Sinh(math.Pi*(1-2*y/float64(n)))) * 180 / math.Pi
	}
	north, south := lat(float64(row)+0.3), lat(float64(row)+0.7)
	bbox := fmt.Sprintf("-179.9,%.6f,179.9,%.6f", south, north)
	return ba, ts, ic, bbox
}

var c19Cfgs = []extractCfg{{threads: 1, http: true}, {threads: 4, of: 0.05, http: true}, {threads: 1, of: 0.375, http: true}, {threads: 4, of: 1, http: true}, {threads: 2, of: 8, http: true}, {threads: 8, http: true},
	// the origin cuts one tile-data body short: the extract may fail; if it reports success the transfer bounds hold
	{threads: 1, http: true, flaky: true}, {threads: 2, of: 0.375, http: true, flaky: true}}

func (C19) RunGo(line string) string {
	t := strings.Fields(line)
	switch t[0] {
	case "mergecheck":
		return runMergecheck(t)
	case "extract":
		return C07{}.RunGo(line)
	case "reencode":
		return runReencode(t)
	}
	return "bad-case"
}

func (C19) NonTrivial(line string) bool { return strings.Count(line, ":") >= 6 }
func (C19) Branch(line, goOut string) string {
	return strings.Fields(line)[0] + " " + strings.SplitN(goOut, " ", 2)[0]
}

func (C19) Oracle(line, goOut string) string {
	t := strings.Fields(line)
	if strings.HasPrefix(goOut, "panic") {
		return goOut
	}
	switch t[0] {
	case "reencode":
		es, _, ok := parseEntries(t[1:])
		if !ok {
			return ""
		}
		_, ranges, total, _, _ := pmtiles.VerifReencodeEntries(es)
		// needed bytes = the distinct contents; the ranges must cover each exactly once
		need := map[uint64]uint64{}
		for _, e := range es {
			need[e.Offset] = uint64(e.Length)
		}
		var needed, sum uint64
		for _, l := range need {
			needed += l
		}
		type iv struct{ lo, hi uint64 }
		var ivs []iv
		for _, rg := range ranges {
			sum += rg.Length
			ivs = append(ivs, iv{rg.SrcOffset, rg.SrcOffset + rg.Length})
		}
		sort.Slice(ivs, func(i, j int) bool { return ivs[i].lo < ivs[j].lo })
		for i := 1; i < len(ivs); i++ {
			if ivs[i-1].hi > ivs[i].lo {
				return fmt.Sprintf("source bytes [%d,%d) are covered by two download ranges", ivs[i].lo, ivs[i-1].hi)
			}
		}
		if sum != needed || total != needed {
			return fmt.Sprintf("the download ranges cover %d bytes (reported %d) for %d needed bytes", sum, total, needed)
		}
		return ""
	case "mergecheck":
		m := mergeOracle(t, "C19")
		if strings.HasPrefix(m, "TWICE") {
			n, _ := strconv.Atoi(t[3])
			ranges, _ := parseRanges(t[4 : 4+n])
			if rangesHaveBackref(ranges) {
				return "KNOWN:D8b:" + m
			}
		}
		return m
	case "extract":
		if strings.HasPrefix(goOut, "outputs-differ") {
			return "the same extract gives different files under different thread/overfetch settings: some needed range was not transferred (or transferred to the wrong place): " + goOut
		}
		cfgs := append([]extractCfg{}, c19Cfgs...)
		if len(t) <= 300 {
			// (not for the strip sources: the failing origin delays every other tile request)
			cfgs = append(cfgs, extractCfg{threads: 3, http: true, fail500: true}, extractCfg{threads: 4, of: 0.05, http: true, fail500: true})
		}
		if len(t) > 300 {
			// many separate ranges: repeat the unmerged multi-thread configurations (schedule-dependent duplicates)
			cfgs = append(cfgs, extractCfg{threads: 8, http: true}, extractCfg{threads: 4, http: true}, extractCfg{threads: 8, http: true})
		}
		if (lineHash(line)%5 == 0 || len(t) > 300) && os.Getenv("VERIF_CLI") != "" {
			// the budget the user states on the command line is the budget that applies: explicit 0, the defaults
			// (4 threads, 5 %), an explicit ratio
			cfgs = append(append([]extractCfg{}, cfgs...), extractCfg{cli: true, threads: 4, of: 0, http: true},
				extractCfg{cli: true, threads: 4, of: 0.05, http: true}, extractCfg{cli: true, threads: 2, of: 0.375, http: true})
		}
		runs, src, bad := runExtractConfigs(t, cfgs)
		if bad != "" {
			return "extract failed: " + bad
		}
		sa := readWholeArchive(src)
		for _, run := range runs {
			if run.failed {
				// an extract that fails is still an extract: what it asked the origin for obeys the same rule —
				// no tile-data range is requested a second time (by another worker, or as a retry)
				seen := map[recordedRange]bool{}
				for _, rq := range run.recs {
					if rq.lo >= int64(sa.h.TileDataOffset) && rq.hi >= rq.lo {
						if seen[rq] {
							return fmt.Sprintf("threads=%d, one tile-data request answered 500: bytes=%d-%d requested again although the extract fails", run.cfg.threads, rq.lo, rq.hi)
						}
						seen[rq] = true
					}
				}
				continue
			}
			ra := readWholeArchive(run.out)
			if ra.err != "" {
				return "output unreadable: " + ra.err
			}
			type sec struct {
				name   string
				lo, hi int64
			}
			secs := []sec{{"header", 0, 127}, {"root", int64(sa.h.RootOffset), int64(sa.h.RootOffset + sa.h.RootLength)},
				{"metadata", int64(sa.h.MetadataOffset), int64(sa.h.MetadataOffset + sa.h.MetadataLength)},
				{"leaves", int64(sa.h.LeafDirectoryOffset), int64(sa.h.LeafDirectoryOffset + sa.h.LeafDirectoryLength)},
				{"tiles", int64(sa.h.TileDataOffset), int64(sa.h.TileDataOffset + sa.h.TileDataLength)}}
			var tileReqs []recordedRange
			var tileBytes int64
			for _, rq := range run.recs {
				if rq.hi < rq.lo {
					continue // zero-length section request (e.g. empty metadata): bytes=N-(N-1)
				}
				inside := ""
				for _, s := range secs {
					if rq.lo >= s.lo && rq.hi < s.hi {
						inside = s.name
					}
				}
				if inside == "" {
					return fmt.Sprintf("threads=%d overfetch=%v: request bytes=%d-%d does not lie inside one section", run.cfg.threads, run.cfg.of, rq.lo, rq.hi)
				}
				if inside == "tiles" {
					tileReqs = append(tileReqs, rq)
					tileBytes += rq.hi - rq.lo + 1
				}
			}
			needed := int64(ra.h.TileDataLength)
			num, den := ratOfFloat32(run.cfg.of)
			lhs := new(big.Int).Mul(den, big.NewInt(tileBytes))
			rhs := new(big.Int).Mul(new(big.Int).Add(den, num), big.NewInt(needed))
			if lhs.Cmp(rhs) > 0 {
				return fmt.Sprintf("threads=%d: requested %d tile data bytes in %d requests; the limit is (1 + %v) x %d", run.cfg.threads, tileBytes, len(tileReqs), run.cfg.of, needed)
			}
			if run.cfg.of == 0 && tileBytes != needed {
				return fmt.Sprintf("overfetch 0: %d tile bytes requested, %d needed", tileBytes, needed)
			}
			sort.Slice(tileReqs, func(i, j int) bool { return tileReqs[i].lo < tileReqs[j].lo })
			for i := 1; i < len(tileReqs); i++ {
				if tileReqs[i-1].hi >= tileReqs[i].lo {
					m := fmt.Sprintf("source tile byte %d requested twice (bytes=%d-%d and bytes=%d-%d, overfetch %v)", tileReqs[i].lo, tileReqs[i-1].lo, tileReqs[i-1].hi, tileReqs[i].lo, tileReqs[i].hi, run.cfg.of)
					// known finding D8b iff the selected entries contain a back-reference
					_, ranges, _, _, _ := pmtiles.VerifReencodeEntries(selectedEntries(sa, ra))
					if rangesHaveBackref(ranges) {
						return "KNOWN:D8b:" + m
					}
					return m
				}
			}
		}
	}
	return ""
}

// the source entries restricted to what the extract addresses (for the D8b classifier)
func selectedEntries(sa, ra readArchive) []pmtiles.EntryV3 {
	var out []pmtiles.EntryV3
	for _, e := range ra.flat {
		for _, s := range sa.flat {
			if s.TileID <= e.TileID && e.TileID < s.TileID+uint64(s.RunLength) {
				out = append(out, pmtiles.EntryV3{TileID: e.TileID, Offset: s.Offset, Length: s.Length, RunLength: e.RunLength})
				break
			}
		}
	}
	return out
}
