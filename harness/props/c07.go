package props

import (
	"bytes"
	"crypto/sha256"
	"fmt"
	"math/big"
	"net/http"
	"net/http/httptest"
	"os"
	"sort"
	"strconv"
	"strings"
	"sync"
	"time"

	"github.com/RoaringBitmap/roaring/roaring64"
	"github.com/protomaps/go-pmtiles/pmtiles"
	"verifharness/core"
)

// ---------- shared helpers for C07 / C19 ----------

type iv struct{ lo, hi uint64 }

func fmtIvs(ivs []iv) string {
	var p []string
	for _, v := range ivs {
		p = append(p, fmt.Sprintf("%d-%d", v.lo, v.hi))
	}
	return strings.Join(p, " ")
}

func parseIvs(t []string) []iv {
	var out []iv
	for _, s := range t {
		p := strings.Split(s, "-")
		if len(p) != 2 {
			continue
		}
		a, _ := strconv.ParseUint(p[0], 10, 64)
		b, _ := strconv.ParseUint(p[1], 10, 64)
		out = append(out, iv{a, b})
	}
	return out
}

func bitmapOf(ivs []iv) *roaring64.Bitmap {
	b := roaring64.New()
	for _, v := range ivs {
		if v.lo < v.hi {
			b.AddRange(v.lo, v.hi)
		}
	}
	return b
}

func ivsOf(b *roaring64.Bitmap) []iv {
	var out []iv
	it := b.Iterator()
	started := false
	var lo, prev uint64
	for it.HasNext() {
		v := it.Next()
		if !started {
			lo, prev, started = v, v, true
			continue
		}
		if v == prev+1 {
			prev = v
			continue
		}
		out = append(out, iv{lo, prev + 1})
		lo, prev = v, v
	}
	if started {
		out = append(out, iv{lo, prev + 1})
	}
	return out
}

func fmtRanges(rs []pmtiles.VerifRange) string {
	var p []string
	for _, r := range rs {
		p = append(p, fmt.Sprintf("%d:%d:%d", r.SrcOffset, r.DstOffset, r.Length))
	}
	return strings.Join(p, " ")
}

func parseRanges(t []string) ([]pmtiles.VerifRange, bool) {
	var out []pmtiles.VerifRange
	for _, s := range t {
		p := strings.Split(s, ":")
		if len(p) != 3 {
			return nil, false
		}
		a, _ := strconv.ParseUint(p[0], 10, 64)
		b, _ := strconv.ParseUint(p[1], 10, 64)
		c, _ := strconv.ParseUint(p[2], 10, 64)
		out = append(out, pmtiles.VerifRange{SrcOffset: a, DstOffset: b, Length: c})
	}
	return out, true
}

func fmtPlans(ps []pmtiles.VerifPlan) string {
	// canonical order: by destination offset (Go's order depends on an unstable sort)
	sort.SliceStable(ps, func(i, j int) bool { return ps[i].Rng.DstOffset < ps[j].Rng.DstOffset })
	var out []string
	for _, p := range ps {
		var cds []string
		for _, c := range p.CopyDiscards {
			cds = append(cds, fmt.Sprintf("%d,%d", c.Wanted, c.Discard))
		}
		out = append(out, fmt.Sprintf("%d:%d:%d:%s", p.Rng.SrcOffset, p.Rng.DstOffset, p.Rng.Length, strings.Join(cds, ";")))
	}
	return strings.Join(out, " ")
}

func parsePlans(t []string) []pmtiles.VerifPlan {
	var out []pmtiles.VerifPlan
	for _, s := range t {
		p := strings.Split(s, ":")
		if len(p) != 4 {
			continue
		}
		a, _ := strconv.ParseUint(p[0], 10, 64)
		b, _ := strconv.ParseUint(p[1], 10, 64)
		c, _ := strconv.ParseUint(p[2], 10, 64)
		pl := pmtiles.VerifPlan{Rng: pmtiles.VerifRange{SrcOffset: a, DstOffset: b, Length: c}}
		for _, cd := range strings.Split(p[3], ";") {
			q := strings.Split(cd, ",")
			if len(q) == 2 {
				w, _ := strconv.ParseUint(q[0], 10, 64)
				d, _ := strconv.ParseUint(q[1], 10, 64)
				pl.CopyDiscards = append(pl.CopyDiscards, pmtiles.VerifCopyDiscard{Wanted: w, Discard: d})
			}
		}
		out = append(out, pl)
	}
	return out
}

// exact value of a float32 as num/den
func ratOfFloat32(f float32) (*big.Int, *big.Int) {
	r := new(big.Rat).SetFloat64(float64(f))
	return new(big.Int).Set(r.Num()), new(big.Int).Set(r.Denom())
}

func float32OfRat(num, den string) float32 {
	n, _ := new(big.Int).SetString(num, 10)
	d, _ := new(big.Int).SetString(den, 10)
	f, _ := new(big.Rat).SetFrac(n, d).Float32()
	return f
}

var overfetchChoices = []float32{0, 0, 0.05, 0.2, 0.375, 1, 2.5, 8, 10, 24, 100}

// range lists: dst-contiguous (as reencodeEntries produces), src mostly ascending with gaps of varied size,
// optionally with back-references
func randRanges(r *core.Rng, n int, backrefs bool) []pmtiles.VerifRange {
	var out []pmtiles.VerifRange
	var src, dst uint64
	src = uint64(r.Intn(100))
	for i := 0; i < n; i++ {
		l := uint64(1 + r.Intn(200))
		if r.Chance(1, 10) {
			l = uint64(1 + r.Intn(1<<15))
		}
		if backrefs && i > 0 && r.Chance(1, 5) {
			// a range that refers back to earlier source content
			out = append(out, pmtiles.VerifRange{SrcOffset: uint64(r.Intn(int(src) + 1)), DstOffset: dst, Length: l})
			dst += l
			continue
		}
		gap := uint64(1 + r.Intn(50))
		switch r.Intn(6) {
		case 0:
			gap = uint64(1 + r.Intn(5000))
		case 1:
			gap = 1
		case 2:
			gap = uint64(900 + r.Intn(300))
		}
		src += gap
		out = append(out, pmtiles.VerifRange{SrcOffset: src, DstOffset: dst, Length: l})
		src += l
		dst += l
	}
	return out
}

func mergeLine(ranges []pmtiles.VerifRange, of float32) string {
	num, den := ratOfFloat32(of)
	plans, _ := pmtiles.VerifMergeRanges(ranges, of)
	return fmt.Sprintf("mergecheck %s %s %d %s P %s", num.String(), den.String(), len(ranges), fmtRanges(ranges), fmtPlans(plans))
}

func runMergecheck(t []string) string {
	of := float32OfRat(t[1], t[2])
	n, _ := strconv.Atoi(t[3])
	if len(t) < 4+n+1 {
		return "bad-case"
	}
	ranges, ok := parseRanges(t[4 : 4+n])
	if !ok || t[4+n] != "P" {
		return "bad-case"
	}
	plans, total := pmtiles.VerifMergeRanges(ranges, of)
	if fmtPlans(plans) != strings.Join(t[5+n:], " ") {
		return "plans-differ-from-recorded"
	}
	return fmt.Sprintf("ok transfer=%d", total)
}

// oracle on one MergeRanges result; which = "C07" (same bytes) or "C19" (budget/once/inside)
func mergeOracle(t []string, which string) string {
	of := float32OfRat(t[1], t[2])
	n, _ := strconv.Atoi(t[3])
	ranges, _ := parseRanges(t[4 : 4+n])
	plans, total := pmtiles.VerifMergeRanges(ranges, of)
	var wanted uint64
	var limit uint64
	for _, r := range ranges {
		wanted += r.Length
		if r.SrcOffset+r.Length > limit {
			limit = r.SrcOffset + r.Length
		}
	}
	if which == "C07" {
		// execute plans on a synthetic source: byte at position p is a function of p
		src := func(p uint64) byte { return byte(p*2654435761>>7) ^ byte(p) }
		out := map[uint64]byte{}
		for _, p := range plans {
			pos := p.Rng.SrcOffset
			dst := p.Rng.DstOffset
			for _, cd := range p.CopyDiscards {
				if cd.Wanted > 1<<22 {
					return "" // too large to execute bytewise
				}
				for k := uint64(0); k < cd.Wanted; k++ {
					out[dst+k] = src(pos + k)
				}
				pos += cd.Wanted + cd.Discard
				dst += cd.Wanted
			}
			if pos != p.Rng.SrcOffset+p.Rng.Length {
				return fmt.Sprintf("plan at dst %d: copy/discard list consumes %d bytes, request is %d", p.Rng.DstOffset, pos-p.Rng.SrcOffset, p.Rng.Length)
			}
		}
		var cnt uint64
		for _, r := range ranges {
			for k := uint64(0); k < r.Length; k++ {
				b, ok := out[r.DstOffset+k]
				if !ok {
					return fmt.Sprintf("input range %d:%d:%d is never copied (output byte %d missing)", r.SrcOffset, r.DstOffset, r.Length, r.DstOffset+k)
				}
				if b != src(r.SrcOffset+k) {
					return fmt.Sprintf("output byte %d holds source byte from the wrong position", r.DstOffset+k)
				}
				cnt++
			}
		}
		if uint64(len(out)) != cnt {
			return "merged plans write output bytes that no range asked for"
		}
		return ""
	}
	// C19
	var tr uint64
	for _, p := range plans {
		tr += p.Rng.Length
		if p.Rng.SrcOffset+p.Rng.Length > limit {
			return fmt.Sprintf("request %d+%d reaches beyond the last wanted byte %d (outside the section)", p.Rng.SrcOffset, p.Rng.Length, limit)
		}
	}
	if tr != total {
		return "reported total differs from the sum of requests"
	}
	num, den := ratOfFloat32(of)
	lhs := new(big.Int).Mul(den, new(big.Int).SetUint64(tr))
	rhs := new(big.Int).Mul(new(big.Int).Add(den, num), new(big.Int).SetUint64(wanted))
	if lhs.Cmp(rhs) > 0 {
		return fmt.Sprintf("requests transfer %d bytes; the limit is (1 + %v) x %d", tr, of, wanted)
	}
	if of == 0 && tr != wanted {
		return fmt.Sprintf("overfetch 0: %d bytes requested, %d needed", tr, wanted)
	}
	// once: spans pairwise disjoint
	sort.Slice(plans, func(i, j int) bool { return plans[i].Rng.SrcOffset < plans[j].Rng.SrcOffset })
	for i := 1; i < len(plans); i++ {
		if plans[i-1].Rng.SrcOffset+plans[i-1].Rng.Length > plans[i].Rng.SrcOffset {
			return fmt.Sprintf("TWICE source byte %d is requested twice (requests %d+%d and %d+%d)", plans[i].Rng.SrcOffset,
				plans[i-1].Rng.SrcOffset, plans[i-1].Rng.Length, plans[i].Rng.SrcOffset, plans[i].Rng.Length)
		}
	}
	return ""
}

// D8b classifier: a doubly requested byte is the known finding iff the range list contains a
// back-reference (a range whose source offset lies before the end of an earlier range)
func rangesHaveBackref(ranges []pmtiles.VerifRange) bool {
	var end uint64
	for i, r := range ranges {
		if i > 0 && r.SrcOffset < end {
			return true
		}
		if r.SrcOffset+r.Length > end {
			end = r.SrcOffset + r.Length
		}
	}
	return false
}

// ---------- e2e extract ----------

type extractCfg struct {
	cli     bool // through the command-line binary
	threads int
	of      float32
	http    bool
	flaky   bool // the origin cuts the body of the first tile-data response short (once)
	fail500 bool // the origin answers the first tile-data range it is asked for (and every repetition of it) with 500 and delays the others
	cut     int  // the local source file is truncated by this many bytes
}

type recordedRange struct{ lo, hi int64 } // [lo, hi]

// dribbleWriter hands the body to the connection in pieces, flushing after each: the first 96 bytes 16 at a time
// (even a small directory arrives in several reads), the rest 509 at a time
type dribbleWriter struct {
	http.ResponseWriter
	sent int
}

func (d *dribbleWriter) Write(p []byte) (int, error) {
	n := 0
	for len(p) > 0 {
		k := 509
		if d.sent < 96 {
			k = 16
		}
		d.sent += k
		if k > len(p) {
			k = len(p)
		}
		m, err := d.ResponseWriter.Write(p[:k])
		n += m
		if err != nil {
			return n, err
		}
		if f, ok := d.ResponseWriter.(http.Flusher); ok {
			f.Flush()
		}
		p = p[k:]
	}
	return n, nil
}

func runExtract(src []byte, minz, maxz int8, bbox string, cfg extractCfg) ([]byte, []recordedRange, error) {
	path := scratchFile(".pmtiles")
	if cfg.cut > 0 && cfg.cut < len(src) {
		os.WriteFile(path, src[:len(src)-cfg.cut], 0o644)
	} else {
		os.WriteFile(path, src, 0o644)
	}
	defer os.Remove(path)
	out := scratchFile(".out.pmtiles")
	defer os.Remove(out)
	staleOutput(out)
	var recs []recordedRange
	key := path
	if cfg.http {
		var mu sync.Mutex
		cutDone := false
		failLo := int64(-1)
		tdo := int64(-1)
		if h, err := pmtiles.DeserializeHeader(src[:127]); err == nil {
			tdo = int64(h.TileDataOffset)
		}
		srv := httptest.NewServer(http.HandlerFunc(func(w http.ResponseWriter, r *http.Request) {
			cutThis := false
			if rg := r.Header.Get("Range"); strings.HasPrefix(rg, "bytes=") {
				p := strings.Split(strings.TrimPrefix(rg, "bytes="), "-")
				if len(p) == 2 {
					a, _ := strconv.ParseInt(p[0], 10, 64)
					b, _ := strconv.ParseInt(p[1], 10, 64)
					mu.Lock()
					recs = append(recs, recordedRange{a, b})
					if cfg.flaky && !cutDone && tdo >= 0 && a >= tdo && b > a {
						cutDone, cutThis = true, true
					}
					fail, slow := false, false
					if cfg.fail500 && tdo >= 0 && a >= tdo {
						if failLo < 0 {
							failLo = a
						}
						fail, slow = a == failLo, a != failLo
					}
					mu.Unlock()
					if fail {
						http.Error(w, "origin error", 500)
						return
					}
					if slow {
						time.Sleep(60 * time.Millisecond)
					}
				}
			}
			if cutThis {
				// announce the whole range, deliver half of it, close the connection
				rec := httptest.NewRecorder()
				http.ServeContent(rec, r, "a.pmtiles", time.Unix(0, 0), bytes.NewReader(src))
				if hj, ok := w.(http.Hijacker); ok {
					c, bw, _ := hj.Hijack()
					body := rec.Body.Bytes()
					fmt.Fprintf(bw, "HTTP/1.1 %d X\r\n", rec.Code)
					for k, v := range rec.Header() {
						if k == "Content-Length" && len(recs)%2 == 0 {
							// every other time the short answer is even well-formed: a proxy that caps the body
							v = []string{strconv.Itoa(len(body) / 2)}
						}
						fmt.Fprintf(bw, "%s: %s\r\n", k, v[0])
					}
					bw.WriteString("\r\n")
					bw.Write(body[:len(body)/2])
					bw.Flush()
					c.Close()
					return
				}
			}
			// bodies arrive in small pieces, as they do over a real network: one Read of the client never
			// returns a whole directory
			http.ServeContent(&dribbleWriter{ResponseWriter: w}, r, "a.pmtiles", time.Unix(0, 0), bytes.NewReader(src))
		}))
		defer srv.Close()
		key = srv.URL + "/a.pmtiles"
	}
	err := opExtract(cfg.cli, key, minz, maxz, bbox, out, cfg.threads, cfg.of)
	if err != nil {
		return nil, recs, err
	}
	b, err := os.ReadFile(out)
	return b, recs, err
}

// the relevance set exactly as Extract builds it
func extractSet(minz, maxz int8, bbox string) ([]iv, error) {
	if bbox == "" || bbox == "-" {
		return []iv{{base(uint(minz)), base(uint(maxz) + 1)}}, nil
	}
	mp, err := pmtiles.BboxRegion(bbox)
	if err != nil {
		return nil, err
	}
	b, in := pmtiles.VerifBitmapMultiPolygon(uint8(maxz), mp)
	b.Or(in)
	pmtiles.VerifGeneralizeOr(b, uint8(minz))
	return ivsOf(b), nil
}

func clampZooms(h pmtiles.HeaderV3, minz, maxz int8) (int8, int8) {
	if minz == -1 || int8(h.MinZoom) > minz {
		minz = int8(h.MinZoom)
	}
	if maxz == -1 || int8(h.MaxZoom) < maxz {
		maxz = int8(h.MaxZoom)
	}
	return minz, maxz
}

// clustered source with IDs inside zooms 0..maxZ
func randClusteredSource(r *core.Rng) (builtArchive, tileSet, pmtiles.Compression) {
	maxZ := 2 + r.Intn(5)
	cnt := []int{3, 10, 40, 200, 900, 900, 2500}[r.Intn(7)]
	ts := randTileSet(r, cnt, base(uint(maxZ)+1), true, 9)
	// randTileSet spreads IDs with big jumps; keep as is but inside maxID
	depth := r.Intn(2)
	ic := pmtiles.Compression(pmtiles.Gzip)
	if r.Chance(1, 3) {
		ic = pmtiles.NoCompression
	}
	root := buildTree(r, ts.entries, depth, 2+r.Intn(30), false)
	h := baseHeader()
	h.Clustered = true
	h.TileType = pmtiles.Mvt
	if len(ts.entries) > 0 {
		z0, _, _ := pmtiles.IDToZxy(ts.entries[0].TileID)
		last := ts.entries[len(ts.entries)-1]
		z1, _, _ := pmtiles.IDToZxy(last.TileID + uint64(last.RunLength) - 1)
		h.MinZoom, h.MaxZoom, h.CenterZoom = z0, z1, z0
	}
	ba := assembleArchive(root, ts, ic, h, clusterMeta)
	return ba, ts, ic
}

// relevantLine: a directory with tile entries, runs and leaf pointers, and a set of wanted tile IDs
func relevantLine(r *core.Rng) string {
	// IDs stay small: RelevantEntries materialises [ptr.id, next.id) in a roaring bitmap
	es := randTileSet(r, r.Intn(40), 300000, r.Bool(), 50).entries
	for k := range es {
		if es[k].RunLength > 300 {
			es[k].RunLength = uint32(2 + r.Intn(40))
		}
		if r.Chance(1, 5) {
			es[k].RunLength = 0 // leaf pointer
		}
	}
	var ivs []iv
	var lastID uint64 = 10
	if len(es) > 0 {
		lastID = es[len(es)-1].TileID + 50
	}
	for k := 0; k < r.Intn(5); k++ {
		lo := r.U64() % (lastID + 1)
		ivs = append(ivs, iv{lo, lo + 1 + uint64(r.Intn(int(lastID/3)+2))})
	}
	if r.Chance(1, 5) {
		ivs = append(ivs, iv{0, lastID + 100})
	}
	if r.Chance(1, 3) && len(es) > 0 {
		// exactly one tile wanted: the first (or the last) ID an entry — tile run or leaf pointer — stands for
		k := r.Intn(len(es))
		id := es[k].TileID
		if r.Bool() {
			if es[k].RunLength > 0 {
				id += uint64(es[k].RunLength) - 1
			} else if k+1 < len(es) && es[k+1].TileID > id {
				id = es[k+1].TileID - 1
			}
		}
		ivs = []iv{{id, id + 1}}
		if r.Bool() {
			ivs = append(ivs, iv{lastID + 200, lastID + 201})
		}
	}
	if r.Chance(1, 4) {
		// the wanted set holds the first and the last tile of a run and nothing in between: both ends inside,
		// the middle outside (a region the run enters twice)
		var runs []int
		for k := range es {
			if es[k].RunLength >= 3 {
				runs = append(runs, k)
			}
		}
		if len(runs) > 0 {
			e := es[runs[r.Intn(len(runs))]]
			last := e.TileID + uint64(e.RunLength) - 1
			ivs = []iv{{e.TileID, e.TileID + 1}, {last, last + 1}}
			if r.Bool() && e.RunLength >= 5 {
				ivs = []iv{{e.TileID, e.TileID + 2}, {last - 1, last + 1}}
			}
		}
	}
	return fmt.Sprintf("relevant %d %s D %s", 9+r.Intn(4), fmtIvs(ivs), fmtEntries(es))
}

// ---------- C07 ----------

type C07 struct{}

func (C07) ID() string { return "C07" }
func (C07) Rule() string {
	return "lines `relevant maxz <S intervals> D <entries>` (real RelevantEntries on directories with leaf pointers and runs), `reencode <entries>` (shared offsets, contiguous and back-referencing offsets), `mergecheck num den <ranges> P <plans>` (real MergeRanges; the plans are a certificate the model decides with mergeOK; overfetch as the exact value of a float32 in [0,100]) and `extract maxz' <S> A ic <tiledata> <dirs> # minz maxz bbox` (real pmtiles.Extract from clustered sources — root-only or one leaf level, run lengths, shared contents, both internal compressions — with zoom ranges and bboxes, threads {1,2,4,8} x overfetch {0,0.3,8} x file/HTTP source, incl. 8 threads and 4 HTTP threads without merging: all outputs must be byte-identical and equal the model's restriction); non-trivial = at least 3 ranges/entries; distinct by hash of the line"
}

func (C07) Gen(r *core.Rng, tier string, emit func(string)) {
	nHook, nE2E := 1500, 90
	if tier == "thorough" {
		nHook, nE2E = 60000, 1500
	}
	// the deepest zoom: the wanted tiles sit in the last leaf of zoom 31, whose end is the first ID of zoom 32
	// (the end of the ID space the format addresses) — the bound RelevantEntries takes from maxzoom+1
	{
		const end31 = uint64(6148914691236517205) // (4^32-1)/3
		for _, back := range []uint64{40, 1000} {
			es := []pmtiles.EntryV3{
				{TileID: end31 - back - 300, Offset: 0, Length: 10, RunLength: 3},
				{TileID: end31 - back - 200, Offset: 100, Length: 50, RunLength: 0},
				{TileID: end31 - back, Offset: 150, Length: 60, RunLength: 0},
			}
			emit(fmt.Sprintf("relevant 31 %s D %s", fmtIvs([]iv{{end31 - 7, end31 - 2}}), fmtEntries(es)))
			emit(fmt.Sprintf("relevant 31 %s D %s", fmtIvs([]iv{{end31 - back - 299, end31 - back - 298}, {end31 - 1, end31}}), fmtEntries(es)))
		}
	}

	for i := 0; i < nHook; i++ {
		emit(relevantLine(r))
		// reencode: tile entries only
		ts := randTileSet(r, r.Intn(30), 1<<40, r.Bool(), 50)
		emit("reencode " + fmtEntries(ts.entries))
		// mergecheck
		ranges := randRanges(r, r.Intn(12), r.Chance(1, 4))
		emit(mergeLine(ranges, overfetchChoices[r.Intn(len(overfetchChoices))]))
	}
	// the three-merge shape with ordered gaps (stale back-link) and exact-budget shapes
	for _, gaps := range [][]uint64{{3000, 1000, 2000}, {10, 200, 220}, {5, 5, 5, 5}, {1000, 10, 500, 20, 700}} {
		var rs []pmtiles.VerifRange
		var src, dst uint64
		for i := 0; i <= len(gaps); i++ {
			rs = append(rs, pmtiles.VerifRange{SrcOffset: src, DstOffset: dst, Length: 64 + uint64(i)*100})
			src += 64 + uint64(i)*100
			dst += 64 + uint64(i)*100
			if i < len(gaps) {
				src += gaps[i]
			}
		}
		for _, of := range overfetchChoices {
			emit(mergeLine(rs, of))
		}
	}
	// thousands of separate download ranges (see stripSource): the shape in which racing download workers collide
	nStrip := 2
	if tier == "thorough" {
		nStrip = 10
	}
	for i := 0; i < nStrip; i++ {
		z := uint8(10 + r.Intn(2))
		ba, ts, ic, bbox := stripSource(r, z, uint32(300+r.Intn(400)))
		ivs, err := extractSet(int8(z), int8(z), bbox)
		if err != nil {
			continue
		}
		emit(fmt.Sprintf("extract %d %s A %s %s %s # %d %d %s", z, fmtIvs(ivs), compName(ic), hexs(ts.data), ba.dirsLine(), -1, -1, bbox))
	}
	for i := 0; i < nE2E; i++ {
		ba, ts, ic := randClusteredSource(r)
		if len(ts.entries) == 0 {
			continue
		}
		minz, maxz := int8(-1), int8(-1)
		if r.Bool() {
			minz = int8(r.Intn(4))
		}
		if r.Bool() {
			maxz = int8(r.Intn(8)) // 0 included: "only the top of the pyramid" is a request, not "no limit"
		}
		if i < 8 {
			// the boundary value of each zoom option, given explicitly, on a source that has a zoom-0 tile and more
			for tries := 0; tries < 60 && (len(ts.entries) < 3 || ts.entries[0].TileID != 0 || ba.header.MaxZoom == 0); tries++ {
				ba, ts, ic = randClusteredSource(r)
			}
			minz, maxz = []int8{-1, 0, 0, -1}[i%4], []int8{0, 0, -1, 0}[i%4]
		}
		bbox := "-"
		if r.Chance(1, 2) {
			w, s := -170+r.Intn(300), -70+r.Intn(120)
			bbox = fmt.Sprintf("%d,%d,%d,%d", w, s, w+5+r.Intn(60), s+3+r.Intn(25))
		}
		cmin, cmax := clampZooms(ba.header, minz, maxz)
		if cmin > cmax {
			continue
		}
		bb := bbox
		if bb == "-" {
			bb = ""
		}
		ivs, err := extractSet(cmin, cmax, bb)
		if err != nil {
			continue
		}
		emit(fmt.Sprintf("extract %d %s A %s %s %s # %d %d %s", cmax, fmtIvs(ivs), compName(ic), hexs(ts.data), ba.dirsLine(), minz, maxz, bbox))
	}
}

func runRelevant(t []string) string {
	maxz, _ := strconv.Atoi(t[1])
	ivT, rest := splitTok(t[2:], "D")
	es, _, ok := parseEntries(rest)
	if !ok {
		return "bad-case"
	}
	tiles, leaves := pmtiles.RelevantEntries(bitmapOf(parseIvs(ivT)), uint8(maxz), es)
	return "T " + fmtEntries(tiles) + " L " + fmtEntries(leaves)
}

func runReencode(t []string) string {
	es, _, ok := parseEntries(t[1:])
	if !ok {
		return "bad-case"
	}
	re, ranges, total, addressed, contents := pmtiles.VerifReencodeEntries(es)
	return fmt.Sprintf("E %s R %d %s T %d A %d C %d", fmtEntries(re), len(ranges), fmtRanges(ranges), total, addressed, contents)
}

type extractRun struct {
	out    []byte
	recs   []recordedRange
	cfg    extractCfg
	failed bool // the extract reported an error (only kept for fail500 configurations: the requests are still judged)
}

func runExtractConfigs(t []string, cfgs []extractCfg) ([]extractRun, []byte, string) {
	body, cm := stripComment(t)
	_, rest := splitTok(body[2:], "A")
	if len(rest) < 3 || len(cm) < 3 {
		return nil, nil, "bad-case"
	}
	ic := compOf(rest[0])
	data, ok := unhex(rest[1])
	if !ok {
		return nil, nil, "bad-case"
	}
	dirs, _, ok := parseDirsLine(rest[2:])
	if !ok || len(dirs) == 0 {
		return nil, nil, "bad-case"
	}
	minz, _ := strconv.Atoi(cm[0])
	maxz, _ := strconv.Atoi(cm[1])
	bbox := cm[2]
	if bbox == "-" {
		bbox = ""
	}
	h := baseHeader()
	h.Clustered = true
	h.TileType = pmtiles.Mvt
	src, _ := archiveFromParsed(ic, data, dirs, h, clusterMeta)
	ra := readWholeArchive(src)
	if len(ra.flat) > 0 {
		z0, _, _ := pmtiles.IDToZxy(ra.flat[0].TileID)
		last := ra.flat[len(ra.flat)-1]
		z1, _, _ := pmtiles.IDToZxy(last.TileID + uint64(last.RunLength) - 1)
		hh := ra.h
		hh.MinZoom, hh.MaxZoom, hh.CenterZoom = z0, z1, z0
		var addressed uint64
		offs := map[uint64]bool{}
		for _, e := range ra.flat {
			addressed += uint64(e.RunLength)
			offs[e.Offset] = true
		}
		hh.AddressedTilesCount, hh.TileEntriesCount, hh.TileContentsCount = addressed, uint64(len(ra.flat)), uint64(len(offs))
		copy(src, pmtiles.SerializeHeader(hh))
	}
	var runs []extractRun
	for _, c := range cfgs {
		out, recs, err := runExtract(src, int8(minz), int8(maxz), bbox, c)
		if err != nil {
			if c.fail500 {
				runs = append(runs, extractRun{nil, recs, c, true})
				continue
			}
			if c.flaky || c.cut > 0 {
				continue // a failed transfer may fail the extract; a run that reports success is judged like any other
			}
			return nil, src, "extract-error " + strings.ReplaceAll(trunc(err.Error(), 80), " ", "_")
		}
		runs = append(runs, extractRun{out, recs, c, false})
	}
	return runs, src, ""
}

// {8,0} and {4,0,http}: no merging, so every discontiguity is its own download — the configurations in
// which concurrent range writers actually overlap
var c07Cfgs = []extractCfg{{threads: 1}, {threads: 4, of: 0.3}, {threads: 2, of: 8}, {threads: 4, of: 8, http: true}, {threads: 1, of: 0.3, http: true}, {threads: 8}, {threads: 4, http: true},
	// a transfer that goes wrong on a VALID source: the origin cuts one tile-data body short — the extract may
	// fail, but if it reports success its output is the same exact restriction.  (Truncated source FILES are
	// outside the property: they are not archives; see DESIGN §9.3 observations.)
	{threads: 2, of: 0.3, http: true, flaky: true}}

// c07ViaCLI: which extract lines are also run through the binary — one in six, and one in two of those that give
// a zoom option its boundary value 0 (where "not given" and "zero" must not be confused)
func c07ViaCLI(line string) bool {
	if os.Getenv("VERIF_CLI") == "" {
		return false
	}
	h := lineHash(line)
	if h%6 == 0 {
		return true
	}
	if i := strings.LastIndex(line, " # "); i >= 0 {
		f := strings.Fields(line[i+3:])
		if len(f) >= 2 && (f[0] == "0" || f[1] == "0") {
			return f[1] == "0" || h%2 == 0
		}
	}
	return false
}

func (C07) RunGo(line string) string {
	t := strings.Fields(line)
	switch t[0] {
	case "relevant":
		return runRelevant(t)
	case "reencode":
		return runReencode(t)
	case "mergecheck":
		return runMergecheck(t)
	case "extract":
		cfgs := c07Cfgs
		if c07ViaCLI(line) {
			// the same extract through the command-line binary: once with its default threads/overfetch,
			// once with explicit flags, once from an HTTP source
			cfgs = append(append([]extractCfg{}, c07Cfgs...), extractCfg{cli: true, threads: 4, of: 0.05}, extractCfg{cli: true, threads: 2, of: 0.3}, extractCfg{cli: true, threads: 3, of: 0, http: true})
		}
		runs, _, bad := runExtractConfigs(t, cfgs)
		if bad != "" {
			return bad
		}
		for _, r := range runs[1:] {
			if !bytes.Equal(r.out, runs[0].out) {
				return fmt.Sprintf("outputs-differ cli=%v threads=%d overfetch=%v http=%v sha=%x vs %x", r.cfg.cli, r.cfg.threads, r.cfg.of, r.cfg.http, sha256.Sum256(r.out), sha256.Sum256(runs[0].out))
			}
		}
		ra := readWholeArchive(runs[0].out)
		if ra.err != "" {
			return "unreadable: " + ra.err
		}
		return fmt.Sprintf("E %s D %s A %d N %d C %d", fmtEntries(ra.flat), hexs(ra.data), ra.h.AddressedTilesCount, ra.h.TileEntriesCount, ra.h.TileContentsCount)
	}
	return "bad-case"
}

func (C07) NonTrivial(line string) bool { return strings.Count(line, ":") >= 6 }

func (C07) Branch(line, goOut string) string {
	t := strings.Fields(line)
	if t[0] == "mergecheck" {
		return "mergecheck " + strings.SplitN(goOut, " ", 2)[0]
	}
	if t[0] == "extract" {
		_, cm := stripComment(t)
		b := "noregion"
		if len(cm) >= 3 && cm[2] != "-" {
			b = "bbox"
		}
		if c07ViaCLI(line) {
			b += " (also through the command-line binary)"
		}
		return "extract " + b
	}
	return t[0]
}

func (C07) Oracle(line, goOut string) string {
	t := strings.Fields(line)
	if strings.HasPrefix(goOut, "panic") || strings.HasPrefix(goOut, "outputs-differ") || strings.HasPrefix(goOut, "unreadable") {
		return goOut
	}
	switch t[0] {
	case "mergecheck":
		return mergeOracle(t, "C07")
	case "reencode":
		// content preservation (C07.reencode_keeps_content, observed on the real function): output entry i keeps ID,
		// run length and length of input entry i, and the byte at its new offset + k is the source byte at the old
		// offset + k — followed through the ranges (source byte s is copied to dst + (s - src))
		es, _, ok := parseEntries(t[1:])
		if !ok {
			return ""
		}
		samelen := true
		for i := range es {
			for j := 0; j < i; j++ {
				if es[j].Offset == es[i].Offset && es[j].Length != es[i].Length {
					samelen = false // equal offsets with different lengths: outside the theorem's hypothesis (OffLen)
				}
			}
		}
		if !samelen {
			return ""
		}
		re, ranges, _, _, _ := pmtiles.VerifReencodeEntries(es)
		if len(re) != len(es) {
			return fmt.Sprintf("re-encoding %d entries gave %d", len(es), len(re))
		}
		srcOf := func(dst uint64) (uint64, bool) {
			for _, rg := range ranges {
				if dst >= rg.DstOffset && dst < rg.DstOffset+rg.Length {
					return rg.SrcOffset + (dst - rg.DstOffset), true
				}
			}
			return 0, false
		}
		for i, e := range es {
			o := re[i]
			if o.TileID != e.TileID || o.RunLength != e.RunLength || o.Length != e.Length {
				return fmt.Sprintf("entry %d: %v re-encoded as %v", i, e, o)
			}
			if e.Length == 0 {
				continue
			}
			for _, k := range []uint64{0, uint64(e.Length) / 2, uint64(e.Length) - 1} {
				if sv, ok := srcOf(o.Offset + k); !ok || sv != e.Offset+k {
					return fmt.Sprintf("entry %d (tile %d): byte %d of its content is taken from source offset %d (found=%v), its content is at %d", i, e.TileID, k, sv, ok, e.Offset+k)
				}
			}
		}
		return ""
	case "relevant":
		// membership oracle: the tiles addressed by the result = tiles of the directory ∩ S; same offset/length
		maxz, _ := strconv.Atoi(t[1])
		ivT, rest := splitTok(t[2:], "D")
		es, _, _ := parseEntries(rest)
		S := bitmapOf(parseIvs(ivT))
		tiles, leaves := pmtiles.RelevantEntries(S, uint8(maxz), es)
		// a leaf pointer is followed iff a wanted tile lies in the ID span it stands for: from its own ID up to
		// the next entry's ID (the last pointer: up to the end of zoom maxz)
		gotLeaf := map[[2]uint64]bool{}
		for _, l := range leaves {
			gotLeaf[[2]uint64{l.Offset, uint64(l.Length)}] = true
		}
		for i, e := range es {
			if e.RunLength != 0 {
				continue
			}
			hi := base(uint(maxz) + 1)
			if i+1 < len(es) {
				hi = es[i+1].TileID
			}
			need := false
			if hi > e.TileID {
				need = S.Rank(hi-1) > S.Rank(e.TileID) || S.Contains(e.TileID)
			}
			if need != gotLeaf[[2]uint64{e.Offset, uint64(e.Length)}] {
				dup := false // two pointers with the same target would make the comparison ambiguous
				for j, o := range es {
					if j != i && o.RunLength == 0 && o.Offset == e.Offset && o.Length == e.Length {
						dup = true
					}
				}
				if !dup {
					return fmt.Sprintf("leaf pointer %d (IDs %d..%d): wanted tiles inside = %v, but followed = %v", i, e.TileID, hi-1, need, !need)
				}
			}
		}
		want := map[uint64][2]uint64{}
		for _, e := range es {
			for k := uint64(0); k < uint64(e.RunLength); k++ {
				if S.Contains(e.TileID + k) {
					want[e.TileID+k] = [2]uint64{e.Offset, uint64(e.Length)}
				}
			}
		}
		got := map[uint64][2]uint64{}
		for _, e := range tiles {
			if e.RunLength == 0 {
				return "a trimmed entry has run length 0"
			}
			for k := uint64(0); k < uint64(e.RunLength); k++ {
				got[e.TileID+k] = [2]uint64{e.Offset, uint64(e.Length)}
			}
		}
		if len(got) != len(want) {
			return fmt.Sprintf("relevant entries address %d tiles, directory ∩ region has %d", len(got), len(want))
		}
		for id, w := range want {
			if got[id] != w {
				return fmt.Sprintf("tile %d: entry points to %v, source entry to %v", id, got[id], w)
			}
		}
	case "extract":
		runs, src, bad := runExtractConfigs(t, c07Cfgs[:1])
		if bad != "" {
			return "extract failed on a valid clustered source: " + bad
		}
		ra := readWholeArchive(runs[0].out)
		sa := readWholeArchive(src)
		if ra.err != "" {
			return "extract output unreadable: " + ra.err
		}
		if !ra.h.Clustered {
			return "extract not marked clustered"
		}
		if m := ra.countsOK(); m != "" {
			return m
		}
		if _, bad := ra.segments(); bad != "" {
			return "extract output layout: " + bad
		}
		_, cm := stripComment(t)
		minz, _ := strconv.Atoi(cm[0])
		maxz, _ := strconv.Atoi(cm[1])
		cmin, cmax := clampZooms(sa.h, int8(minz), int8(maxz))
		if int8(ra.h.MinZoom) != cmin || int8(ra.h.MaxZoom) != cmax {
			return fmt.Sprintf("zoom range %d..%d, requested %d..%d clamped to the source's is %d..%d", ra.h.MinZoom, ra.h.MaxZoom, minz, maxz, cmin, cmax)
		}
		if ra.h.TileType != sa.h.TileType || ra.h.TileCompression != sa.h.TileCompression || ra.h.InternalCompression != sa.h.InternalCompression {
			return "tile type / compressions not those of the source"
		}
		if canonJSON(ra.metadata) != canonJSON(sa.metadata) {
			return "metadata differs from the source's"
		}
		lo, hi := base(uint(cmin)), base(uint(cmax)+1)
		for _, e := range ra.flat {
			if e.TileID < lo || e.TileID+uint64(e.RunLength) > hi {
				return fmt.Sprintf("entry %d (+%d) outside the requested zoom range", e.TileID, e.RunLength)
			}
			for k := uint64(0); k < uint64(e.RunLength) && k < 200; k++ {
				a, _ := ra.tileAt(e.TileID + k)
				b, ok := sa.tileAt(e.TileID + k)
				if !ok || !bytes.Equal(a, b) {
					return fmt.Sprintf("tile %d: %x in the extract, %x in the source", e.TileID+k, a, b)
				}
			}
		}
		if cm[2] == "-" {
			var ns, nr uint64
			for _, e := range sa.flat {
				for k := uint64(0); k < uint64(e.RunLength); k++ {
					if id := e.TileID + k; id >= lo && id < hi {
						ns++
					}
				}
			}
			for _, e := range ra.flat {
				nr += uint64(e.RunLength)
			}
			if ns != nr {
				return fmt.Sprintf("no region given: source has %d tiles in the zoom range, extract has %d", ns, nr)
			}
		}
	}
	return ""
}
