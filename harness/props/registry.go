package props

import "verifharness/core"

// All returns the registered properties.
func All() map[string]core.Prop {
	return map[string]core.Prop{
		"C01": C01{},
		"C02": C02{},
		"C03": C03{},
		"C04": C04{},
		"C05": C05{},
		"C06": C06{},
		"C07": C07{},
		"C08": C08{},
		"C09": C09{},
		"C10": C10{},
		"C11": C11{},
		"C12": C12{},
		"C13": C13{},
		"C14": C14{},
		"C15": C15{},
		"C16": C16{},
		"C17": C17{},
		"C18": C18{},
		"C19": C19{},
		"C20": C20{},
	}
}
