package props

import (
	"bytes"
	"fmt"
	"os"
	"strconv"
	"strings"
	"sync"

	"github.com/protomaps/go-pmtiles/pmtiles"
	"verifharness/core"
)

// C13 — cluster.
type C13 struct{}

func (C13) ID() string { return "C13" }
func (C13) Rule() string {
	return "lines `resolve dedup 0 <adds with run lengths> G` (hook resolver as cluster drives it: runs > 1, alternating and shared contents, contiguous and gapped IDs) and `cluster dedup ic tt tc <tiledata> <dirs>` (unclustered archives from the harness writer — shuffled offsets, run lengths, shared contents, 0..2 leaf levels, every tile type and tile compression, both internal compressions, metadata with unicode/nesting — clustered in place by the real pmtiles.Cluster, re-read by the independent reader, Verify run); non-trivial = at least 3 entries with a shared content or a run > 1; distinct by hash of the line"
}

var clusterMeta = []byte(`{"name":"ü-test","vector_layers":[{"id":"a","fields":{"k":"String"}}],"nested":{"x":[1,2,{"y":null}]},"attribution":"© x"}`)

func clusterHeader(tt, tc int) pmtiles.HeaderV3 {
	h := baseHeader()
	h.TileType = pmtiles.TileType(tt)
	h.TileCompression = pmtiles.Compression(tc)
	h.MinLonE7, h.MinLatE7, h.MaxLonE7, h.MaxLatE7 = -1234567, -7654321, 89101112, 13141516
	h.CenterLonE7, h.CenterLatE7 = 1000, -2000
	return h
}

func (C13) Gen(r *core.Rng, tier string, emit func(string)) {
	if tier == "thorough" {
		emit = cliDup(emit, []string{"cluster"}, 7, 200)
	} else {
		emit = cliDup(emit, []string{"cluster"}, 7, 20)
	}
	nRes, nCl := 3000, 150
	if tier == "thorough" {
		nRes, nCl = 100000, 4000
	}
	for i := 0; i < nRes; i++ {
		as := randAdds(r, r.Intn(14), true)
		emit(fmt.Sprintf("resolve %d 0 %s G", r.Intn(2), fmtAdds(as)))
	}
	// equal contents whose tile IDs are a multiple of 2^32 (plus the run length) apart: not a continuation of the run
	for _, m := range []uint64{1, 2, 5} {
		for _, rl := range []uint32{1, 3} {
			x := r.Bytes(2 + r.Intn(4))
			id := uint64(r.Intn(1000))
			as := []addReq{{id, rl, x}, {id + uint64(rl) + m<<32, 1, x}, {id + uint64(rl) + m<<32 + 1, 2, x}}
			emit(fmt.Sprintf("resolve 1 0 %s G", fmtAdds(as)))
			emit(fmt.Sprintf("resolve 0 0 %s G", fmtAdds(as)))
		}
	}
	// cluster writes its directories through finalize(): entry counts whose single root directory lands around
	// the 16 KiB boundary (header + root must end within the first 16 384 bytes)
	{
		seed := r.U64() % 1000000
		full := finrootEntries(seed, 9000)
		lo, hi := 1, 9000
		for lo < hi {
			mid := (lo + hi) / 2
			if len(pmtiles.SerializeEntries(full[:mid], pmtiles.Gzip)) > 16384-127 {
				hi = mid
			} else {
				lo = mid + 1
			}
		}
		step := 3
		if tier == "thorough" {
			step = 1
		}
		for n := lo - 4; n < lo+72; n += step {
			if n > 0 && n <= 9000 {
				emit(fmt.Sprintf("finroot %d %d", seed, n))
			}
		}
	}
	for i := 0; i < nCl; i++ {
		cnt := []int{1, 2, 4, 12, 60, 300}[r.Intn(6)]
		ts := randTileSet(r, cnt, maxTileID, false, 7)
		if len(ts.entries) == 0 {
			continue
		}
		depth := r.Intn(3)
		ic := pmtiles.Compression(pmtiles.Gzip)
		if r.Bool() {
			ic = pmtiles.NoCompression
		}
		root := buildTree(r, ts.entries, depth, 1+r.Intn(9), r.Chance(1, 3))
		ba := assembleArchive(root, ts, ic, baseHeader(), clusterMeta)
		tt, tc := 1+r.Intn(5), 1+r.Intn(4)
		if r.Chance(1, 6) {
			tc = 0 // compression not declared: cluster keeps what the input says, whatever it says
		}
		if r.Chance(1, 10) {
			tt = 0
		}
		emit(fmt.Sprintf("cluster %d %s %d %d %s %s", r.Intn(2), compName(ic), tt, tc, hexs(ts.data), ba.dirsLine()))
	}
	// runs that together address 2^32 tiles and more (legal from zoom 16 on): the addressed-tiles count is a
	// 64-bit quantity, a run length a 32-bit one
	for _, rls := range [][]uint32{{3000000000, 3000000000}, {4294967295, 1}, {4294967295, 4294967295, 7}} {
		var ts tileSet
		id := uint64(1)<<33 + uint64(r.Intn(1000))
		for k, rl := range rls {
			c := r.Bytes(2 + r.Intn(4))
			ts.entries = append(ts.entries, pmtiles.EntryV3{TileID: id, Offset: uint64(len(ts.data)), Length: uint32(len(c)), RunLength: rl})
			ts.data = append(ts.data, c...)
			id += uint64(rl) + uint64(k)
		}
		root := buildTree(r, ts.entries, 0, 4, false)
		ba := assembleArchive(root, ts, pmtiles.Gzip, baseHeader(), clusterMeta)
		for dedup := 0; dedup < 2; dedup++ {
			emit(fmt.Sprintf("cluster %d gzip 1 2 %s %s", dedup, hexs(ts.data), ba.dirsLine()))
		}
	}
}

var bigMetaOnce sync.Once
var bigMeta []byte

func bigClusterMeta() []byte {
	bigMetaOnce.Do(func() {
		bigMeta = []byte(`{"name":"big","description":"` + strings.Repeat("0123456789abcdef", 100000) + `","attribution":"© x"}`)
	})
	return bigMeta
}

func clusterOnce(cli bool, dedup bool, ic pmtiles.Compression, tt, tc int, data []byte, dirs []parsedDir) (readArchive, readArchive, error, error) {
	h := clusterHeader(tt, tc)
	// center zoom inside the zoom range of the tiles, zoom bytes truthful (cluster takes them from the entries anyway)
	var flat []pmtiles.EntryV3
	meta := clusterMeta
	if (len(data)+len(dirs))%23 == 0 {
		// now and then the metadata is large: 1.6 MB of JSON that compresses to a few KB
		meta = bigClusterMeta()
	}
	ab, hh := archiveFromParsed(ic, data, dirs, h, meta)
	before := readWholeArchive(ab)
	flat = before.flat
	if len(flat) > 0 {
		z0, _, _ := pmtiles.IDToZxy(flat[0].TileID)
		lastE := flat[len(flat)-1]
		z1, _, _ := pmtiles.IDToZxy(lastE.TileID + uint64(lastE.RunLength) - 1) // the last ADDRESSED tile
		hh.MinZoom, hh.MaxZoom, hh.CenterZoom = z0, z1, z0
		var addressed uint64
		offs := map[uint64]bool{}
		for _, e := range flat {
			addressed += uint64(e.RunLength)
			offs[e.Offset] = true
		}
		hh.AddressedTilesCount, hh.TileEntriesCount, hh.TileContentsCount = addressed, uint64(len(flat)), uint64(len(offs))
		copy(ab, pmtiles.SerializeHeader(hh))
		before = readWholeArchive(ab)
	}
	path := scratchFile(".pmtiles")
	os.WriteFile(path, ab, 0o644)
	defer os.Remove(path)
	// left-overs of an interrupted edit or cluster next to the archive must not find their way into the result
	staleOutput(path + ".tmp")
	defer os.Remove(path + ".tmp")
	if err := opCluster(cli, path, dedup); err != nil {
		return before, readArchive{}, err, nil
	}
	b, err := os.ReadFile(path)
	if err != nil {
		return before, readArchive{}, err, nil
	}
	verr := pmtiles.Verify(discardLogger, path)
	return before, readWholeArchive(b), nil, verr
}

func (C13) RunGo(line string) string {
	cliMode, t := splitCLI(strings.Fields(line))
	_ = cliMode
	switch t[0] {
	case "finroot":
		return C05{}.RunGo(line)
	case "resolve":
		return C06{}.RunGo(line)
	case "cluster":
		ic := compOf(t[2])
		tt, _ := strconv.Atoi(t[3])
		tc, _ := strconv.Atoi(t[4])
		data, ok := unhex(t[5])
		if !ok {
			return "bad-case"
		}
		dirs, _, ok := parseDirsLine(t[6:])
		if !ok || len(dirs) == 0 {
			return "bad-case"
		}
		_, after, err, _ := clusterOnce(cliMode, t[1] == "1", ic, tt, tc, data, dirs)
		if err != nil {
			return "cluster-error " + strings.ReplaceAll(trunc(err.Error(), 80), " ", "_")
		}
		if after.err != "" {
			return "unreadable: " + after.err
		}
		segs, bad := after.segments()
		if bad != "" {
			return "layout: " + bad
		}
		var ss []string
		for _, s := range segs {
			ss = append(ss, "raw:"+hexs(s))
		}
		cl := 0
		if after.h.Clustered {
			cl = 1
		}
		return fmt.Sprintf("E %s S %d %s A %d N %d C %d L %d CL %d", fmtEntries(after.flat), len(ss), strings.Join(ss, " "),
			after.h.AddressedTilesCount, after.h.TileEntriesCount, after.h.TileContentsCount, after.h.TileDataLength, cl)
	}
	return "bad-case"
}

func (C13) NonTrivial(line string) bool {
	return strings.Count(line, ":") >= 6 || strings.HasPrefix(line, "finroot")
}

func (C13) Branch(line, goOut string) string {
	cliMode, t := splitCLI(strings.Fields(line))
	_ = cliMode
	if t[0] == "finroot" {
		return "finroot " + strings.SplitN(goOut, " ", 2)[0]
	}
	if t[0] == "cluster" {
		return "cluster " + t[2] + " dedup=" + t[1]
	}
	return "resolve d=" + t[1]
}

func (C13) Oracle(line, goOut string) string {
	cliMode, t := splitCLI(strings.Fields(line))
	_ = cliMode
	if strings.HasPrefix(goOut, "panic") {
		return goOut
	}
	if t[0] == "finroot" {
		return C05{}.Oracle(line, goOut)
	}
	switch t[0] {
	case "resolve":
		return C06{}.Oracle(line, goOut)
	case "cluster":
		ic := compOf(t[2])
		tt, _ := strconv.Atoi(t[3])
		tc, _ := strconv.Atoi(t[4])
		data, _ := unhex(t[5])
		dirs, _, ok := parseDirsLine(t[6:])
		if !ok {
			return ""
		}
		var afters [2]readArchive
		for i, dd := range []bool{true, false} {
			before, after, err, verr := clusterOnce(cliMode, dd, ic, tt, tc, data, dirs)
			if err != nil {
				return "cluster failed on a valid unclustered archive: " + err.Error()
			}
			if after.err != "" {
				return "clustered archive unreadable: " + after.err
			}
			if verr != nil {
				return fmt.Sprintf("dedup=%v: clustered archive does not pass verify: %v", dd, verr)
			}
			if !after.h.Clustered {
				return "result not marked clustered"
			}
			if m := after.countsOK(); m != "" {
				return m
			}
			if _, bad := after.segments(); bad != "" {
				return "tile data not laid out in tile-ID order: " + bad
			}
			if after.h.TileType != before.h.TileType || after.h.TileCompression != before.h.TileCompression {
				return fmt.Sprintf("declarations changed: type %d→%d, tile compression %d→%d", before.h.TileType, after.h.TileType, before.h.TileCompression, after.h.TileCompression)
			}
			if after.h.MinLonE7 != before.h.MinLonE7 || after.h.MinLatE7 != before.h.MinLatE7 || after.h.MaxLonE7 != before.h.MaxLonE7 || after.h.MaxLatE7 != before.h.MaxLatE7 {
				return "bounds changed"
			}
			if canonJSON(after.metadata) != canonJSON(before.metadata) {
				return "JSON metadata changed: " + trunc(canonJSON(after.metadata), 120)
			}
			// tile map equal, tile by tile (runs expanded, capped)
			var nb, na uint64
			for _, e := range before.flat {
				nb += uint64(e.RunLength)
				for k := uint64(0); k < uint64(e.RunLength) && k < 300; k++ {
					a, _ := before.tileAt(e.TileID + k)
					b, ok := after.tileAt(e.TileID + k)
					if !ok || !bytes.Equal(a, b) {
						return fmt.Sprintf("dedup=%v: tile %d: content %q before clustering, %q after", dd, e.TileID+k, a, b)
					}
				}
			}
			for _, e := range after.flat {
				na += uint64(e.RunLength)
			}
			if na != nb {
				return fmt.Sprintf("addressed tiles %d before, %d after", nb, na)
			}
			afters[i] = after
		}
	}
	return ""
}
