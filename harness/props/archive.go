package props

import (
	"bytes"
	"context"
	"encoding/hex"
	"fmt"
	"io"
	"log"
	"os"
	"path/filepath"
	"strings"
	"sync"

	"github.com/protomaps/go-pmtiles/pmtiles"
	"verifharness/core"
)

var discardLogger = log.New(io.Discard, "", 0)

// archDir is one directory of a directory tree; sub[i] is the leaf that entry i points to (nil for tile entries).
type archDir struct {
	entries []pmtiles.EntryV3
	sub     []*archDir
	off     uint64 // position in the leaf section once laid out
	length  uint64
}

// tileSet is a flat ascending list of tile entries plus the tile data they point into.
type tileSet struct {
	entries []pmtiles.EntryV3
	data    []byte
}

// randTileSet: ascending entries with runs, gaps, shared contents; contents are short and distinct
// unless shared on purpose. clustered=false scatters offsets.
func randTileSet(r *core.Rng, n int, maxID uint64, clustered bool, maxLen int) tileSet {
	var ts tileSet
	if n == 0 {
		return ts
	}
	id := r.U64() % 4
	type content struct {
		off uint64
		l   uint32
	}
	var contents []content
	for i := 0; i < n; i++ {
		if i > 0 || r.Bool() {
			switch r.Intn(5) {
			case 0:
				id += 0
			case 1:
				id += uint64(r.Intn(3))
			case 2:
				id += uint64(r.Intn(1000))
			case 3:
				id += maxID / uint64(4*n)
			default:
				id += uint64(r.Intn(20))
			}
		}
		if id >= maxID {
			break
		}
		rl := uint32(1)
		switch r.Intn(5) {
		case 0:
			rl = uint32(2 + r.Intn(5))
		case 1:
			rl = uint32(1 + r.Intn(200))
		}
		if id+uint64(rl) > maxID {
			rl = 1
		}
		var c content
		if len(contents) > 0 && r.Chance(1, 4) {
			c = contents[r.Intn(len(contents))] // shared content (deduplicated)
		} else {
			l := 1 + r.Intn(maxLen)
			b := make([]byte, l)
			// self-describing, distinct contents
			tag := fmt.Sprintf("%d|", len(contents))
			for k := range b {
				if k < len(tag) {
					b[k] = tag[k]
				} else {
					b[k] = byte('a' + (len(contents)+k)%26)
				}
			}
			c = content{uint64(len(ts.data)), uint32(l)}
			ts.data = append(ts.data, b...)
			contents = append(contents, c)
		}
		ts.entries = append(ts.entries, pmtiles.EntryV3{TileID: id, Offset: c.off, Length: c.l, RunLength: rl})
		id += uint64(rl)
	}
	if k := len(ts.entries); k > 0 && r.Chance(1, 5) {
		// the last entry becomes a run that reaches into the next zoom level (its first tile is in zoom z,
		// its last in zoom z+1): what addresses the highest tile is the END of a run
		last := &ts.entries[k-1]
		z, _, _ := pmtiles.IDToZxy(last.TileID)
		if nb := base(uint(z) + 1); z < 12 && nb+4 < maxID {
			last.RunLength = uint32(nb-last.TileID) + 1 + uint32(r.Intn(3))
		}
	}
	if !clustered && len(contents) > 1 {
		// permute the contents in the data section
		perm := make([]int, len(contents))
		for i := range perm {
			perm[i] = i
		}
		for i := len(perm) - 1; i > 0; i-- {
			j := r.Intn(i + 1)
			perm[i], perm[j] = perm[j], perm[i]
		}
		newOff := map[uint64]uint64{}
		var nd []byte
		for _, p := range perm {
			c := contents[p]
			newOff[c.off] = uint64(len(nd))
			nd = append(nd, ts.data[c.off:c.off+uint64(c.l)]...)
		}
		for i := range ts.entries {
			ts.entries[i].Offset = newOff[ts.entries[i].Offset]
		}
		ts.data = nd
	}
	return ts
}

// buildTree partitions the flat entries into a tree of the given depth (0 = root only) with the
// given leaf sizes per level; mixed=true keeps some tile entries inline next to leaf pointers.
func buildTree(r *core.Rng, entries []pmtiles.EntryV3, depth int, leafSize int, mixed bool) *archDir {
	cur := make([]*archDir, 0)
	if depth == 0 || len(entries) == 0 {
		return &archDir{entries: entries, sub: make([]*archDir, len(entries))}
	}
	// level of leaves
	for i := 0; i < len(entries); i += leafSize {
		end := i + leafSize
		if end > len(entries) {
			end = len(entries)
		}
		es := entries[i:end]
		cur = append(cur, &archDir{entries: es, sub: make([]*archDir, len(es))})
	}
	for lvl := 1; lvl <= depth; lvl++ {
		// build parents over cur
		var parents []*archDir
		group := leafSize
		if lvl == depth {
			group = len(cur) + 1 // the root takes everything
		}
		for i := 0; i < len(cur); i += group {
			end := i + group
			if end > len(cur) {
				end = len(cur)
			}
			p := &archDir{}
			for _, c := range cur[i:end] {
				if mixed && len(c.entries) > 0 && allTiles(c) && r.Chance(1, 3) {
					// inline this child's tile entries into the parent
					p.entries = append(p.entries, c.entries...)
					p.sub = append(p.sub, make([]*archDir, len(c.entries))...)
				} else {
					p.entries = append(p.entries, pmtiles.EntryV3{TileID: c.entries[0].TileID, RunLength: 0})
					p.sub = append(p.sub, c)
				}
			}
			parents = append(parents, p)
		}
		cur = parents
	}
	return cur[0]
}

func allTiles(d *archDir) bool {
	for _, s := range d.sub {
		if s != nil {
			return false
		}
	}
	return true
}

// layout serializes all leaves bottom-up into the leaf section and fills pointer offsets/lengths.
func layout(d *archDir, ic pmtiles.Compression, leaves *[]byte) {
	for i, s := range d.sub {
		if s == nil {
			continue
		}
		layout(s, ic, leaves)
		b := pmtiles.SerializeEntries(s.entries, ic)
		s.off = uint64(len(*leaves))
		s.length = uint64(len(b))
		*leaves = append(*leaves, b...)
		d.entries[i].Offset = s.off
		d.entries[i].Length = uint32(len(b))
	}
}

type builtArchive struct {
	bytes   []byte
	header  pmtiles.HeaderV3
	root    *archDir
	dirs    []*archDir // root first
	data    []byte
	leafSec []byte
}

func collectDirs(d *archDir, out *[]*archDir) {
	*out = append(*out, d)
	for _, s := range d.sub {
		if s != nil {
			collectDirs(s, out)
		}
	}
}

func serializeMetadataRaw(js []byte, ic pmtiles.Compression) []byte {
	if ic == pmtiles.Gzip {
		return gzipBytes(js)
	}
	return js
}

// assemble writes header + root + metadata + leaves + data with a consistent header.
func assembleArchive(root *archDir, ts tileSet, ic pmtiles.Compression, h pmtiles.HeaderV3, metadataJSON []byte) builtArchive {
	var leaves []byte
	layout(root, ic, &leaves)
	rootBytes := pmtiles.SerializeEntries(root.entries, ic)
	meta := serializeMetadataRaw(metadataJSON, ic)
	h.InternalCompression = ic
	h.RootOffset = 127
	h.RootLength = uint64(len(rootBytes))
	h.MetadataOffset = h.RootOffset + h.RootLength
	h.MetadataLength = uint64(len(meta))
	h.LeafDirectoryOffset = h.MetadataOffset + h.MetadataLength
	h.LeafDirectoryLength = uint64(len(leaves))
	h.TileDataOffset = h.LeafDirectoryOffset + h.LeafDirectoryLength
	h.TileDataLength = uint64(len(ts.data))
	var addressed uint64
	offs := map[uint64]bool{}
	for _, e := range ts.entries {
		addressed += uint64(e.RunLength)
		offs[e.Offset] = true
	}
	h.AddressedTilesCount = addressed
	h.TileEntriesCount = uint64(len(ts.entries))
	h.TileContentsCount = uint64(len(offs))
	var b bytes.Buffer
	b.Write(pmtiles.SerializeHeader(h))
	b.Write(rootBytes)
	b.Write(meta)
	b.Write(leaves)
	b.Write(ts.data)
	ba := builtArchive{bytes: b.Bytes(), header: h, root: root, data: ts.data, leafSec: leaves}
	collectDirs(root, &ba.dirs)
	return ba
}

func (ba builtArchive) dirsLine() string {
	var sb strings.Builder
	fmt.Fprintf(&sb, "%d", len(ba.dirs))
	for i, d := range ba.dirs {
		off, l := d.off, d.length
		if i == 0 {
			off, l = 0, 0
		}
		fmt.Fprintf(&sb, " %d %d %s", off, l, fmtEntries(d.entries))
	}
	return sb.String()
}

// parseDirs parses `k (off len entries)*` → list of (off,len,entries), remaining tokens
type parsedDir struct {
	off, length uint64
	entries     []pmtiles.EntryV3
}

func parseDirsLine(t []string) ([]parsedDir, []string, bool) {
	if len(t) == 0 {
		return nil, nil, false
	}
	var k int
	if _, err := fmt.Sscanf(t[0], "%d", &k); err != nil {
		return nil, nil, false
	}
	t = t[1:]
	var out []parsedDir
	for i := 0; i < k; i++ {
		if len(t) < 3 {
			return nil, nil, false
		}
		var o, l uint64
		fmt.Sscanf(t[0], "%d", &o)
		fmt.Sscanf(t[1], "%d", &l)
		es, rest, ok := parseEntries(t[2:])
		if !ok {
			return nil, nil, false
		}
		out = append(out, parsedDir{o, l, es})
		t = rest
	}
	return out, t, true
}

// rebuild an archive from a parsed `arch` line: the leaf section is re-serialized at the stated offsets.
func archiveFromParsed(ic pmtiles.Compression, data []byte, dirs []parsedDir, h pmtiles.HeaderV3, metadataJSON []byte) ([]byte, pmtiles.HeaderV3) {
	var leafLen uint64
	for _, d := range dirs[1:] {
		if d.off+d.length > leafLen {
			leafLen = d.off + d.length
		}
	}
	leaves := make([]byte, leafLen)
	for _, d := range dirs[1:] {
		b := pmtiles.SerializeEntries(d.entries, ic)
		copy(leaves[d.off:], b)
	}
	rootBytes := pmtiles.SerializeEntries(dirs[0].entries, ic)
	meta := serializeMetadataRaw(metadataJSON, ic)
	h.InternalCompression = ic
	h.RootOffset = 127
	h.RootLength = uint64(len(rootBytes))
	h.MetadataOffset = h.RootOffset + h.RootLength
	h.MetadataLength = uint64(len(meta))
	h.LeafDirectoryOffset = h.MetadataOffset + h.MetadataLength
	h.LeafDirectoryLength = uint64(len(leaves))
	h.TileDataOffset = h.LeafDirectoryOffset + h.LeafDirectoryLength
	h.TileDataLength = uint64(len(data))
	var b bytes.Buffer
	b.Write(pmtiles.SerializeHeader(h))
	b.Write(rootBytes)
	b.Write(meta)
	b.Write(leaves)
	b.Write(data)
	return b.Bytes(), h
}

func compName(c pmtiles.Compression) string {
	if c == pmtiles.Gzip {
		return "gzip"
	}
	return "none"
}
func compOf(s string) pmtiles.Compression {
	if s == "gzip" {
		return pmtiles.Gzip
	}
	return pmtiles.NoCompression
}

// scratch directory of this harness process (outside /repo and /verif), removed at exit
var scratchDir, scratchRoot string
var scratchOnce sync.Once

func Scratch() string {
	scratchOnce.Do(func() {
		d, err := os.MkdirTemp("", "vhscratch")
		if err != nil {
			panic(err)
		}
		// every file the cases hand to the code under test lives below a directory whose name means something
		// in URLs ('#', '?', a valid percent escape, a space): local paths are paths, not URLs.  (No invalid escape: it would make every
		// unescaping attempt fail and so hide code that unescapes when it can.)
		sd := filepath.Join(d, "s #1%41?x=y")
		if err := os.MkdirAll(sd, 0o755); err != nil {
			panic(err)
		}
		scratchRoot, scratchDir = d, sd
	})
	return scratchDir
}
func CleanupScratch() {
	if scratchRoot != "" {
		os.RemoveAll(scratchRoot)
	}
}

var scratchCounter = make(chan int, 1)

func init() { scratchCounter <- 0 }
func scratchFile(suffix string) string {
	n := <-scratchCounter
	scratchCounter <- n + 1
	return filepath.Join(Scratch(), fmt.Sprintf("f%d%s", n, suffix))
}

// staleOutput pre-creates the file a writer is about to produce, longer than anything the cases write and
// full of non-zero bytes: whatever was there before must not survive in the result (every other call)
var staleCounter = make(chan int, 1)

func init() { staleCounter <- 0 }
func staleOutput(path string) {
	n := <-staleCounter
	staleCounter <- n + 1
	if n%2 == 0 {
		os.WriteFile(path, bytes.Repeat([]byte{0xAB}, 300000), 0o644)
	}
}

func newServer(items map[string][]byte, cacheMB int) *pmtiles.Server {
	s, _ := pmtiles.NewServerWithBucket(pmtiles.VerifNewMemoryBucket(items), "", discardLogger, cacheMB, "")
	s.Start()
	return s
}

func hexs(b []byte) string { return hexOrDash(b) }

var _ = hex.EncodeToString
var _ = context.Background
