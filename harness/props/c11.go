package props

import (
	"bufio"
	"bytes"
	"context"
	"fmt"
	"io"
	"net"
	"net/http"
	"net/http/httptest"
	"net/url"
	"os"
	"os/exec"
	"path/filepath"
	"regexp"
	"runtime"
	"strconv"
	"strings"
	"sync"
	"syscall"
	"time"

	"github.com/protomaps/go-pmtiles/pmtiles"
	"verifharness/core"
)

// C11 — request paths stay inside the bucket root.
type C11 struct{}

func (C11) ID() string { return "C11" }
func (C11) Rule() string {
	return "lines `path <hex>` (hook-exported path parsers vs the model's recognisers: grammar over segments, '.', '..', empty segments, %2e/%2f/%5c, backslashes, absolute-looking names, names that look like /1/2/3.mvt, numerals at the 255/256/2^32 boundaries, out-of-class bytes), `local <hex key>` (the real file bucket over a fixture tree with marker archives outside the served directory — incl. a sibling whose name has the served directory's name as prefix — which file is opened) and `srvkey <hex path>` (real Server.Get and a raw request line to a real HTTP listener over a recording file bucket: every bucket key vs the model; no response may contain an outside marker); non-trivial = path with at least 3 segments; distinct by hash of the line"
}

var c11Seg = []string{"a", "sub", "deep", "b", "..", ".", "", "%2e%2e", "%2e", "..%2f", "%2f", "%5c", "\\", "outside", "srv-evil", "srv", "0", "1", "255", "256", "4294967295", "4294967296", "007", "010", "08", "0x10", "0X1f", "0b11", "0o17", "1_0", "+1", "-0", "00", "1e2", "٣", "metadata", "a.json", "x.mvt", "0.mvt", "1/2/3.mvt", "we ird", "ü", "a*b'(c)", "A-Z_!", "{", "~", "`"}

func randPath(r *core.Rng) string {
	n := 1 + r.Intn(7)
	var segs []string
	for i := 0; i < n; i++ {
		segs = append(segs, c11Seg[r.Intn(len(c11Seg))])
	}
	p := "/" + strings.Join(segs, "/")
	switch r.Intn(6) {
	case 0:
		p += fmt.Sprintf("/%d/%d/%d.%s", r.Intn(300), r.Intn(5), r.Intn(5), []string{"mvt", "png", "x", "MVT", "m1"}[r.Intn(5)])
	case 1:
		p += "/metadata"
	case 2:
		p += ".json"
	case 3:
		p += fmt.Sprintf("/%s/%s/%s.mvt", c11Seg[16+r.Intn(20)], c11Seg[16+r.Intn(20)], c11Seg[16+r.Intn(20)])
	}
	if r.Chance(1, 15) {
		pre := []string{"./", "sub/../", "x/../", "%2e/", "sub/%2e%2e/"}[r.Intn(5)]
		p = "/" + strings.Repeat(pre, 20+r.Intn(30)) + []string{"../outside", "%2e%2e/outside", "../srv-evil/x", "a"}[r.Intn(4)] + []string{"/metadata", ".json", "/0/0/0.mvt"}[r.Intn(3)]
	}
	if r.Chance(1, 20) {
		p = p[1:]
	}
	return p
}

func randKey(r *core.Rng) string {
	n := 1 + r.Intn(6)
	var segs []string
	for i := 0; i < n; i++ {
		segs = append(segs, []string{"a.pmtiles", "sub", "deep", "b.pmtiles", "..", ".", "", "outside.pmtiles", "srv-evil", "x.pmtiles", "we ird.pmtiles", "srv"}[r.Intn(12)])
	}
	k := strings.Join(segs, "/")
	if r.Chance(1, 12) {
		// a long run of harmless segments before the climb (depth counters and bounded splits lose track here)
		pre := []string{"./", "sub/../", "x/../", "sub/deep/../../"}[r.Intn(4)]
		k = strings.Repeat(pre, 20+r.Intn(30)) + []string{"../outside.pmtiles", "../srv-evil/x.pmtiles", "a.pmtiles", "../../" + k}[r.Intn(4)]
	}
	if r.Chance(1, 8) {
		k = "/" + k
	}
	return k
}

func (C11) Gen(r *core.Rng, tier string, emit func(string)) {
	n := 8000
	if tier == "thorough" {
		n = 400000
	}
	for _, p := range []string{"/", "", "/a/0/0/0.mvt", "/../outside/0/0/0.mvt", "/a/metadata", "/a.json", "/%2e%2e/outside/metadata", "/x/..%2f..%2foutside.json", "/a/256/4294967296/1.mvt", "/sub/deep/b/1/2/3.png", "/a/0/0/0.", "/a/0/0/.mvt", "//0/0/0.mvt"} {
		emit("path " + hexs([]byte(p)))
		emit("srvkey " + hexs([]byte(p)))
	}
	for i := 0; i < n; i++ {
		emit("path " + hexs([]byte(randPath(r))))
	}
	// climbing keys spelled so that a hand-rolled depth count and the path join disagree: empty elements, `.`
	// elements, descents into directories that do not exist, trailing separators — before and between the `..`
	for _, pre := range []string{"a", "sub", "sub/deep", "nosuchdir", "a/b/c"} {
		for _, mid := range []string{"//", "/./", "///", "/.//", "//.//"} {
			for up := 1; up <= 4; up++ {
				for _, tgt := range []string{"outside.pmtiles", "srv-evil/x.pmtiles", "secret.pmtiles", "srv/a.pmtiles"} {
					if r.Chance(1, 3) {
						emit("local " + hexs([]byte(pre+mid+strings.Repeat("../", up)+tgt)))
						emit("local " + hexs([]byte(pre+mid+strings.Repeat("..//", up)+tgt)))
					}
				}
			}
		}
	}
	for i := 0; i < n/4; i++ {
		emit("local " + hexs([]byte(randKey(r))))
	}
	for i := 0; i < n/8; i++ {
		emit("srvkey " + hexs([]byte(randPath(r))))
	}
}

// fixture: <tmp>/srv (served) with a.pmtiles, sub/a.pmtiles, sub/deep/b.pmtiles, "we ird.pmtiles";
// outside: <tmp>/outside.pmtiles, <tmp>/srv-evil/x.pmtiles. Every file's tile 0/0/0 and metadata carry a marker.
var (
	c11Once    sync.Once
	c11Root    string
	c11Served  string
	c11Server  *pmtiles.Server
	c11Rec     *recBucket
	c11HTTPURL string
	c11CLIAddr string // `pmtiles serve <served directory>` (the real binary), when it could be started
)

type recBucket struct {
	inner pmtiles.Bucket
	mu    sync.Mutex
	keys  map[string][]string // goroutine-agnostic: keyed by request tag passed through context
}

type ctxKey struct{}

func (b *recBucket) Close() error { return nil }
func (b *recBucket) NewRangeReader(ctx context.Context, key string, off, l int64) (io.ReadCloser, error) {
	r, _, _, err := b.NewRangeReaderEtag(ctx, key, off, l, "")
	return r, err
}
func (b *recBucket) NewRangeReaderEtag(ctx context.Context, key string, off, l int64, etag string) (io.ReadCloser, string, int, error) {
	b.mu.Lock()
	b.keys["all"] = append(b.keys["all"], key)
	b.mu.Unlock()
	return b.inner.NewRangeReaderEtag(ctx, key, off, l, etag)
}

func markerArchive(marker string) []byte {
	ts := tileSet{entries: []pmtiles.EntryV3{{TileID: 0, Offset: 0, Length: uint32(len(marker)), RunLength: 1}}, data: []byte(marker)}
	h := baseHeader()
	h.TileType = pmtiles.Mvt
	h.MinZoom, h.MaxZoom = 0, 0
	ba := assembleArchive(&archDir{entries: ts.entries, sub: make([]*archDir, 1)}, ts, pmtiles.Gzip, h, []byte(`{"marker":"`+marker+`"}`))
	return ba.bytes
}

func c11Setup() {
	// the path of the served directory holds characters that mean something in URLs ('#', '?', '%xx', space):
	// the file:// bucket URL must still open exactly this directory
	c11Root = filepath.Join(Scratch(), "c11 #1%41?x=y")
	c11Served = filepath.Join(c11Root, "srv")
	os.MkdirAll(filepath.Join(c11Served, "sub", "deep"), 0o755)
	os.MkdirAll(filepath.Join(c11Root, "srv-evil"), 0o755)
	w := func(rel, marker string) { os.WriteFile(filepath.Join(c11Root, rel), markerArchive(marker), 0o644) }
	w("srv/a.pmtiles", "IN:a.pmtiles")
	w("srv/sub/a.pmtiles", "IN:sub/a.pmtiles")
	w("srv/sub/deep/b.pmtiles", "IN:sub/deep/b.pmtiles")
	w("srv/we ird.pmtiles", "IN:we ird.pmtiles")
	w("outside.pmtiles", "OUTSIDE:outside.pmtiles")
	w("srv-evil/x.pmtiles", "OUTSIDE:srv-evil/x.pmtiles")
	w("srv-evil/a.pmtiles", "OUTSIDE:srv-evil/a.pmtiles")
	// decoys: the directories a served path would turn into if it were read as a URL (cut at '#' or '?',
	// percent-escapes decoded) hold archives of the same names with OUTSIDE markers — a server that ends up
	// there does not merely fail, it serves another directory
	for i, alt := range urlMisreadings(c11Served) {
		if strings.HasPrefix(alt, os.TempDir()) && alt != c11Served {
			os.MkdirAll(filepath.Join(alt, "sub"), 0o755)
			os.WriteFile(filepath.Join(alt, "a.pmtiles"), markerArchive(fmt.Sprintf("OUTSIDE:decoy%d/a.pmtiles", i)), 0o644)
			os.WriteFile(filepath.Join(alt, "sub", "a.pmtiles"), markerArchive(fmt.Sprintf("OUTSIDE:decoy%d/sub/a.pmtiles", i)), 0o644)
		}
	}
	inner, err := pmtiles.OpenBucket(context.Background(), "file://"+c11Served, "")
	if err != nil {
		inner = pmtiles.NewFileBucket(filepath.Join(c11Root, "cannot-open-bucket"))
	}
	c11Rec = &recBucket{inner: inner, keys: map[string][]string{}}
	c11Server, _ = pmtiles.NewServerWithBucket(c11Rec, "", discardLogger, 1, "http://public")
	c11Server.Start()
	mux := http.NewServeMux()
	mux.HandleFunc("/", func(w http.ResponseWriter, r *http.Request) { c11Server.ServeHTTP(w, r) })
	srv := httptest.NewServer(mux)
	c11HTTPURL = srv.Listener.Addr().String()
	c11CLIAddr = startServeBinary(c11Served)
}

// the documented tile path form, stated independently of the code under test (the archive part may hold any
// byte of '!'..'_' and lower-case letters, which includes '/', '.', and digits)
var c11TilePathRe = regexp.MustCompile("^/([!-_a-z]+)/([0-9]+)/([0-9]+)/([0-9]+)\\.([a-z]+)$")

// urlMisreadings: what a local path becomes when it is (wrongly) treated as a URL
func urlMisreadings(p string) []string {
	seen := map[string]bool{p: true}
	var out []string
	add := func(q string) {
		q = strings.TrimRight(q, "/")
		if q != "" && !seen[q] {
			seen[q] = true
			out = append(out, q)
		}
	}
	cuts := []string{p}
	if i := strings.IndexAny(p, "#?"); i >= 0 {
		cuts = append(cuts, p[:i])
	}
	if i := strings.Index(p, "?"); i >= 0 {
		cuts = append(cuts, p[:i])
	}
	if i := strings.Index(p, "#"); i >= 0 {
		cuts = append(cuts, p[:i])
	}
	for _, c := range cuts {
		add(c)
		if u, err := url.PathUnescape(c); err == nil {
			add(u)
		}
	}
	return out
}

// startServeBinary runs `pmtiles serve <dir>` on a free loopback port for the rest of this process's life
// (the child is killed when the harness exits) and returns its address, or "" when it could not be started
func startServeBinary(dir string) string {
	bin := os.Getenv("VERIF_CLI")
	if bin == "" {
		return ""
	}
	for attempt := 0; attempt < 3; attempt++ {
		pl, err := net.Listen("tcp", "127.0.0.1:0")
		if err != nil {
			return ""
		}
		port := pl.Addr().(*net.TCPAddr).Port
		pl.Close()
		exited := make(chan struct{})
		started := make(chan bool)
		go func() {
			// Pdeathsig is tied to the starting thread: it is kept for as long as the child runs
			runtime.LockOSThread()
			cmd := exec.Command(bin, "serve", dir, "--interface=127.0.0.1", fmt.Sprintf("--port=%d", port), "--cache-size=1", "--public-url=http://public")
			cmd.SysProcAttr = &syscall.SysProcAttr{Pdeathsig: syscall.SIGKILL}
			if err := cmd.Start(); err != nil {
				started <- false
				return
			}
			started <- true
			cmd.Wait()
			close(exited)
		}()
		if !<-started {
			return ""
		}
		addr := fmt.Sprintf("127.0.0.1:%d", port)
		for i := 0; i < 200; i++ {
			if c, err := net.DialTimeout("tcp", addr, 100*time.Millisecond); err == nil {
				c.Close()
				return addr
			}
			select {
			case <-exited:
				i = 200 // the port was taken in between: another attempt
			case <-time.After(25 * time.Millisecond):
			}
		}
	}
	return ""
}

func (C11) Serial() bool { return true } // the recording bucket attributes keys to the request in flight

func (C11) RunGo(line string) string {
	c11Once.Do(c11Setup)
	t := strings.Fields(line)
	raw, ok := unhex(t[1])
	if !ok {
		return "bad-case"
	}
	p := string(raw)
	switch t[0] {
	case "path":
		if ok, name, z, x, y, ext := pmtiles.VerifParseTilePath(p); ok {
			return fmt.Sprintf("tile %s %d %d %d %s", hexs([]byte(name)), z, x, y, hexs([]byte(ext)))
		}
		if ok, name := pmtiles.VerifParseTilejsonPath(p); ok {
			return "json " + hexs([]byte(name))
		}
		if ok, name := pmtiles.VerifParseMetadataPath(p); ok {
			return "meta " + hexs([]byte(name))
		}
		if p == "/" {
			return "root"
		}
		return "none"
	case "local":
		b, err := pmtiles.OpenBucket(context.Background(), "file://"+c11Served, "")
		if err != nil {
			return "open-bucket-failed"
		}
		r, _, _, err := b.NewRangeReaderEtag(context.Background(), p, 0, 1<<20, "")
		if err != nil {
			// a failed read of a key that POINTS outside the served directory must be a refusal, not luck: the
			// file the joined path names is put there (inside the fixture tree) and the read repeated — whatever
			// words the first failure used, data must not come back now
			if target := filepath.Join(c11Served, filepath.FromSlash(p)); !strings.ContainsRune(p, 0) &&
				!strings.HasPrefix(target, c11Served+string(filepath.Separator)) && target != c11Served &&
				strings.HasPrefix(target, c11Root+string(filepath.Separator)) {
				if _, serr := os.Stat(target); serr != nil {
					var made []string
					for d := filepath.Dir(target); strings.HasPrefix(d, c11Root+string(filepath.Separator)); d = filepath.Dir(d) {
						if _, e := os.Stat(d); e != nil {
							made = append(made, d)
						} else {
							break
						}
					}
					if os.MkdirAll(filepath.Dir(target), 0o755) == nil && os.WriteFile(target, markerArchive("OUTSIDE:probe"), 0o644) == nil {
						r2, _, _, err2 := b.NewRangeReaderEtag(context.Background(), p, 0, 1<<20, "")
						leaked := false
						if err2 == nil {
							d2, _ := io.ReadAll(r2)
							r2.Close()
							leaked = bytes.Contains(d2, []byte("OUTSIDE:probe"))
						}
						os.Remove(target)
						for _, d := range made {
							os.Remove(d)
						}
						if leaked {
							return "LEAK OUTSIDE:probe (a file created at the path the key points to, outside the served directory, was read)"
						}
					}
				}
			}
			if strings.Contains(err.Error(), "invalid key") {
				return "refused"
			}
			return "nofile"
		}
		defer r.Close()
		data, _ := io.ReadAll(r)
		ra := readWholeArchive(data)
		if ra.err != "" || len(ra.flat) == 0 {
			return "nofile" // a directory or a non-archive
		}
		m, _ := ra.tileAt(0)
		if strings.HasPrefix(string(m), "IN:") {
			return "ok " + hexs([]byte(strings.TrimPrefix(string(m), "IN:")))
		}
		return "LEAK " + string(m)
	case "srvkey":
		c11Rec.mu.Lock()
		c11Rec.keys["all"] = nil
		c11Rec.mu.Unlock()
		_, _, body := c11Server.Get(context.Background(), p)
		c11Rec.mu.Lock()
		keys := append([]string{}, c11Rec.keys["all"]...)
		c11Rec.mu.Unlock()
		if strings.Contains(string(body), "OUTSIDE:") {
			return "LEAK " + trunc(string(body), 60)
		}
		if len(keys) == 0 {
			return "nokey"
		}
		for _, k := range keys[1:] {
			if k != keys[0] {
				return "mixed-keys " + hexs([]byte(keys[0])) + " " + hexs([]byte(k))
			}
		}
		return "key " + hexs([]byte(keys[0]))
	}
	return "bad-case"
}

func (C11) NonTrivial(line string) bool { return len(line) > 24 }
func (C11) Branch(line, goOut string) string {
	return strings.Fields(line)[0] + " " + strings.SplitN(goOut, " ", 2)[0]
}

// raw request over TCP to the real listener (ServeMux in front, as `pmtiles serve` mounts it)
func rawHTTP(addr, path string) (string, string) {
	conn, err := net.Dial("tcp", addr)
	if err != nil {
		return "", ""
	}
	defer conn.Close()
	fmt.Fprintf(conn, "GET %s HTTP/1.1\r\nHost: x\r\nConnection: close\r\n\r\n", path)
	rd := bufio.NewReader(conn)
	status, _ := rd.ReadString('\n')
	rest, _ := io.ReadAll(rd)
	return strings.TrimSpace(status), string(rest)
}

func (C11) Oracle(line, goOut string) string {
	c11Once.Do(c11Setup)
	if strings.HasPrefix(goOut, "LEAK") {
		return "data of an archive outside the served directory was returned: " + goOut
	}
	if strings.HasPrefix(goOut, "panic") || strings.HasPrefix(goOut, "mixed-keys") {
		return goOut
	}
	t := strings.Fields(line)
	raw, _ := unhex(t[1])
	p := string(raw)
	if t[0] == "path" && !strings.HasPrefix(goOut, "tile ") {
		// the other direction: a path of the documented form /<archive>/<z>/<x>/<y>.<ext> whose numbers fit their
		// fields (zoom one byte, column and row 32 bits) IS a tile request
		if m := c11TilePathRe.FindStringSubmatch(p); m != nil {
			z, e1 := strconv.ParseUint(m[2], 10, 8)
			_, e2 := strconv.ParseUint(m[3], 10, 32)
			_, e3 := strconv.ParseUint(m[4], 10, 32)
			if e1 == nil && e2 == nil && e3 == nil {
				return fmt.Sprintf("path %q names tile %d/%s/%s of archive %q but is not recognised as a tile request (%s)", p, z, m[3], m[4], m[1], goOut)
			}
		}
	}
	if t[0] == "path" && strings.HasPrefix(goOut, "tile ") {
		// the coordinates are the last three path segments read as plain decimal numbers
		f := strings.Fields(goOut)
		segs := strings.Split(p, "/")
		if len(f) == 6 && len(segs) >= 4 {
			last := segs[len(segs)-1]
			if i := strings.LastIndex(last, "."); i > 0 {
				for k, sv := range []string{segs[len(segs)-3], segs[len(segs)-2], last[:i]} {
					want, err := strconv.ParseUint(sv, 10, 64)
					if err == nil && strconv.FormatUint(want, 10) != f[2+k] {
						return fmt.Sprintf("path %q: coordinate %q was read as %s", p, sv, f[2+k])
					}
				}
			}
		}
	}
	if t[0] == "srvkey" {
		// the same path as a raw request line (only when it can be put on a request line)
		if strings.HasPrefix(p, "/") && !strings.ContainsAny(p, " \r\n\x00") {
			ok := true
			for i := 0; i < len(p); i++ {
				if p[i] < 0x21 || p[i] > 0x7e {
					ok = false
				}
			}
			if ok {
				if _, body := rawHTTP(c11HTTPURL, p); strings.Contains(body, "OUTSIDE:") {
					return "raw HTTP request " + p + " returned data of an archive outside the served directory"
				}
				if c11CLIAddr != "" {
					st, body := rawHTTP(c11CLIAddr, p)
					if strings.Contains(body, "OUTSIDE:") {
						return "raw HTTP request " + p + " to `pmtiles serve` returned data of an archive outside the served directory"
					}
					if st == "" {
						return "`pmtiles serve` did not answer the raw HTTP request " + p
					}
				}
			}
		}
		// keys are '<name>.pmtiles' for the archive part of the path
		if strings.HasPrefix(goOut, "key ") {
			k, _ := unhex(strings.TrimPrefix(goOut, "key "))
			if !strings.HasSuffix(string(k), ".pmtiles") || !strings.HasPrefix(p, "/"+strings.TrimSuffix(string(k), ".pmtiles")) {
				return "bucket key " + string(k) + " is not '<archive part of the path>.pmtiles' for path " + p
			}
		}
	}
	return ""
}

// Agree: a request may be answered from the cache without any bucket call; the keys it does use must be the model's.
func (C11) Agree(line, goOut, modelOut string) bool {
	if goOut == modelOut {
		return true
	}
	// whether a key that is not served is turned away as invalid or simply not found is a matter of wording
	// (the error text); what matters is that nothing was served
	if strings.HasPrefix(line, "local ") && (goOut == "refused" || goOut == "nofile") && (modelOut == "refused" || modelOut == "nofile") {
		return true
	}
	return strings.HasPrefix(line, "srvkey ") && goOut == "nokey"
}
