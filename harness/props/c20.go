package props

// C20 — makesync + sync converge the local archive to the remote one, byte for byte.
//
// Tie: the real Makesync writes B.sync (compared byte for byte with the model's syncFileOf, which
// includes the model's own XXH64); the real Sync runs in a child process (it may panic, and it
// owns os.Stdout) against a loopback origin that records every request and can misbehave on the
// k-th one.  Outcome, matched-block count, chunk count, request list and the final bytes of the
// local file are compared with the model's `sync`.
// Oracle (the property alone): ok ⇒ file == B; dry run or error ⇒ file == A (or B); never a panic;
// A == B ⇒ no request for tile ranges.

import (
	"bytes"
	"fmt"
	"io"
	"mime/multipart"
	"net"
	"net/http"
	"net/http/httptest"
	"net/textproto"
	"os"
	"os/exec"
	"path/filepath"
	"regexp"
	"sort"
	"strconv"
	"strings"
	"sync"
	"time"

	"github.com/protomaps/go-pmtiles/pmtiles"
	"verifharness/core"
)

type C20 struct{}

func (C20) ID() string { return "C20" }
func (C20) Rule() string {
	return "Makesync(B) = model syncFileOf(B) byte for byte; Sync(A, origin serving B and B.sync) = model sync: outcome, matched blocks, chunks, request list and final local bytes; oracle: ok ⇒ local == B, dry/err ⇒ local unchanged, no panic, A == B ⇒ no tile-range request"
}

type c20Tile struct {
	id      uint64
	content []byte
}

// clusteredFromTiles builds a clustered archive: contents in tile-ID order, optional dedup of
// repeated contents (back-references) and run-lengths for consecutive equal contents.
func clusteredFromTiles(r *core.Rng, tiles []c20Tile, dedup bool, depth, leafSize int, metaLen int) builtArchive {
	var ts tileSet
	seen := map[string]uint64{}
	for _, t := range tiles {
		n := len(ts.entries)
		if n > 0 {
			last := &ts.entries[n-1]
			if last.TileID+uint64(last.RunLength) == t.id && bytes.Equal(ts.data[last.Offset:last.Offset+uint64(last.Length)], t.content) && dedup {
				last.RunLength++
				continue
			}
		}
		off, ok := seen[string(t.content)]
		if !ok || !dedup {
			off = uint64(len(ts.data))
			ts.data = append(ts.data, t.content...)
			seen[string(t.content)] = off
		}
		ts.entries = append(ts.entries, pmtiles.EntryV3{TileID: t.id, Offset: off, Length: uint32(len(t.content)), RunLength: 1})
	}
	root := buildTree(r, ts.entries, depth, leafSize, false)
	h := pmtiles.HeaderV3{SpecVersion: 3, Clustered: true, TileType: pmtiles.Mvt, TileCompression: pmtiles.NoCompression, MinZoom: 0, MaxZoom: 12}
	meta := []byte(`{"m":"` + strings.Repeat("x", metaLen) + `"}`)
	return assembleArchive(root, ts, pmtiles.NoCompression, h, meta)
}

func randContent(r *core.Rng, tag uint64, maxLen int) []byte {
	l := 1 + r.Intn(maxLen)
	if r.Chance(1, 25) {
		l = 1000 + r.Intn(1500) // bigger than a 1 kB block
	}
	b := make([]byte, l)
	s := r.U64()
	for k := range b {
		s = s*6364136223846793005 + 1442695040888963407
		b[k] = byte(s >> 56)
	}
	t := fmt.Sprintf("%d|", tag)
	copy(b, t)
	return b
}

func randTiles(r *core.Rng, n int, maxLen int) []c20Tile {
	var out []c20Tile
	id := uint64(r.Intn(5))
	for i := 0; i < n; i++ {
		var c []byte
		if len(out) > 0 && r.Chance(1, 8) {
			c = out[r.Intn(len(out))].content // repeated content
		} else {
			c = randContent(r, id, maxLen)
		}
		out = append(out, c20Tile{id, c})
		switch r.Intn(4) {
		case 0:
			id += 1
		case 1:
			id += 1 + uint64(r.Intn(3))
		case 2:
			id += 1 + uint64(r.Intn(50))
		default:
			id += 1
		}
	}
	return out
}

// mutateTiles derives B's tiles from A's: add, remove, change tiles at the front, in the middle, at the end.
func mutateTiles(r *core.Rng, a []c20Tile, maxLen int) ([]c20Tile, string) {
	m := map[uint64][]byte{}
	for _, t := range a {
		m[t.id] = t.content
	}
	var ids []uint64
	for _, t := range a {
		ids = append(ids, t.id)
	}
	maxID := uint64(10)
	if len(ids) > 0 {
		maxID = ids[len(ids)-1] + 10
	}
	kinds := []string{}
	ops := 1 + r.Intn(4)
	for o := 0; o < ops; o++ {
		switch r.Intn(10) {
		case 9: // a run of new tiles inside a gap of IDs: whole new blocks between old neighbours
			kinds = append(kinds, "addrun")
			for try := 0; try < 8 && len(ids) > 1; try++ {
				i := r.Intn(len(ids) - 1)
				gap := ids[i+1] - ids[i] - 1
				if gap == 0 {
					continue
				}
				k := uint64(1 + r.Intn(6))
				if k > gap {
					k = gap
				}
				for j := uint64(1); j <= k; j++ {
					m[ids[i]+j] = randContent(r, ids[i]+j+6000000, 300+maxLen)
				}
				break
			}
		case 0: // add in the middle
			kinds = append(kinds, "addmid")
			for k := 0; k < 1+r.Intn(4); k++ {
				id := r.U64() % maxID
				m[id] = randContent(r, id+1000000, maxLen)
			}
		case 1: // add at the end
			kinds = append(kinds, "addend")
			for k := 0; k < 1+r.Intn(6); k++ {
				id := maxID + uint64(r.Intn(30))
				m[id] = randContent(r, id+2000000, maxLen)
			}
		case 2: // add before the first
			kinds = append(kinds, "addfront")
			if len(ids) > 0 && ids[0] > 0 {
				id := r.U64() % ids[0]
				m[id] = randContent(r, id+3000000, maxLen)
			}
		case 3: // remove somewhere
			kinds = append(kinds, "rmmid")
			for k := 0; k < 1+r.Intn(4) && len(ids) > 0; k++ {
				delete(m, ids[r.Intn(len(ids))])
			}
		case 4: // remove the tail
			kinds = append(kinds, "rmtail")
			k := 1 + r.Intn(1+len(ids)/3)
			for i := len(ids) - 1; i >= 0 && k > 0; i, k = i-1, k-1 {
				delete(m, ids[i])
			}
		case 5: // remove the head
			kinds = append(kinds, "rmhead")
			k := 1 + r.Intn(1+len(ids)/3)
			for i := 0; i < len(ids) && k > 0; i, k = i+1, k-1 {
				delete(m, ids[i])
			}
		case 6: // change contents
			kinds = append(kinds, "change")
			for k := 0; k < 1+r.Intn(4) && len(ids) > 0; k++ {
				id := ids[r.Intn(len(ids))]
				if _, ok := m[id]; ok {
					m[id] = randContent(r, id+4000000, maxLen)
				}
			}
		case 7: // change first and last
			kinds = append(kinds, "changeends")
			if len(ids) > 0 {
				for _, id := range []uint64{ids[0], ids[len(ids)-1]} {
					if _, ok := m[id]; ok {
						m[id] = randContent(r, id+5000000, maxLen)
					}
				}
			}
		case 8: // a run of removals in the middle (whole blocks disappear)
			kinds = append(kinds, "rmrun")
			if len(ids) > 4 {
				s := r.Intn(len(ids) - 2)
				e := s + 1 + r.Intn(len(ids)-s-1)
				for _, id := range ids[s:e] {
					delete(m, id)
				}
			}
		}
	}
	var out []c20Tile
	for id, c := range m {
		out = append(out, c20Tile{id, c})
	}
	sort.Slice(out, func(i, j int) bool { return out[i].id < out[j].id })
	return out, strings.Join(kinds, "+")
}

func (C20) Gen(r *core.Rng, tier string, emit func(string)) {
	{
		// the same cases through the real binaries: separate budgets for makesync, fault-free syncs and syncs
		// against a misbehaving origin (a sync that FAILS is where exit status and clean-up matter)
		budget := map[string]int{"mksync": 6, "sync": 9, "fault": 10}
		if tier == "thorough" {
			budget = map[string]int{"mksync": 40, "sync": 50, "fault": 60}
		}
		inner := emit
		emit = func(line string) {
			inner(line)
			cat := ""
			if strings.HasPrefix(line, "mksync ") {
				cat = "mksync"
			} else if strings.HasPrefix(line, "sync ") {
				cat = "sync"
				if f := strings.Fields(line); len(f) > 3 && f[3] != "-" {
					cat = "fault"
				}
			}
			if cat != "" && budget[cat] > 0 && lineHash(line)%3 == 0 {
				budget[cat]--
				inner("cli" + line)
			}
		}
	}
	nSync, nMk, nFault, nSmall := 70, 30, 90, 60
	if tier == "thorough" {
		nSync, nMk, nFault, nSmall = 3000, 600, 2000, 1500
	}
	arch := func(tiles []c20Tile) []byte {
		depth := 0
		if len(tiles) > 20 && r.Chance(1, 3) {
			depth = 1
		}
		return clusteredFromTiles(r, tiles, r.Chance(2, 3), depth, 4+r.Intn(20), r.Intn(40)).bytes
	}
	pair := func() ([]byte, []byte, string) {
		n := 1 + r.Intn(60)
		maxLen := []int{40, 200, 600}[r.Intn(3)]
		if r.Chance(1, 5) {
			n = 1 + r.Intn(6)
		} else if r.Chance(1, 2) {
			// tile data well past the first 16 KiB (which sync copies wholesale)
			n = 40 + r.Intn(50)
			maxLen = 900
		}
		ta := randTiles(r, n, maxLen)
		var tb []c20Tile
		kind := "same"
		switch r.Intn(10) {
		case 0:
			tb = ta
		case 1:
			tb = randTiles(r, 1+r.Intn(40), maxLen)
			kind = "unrelated"
		default:
			tb, kind = mutateTiles(r, ta, maxLen)
			if len(tb) == 0 {
				tb = randTiles(r, 1+r.Intn(5), maxLen)
				kind = "unrelated"
			}
		}
		a := arch(ta)
		if kind == "same" {
			return a, a, kind // the very same file: nothing may be downloaded
		}
		return a, arch(tb), kind
	}
	// Makesync alone
	for i := 0; i < nMk; i++ {
		_, b, _ := pair()
		switch r.Intn(12) {
		case 0: // not clustered
			b = append([]byte{}, b...)
			h, _ := pmtiles.DeserializeHeader(b[:127])
			h.Clustered = false
			copy(b, pmtiles.SerializeHeader(h))
		case 1: // damaged magic
			b = append([]byte{}, b...)
			b[0] ^= 0x20
		}
		emit(fmt.Sprintf("mksync %d %s", 1+r.Intn(3), hexs(b)))
	}
	// fault-free sync, dry and real
	for i := 0; i < nSync; i++ {
		a, b, kind := pair()
		dry := 0
		if r.Chance(1, 6) {
			dry = 1
		}
		if r.Chance(1, 25) { // unreferenced bytes in B (padding between sections)
			b = padArchive(r, b)
			kind += "+gap"
		}
		emit(fmt.Sprintf("sync %d %d - %s %s # %s", 1+r.Intn(3), dry, hexs(a), hexs(b), kind))
	}
	// small block-boundary cases: few tiles, tiny contents relative to the block
	for i := 0; i < nSmall; i++ {
		n := 1 + r.Intn(8)
		ta := randTiles(r, n, 700)
		tb, kind := mutateTiles(r, ta, 700)
		if len(tb) == 0 {
			tb = ta
		}
		emit(fmt.Sprintf("sync 1 0 - %s %s # small:%s", hexs(arch(ta)), hexs(arch(tb)), kind))
	}
	// misbehaving origin
	faults := []string{"drop", "s500", "norange", "short", "s404", "tiny", "fewparts", "fewparts"}
	for i := 0; i < nFault; i++ {
		a, b, kind := pair()
		dry := 0
		if r.Chance(1, 10) {
			dry = 1
		}
		fk := faults[r.Intn(len(faults))]
		fi := []int{0, 0, 1, 2, 3, 4, 5, 5, 6, 7}[r.Intn(10)]
		if i%8 == 5 {
			// a `.sync` file whose first line announces more blocks than follow (by a few, or by 2^62): an error, not a crash
			fk, fi = []string{"hugecount", "morecount"}[(i/8)%2], 0
		}
		if fk == "fewparts" && r.Chance(3, 4) {
			fi = 4 + r.Intn(2) // the request for the tile ranges (after .sync, HEAD, first 16 KiB, metadata[, leaves])
		}
		emit(fmt.Sprintf("sync %d %d %s:%d %s %s # %s", 1+r.Intn(3), dry, fk, fi, hexs(a), hexs(b), kind))
	}
	// a metadata section that STARTS inside the first 16 KiB and ends beyond it (and one that ends exactly at the mark)
	for i := 0; i < 4; i++ {
		ta := randTiles(r, 5+r.Intn(30), 300)
		tb, kind := mutateTiles(r, ta, 300)
		if len(tb) == 0 {
			tb = ta
		}
		a := clusteredFromTiles(r, ta, true, 0, 8, 10+r.Intn(30)).bytes
		ml := 16000 + r.Intn(3000)
		bb := clusteredFromTiles(r, tb, true, 0, 8, ml)
		if i == 3 {
			// end of the metadata exactly at byte 16384
			if d := 16384 - int(bb.header.MetadataOffset+bb.header.MetadataLength); ml+d > 0 {
				bb = clusteredFromTiles(r, tb, true, 0, 8, ml+d)
			}
		}
		emit(fmt.Sprintf("sync %d 0 - %s %s # bigmeta:%s", 1+r.Intn(3), hexs(a), hexs(bb.bytes), kind))
	}
	// directories larger than the first 16 KiB: the leaf section is a download of its own (and so is its failure)
	nBig := 1
	if tier == "thorough" {
		nBig = 12
	}
	for i := 0; i < nBig; i++ {
		ta := randTiles(r, 4500+r.Intn(1500), 3)
		tb, kind := mutateTiles(r, ta, 3)
		if len(tb) == 0 {
			tb = ta
		}
		a := clusteredFromTiles(r, ta, true, 1, 400+r.Intn(300), 10).bytes
		b := clusteredFromTiles(r, tb, true, 1, 400+r.Intn(300), 10).bytes
		emit(fmt.Sprintf("sync 20 0 - %s %s # bigdir:%s", hexs(a), hexs(b), kind))
		for fi := 2; fi <= 6; fi++ {
			emit(fmt.Sprintf("sync 20 0 %s:%d %s %s # bigdir:%s", []string{"s500", "drop", "short", "s404"}[(i+fi)%4], fi, hexs(a), hexs(b), kind))
		}
	}
	// the .sync download itself is cut short (inside the JSON line) while the remote archive is far larger than
	// the 16 KiB that sync copies wholesale: a sync that "succeeds" here has lost the tile data
	for i := 0; i < 3; i++ {
		tb := randTiles(r, 50+r.Intn(40), 900)
		ta, _ := mutateTiles(r, tb, 900)
		if len(ta) == 0 {
			ta = tb
		}
		emit(fmt.Sprintf("sync %d 0 %s:0 %s %s # big+cut-syncfile", 1+r.Intn(3), []string{"tiny", "tiny", "short"}[i], hexs(arch(ta)), hexs(arch(tb))))
	}
	// Range batching and block (de)serialisation
	nAux := 60
	if tier == "thorough" {
		nAux = 1500
	}
	for i := 0; i < nAux; i++ {
		var sb strings.Builder
		n := r.Intn(12)
		off := uint64(r.Intn(1000))
		for k := 0; k < n; k++ {
			l := 1 + uint64(r.Intn(100000))
			fmt.Fprintf(&sb, " %d:%d:%d", off, off, l)
			off += l + uint64(r.Intn(3))*uint64(r.Intn(5000))
		}
		emit(fmt.Sprintf("mmr %d %d%s", r.Intn(1<<20), []int{1, 10, 20, 40, 100, 1000000}[r.Intn(6)], sb.String()))
		sb.Reset()
		n = r.Intn(10)
		start := uint64(0)
		for k := 0; k < n; k++ {
			start += uint64(r.Intn(5)) * (1 + r.U64()%(1<<uint(r.Intn(40))))
			fmt.Fprintf(&sb, " %d:%d:%d", start, r.U64()%(1<<uint(1+r.Intn(40))), r.U64())
		}
		emit("syncblocks" + sb.String())
	}
}

// padArchive inserts a run of non-zero bytes between the metadata and the leaf/tile sections (past the
// first 16 KiB only when the archive is large; the header offsets are adjusted).
func padArchive(r *core.Rng, b []byte) []byte {
	h, err := pmtiles.DeserializeHeader(b[:127])
	if err != nil {
		return b
	}
	pad := bytes.Repeat([]byte{0xEE}, 17000+r.Intn(100))
	cut := h.LeafDirectoryOffset
	out := append([]byte{}, b[:cut]...)
	out = append(out, pad...)
	out = append(out, b[cut:]...)
	h.LeafDirectoryOffset += uint64(len(pad))
	h.TileDataOffset += uint64(len(pad))
	copy(out, pmtiles.SerializeHeader(h))
	return out
}

type c20Req struct {
	method, path, rng string
}

// c20Origin serves B and B.sync from memory, records requests, misbehaves on request number faultAt.
type c20Origin struct {
	mu      sync.Mutex
	files   map[string][]byte
	reqs    []c20Req
	fault   string
	faultAt int
}

func (o *c20Origin) ServeHTTP(w http.ResponseWriter, r *http.Request) {
	o.mu.Lock()
	idx := len(o.reqs)
	o.reqs = append(o.reqs, c20Req{r.Method, r.URL.Path, r.Header.Get("Range")})
	o.mu.Unlock()
	data, ok := o.files[r.URL.Path]
	if !ok {
		http.NotFound(w, r)
		return
	}
	if o.fault != "" && idx == o.faultAt {
		switch o.fault {
		case "drop":
			if hj, ok := w.(http.Hijacker); ok {
				c, _, _ := hj.Hijack()
				c.Close()
				return
			}
		case "s500":
			http.Error(w, "boom", 500)
			return
		case "s404":
			http.NotFound(w, r)
			return
		case "norange":
			r.Header.Del("Range")
		case "hugecount", "morecount":
			if strings.HasSuffix(r.URL.Path, ".sync") {
				if m := reNumBlocks.FindSubmatchIndex(data); m != nil {
					n, _ := strconv.Atoi(string(data[m[2]:m[3]]))
					repl := strconv.Itoa(n + 3)
					if o.fault == "hugecount" {
						repl = "4611686018427387904"
					}
					data = append(append(append([]byte{}, data[:m[2]]...), repl...), data[m[3]:]...)
				}
			}
		case "fewparts":
			// a well-formed multipart answer that holds only the first half of the requested ranges (an origin or CDN capping ranges)
			rs := strings.Split(strings.TrimPrefix(r.Header.Get("Range"), "bytes="), ",")
			if len(rs) >= 2 {
				mw := multipart.NewWriter(w)
				w.Header().Set("Content-Type", "multipart/byteranges; boundary="+mw.Boundary())
				w.WriteHeader(206)
				for _, one := range rs[:(len(rs)+1)/2] {
					ab := strings.Split(strings.TrimSpace(one), "-")
					a, _ := strconv.Atoi(ab[0])
					b, _ := strconv.Atoi(ab[1])
					if a < 0 || b >= len(data) || a > b {
						continue
					}
					pw, _ := mw.CreatePart(textproto.MIMEHeader{"Content-Range": {fmt.Sprintf("bytes %d-%d/%d", a, b, len(data))}, "Content-Type": {"application/octet-stream"}})
					pw.Write(data[a : b+1])
				}
				mw.Close()
				return
			}
		case "short", "tiny":
			if hj, ok := w.(http.Hijacker); ok && r.Method != "HEAD" {
				// a well-formed response head announcing the right length, then half the body
				rec := httptest.NewRecorder()
				http.ServeContent(rec, r, filepath.Base(r.URL.Path), time.Time{}, bytes.NewReader(data))
				body := rec.Body.Bytes()
				c, bw, _ := hj.Hijack()
				fmt.Fprintf(bw, "HTTP/1.1 %d X\r\n", rec.Code)
				for k, v := range rec.Header() {
					fmt.Fprintf(bw, "%s: %s\r\n", k, v[0])
				}
				if rec.Header().Get("Content-Length") == "" {
					fmt.Fprintf(bw, "Content-Length: %d\r\n", len(body))
				}
				bw.WriteString("\r\n")
				cut := len(body) / 2
				if o.fault == "tiny" && len(body) > 10 {
					cut = 10
				}
				bw.Write(body[:cut])
				bw.Flush()
				c.Close()
				return
			}
		}
	}
	http.ServeContent(&dribbleWriter{ResponseWriter: w}, r, filepath.Base(r.URL.Path), time.Time{}, bytes.NewReader(data)) // short reads, as over a real network
}

var reNumBlocks = regexp.MustCompile(`"num_blocks":\s*(\d+)`)
var reSyncStats = regexp.MustCompile(`matched=\S+ chunks=\S+ ?`)
var reMatched = regexp.MustCompile(`(\d+)/(\d+) blocks matched`)
var reChunks = regexp.MustCompile(`need (\d+) chunks`)

// runMakesync runs the real Makesync in a child process (a panic in one of its goroutines cannot be
// recovered in-process) and classifies the outcome.
// staleSyncFile: history — an earlier makesync of ANOTHER archive under this name left its .sync behind, and the
// archive that replaced it carries an older modification time (mv, cp -p, rsync -t, a rollback)
func staleSyncFile(path string) {
	n := <-staleCounter
	staleCounter <- n + 1
	if n%2 == 0 {
		os.WriteFile(path+".sync", []byte("{\"stale\":true}\n0\t0\t0\t1\t0000000000000000\n"), 0o644)
		past := time.Now().Add(-2 * time.Hour)
		os.Chtimes(path, past, past)
	}
}

func runMakesync(cli bool, path string, kb int) string {
	staleSyncFile(path)
	if cli {
		return cliMakesync(path, kb)
	}
	cmd := exec.Command(os.Args[0], "mksyncchild", path, strconv.Itoa(kb))
	var stderr bytes.Buffer
	cmd.Stderr = &stderr
	out, err := cmd.Output()
	if err != nil {
		first := "exit:" + err.Error()
		for _, l := range strings.Split(stderr.String(), "\n") {
			if strings.HasPrefix(l, "panic:") || strings.HasPrefix(l, "fatal error:") {
				first = l
				break
			}
		}
		return "panic:makesync:" + strings.ReplaceAll(trunc(first, 80), " ", "_")
	}
	return strings.TrimSpace(string(out))
}

// cliMakesync: `pmtiles makesync <archive> --block-size-kb=N` through the real binary, classified like the
// child; the version the binary stamps into the header line ("dev") is rewritten to the harness's "v"
func cliMakesync(path string, kb int) string {
	bin := os.Getenv("VERIF_CLI")
	if bin == "" {
		return "no-cli-binary"
	}
	cmd := exec.Command(bin, "makesync", path, fmt.Sprintf("--block-size-kb=%d", kb))
	var stdout, stderr bytes.Buffer
	cmd.Stdout, cmd.Stderr = &stdout, &stderr
	if err := cmd.Run(); err != nil {
		for _, l := range strings.Split(stderr.String(), "\n") {
			if strings.HasPrefix(l, "panic:") || strings.HasPrefix(l, "fatal error:") {
				if strings.Contains(l, "Invalid clustering") {
					return "err:badclustering"
				}
				return "panic:makesync:" + strings.ReplaceAll(trunc(l, 80), " ", "_")
			}
		}
		m := stdout.String()
		switch {
		case strings.Contains(stderr.String(), "goroutine "):
			return "panic:makesync:exit_with_a_stack_trace:" + strings.ReplaceAll(trunc(err.Error(), 40), " ", "_")
		case strings.Contains(m, "clustered"):
			return "err:notclustered"
		case strings.Contains(m, "magic") || strings.Contains(m, "spec version") || strings.Contains(m, "header"):
			return "err:header"
		}
		return "err:iterate"
	}
	if sf, err := os.ReadFile(path + ".sync"); err == nil {
		os.WriteFile(path+".sync", bytes.Replace(sf, []byte(`"version":"dev"`), []byte(`"version":"v"`), 1), 0o644)
	}
	return "ok"
}

// MksyncChild: `vh mksyncchild <archive> <blockSizeKb>`
func MksyncChild(args []string) {
	kb, _ := strconv.Atoi(args[1])
	null, _ := os.OpenFile(os.DevNull, os.O_WRONLY, 0)
	real := os.Stdout
	os.Stdout, os.Stderr = null, null
	res := func() (res string) {
		defer func() {
			if e := recover(); e != nil {
				m := fmt.Sprint(e)
				if strings.Contains(m, "Invalid clustering") {
					res = "err:badclustering"
				} else {
					res = "panic:" + strings.ReplaceAll(trunc(m, 60), " ", "_")
				}
			}
		}()
		err := pmtiles.Makesync(discardLogger, "v", args[0], kb)
		if err != nil {
			m := err.Error()
			switch {
			case strings.Contains(m, "clustered"):
				return "err:notclustered"
			case strings.Contains(m, "magic") || strings.Contains(m, "spec version") || strings.Contains(m, "header"):
				return "err:header"
			}
			return "err:iterate"
		}
		return "ok"
	}()
	fmt.Fprintln(real, res)
}

func (C20) RunGo(line string) string {
	body, _ := stripComment(strings.Fields(line))
	cliMode, body := splitCLI(body)
	switch body[0] {
	case "mksync":
		kb, _ := strconv.Atoi(body[1])
		b, ok := unhex(body[2])
		if !ok {
			return "bad-case"
		}
		dir, _ := os.MkdirTemp(Scratch(), "mk")
		defer os.RemoveAll(dir)
		p := dir + "/b.pmtiles"
		os.WriteFile(p, b, 0o644)
		if r := runMakesync(cliMode, p, kb); r != "ok" {
			return r
		}
		sf, err := os.ReadFile(p + ".sync")
		if err != nil {
			return "no-syncfile"
		}
		return "ok " + hexs(sf)
	case "sync":
		kb, _ := strconv.Atoi(body[1])
		dry := body[2]
		fault := body[3]
		a, ok1 := unhex(body[4])
		b, ok2 := unhex(body[5])
		if !ok1 || !ok2 {
			return "bad-case"
		}
		dir, _ := os.MkdirTemp(Scratch(), "sy")
		defer os.RemoveAll(dir)
		bp := dir + "/b.pmtiles"
		os.WriteFile(bp, b, 0o644)
		if r := runMakesync(cliMode, bp, kb); r != "ok" {
			if strings.HasPrefix(r, "panic") {
				return r
			}
			return "nosync:" + strings.TrimPrefix(r, "err:")
		}
		sf, _ := os.ReadFile(bp + ".sync")
		ap := dir + "/a.pmtiles"
		os.WriteFile(ap, a, 0o644)
		staleOutput(ap + ".tmp") // a left-over temp file of an earlier, interrupted sync
		o := &c20Origin{files: map[string][]byte{"/b.pmtiles": b, "/b.pmtiles.sync": sf}, faultAt: -1}
		if fault != "-" {
			p := strings.Split(fault, ":")
			o.fault = p[0]
			o.faultAt, _ = strconv.Atoi(p[1])
		}
		ln, err := net.Listen("tcp", "127.0.0.1:0")
		if err != nil {
			return "listen-failed"
		}
		srv := &http.Server{Handler: o}
		go srv.Serve(ln)
		defer srv.Close()
		url := "http://" + ln.Addr().String() + "/b.pmtiles"
		cmd := exec.Command(os.Args[0], "syncchild", ap, url, dry)
		if cliMode {
			if os.Getenv("VERIF_CLI") == "" {
				return "no-cli-binary"
			}
			cmd = exec.Command(os.Args[0], "syncclichild", ap, url, dry)
		}
		// schedules: the hash workers and download threads run on 1, 2, 4 or 16 Ps, fixed per case
		cmd.Env = append(os.Environ(), fmt.Sprintf("GOMAXPROCS=%d", []int{1, 2, 4, 16}[(len(body[4])+len(body[5]))%4]))
		var stderr bytes.Buffer
		cmd.Stderr = &stderr
		done := make(chan struct{})
		var out []byte
		var cerr error
		go func() { out, cerr = cmd.Output(); close(done) }()
		select {
		case <-done:
		case <-time.After(30 * time.Second):
			cmd.Process.Kill()
			<-done
			return "hang"
		}
		res := strings.TrimSpace(string(out))
		if cerr != nil {
			se := stderr.String()
			first := ""
			for _, l := range strings.Split(se, "\n") {
				if strings.HasPrefix(l, "panic:") || strings.HasPrefix(l, "fatal error:") {
					first = l
					break
				}
			}
			if first == "" {
				first = "exit:" + cerr.Error()
			}
			return "panic:" + strings.ReplaceAll(trunc(first, 80), " ", "_")
		}
		after, _ := os.ReadFile(ap)
		if !strings.HasPrefix(res, "ok") {
			return "err file=" + hexs(after) + " # " + strings.ReplaceAll(trunc(res, 80), " ", "_")
		}
		// request list
		o.mu.Lock()
		reqs := append([]c20Req{}, o.reqs...)
		o.mu.Unlock()
		if o.fault == "drop" && o.faultAt >= 0 && o.faultAt < len(reqs) {
			// the dropped request was retried by net/http: keep the retry only
			reqs = append(reqs[:o.faultAt:o.faultAt], reqs[o.faultAt+1:]...)
		}
		var fixed, multi []string
		h, _ := pmtiles.DeserializeHeader(b[:127])
		for i, q := range reqs {
			rg := strings.TrimPrefix(q.rng, "bytes=")
			switch {
			case i == 0 && strings.HasSuffix(q.path, ".sync") && q.method == "GET":
				fixed = append(fixed, "GET.sync")
			case q.method == "HEAD":
				fixed = append(fixed, "HEAD")
			case len(fixed) < 3+b2i(h.MetadataLength > 0)+b2i(h.LeafDirectoryLength > 0) && len(multi) == 0:
				fixed = append(fixed, rg)
			default:
				multi = append(multi, rg)
			}
		}
		sort.Strings(multi)
		rs := strings.Join(fixed, ",")
		if dry != "1" {
			rs += "|" + strings.Join(multi, "|")
		}
		return fmt.Sprintf("%s reqs=%s file=%s", res, rs, hexs(after))
	case "mmr":
		base, _ := strconv.ParseInt(body[1], 10, 64)
		mx, _ := strconv.Atoi(body[2])
		var rs []pmtiles.VerifRange
		for _, t := range body[3:] {
			p := strings.Split(t, ":")
			s, _ := strconv.ParseUint(p[0], 10, 64)
			d, _ := strconv.ParseUint(p[1], 10, 64)
			l, _ := strconv.ParseUint(p[2], 10, 64)
			rs = append(rs, pmtiles.VerifRange{SrcOffset: s, DstOffset: d, Length: l})
		}
		strs, groups := pmtiles.VerifMakeMultiRanges(rs, base, mx)
		out := []string{strconv.Itoa(len(strs))}
		for i := range strs {
			out = append(out, fmt.Sprintf("%s#%d", strs[i], len(groups[i])))
		}
		return strings.Join(out, " ")
	case "syncblocks":
		var bs []pmtiles.VerifSyncBlock
		for _, t := range body[1:] {
			p := strings.Split(t, ":")
			s, _ := strconv.ParseUint(p[0], 10, 64)
			l, _ := strconv.ParseUint(p[1], 10, 64)
			hh, _ := strconv.ParseUint(p[2], 10, 64)
			bs = append(bs, pmtiles.VerifSyncBlock{Start: s, Length: l, Hash: hh})
		}
		var buf bytes.Buffer
		pmtiles.VerifSerializeSyncBlocks(&buf, bs)
		back := pmtiles.VerifDeserializeSyncBlocks(len(bs), buf.Bytes())
		out := []string{hexs(buf.Bytes())}
		for _, k := range back {
			out = append(out, fmt.Sprintf("%d:%d:%d:%d", k.Start, k.Offset, k.Length, k.Hash))
		}
		return strings.Join(out, " ")
	}
	return "bad-case"
}

func b2i(b bool) int {
	if b {
		return 1
	}
	return 0
}

// SyncChild runs pmtiles.Sync with stdout captured and reports `ok matched=h/n chunks=c` or `err:<msg>`.
func SyncChild(args []string) {
	real := os.Stdout
	tmp, _ := os.CreateTemp("", "syncout")
	defer os.Remove(tmp.Name())
	os.Stdout = tmp
	null, _ := os.OpenFile(os.DevNull, os.O_WRONLY, 0)
	keepErr := os.Stderr
	os.Stderr = null // progress bars
	_ = keepErr
	err := pmtiles.Sync(discardLogger, args[0], args[1], args[2] == "1")
	os.Stdout = real
	tmp.Seek(0, 0)
	txt, _ := io.ReadAll(tmp)
	tmp.Close()
	if err != nil {
		fmt.Println("err:" + err.Error())
		return
	}
	m := reMatched.FindStringSubmatch(string(txt))
	c := reChunks.FindStringSubmatch(string(txt))
	if m == nil || c == nil {
		fmt.Println("ok matched=?/? chunks=?")
		return
	}
	fmt.Printf("ok matched=%s/%s chunks=%s\n", m[1], m[2], c[1])
}

// SyncCLIChild: the same report as SyncChild, from `pmtiles sync <existing> <new> [--dry-run]` run through the binary
func SyncCLIChild(args []string) {
	a := []string{"sync", args[0], args[1]}
	if args[2] == "1" {
		a = append(a, "--dry-run")
	}
	cmd := exec.Command(os.Getenv("VERIF_CLI"), a...)
	var stdout, stderr bytes.Buffer
	cmd.Stdout = &stdout
	cmd.Stderr = &stderr
	err := cmd.Run()
	txt := stdout.String()
	if err != nil {
		if strings.Contains(stderr.String(), "goroutine ") || strings.Contains(stderr.String(), "panic:") || strings.Contains(stderr.String(), "fatal error:") {
			os.Stderr.Write(stderr.Bytes()) // a panic's trace reaches the parent, which classifies it
			os.Exit(2)
		}
		// a failure the command reported (whatever its wording) and turned into a non-zero exit status
		last := strings.TrimSpace(txt)
		if i := strings.LastIndex(last, "\n"); i >= 0 {
			last = last[i+1:]
		}
		fmt.Println("err:" + last)
		return
	}
	m := reMatched.FindStringSubmatch(txt)
	c := reChunks.FindStringSubmatch(txt)
	if m == nil || c == nil {
		fmt.Println("ok matched=?/? chunks=?")
		return
	}
	fmt.Printf("ok matched=%s/%s chunks=%s\n", m[1], m[2], c[1])
}

func (C20) Agree(line, goOut, modelOut string) bool {
	if i := strings.Index(goOut, " # "); i >= 0 {
		goOut = goOut[:i]
	}
	// the figures sync prints about its own progress ("h/n blocks matched", "need c chunks") are read off its status
	// lines; when their wording changes they are unknown (`?`), and the comparison goes by what the property is
	// about: outcome, requests, resulting file
	unknownStats := strings.Contains(goOut, "matched=?/? chunks=?")
	if unknownStats {
		goOut = reSyncStats.ReplaceAllString(goOut, "")
	}
	for _, alt := range strings.Split(modelOut, " || ") {
		if unknownStats {
			alt = reSyncStats.ReplaceAllString(alt, "")
		}
		if goOut == alt {
			return true
		}
		// why makesync turns an input away (and in what words) is not the point: that it does, is
		if (strings.HasPrefix(goOut, "err:") && strings.HasPrefix(alt, "err:")) || (strings.HasPrefix(goOut, "nosync:") && strings.HasPrefix(alt, "nosync:")) {
			return true
		}
	}
	return false
}

func (C20) NonTrivial(line string) bool {
	t := strings.Fields(line)
	return len(t) > 3
}

func (C20) Branch(line, goOut string) string {
	_, t := splitCLI(strings.Fields(line))
	switch t[0] {
	case "sync":
		k := "sync"
		if t[2] == "1" {
			k += " dry"
		}
		if t[3] != "-" {
			k += " fault=" + strings.Split(t[3], ":")[0]
		}
		res := strings.Fields(goOut)
		if len(res) > 0 {
			k += " → " + res[0]
		}
		if len(res) > 1 && strings.HasPrefix(res[1], "matched=") {
			p := strings.Split(strings.TrimPrefix(res[1], "matched="), "/")
			if len(p) == 2 {
				switch {
				case p[0] == p[1]:
					k += " all-matched"
				case p[0] == "0":
					k += " none-matched"
				default:
					k += " some-matched"
				}
			}
		}
		return k
	case "mksync":
		return "mksync " + strings.Fields(goOut)[0]
	}
	return t[0]
}

// bytes of B that belong to no section the sync copies: not in the first 16 KiB, the metadata,
// the leaf directories or the tile data that entries reference
func c20Unreferenced(b []byte) bool {
	h, err := pmtiles.DeserializeHeader(b[:127])
	if err != nil {
		return false
	}
	cov := make([]bool, len(b))
	mark := func(off, l uint64) {
		for i := off; i < off+l && i < uint64(len(b)); i++ {
			cov[i] = true
		}
	}
	mark(0, 16384)
	mark(h.MetadataOffset, h.MetadataLength)
	mark(h.LeafDirectoryOffset, h.LeafDirectoryLength)
	ext := uint64(0)
	pmtiles.IterateEntries(h, func(off, l uint64) ([]byte, error) {
		if off+l > uint64(len(b)) {
			return nil, fmt.Errorf("eof")
		}
		return b[off : off+l], nil
	}, func(e pmtiles.EntryV3) {
		if e.Offset+uint64(e.Length) > ext {
			ext = e.Offset + uint64(e.Length)
		}
	})
	mark(h.TileDataOffset, ext)
	for i, c := range cov {
		if !c && b[i] != 0 {
			return true
		}
	}
	return false
}

func (C20) Oracle(line, goOut string) string {
	body, _ := stripComment(strings.Fields(line))
	_, body = splitCLI(body)
	if strings.HasPrefix(goOut, "panic") || goOut == "hang" {
		return "sync terminated abnormally: " + goOut
	}
	if body[0] != "sync" {
		return ""
	}
	a, _ := unhex(body[4])
	b, _ := unhex(body[5])
	res := strings.Fields(goOut)
	if len(res) == 0 || strings.HasPrefix(goOut, "nosync") {
		return ""
	}
	var after []byte
	var reqs string
	for _, f := range res {
		if strings.HasPrefix(f, "file=") {
			after, _ = unhex(strings.TrimPrefix(f, "file="))
		}
		if strings.HasPrefix(f, "reqs=") {
			reqs = strings.TrimPrefix(f, "reqs=")
		}
	}
	dry := body[2] == "1"
	switch {
	case dry:
		if !bytes.Equal(after, a) {
			return "dry run changed the local file"
		}
	case res[0] == "ok":
		if !bytes.Equal(after, b) {
			if c20Unreferenced(b) {
				return "KNOWN:D18:remote archive holds non-zero bytes outside every section sync copies"
			}
			d := 0
			for d < len(after) && d < len(b) && after[d] == b[d] {
				d++
			}
			return fmt.Sprintf("sync reported success but the local file differs from the remote one (len %d vs %d, first difference at byte %d)", len(after), len(b), d)
		}
		if bytes.Equal(a, b) {
			if i := strings.Index(reqs, "|"); i >= 0 && reqs[i+1:] != "" {
				return "local file already equal to the remote one, yet tile ranges were requested: " + trunc(reqs[i+1:], 60)
			}
		}
	default:
		if !bytes.Equal(after, a) && !bytes.Equal(after, b) {
			return "failed sync left the local file neither old nor new"
		}
	}
	return ""
}
