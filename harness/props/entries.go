package props

import (
	"bytes"
	"compress/gzip"
	"fmt"
	"io"
	"strconv"
	"strings"

	"github.com/protomaps/go-pmtiles/pmtiles"
	"verifharness/core"
)

func fmtEntries(es []pmtiles.EntryV3) string {
	var b strings.Builder
	b.WriteString(strconv.Itoa(len(es)))
	for _, e := range es {
		fmt.Fprintf(&b, " %d:%d:%d:%d", e.TileID, e.Offset, e.Length, e.RunLength)
	}
	return b.String()
}

// parseEntries parses `n e1 … en` and returns the remaining tokens.
func parseEntries(t []string) ([]pmtiles.EntryV3, []string, bool) {
	if len(t) == 0 {
		return nil, nil, false
	}
	n, err := strconv.Atoi(t[0])
	if err != nil || len(t) < 1+n {
		return nil, nil, false
	}
	es := make([]pmtiles.EntryV3, 0, n)
	for _, s := range t[1 : 1+n] {
		p := strings.Split(s, ":")
		if len(p) != 4 {
			return nil, nil, false
		}
		id, _ := strconv.ParseUint(p[0], 10, 64)
		off, _ := strconv.ParseUint(p[1], 10, 64)
		l, _ := strconv.ParseUint(p[2], 10, 32)
		rl, _ := strconv.ParseUint(p[3], 10, 32)
		es = append(es, pmtiles.EntryV3{TileID: id, Offset: off, Length: uint32(l), RunLength: uint32(rl)})
	}
	return es, t[1+n:], true
}

func gunzip(b []byte) ([]byte, error) {
	r, err := gzip.NewReader(bytes.NewReader(b))
	if err != nil {
		return nil, err
	}
	return io.ReadAll(r)
}

func gzipBytes(b []byte) []byte {
	var buf bytes.Buffer
	w, _ := gzip.NewWriterLevel(&buf, gzip.BestSpeed)
	w.Write(b)
	w.Close()
	return buf.Bytes()
}

// DirShape parameters for the directory generator.
type dirGen struct {
	maxN      int
	leafPtrs  bool // allow run length 0
	bigDeltas bool
}

// randDir draws a strictly ascending directory with contiguous runs, jumps, shared offsets,
// zero lengths, run lengths 0/1/>1, deltas around varint boundaries, offsets up to 2^62.
func randDir(r *core.Rng, g dirGen) []pmtiles.EntryV3 {
	n := 0
	switch r.Intn(6) {
	case 0:
		n = r.Intn(3)
	case 1:
		n = r.Intn(10)
	case 2:
		n = r.Intn(g.maxN + 1)
	default:
		n = r.Intn(40)
	}
	es := make([]pmtiles.EntryV3, 0, n)
	var id, off uint64
	id = 0
	if r.Bool() {
		id = r.Interesting(40)
	}
	style := r.Intn(4) // 0 clustered, 1 scattered, 2 mixed w/ shared, 3 extremes
	for i := 0; i < n; i++ {
		var delta uint64 = 1
		if i > 0 || id > 0 {
			switch r.Intn(6) {
			case 0:
				delta = 1
			case 1:
				delta = uint64(1 + r.Intn(5))
			case 2:
				k := uint(7 * (1 + r.Intn(6)))
				delta = (uint64(1) << k) + uint64(r.Intn(3)) - 1
			case 3:
				if g.bigDeltas {
					delta = uint64(1) << uint(40+r.Intn(20))
				}
			default:
				delta = uint64(1 + r.Intn(300))
			}
			if delta == 0 {
				delta = 1
			}
		}
		if i == 0 && id == 0 && r.Bool() {
			delta = 0
		}
		if id+delta < id || id+delta >= uint64(1)<<62 {
			delta = 1
		}
		id += delta
		var l uint32
		switch r.Intn(6) {
		case 0:
			l = 0
		case 1:
			l = uint32(r.Interesting(32))
		default:
			l = uint32(1 + r.Intn(5000))
		}
		var rl uint32 = 1
		switch r.Intn(6) {
		case 0:
			if g.leafPtrs {
				rl = 0
			}
		case 1:
			rl = uint32(2 + r.Intn(6))
		case 2:
			rl = uint32(r.Interesting(32))
			if rl == 0 && !g.leafPtrs {
				rl = 1
			}
		}
		var o uint64
		switch {
		case style == 0 || (style == 2 && r.Chance(2, 3)):
			o = off // contiguous with the running end
		case style == 1:
			o = r.U64() % (uint64(1) << 40)
		case style == 3:
			o = r.Interesting(62)
		default:
			if len(es) > 0 {
				p := es[r.Intn(len(es))]
				o = p.Offset // shared offset / back-reference
				l = p.Length
			} else {
				o = off
			}
		}
		es = append(es, pmtiles.EntryV3{TileID: id, Offset: o, Length: l, RunLength: rl})
		if o+uint64(l) > off && o+uint64(l) < uint64(1)<<62 {
			if style != 2 || o == off {
				off = o + uint64(l)
			}
		}
		// keep run lengths from overlapping the next ID too often
		if rl > 1 && rl < 1<<20 {
			id += uint64(rl) - 1
		}
	}
	return es
}

// independent encoder / decoder of the v3 directory wire format written from the spec text
func putUvarintSpec(buf *bytes.Buffer, x uint64) {
	for x >= 0x80 {
		buf.WriteByte(byte(x&0x7f) | 0x80)
		x >>= 7
	}
	buf.WriteByte(byte(x))
}

func specEncodeDir(es []pmtiles.EntryV3, flags func(i int) bool) []byte {
	var b bytes.Buffer
	putUvarintSpec(&b, uint64(len(es)))
	var last uint64
	for _, e := range es {
		putUvarintSpec(&b, e.TileID-last)
		last = e.TileID
	}
	for _, e := range es {
		putUvarintSpec(&b, uint64(e.RunLength))
	}
	for _, e := range es {
		putUvarintSpec(&b, uint64(e.Length))
	}
	for i, e := range es {
		if i > 0 && flags(i) && e.Offset == es[i-1].Offset+uint64(es[i-1].Length) {
			putUvarintSpec(&b, 0)
		} else {
			putUvarintSpec(&b, e.Offset+1)
		}
	}
	return b.Bytes()
}

func specDecodeDir(b []byte) ([]pmtiles.EntryV3, bool) {
	pos := 0
	read := func() (uint64, bool) {
		var x uint64
		var s uint
		for i := 0; ; i++ {
			if pos >= len(b) || i >= 10 {
				return 0, false
			}
			c := b[pos]
			pos++
			if c < 0x80 {
				return x | uint64(c)<<s, true
			}
			x |= uint64(c&0x7f) << s
			s += 7
		}
	}
	n, ok := read()
	if !ok || n > uint64(len(b)) {
		return nil, false
	}
	es := make([]pmtiles.EntryV3, n)
	var last uint64
	for i := range es {
		d, ok := read()
		if !ok {
			return nil, false
		}
		last += d
		es[i].TileID = last
	}
	for i := range es {
		v, ok := read()
		if !ok {
			return nil, false
		}
		es[i].RunLength = uint32(v)
	}
	for i := range es {
		v, ok := read()
		if !ok {
			return nil, false
		}
		es[i].Length = uint32(v)
	}
	for i := range es {
		v, ok := read()
		if !ok {
			return nil, false
		}
		if v == 0 && i > 0 {
			es[i].Offset = es[i-1].Offset + uint64(es[i-1].Length)
		} else {
			es[i].Offset = v - 1
		}
	}
	return es, true
}
