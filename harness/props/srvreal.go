package props

// srvreal: the real Server opened through pmtiles.NewServer on a REAL backend — a local directory
// (FileBucket) or a loopback HTTP origin (HTTPBucket) — driven by a sequential history of uploads,
// replacements, origin outages and requests.  Runs in a child process (a crash is an observation).
//
//   srvreal <file|http> <cacheMB> ops…     ops:  P:<name>:<ver>[:<mod>]   S:<path>   K:down | K:up | K:reset
//
// Output: `r0=<status>:<hex body> …` in request order; judged with the same version oracle as the
// gated scripts (each request starts and ends at its own op index).

import (
	"bytes"
	"context"
	"fmt"
	"io"
	"net"
	"net/http"
	"os"
	"os/exec"
	"path/filepath"
	"strconv"
	"strings"
	"sync"
	"sync/atomic"
	"time"

	"github.com/protomaps/go-pmtiles/pmtiles"
)

type realOrigin struct {
	mu    sync.Mutex
	files map[string][]byte
	tags  map[string]string
	ln    net.Listener
	srv   *http.Server
	addr  string
	reset bool // next request: close the connection without answering
	busy  bool // every request is answered 503 with a long error body (a load balancer's error page)
	conns map[net.Conn]bool
}

func (o *realOrigin) connState(c net.Conn, st http.ConnState) {
	o.mu.Lock()
	defer o.mu.Unlock()
	if o.conns == nil {
		o.conns = map[net.Conn]bool{}
	}
	switch st {
	case http.StateNew, http.StateActive, http.StateIdle:
		o.conns[c] = true
	case http.StateClosed, http.StateHijacked:
		delete(o.conns, c)
	}
}

func (o *realOrigin) openConns() int {
	o.mu.Lock()
	defer o.mu.Unlock()
	return len(o.conns)
}

func (o *realOrigin) ServeHTTP(w http.ResponseWriter, r *http.Request) {
	o.mu.Lock()
	key := strings.TrimPrefix(r.URL.Path, "/")
	data, ok := o.files[key]
	tag := o.tags[key]
	rst := o.reset
	o.reset = false
	busy := o.busy
	o.mu.Unlock()
	if busy {
		w.Header().Set("Content-Type", "text/html")
		w.WriteHeader(503)
		w.Write(bytes.Repeat([]byte("<p>The service is temporarily unavailable. Please try again later.</p>\n"), 12))
		return
	}
	if rst {
		if hj, ok := w.(http.Hijacker); ok {
			c, _, _ := hj.Hijack()
			c.Close()
			return
		}
	}
	if !ok {
		http.NotFound(w, r)
		return
	}
	w.Header().Set("ETag", tag)
	http.ServeContent(&dribbleWriter{ResponseWriter: w}, r, key, time.Time{}, bytes.NewReader(data)) // honours If-Match and Range; short reads, as over a real network
}

func (o *realOrigin) up() bool {
	// the address was ours a moment ago; under load another process may hold the port for a while
	for try := 0; try < 100; try++ {
		ln, err := net.Listen("tcp", o.addr)
		if err == nil {
			o.ln = ln
			o.srv = &http.Server{Handler: o, ConnState: o.connState}
			go o.srv.Serve(ln)
			return true
		}
		time.Sleep(20 * time.Millisecond)
	}
	return false
}
func (o *realOrigin) down() {
	if o.srv != nil {
		o.srv.Close()
		o.srv = nil
	}
}

// SrvRealChild is the entry point of the child process.
func SrvRealChild(args []string) {
	backend := args[0]
	viaCLI := strings.HasPrefix(backend, "cli") // the server is `pmtiles serve` (the real binary), asked over HTTP
	backend = strings.TrimPrefix(backend, "cli")
	cacheMB, _ := strconv.Atoi(args[1])
	ops := strings.Fields(args[2])
	dir, _ := os.MkdirTemp("", "srvreal")
	defer os.RemoveAll(dir)
	var origin *realOrigin
	bucketURL := "file://" + dir
	if backend == "http" {
		ln, err := net.Listen("tcp", "127.0.0.1:0")
		if err != nil {
			fmt.Println("listen-failed")
			return
		}
		origin = &realOrigin{files: map[string][]byte{}, tags: map[string]string{}, addr: ln.Addr().String()}
		ln.Close()
		origin.up()
		bucketURL = "http://" + origin.addr
	}
	var get func(path string) (int, []byte)
	if viaCLI {
		bin := os.Getenv("VERIF_CLI")
		if bin == "" {
			fmt.Println("no-cli-binary")
			return
		}
		pl, err := net.Listen("tcp", "127.0.0.1:0")
		if err != nil {
			fmt.Println("listen-failed")
			return
		}
		port := pl.Addr().(*net.TCPAddr).Port
		pl.Close()
		cargs := []string{"serve", dir}
		if backend == "http" {
			cargs = []string{"serve", ".", "--bucket=" + bucketURL}
		}
		cargs = append(cargs, "--interface=127.0.0.1", fmt.Sprintf("--port=%d", port), fmt.Sprintf("--cache-size=%d", cacheMB), "--public-url=http://public")
		cmd := exec.Command(bin, cargs...)
		var cerr bytes.Buffer
		cmd.Stderr = &cerr
		if err := cmd.Start(); err != nil {
			fmt.Println("listen-failed")
			return
		}
		exited := make(chan struct{})
		go func() { cmd.Wait(); close(exited) }()
		defer func() {
			cmd.Process.Kill()
			<-exited
		}()
		base := fmt.Sprintf("http://127.0.0.1:%d", port)
		ready := false
		for i := 0; i < 200 && !ready; i++ {
			if c, err := net.DialTimeout("tcp", fmt.Sprintf("127.0.0.1:%d", port), 100*time.Millisecond); err == nil {
				c.Close()
				ready = true
				break
			}
			select {
			case <-exited:
				i = 200
			case <-time.After(25 * time.Millisecond):
			}
		}
		if !ready {
			fmt.Println("listen-failed") // the port was taken in between, or the binary could not start: nothing observed
			return
		}
		// no transparent decompression: the body is compared as the server sent it, whatever Content-Encoding says
		client := &http.Client{Timeout: 8 * time.Second, Transport: &http.Transport{DisableCompression: true}}
		get = func(path string) (int, []byte) {
			select {
			case <-exited:
				// the server process died: a crash is an observation
				fmt.Fprintln(os.Stderr, cerr.String())
				fmt.Fprintln(os.Stderr, "fatal error: the pmtiles serve process exited")
				os.Exit(2)
			default:
			}
			resp, err := client.Get(base + path)
			if err != nil {
				select {
				case <-exited:
					fmt.Fprintln(os.Stderr, cerr.String())
					fmt.Fprintln(os.Stderr, "fatal error: the pmtiles serve process exited")
					os.Exit(2)
				default:
				}
				return -2, nil
			}
			defer resp.Body.Close()
			b, _ := io.ReadAll(resp.Body)
			return resp.StatusCode, b
		}
	} else {
		srv, err := pmtiles.NewServer(bucketURL, "", discardLogger, cacheMB, "http://public")
		if err != nil {
			fmt.Println("newserver-failed")
			return
		}
		srv.Start()
		pmtiles.VerifStartLog() // event-loop bookkeeping of this process: the reported cache size after every event
		get = func(path string) (int, []byte) {
			st, _, body := srv.Get(context.Background(), path)
			return st, body
		}
	}
	var out []string
	nput := 0
	stuck := 0
	for _, op := range ops {
		p := strings.Split(op, ":")
		switch p[0] {
		case "P":
			ver, _ := strconv.Atoi(p[2])
			mod := ""
			if len(p) > 3 {
				mod = p[3]
			}
			b := applyMod(scriptArchive(p[1], ver, mod == "big"), mod)
			nput++
			if origin != nil {
				origin.mu.Lock()
				if b == nil {
					delete(origin.files, p[1]+".pmtiles")
				} else {
					origin.files[p[1]+".pmtiles"] = b
					origin.tags[p[1]+".pmtiles"] = fmt.Sprintf(`"v%d-%d"`, ver, nput)
				}
				origin.mu.Unlock()
			} else {
				path := filepath.Join(dir, p[1]+".pmtiles")
				if b == nil {
					os.Remove(path)
				} else if nput%2 == 0 {
					os.WriteFile(path, b, 0o644) // rewrite in place
				} else {
					tmp := path + ".new"
					os.WriteFile(tmp, b, 0o644)
					os.Rename(tmp, path) // replace by rename
				}
				if b != nil {
					// deterministic modification times: all versions within one wall-clock second, a millisecond apart
					mt := time.Unix(1700000000, int64(nput)*1000000)
					if backend == "filesec" {
						// whole-second modification times (what rsync, tar or touch produce): only the seconds differ
						mt = time.Unix(1700000000+int64(nput), 0)
					}
					os.Chtimes(path, mt, mt)
				}
			}
		case "K":
			if origin != nil {
				switch p[1] {
				case "down":
					origin.down()
				case "up":
					if !origin.up() {
						// the script cannot be carried out on this machine right now: inconclusive, not a verdict
						fmt.Println("origin-restart-failed")
						return
					}
				case "reset":
					origin.mu.Lock()
					origin.reset = true
					origin.mu.Unlock()
				case "busy", "calm":
					origin.mu.Lock()
					origin.busy = p[1] == "busy"
					origin.mu.Unlock()
				}
			}
		case "S":
			path := strings.Join(p[1:], ":")
			if stuck >= 2 {
				// two requests already never completed: the rest of the script is not waited for
				out = append(out, fmt.Sprintf("r%d=-2:-", len(out)))
				continue
			}
			done := make(chan string, 1)
			go func() {
				st, body := get(path)
				if st == -2 {
					return // counted as never completed by the timeout below
				}
				done <- fmt.Sprintf("%d:%s", st, hexs(body))
			}()
			select {
			case r := <-done:
				out = append(out, fmt.Sprintf("r%d=%s", len(out), r))
			case <-time.After(8 * time.Second):
				stuck++
				out = append(out, fmt.Sprintf("r%d=-2:-", len(out)))
			}
		}
	}
	if !viaCLI {
		max := 0
		for _, ev := range pmtiles.VerifTakeLog() {
			if (ev.Kind == "req" || ev.Kind == "resp") && ev.Total > max {
				max = ev.Total
			}
		}
		if origin != nil {
			// connections the server still holds to the origin once everything is answered (idle ones of the
			// connection pool included): bounded by the pool, whatever the number of failures before
			n := origin.openConns()
			for wait := 0; wait < 40 && n > 4; wait++ { // closing is asynchronous: give it up to two seconds
				time.Sleep(50 * time.Millisecond)
				n = origin.openConns()
			}
			out = append(out, fmt.Sprintf("conns=%d", n))
		}
		out = append(out, fmt.Sprintf("maxcache=%d", max))
	}
	fmt.Println(strings.Join(out, " "))
}

// splitMaxCache removes the trailing `maxcache=<n>` token of an in-process srvreal result (-1: none)
func splitMaxCache(goOut string) (string, int) {
	if i := strings.LastIndex(goOut, "maxcache="); i >= 0 {
		n, err := strconv.Atoi(strings.TrimSpace(goOut[i+len("maxcache="):]))
		if err == nil {
			return strings.TrimSpace(goOut[:i]), n
		}
	}
	return goOut, -1
}

func runSrvReal(backend string, cacheMB int, ops []string) string {
	if atomic.LoadInt32(&srvChildHangs) >= 6 {
		n := 0
		for _, op := range ops {
			if strings.HasPrefix(op, "S:") {
				n++
			}
		}
		var out []string
		for i := 0; i < n; i++ {
			out = append(out, fmt.Sprintf("r%d=-2:-", i))
		}
		return strings.Join(out, " ") // not run: six earlier scripts of this run had requests that never completed
	}
	cmd := exec.Command(os.Args[0], "srvrealchild", backend, strconv.Itoa(cacheMB), strings.Join(ops, " "))
	var out, errb bytes.Buffer
	cmd.Stdout, cmd.Stderr = &out, &errb
	done := make(chan error, 1)
	cmd.Start()
	go func() { done <- cmd.Wait() }()
	select {
	case err := <-done:
		if err != nil {
			first := ""
			for _, l := range strings.Split(errb.String(), "\n") {
				if strings.HasPrefix(l, "panic:") || strings.HasPrefix(l, "fatal error:") {
					first = l
					break
				}
			}
			if first == "" {
				first = trunc(strings.TrimSpace(errb.String()), 200)
			}
			return "crash: " + strings.ReplaceAll(first, " ", "_")
		}
		res := strings.TrimSpace(out.String())
		if strings.Contains(res, "=-2:") {
			atomic.AddInt32(&srvChildHangs, 1)
		}
		return res
	case <-time.After(60 * time.Second):
		cmd.Process.Kill()
		return "hang: process did not finish"
	}
}

// judgeReal: sequential histories — request i runs entirely at its own op index
// splitConns removes the `conns=<n>` token (-1: none)
func splitConns(goOut string) (string, int) {
	f := strings.Fields(goOut)
	for i, t := range f {
		if strings.HasPrefix(t, "conns=") {
			n, _ := strconv.Atoi(t[6:])
			return strings.Join(append(f[:i:i], f[i+1:]...), " "), n
		}
	}
	return goOut, -1
}

func judgeReal(ops []string, goOut string, faultsAllowed bool) string {
	goOut, _ = splitMaxCache(goOut)
	goOut, nconns := splitConns(goOut)
	if nconns > 8 {
		// net/http keeps at most a few idle connections per host; more means responses were never closed
		return fmt.Sprintf("%d connections to the origin are still open after the last answer (responses not closed: the process runs out of descriptors)", nconns)
	}
	if strings.HasPrefix(goOut, "crash:") {
		return "the server process crashed: " + goOut
	}
	if strings.HasPrefix(goOut, "hang:") {
		return "the script did not finish: " + goOut
	}
	if goOut == "no-cli-binary" {
		return "the command-line binary was not built"
	}
	if goOut == "origin-restart-failed" || goOut == "listen-failed" {
		return "" // the loopback origin could not (re)bind its port: nothing was observed
	}
	var res scriptResult
	res.hist = map[string][]*gversion{}
	cur := map[string]*gversion{}
	down, resetNext := false, false
	var reqDown []bool
	for i, op := range ops {
		p := strings.Split(op, ":")
		switch p[0] {
		case "P":
			ver, _ := strconv.Atoi(p[2])
			mod := ""
			if len(p) > 3 {
				mod = p[3]
			}
			b := applyMod(scriptArchive(p[1], ver, mod == "big"), mod)
			if mod == "cuttiles" || mod == "cutmeta" {
				// the file lost its tail: what it still answers with 200 (metadata, TileJSON, cached tiles) must be
				// what the complete version answers; everything else may fail (faults are allowed in these scripts)
				b = scriptArchive(p[1], ver, false)
			}
			key := p[1] + ".pmtiles"
			if old := cur[key]; old != nil {
				old.died = i
			}
			if b == nil {
				delete(cur, key)
				continue
			}
			v := &gversion{bytes: b, born: i, died: -1}
			cur[key] = v
			res.hist[key] = append(res.hist[key], v)
		case "K":
			switch p[1] {
			case "down":
				down = true
			case "up":
				down = false
			case "reset":
				resetNext = true
			case "busy":
				down = true
			case "calm":
				down = false
			}
		case "S":
			res.reqs = append(res.reqs, &reqRec{id: len(res.reqs), path: strings.Join(p[1:], ":"), start: i, end: i, noHdr: true})
			reqDown = append(reqDown, down || resetNext)
			resetNext = false
		}
	}
	toks := strings.Fields(goOut)
	if len(toks) != len(res.reqs) {
		return "unreadable result: " + trunc(goOut, 100)
	}
	for i, tok := range toks {
		eq := strings.Index(tok, "=")
		col := strings.Index(tok, ":")
		if eq < 0 || col < 0 {
			return "unreadable result: " + trunc(goOut, 100)
		}
		st, _ := strconv.Atoi(tok[eq+1 : col])
		body, _ := unhex(tok[col+1:])
		res.reqs[i].status, res.reqs[i].body, res.reqs[i].done = st, body, true
		if st == -2 {
			res.hangs++
		}
	}
	if res.hangs > 0 {
		return fmt.Sprintf("%d request(s) never completed", res.hangs)
	}
	// while the origin is unreachable a request may fail (and must not lie); otherwise the version oracle applies
	var live scriptResult
	live.hist = res.hist
	for i, rq := range res.reqs {
		if faultsAllowed && rq.status >= 400 && rq.status <= 599 {
			continue // C10: while objects are missing or malformed any 4xx/5xx is a contained failure
		}
		if reqDown[i] {
			if rq.status == 200 || rq.status == 204 {
				// may legitimately be answered from cache: then it must still be a single stored version's answer
				live.reqs = append(live.reqs, rq)
			}
			continue
		}
		live.reqs = append(live.reqs, rq)
	}
	return judgeVersions(live, faultsAllowed)
}
