package props

import (
	"os/signal"
	"syscall"
)

func signalIgnoreXFSZ() { signal.Ignore(syscall.SIGXFSZ) }
