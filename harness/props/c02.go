package props

import (
	"bytes"
	"encoding/hex"
	"fmt"
	"os"
	"regexp"
	"strconv"
	"strings"

	"github.com/protomaps/go-pmtiles/pmtiles"
	"verifharness/core"
)

// C02 — header codec.
type C02 struct{}

func (C02) ID() string { return "C02" }
func (C02) Rule() string {
	return "lines `hser <25 fields>` (every field drawn from {0,1,max,max-1,single bits,small,random}, negative/extreme E7, all enum bytes), `hdes <127-byte hex>` (valid headers, single byte/bit mutations, wrong magic prefixes, all version bytes, all clustered bytes, random strings), `hseq A | B` (two serializations in sequence, results must be those of fresh calls); non-trivial = at least 3 non-zero fields (hser/hseq) or a well-formed magic (hdes); distinct by hash of the line"
}

func hdrFields(h pmtiles.HeaderV3) string {
	c := 0
	if h.Clustered {
		c = 1
	}
	return fmt.Sprintf("%d %d %d %d %d %d %d %d %d %d %d %d %d %d %d %d %d %d %d %d %d %d %d %d %d",
		h.SpecVersion, h.RootOffset, h.RootLength, h.MetadataOffset, h.MetadataLength, h.LeafDirectoryOffset,
		h.LeafDirectoryLength, h.TileDataOffset, h.TileDataLength, h.AddressedTilesCount, h.TileEntriesCount,
		h.TileContentsCount, c, h.InternalCompression, h.TileCompression, h.TileType, h.MinZoom, h.MaxZoom,
		h.MinLonE7, h.MinLatE7, h.MaxLonE7, h.MaxLatE7, h.CenterZoom, h.CenterLonE7, h.CenterLatE7)
}

func parseHdrFields(t []string) (pmtiles.HeaderV3, bool) {
	var h pmtiles.HeaderV3
	if len(t) != 25 {
		return h, false
	}
	u := func(i int) uint64 { v, _ := strconv.ParseUint(t[i], 10, 64); return v }
	s := func(i int) int32 { v, _ := strconv.ParseInt(t[i], 10, 32); return int32(v) }
	h.SpecVersion = uint8(u(0))
	h.RootOffset, h.RootLength, h.MetadataOffset, h.MetadataLength = u(1), u(2), u(3), u(4)
	h.LeafDirectoryOffset, h.LeafDirectoryLength, h.TileDataOffset, h.TileDataLength = u(5), u(6), u(7), u(8)
	h.AddressedTilesCount, h.TileEntriesCount, h.TileContentsCount = u(9), u(10), u(11)
	h.Clustered = u(12) == 1
	h.InternalCompression = pmtiles.Compression(u(13))
	h.TileCompression = pmtiles.Compression(u(14))
	h.TileType = pmtiles.TileType(u(15))
	h.MinZoom, h.MaxZoom = uint8(u(16)), uint8(u(17))
	h.MinLonE7, h.MinLatE7, h.MaxLonE7, h.MaxLatE7 = s(18), s(19), s(20), s(21)
	h.CenterZoom = uint8(u(22))
	h.CenterLonE7, h.CenterLatE7 = s(23), s(24)
	return h, true
}

func randHeader(r *core.Rng) pmtiles.HeaderV3 {
	var h pmtiles.HeaderV3
	e7 := func() int32 {
		switch r.Intn(8) {
		case 0:
			return 0
		case 1:
			return -1
		case 2:
			return -2147483648
		case 3:
			return 2147483647
		case 4:
			return -1800000000
		case 5:
			return int32(r.Intn(2000)) - 1000
		default:
			return int32(uint32(r.U64()))
		}
	}
	if r.Chance(1, 6) {
		return h // all zero
	}
	h.SpecVersion = uint8(r.Interesting(8))
	h.RootOffset, h.RootLength = r.Interesting(64), r.Interesting(64)
	h.MetadataOffset, h.MetadataLength = r.Interesting(64), r.Interesting(64)
	h.LeafDirectoryOffset, h.LeafDirectoryLength = r.Interesting(64), r.Interesting(64)
	h.TileDataOffset, h.TileDataLength = r.Interesting(64), r.Interesting(64)
	h.AddressedTilesCount, h.TileEntriesCount, h.TileContentsCount = r.Interesting(64), r.Interesting(64), r.Interesting(64)
	h.Clustered = r.Bool()
	h.InternalCompression = pmtiles.Compression(r.Interesting(8))
	h.TileCompression = pmtiles.Compression(r.Interesting(8))
	h.TileType = pmtiles.TileType(r.Interesting(8))
	h.MinZoom, h.MaxZoom, h.CenterZoom = uint8(r.Interesting(8)), uint8(r.Interesting(8)), uint8(r.Interesting(8))
	h.MinLonE7, h.MinLatE7, h.MaxLonE7, h.MaxLatE7 = e7(), e7(), e7(), e7()
	h.CenterLonE7, h.CenterLatE7 = e7(), e7()
	return h
}

func (C02) Gen(r *core.Rng, tier string, emit func(string)) {
	n := 30000
	if tier == "thorough" {
		n = 1500000
	}
	// all 256 values of each single-byte field
	for v := 0; v < 256; v++ {
		var h pmtiles.HeaderV3
		h.InternalCompression, h.TileCompression, h.TileType = pmtiles.Compression(v), pmtiles.Compression(255-v), pmtiles.TileType(v)
		h.MinZoom, h.MaxZoom, h.CenterZoom = uint8(v), uint8(255-v), uint8(v^0x55)
		h.Clustered = v%2 == 1
		emit("hser " + hdrFields(h))
	}
	for i := 0; i < n; i++ {
		emit("hser " + hdrFields(randHeader(r)))
	}
	// a consumer of the decoded header: what `pmtiles show` (the real binary) lists for an archive with this header
	nShow := 12
	if tier == "thorough" {
		nShow = 150
	}
	for i := 0; i < nShow; i++ {
		h := randHeader(r)
		if i%3 == 0 {
			// counts that differ from each other (entries sharing contents, runs)
			h.AddressedTilesCount, h.TileEntriesCount, h.TileContentsCount = 1000+r.U64()%100000, 100+r.U64()%900, 1+r.U64()%99
		}
		emit("clishow " + hdrFields(h))
	}
	for i := 0; i < n/10; i++ {
		emit("hseq " + hdrFields(randHeader(r)) + " | " + hdrFields(randHeader(r)))
	}
	// byte strings
	for i := 0; i < n; i++ {
		var b []byte
		switch r.Intn(8) {
		case 0: // random
			b = r.Bytes(127)
		case 1: // random with good magic
			b = r.Bytes(127)
			copy(b, "PMTiles")
		case 2: // wrong magic prefix
			b = pmtiles.SerializeHeader(randHeader(r))
			b[r.Intn(7)] ^= byte(1 << uint(r.Intn(8)))
		case 3: // every version byte
			b = pmtiles.SerializeHeader(randHeader(r))
			b[7] = byte(r.Intn(256))
		case 4: // every clustered byte
			b = pmtiles.SerializeHeader(randHeader(r))
			b[96] = byte(r.Intn(256))
		case 5: // one bit mutated anywhere
			b = pmtiles.SerializeHeader(randHeader(r))
			b[r.Intn(127)] ^= byte(1 << uint(r.Intn(8)))
		default: // valid
			b = pmtiles.SerializeHeader(randHeader(r))
		}
		emit("hdes " + hex.EncodeToString(b))
	}
}

var reShowLine = regexp.MustCompile(`(?m)^(pmtiles spec version|tile type|min zoom|max zoom|center zoom|addressed tiles count|tile entries count|tile contents count|clustered|internal compression|tile compression): (.*)$`)

// runCLIShow writes a small archive carrying the given header's descriptive fields and counts and returns the
// listing of `pmtiles show <file>` in a canonical one-line form
func runCLIShow(hw pmtiles.HeaderV3) string {
	ic := pmtiles.Compression(pmtiles.Gzip)
	if hw.InternalCompression == pmtiles.NoCompression {
		ic = pmtiles.NoCompression
	}
	es := []pmtiles.EntryV3{{TileID: 0, Offset: 0, Length: 3, RunLength: 1}}
	ab, h := archiveFromParsed(ic, []byte("abc"), []parsedDir{{entries: es}}, baseHeader(), []byte(`{"name":"x"}`))
	h.AddressedTilesCount, h.TileEntriesCount, h.TileContentsCount = hw.AddressedTilesCount, hw.TileEntriesCount, hw.TileContentsCount
	h.Clustered, h.TileCompression, h.TileType = hw.Clustered, hw.TileCompression, hw.TileType
	h.MinZoom, h.MaxZoom, h.CenterZoom = hw.MinZoom, hw.MaxZoom, hw.CenterZoom
	h.MinLonE7, h.MinLatE7, h.MaxLonE7, h.MaxLatE7, h.CenterLonE7, h.CenterLatE7 = hw.MinLonE7, hw.MinLatE7, hw.MaxLonE7, hw.MaxLatE7, hw.CenterLonE7, hw.CenterLatE7
	copy(ab, pmtiles.SerializeHeader(h))
	path := scratchFile(".pmtiles")
	os.WriteFile(path, ab, 0o644)
	defer os.Remove(path)
	out, err := cliRun("show", path)
	if err == errNoCLI {
		return "no-cli-binary"
	}
	if err != nil {
		return "show-failed " + strings.ReplaceAll(trunc(err.Error(), 80), " ", "_")
	}
	got := map[string]string{}
	for _, m := range reShowLine.FindAllStringSubmatch(string(out), -1) {
		got[m[1]] = m[2]
	}
	var sb []string
	for _, k := range []string{"pmtiles spec version", "tile type", "min zoom", "max zoom", "center zoom", "addressed tiles count", "tile entries count", "tile contents count", "clustered", "internal compression", "tile compression"} {
		v, ok := got[k]
		if !ok {
			v = "<missing>"
		}
		sb = append(sb, strings.ReplaceAll(k, " ", "_")+"="+v)
	}
	return strings.Join(sb, " ")
}

func (C02) RunGo(line string) string {
	if strings.HasPrefix(line, "clishow ") {
		h, ok := parseHdrFields(strings.Fields(line)[1:])
		if !ok {
			return "bad-case"
		}
		return runCLIShow(h)
	}
	t := strings.Fields(line)
	switch t[0] {
	case "hser":
		h, ok := parseHdrFields(t[1:])
		if !ok {
			return "bad-case"
		}
		return hex.EncodeToString(pmtiles.SerializeHeader(h))
	case "hseq":
		bar := -1
		for i, x := range t {
			if x == "|" {
				bar = i
			}
		}
		if bar < 0 {
			return "bad-case"
		}
		ha, ok1 := parseHdrFields(t[1:bar])
		hb, ok2 := parseHdrFields(t[bar+1:])
		if !ok1 || !ok2 {
			return "bad-case"
		}
		a := pmtiles.SerializeHeader(ha)
		b := pmtiles.SerializeHeader(hb)
		// a is read only now, after the second call
		return hex.EncodeToString(a) + " " + hex.EncodeToString(b)
	case "hdes":
		d, err := hex.DecodeString(t[1])
		if err != nil {
			return "bad-case"
		}
		h, err := pmtiles.DeserializeHeader(d)
		if err != nil {
			// a rejected input yields NO header: callers that drop the error (Extract does) rely on the zero value
			leak := ""
			if h != (pmtiles.HeaderV3{}) {
				leak = " with-decoded-header"
			}
			// the class is read off the input, not off the wording of the message: wrong magic number, else a
			// version byte above 3, else something a 127-byte v3 header should not be rejected for
			if len(d) >= 7 && string(d[:7]) != "PMTiles" {
				return "err badmagic" + leak
			}
			if len(d) >= 8 && d[7] > 3 {
				return "err badversion" + leak
			}
			return "err other" + leak
		}
		return "ok " + hdrFields(h)
	}
	return "bad-case"
}

func (C02) NonTrivial(line string) bool {
	t := strings.Fields(line)
	if t[0] == "hdes" {
		return strings.HasPrefix(t[1], "504d54696c6573")
	}
	nz := 0
	for _, x := range t[1:] {
		if x != "0" && x != "|" {
			nz++
		}
	}
	return nz >= 3
}

func (C02) Branch(line, goOut string) string {
	t := strings.Fields(line)
	if t[0] == "hdes" {
		return "hdes " + strings.SplitN(goOut, " ", 3)[0] + " " + strings.SplitN(goOut+" ", " ", 3)[1][:min(10, len(strings.SplitN(goOut+" ", " ", 3)[1]))]
	}
	return t[0]
}

// independent reader of the v3 header, written from the specification table (not from the Go code)
type specField struct {
	off, w int
	signed bool
}

var specHeaderV3 = []specField{
	{8, 8, false}, {16, 8, false}, {24, 8, false}, {32, 8, false}, {40, 8, false}, {48, 8, false},
	{56, 8, false}, {64, 8, false}, {72, 8, false}, {80, 8, false}, {88, 8, false},
	{96, 1, false}, {97, 1, false}, {98, 1, false}, {99, 1, false}, {100, 1, false}, {101, 1, false},
	{102, 4, true}, {106, 4, true}, {110, 4, true}, {114, 4, true}, {118, 1, false}, {119, 4, true}, {123, 4, true},
}

func specReadHeader(b []byte) (string, bool) {
	if len(b) != 127 || string(b[0:7]) != "PMTiles" {
		return "", false
	}
	out := []string{strconv.Itoa(int(b[7]))}
	for _, f := range specHeaderV3 {
		var v uint64
		for i := f.w - 1; i >= 0; i-- {
			v = v<<8 | uint64(b[f.off+i])
		}
		if f.signed {
			out = append(out, strconv.FormatInt(int64(int32(uint32(v))), 10))
		} else {
			out = append(out, strconv.FormatUint(v, 10))
		}
	}
	return strings.Join(out, " "), true
}

func (C02) Oracle(line, goOut string) string {
	t := strings.Fields(line)
	checkSer := func(fields []string, outHex string) string {
		b, err := hex.DecodeString(outHex)
		if err != nil || len(b) != 127 {
			return fmt.Sprintf("SerializeHeader produced %d bytes, want 127", len(b))
		}
		got, ok := specReadHeader(b)
		if !ok {
			return "SerializeHeader output does not start with the magic number"
		}
		want := append([]string{"3"}, fields[1:]...)
		if got != strings.Join(want, " ") {
			return "independent spec reader decodes SerializeHeader's bytes to [" + got + "], header was [" + strings.Join(want, " ") + "]"
		}
		h2, err := pmtiles.DeserializeHeader(b)
		if err != nil {
			return "DeserializeHeader rejects SerializeHeader's output: " + err.Error()
		}
		if hdrFields(h2) != strings.Join(want, " ") {
			return "round trip changed the header: [" + hdrFields(h2) + "]"
		}
		return ""
	}
	if t[0] == "hdes" && strings.HasSuffix(goOut, "with-decoded-header") {
		return "DeserializeHeader rejected the input but returned a decoded header with the error (callers that drop the error take it for a header): " + goOut
	}
	switch t[0] {
	case "clishow":
		if h, ok := parseHdrFields(t[1:]); ok {
			for _, w := range []string{fmt.Sprintf("addressed_tiles_count=%d", h.AddressedTilesCount), fmt.Sprintf("tile_entries_count=%d", h.TileEntriesCount),
				fmt.Sprintf("tile_contents_count=%d", h.TileContentsCount), fmt.Sprintf("min_zoom=%d", h.MinZoom), fmt.Sprintf("max_zoom=%d", h.MaxZoom), fmt.Sprintf("center_zoom=%d", h.CenterZoom)} {
				if !strings.Contains(" "+goOut+" ", " "+w+" ") {
					return "`pmtiles show` does not list " + w + " for an archive whose header says so: " + goOut
				}
			}
		}
		return ""
	case "hser":
		if strings.HasPrefix(goOut, "panic") {
			return "SerializeHeader panicked: " + goOut
		}
		return checkSer(t[1:], goOut)
	case "hseq":
		bar := 0
		for i, x := range t {
			if x == "|" {
				bar = i
			}
		}
		outs := strings.Fields(goOut)
		if len(outs) != 2 {
			return "sequence failed: " + goOut
		}
		if m := checkSer(t[1:bar], outs[0]); m != "" {
			return "bytes returned by the first SerializeHeader call are wrong after a second call: " + m
		}
		if m := checkSer(t[bar+1:], outs[1]); m != "" {
			return "second SerializeHeader call in one process: " + m
		}
	case "hdes":
		d, _ := hex.DecodeString(t[1])
		if len(d) != 127 {
			return ""
		}
		magicOK := string(d[0:7]) == "PMTiles"
		if (!magicOK || d[7] > 3) && !strings.HasPrefix(goOut, "err") {
			return "input with wrong magic or spec version > 3 was decoded instead of rejected: " + goOut
		}
		if magicOK && d[7] == 3 {
			if strings.HasPrefix(goOut, "err") || strings.HasPrefix(goOut, "panic") {
				return "valid v3 header rejected: " + goOut
			}
			want, _ := specReadHeader(d)
			wf := strings.Fields(want)
			if wf[12] != "0" && wf[12] != "1" { // clustered decodes to bool
				if wf[12] == "1" {
					wf[12] = "1"
				} else {
					wf[12] = "0"
				}
			}
			if "ok "+strings.Join(wf, " ") != goOut {
				return "DeserializeHeader disagrees with the independent spec reader: got [" + goOut + "] want [ok " + strings.Join(wf, " ") + "]"
			}
			if d[96] <= 1 {
				h, _ := pmtiles.DeserializeHeader(d)
				if !bytes.Equal(pmtiles.SerializeHeader(h), d) {
					return "deserialize→serialize does not reproduce the input bytes"
				}
			}
		}
	}
	return ""
}
