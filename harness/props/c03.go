package props

import (
	"encoding/hex"
	"strings"

	"github.com/protomaps/go-pmtiles/pmtiles"
	"verifharness/core"
)

// C03 — directory codec.
type C03 struct{}

func (C03) ID() string { return "C03" }
func (C03) Rule() string {
	return "lines `dser none|gzip <entries>` (Go SerializeEntries, gzip output decompressed, vs model payload) and `ddes <payload hex> [# entries]` (Go checked decoder under both compressions vs model; payloads from an independent spec encoder with random per-entry shorthand flags, from Go's writer, truncated/bit-flipped/random payloads); directories: 0..400 entries (thorough: up to 60000), deltas around varint boundaries up to 2^60, offsets up to 2^62, lengths/run lengths up to 2^32-1, contiguous runs, jumps, shared offsets/back-references; non-trivial = at least 2 entries; distinct by hash of the line"
}

func (C03) Gen(r *core.Rng, tier string, emit func(string)) {
	n, maxN := 6000, 400
	if tier == "thorough" {
		n, maxN = 150000, 3000
	}
	g := dirGen{maxN: maxN, leafPtrs: true, bigDeltas: true}
	// fixed corpus: the back-reference shapes that distinguish "previous entry" from "high-water mark"
	corpus := [][]pmtiles.EntryV3{
		{{TileID: 1, Offset: 0, Length: 10, RunLength: 1}, {TileID: 2, Offset: 10, Length: 10, RunLength: 1}, {TileID: 3, Offset: 0, Length: 10, RunLength: 1}, {TileID: 4, Offset: 20, Length: 10, RunLength: 1}},
		{{TileID: 1, Offset: 0, Length: 10, RunLength: 1}, {TileID: 2, Offset: 10, Length: 10, RunLength: 1}, {TileID: 3, Offset: 0, Length: 10, RunLength: 1}, {TileID: 4, Offset: 10, Length: 10, RunLength: 1}},
		{{TileID: 0, Offset: 0, Length: 0, RunLength: 1}},
		{},
	}
	for _, es := range corpus {
		emit("dser none " + fmtEntries(es))
		emit("dser gzip " + fmtEntries(es))
		for _, fl := range []bool{true, false} {
			emit("ddes " + hexOrDash(specEncodeDir(es, func(int) bool { return fl })) + " # " + fmtEntries(es))
		}
	}
	// uncompressed directories whose first bytes look like a compressed stream's magic number: 31 entries and a
	// first tile ID ≡ 11 (mod 128), ≥ 128 serialise to 1f 8b … (gzip; 1035 gives 1f 8b 08), 40 entries starting
	// at 6069 with a second delta of 253 to 28 b5 2f fd (zstd) — content sniffing must not override the header
	for _, sh := range []struct {
		n      int
		first  uint64
		delta2 uint64
	}{{31, 139, 1}, {31, 1035, 1}, {31, 11 + 128*5, 7}, {40, 6069, 253}, {31, 139 + 128*128, 1}} {
		es := make([]pmtiles.EntryV3, sh.n)
		id := sh.first
		for i := range es {
			es[i] = pmtiles.EntryV3{TileID: id, Offset: uint64(i) * 7, Length: 7, RunLength: 1}
			if i == 0 {
				id += sh.delta2
			} else {
				id += 1 + uint64(r.Intn(3))
			}
		}
		emit("dser none " + fmtEntries(es))
		emit("dser gzip " + fmtEntries(es))
		emit("ddes " + hexOrDash(specEncodeDir(es, func(int) bool { return true })) + " # " + fmtEntries(es))
	}
	// highly regular directories (consecutive IDs, equal lengths, contiguous offsets): they compress
	// to far fewer bytes than they have entries — size-based sanity checks must not reject them
	for _, k := range []int{60, 61, 200, 1000, 4096, 9000} {
		for _, l := range []uint32{1, 100, 70000} {
			es := make([]pmtiles.EntryV3, k)
			base := r.U64() % 1000000
			for i := range es {
				es[i] = pmtiles.EntryV3{TileID: base + uint64(i), Offset: uint64(i) * uint64(l), Length: l, RunLength: 1}
			}
			emit("dser gzip " + fmtEntries(es))
			emit("dser none " + fmtEntries(es))
		}
	}
	for i := 0; i < n; i++ {
		es := randDir(r, g)
		if i%50 == 0 && tier == "thorough" {
			es = randDir(r, dirGen{maxN: 60000, leafPtrs: true, bigDeltas: false})
		}
		c := "none"
		if r.Bool() {
			c = "gzip"
		}
		emit("dser " + c + " " + fmtEntries(es))
		// spec-encoded with random spelling
		mode := r.Intn(3)
		fr := r.Fork()
		payload := specEncodeDir(es, func(int) bool {
			switch mode {
			case 0:
				return true
			case 1:
				return false
			}
			return fr.Bool()
		})
		emit("ddes " + hexOrDash(payload) + " # " + fmtEntries(es))
		// malformed stream
		switch r.Intn(6) {
		case 0:
			if len(payload) > 0 {
				emit("ddes " + hexOrDash(payload[:r.Intn(len(payload))]))
			}
		case 1:
			if len(payload) > 0 {
				p := append([]byte{}, payload...)
				p[r.Intn(len(p))] ^= byte(1 << uint(r.Intn(8)))
				emit("ddes " + hexOrDash(p))
			}
		case 2:
			emit("ddes " + hexOrDash(r.Bytes(r.Intn(40))))
		}
	}
}

func hexOrDash(b []byte) string {
	if len(b) == 0 {
		return "-"
	}
	return hex.EncodeToString(b)
}

func unhex(s string) ([]byte, bool) {
	if s == "-" {
		return []byte{}, true
	}
	b, err := hex.DecodeString(s)
	return b, err == nil
}

func stripComment(t []string) ([]string, []string) {
	for i, x := range t {
		if x == "#" {
			return t[:i], t[i+1:]
		}
	}
	return t, nil
}

func (C03) RunGo(line string) string {
	t, _ := stripComment(strings.Fields(line))
	switch t[0] {
	case "dser":
		es, _, ok := parseEntries(t[2:])
		if !ok {
			return "bad-case"
		}
		if t[1] == "none" {
			return hexOrDash(pmtiles.SerializeEntries(es, pmtiles.NoCompression))
		}
		out := pmtiles.SerializeEntries(es, pmtiles.Gzip)
		if len(out) < 2 || out[0] != 0x1f || out[1] != 0x8b {
			return "not-gzip"
		}
		p, err := gunzip(out)
		if err != nil {
			return "gunzip-failed"
		}
		return hexOrDash(p)
	case "ddes":
		b, ok := unhex(t[1])
		if !ok {
			return "bad-case"
		}
		dec := func(data []byte, c pmtiles.Compression) string {
			es, err := pmtiles.VerifDeserializeEntriesChecked(data, c)
			if err != nil {
				return "err"
			}
			return "ok " + fmtEntries(es)
		}
		a := dec(b, pmtiles.NoCompression)
		z := dec(gzipBytes(b), pmtiles.Gzip)
		if a != z {
			return "compressions-differ none=[" + a + "] gzip=[" + z + "]"
		}
		return a
	}
	return "bad-case"
}

func (C03) NonTrivial(line string) bool {
	t := strings.Fields(line)
	if t[0] == "dser" {
		return len(t) >= 5
	}
	return len(t[1]) >= 12
}

func (C03) Branch(line, goOut string) string {
	t := strings.Fields(line)
	if t[0] == "ddes" {
		if strings.HasPrefix(goOut, "ok") {
			return "ddes ok"
		}
		return "ddes " + strings.SplitN(goOut, " ", 2)[0]
	}
	n := 0
	if len(t) > 2 {
		for _, c := range t[2] {
			_ = c
			n++
		}
	}
	return "dser " + t[1] + " digits(n)=" + string(rune('0'+n))
}

func (C03) Oracle(line, goOut string) string {
	t, ann := stripComment(strings.Fields(line))
	switch t[0] {
	case "dser":
		es, _, _ := parseEntries(t[2:])
		c := pmtiles.NoCompression
		if t[1] == "gzip" {
			c = pmtiles.Gzip
		}
		payload, ok := unhex(goOut)
		if !ok {
			return "SerializeEntries output unusable: " + goOut
		}
		// independent decoder written from the spec reads it to the same entries
		got, ok := specDecodeDir(payload)
		if !ok || fmtEntries(got) != fmtEntries(es) {
			return "independent spec decoder reads SerializeEntries' output as [" + fmtEntries(got) + "], entries were [" + fmtEntries(es) + "]"
		}
		// Go round trip through the real (compressed) bytes
		back, err := pmtiles.VerifDeserializeEntriesChecked(pmtiles.SerializeEntries(es, pmtiles.Compression(c)), pmtiles.Compression(c))
		if err != nil || fmtEntries(back) != fmtEntries(es) {
			return "round trip changed the directory: [" + fmtEntries(back) + "]"
		}
	case "ddes":
		if ann != nil {
			// payload came from the independent spec encoder for these entries
			want := "ok " + strings.Join(ann, " ")
			if goOut != want {
				return "directory written by the independent spec encoder decodes to [" + goOut + "], encoded entries were [" + strings.Join(ann, " ") + "]"
			}
		}
		if strings.HasPrefix(goOut, "compressions-differ") || strings.HasPrefix(goOut, "panic") {
			return goOut
		}
	}
	return ""
}
