package props

import (
	"bytes"
	"errors"
	"fmt"
	"io"
	"os"
	"strconv"
	"strings"

	"github.com/protomaps/go-pmtiles/pmtiles"
	"verifharness/core"
)

// C17 — entry enumeration.
type C17 struct{}

func (C17) ID() string { return "C17" }
func (C17) Rule() string {
	return "lines `iter <failing directory index|-> <dirs>`: directory trees of depth 0..4, fan-out 1..50, mixed tile/pointer directories, both internal compressions (alternating), with a fetch failure injected at each directory position in turn (0 = root) and once without failure; Go's IterateEntries runs over the real serialized archive bytes with a harness fetch function; non-trivial = tree with at least one leaf level; distinct by hash of the line"
}

func (C17) Gen(r *core.Rng, tier string, emit func(string)) {
	n := 400
	if tier == "thorough" {
		n = 12000
	}
	for i := 0; i < n; i++ {
		cnt := []int{0, 1, 3, 10, 60, 400}[r.Intn(6)]
		ts := randTileSet(r, cnt, maxTileID, r.Bool(), 4)
		depth := r.Intn(5)
		leafSize := []int{1, 2, 3, 7, 50}[r.Intn(5)]
		if len(ts.entries) > 100 && leafSize < 3 {
			leafSize = 3 + r.Intn(20)
		}
		ic := pmtiles.Compression(pmtiles.NoCompression)
		if i%2 == 1 {
			ic = pmtiles.Gzip
		}
		root := buildTree(r, ts.entries, depth, leafSize, r.Chance(1, 2))
		ba := assembleArchive(root, ts, ic, baseHeader(), []byte("{}"))
		dl := ba.dirsLine()
		emit("iter - " + compName(ic) + " " + dl)
		if np := strings.Count(dl, ":0 ") + strings.Count(dl, ":0\n"); len(ba.dirs) > 1 && i%3 == 0 {
			_ = np
			// the callers of the enumeration (cluster, verify, makesync) on a file with an unfetchable leaf
			emit(fmt.Sprintf("callers %s %s", compName(ic), dl))
		}
		positions := len(ba.dirs)
		if positions > 12 {
			// all positions for small trees, sampled for large ones
			for k := 0; k < 12; k++ {
				emit(fmt.Sprintf("iter %d%s %s %s", r.Intn(positions), []string{"", "p", "e"}[r.Intn(3)], compName(ic), dl))
			}
			emit(fmt.Sprintf("iter %d %s %s", positions-1, compName(ic), dl))
		} else {
			for k := 0; k < positions; k++ {
				emit(fmt.Sprintf("iter %d%s %s %s", k, []string{"", "p", "e"}[r.Intn(3)], compName(ic), dl))
			}
		}
	}
}

// runCallers: the real users of the enumeration on a local file none of whose leaf directories can be fetched (the
// header places the leaf section beyond 2^63: no read of the file can succeed there).  Each must report the
// failure; cluster must leave the archive as it was.
func runCallers(t []string) string {
	ic := compOf(t[1])
	dirs, _, ok := parseDirsLine(t[2:])
	if !ok || len(dirs) < 2 {
		return "bad-case"
	}
	var dataLen uint64
	for d := range dirs {
		for _, en := range dirs[d].entries {
			if en.RunLength > 0 && en.Offset+uint64(en.Length) > dataLen {
				dataLen = en.Offset + uint64(en.Length)
			}
		}
	}
	ab, h := archiveFromParsed(ic, make([]byte, dataLen), dirs, baseHeader(), []byte("{}"))
	h.LeafDirectoryOffset = 1 << 63
	copy(ab, pmtiles.SerializeHeader(h))
	path := scratchFile(".pmtiles")
	defer os.Remove(path)
	os.WriteFile(path, ab, 0o644)
	res := "cluster="
	if err := pmtiles.Cluster(discardLogger, path, true); err != nil {
		res += "err"
	} else {
		res += "ok"
	}
	if after, _ := os.ReadFile(path); bytes.Equal(after, ab) {
		res += "-unchanged"
	} else {
		res += "-CHANGED"
	}
	os.WriteFile(path, ab, 0o644)
	if err := pmtiles.Verify(discardLogger, path); err != nil {
		res += " verify=err"
	} else {
		res += " verify=ok"
	}
	h.Clustered = true
	copy(ab, pmtiles.SerializeHeader(h))
	os.WriteFile(path, ab, 0o644)
	defer os.Remove(path + ".sync")
	ms := runMakesync(false, path, 1)
	if strings.HasPrefix(ms, "err:") {
		ms = "err" // which of its checks fires first (clustering of the root's own tile entries, or the unreadable leaf) is not the point
	}
	// a makesync that failed must not leave something behind that a later sync would take for a complete .sync file
	sf := "none"
	if b, err := os.ReadFile(path + ".sync"); err == nil && len(b) > 0 {
		sf = fmt.Sprintf("LEFT-BEHIND(%d_bytes,%d_lines)", len(b), bytes.Count(b, []byte("\n")))
	}
	return res + " makesync=" + ms + " syncfile=" + sf
}

func (C17) RunGo(line string) string {
	t := strings.Fields(line)
	if t[0] == "callers" {
		return runCallers(t)
	}
	if t[0] != "iter" {
		return "bad-case"
	}
	fail := -1
	partial := false // the failing fetch hands back the first bytes of the directory together with its error (a cut body read by io.ReadAll)
	eof := false     // the failing fetch fails with exactly io.EOF (a truncated file read through ReadAt / io.ReadFull)
	if t[1] != "-" {
		partial = strings.HasSuffix(t[1], "p")
		eof = strings.HasSuffix(t[1], "e")
		fail, _ = strconv.Atoi(strings.TrimRight(t[1], "pe"))
	}
	ic := compOf(t[2])
	dirs, _, ok := parseDirsLine(t[3:])
	if !ok || len(dirs) == 0 {
		return "bad-case"
	}
	ab, h := archiveFromParsed(ic, []byte{}, dirs, baseHeader(), []byte("{}"))
	var failOff, failLen uint64
	if fail == 0 {
		failOff, failLen = h.RootOffset, h.RootLength
	} else if fail > 0 && fail < len(dirs) {
		failOff, failLen = h.LeafDirectoryOffset+dirs[fail].off, dirs[fail].length
	}
	var visited []pmtiles.EntryV3
	err := pmtiles.IterateEntries(h, func(off, length uint64) ([]byte, error) {
		if fail >= 0 && off == failOff && length == failLen {
			if partial && off+length <= uint64(len(ab)) {
				return ab[off : off+length/2+1], errors.New("injected fetch failure after some bytes")
			}
			if eof {
				return ab[off : off+length/2], io.EOF
			}
			return nil, errors.New("injected fetch failure")
		}
		if off+length > uint64(len(ab)) {
			return nil, errors.New("out of range")
		}
		return ab[off : off+length], nil
	}, func(e pmtiles.EntryV3) { visited = append(visited, e) })
	if err != nil {
		return "err"
	}
	return "ok " + fmtEntries(visited)
}

func (C17) NonTrivial(line string) bool {
	t := strings.Fields(line)
	if t[0] == "callers" {
		return true
	}
	nd, _ := strconv.Atoi(t[3])
	return nd >= 2
}

func (C17) Branch(line, goOut string) string {
	t := strings.Fields(line)
	if t[0] == "callers" {
		return "callers " + t[1]
	}
	f := "fault"
	if t[1] == "-" {
		f = "nofault"
	} else if t[1] == "0" || t[1] == "0p" || t[1] == "0e" {
		f = "rootfault"
	}
	return f + " " + t[2] + " " + strings.SplitN(goOut, " ", 2)[0]
}

// Oracle: independent flatten; "error iff a fetch failed".
func (C17) Oracle(line, goOut string) string {
	t := strings.Fields(line)
	if t[0] == "callers" {
		if goOut != "cluster=err-unchanged verify=err makesync=err syncfile=none" {
			return "a leaf directory of the archive cannot be fetched, but a user of the enumeration did not report it (or cluster rewrote the archive): " + goOut
		}
		return ""
	}
	dirs, _, ok := parseDirsLine(t[3:])
	if !ok {
		return ""
	}
	byRange := map[[2]uint64][]pmtiles.EntryV3{}
	for _, d := range dirs[1:] {
		byRange[[2]uint64{d.off, d.length}] = d.entries
	}
	var flat []pmtiles.EntryV3
	var walk func(es []pmtiles.EntryV3)
	walk = func(es []pmtiles.EntryV3) {
		for _, e := range es {
			if e.RunLength > 0 {
				flat = append(flat, e)
			} else {
				walk(byRange[[2]uint64{e.Offset, uint64(e.Length)}])
			}
		}
	}
	walk(dirs[0].entries)
	if t[1] == "-" {
		if goOut != "ok "+fmtEntries(flat) {
			return "enumeration without fault is not the archive's entries in order: got [" + trunc(goOut, 200) + "] want [ok " + trunc(fmtEntries(flat), 200) + "]"
		}
		for i := 1; i < len(flat); i++ {
			if flat[i-1].TileID >= flat[i].TileID {
				return "harness tree not ascending (generator bug)"
			}
		}
	} else if goOut != "err" {
		return "a fetch failure at directory position " + t[1] + " was not reported: IterateEntries returned [" + trunc(goOut, 200) + "]"
	}
	return ""
}
