package props

import (
	"bytes"
	"fmt"
	"strconv"
	"strings"

	"github.com/protomaps/go-pmtiles/pmtiles"
	"verifharness/core"
)

var srvPaths = []string{"/a/0/0/0.mvt", "/a/1/0/0.mvt", "/a/1/1/1.mvt", "/a/2/0/0.mvt", "/a/2/1/1.mvt", "/a/2/3/3.mvt", "/a/1/0/1.mvt", "/a/metadata", "/a.json", "/a/5/0/0.mvt", "/a/2/2/2.mvt"}

// random gated script: requests, replacements and serve steps interleaved
func randScript(r *core.Rng, names []string, nReq, nRepl int, modes []string) []string {
	ops := []string{}
	for _, n := range names {
		ops = append(ops, fmt.Sprintf("P:%s:%d", n, 1+r.Intn(3)))
	}
	ver := 4
	for nReq > 0 || nRepl > 0 || r.Chance(3, 4) {
		switch r.Intn(5) {
		case 0:
			if nReq > 0 {
				p := srvPaths[r.Intn(len(srvPaths))]
				p = strings.Replace(p, "/a", "/"+names[r.Intn(len(names))], 1)
				ops = append(ops, "S:"+p)
				nReq--
			}
		case 1:
			if nRepl > 0 {
				ops = append(ops, fmt.Sprintf("P:%s:%d", names[r.Intn(len(names))], ver))
				ver++
				nRepl--
			}
		default:
			ops = append(ops, fmt.Sprintf("V:%d:%s", r.Intn(3), modes[r.Intn(len(modes))]))
		}
		if len(ops) > 60 {
			break
		}
	}
	ops = append(ops, "A")
	return ops
}

func traceLine(cacheMB int, ops []string) string {
	res := runScript(cacheMB, ops, true)
	return fmt.Sprintf("srvtrace %d E %s # %s", cacheMB*1000*1000, fmtEvents(res.log), strings.Join(ops, " "))
}

func traceSummary(line string) string {
	t := strings.Fields(line)
	_, rest := splitTok(t, "E")
	evs, _ := splitTok(rest, "#")
	if len(evs) == 0 {
		return "trace-ok n=0 final=0,0,0"
	}
	last := strings.Split(evs[len(evs)-1], "|")
	// skip trailing purge/evict-only tails: the final numbers of the last event are the loop's state
	return fmt.Sprintf("trace-ok n=%d final=%s,%s,%s", len(evs), last[5], last[6], last[7])
}

// ---------- C08 ----------

type C08 struct{}

func (C08) ID() string { return "C08" }
func (C08) Rule() string {
	return "lines `srvscript cacheMB <ops>`: lock-step scripts against the real Server over a gating bucket that parks every bucket call until the script serves it (every call = one linearisation point) and keeps every version it ever held with distinct tags: 1–4 concurrent requests (tile in root / in leaf / absent / zoom outside / metadata / TileJSON), 0–3 replacements (different layouts, leaf structures, sizes, metadata, internal compression) placed at random positions between the bucket calls, delivery order chosen by the script; each response is judged: does exactly one stored version answer it, was that version current during the request, did an untouched request fail; `srvtrace limit E <events>`: the hook log of the same scripts replayed through the bookkeeping model; non-trivial = script with a replacement between two bucket calls; distinct by hash of the line"
}

func (C08) Serial() bool { return true } // one global hook log

func (C08) Gen(r *core.Rng, tier string, emit func(string)) {
	if tier == "thorough" {
		emit = cliDupSrv(emit, 3, 80)
	} else {
		emit = cliDupSrv(emit, 3, 8)
	}
	n := 400
	if tier == "thorough" {
		n = 8000
	}
	// directed: replacement while a directory fetch is parked, header refreshed by another request, then a new request joins
	emit("srvscript 64 P:a:1 S:/a/1/0/0.mvt V:0:ok V:0:ok P:a:2 S:/a/metadata V:0:ok V:0:ok V:0:ok V:0:ok S:/a/1/0/0.mvt V:1:ok V:1:ok V:0:ok A")
	emit("srvscript 64 P:a:1 S:/a/1/0/0.mvt V:0:ok P:a:4 V:0:ok V:0:ok V:0:ok S:/a/1/0/0.mvt A")
	// layout twins (versions 2 and 8: same directory offsets and lengths, different entries): an old leaf-directory
	// answer is read before the replacement and delivered after it, while a new-version request asks for the same range
	emit("srvscript 64 P:a:2 S:/a/1/0/0.mvt V:0:ok V:0:ok V:0:okhold P:a:8 S:/a/metadata V:0:ok V:0:ok V:0:ok V:0:ok V:0:ok S:/a/1/0/0.mvt V:0:ok V:0:ok R:0 A")
	emit("srvscript 64 P:a:2 S:/a/2/1/1.mvt V:0:ok V:0:ok V:0:okhold P:a:8 S:/a.json V:0:ok V:0:ok V:0:ok V:0:ok V:0:ok S:/a/2/1/1.mvt V:0:ok R:0 A")
	// a second replacement lands inside the retry of a request that already met the first one: after j
	// bucket calls of the retried request (header, leaf directory, tile) the archive changes again
	for _, vs := range [][3]int{{1, 2, 3}, {2, 3, 4}, {3, 5, 7}, {2, 4, 9}} {
		for _, tile := range []string{"/a/1/0/0.mvt", "/a/2/3/3.mvt", "/a/0/0/0.mvt", "/a/metadata"} {
			for j := 1; j <= 5; j++ {
				ops := []string{fmt.Sprintf("P:a:%d", vs[0]), "S:" + tile, "A", fmt.Sprintf("P:a:%d", vs[1]), "S:" + tile}
				for k := 0; k < j; k++ {
					ops = append(ops, "V:0:ok")
				}
				ops = append(ops, fmt.Sprintf("P:a:%d", vs[2]), "A", "S:"+tile, "A")
				emit(fmt.Sprintf("srvscript 64 %s", strings.Join(ops, " ")))
			}
		}
	}
	// archives without a metadata section (zero length is legal with uncompressed internals): cached, then replaced
	for _, vs := range [][2]int{{2, 4}, {4, 3}, {6, 2}} {
		for _, q := range []string{"/a/metadata", "/a/1/0/0.mvt"} {
			ops := []string{fmt.Sprintf("P:a:%d:nometa", vs[0]), "S:" + q, "A", "S:/a/metadata", "A", fmt.Sprintf("P:a:%d", vs[1]), "S:/a/metadata", "A", "S:" + q, "A"}
			emit(fmt.Sprintf("srvscript 64 %s", strings.Join(ops, " ")))
			ops = []string{fmt.Sprintf("P:a:%d", vs[1]), "S:/a/metadata", "A", fmt.Sprintf("P:a:%d:nometa", vs[0]), "S:/a/metadata", "A", "S:" + q, "A"}
			emit(fmt.Sprintf("srvscript 1 %s", strings.Join(ops, " ")))
		}
	}
	// the real backends (local directory, HTTP origin) behind the real NewServer: sequential replacement histories
	nReal := 24
	if tier == "thorough" {
		nReal = 400
	}
	// versions of exactly the same size (metadata padded) but different layout, replaced within the same second
	for _, vs := range [][2]int{{2, 4}, {4, 2}, {2, 6}, {6, 4}, {8, 10}} {
		la, lb := len(scriptArchive("a", vs[0], false)), len(scriptArchive("a", vs[1], false))
		n := la
		if lb > n {
			n = lb
		}
		n += 3
		for _, be := range []string{"file", "filesec", "http"} {
			for _, cache := range []int{64, 1} {
				emit(fmt.Sprintf("srvreal %s %d P:a:%d:size%d S:/a/1/0/0.mvt S:/a/2/3/3.mvt S:/a/metadata P:a:%d:size%d S:/a/1/0/0.mvt S:/a/2/3/3.mvt S:/a/metadata S:/a/2/1/1.mvt", be, cache, vs[0], n, vs[1], n))
			}
		}
	}
	// long lives: one archive replaced dozens of times, a few requests of every kind between replacements (the
	// purge-and-retry after a replacement must find its way through whatever the earlier ones left behind)
	nLong := 4
	if tier == "thorough" {
		nLong = 60
	}
	longPaths := []string{"/a/1/0/0.mvt", "/a/metadata", "/a.json", "/a/2/1/1.mvt"}
	for i := 0; i < nLong; i++ {
		var ops []string
		for v := 1; v <= 25+r.Intn(25); v++ {
			ops = append(ops, fmt.Sprintf("P:a:%d", v))
			for k := r.Intn(4); k > 0; k-- {
				ops = append(ops, "S:"+longPaths[r.Intn(len(longPaths))])
			}
		}
		emit(fmt.Sprintf("srvreal %s %d %s", []string{"file", "http", "filesec", "file"}[i%4], []int{64, 1}[r.Intn(2)], strings.Join(ops, " ")))
	}
	for i := 0; i < nReal; i++ {
		ops := []string{fmt.Sprintf("P:a:%d", 1+r.Intn(9))}
		if r.Bool() {
			ops = append(ops, fmt.Sprintf("P:b:%d", 1+r.Intn(9)))
		}
		for k := 0; k < 3+r.Intn(8); k++ {
			switch r.Intn(4) {
			case 0:
				ops = append(ops, fmt.Sprintf("P:%s:%d", []string{"a", "a", "b"}[r.Intn(3)], 1+r.Intn(12)))
			default:
				p := srvPaths[r.Intn(len(srvPaths))]
				if r.Chance(1, 4) {
					p = strings.Replace(p, "/a", "/b", 1)
				}
				ops = append(ops, "S:"+p)
			}
		}
		emit(fmt.Sprintf("srvreal %s %d %s", []string{"file", "http"}[i%2], []int{64, 1, 0}[r.Intn(3)], strings.Join(ops, " ")))
	}
	for i := 0; i < n; i++ {
		ops := randScript(r, []string{"a"}, 1+r.Intn(4), r.Intn(4), []string{"ok", "ok", "ok", "okhold"})
		if i%3 == 0 {
			ops = twinScript(r)
		}
		cacheMB := []int{64, 64, 1}[r.Intn(3)]
		emit(fmt.Sprintf("srvscript %d %s", cacheMB, strings.Join(ops, " ")))
		if i%2 == 0 {
			emit(traceLine(cacheMB, ops))
		}
	}
}

func (C08) RunGo(line string) string {
	t := strings.Fields(line)
	if t[0] == "srvtrace" {
		return traceSummary(line)
	}
	if t[0] == "srvreal" {
		cacheMB, _ := strconv.Atoi(t[2])
		return runSrvReal(t[1], cacheMB, t[3:])
	}
	cacheMB, _ := strconv.Atoi(t[1])
	res := runScript(cacheMB, t[2:], true)
	return fmt.Sprintf("hangs=%d %s", res.hangs, fmtResps(res.reqs))
}

func (C08) Agree(line, goOut, modelOut string) bool {
	return strings.HasPrefix(line, "srvscript") || strings.HasPrefix(line, "srvreal") || goOut == modelOut
}

func (C08) NonTrivial(line string) bool {
	t := strings.Fields(line)
	if t[0] == "srvtrace" {
		return len(t) > 8
	}
	seenV := false
	for _, op := range t[2:] {
		if strings.HasPrefix(op, "V:") || (t[0] == "srvreal" && strings.HasPrefix(op, "S:")) {
			seenV = true
		}
		if strings.HasPrefix(op, "P:") && seenV {
			return true
		}
	}
	return false
}
func (C08) Branch(line, goOut string) string {
	t := strings.Fields(line)
	if t[0] == "srvreal" {
		return "srvreal " + t[1]
	}
	return t[0]
}

// judge one executed script against "every response is what ONE version answers"
func judgeVersions(res scriptResult, allowFaultFailures bool) string {
	if res.hangs > 0 {
		return fmt.Sprintf("%d request(s) never completed", res.hangs)
	}
	for _, rq := range res.reqs {
		name := pathName(rq.path)
		if name == "" || rq.cancelled {
			continue // a request whose client went away may end any way
		}
		if rq.status == -1 {
			return "request " + rq.path + " panicked: " + string(rq.body)
		}
		hist := res.hist[name+".pmtiles"]
		touched := false // a replacement of this archive took effect during the request
		for _, v := range hist {
			if v.born >= rq.start && v.born <= rq.end && v.born > 0 {
				touched = true
			}
			if v.died >= rq.start && v.died <= rq.end && v.died >= 0 {
				touched = true
			}
		}
		isFailure := rq.status >= 500 || rq.status == 499 || (rq.status == 404 && strings.Contains(string(rq.body), "Archive not found"))
		existed := false // some version of the archive was stored at some point of the request
		for _, v := range hist {
			if v.born <= rq.end && (v.died == -1 || v.died >= rq.start) {
				existed = true
			}
		}
		if isFailure && !existed && rq.status == 404 {
			continue // not uploaded yet (or deleted): "Archive not found" is the truthful answer
		}
		if isFailure {
			if !touched && !allowFaultFailures && len(hist) > 0 {
				return fmt.Sprintf("request %s (ops %d..%d) failed with %d although no replacement of the archive happened during it", rq.path, rq.start, rq.end, rq.status)
			}
			continue
		}
		matched, timely := false, false
		isTile, _, _, _, _, _ := pmtiles.VerifParseTilePath(rq.path)
		for _, v := range hist {
			st, body := answerOf(v.bytes, name, rq.path)
			if st == rq.status && (st != 200 || bytes.Equal(body, rq.body)) {
				if st == 200 && isTile && len(v.bytes) >= 127 && !rq.noHdr {
					// the content headers belong to the same version as the bytes
					if ce, ct := tileHeadersOf(v.bytes); ce != rq.ce || ct != rq.ct {
						continue
					}
				}
				matched = true
				alive := v.born <= rq.end && (v.died == -1 || v.died >= rq.start)
				if rq.status != 200 {
					alive = v.born <= rq.end
				}
				if alive {
					timely = true
				}
			}
		}
		if !matched {
			return fmt.Sprintf("response to %s (%d, %q) is not what any single stored version of the archive answers — versions mixed", rq.path, rq.status, trunc(string(rq.body), 60))
		}
		if !timely {
			return fmt.Sprintf("response to %s (ops %d..%d) comes from a version that was not current during the request", rq.path, rq.start, rq.end)
		}
	}
	return ""
}

func (C08) Oracle(line, goOut string) string {
	t := strings.Fields(line)
	if t[0] == "srvreal" {
		return judgeReal(t[3:], goOut, false)
	}
	if t[0] != "srvscript" {
		return ""
	}
	cacheMB, _ := strconv.Atoi(t[1])
	res := runScript(cacheMB, t[2:], true)
	return judgeVersions(res, false)
}

// ---------- C09 ----------

type C09 struct{}

func (C09) ID() string { return "C09" }
func (C09) Rule() string {
	return "lines `srvtrace limit E <events>` (hook log of the real event loop — totalSize, len(cache), eviction-list length, in-flight keys, waiters after every loop event — replayed through the bookkeeping model, for gated scripts with 1–8 concurrent requests over 1–3 archives, cache sizes 1 MB (smaller than one big archive's leaf directories, so every insertion evicts) and 64 MB) and `srvscript …` (same scripts judged against the uncached answer of the one stored version; with a large cache no (object, range) is fetched twice; the reported size stays below the limit after every event); non-trivial = script with at least 3 requests; distinct by hash of the line"
}
func (C09) Serial() bool { return true }

func (C09) Gen(r *core.Rng, tier string, emit func(string)) {
	if tier == "thorough" {
		emit = cliDupSrv(emit, 3, 60)
	} else {
		emit = cliDupSrv(emit, 3, 6)
	}
	// the server as `pmtiles serve` opens it, cache limits of a few MB, an archive whose three leaf directories
	// (20000 entries each) together exceed 1 MB: every insertion must make room
	{
		var ps []string
		for _, id := range []uint64{3, 10000, 30000, 50000, 19999, 20000, 39999, 40000, 59999, 25000} {
			z, x, y := pmtiles.IDToZxy(id)
			ps = append(ps, fmt.Sprintf("S:/a/%d/%d/%d.mvt", z, x, y))
		}
		for _, be := range []string{"file", "http"} {
			for _, mb := range []int{1, 2, 15, 64} {
				ops := []string{"P:a:1:big"}
				for k := 0; k < 14; k++ {
					ops = append(ops, ps[r.Intn(len(ps))])
				}
				emit(fmt.Sprintf("srvreal %s %d %s", be, mb, strings.Join(ops, " ")))
			}
		}
	}
	n := 250
	if tier == "thorough" {
		n = 6000
	}
	// eviction pressure: a 1 MB cache and an archive whose leaf directories account for 480 kB each
	big := []string{"P:big:1:big", "S:/big/0/0/0.mvt", "A", "S:/big/8/0/0.mvt", "A", "S:/big/8/100/100.mvt", "A", "S:/big/8/200/200.mvt", "S:/big/8/0/1.mvt", "V:1:ok", "V:0:ok", "A", "S:/big/0/0/0.mvt", "A"}
	emit(traceLine(1, big))
	emit("srvscript 1 " + strings.Join(big, " "))
	// two requests meet a replaced archive at once: the second retry arrives while the first retry's header
	// fetch is still in flight and must join it (one fetch per miss)
	for _, cache := range []int{64, 1, 0} {
		for _, ts := range [][2]string{{"/a/1/0/0.mvt", "/a/2/3/3.mvt"}, {"/a/0/0/0.mvt", "/a/1/1/1.mvt"}, {"/a/1/0/0.mvt", "/a/1/0/0.mvt"}} {
			ops := []string{"P:a:1", "S:" + ts[0], "A", "S:" + ts[1], "A", "P:a:2", "S:" + ts[0], "S:" + ts[1], "V:0:ok", "V:0:ok", "V:0:ok", "A"}
			emit(traceLine(cache, ops))
			emit(fmt.Sprintf("srvscript %d %s", cache, strings.Join(ops, " ")))
		}
		// the client that started a shared fetch goes away while others wait on it: they must still be served
		for _, ts := range [][2]string{{"/a/1/0/0.mvt", "/a/1/1/1.mvt"}, {"/a/metadata", "/a/2/3/3.mvt"}, {"/a/1/0/0.mvt", "/a/1/0/0.mvt"}} {
			for _, warm := range []bool{false, true} {
				ops := []string{"P:a:1"}
				if warm {
					ops = append(ops, "S:/a/0/0/0.mvt", "A") // header cached: the shared fetch is a leaf directory's
				}
				first := len(ops) - 1
				if warm {
					first = 1
				} else {
					first = 0
				}
				ops = append(ops, "S:"+ts[0], "S:"+ts[1], "S:"+ts[1], fmt.Sprintf("X:%d", first), "A", "S:"+ts[0], "A")
				emit(traceLine(cache, ops))
				emit(fmt.Sprintf("srvscript %d %s", cache, strings.Join(ops, " ")))
			}
		}
		// asked for before it is uploaded, then uploaded: the earlier miss must not be remembered
		for _, q := range []string{"/a/0/0/0.mvt", "/a/metadata", "/a.json"} {
			ops := []string{"S:" + q, "A", "S:" + q, "A", "P:a:1", "S:" + q, "A", "S:/a/1/0/0.mvt", "A"}
			emit(traceLine(cache, ops))
			emit(fmt.Sprintf("srvscript %d %s", cache, strings.Join(ops, " ")))
		}
	}
	for i := 0; i < n; i++ {
		names := []string{"a", "b", "c"}[:1+r.Intn(3)]
		ops := randScript(r, names, 1+r.Intn(8), 0, []string{"ok"})
		// 0: every inserted entry is already over the limit (it must be evicted at once, and the loop must stop)
		cacheMB := []int{64, 1, 64, 1, 0}[r.Intn(5)]
		emit(traceLine(cacheMB, ops))
		emit(fmt.Sprintf("srvscript %d %s", cacheMB, strings.Join(ops, " ")))
	}
}
func (C09) RunGo(line string) string  { return C08{}.RunGo(line) }
func (C09) Agree(l, g, m string) bool { return C08{}.Agree(l, g, m) }
func (C09) Branch(line, goOut string) string {
	return strings.Fields(line)[0] + " " + strings.Fields(line)[1]
}
func (C09) NonTrivial(line string) bool {
	return strings.Count(line, "S:") >= 3 || strings.Count(line, "|req|")+strings.Count(line, "req|") >= 6
}

func (C09) Oracle(line, goOut string) string {
	t := strings.Fields(line)
	if t[0] == "srvtrace" {
		// the reported size never reaches the limit after a loop event
		limit, _ := strconv.Atoi(t[1])
		_, rest := splitTok(t, "E")
		evs, _ := splitTok(rest, "#")
		for i, e := range evs {
			f := strings.Split(e, "|")
			if len(f) < 11 {
				continue
			}
			tot, _ := strconv.Atoi(f[5])
			if (f[0] == "resp" || f[0] == "req") && limit >= 1 && tot >= limit {
				return fmt.Sprintf("event %d: reported cache size %d reaches the configured limit %d", i, tot, limit)
			}
			if (f[0] == "resp" || f[0] == "req") && limit == 0 && tot > 0 {
				return fmt.Sprintf("event %d: cache limit is 0 but %d bytes stay cached after the event", i, tot)
			}
		}
		return ""
	}
	if t[0] == "srvreal" {
		// a server opened the way `pmtiles serve` opens it (NewServer on a directory / URL): transparent, and the
		// size its event loop reports stays within the limit the user configured
		if m := judgeReal(t[3:], goOut, false); m != "" {
			return "not transparent: " + m
		}
		limit, _ := strconv.Atoi(t[2])
		if _, mc := splitMaxCache(goOut); limit >= 1 && mc >= limit*1000*1000 {
			return fmt.Sprintf("reported cache size reached %d bytes with a configured limit of %d MB", mc, limit)
		}
		return ""
	}
	cacheMB, _ := strconv.Atoi(t[1])
	res := runScript(cacheMB, t[2:], true)
	if m := judgeVersions(res, false); m != "" {
		return "not transparent: " + m
	}
	if len(res.dups) > 0 {
		return "two identical header/directory fetches were in flight at the same time (concurrent misses must share one fetch): " + res.dups[0]
	}
	// uncached oracle: one version per archive here
	for _, rq := range res.reqs {
		name := pathName(rq.path)
		hist := res.hist[name+".pmtiles"]
		if len(hist) == 1 && hist[0].born <= rq.start && !rq.cancelled {
			st, body := answerOf(hist[0].bytes, name, rq.path)
			if st != rq.status || (st == 200 && !bytes.Equal(body, rq.body)) {
				return fmt.Sprintf("response to %s is (%d, %q); an uncached lookup gives (%d, %q)", rq.path, rq.status, trunc(string(rq.body), 40), st, trunc(string(body), 40))
			}
		}
	}
	if cacheMB >= 64 {
		seen := map[string]bool{}
		for _, s := range res.gServed {
			if strings.Contains(s, " 0 16384 ") || true {
				k := s[:strings.LastIndex(s, " -> ")]
				if seen[k] && !strings.Contains(k, "tiledata") {
					// tile reads are never cached: only header/directory ranges must be unique
					if isDirRange(res, k) {
						return "the same header/directory range was fetched twice although nothing was evicted: " + k
					}
				}
				seen[k] = true
			}
		}
	}
	return ""
}

// header fetch (0,16384) or a range inside root/leaf sections of the only version
func isDirRange(res scriptResult, k string) bool {
	f := strings.Fields(k)
	if len(f) < 3 {
		return false
	}
	hist := res.hist[f[0]]
	if len(hist) != 1 {
		return false
	}
	off, _ := strconv.ParseUint(f[1], 10, 64)
	l, _ := strconv.ParseUint(f[2], 10, 64)
	if off == 0 && l == 16384 {
		return true
	}
	h, err := pmtiles.DeserializeHeader(hist[0].bytes[:127])
	if err != nil {
		return false
	}
	return (off >= h.RootOffset && off < h.RootOffset+h.RootLength) || (off >= h.LeafDirectoryOffset && off < h.LeafDirectoryOffset+h.LeafDirectoryLength)
}

// ---------- C10 ----------

type C10 struct{}

func (C10) ID() string { return "C10" }
func (C10) Rule() string {
	return "lines `srvscript cacheMB <ops>` executed in a child process (a crash is an observation): request scripts of 1–3 requests where the bucket call at each position is served with each fault kind in turn (generic error, 404, 412, 416, short read, garbage bytes, mid-stream read error, empty body), objects that are truncations (every interesting length), single header-field corruptions, garbage or deleted, cache sizes 0, 1 and 64, followed by a fault-free suffix that restores the archive and repeats the requests; judged: every request completes (watchdog), status is 2xx-correct or 4xx/5xx, no 204 for a stored tile, the suffix answers correctly; `srvtrace` lines: failed responses are not inserted; non-trivial = script with a fault or a malformed object; distinct by hash of the line"
}
func (C10) Serial() bool { return true }

var c10Faults = []string{"err", "e404", "e412", "e416", "short", "garbage", "midstream", "empty"}

func (C10) Gen(r *core.Rng, tier string, emit func(string)) {
	if tier == "thorough" {
		emit = cliDupSrv(emit, 3, 80)
	} else {
		emit = cliDupSrv(emit, 3, 8)
	}
	reqs := []string{"/a/1/0/0.mvt", "/a/2/1/1.mvt", "/a/metadata", "/a.json", "/a/1/1/1.mvt"}
	suffix := func(ver int, paths []string) []string {
		ops := []string{"A", fmt.Sprintf("P:a:%d", ver)}
		for _, p := range paths {
			ops = append(ops, "S:"+p, "A")
		}
		return ops
	}
	// fault at every bucket-call position of a request
	for _, cache := range []int{64, 1, 0} {
		for _, ver := range []int{1, 2} {
			for _, p := range reqs {
				for pos := 0; pos < 4; pos++ {
					for _, f := range c10Faults {
						if tier != "thorough" && r.Chance(3, 4) {
							continue
						}
						ops := []string{fmt.Sprintf("P:a:%d", ver), "S:" + p}
						for k := 0; k < pos; k++ {
							ops = append(ops, "V:0:ok")
						}
						ops = append(ops, "V:0:"+f)
						ops = append(ops, suffix(ver, []string{p, "/a/1/0/0.mvt"})...)
						emit(fmt.Sprintf("srvscript %d %s", cache, strings.Join(ops, " ")))
					}
				}
			}
		}
	}
	// many requests coalesced on one fetch that then fails (more waiters than the loop's request channel holds):
	// every one of them must be answered
	for _, cache := range []int{64, 0} {
		for _, f := range []string{"err", "e404", "short", "garbage"} {
			for _, pos := range []int{0, 1} {
				ops := []string{"P:a:1"}
				if pos == 1 {
					ops = append(ops, "S:/a/0/0/0.mvt", "A") // header cached: the failing fetch is the leaf directory's
				}
				for k := 0; k < 14; k++ {
					ops = append(ops, "S:"+[]string{"/a/1/0/0.mvt", "/a/1/0/0.mvt", "/a/1/1/1.mvt"}[k%3])
				}
				ops = append(ops, "V:0:"+f)
				ops = append(ops, suffix(1, []string{"/a/1/0/0.mvt", "/a/1/1/1.mvt"})...)
				emit(fmt.Sprintf("srvscript %d %s", cache, strings.Join(ops, " ")))
			}
		}
	}
	// persistent faults: every read of the tile data keeps failing the same way (e.g. an object truncated inside
	// the tile data: 416 for that tile, for ever) — the request must end in an error, not retry for ever
	for _, cache := range []int{64, 0} {
		for _, f := range []string{"e416", "e412", "err", "short"} {
			for _, p := range []string{"/a/1/0/0.mvt", "/a/2/1/1.mvt"} {
				ops := []string{"P:a:1", "Z:a:" + f, "S:" + p, "A", "S:" + p, "A", "Z:a:ok"}
				ops = append(ops, suffix(1, []string{p, "/a/1/0/0.mvt"})...)
				emit(fmt.Sprintf("srvscript %d %s", cache, strings.Join(ops, " ")))
				ops = []string{"P:a:2", "S:" + p, "A", "Z:a:" + f, "S:" + p, "A", "Z:a:ok"}
				ops = append(ops, suffix(2, []string{p})...)
				emit(fmt.Sprintf("srvscript %d %s", cache, strings.Join(ops, " ")))
			}
		}
	}
	// real backends: the HTTP origin goes away (connection refused), resets a connection, comes back; the local
	// directory loses, truncates and regains the file
	for _, cache := range []int{64, 0} {
		for _, p := range []string{"/a/1/0/0.mvt", "/a/metadata", "/a.json"} {
			emit(fmt.Sprintf("srvreal http %d K:down S:%s S:%s K:up P:a:1 S:%s S:/a/2/1/1.mvt", cache, p, p, p))
			emit(fmt.Sprintf("srvreal http %d P:a:1 S:%s K:down S:%s S:/a/2/1/1.mvt P:a:2 K:up S:%s S:/a/2/1/1.mvt", cache, p, p, p))
			emit(fmt.Sprintf("srvreal http %d P:a:1 K:reset S:%s S:%s K:reset S:/a/2/1/1.mvt S:/a/2/1/1.mvt", cache, p, p))
			emit(fmt.Sprintf("srvreal file %d S:%s P:a:1 S:%s P:a:1:del S:%s P:a:1:trunc140 S:%s S:/a/2/1/1.mvt P:a:2 S:%s S:/a/2/1/1.mvt", cache, p, p, p, p, p))
			emit(fmt.Sprintf("srvreal http %d P:a:2 S:%s P:a:2:garbage200 S:%s P:a:2:trunc127 S:%s P:a:3 S:%s S:/a/1/1/1.mvt", cache, p, p, p, p))
			// the file ends right behind the root directory / the directories: reads that START beyond the end
			for _, be := range []string{"file", "http"} {
				emit(fmt.Sprintf("srvreal %s %d P:a:1:cuttiles S:%s S:/a/metadata S:/a/2/1/1.mvt P:a:1:cutmeta S:/a/metadata S:%s S:/a.json P:a:2 S:%s S:/a/metadata", be, cache, p, p, p))
				emit(fmt.Sprintf("srvreal %s %d P:a:1 S:%s P:a:1:cuttiles S:/a/2/1/1.mvt S:%s P:a:3 S:%s S:/a/2/1/1.mvt", be, cache, p, p, p))
				// a root directory announcing 2^62 entries
				emit(fmt.Sprintf("srvreal %s %d P:a:1:hugecount S:%s S:/a/2/1/1.mvt P:b:1 S:/b/1/0/0.mvt P:a:2 S:%s", be, cache, p, p))
			}
			// an origin that answers a long run of requests with an error page: nothing may pile up
			busy := []string{"P:a:1", "S:" + p, "K:busy"}
			for k := 0; k < 24; k++ {
				busy = append(busy, "S:"+[]string{p, "/a/metadata", "/b/1/0/0.mvt", "/a/2/1/1.mvt"}[k%4])
			}
			busy = append(busy, "K:calm", "P:a:2", "S:"+p, "S:/a/2/1/1.mvt")
			emit(fmt.Sprintf("srvreal http %d %s", cache, strings.Join(busy, " ")))
		}
	}
	// malformed objects
	mods := []string{"garbage3", "garbage200", "garbage20000", "del"}
	full := len(scriptArchive("a", 1, false))
	for _, n := range []int{0, 1, 6, 7, 8, 126, 127, 128, 140, 200, full - 30, full - 1} {
		mods = append(mods, fmt.Sprintf("trunc%d", n))
	}
	for _, off := range []int{8, 16, 24, 32, 40, 48, 56, 64} { // the eight offset/length fields
		for _, val := range []uint64{0, 1, 1 << 20, 1 << 40, 1<<63 - 1, 1 << 63, ^uint64(0)} {
			mods = append(mods, fmt.Sprintf("corrupt%d=%d", off, val))
		}
	}
	for _, off := range []int{96, 97, 98, 99, 100, 101} { // clustered, compressions, type, zooms (single bytes at the low end of an 8-byte write)
		mods = append(mods, fmt.Sprintf("corrupt%d=%d", off, 0), fmt.Sprintf("corrupt%d=%d", off, 255), fmt.Sprintf("corrupt%d=%d", off, 3))
	}
	for i, m := range mods {
		if tier != "thorough" && i%2 == 1 && !strings.HasPrefix(m, "trunc") {
			continue
		}
		for _, cache := range []int{64, 0} {
			p := reqs[i%len(reqs)]
			ops := []string{"P:a:1:" + m, "S:" + p, "A", "S:/a/1/0/0.mvt", "A"}
			ops = append(ops, suffix(1, []string{p, "/a/1/0/0.mvt"})...)
			emit(fmt.Sprintf("srvscript %d %s", cache, strings.Join(ops, " ")))
		}
	}
	// random fault scripts with several requests
	n := 40
	if tier == "thorough" {
		n = 2000
	}
	for i := 0; i < n; i++ {
		ops := randScript(r, []string{"a"}, 1+r.Intn(3), r.Intn(2), append([]string{"ok", "ok", "ok"}, c10Faults...))
		ops = append(ops, suffix(9, []string{"/a/1/0/0.mvt", "/a/metadata"})...)
		cache := []int{64, 1, 0}[r.Intn(3)]
		emit(fmt.Sprintf("srvscript %d %s", cache, strings.Join(ops, " ")))
		if i%4 == 0 {
			emit(traceLine(cache, ops))
		}
	}
}

func (C10) RunGo(line string) string {
	t := strings.Fields(line)
	if t[0] == "srvtrace" {
		return traceSummary(line)
	}
	if t[0] == "srvreal" {
		cacheMB, _ := strconv.Atoi(t[2])
		return runSrvReal(t[1], cacheMB, t[3:])
	}
	cacheMB, _ := strconv.Atoi(t[1])
	out, _ := runScriptChild(cacheMB, t[2:])
	return out
}
func (C10) Agree(l, g, m string) bool { return C08{}.Agree(l, g, m) }
func (C10) Branch(line, goOut string) string {
	return strings.Fields(line)[0] + " cache=" + strings.Fields(line)[1]
}
func (C10) NonTrivial(line string) bool {
	for _, f := range c10Faults {
		if strings.Contains(line, ":"+f) {
			return true
		}
	}
	return strings.Contains(line, ":trunc") || strings.Contains(line, ":corrupt") || strings.Contains(line, ":garbage") || strings.Contains(line, " Z:") || strings.Contains(line, " K:")
}

func (C10) Oracle(line, goOut string) string {
	t := strings.Fields(line)
	if t[0] == "srvtrace" {
		// failed responses are never inserted: a `resp|…|fail` event leaves the counters unchanged
		_, rest := splitTok(t, "E")
		evs, _ := splitTok(rest, "#")
		prev := []string{}
		for i, e := range evs {
			f := strings.Split(e, "|")
			if len(f) < 11 {
				continue
			}
			if f[0] == "resp" && strings.HasPrefix(f[10], "fail") && len(prev) == 11 && (f[5] != prev[5] || f[6] != prev[6] || f[7] != prev[7]) {
				return fmt.Sprintf("event %d: a failed fetch changed the cache (size %s→%s, entries %s→%s)", i, prev[5], f[5], prev[6], f[6])
			}
			prev = f
		}
		return ""
	}
	if t[0] == "srvreal" {
		if m := judgeReal(t[3:], goOut, true); m != "" {
			return m
		}
		if !strings.HasPrefix(goOut, "r0=") {
			return "" // nothing observed (e.g. the loopback origin could not rebind its port)
		}
		// recovery: the requests after the last K:up / plain upload must succeed
		ops := t[3:]
		last := -1
		for i, op := range ops {
			if op == "K:up" || (strings.HasPrefix(op, "P:") && strings.Count(op, ":") == 2) {
				last = i
			}
			if op == "K:down" || op == "K:reset" || (strings.HasPrefix(op, "P:") && strings.Count(op, ":") > 2) {
				last = -1
			}
		}
		if last >= 0 {
			ri := 0
			toks := strings.Fields(goOut)
			for i, op := range ops {
				if strings.HasPrefix(op, "S:") {
					if i > last && ri < len(toks) {
						st, _ := strconv.Atoi(toks[ri][strings.Index(toks[ri], "=")+1 : strings.Index(toks[ri], ":")])
						if st >= 500 || st == 499 {
							return fmt.Sprintf("after the origin was back, %s still fails with %d", op[2:], st)
						}
					}
					ri++
				}
			}
		}
		return ""
	}
	if strings.HasPrefix(goOut, "crash:") {
		return "the server process crashed: " + goOut
	}
	if strings.HasPrefix(goOut, "hang:") {
		return "the script did not finish (event loop blocked or spinning): " + goOut
	}
	f := strings.Fields(goOut)
	if len(f) == 0 || !strings.HasPrefix(f[0], "hangs=") {
		return "unreadable result: " + trunc(goOut, 100)
	}
	if f[0] != "hangs=0" {
		return "request(s) did not complete in bounded time: " + f[0]
	}
	// reconstruct versions and request list from the ops
	ops := t[2:]
	type put struct {
		actual, pristine []byte
		op               int
	}
	var puts []put
	var reqPaths []string
	var reqOp []int
	lastRestore := -1
	for i, op := range ops {
		p := strings.Split(op, ":")
		switch p[0] {
		case "P":
			ver, _ := strconv.Atoi(p[2])
			pr := scriptArchive(p[1], ver, false)
			act := pr
			if len(p) > 3 {
				act = applyMod(scriptArchive(p[1], ver, false), p[3]) // the malformed object itself may justify an answer (a self-consistent but wrong header)
			} else {
				lastRestore = i
			}
			puts = append(puts, put{act, pr, i})
		case "S":
			reqPaths = append(reqPaths, strings.Join(p[1:], ":"))
			reqOp = append(reqOp, i)
		}
	}
	// was there any fault or malformed object before op i?
	faultBefore := func(i int) bool {
		for k := 0; k < i && k < len(ops); k++ {
			if strings.HasPrefix(ops[k], "V:") && !strings.HasSuffix(ops[k], ":ok") {
				return true
			}
			if strings.HasPrefix(ops[k], "P:") && strings.Count(ops[k], ":") > 2 {
				return true
			}
		}
		return false
	}
	_ = faultBefore
	for i, tok := range f[1:] {
		if i >= len(reqPaths) {
			break
		}
		eq := strings.Index(tok, "=")
		col := strings.Index(tok, ":")
		st, _ := strconv.Atoi(tok[eq+1 : col])
		body, _ := unhex(tok[col+1:])
		path := reqPaths[i]
		if st == -1 {
			return "request " + path + " panicked: " + string(body)
		}
		recovery := reqOp[i] > lastRestore && lastRestore >= 0 && isRecoveryReq(ops, reqOp[i], lastRestore)
		if st >= 400 && st <= 599 {
			archiveGone := st == 404 && strings.Contains(string(body), "Archive not found")
			if recovery && (st >= 500 || archiveGone) {
				return fmt.Sprintf("after the fault was gone, %s still fails with %d", path, st)
			}
			if st >= 500 || archiveGone || st == 499 || !recovery {
				continue // while faults are around any 4xx/5xx is a contained failure
			}
			// 404 (zoom) / 400 (extension) derive from a header: some version must say so (it may be a stale cached header, C08)
		}
		if st != 200 && st != 204 && st != 404 && st != 400 {
			return fmt.Sprintf("request %s completed with status %d", path, st)
		}
		ok := false
		for _, p := range puts {
			for _, cand := range [][]byte{p.actual, p.pristine} {
				if cand == nil {
					continue
				}
				if ast, ab := answerOf(cand, "a", path); ast == st && (st != 200 || bytes.Equal(ab, body)) {
					ok = true
				}
			}
		}
		if !ok {
			return fmt.Sprintf("a failure produced an answer that misstates the archive: %s answered (%d, %q)", path, st, trunc(string(body), 40))
		}
		if recovery && st == 200 {
			if ast, ab := answerOf(puts[len(puts)-1].pristine, "a", path); ast != 200 || !bytes.Equal(ab, body) {
				return fmt.Sprintf("after the fault was gone, %s returns data that is not the current archive's", path)
			}
		}
	}
	return ""
}

// the request at op i belongs to the fault-free recovery suffix: after the last plain put, no faulty serve follows
func isRecoveryReq(ops []string, i, lastRestore int) bool {
	for k := lastRestore; k < len(ops); k++ {
		if strings.HasPrefix(ops[k], "V:") && !strings.HasSuffix(ops[k], ":ok") {
			return false
		}
		if strings.HasPrefix(ops[k], "P:") && strings.Count(ops[k], ":") > 2 {
			return false
		}
		if strings.HasPrefix(ops[k], "Z:") && !strings.HasSuffix(ops[k], ":ok") {
			return false
		}
	}
	return i > lastRestore
}

// scripts over the layout twins 2/8 (and 4/10): holds and late deliveries around replacements
func twinScript(r *core.Rng) []string {
	vers := [][2]int{{2, 8}, {8, 2}, {4, 10}}[r.Intn(3)]
	ops := []string{fmt.Sprintf("P:a:%d", vers[0])}
	tiles := []string{"/a/1/0/0.mvt", "/a/2/1/1.mvt", "/a/1/1/1.mvt", "/a/2/3/3.mvt"}
	t := tiles[r.Intn(len(tiles))]
	ops = append(ops, "S:"+t)
	for k := 0; k < r.Intn(4); k++ {
		ops = append(ops, "V:0:ok")
	}
	ops = append(ops, "V:0:okhold", fmt.Sprintf("P:a:%d", vers[1]))
	ops = append(ops, "S:"+[]string{"/a/metadata", "/a.json", t}[r.Intn(3)])
	for k := 0; k < 2+r.Intn(5); k++ {
		ops = append(ops, "V:0:ok")
	}
	ops = append(ops, "S:"+t)
	for k := 0; k < r.Intn(4); k++ {
		ops = append(ops, "V:0:ok")
	}
	ops = append(ops, "R:0", "A")
	return ops
}
