package props

import (
	"fmt"
	"math"
	"os"
	"strconv"
	"strings"

	"github.com/RoaringBitmap/roaring/roaring64"
	"github.com/paulmach/orb"
	"github.com/paulmach/orb/maptile"
	"github.com/paulmach/orb/planar"
	"github.com/paulmach/orb/project"
	"github.com/protomaps/go-pmtiles/pmtiles"
	"verifharness/core"
)

// C16 — region extracts.
type C16 struct{}

func (C16) ID() string { return "C16" }
func (C16) Rule() string {
	return "lines `fill zoom <region> B k ids I bits` (real bitmapMultiPolygon at zooms 2..9 on axis- and tile-edge-aligned boxes, convex/concave polygons, polygons with holes, disjoint/overlapping multipolygons, long non-axis-aligned edges at high latitude; the boundary set and the inside answers at the tested tiles are recorded, the model recomputes the interior by interval fill; oracle: Sep hypothesis on every adjacent ID pair (zoom <= 7) and the property's metric margins with an independent Mercator point-in-polygon/distance), `genor minz ids` (real generalizeOr vs ancestor closure) and `regbounds <region>` (header bounds/center of a real Extract, all wrappers: bbox string, Polygon, MultiPolygon, Feature, FeatureCollection); non-trivial = region meeting at least 4 tiles; distinct by hash of the line"
}

func fmtMP(mp orb.MultiPolygon) string {
	var sb strings.Builder
	fmt.Fprintf(&sb, "R %d", len(mp))
	for _, poly := range mp {
		fmt.Fprintf(&sb, " %d", len(poly))
		for _, ring := range poly {
			fmt.Fprintf(&sb, " %d", len(ring))
			for _, p := range ring {
				sb.WriteString(" " + strconv.FormatFloat(p[0], 'g', -1, 64) + " " + strconv.FormatFloat(p[1], 'g', -1, 64))
			}
		}
	}
	return sb.String()
}

func parseMP(t []string) (orb.MultiPolygon, []string, bool) {
	if len(t) < 2 || t[0] != "R" {
		return nil, nil, false
	}
	pos := 1
	next := func() (int, bool) {
		if pos >= len(t) {
			return 0, false
		}
		v, err := strconv.Atoi(t[pos])
		pos++
		return v, err == nil
	}
	np, ok := next()
	if !ok {
		return nil, nil, false
	}
	var mp orb.MultiPolygon
	for i := 0; i < np; i++ {
		nr, ok := next()
		if !ok {
			return nil, nil, false
		}
		var poly orb.Polygon
		for j := 0; j < nr; j++ {
			npt, ok := next()
			if !ok || pos+2*npt > len(t) {
				return nil, nil, false
			}
			var ring orb.Ring
			for k := 0; k < npt; k++ {
				x, _ := strconv.ParseFloat(t[pos], 64)
				y, _ := strconv.ParseFloat(t[pos+1], 64)
				pos += 2
				ring = append(ring, orb.Point{x, y})
			}
			poly = append(poly, ring)
		}
		mp = append(mp, poly)
	}
	return mp, t[pos:], true
}

func rectRing(w, s, e, n float64) orb.Ring {
	return orb.Ring{{w, n}, {e, n}, {e, s}, {w, s}, {w, n}}
}

// tile-edge aligned longitude/latitude at a zoom
func tileLon(x int, z int) float64 { return float64(x)/float64(int(1)<<uint(z))*360 - 180 }
func tileLat(y int, z int) float64 {
	n := math.Pi - 2*math.Pi*float64(y)/float64(int(1)<<uint(z))
	return 180 / math.Pi * math.Atan(0.5*(math.Exp(n)-math.Exp(-n)))
}

func randRegion(r *core.Rng, zoom int) orb.MultiPolygon {
	rc := func() (float64, float64, float64, float64) {
		w := -175 + float64(r.Intn(3000))/10
		s := -80 + float64(r.Intn(1400))/10
		e := w + 2 + float64(r.Intn(800))/10
		n := s + 2 + float64(r.Intn(500))/10
		if e > 179 {
			e = 179
		}
		if n > 84 {
			n = 84
		}
		return w, s, e, n
	}
	switch r.Intn(7) {
	case 0: // axis-aligned box
		w, s, e, n := rc()
		return orb.MultiPolygon{{rectRing(w, s, e, n)}}
	case 1: // tile-edge-aligned box
		nt := 1 << uint(zoom)
		x0, y0 := r.Intn(nt-1), r.Intn(nt-1)
		x1, y1 := x0+1+r.Intn(nt-x0-1), y0+1+r.Intn(nt-y0-1)
		return orb.MultiPolygon{{rectRing(tileLon(x0, zoom), tileLat(y1, zoom), tileLon(x1, zoom), tileLat(y0, zoom))}}
	case 2: // triangle with long non-axis-aligned edges
		w, s, e, n := rc()
		return orb.MultiPolygon{{orb.Ring{{w, s}, {e, s}, {e, n}, {w, s}}}}
	case 3: // concave (L-shape)
		w, s, e, n := rc()
		mx, my := (w+e)/2, (s+n)/2
		return orb.MultiPolygon{{orb.Ring{{w, s}, {e, s}, {e, my}, {mx, my}, {mx, n}, {w, n}, {w, s}}}}
	case 4: // box with a hole
		w, s, e, n := rc()
		dx, dy := (e-w)/4, (n-s)/4
		return orb.MultiPolygon{{rectRing(w, s, e, n), rectRing(w+dx, s+dy, e-dx, n-dy)}}
	case 5: // two polygons (disjoint or overlapping)
		w, s, e, n := rc()
		w2, s2, e2, n2 := rc()
		return orb.MultiPolygon{{rectRing(w, s, e, n)}, {rectRing(w2, s2, e2, n2)}}
	default: // big high-latitude triangle
		return orb.MultiPolygon{{orb.Ring{{-150, 5}, {140, 5}, {140, 78}, {-150, 5}}}}
	}
}

func insideCentre(mpProj orb.MultiPolygon, id uint64) bool {
	z, x, y := pmtiles.IDToZxy(id)
	tile := maptile.New(x, y, maptile.Zoom(z))
	return planar.MultiPolygonContains(mpProj, project.Point(tile.Center(), project.WGS84.ToMercator))
}

func fillLine(zoom int, mp orb.MultiPolygon) string {
	b, _ := pmtiles.VerifBitmapMultiPolygon(uint8(zoom), mp)
	ids := b.ToArray()
	proj := project.MultiPolygon(mp.Clone(), project.WGS84.ToMercator)
	bits := make([]byte, len(ids))
	for i, id := range ids {
		bits[i] = '0'
		if i+1 < len(ids) && !b.Contains(id+1) && insideCentre(proj, id+1) {
			bits[i] = '1'
		}
	}
	var sb strings.Builder
	fmt.Fprintf(&sb, "fill %d %s B %d", zoom, fmtMP(mp), len(ids))
	for _, id := range ids {
		fmt.Fprintf(&sb, " %d", id)
	}
	sb.WriteString(" I " + string(bits))
	return sb.String()
}

func (C16) Gen(r *core.Rng, tier string, emit func(string)) {
	{
		// region extracts through the real binary: every bbox-string case (the form only the command line
		// parses) and one in three of the GeoJSON forms, within a budget
		budget, inner := 16, emit
		if tier == "thorough" {
			budget = 200
		}
		emit = func(line string) {
			inner(line)
			if budget > 0 && strings.HasPrefix(line, "regbounds ") && (strings.HasPrefix(line, "regbounds 0 ") || lineHash(line)%3 == 0) {
				budget--
				inner("cli" + line)
			}
		}
	}
	nFill, nGen := 150, 300
	if tier == "thorough" {
		nFill, nGen = 5000, 10000
	}
	for i := 0; i < nFill; i++ {
		zoom := 2 + r.Intn(7)
		if tier == "thorough" && r.Chance(1, 10) {
			zoom = 9 + r.Intn(3)
		}
		emit(fillLine(zoom, randRegion(r, zoom)))
	}
	// regions that touch the boundary of the Web-Mercator world (tile-edge-aligned, so their edges run ALONG it):
	// the four corners, the four sides, the whole world — the tile cover of such an edge may step off the grid
	for zoom := 2; zoom <= 8; zoom++ {
		nt := 1 << uint(zoom)
		k := 1 + r.Intn(nt-1)
		m := 1 + r.Intn(nt-1)
		W, E, N, S := tileLon(0, zoom), tileLon(nt, zoom), tileLat(0, zoom), tileLat(nt, zoom)
		for _, b := range [][4]float64{
			{W, tileLat(m, zoom), tileLon(k, zoom), N},                   // north-west corner
			{tileLon(nt-k, zoom), tileLat(m, zoom), E, N},                // north-east corner
			{W, S, tileLon(k, zoom), tileLat(nt-m, zoom)},                // south-west corner
			{tileLon(nt-k, zoom), S, E, tileLat(nt-m, zoom)},             // south-east corner
			{W, tileLat(nt-1, zoom), tileLon(k, zoom), tileLat(1, zoom)}, // west side
			{tileLon(1, zoom), tileLat(m, zoom), tileLon(nt-1, zoom), N}, // north side
			{W, S, E, N}, // the whole world
		} {
			ring := rectRing(b[0], b[1], b[2], b[3])
			emit(fillLine(zoom, orb.MultiPolygon{{ring}}))
			// the other orientation, starting at another corner (the order `--bbox` builds its ring in differs
			// from the order a GeoJSON author uses): the cover of an edge depends on its direction
			rev := orb.Ring{ring[2], ring[1], ring[0], ring[3], ring[2]}
			emit(fillLine(zoom, orb.MultiPolygon{{rev}}))
		}
	}
	for i := 0; i < nGen; i++ {
		z := 1 + r.Intn(12)
		n := r.Intn(12)
		var ids []string
		for k := 0; k < n; k++ {
			ids = append(ids, strconv.FormatUint(base(uint(z))+r.U64()%(base(uint(z)+1)-base(uint(z))), 10))
		}
		emit(fmt.Sprintf("genor %d %s", r.Intn(z+1), strings.Join(ids, " ")))
	}
	for i := 0; i < nFill/5; i++ {
		reg := randRegion(r, 4)
		if r.Bool() {
			// coordinates with seven decimals (the resolution of the header): every vertex is moved by a
			// sub-microdegree amount that depends on its value only (shared vertices stay shared)
			jit := func(v float64) float64 {
				k := int64(math.Float64bits(v)>>7) % 1000000
				if k < 0 {
					k = -k
				}
				return math.Round((v+float64(k)/1e7)*1e7) / 1e7
			}
			for a := range reg {
				for b := range reg[a] {
					for c := range reg[a][b] {
						reg[a][b][c] = orb.Point{jit(reg[a][b][c][0]), jit(reg[a][b][c][1])}
					}
				}
			}
		}
		emit("regbounds " + strconv.Itoa(r.Intn(5)) + " " + fmtMP(reg))
	}
	// the consumer: real extracts of box regions from sources with leaf directories, run lengths and shared
	// contents — what ends up in the archive is exactly the region's tile set restricted to the source
	nEx := 40
	if tier == "thorough" {
		nEx = 800
	}
	for i := 0; i < nEx*10; i++ {
		emit(relevantLine(r)) // which entries (and which parts of runs, which leaves) a wanted tile set selects
	}
	for i := 0; i < nEx; i++ {
		ba, ts, ic := randClusteredSource(r)
		if len(ts.entries) == 0 {
			continue
		}
		w, so := -170+r.Intn(300), -70+r.Intn(120)
		bbox := fmt.Sprintf("%d,%d,%d,%d", w, so, w+5+r.Intn(90), so+3+r.Intn(40))
		cmin, cmax := clampZooms(ba.header, -1, int8(1+r.Intn(8)))
		if cmin > cmax {
			continue
		}
		ivs, err := extractSet(cmin, cmax, bbox)
		if err != nil {
			continue
		}
		emit(fmt.Sprintf("extract %d %s A %s %s %s # %d %d %s", cmax, fmtIvs(ivs), compName(ic), hexs(ts.data), ba.dirsLine(), -1, cmax, bbox))
	}
}

func (C16) RunGo(line string) string {
	cliMode, t := splitCLI(strings.Fields(line))
	_ = cliMode
	switch t[0] {
	case "extract", "relevant":
		return C07{}.RunGo(line)
	case "fill":
		zoom, _ := strconv.Atoi(t[1])
		mp, _, ok := parseMP(t[2:])
		if !ok {
			return "bad-case"
		}
		_, interior := pmtiles.VerifBitmapMultiPolygon(uint8(zoom), mp)
		return fmtIvs(ivsOf(interior))
	case "genor":
		minz, _ := strconv.Atoi(t[1])
		b := roaring64.New()
		for _, s := range t[2:] {
			v, _ := strconv.ParseUint(s, 10, 64)
			b.Add(v)
		}
		pmtiles.VerifGeneralizeOr(b, uint8(minz))
		var out []string
		for _, v := range b.ToArray() {
			out = append(out, strconv.FormatUint(v, 10))
		}
		return strings.Join(out, " ")
	case "regbounds":
		return runRegBounds(cliMode, t)
	}
	return "bad-case"
}

// a real Extract with the region given through one of the five input forms; reports the header bounds/center
func runRegBounds(cli bool, t []string) string {
	form, _ := strconv.Atoi(t[1])
	mp, _, ok := parseMP(t[2:])
	if !ok || len(mp) == 0 {
		return "bad-case"
	}
	// tiny clustered source
	ts := tileSet{entries: []pmtiles.EntryV3{{TileID: 0, Offset: 0, Length: 3, RunLength: 1}, {TileID: 1, Offset: 3, Length: 3, RunLength: 4}}, data: []byte("abcdef")}
	h := baseHeader()
	h.Clustered, h.MinZoom, h.MaxZoom = true, 0, 1
	// what the source's header says about its extent is not the extract's business: the whole world, nothing,
	// or a small box that does not meet the region
	switch len(t) % 3 {
	case 1:
		h.MinLonE7, h.MinLatE7, h.MaxLonE7, h.MaxLatE7 = 0, 0, 0, 0
	case 2:
		h.MinLonE7, h.MinLatE7, h.MaxLonE7, h.MaxLatE7 = 1000000000, 100000000, 1010000000, 110000000
	}
	ba := assembleArchive(&archDir{entries: ts.entries, sub: make([]*archDir, 2)}, ts, pmtiles.Gzip, h, []byte("{}"))
	src := scratchFile(".pmtiles")
	os.WriteFile(src, ba.bytes, 0o644)
	defer os.Remove(src)
	out := scratchFile(".out.pmtiles")
	defer os.Remove(out)
	bbox, regionFile := "", ""
	b := mp.Bound()
	ringJSON := func(poly orb.Polygon) string {
		var rings []string
		for _, ring := range poly {
			var pts []string
			for _, p := range ring {
				pts = append(pts, "["+strconv.FormatFloat(p[0], 'g', -1, 64)+","+strconv.FormatFloat(p[1], 'g', -1, 64)+"]")
			}
			rings = append(rings, "["+strings.Join(pts, ",")+"]")
		}
		return "[" + strings.Join(rings, ",") + "]"
	}
	var polys []string
	for _, p := range mp {
		polys = append(polys, ringJSON(p))
	}
	mpGeom := `{"type":"MultiPolygon","coordinates":[` + strings.Join(polys, ",") + `]}`
	polyGeom := `{"type":"Polygon","coordinates":` + ringJSON(mp[0]) + `}`
	var js string
	switch form {
	case 0:
		bbox = fmt.Sprintf("%s,%s,%s,%s", strconv.FormatFloat(b.Min[0], 'g', -1, 64), strconv.FormatFloat(b.Min[1], 'g', -1, 64), strconv.FormatFloat(b.Max[0], 'g', -1, 64), strconv.FormatFloat(b.Max[1], 'g', -1, 64))
	case 1:
		js = mpGeom
	case 2:
		js = `{"type":"Feature","properties":{},"geometry":` + mpGeom + `}`
	case 3:
		js = `{"type":"FeatureCollection","features":[{"type":"Feature","properties":{},"geometry":` + mpGeom + `}]}`
	default:
		js = polyGeom
		b = mp[0].Bound()
	}
	if js != "" {
		regionFile = scratchFile(".geojson")
		os.WriteFile(regionFile, []byte(js), 0o644)
		defer os.Remove(regionFile)
	}
	var xerr error
	if cli {
		args := []string{"extract", src, out}
		if bbox != "" {
			args = append(args, "--bbox="+bbox)
		}
		if regionFile != "" {
			args = append(args, "--region="+regionFile)
		}
		_, xerr = cliRun(args...)
		if xerr == errNoCLI {
			return "no-cli-binary"
		}
	} else {
		xerr = pmtiles.Extract(discardLogger, "", src, -1, -1, regionFile, bbox, out, 1, 0, false)
	}
	if xerr != nil {
		return "extract-error " + strings.ReplaceAll(trunc(xerr.Error(), 60), " ", "_")
	}
	ob, _ := os.ReadFile(out)
	oh, err := pmtiles.DeserializeHeader(ob[:127])
	if err != nil {
		return "unreadable"
	}
	e7 := func(v float64) int64 { return int64(math.Round(v * 1e7)) }
	want := fmt.Sprintf("%d %d %d %d %d %d", e7(b.Min[0]), e7(b.Min[1]), e7(b.Max[0]), e7(b.Max[1]), e7(b.Center()[0]), e7(b.Center()[1]))
	got := fmt.Sprintf("%d %d %d %d %d %d", oh.MinLonE7, oh.MinLatE7, oh.MaxLonE7, oh.MaxLatE7, oh.CenterLonE7, oh.CenterLatE7)
	if got != want {
		return "bounds " + got + " want " + want
	}
	return "bounds-ok"
}

func (C16) NonTrivial(line string) bool {
	cliMode, t := splitCLI(strings.Fields(line))
	_ = cliMode
	if t[0] == "fill" {
		for i, x := range t {
			if x == "B" && i+1 < len(t) {
				k, _ := strconv.Atoi(t[i+1])
				return k >= 4
			}
		}
	}
	return len(t) >= 5
}

func (C16) Branch(line, goOut string) string {
	cliMode, t := splitCLI(strings.Fields(line))
	_ = cliMode
	if t[0] == "extract" || t[0] == "relevant" {
		return t[0] + " " + strings.SplitN(goOut, " ", 2)[0]
	}
	if t[0] == "fill" {
		return "fill z" + t[1]
	}
	return t[0]
}

// Mercator tile-space geometry (independent of orb)
func mercXY(lon, lat float64, z int) (float64, float64) {
	n := float64(int(1) << uint(z))
	x := (lon + 180) / 360 * n
	la := lat * math.Pi / 180
	y := (1 - math.Log(math.Tan(la)+1/math.Cos(la))/math.Pi) / 2 * n
	return x, y
}

func pointInRings(px, py float64, rings [][][2]float64) bool {
	in := false
	for _, ring := range rings {
		for i, j := 0, len(ring)-1; i < len(ring); j, i = i, i+1 {
			xi, yi, xj, yj := ring[i][0], ring[i][1], ring[j][0], ring[j][1]
			if (yi > py) != (yj > py) && px < (xj-xi)*(py-yi)/(yj-yi)+xi {
				in = !in
			}
		}
	}
	return in
}

func distToRings(px, py float64, rings [][][2]float64) float64 {
	best := math.Inf(1)
	for _, ring := range rings {
		for i := 0; i+1 < len(ring); i++ {
			ax, ay, bx, by := ring[i][0], ring[i][1], ring[i+1][0], ring[i+1][1]
			dx, dy := bx-ax, by-ay
			l2 := dx*dx + dy*dy
			tt := 0.0
			if l2 > 0 {
				tt = ((px-ax)*dx + (py-ay)*dy) / l2
				tt = math.Max(0, math.Min(1, tt))
			}
			cx, cy := ax+tt*dx, ay+tt*dy
			// Chebyshev distance: "one tile away" is measured in tile units along the axes
			d := math.Max(math.Abs(px-cx), math.Abs(py-cy))
			if d < best {
				best = d
			}
		}
	}
	return best
}

func (C16) Oracle(line, goOut string) string {
	cliMode, t := splitCLI(strings.Fields(line))
	_ = cliMode
	if strings.HasPrefix(goOut, "panic") {
		return goOut
	}
	if t[0] == "extract" || t[0] == "relevant" {
		return C07{}.Oracle(line, goOut)
	}
	switch t[0] {
	case "regbounds":
		if goOut != "bounds-ok" {
			return "header bounds/center of the extract are not the region's bounding box and centre: " + goOut
		}
	case "genor":
		// parent closure on the result
		minz, _ := strconv.Atoi(t[1])
		set := map[uint64]bool{}
		for _, s := range strings.Fields(goOut) {
			v, _ := strconv.ParseUint(s, 10, 64)
			set[v] = true
		}
		for v := range set {
			z, x, y := pmtiles.IDToZxy(v)
			if int(z) > minz {
				if !set[pmtiles.ZxyToID(z-1, x/2, y/2)] {
					return fmt.Sprintf("result contains %d/%d/%d but not its parent", z, x, y)
				}
			}
		}
	case "fill":
		zoom, _ := strconv.Atoi(t[1])
		mp, _, ok := parseMP(t[2:])
		if !ok {
			return ""
		}
		boundary, interior := pmtiles.VerifBitmapMultiPolygon(uint8(zoom), mp)
		sel := boundary.Clone()
		sel.Or(interior)
		// polygons in tile space (edges straight in Mercator, as the code's rasterisation and containment see them)
		var polys [][][][2]float64
		for _, poly := range mp {
			var rings [][][2]float64
			for _, ring := range poly {
				var pts [][2]float64
				for _, p := range ring {
					x, y := mercXY(p[0], p[1], zoom)
					pts = append(pts, [2]float64{x, y})
				}
				rings = append(rings, pts)
			}
			polys = append(polys, rings)
		}
		n := 1 << uint(zoom)
		if zoom <= 8 {
			for x := 0; x < n; x++ {
				for y := 0; y < n; y++ {
					cx, cy := float64(x)+0.5, float64(y)+0.5
					in := false
					dist := math.Inf(1)
					for _, rings := range polys {
						if pointInRings(cx, cy, rings) {
							in = true
						}
						if d := distToRings(cx, cy, rings); d < dist {
							dist = d
						}
					}
					id := pmtiles.ZxyToID(uint8(zoom), uint32(x), uint32(y))
					if in && dist > 1.5 && !sel.Contains(id) {
						return fmt.Sprintf("z%d: tile %d/%d is %.1f tiles inside the region but not selected", zoom, x, y, dist)
					}
					if !in && dist > 1.5 && sel.Contains(id) {
						return fmt.Sprintf("z%d: tile %d/%d is %.1f tiles outside the region (or inside a hole) but selected", zoom, x, y, dist)
					}
				}
			}
		}
		// Sep hypothesis of fill_exact on every adjacent non-boundary ID pair
		if zoom <= 7 {
			proj := project.MultiPolygon(mp.Clone(), project.WGS84.ToMercator)
			lo, hi := base(uint(zoom)), base(uint(zoom)+1)
			prevIn, prevOK := false, false
			for id := lo; id < hi; id++ {
				if boundary.Contains(id) {
					prevOK = false
					continue
				}
				in := insideCentre(proj, id)
				if prevOK && in != prevIn {
					return fmt.Sprintf("z%d: consecutive non-boundary IDs %d,%d differ in inside-status: the boundary tile cover has a leak (hypothesis Sep of fill_exact fails)", zoom, id-1, id)
				}
				prevIn, prevOK = in, true
			}
		}
	}
	return ""
}
