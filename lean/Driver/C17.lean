import PmtilesModel.Model.Iterate
import Driver.C04
namespace Driver.C17
open Pm Pm.Reader Driver

/-- `iter <failing dir index or -> <ndirs> (off len entries)*` : directory 0 is the root -/
def handle (ts : List String) : Option String :=
  match ts with
  | "iter" :: fail :: _ic :: nd :: rest => do
    let nd ← nd.toNat?
    let (ds, _) ← Driver.C04.parseDirs nd rest
    match ds with
    | (_, _, root) :: leaves =>
      -- `3p`: the failing fetch also hands back some bytes; to the caller it is the same failure
      -- `3e`: the failing fetch fails with exactly io.EOF and some bytes; the same failure again
      let failIdx : Option Nat := (if fail.endsWith "p" || fail.endsWith "e" then (fail.dropEnd 1).toString else fail).toNat?
      let live : List (Nat × Nat × List Entry) :=
        match failIdx with
        | some 0 => leaves
        | some k => (leaves.zipIdx.filter (fun p => p.2 + 1 ≠ k)).map (·.1)
        | none => leaves
      let rootOpt := if failIdx = some 0 then none else some root
      match iterateArchive rootOpt (Driver.C04.mkFetch live) 8 with
      | some es => some ("ok " ++ showEntries es)
      | none => some "err"
    | _ => none
  -- the real callers (cluster, verify, makesync) on a file none of whose leaf directories can be fetched: the
  -- enumeration fails (`C17.iterate_fails_at`), so each of them reports it and nothing is rewritten
  | "callers" :: _ => some "cluster=err-unchanged verify=err makesync=err syncfile=none"
  | _ => none

end Driver.C17
