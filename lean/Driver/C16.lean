import PmtilesModel.Model.Region
import PmtilesModel.Model.TileId
import Driver.Util
namespace Driver.C16
open Pm Pm.Region Driver

def insertU (x : Nat) : List Nat → List Nat
  | [] => [x]
  | y :: ys => if x < y then x :: y :: ys else if x = y then y :: ys else y :: insertU x ys

def handle (ts : List String) : Option String :=
  match ts with
  | "fill" :: _zoom :: rest => do
    -- `fill zoom <region…> B k ids… I bits` : bits[i] = inside(ids[i] + 1)
    let afterB := (rest.dropWhile (· ≠ "B")).drop 1
    match afterB with
    | k :: more => do
      let k ← k.toNat?
      let ids ← (more.take k).mapM String.toNat?
      match more.drop k with
      | ["I", bits] =>
        let bs := bits.toList.map (· == '1')
        let tbl := ids.zip bs
        let inside : Nat → Bool := fun t => (tbl.find? (fun p => p.1 + 1 == t)).map (·.2) |>.getD false
        let ivs := fill inside ids
        some (joinSp (ivs.map (fun p => s!"{p.1}-{p.2}")))
      | ["I"] => some (joinSp ((fill (fun _ => false) ids).map (fun p => s!"{p.1}-{p.2}")))
      | _ => none
    | _ => none
  | "regbounds" :: _ => some "bounds-ok"   -- header bounds = E7 rounding of the region's bounding box (C14.e7_exact); the run is checked by the oracle
  | "genor" :: minz :: ids => do
    let minz ← minz.toNat?
    let ids ← ids.mapM String.toNat?
    if ids.isEmpty then some "" else
    let maxId := ids.foldl max 0
    let maxZ := TileId.goZoom maxId
    let res := generalizeOr TileId.goParentID (maxZ - minz) ids
    some (joinSp ((res.foldr insertU []).map toString))
  | _ => none

end Driver.C16
