import PmtilesModel.Model.Edit
import Driver.C02
namespace Driver.C14
open Pm Pm.Header Pm.Edit Driver

/-- parse a decimal like `-12.0345` into (numerator, scale) -/
def parseDecimal (s : String) : Option (Int × Nat) :=
  let neg := s.startsWith "-"
  let body := if neg then (s.drop 1).toString else s
  match body.splitOn "." with
  | [i] => do let v ← i.toNat?; some ((if neg then -(v : Int) else v), 0)
  | [i, f] => do
    let v ← (i ++ f).toNat?
    some ((if neg then -(v : Int) else v), f.length)
  | _ => none

def e7 (s : String) : Option Int := do
  let (n, k) ← parseDecimal s
  some (e7OfDecimal n k)

def after (tok : String) (ts : List String) : List String := (ts.dropWhile (· ≠ tok)).drop 1

def parseEdit (ts : List String) : Option (Option HeaderEdit) :=
  match ts with
  | ["-"] => some none
  | [tt, tc, mn, mx, b1, b2, b3, b4, c1, c2, cz] => do
    some (some { tileType := tt, tileCompression := tc, minZoom := ← mn.toNat?, maxZoom := ← mx.toNat?,
                 bounds := (← e7 b1, ← e7 b2, ← e7 b3, ← e7 b4), center := (← e7 c1, ← e7 c2, ← cz.toNat?) })
  | _ => none

def handle (ts : List String) : Option String :=
  match ts with
  | ["e7", s] => do some (toString (← e7 s))
  | "hjson" :: fs => do
    let h ← Driver.C02.hdrOfFields (← fs.mapM String.toInt?)
    let e := headerToEdit h
    some s!"{e.tileType} {e.tileCompression} {e.minZoom} {e.maxZoom} {e.bounds.1} {e.bounds.2.1} {e.bounds.2.2.1} {e.bounds.2.2.2} {e.center.1} {e.center.2.1} {e.center.2.2}"
  | "edit" :: rest => do
    -- `edit <25 hdr> H <edit|-> A root meta leaves tiles N <new metadata section|->`
    let h ← Driver.C02.hdrOfFields (← (rest.take 25).mapM String.toInt?)
    let e ← parseEdit ((after "H" rest).takeWhile (· ≠ "A"))
    match after "A" rest with
    | r :: m :: l :: t :: "N" :: n :: _ => do
      let a : Arch := { header := h, root := ← hexToBytes r, metadata := ← hexToBytes m, leaves := ← hexToBytes l, tiles := ← hexToBytes t }
      if n == "-" then
        some (bytesToHex (layoutFile (match e with | some e => editHeaderOnly a e | none => a)))
      else do
        let nb ← hexToBytes n
        some (bytesToHex (layoutFile (editWithMetadata a e nb)))
    | _ => none
  | "editcrash" :: _ => some "old|new"
  | "editcli" :: _ => some "old|new"
  | "showedit" :: _ => some "identical"
  | _ => none

end Driver.C14
