import PmtilesModel.Model.Verify
import Driver.C02
import Driver.C04
namespace Driver.C15
open Pm Pm.Reader Pm.Verify Driver

def errName : VErr → String
  | .zeroOffset => "zero-offset" | .sectionOOB => "section-oob" | .totalLength => "total-length"
  | .entry => "entry" | .addressed => "addressed" | .entries => "entries" | .contents => "contents"
  | .minZoom => "minzoom" | .maxZoom => "maxzoom" | .centerZoom => "centerzoom" | .bounds => "bounds"

/-- `verify ic pad size <25 header fields> <ndirs> (off len entries)*` -/
def handle (ts : List String) : Option String :=
  match ts with
  | "verify" :: _ic :: _pad :: size :: rest => do
    let size ← size.toNat?
    let hf ← (rest.take 25).mapM String.toInt?
    let h ← Driver.C02.hdrOfFields hf
    match rest.drop 25 with
    | nd :: rest' => do
      let nd ← nd.toNat?
      let (ds, _) ← Driver.C04.parseDirs nd rest'
      match ds with
      | (_, _, root) :: leaves =>
        let es := flatten (Driver.C04.mkFetch leaves) 3 root
        match verify h size es with
        | none => some "ok"
        | some e => some ("err " ++ errName e)
      | _ => none
    | _ => none
  | _ => none

end Driver.C15
