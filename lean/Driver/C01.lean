import PmtilesModel.Model.TileId
import Driver.Util
namespace Driver.C01
open Pm.TileId Pm.Hilbert

def handle : List String → Option String
  | ["zxy", z, x, y] => do
    let z ← z.toNat?; let x ← x.toNat?; let y ← y.toNat?
    some s!"id {goZxyToID z x y}"
  | ["id", i] => do
    let i ← i.toNat?
    let r := goIDToZxy i
    some s!"zxy {r.1} {r.2.1} {r.2.2}"
  | ["parent", i] => do
    let i ← i.toNat?
    some s!"id {goParentID i}"
  -- specification side (used by the failing-input search): spec numbering
  | ["spec", z, x, y] => do
    let z ← z.toNat?; let x ← x.toNat?; let y ← y.toNat?
    some s!"id {base z + G z (x, y)}"
  | _ => none

end Driver.C01
