import Driver.C02
import PmtilesModel.Model.Finalize
import PmtilesModel.Model.Convert
import PmtilesModel.Model.Finalize
import PmtilesModel.Spec.ReaderSpec
import Driver.C04
namespace Driver.C06
open Pm Pm.Resolver Pm.Convert Driver

/-- In the driver `enc` tags what Go would gzip: the segment is reported as `gz:<raw hex>`;
    segments are kept as a list (content, gzFlag) instead of concatenated bytes, lengths of
    gz segments come from Go (certificate `gzlens`: content hex ↦ compressed length). -/
structure Seg where
  raw : Bytes
  gz : Bool

def isGz (b : Bytes) : Bool := b.length ≥ 2 && b.headD 0 == 31 && (b.drop 1).headD 0 == 139

def segStr (s : Seg) : String := (if s.gz then "gz:" else "raw:") ++ bytesToHex s.raw

/-- run the model resolver with `enc b = marker ++ b` is not possible without lengths; instead
    the driver executes `add` on an abstract encoding: each new content gets length `lenOf b`. -/
def lookupLen (tbl : List (Bytes × Nat)) (b : Bytes) : Nat :=
  match tbl.find? (fun p => p.1 == b) with
  | some p => p.2
  | none => b.length

/-- abstract encoding: a byte string of the certified length whose first bytes identify the content
    index (so distinct contents stay distinct); only lengths/offsets are observable in entries -/
def parseAdds : List String → Option (List Add)
  | [] => some []
  | s :: rest => do
    match s.splitOn ":" with
    | [id, rl, hex] =>
      let id ← id.toNat?; let rl ← rl.toNat?; let b ← hexToBytes hex
      let r ← parseAdds rest
      some ((id, b, rl) :: r)
    | _ => none

def parseLens : List String → Option (List (Bytes × Nat))
  | [] => some []
  | s :: rest => do
    match s.splitOn "=" with
    | [hex, n] =>
      let b ← hexToBytes hex; let n ← n.toNat?
      let r ← parseLens rest
      some ((b, n) :: r)
    | _ => none

/-- model resolver run where `enc b` has the certified compressed length when `compress` and the
    blob is not already gzip; the data section is reported as the list of new contents in order -/
def resolveOut (dedup compress : Bool) (adds : List Add) (lens : List (Bytes × Nat)) : String :=
  let enc : Bytes → Bytes := fun b =>
    if compress && !isGz b then List.replicate (lookupLen lens b) 0 else b
  -- run the verified `add`, and in parallel collect the segments (first occurrences under dedup; every add otherwise)
  let r := run enc (init dedup) adds
  let segs : List Seg := (adds.foldl (fun (acc : List Bytes × List Seg) a =>
      if dedup && acc.1.contains a.2.1 then acc
      else (a.2.1 :: acc.1, acc.2 ++ [⟨a.2.1, compress && !isGz a.2.1⟩])) ([], [])).2
  s!"E {showEntries r.rev.reverse} S {segs.length} {joinSp (segs.map segStr)} A {r.addressed} N {r.rev.length} C {numContents r} L {r.data.length}"

def splitAt (tok : String) (ts : List String) : List String × List String :=
  (ts.takeWhile (· ≠ tok), (ts.dropWhile (· ≠ tok)).drop 1)

def parseRows : List String → Option (List Row)
  | [] => some []
  | s :: rest => do
    match s.splitOn ":" with
    | [z, c, r, hex] =>
      let z ← z.toNat?; let c ← c.toNat?; let r ← r.toNat?; let b ← hexToBytes hex
      let rs ← parseRows rest
      some (⟨z, c, r, b⟩ :: rs)
    | _ => none

def handle (ts : List String) : Option String :=
  match ts with
  | "resolve" :: d :: c :: rest => do
    let (addsT, lensT) := splitAt "G" rest
    let adds ← parseAdds addsT
    let lens ← parseLens lensT
    some (resolveOut (d == "1") (c == "1") adds lens)
  | "convert" :: d :: fmt :: rest => do
    -- tile passes of convert: rows → adds → resolver; `G` introduces gzip length certificates
    let (rowsT, rest2) := splitAt "M" rest
    let (_metaT, lensT) := splitAt "G" rest2
    let rows ← parseRows rowsT
    let lens ← parseLens lensT
    let adds := convertAdds rows
    if adds.isEmpty then some "no-tiles" else
    let isMvt := fmt == "pbf"
    let out := resolveOut (d == "1") isMvt adds lens
    let ids := adds.map (·.1)
    let tt := match fmt with | "pbf" => 1 | "png" => 2 | "jpg" => 3 | "webp" => 4 | "avif" => 5 | _ => 0
    some s!"{out} T {tt} Z {TileId.goZoom (ids.headD 0)} {TileId.goZoom (ids.getLastD 0)} CL 1"
  | "zoomdef" :: cz :: clon :: clat :: b1 :: b2 :: b3 :: b4 :: "E" :: rest => do
    -- `setZoomCenterDefaults` on a header with this center/bounds and these entries
    let ns ← [cz, clon, clat, b1, b2, b3, b4].mapM String.toInt?
    match ns with
    | [cz, clon, clat, b1, b2, b3, b4] =>
      let h0 ← Driver.C02.hdrOfFields [3,0,0,0,0,0,0,0,0,0,0,0, 0, 1, 1, 1, 0, 0, b1, b2, b3, b4, cz, clon, clat]
      let (es, _) ← parseEntries rest
      if es.isEmpty then some "no-entries" else
      let h := Pm.Finalize.setZoomCenterDefaults h0 es
      some s!"{h.minZoom} {h.maxZoom} {h.centerZoom} {h.centerLonE7} {h.centerLatE7}"
    | _ => none
  | "cluster" :: d :: _ic :: _tt :: _tc :: datahex :: nd :: rest => do
    let data ← hexToBytes datahex
    let nd ← nd.toNat?
    let (ds, _) ← Driver.C04.parseDirs nd rest
    match ds with
    | (_, _, root) :: leaves =>
      let es := Pm.Reader.flatten (Driver.C04.mkFetch leaves) 4 root
      let adds : List Add := es.map (fun e => (e.id, slice data e.off e.len, e.rl))
      some ((resolveOut (d == "1") false adds []) ++ " CL 1")
    | _ => none
  | _ => none

end Driver.C06
