import PmtilesModel.Model.Sync
import PmtilesModel.Model.XXHash
import Driver.Entries
namespace Driver.C20
open Pm Pm.Sync Driver

def hashFn : Bytes → Nat := Pm.XXHash.xxh64

def errName : Err → String
  | .header => "header" | .notClustered => "notclustered" | .iterate => "iterate"
  | .badClustering => "badclustering" | .syncfile => "syncfile" | .http => "http" | .short => "short"

def parseRng (s : String) : Option Rng :=
  match s.splitOn ":" with
  | [a, b, c] => do some ⟨← a.toNat?, ← b.toNat?, ← c.toNat?⟩
  | _ => none

def parseBlock (s : String) : Option Block :=
  match s.splitOn ":" with
  | [a, b, c] => do some ⟨← a.toNat?, 0, ← b.toNat?, ← c.toNat?⟩
  | _ => none

def showBlock (b : Block) : String := s!"{b.start}:{b.off}:{b.len}:{b.hash}"

/-- `fewparts` only disturbs a request for two or more ranges -/
def affectedMulti (kind : String) (k : Nat) (fixedN : Nat) (multi : List MR) : Bool :=
  if kind == "fewparts" then
    match multi[k - fixedN]? with
    | some m => decide (fixedN ≤ k) && decide (2 ≤ m.ranges.length)
    | none => false
  else true

/-- does fault `kind` on request number `k` (0 = the `.sync` GET, 1 = HEAD, 2 = first 16 KiB, …) disturb the run? -/
def affected (kind : String) (k nreqs : Nat) : Bool :=
  if k ≥ nreqs then false
  else if kind == "norange" then k ≥ 2
  else if kind == "hugecount" || kind == "morecount" then k = 0   -- a `.sync` announcing more blocks than it holds
  else if kind == "short" || kind == "tiny" then k ≠ 1
  else true

def handle (ts : List String) : Option String :=
  match stripComment ts with
  | ["mksync", kb, bhex] => do
    let kb ← kb.toNat?
    let b ← hexToBytes bhex
    match syncFileOf hashFn "v" kb b with
    | .ok sf => some ("ok " ++ bytesToHex sf)
    | .error e => some ("err:" ++ errName e)
  | ["sync", kb, dry, fault, ahex, bhex] => do
    let kb ← kb.toNat?
    let a ← hexToBytes ahex
    let b ← hexToBytes bhex
    match syncFileOf hashFn "v" kb b with
    | .error e => some ("nosync:" ++ errName e)
    | .ok sf =>
      match sync hashFn a b sf with
      | .error _ => some ("err file=" ++ ahex)
      | .ok o =>
        let nblocks := (parseSyncFile sf).map (·.length) |>.getD 0
        let summary := s!"matched={o.plan.haveN}/{nblocks} chunks={o.plan.wantR.length}"
        if dry == "1" then
          -- a dry run only downloads the .sync file
          (match fault.splitOn ":" with
           | [kind, "0"] =>
             let okLine := s!"ok {summary} reqs=GET.sync file=" ++ ahex
             if kind == "drop" then some ("err file=" ++ ahex ++ " || " ++ okLine)
             else if affected kind 0 1 && kind != "fewparts" then some ("err file=" ++ ahex) else some okLine
           | _ => some (s!"ok {summary} reqs=GET.sync file=" ++ ahex))
        else
          let nreqs := 1 + o.reqs.length
          let multiMR := makeMultiRanges o.plan.wantR 0 (1048576 - 200)
          let hit := match fault.splitOn ":" with
            | [kind, k] => (match k.toNat? with
                | some k => affected kind k nreqs && affectedMulti kind k (nreqs - multiMR.length) multiMR
                | none => false)
            | _ => false
          let okLine :=
            let fixed := o.reqs.take (o.reqs.length - (makeMultiRanges o.plan.wantR 0 (1048576 - 200)).length)
            let multi := o.reqs.drop fixed.length
            s!"ok {summary} reqs=GET.sync," ++ ",".intercalate fixed ++ "|" ++ "|".intercalate multi ++ " file=" ++ bytesToHex o.newFile
          -- net/http retries an idempotent request whose connection was closed before any response byte
          if hit && fault.startsWith "drop" then some ("err file=" ++ ahex ++ " || " ++ okLine)
          else if hit then some ("err file=" ++ ahex)
          else
            let fixed := o.reqs.take (o.reqs.length - (makeMultiRanges o.plan.wantR 0 (1048576 - 200)).length)
            let multi := o.reqs.drop fixed.length
            some (s!"ok {summary} reqs=GET.sync," ++ ",".intercalate fixed ++ "|" ++ "|".intercalate multi ++ " file=" ++ bytesToHex o.newFile)
  | "mmr" :: base :: mx :: rs => do
    let base ← base.toNat?; let mx ← mx.toNat?
    let rs ← rs.mapM parseRng
    let out := makeMultiRanges rs base mx
    some (joinSp (toString out.length :: out.map (fun m => s!"{m.str}#{m.ranges.length}")))
  | "syncblocks" :: bs => do
    let bs ← bs.mapM parseBlock
    let ser := serBlocks 0 bs
    match deserBlocks bs.length 0 0 ser with
    | some back => some (joinSp (bytesToHex ser :: back.map showBlock))
    | none => some (bytesToHex ser ++ " none")
  | _ => none

end Driver.C20
