import Driver.Util
import Driver.C01
import Driver.C02
import Driver.C03
import Driver.C04
import Driver.C05
import Driver.C06
import Driver.C07
import Driver.C08
import Driver.C11
import Driver.C12
import Driver.C14
import Driver.C15
import Driver.C16
import Driver.C17
import Driver.C18
import Driver.C20
/-!
`pmdriver`: reads one case per line (`<verb> args…`), answers one line per case.
Unknown verbs / unparsable arguments are answered `bad-op` (never defaulted).
-/
open Driver

structure DState where
  dummy : Unit := ()

def step (st : DState) (line : String) : DState × String :=
  let toks := (line.trimAscii.toString.splitOn " ").filter (· ≠ "")
  -- `cli<verb> …`: the same case carried out through the command-line binary; the model's answer is the verb's
  let toks := match toks with
    | v :: rest => if v.startsWith "cli" && v.length > 3 then (v.drop 3).toString :: rest else toks
    | [] => toks
  match toks with
  | [] => (st, "bad-op")
  | _ =>
    let hs : List (List String → Option String) := [Driver.C01.handle, Driver.C02.handle, Driver.C03.handle, Driver.C04.handle, Driver.C05.handle, Driver.C06.handle, Driver.C07.handle, Driver.C08.handle, Driver.C11.handle, Driver.C12.handle, Driver.C14.handle, Driver.C15.handle, Driver.C16.handle, Driver.C17.handle, Driver.C18.handle, Driver.C20.handle]
    match hs.findSome? (fun h => h toks) with
    | some r => (st, r)
    | none => (st, "bad-op")

partial def loop (hin : IO.FS.Stream) (hout : IO.FS.Stream) (st : DState) : IO Unit := do
  let line ← hin.getLine
  if line.isEmpty then return ()
  let (st', out) := step st line
  hout.putStrLn out
  loop hin hout st'

def main : IO Unit := do
  let hin ← IO.getStdin
  let hout ← IO.getStdout
  loop hin hout {}
  hout.flush
