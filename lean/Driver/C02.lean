import PmtilesModel.Model.Header
import PmtilesModel.Model.Edit
import Driver.Entries
namespace Driver.C02
open Pm Pm.Header Driver

def hdrOfFields (ns : List Int) : Option Header :=
  match ns with
  | [sv,a1,a2,a3,a4,a5,a6,a7,a8,a9,a10,a11, c, ic, tc, tt, mn, mx, b1,b2,b3,b4, cz, c1,c2] =>
    some { specVersion := sv.toNat, rootOffset := a1.toNat, rootLength := a2.toNat, metadataOffset := a3.toNat,
           metadataLength := a4.toNat, leafDirectoryOffset := a5.toNat, leafDirectoryLength := a6.toNat,
           tileDataOffset := a7.toNat, tileDataLength := a8.toNat, addressedTilesCount := a9.toNat,
           tileEntriesCount := a10.toNat, tileContentsCount := a11.toNat,
           clustered := (c == 1), internalCompression := ic.toNat, tileCompression := tc.toNat, tileType := tt.toNat,
           minZoom := mn.toNat, maxZoom := mx.toNat,
           minLonE7 := b1, minLatE7 := b2, maxLonE7 := b3, maxLatE7 := b4,
           centerZoom := cz.toNat, centerLonE7 := c1, centerLatE7 := c2 }
  | _ => none

def fieldsOfHdr (h : Header) : String :=
  joinSp ([toString h.specVersion, toString h.rootOffset, toString h.rootLength, toString h.metadataOffset,
    toString h.metadataLength, toString h.leafDirectoryOffset, toString h.leafDirectoryLength,
    toString h.tileDataOffset, toString h.tileDataLength, toString h.addressedTilesCount,
    toString h.tileEntriesCount, toString h.tileContentsCount, (if h.clustered then "1" else "0"),
    toString h.internalCompression, toString h.tileCompression, toString h.tileType,
    toString h.minZoom, toString h.maxZoom, toString h.minLonE7, toString h.minLatE7,
    toString h.maxLonE7, toString h.maxLatE7, toString h.centerZoom, toString h.centerLonE7, toString h.centerLatE7])


def splitBar (ts : List String) : List String × List String :=
  (ts.takeWhile (· ≠ "|"), (ts.dropWhile (· ≠ "|")).drop 1)

def handle : List String → Option String
  | "hser" :: fs => do
    let ns ← fs.mapM String.toInt?
    let h ← hdrOfFields ns
    some (bytesToHex (serializeHeader h))
  | "hseq" :: fs => do
    -- two serializations in sequence; each result must be that of a fresh call
    let (a, b) := splitBar fs
    let ha ← hdrOfFields (← a.mapM String.toInt?)
    let hb ← hdrOfFields (← b.mapM String.toInt?)
    some (bytesToHex (serializeHeader ha) ++ " " ++ bytesToHex (serializeHeader hb))
  | ["hdes", hex] => do
    let d ← hexToBytes hex
    match deserializeHeader d with
    | .ok h => some ("ok " ++ fieldsOfHdr h)
    | .error .badMagic => some "err badmagic"
    | .error .badVersion => some "err badversion"
    | .error .short => some "err short"
  | "show" :: fs => do
    -- the listing of `pmtiles show` for an archive carrying this header (the fields a consumer of the codec prints)
    let h ← hdrOfFields (← fs.mapM String.toInt?)
    let ic := if h.internalCompression == 1 then 1 else 2     -- the harness writes gzip unless the case says none
    some (joinSp ["pmtiles_spec_version=3", "tile_type=" ++ Pm.Edit.tileTypeToString h.tileType,
      "min_zoom=" ++ toString h.minZoom, "max_zoom=" ++ toString h.maxZoom, "center_zoom=" ++ toString h.centerZoom,
      "addressed_tiles_count=" ++ toString h.addressedTilesCount, "tile_entries_count=" ++ toString h.tileEntriesCount,
      "tile_contents_count=" ++ toString h.tileContentsCount, "clustered=" ++ (if h.clustered then "true" else "false"),
      "internal_compression=" ++ Pm.Edit.compressionToString ic, "tile_compression=" ++ Pm.Edit.compressionToString h.tileCompression])
  | _ => none

end Driver.C02
