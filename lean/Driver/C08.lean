import PmtilesModel.Model.Cache
import Driver.Util
namespace Driver.C08
open Pm.Cache Driver

structure Ev where
  kind : String
  key : Key
  total : Int
  ncache : Nat
  nlist : Nat
  ninfl : Nat
  nwait : Nat
  detail : List String

/-- `kind|name|etag|off|len|total|ncache|nlist|ninfl|nwait|d1;d2;d3` -/
def parseEv (s : String) : Option Ev :=
  match s.splitOn "|" with
  | [kind, name, etag, off, len, total, ncache, nlist, ninfl, nwait, detail] => do
    some { kind := kind, key := ⟨name, etag, ← off.toNat?, ← len.toNat?⟩, total := ← total.toInt?,
           ncache := ← ncache.toNat?, nlist := ← nlist.toNat?, ninfl := ← ninfl.toNat?, nwait := ← nwait.toNat?,
           detail := detail.splitOn ";" }
  | _ => none

def obs (s : St) : String := s!"{s.total},{s.cache.length},{s.evict.length},{s.inflight.length},{waiters s}"
def obsEv (e : Ev) : String := s!"{e.total},{e.ncache},{e.nlist},{e.ninfl},{e.nwait}"

def outName : ReqOutcome → String
  | .hit => "hit" | .join => "join" | .miss => "miss"

/-- replay the observed loop events through the model, comparing every observable -/
def replay (limit : Int) : Nat → St → List Ev → String
  | i, s, [] => s!"trace-ok n={i} final={s.total},{s.cache.length},{s.evict.length}"
  | i, s, e :: rest =>
    if e.kind == "req" then
      let purgeTag := e.detail.getD 1 ""
      let (s', out) := onReq s e.key purgeTag
      if outName out != e.detail.getD 0 "" then s!"diverge@{i} req outcome model={outName out} observed={e.detail.getD 0 ""}"
      else if obs s' != obsEv e then s!"diverge@{i} req model={obs s'} observed={obsEv e}"
      else replay limit (i+1) s' rest
    else if e.kind == "resp" then
      let ok := e.detail.getD 0 "" == "ok"
      let size := (e.detail.getD 1 "0").toNat?.getD 0
      let s' := onResp limit s e.key ok size (e.detail.getD 2 "")
      if obs s' != obsEv e then s!"diverge@{i} resp model={obs s'} observed={obsEv e}"
      else replay limit (i+1) s' rest
    else replay limit (i+1) s rest     -- purge / evict: informational

def handle (ts : List String) : Option String :=
  match ts with
  | "srvtrace" :: limit :: rest => do
    let limit ← limit.toInt?
    let evT := ((rest.dropWhile (· ≠ "E")).drop 1).takeWhile (· ≠ "#")
    let evs ← evT.mapM parseEv
    some (replay limit 0 init evs)
  | "srvscript" :: _ => some "n/a"     -- judged by the harness oracle (single version / uncached answer / fault containment)
  | "srvreal" :: _ => some "n/a"       -- real backends: judged by the harness oracle
  | _ => none

end Driver.C08
