import PmtilesModel.Model.Path
import Driver.Entries
namespace Driver.C11
open Pm.Path Driver

def hx (s : Str) : String := bytesToHex s

/-- files that exist below the served directory in the harness' fixture tree (relative, cleaned) -/
def fixtureFiles : List (List Str) :=
  let b (s : String) : Str := s.toUTF8.toList.map (·.toNat)
  [[b "a.pmtiles"], [b "sub", b "a.pmtiles"], [b "sub", b "deep", b "b.pmtiles"], [b "we ird.pmtiles"]]

def handle (ts : List String) : Option String :=
  match ts with
  | ["path", hex] => do
    let p ← hexToBytes hex
    match route p with
    | .tile t => some s!"tile {hx t.name} {t.z} {t.x} {t.y} {hx t.ext}"
    | .tilejson n => some s!"json {hx n}"
    | .metadata n => some s!"meta {hx n}"
    | .root => some "root"
    | .notFound => some "none"
  | ["local", hex] => do
    -- file bucket over the fixture tree: refused / the file that is opened (relative, cleaned) / no such file
    let key ← hexToBytes hex
    match resolveLocal [] key with
    | none => some "refused"
    | some f => if fixtureFiles.contains f then some ("ok " ++ hx ((f.intersperse [slash]).flatten)) else some "nofile"
  | ["srvkey", hex] => do
    -- the bucket key(s) a request reads
    let p ← hexToBytes hex
    match bucketKey (route p) with
    | some k => some ("key " ++ hx k)
    | none => some "nokey"
  | _ => none

end Driver.C11
