import PmtilesModel.Model.Extract
import PmtilesModel.Spec.Hilbert
import Driver.C04
namespace Driver.C07
open Pm Pm.Extract Driver

def parseIv (s : String) : Option (Nat × Nat) :=
  match s.splitOn "-" with
  | [a, b] => do some (← a.toNat?, ← b.toNat?)
  | _ => none

def inS (ivs : List (Nat × Nat)) (t : Nat) : Bool := ivs.any (fun iv => iv.1 ≤ t && t < iv.2)
def meetsS (ivs : List (Nat × Nat)) (lo hi : Nat) : Bool := ivs.any (fun iv => max iv.1 lo < min iv.2 hi)

def parseRng (s : String) : Option Rng :=
  match s.splitOn ":" with
  | [a, b, c] => do some ⟨← a.toNat?, ← b.toNat?, ← c.toNat?⟩
  | _ => none

def showRng (r : Rng) : String := s!"{r.src}:{r.dst}:{r.len}"

def parseCd (s : String) : Option (Nat × Nat) :=
  match s.splitOn "," with
  | [a, b] => do some (← a.toNat?, ← b.toNat?)
  | _ => none

/-- `src:dst:len:w,d;w,d;…` -/
def parsePlan (s : String) : Option Plan :=
  match s.splitOn ":" with
  | [a, b, c, cds] => do
    let cs ← (cds.splitOn ";").mapM parseCd
    some ⟨⟨← a.toNat?, ← b.toNat?, ← c.toNat?⟩, cs⟩
  | _ => none

def insertById (e : Entry) : List Entry → List Entry
  | [] => [e]
  | x :: xs => if e.id ≤ x.id then e :: x :: xs else x :: insertById e xs

def reencodeStr (es : List Entry) : String :=
  let r := reencode es
  s!"E {showEntries r.out.reverse} R {r.ranges.length} {joinSp (r.ranges.reverse.map showRng)} T {r.dstOff} A {sumRl es} C {r.seen.length}"

def handle (ts : List String) : Option String :=
  match ts with
  | "relevant" :: maxz :: rest => do
    let maxz ← maxz.toNat?
    let ivT := rest.takeWhile (· ≠ "D")
    let ivs ← ivT.mapM parseIv
    let (es, _) ← parseEntries ((rest.dropWhile (· ≠ "D")).drop 1)
    let r := relevantAux (inS ivs) (meetsS ivs) (Pm.Hilbert.base (maxz + 1)) es
    some s!"T {showEntries r.1} L {showEntries r.2}"
  | "reencode" :: rest => do
    let (es, _) ← parseEntries rest
    some (reencodeStr es)
  | "mergecheck" :: num :: den :: n :: rest => do
    let num ← num.toNat?; let den ← den.toNat?; let n ← n.toNat?
    let ranges ← (rest.take n).mapM parseRng
    match rest.drop n with
    | "P" :: ps => do
      let plans ← ps.mapM parsePlan
      let budget := mergeBudget (sumLens ranges) num den
      some (if mergeOK ranges budget plans then s!"ok transfer={totalTransfer plans}" else "violates")
    | _ => none
  | "extract" :: maxz :: rest => do
    -- `extract maxz <intervals> A ic pad datahex ndirs dirs…`: restriction of a clustered source to S
    let maxz ← maxz.toNat?
    let ivs ← (rest.takeWhile (· ≠ "A")).mapM parseIv
    match (rest.dropWhile (· ≠ "A")).drop 1 with
    | _ic :: datahex :: nd :: rest' => do
      let data ← hexToBytes datahex
      let nd ← nd.toNat?
      let (ds, _) ← Driver.C04.parseDirs nd rest'
      match ds with
      | (_, _, root) :: leaves =>
        let fetch := Driver.C04.mkFetch leaves
        let lastTile := Pm.Hilbert.base (maxz + 1)
        let r0 := relevantAux (inS ivs) (meetsS ivs) lastTile root
        let fromLeaves := r0.2.flatMap (fun l =>
          match fetch l.off l.len with
          | some d => (relevantAux (inS ivs) (meetsS ivs) lastTile d).1
          | none => [])
        let all := (r0.1 ++ fromLeaves).foldr insertById []
        let r := reencode all
        let out := render data r.ranges
        some s!"E {showEntries r.out.reverse} D {bytesToHex out} A {sumRl all} N {all.length} C {r.seen.length}"
      | _ => none
    | _ => none
  | _ => none

end Driver.C07
