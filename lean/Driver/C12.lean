import PmtilesModel.Model.Http
import Driver.C02
import Driver.C04
namespace Driver.C12
open Pm Pm.Http Pm.Path Pm.Reader Driver

def optS (o : Option String) : String := o.getD "-"

def inmOf : String → Option Inm
  | "none" => some .none | "exact" => some .exact | "star" => some .star | "weak" => some .weak
  | "list" => some .list | "other" => some .other | _ => none

def after (tok : String) (ts : List String) : List String := (ts.dropWhile (· ≠ tok)).drop 1

/-- `http method inm pathhex N namehex H <25> M metahex A ic datahex nd dirs…` -/
def handle (ts : List String) : Option String :=
  match ts with
  | "http" :: method :: inm :: pathhex :: rest => do
    let inm ← inmOf inm
    let p ← hexToBytes pathhex
    let name ← hexToBytes ((after "N" rest).headD "-")
    let hf ← ((after "H" rest).take 25).mapM String.toInt?
    let h ← Driver.C02.hdrOfFields hf
    let metaB ← hexToBytes ((after "M" rest).headD "-")
    match after "A" rest with
    | _ic :: datahex :: nd :: drest => do
      let data ← hexToBytes datahex
      let nd ← nd.toNat?
      let (ds, _) ← Driver.C04.parseDirs nd drest
      match ds with
      | (_, _, root) :: leaves =>
        let fetch := Driver.C04.mkFetch leaves
        let a : Archive := { header := h,
                             tile := fun t => match walkGo fetch 3 root t with
                               | some e => some (slice data e.off e.len)
                               | none => none,
                             metadata := metaB,
                             tilejson := fun _ => [0x54, 0x4A] }   -- "TJ": content validated by the harness oracle
        let arch : Str → Option Archive := fun n => if n = name then some a else none
        let r := serveHTTP arch "http://public" method inm p
        if r.status = 200 ∨ r.status = 304 then
          let body := if r.body = [0x54, 0x4A] then "TJ" else bytesToHex r.body
          some s!"{r.status} ct={optS r.ctype} ce={optS r.cenc} etag={if r.hasEtag then 1 else 0} body={body}"
        else if r.status = 204 then some "204 body=-"
        else some s!"{r.status}"
      | _ => none
    | _ => none
  | _ => none

end Driver.C12
