import PmtilesModel.Model.Bucket
import Driver.Util
namespace Driver.C18
open Pm Pm.Bucket Driver

/-- `bucket kind size|absent off len cond` : object = bytes 0..size-1 (position i holds i % 251), current tag 1, old tag 2 -/
def handle (ts : List String) : Option String :=
  match ts with
  | ["bucket", kind, size, off, len, cond] => do
    let off ← off.toNat?; let len ← len.toNat?
    let o : Option Obj ← (if size == "absent" then some none else do
      let n ← size.toNat?
      some (some { bytes := (List.range n).map (· % 251), tag := 1 }))
    let c : Option Nat ← (match cond with | "none" => some none | "cur" => some (some 1) | "old" => some (some 2) | _ => none)
    let showOut : Outcome → String := fun out => match out with
      | .ok d => s!"ok {off} {off + d.length}"
      | .refresh => "refresh"
      | .err => "err"
    -- the read's connection is dropped once: reported as a transport failure, or retried with the same condition
    -- the origin answers with a status that is neither 200/206 nor a refresh signal (204, 3xx without redirect, 403, 5xx …)
    if kind.startsWith "httpstatus" then some "err" else
    if kind == "httpflaky" then some ("err || " ++ showOut (readHttp true o off len c)) else
    let out := match kind with
      | "mem" => readMem o off len c
      | "file" => readFile o off len c
      | "http" => readHttp true o off len c
      | "httpdown" => readHttp false o off len c
      | _ => Outcome.err
    match out with
    | .ok d => some s!"ok {off} {off + d.length}"
    | .refresh => some "refresh"
    | .err => some "err"
  | "filerace" :: _ => some "consistent"   -- stress of the real backend; the model has no interleavings to offer
  | "appear" :: _ => some "miss-then-ok miss-then-ok"   -- a bucket has no memory of its own: each read sees the object store as it is
  | "retag" :: _ => some "changed"     -- assumption of C18 (tag changes on replacement), observed by the tie
  | _ => none

end Driver.C18
