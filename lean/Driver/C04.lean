import PmtilesModel.Model.Reader
import Driver.Entries
namespace Driver.C04
open Pm Pm.Reader Driver

/-- parse `k` directories `(off len entries)` -/
def parseDirs : Nat → List String → Option (List (Nat × Nat × List Entry) × List String)
  | 0, ts => some ([], ts)
  | k+1, o :: l :: rest => do
    let o ← o.toNat?; let l ← l.toNat?
    let (es, rest') ← parseEntries rest
    let (ds, rest'') ← parseDirs k rest'
    some ((o, l, es) :: ds, rest'')
  | _, _ => none

def mkFetch (ds : List (Nat × Nat × List Entry)) : Fetch := fun off len =>
  (ds.find? (fun d => d.1 == off && d.2.1 == len)).map (·.2.2)

def handle (ts : List String) : Option String :=
  match ts with
  | "find" :: t :: rest => do
    let t ← t.toNat?
    let (es, _) ← parseEntries rest
    match findTile es.toArray t with
    | some e => some ("some " ++ showEntry e)
    | none => some "none"
  | "arch" :: _ic :: datahex :: nd :: rest => do
    let data ← hexToBytes datahex
    let nd ← nd.toNat?
    let (ds, rest') ← parseDirs nd rest
    match ds, rest' with
    | (_, _, root) :: leaves, "Q" :: qs => do
      let qs ← qs.mapM String.toNat?
      let fetch := mkFetch leaves
      let outs := qs.map (fun t =>
        match tileAnswer fetch 3 root data t with
        | (200, b) => s!"srv=200:{bytesToHex b} cli={bytesToHex b}"
        | (s, _) => s!"srv={s} cli=-")
      some (joinSp outs)
    | _, _ => none
  | _ => none

end Driver.C04
