import PmtilesModel.Model.DirCodec
import PmtilesModel.Spec.DirWire
import Driver.Entries
namespace Driver.C03
open Pm Pm.DirCodec Driver

def parseFlags (s : String) : List Bool := s.toList.map (· == '1')

def handle (ts : List String) : Option String :=
  match stripComment ts with
  | "dser" :: _c :: rest => do
    -- payload before compression (the harness decompresses Go's gzip output)
    let (es, _) ← parseEntries rest
    some (bytesToHex (serialize es))
  | ["ddes", hex] => do
    let b ← hexToBytes hex
    match deserialize b with
    | some es => some ("ok " ++ showEntries es)
    | none => some "err"
  | ["dspec", hex] => do
    let b ← hexToBytes hex
    match DirWire.specDecode b with
    | some es => some ("ok " ++ showEntries es)
    | none => some "err"
  | "denc" :: flags :: rest => do
    let (es, _) ← parseEntries rest
    some (bytesToHex (DirWire.specEncode es (parseFlags flags)))
  | _ => none

end Driver.C03
