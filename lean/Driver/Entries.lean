import PmtilesModel.Model.Entry
import Driver.Util
namespace Driver
open Pm

def parseEntry (s : String) : Option Entry :=
  match s.splitOn ":" with
  | [a, b, c, d] => do
    some ⟨← a.toNat?, ← b.toNat?, ← c.toNat?, ← d.toNat?⟩
  | _ => none

def showEntry (e : Entry) : String := s!"{e.id}:{e.off}:{e.len}:{e.rl}"

def showEntries (es : List Entry) : String :=
  joinSp (toString es.length :: es.map showEntry)

/-- `n e1 … en rest…` -/
def parseEntries (ts : List String) : Option (List Entry × List String) := do
  match ts with
  | [] => none
  | n :: rest =>
    let n ← n.toNat?
    if rest.length < n then none else
    let es ← (rest.take n).mapM parseEntry
    some (es, rest.drop n)

def bytesToHex (b : List Nat) : String := toHex (b.map UInt8.ofNat)
def hexToBytes (s : String) : Option (List Nat) := (ofHex s).map (·.map UInt8.toNat)

/-- drop everything from a `#` token on (annotations for the harness oracle) -/
def stripComment (ts : List String) : List String := ts.takeWhile (· ≠ "#")

end Driver
