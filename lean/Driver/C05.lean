import PmtilesModel.Model.Build
import PmtilesModel.Model.DirCodec
import Driver.Entries
namespace Driver.C05
open Pm Pm.Build Driver

/-- `k (len entries)*` -/
def parseLeaves : Nat → List String → Option (List (Nat × List Entry) × List String)
  | 0, ts => some ([], ts)
  | k+1, l :: rest => do
    let l ← l.toNat?
    let (es, rest') ← parseEntries rest
    let (ls, rest'') ← parseLeaves k rest'
    some ((l, es) :: ls, rest'')
  | _, _ => none

def handle (ts : List String) : Option String :=
  match ts with
  | "build" :: ls :: rest => do
    -- functional tie, internal compression none: exact bytes
    let ls ← ls.toNat?
    let (es, _) ← parseEntries rest
    let b := buildRootsLeaves DirCodec.serialize es ls
    some s!"{bytesToHex b.rootBytes} {bytesToHex b.leavesBytes} {b.numLeaves}"
  | "optcheck" :: _ic :: budget :: rest => do
    let budget ← budget.toNat?
    let (es, rest1) ← parseEntries rest
    match rest1 with
    | "C" :: rootLen :: rest2 => do
      let rootLen ← rootLen.toNat?
      let (root, rest3) ← parseEntries rest2
      match rest3 with
      | k :: rest4 => do
        let k ← k.toNat?
        let (leaves, _) ← parseLeaves k rest4
        some (if certOK budget rootLen es root leaves then "ok" else "violates")
      | _ => none
    | _ => none
  | "finroot" :: _ => some "within"     -- theorem C05.opt_within_16k under obligation root_budgets_fit
  | "finrootx" :: _ => some "within"    -- the same for the root directory a whole-archive Extract writes
  | _ => none

end Driver.C05
