import PmtilesModel.Model.Build
import PmtilesModel.Model.DirCodec
import PmtilesModel.Model.F32Sched
import Driver.Entries
namespace Driver.C05
open Pm Pm.Build Driver

/-- `k (len entries)*` -/
def parseLeaves : Nat → List String → Option (List (Nat × List Entry) × List String)
  | 0, ts => some ([], ts)
  | k+1, l :: rest => do
    let l ← l.toNat?
    let (es, rest') ← parseEntries rest
    let (ls, rest'') ← parseLeaves k rest'
    some ((l, es) :: ls, rest'')
  | _, _ => none

/-- is `ls` the truncation of some member of the float32 schedule started at `x`? (`fuel` rounds) -/
def onSchedule (ls : Nat) : Nat → F32.F32 → Bool
  | 0, _ => false
  | fuel+1, x =>
    let t := F32.trunc x
    if t = ls then true else if ls < t then false else onSchedule ls fuel (F32.mul12 x)

def handle (ts : List String) : Option String :=
  match ts with
  | "build" :: ls :: rest => do
    -- functional tie, internal compression none: exact bytes
    let ls ← ls.toNat?
    let (es, _) ← parseEntries rest
    let b := buildRootsLeaves DirCodec.serialize es ls
    some s!"{bytesToHex b.rootBytes} {bytesToHex b.leavesBytes} {b.numLeaves}"
  | "optcheck" :: _ic :: budget :: rest => do
    let budget ← budget.toNat?
    let (es, rest1) ← parseEntries rest
    match rest1 with
    | "C" :: rootLen :: rest2 => do
      let rootLen ← rootLen.toNat?
      let (root, rest3) ← parseEntries rest2
      match rest3 with
      | k :: rest4 => do
        let k ← k.toNat?
        let (leaves, _) ← parseLeaves k rest4
        some (if certOK budget rootLen es root leaves then "ok" else "violates")
      | _ => none
    | _ => none
  | ["f32mul", b] => do
    -- bit-exact tie of the schedule arithmetic: IEEE bits of `x * 1.2` and `int(x)`
    let b ← b.toNat?
    let x := F32.ofBits b
    if b / 8388608 < 139 ∨ 190 ≤ b / 8388608 then none
    else some s!"{F32.bits (F32.mul12 x)} {F32.trunc x}"
  | ["f32init", n] => do
    let n ← n.toNat?
    some s!"{F32.bits (F32.init n)}"
  | ["f32member", n, ls] => do
    let n ← n.toNat?
    let ls ← ls.toNat?
    some (if onSchedule ls 400 (F32.init n) then "on" else "off")
  | ["f32sched", n, ls] => do
    let n ← n.toNat?
    let ls ← ls.toNat?
    some (if onSchedule ls 400 (F32.init n) then "on" else "off")
  | "finroot" :: _ => some "within"     -- theorem C05.opt_within_16k under obligation root_budgets_fit
  | "finrootx" :: _ => some "within"    -- the same for the root directory a whole-archive Extract writes
  | _ => none

end Driver.C05
