/-! Parsing / printing glue for the line protocol (trusted glue, not verified). -/
namespace Driver

def hexDigit (n : Nat) : Char :=
  if n < 10 then Char.ofNat (48 + n) else Char.ofNat (87 + n)

def toHex (bs : List UInt8) : String :=
  if bs.isEmpty then "-" else
  String.ofList (bs.foldr (fun b acc => hexDigit (b.toNat / 16) :: hexDigit (b.toNat % 16) :: acc) [])

def hexVal (c : Char) : Option Nat :=
  if '0' ≤ c ∧ c ≤ '9' then some (c.toNat - 48)
  else if 'a' ≤ c ∧ c ≤ 'f' then some (c.toNat - 87)
  else none

def ofHexAux : List Char → List UInt8 → Option (List UInt8)
  | [], acc => some acc.reverse
  | [_], _ => none
  | a :: b :: rest, acc =>
    match hexVal a, hexVal b with
    | some x, some y => ofHexAux rest (UInt8.ofNat (x * 16 + y) :: acc)
    | _, _ => none

def ofHex (s : String) : Option (List UInt8) :=
  if s == "-" then some [] else ofHexAux s.toList []

def natList? (ts : List String) : Option (List Nat) := ts.mapM String.toNat?

def int? (s : String) : Option Int := s.toInt?

def joinSp (xs : List String) : String := " ".intercalate xs

end Driver
