import PmtilesModel.Props.C01
import PmtilesModel.Props.C02
import PmtilesModel.Obligations.C02
import PmtilesModel.Props.C03
import PmtilesModel.Props.C04
import PmtilesModel.Obligations.C04
import PmtilesModel.Props.C17
import PmtilesModel.Obligations.C17
