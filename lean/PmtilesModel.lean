import PmtilesModel.Props.C01
