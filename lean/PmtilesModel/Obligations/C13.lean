import PmtilesModel.Obligations.CLI
/-! `pmtiles cluster` (main.go) calls `Cluster` the way the `clicluster` cases assume. -/
namespace Pm.Obligations.C13
open Pm Pm.Obligations.CLI

theorem cluster_call : callOK "Cluster:cluster" ["logger", "Cluster.Input", "!Cluster.NoDeduplication"] = true := by decide
theorem cluster_error_fatal : fatalOK "Cluster:cluster" = true := by decide

end Pm.Obligations.C13
