import PmtilesModel.Obligations.CLI
/-! `pmtiles extract` (main.go): the transfer budget the user states is the one `Extract` receives,
    and the documented defaults are 4 threads, 5 % overfetch. -/
namespace Pm.Obligations.C19
open Pm Pm.Obligations.CLI

theorem extract_budget_args : callOK "Extract:extract"
    ["logger", "Extract.Bucket", "Extract.Input", "Extract.Minzoom", "Extract.Maxzoom", "Extract.Region", "Extract.Bbox",
     "Extract.Output", "Extract.DownloadThreads", "Extract.Overfetch", "Extract.DryRun"] = true := by decide
theorem budget_defaults : (defaultOK "Extract.DownloadThreads" "4" && defaultOK "Extract.Overfetch" "0.05") = true := by decide

end Pm.Obligations.C19
