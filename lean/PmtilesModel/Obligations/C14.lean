import PmtilesModel.Obligations.CLI
/-! `pmtiles edit` (main.go) is one call of `Edit` with both inputs (one atomic edit). -/
namespace Pm.Obligations.C14
open Pm Pm.Obligations.CLI

theorem edit_call : callOK "Edit:edit" ["logger", "Edit.Input", "Edit.HeaderJson", "Edit.Metadata"] = true := by decide
theorem edit_error_fatal : fatalOK "Edit:edit" = true := by decide

end Pm.Obligations.C14
