import PmtilesModel.Gen.Facts
/-! Facts obligations about `main.go`, regenerated on every run by the AST reader: how each command
    hands its options to the library entry point the model describes, that a returned error ends
    the process with a failure status, and the option defaults.  `none` / `?` = the pattern is not a
    plain option any more = unknown, not an alarm (the `cli…` cases of the correspondence decide then). -/
namespace Pm.Obligations.CLI
open Pm

def find {α : Type} (k : String) : List (String × α) → Option α
  | [] => none
  | (n, v) :: r => if n == k then some v else find k r

def argsMatch : List String → List String → Bool
  | [], [] => true
  | e :: es, g :: gs => (g == "?" || e == g) && argsMatch es gs
  | _, _ => false

/-- the call of command `k` has exactly the expected arguments (or is not recognisable) -/
def callOK (k : String) (expected : List String) : Bool :=
  match find k Facts.cliCalls with
  | some (some got) => argsMatch expected got
  | _ => true

/-- an error of command `k` is fatal (or the pattern is unknown) -/
def fatalOK (k : String) : Bool :=
  match find k Facts.cliErrFatal with
  | some (some false) => false
  | _ => true

/-- option `k` has the default `v` (or none is declared as a struct tag) -/
def defaultOK (k v : String) : Bool :=
  match find k Facts.cliDefaults with
  | some d => d == v
  | none => true

end Pm.Obligations.CLI
