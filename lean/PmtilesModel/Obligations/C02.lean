import PmtilesModel.Gen.Facts
import PmtilesModel.Spec.HeaderLayout
import PmtilesModel.Model.Header
/-!
Facts obligations for C02: the layout tables extracted from today's `SerializeHeader` and
`DeserializeHeader` (index expressions in the Go AST) equal the specification table; magic,
version byte, version gate and header length are the specified ones.  An extraction that found
nothing (`[]` / `none`) is "unknown", not a failure.
-/
namespace Pm.Obligations.C02
open Pm

def specRows : List (String × Nat × Nat × Bool) :=
  HeaderLayout.v3.map (fun f => (f.name, f.offset, f.width, f.signed))

theorem ser_layout_is_spec : Facts.serLayout = [] ∨ Facts.serLayout = specRows := by decide
theorem deser_layout_is_spec : Facts.deserLayout = [] ∨ Facts.deserLayout = specRows := by decide
theorem magic_written : Facts.magicWritten = none ∨ Facts.magicWritten = some "PMTiles" := by decide
theorem magic_checked : Facts.magicChecked = none ∨ Facts.magicChecked = some "PMTiles" := by decide
theorem version_written : Facts.versionWritten = none ∨ Facts.versionWritten = some HeaderLayout.version := by decide
theorem version_gate : Facts.versionGate = none ∨ Facts.versionGate = some 3 := by decide
theorem header_len : Facts.headerLen = none ∨ Facts.headerLen = some HeaderLayout.headerLen := by decide
/-- the model's own table is the same one -/
theorem model_widths : Header.fieldWidths = specRows.map (fun r => r.2.2.1) := by decide

end Pm.Obligations.C02
