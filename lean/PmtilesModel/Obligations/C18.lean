import PmtilesModel.Gen.Facts
/-! Facts obligation for C18: the status set of `isRefreshRequiredCode` in today's bucket.go. -/
namespace Pm.Obligations.C18
open Pm
theorem refresh_code_set : Facts.refreshCodes = [] ∨ Facts.refreshCodes = [412, 416] := by decide
end Pm.Obligations.C18
