import PmtilesModel.Obligations.CLI
/-! `pmtiles verify` (main.go): the verdict of `Verify` is the exit status of the command. -/
namespace Pm.Obligations.C15
open Pm Pm.Obligations.CLI

theorem verify_call : callOK "Verify:verify" ["logger", "Verify.Input"] = true := by decide
theorem verify_error_fatal : fatalOK "Verify:verify" = true := by decide

end Pm.Obligations.C15
