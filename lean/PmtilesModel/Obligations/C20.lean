import PmtilesModel.Gen.Facts
import PmtilesModel.Obligations.CLI
/-! Facts obligations for C20, extracted from `sync.go` / `makesync.go` by the AST reader
    (`none` = pattern not found = unknown, not an alarm): the shape the model of `Sync` assumes. -/
namespace Pm.Obligations.C20
open Pm

def notFalse : Option Bool → Bool
  | some false => false
  | _ => true

def allNotFalse : List (String × Option Bool) → Bool
  | [] => true
  | (_, o) :: r => notFalse o && allNotFalse r

def isOr (v : Nat) : Option Nat → Bool
  | some x => x == v
  | none => true

/-- `haveCond` of the model requires contiguity in both files; so does the code -/
theorem have_merge_checks_dst : notFalse Facts.syncHaveMergeChecksDst = true := by decide
/-- the list-based `diff` of the model never indexes outside the block list; the Go loop is bounded -/
theorem diff_loop_bounded : notFalse Facts.syncDiffLoopBounded = true := by decide
/-- the workers are registered before they run (the model has no early-returning wait) -/
theorem wg_add_before_go : allNotFalse Facts.wgAddBeforeGo = true := by decide
/-- `assemble` copies the first 16384 bytes wholesale -/
theorem first_range : isOr 16383 Facts.syncFirstRangeEnd = true := by decide
/-- `syncFileOf` uses 1000-byte units -/
theorem block_unit : isOr 1000 Facts.makesyncBlockUnit = true := by decide

/-- `pmtiles makesync` / `pmtiles sync` (main.go): block size in kB as given, `--dry-run` as given -/
theorem makesync_call : CLI.callOK "Makesync:makesync" ["logger", "version", "Makesync.Input", "Makesync.BlockSizeKb"] = true := by decide
theorem sync_call : CLI.callOK "Sync:sync" ["logger", "Sync.Existing", "Sync.New", "Sync.DryRun"] = true := by decide
theorem sync_errors_fatal : (CLI.fatalOK "Makesync:makesync" && CLI.fatalOK "Sync:sync") = true := by decide

end Pm.Obligations.C20
