import PmtilesModel.Obligations.CLI
/-! `pmtiles extract` (main.go) calls `Extract` with its options in the order of the signature, and the
    zoom options default to -1 (= "not given": the archive's own range, `clampZooms` in the model). -/
namespace Pm.Obligations.C07
open Pm Pm.Obligations.CLI

theorem extract_call : callOK "Extract:extract"
    ["logger", "Extract.Bucket", "Extract.Input", "Extract.Minzoom", "Extract.Maxzoom", "Extract.Region", "Extract.Bbox",
     "Extract.Output", "Extract.DownloadThreads", "Extract.Overfetch", "Extract.DryRun"] = true := by decide
theorem extract_error_fatal : fatalOK "Extract:extract" = true := by decide
theorem zoom_defaults : (defaultOK "Extract.Minzoom" "-1" && defaultOK "Extract.Maxzoom" "-1") = true := by decide

end Pm.Obligations.C07
