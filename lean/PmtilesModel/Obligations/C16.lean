import PmtilesModel.Gen.Facts
import PmtilesModel.Model.TileId
/-! Facts obligation for C16 (D26): the tiles of the boundary cover are checked against the 2^zoom grid
    before `ZxyToID` sees them.  Why that matters is a fact about `ZxyToID` itself: it ignores the high
    bits of its coordinates, so a tile just outside the grid IS another tile inside it. -/
namespace Pm.Obligations.C16
open Pm

def notFalse : Option Bool → Bool
  | some false => false
  | _ => true

/-- `bitmapMultiPolygon` skips cover tiles with X or Y outside the grid (`none` = pattern not found = unknown) -/
theorem boundary_tiles_in_grid : notFalse Facts.regionBoundaryGuard = true := by decide

/-- the mechanism (test): at zoom 2 the column just east of the grid (x = 4) is column 0, and column "-1"
    (4294967295 as uint32) is column 3 — the opposite edge of the map -/
theorem out_of_grid_aliases :
    TileId.goZxyToID 2 4 1 = TileId.goZxyToID 2 0 1 ∧ TileId.goZxyToID 2 4294967295 1 = TileId.goZxyToID 2 3 1 := by
  decide

end Pm.Obligations.C16
