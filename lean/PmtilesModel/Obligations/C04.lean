import PmtilesModel.Gen.Facts
/-! Facts obligation for C04: both walks (server, CLI) visit at least root + 3 leaf levels. -/
namespace Pm.Obligations.C04
open Pm

def levelsOk : List (String × Option Nat) → Bool
  | [] => true
  | (_, none) :: r => levelsOk r
  | (_, some n) :: r => decide (4 ≤ n) && levelsOk r

theorem walk_levels : levelsOk Facts.walkLevels = true := by decide

end Pm.Obligations.C04
