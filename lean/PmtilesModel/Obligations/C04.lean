import PmtilesModel.Gen.Facts
import PmtilesModel.Obligations.CLI
/-! Facts obligation for C04: both walks (server, CLI) visit at least root + 3 leaf levels. -/
namespace Pm.Obligations.C04
open Pm

def levelsOk : List (String × Option Nat) → Bool
  | [] => true
  | (_, none) :: r => levelsOk r
  | (_, some n) :: r => decide (4 ≤ n) && levelsOk r

theorem walk_levels : levelsOk Facts.walkLevels = true := by decide

/-- `pmtiles tile` (main.go) hands path and z, x, y to `Show` in this order, with `showTile` set -/
theorem tile_call : CLI.callOK "Show:tile"
    ["logger", "os.Stdout", "Tile.Bucket", "Tile.Path", "false", "false", "false", "\"\"", "true", "Tile.Z", "Tile.X", "Tile.Y"] = true := by decide
theorem tile_error_fatal : CLI.fatalOK "Show:tile" = true := by decide

end Pm.Obligations.C04
