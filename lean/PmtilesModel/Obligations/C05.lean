import PmtilesModel.Gen.Facts
/-! Facts obligations for C05: at both writer call sites (`finalize`, `Extract`) the root budget
    passed to `optimizeDirectories` plus the 127-byte header fits 16 384 bytes.  A call site whose
    budget is no longer a compile-time constant is `none` (unknown): then the end-to-end
    correspondence (`finroot` lines) carries the claim alone. -/
namespace Pm.Obligations.C05
open Pm

def budgetsOk : List (String × Option Nat) → Bool
  | [] => true
  | (_, none) :: r => budgetsOk r
  | (_, some b) :: r => decide (b + 127 ≤ 16384) && budgetsOk r

theorem root_budgets_fit : budgetsOk Facts.rootBudgets = true := by decide

end Pm.Obligations.C05
