import PmtilesModel.Obligations.CLI
/-! `pmtiles convert` (main.go) calls `Convert` the way the `cliconvert` cases assume. -/
namespace Pm.Obligations.C06
open Pm Pm.Obligations.CLI

/-- input, output, deduplication = ¬ `--no-deduplication`, a temporary file -/
theorem convert_call : callOK "Convert:convert" ["logger", "Convert.Input", "Convert.Output", "!Convert.NoDeduplication", "?"] = true := by decide
theorem convert_error_fatal : fatalOK "Convert:convert" = true := by decide

end Pm.Obligations.C06
