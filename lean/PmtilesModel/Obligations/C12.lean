import PmtilesModel.Gen.Facts
import PmtilesModel.Obligations.CLI
/-! Facts obligations for C12: the enum ↔ string ↔ MIME tables extracted from today's
    `directory.go` are the specified ones (`[]` = pattern not found = unknown). -/
namespace Pm.Obligations.C12
open Pm

theorem content_types : Facts.tblContentType = [] ∨ Facts.tblContentType =
  ["1=>application/x-protobuf true", "2=>image/png true", "3=>image/jpeg true", "4=>image/webp true", "5=>image/avif true"] := by decide
theorem extensions : Facts.tblTileTypeToString = [] ∨ Facts.tblTileTypeToString =
  ["1=>mvt", "2=>png", "3=>jpg", "4=>webp", "5=>avif"] := by decide
theorem encodings : Facts.tblCompressionToString = [] ∨ Facts.tblCompressionToString =
  ["1=>none false", "2=>gzip true", "3=>br true", "4=>zstd true"] := by decide

/-- `pmtiles serve` (main.go) opens the server on the bucket/path, cache size and public URL the user gave -/
theorem serve_call : CLI.callOK "NewServer:serve" ["Serve.Bucket", "Serve.Path", "logger", "Serve.CacheSize", "Serve.PublicURL"] = true := by decide

end Pm.Obligations.C12
