import PmtilesModel.Gen.Facts
/-! Facts obligation for C17: verify, cluster, makesync (and sync) return the error of
    `IterateEntries` before using its result (extracted from the Go AST; `none` = pattern not found). -/
namespace Pm.Obligations.C17
open Pm

def allReturned : List (String × Option Bool) → Bool
  | [] => true
  | (_, some false) :: _ => false
  | _ :: r => allReturned r

theorem users_return_iterate_error : allReturned Facts.iterateErrReturned = true := by decide

end Pm.Obligations.C17
