import PmtilesModel.Proofs.Extract
import PmtilesModel.Proofs.Once
/-!
# C19 — Extract transfers at most (1+overfetch) × needed tile bytes, each byte once

`mergeOK` is the relation checked on every real `MergeRanges` result; `mergeBudget` the exact
budget of the D8a fix.  Transferred bytes = sum of the requested spans.
-/
namespace Pm.C19
open Pm Pm.Extract

theorem budget_bound (ranges : List Rng) (budget : Nat) (plans : List Plan)
    (h : mergeOK ranges budget plans = true) :
    totalTransfer plans ≤ sumLens ranges + budget := by
  obtain ⟨h1, h2, h3⟩ := mergeOK_parts h
  have hs : ∀ p ∈ sortByDst plans, p.rng.len = need p.cds :=
    fun p hp => h2 p ((perm_sortByDst plans).mem_iff.mp hp)
  have := transfer_eq (sortByDst plans) hs
  rw [h1, totalTransfer_perm (perm_sortByDst plans), totalDiscards_perm (perm_sortByDst plans)] at this
  omega

/-- the budget the code computes is at most `overfetch × total` (overfetch = num/den exactly), so
    `den × transferred ≤ (den + num) × needed`: at most (1 + overfetch) times the needed bytes -/
theorem budget_spec (ranges : List Rng) (num den : Nat) (hden : 0 < den) (plans : List Plan)
    (h : mergeOK ranges (mergeBudget (sumLens ranges) num den) plans = true) :
    den * totalTransfer plans ≤ (den + num) * sumLens ranges := by
  have hb := budget_bound ranges _ plans h
  have hf : mergeBudget (sumLens ranges) num den * den ≤ sumLens ranges * num := Nat.div_mul_le_self _ _
  have : den * totalTransfer plans ≤ den * (sumLens ranges + mergeBudget (sumLens ranges) num den) :=
    Nat.mul_le_mul_left _ hb
  rw [Nat.mul_add, Nat.mul_comm den (mergeBudget _ _ _)] at this
  rw [Nat.add_mul, Nat.mul_comm num]
  omega

/-- with overfetch 0 exactly the needed bytes are requested -/
theorem exact_at_zero (ranges : List Rng) (plans : List Plan) (h : mergeOK ranges 0 plans = true) :
    totalTransfer plans = sumLens ranges := by
  obtain ⟨h1, h2, h3⟩ := mergeOK_parts h
  have hs : ∀ p ∈ sortByDst plans, p.rng.len = need p.cds :=
    fun p hp => h2 p ((perm_sortByDst plans).mem_iff.mp hp)
  have := transfer_eq (sortByDst plans) hs
  rw [h1, totalTransfer_perm (perm_sortByDst plans), totalDiscards_perm (perm_sortByDst plans)] at this
  omega

/-- every request lies inside the limit its ranges respect (the end of the section it reads):
    a span ends where its last range ends -/
theorem span_inside (cds : List (Nat × Nat)) (lim : Nat) :
    ∀ s d, cds ≠ [] → (cds.getLast?.map (·.2)) = some 0 →
      (∀ r ∈ expandAux s d cds, r.src + r.len ≤ lim) → s + need cds ≤ lim := by
  induction cds with
  | nil => intro s d h; exact absurd rfl h
  | cons c rest ih =>
    obtain ⟨w, g⟩ := c
    intro s d _ hl hr
    cases rest with
    | nil =>
      simp only [List.getLast?_singleton, Option.map_some, Option.some.injEq] at hl
      have := hr ⟨s, d, w⟩ (by simp [expandAux])
      simp only [need] at *
      subst hl; omega
    | cons c2 rest2 =>
      have := ih (s + w + g) (d + w) (by simp) (by simpa [List.getLast?_cons_cons] using hl)
        (fun r hr' => hr r (by simp only [expandAux, List.mem_cons]; right; simpa [expandAux] using hr'))
      simp only [need] at this ⊢
      omega

/-- **each byte once, for source-monotone range lists**: when the wanted ranges (in output order)
    lie one after the other in the source too — no back-reference: every range starts at or after the
    end of all earlier ones, as in a clustered source whose extract keeps first occurrences in place —
    the requests of every plan `MergeRanges` may produce are pairwise disjoint: no source byte is
    transferred twice.  (`not_once` below shows the hypothesis cannot be dropped.) -/
theorem once_partial (ranges : List Rng) (budget : Nat) (plans : List Plan)
    (h : mergeOK ranges budget plans = true)
    (hm : ranges.Pairwise (fun a b => a.src + a.len ≤ b.src)) :
    ∀ p ∈ plans, ∀ q ∈ plans, p ≠ q →
      ∀ i, ¬ ((p.rng.src ≤ i ∧ i < p.rng.src + p.rng.len) ∧ (q.rng.src ≤ i ∧ i < q.rng.src + q.rng.len)) := by
  obtain ⟨h1, h2, _⟩ := mergeOK_parts h
  have hl := mergeOK_last h
  have hperm := perm_sortByDst plans
  have hpw : (sortByDst plans).Pairwise (fun p q => p.rng.src + p.rng.len ≤ q.rng.src) := by
    apply groups_disjoint
    · intro p hp
      have := hperm.mem_iff.mp hp
      exact ⟨h2 p this, hl p this⟩
    · rw [h1]; exact hm
  -- from the ordered statement to all pairs
  have hall : ∀ p ∈ sortByDst plans, ∀ q ∈ sortByDst plans,
      p = q ∨ p.rng.src + p.rng.len ≤ q.rng.src ∨ q.rng.src + q.rng.len ≤ p.rng.src := by
    apply List.Pairwise.forall_of_forall_of_flip (R := fun p q : Plan =>
        p = q ∨ p.rng.src + p.rng.len ≤ q.rng.src ∨ q.rng.src + q.rng.len ≤ p.rng.src)
    · intro a _; exact Or.inl rfl
    · exact hpw.imp (fun hr => Or.inr (Or.inl hr))
    · exact hpw.imp (fun hr => Or.inr (Or.inr hr))
  intro p hp q hq hne i hi
  rcases hall p (hperm.mem_iff.mpr hp) q (hperm.mem_iff.mpr hq) with e | e | e
  · exact hne e
  · omega
  · omega

example : mergeOK [⟨0, 0, 10⟩, ⟨20, 10, 10⟩, ⟨1000, 20, 5⟩] 10 [⟨⟨0, 0, 30⟩, [(10, 10), (10, 0)]⟩, ⟨⟨1000, 20, 5⟩, [(5, 0)]⟩] = true ∧
    ([⟨0, 0, 10⟩, ⟨20, 10, 10⟩, ⟨1000, 20, 5⟩] : List Rng).Pairwise (fun a b => a.src + a.len ≤ b.src) := by
  refine ⟨by decide, ?_⟩
  simp

/-- "no source byte is requested twice" does NOT hold in general: with a back-reference
    (a range whose source offset lies before an earlier range's) a merged span covers bytes that
    another request also fetches.  Witness of the known finding D8b. -/
theorem not_once : ∃ (ranges : List Rng) (budget : Nat) (plans : List Plan),
    mergeOK ranges budget plans = true ∧
    ∃ p ∈ plans, ∃ q ∈ plans, p ≠ q ∧ ∃ i, p.rng.src ≤ i ∧ i < p.rng.src + p.rng.len ∧ q.rng.src ≤ i ∧ i < q.rng.src + q.rng.len :=
  ⟨[⟨1000, 0, 10⟩, ⟨50, 10, 10⟩, ⟨1010, 20, 10⟩], 1000,
   [⟨⟨1000, 0, 10⟩, [(10, 0)]⟩, ⟨⟨50, 10, 970⟩, [(10, 950), (10, 0)]⟩],
   by decide, ⟨⟨1000, 0, 10⟩, [(10, 0)]⟩, by simp, ⟨⟨50, 10, 970⟩, [(10, 950), (10, 0)]⟩, by simp, by decide, 1000, by decide⟩

end Pm.C19
