import PmtilesModel.Model.Edit
import PmtilesModel.Proofs.Rounding
import PmtilesModel.Proofs.Header
/-!
# C14 — Edit changes only what was asked, round-trips show's JSON, never damages the file

`editHeaderOnly`, `editWithMetadata`, `headerToEdit`, the `FsOp` lists (Model/Edit.lean) are run
against the real `pmtiles.Show` / `pmtiles.Edit` on temp copies.  The degrees→E7 conversion is
treated in real arithmetic (`Pm.Rounding`, the only Mathlib-importing module): `rn` is any
rounding with the IEEE-754 binary64 error bound, trusted of Go's float64.
-/
namespace Pm.C14
open Pm Pm.Header Pm.Edit

/-- editing sets the editable fields to the supplied values … -/
theorem edit_sets (h : Header) (e : HeaderEdit) :
    let h' := applyHeaderEdit h e
    h'.tileType = stringToTileType e.tileType ∧ h'.tileCompression = stringToCompression e.tileCompression ∧
    h'.minZoom = e.minZoom % 256 ∧ h'.maxZoom = e.maxZoom % 256 ∧ h'.centerZoom = e.center.2.2 % 256 ∧
    (h'.minLonE7, h'.minLatE7, h'.maxLonE7, h'.maxLatE7) = e.bounds ∧ (h'.centerLonE7, h'.centerLatE7) = (e.center.1, e.center.2.1) := by
  simp [applyHeaderEdit]

/-- … while every non-editable header field is preserved -/
theorem edit_keeps_header (h : Header) (e : HeaderEdit) :
    let h' := applyHeaderEdit h e
    h'.specVersion = h.specVersion ∧ h'.rootOffset = h.rootOffset ∧ h'.rootLength = h.rootLength ∧
    h'.metadataOffset = h.metadataOffset ∧ h'.metadataLength = h.metadataLength ∧
    h'.leafDirectoryOffset = h.leafDirectoryOffset ∧ h'.leafDirectoryLength = h.leafDirectoryLength ∧
    h'.tileDataOffset = h.tileDataOffset ∧ h'.tileDataLength = h.tileDataLength ∧
    h'.addressedTilesCount = h.addressedTilesCount ∧ h'.tileEntriesCount = h.tileEntriesCount ∧
    h'.tileContentsCount = h.tileContentsCount ∧ h'.clustered = h.clustered ∧ h'.internalCompression = h.internalCompression := by
  simp [applyHeaderEdit]

/-- both directory sections and the tile section are unchanged (hence the tile-to-content map,
    which is a function of exactly these bytes — C04), in both edit paths -/
theorem edit_preserves_sections (a : Arch) (e : Option HeaderEdit) (e' : HeaderEdit) (m : Bytes) :
    (editWithMetadata a e m).root = a.root ∧ (editWithMetadata a e m).leaves = a.leaves ∧
    (editWithMetadata a e m).tiles = a.tiles ∧ (editWithMetadata a e m).metadata = m ∧
    (editHeaderOnly a e').root = a.root ∧ (editHeaderOnly a e').leaves = a.leaves ∧
    (editHeaderOnly a e').tiles = a.tiles ∧ (editHeaderOnly a e').metadata = a.metadata := by
  simp [editWithMetadata, editHeaderOnly]

/-- the result of a metadata edit is laid out contiguously from byte 127 (all four offsets recomputed),
    wherever the source kept its sections: structurally valid, with the new metadata at its declared place -/
theorem edit_contig (a : Arch) (e : Option HeaderEdit) (m : Bytes) (hc : LengthsMatch a) :
    Contig (editWithMetadata a e m) := by
  obtain ⟨h2, _, h6, h8⟩ := hc
  cases e with
  | none => simp [editWithMetadata, Contig, h2, h6, h8]
  | some e => simp [editWithMetadata, Contig, applyHeaderEdit, h2, h6, h8]

/-- for a contiguous archive the general layout is the plain concatenation -/
theorem layout_contig (a : Arch) (hr : InRange a.header) (hc : Contig a) : layoutFile a = fileOf a := by
  obtain ⟨h1, h2, h3, h4, h5, h6, h7, h8⟩ := hc
  have l1 : (serializeHeader a.header).length = 127 := by
    unfold serializeHeader; simp only [List.length_append, encFields_length _ _ (toVals_fits _ hr)]; decide
  simp only [layoutFile, fileOf, placeAt, h1, h3, h5, h7, l1, List.length_append, List.length_replicate]
  simp

/-- counts and clustered flag survive a metadata edit too -/
theorem edit_meta_keeps_counts (a : Arch) (m : Bytes) :
    let h' := (editWithMetadata a none m).header
    h'.addressedTilesCount = a.header.addressedTilesCount ∧ h'.tileEntriesCount = a.header.tileEntriesCount ∧
    h'.tileContentsCount = a.header.tileContentsCount ∧ h'.clustered = a.header.clustered ∧
    h'.tileType = a.header.tileType ∧ h'.minLonE7 = a.header.minLonE7 := by
  simp [editWithMetadata]

/-- **show → edit is the identity** on the header for every header whose enum bytes are known
    names, whatever its E7 values and zooms: feeding back what `show --header-json` printed changes nothing -/
theorem show_edit_id (h : Header) (ht : 1 ≤ h.tileType ∧ h.tileType ≤ 5) (hc : 1 ≤ h.tileCompression ∧ h.tileCompression ≤ 4)
    (hz : h.minZoom < 256 ∧ h.maxZoom < 256 ∧ h.centerZoom < 256) :
    applyHeaderEdit h (headerToEdit h) = h := by
  obtain ⟨h1, h2, h3⟩ := hz
  have e1 : stringToTileType (tileTypeToString h.tileType) = h.tileType := by
    obtain ⟨a, b⟩ := ht
    have : h.tileType = 1 ∨ h.tileType = 2 ∨ h.tileType = 3 ∨ h.tileType = 4 ∨ h.tileType = 5 := by omega
    rcases this with e | e | e | e | e <;> rw [e] <;> rfl
  have e2 : stringToCompression (compressionToString h.tileCompression) = h.tileCompression := by
    obtain ⟨a, b⟩ := hc
    have : h.tileCompression = 1 ∨ h.tileCompression = 2 ∨ h.tileCompression = 3 ∨ h.tileCompression = 4 := by omega
    rcases this with e | e | e | e <;> rw [e] <;> rfl
  cases h
  simp only [applyHeaderEdit, headerToEdit] at *
  simp only [e1, e2, Nat.mod_eq_of_lt h1, Nat.mod_eq_of_lt h2, Nat.mod_eq_of_lt h3]

/-- the float path stores E7 values exactly: for ANY rounding `rn` with the binary64 error bound,
    `math.Round(rn(rn(n / 10^7) · 10^7)) = n` for every int32 `n` — so a coordinate written with up to
    seven decimals (= n/10^7 for an integer n) is stored exactly, and the coordinate that
    `show` prints (`float64(n)/1e7`, shortest round-trip text) comes back as the same `n` -/
theorem e7_exact (rn : ℚ → ℚ) (hrn : Rounding.IsRN rn) (n : ℤ) (hn : |(n:ℚ)| < 2^31) :
    Rounding.roundHalfAway (rn (rn ((n:ℚ) / Rounding.E7) * Rounding.E7)) = n :=
  Rounding.e7_exact rn hrn n hn

/-- the exact-rational conversion the executable model uses returns `n` on `n / 10^7` -/
theorem e7OfDecimal_exact (n : Int) : e7OfDecimal n 7 = n := by
  unfold e7OfDecimal
  simp only
  split
  · rename_i h
    have h10 : (0:Int) < 10^7 := by decide
    have hn : 0 ≤ n := by
      by_contra hc
      have : n * 10^7 < 0 := Int.mul_neg_of_neg_of_pos (by omega) h10
      omega
    have : (2 * (n * 10^7) + 10^7) / (2 * 10^7) = n := by
      rw [show 2 * (n * (10:Int)^7) + 10^7 = n * (2 * 10^7) + 10^7 by ring_nf]
      rw [Int.add_ediv_of_dvd_left (Dvd.intro_left n rfl)]
      rw [Int.mul_ediv_cancel n (by decide)]
      have : (10:Int)^7 / (2 * 10^7) = 0 := by decide
      rw [this]; omega
    exact this
  · rename_i h
    have h10 : (0:Int) < 10^7 := by decide
    have hn : n < 0 := by
      by_contra hc
      have : 0 ≤ n * 10^7 := Int.mul_nonneg (by omega) (by omega)
      omega
    have : (2 * (-(n * 10^7)) + 10^7) / (2 * 10^7) = -n := by
      rw [show 2 * (-(n * (10:Int)^7)) + 10^7 = (-n) * (2 * 10^7) + 10^7 by ring_nf]
      rw [Int.add_ediv_of_dvd_left (Dvd.intro_left (-n) rfl)]
      rw [Int.mul_ediv_cancel (-n) (by decide)]
      have : (10:Int)^7 / (2 * 10^7) = 0 := by decide
      rw [this]; omega
    rw [this]; omega

/-- **crash safety, metadata path**: after ANY prefix of the operation list (a crash or a failing
    operation at any point) the archive path still holds the complete old archive or the complete new one -/
theorem crash_safe_metadata (fs : Fs) (path : String) (old : Bytes) (out : Arch) (hp : fs path = some old)
    (k : Nat) : (applyOps fs ((metadataOps path out).take k)) path = some old ∨
                (applyOps fs ((metadataOps path out).take k)) path = some (fileOf out) := by
  have hne : path ≠ path ++ ".tmp" := by
    intro h
    have := congrArg String.length h
    simp at this
  have hne' : ¬ (path = path ++ ".tmp") := hne
  unfold metadataOps
  simp only
  match k with
  | 0 => left; simpa [applyOps] using hp
  | 1 => left; simp [applyOps, applyOp, hne', hp]
  | 2 => left; simp [applyOps, applyOp, hne', hp]
  | 3 => left; simp [applyOps, applyOp, hne', hp]
  | 4 => left; simp [applyOps, applyOp, hne', hp]
  | 5 => left; simp [applyOps, applyOp, hne', hp]
  | 6 => left; simp [applyOps, applyOp, hne', hp]
  | k+7 =>
    right
    have : ([FsOp.create (path ++ ".tmp"), .append (path ++ ".tmp") (serializeHeader out.header),
        .append (path ++ ".tmp") out.root, .append (path ++ ".tmp") out.metadata, .append (path ++ ".tmp") out.leaves,
        .append (path ++ ".tmp") out.tiles, .rename (path ++ ".tmp") path] : List FsOp).take (k+7) = _ := List.take_of_length_le (by simp)
    rw [this]
    simp [applyOps, applyOp, fileOf]

/-- **crash safety, header-only path**: one write of the 127 header bytes at offset 0 — before it the
    old file, after it the fully edited one -/
theorem crash_safe_header (fs : Fs) (path : String) (a : Arch) (e : HeaderEdit) (hr : InRange a.header)
    (hr' : InRange (applyHeaderEdit a.header e)) (hp : fs path = some (fileOf a)) (k : Nat) :
    (applyOps fs ((headerOps path (editHeaderOnly a e)).take k)) path = some (fileOf a) ∨
    (applyOps fs ((headerOps path (editHeaderOnly a e)).take k)) path = some (fileOf (editHeaderOnly a e)) := by
  match k with
  | 0 => left; simpa [applyOps] using hp
  | k+1 =>
    right
    have : (headerOps path (editHeaderOnly a e)).take (k+1) = headerOps path (editHeaderOnly a e) := List.take_of_length_le (by simp [headerOps])
    rw [this]
    have l1 : (serializeHeader a.header).length = 127 := by
      unfold serializeHeader; simp only [List.length_append, encFields_length _ _ (toVals_fits _ hr)]; decide
    have l2 : (serializeHeader (applyHeaderEdit a.header e)).length = 127 := by
      unfold serializeHeader; simp only [List.length_append, encFields_length _ _ (toVals_fits _ hr')]; decide
    simp only [headerOps, applyOps, List.foldl_cons, List.foldl_nil, applyOp, if_true, hp, Option.map_some, editHeaderOnly, fileOf]
    simp only [List.take_zero, List.nil_append, Nat.zero_add, l2, List.append_assoc]
    rw [List.drop_append_of_le_length (by omega), List.drop_of_length_le (by omega)]
    simp

end Pm.C14
