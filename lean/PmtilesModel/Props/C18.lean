import PmtilesModel.Model.Bucket
import PmtilesModel.Proofs.Bytes
/-!
# C18 — Bucket backends: exact ranged reads, change-detecting tags, errors not panics

`readMem`, `readFile`, `readHttp` (Model/Bucket.lean) are run against the in-memory, local-directory
and HTTP backends (the latter over a loopback origin).  "The tag changes whenever the object is
replaced" is content-hash injectivity (memory), an mtime/size change (file) and the origin's ETag
(HTTP) — assumptions, observed by the tie over replacement histories.
-/
namespace Pm.C18
open Pm Pm.Bucket

theorem slice_clip (b : Bytes) (off len : Nat) : slice b off (min (off + len) b.length - off) = slice b off len := by
  unfold slice
  rw [List.take_eq_take_iff]
  simp only [List.length_drop]
  omega

/-- exact ranged read: the requested bytes of the current object, truncated at its end —
    for a read starting inside the object that is unconditioned or carries the current tag -/
theorem exact_range (o : Obj) (off len : Nat) (cond : Option Nat) (hoff : off < o.bytes.length)
    (hc : cond = none ∨ cond = some o.tag) :
    readMem (some o) off len cond = .ok (slice o.bytes off len) ∧
    readFile (some o) off len cond = .ok (slice o.bytes off len) ∧
    readHttp true (some o) off len cond = .ok (slice o.bytes off len) := by
  have hnc : ¬ (cond.isSome ∧ cond ≠ some o.tag) := by rcases hc with rfl | rfl <;> simp
  refine ⟨?_, ?_, ?_⟩
  · simp only [readMem]; rw [if_neg hnc, if_neg (by omega), slice_clip]
  · simp only [readFile]; rw [if_neg hnc]
  · have hst : originStatus (some o) off cond = 206 := by
      simp only [originStatus]; rw [if_neg hnc, if_neg (by omega)]
    simp only [readHttp, Bool.not_true, Bool.false_eq_true, if_false, hst]
    simp [slice_clip]

/-- zero length (local / in-memory): an empty, successful read -/
theorem zero_len (o : Obj) (off : Nat) (hoff : off < o.bytes.length) :
    readMem (some o) off 0 none = .ok [] ∧ readFile (some o) off 0 none = .ok [] := by
  have h := exact_range o off 0 none hoff (Or.inl rfl)
  have : slice o.bytes off 0 = [] := by simp [slice]
  rw [this] at h
  exact ⟨h.1, h.2.1⟩

/-- a read conditioned on an outdated tag fails with the refresh-required class -/
theorem stale_refresh (o : Obj) (off len : Nat) (t : Nat) (ht : t ≠ o.tag) :
    readMem (some o) off len (some t) = .refresh ∧ readFile (some o) off len (some t) = .refresh ∧
    readHttp true (some o) off len (some t) = .refresh := by
  have hc : (some t).isSome ∧ some t ≠ some o.tag := ⟨rfl, by simpa using ht⟩
  refine ⟨?_, ?_, ?_⟩
  · simp only [readMem]; rw [if_pos hc]
  · simp only [readFile]; rw [if_pos hc]
  · have hst : originStatus (some o) off (some t) = 412 := by
      simp only [originStatus]; rw [if_pos hc]
    simp only [readHttp, Bool.not_true, Bool.false_eq_true, if_false, hst]
    rw [if_neg (by decide), if_pos (by decide)]

/-- a read that starts inside the object and is unconditioned or carries the current tag never
    fails with the refresh-required class -/
theorem fresh_ok (o : Obj) (off len : Nat) (cond : Option Nat) (hoff : off < o.bytes.length)
    (hc : cond = none ∨ cond = some o.tag) :
    readMem (some o) off len cond ≠ .refresh ∧ readFile (some o) off len cond ≠ .refresh ∧
    readHttp true (some o) off len cond ≠ .refresh := by
  obtain ⟨h1, h2, h3⟩ := exact_range o off len cond hoff hc
  rw [h1, h2, h3]
  exact ⟨by simp, by simp, by simp⟩

/-- a missing object and a transport failure are ordinary errors -/
theorem missing_err (off len : Nat) (cond : Option Nat) (up : Bool) (o : Option Obj) :
    readMem none off len cond = .err ∧ readFile none off len cond = .err ∧
    readHttp true none off len cond = .err ∧ readHttp false o off len cond = .err := by
  refine ⟨rfl, rfl, ?_, ?_⟩
  · simp [readHttp, originStatus, isRefreshCode]
  · simp [readHttp]

/-- the refresh-required class is exactly {412, 416} -/
theorem refresh_codes (c : Nat) : isRefreshCode c = true ↔ c = 412 ∨ c = 416 := by
  simp [isRefreshCode]

end Pm.C18
