import PmtilesModel.Model.Http
/-!
# C12 — HTTP contract: statuses, content headers, strong ETags, metadata, TileJSON

Decision logic stated outright over the model of `ServeHTTP` / `get` / `getTileAttempt`
(Model/Http.lean); `a.tile` is the archive's tile map (C04), `serveContent` the three laws assumed
of `http.ServeContent`.  "Different ETags for different bodies" cannot be a theorem for a 64-bit
tag (pigeonhole); it is the collision-freedom assumption on xxhash64 and is observed by the tie.
-/
namespace Pm.C12
open Pm Pm.Http Pm.Path

variable (arch : Str → Option Archive) (pub : String)

/-- method other than GET/HEAD → 405 -/
theorem m405 (method : String) (inm : Inm) (p : Str) (h : method ≠ "GET" ∧ method ≠ "HEAD") :
    (serveHTTP arch pub method inm p).status = 405 := by
  unfold serveHTTP; rw [if_pos h]

/-- unrecognised path → 404 -/
theorem p404 (p : Str) (h : route p = .notFound) : (getResp arch pub p).status = 404 := by
  unfold getResp; rw [h]

/-- unknown archive → 404 (all three endpoints) -/
theorem a404 (p : Str) (k : Str) (hk : bucketKey (route p) = some k)
    (hun : ∀ n, arch n = none) : (getResp arch pub p).status = 404 := by
  unfold getResp
  cases hr : route p with
  | tile t => simp [hun]
  | tilejson n => simp [hun]
  | metadata n => simp [hun]
  | root => rw [hr] at hk; simp [bucketKey] at hk
  | notFound => rfl

/-- zoom outside the archive's range → 404 -/
theorem z404 (a : Archive) (z x y : Nat) (ext : Str) (h : z < a.header.minZoom ∨ z > a.header.maxZoom) :
    (tileResp a z x y ext).status = 404 := by
  unfold tileResp; simp only; rw [if_pos h]

/-- coordinates outside the zoom's grid name no tile → 404 (never the bytes of the tile they alias to) -/
theorem g404 (a : Archive) (z x y : Nat) (ext : Str) (h : outsideGrid z x y) :
    (tileResp a z x y ext).status = 404 := by
  unfold tileResp; simp only
  split
  · rfl
  · simp only [h, if_true]

/-- extension not matching the (known) tile type → 400 -/
theorem e400 (a : Archive) (z x y : Nat) (ext : Str) (e : String)
    (hz : ¬ (z < a.header.minZoom ∨ z > a.header.maxZoom)) (hg : ¬ outsideGrid z x y)
    (ht : extOf a.header.tileType = some e) (he : strOf ext ≠ e) :
    (tileResp a z x y ext).status = 400 := by
  unfold tileResp; simp only; rw [if_neg hz, if_neg hg, ht]; simp only; rw [if_pos he]

/-- admissible request, tile not stored → 204 with empty body -/
theorem t204 (a : Archive) (z x y : Nat) (ext : Str)
    (hz : ¬ (z < a.header.minZoom ∨ z > a.header.maxZoom)) (hg : ¬ outsideGrid z x y)
    (he : ∀ e, extOf a.header.tileType = some e → strOf ext = e)
    (hn : a.tile (TileId.goZxyToID z x y) = none) :
    tileResp a z x y ext = { status := 204 } := by
  unfold tileResp; simp only; rw [if_neg hz, if_neg hg]
  cases ht : extOf a.header.tileType with
  | none => simp only [hn]
  | some e => simp only; rw [if_neg (by rw [he e ht]; simp), hn]

/-- admissible request, stored tile → 200 with exactly its bytes, the Content-Type of the tile type,
    the Content-Encoding of the tile compression (absent when uncompressed/unknown) and an ETag -/
theorem t200 (a : Archive) (z x y : Nat) (ext : Str) (b : Bytes)
    (hz : ¬ (z < a.header.minZoom ∨ z > a.header.maxZoom)) (hg : ¬ outsideGrid z x y)
    (he : ∀ e, extOf a.header.tileType = some e → strOf ext = e)
    (hs : a.tile (TileId.goZxyToID z x y) = some b) :
    tileResp a z x y ext = { status := 200, ctype := ctOf a.header.tileType, cenc := encOf a.header.tileCompression,
                             hasEtag := true, body := b } := by
  unfold tileResp; simp only; rw [if_neg hz, if_neg hg]
  cases ht : extOf a.header.tileType with
  | none => simp only [hs]
  | some e => simp only; rw [if_neg (by rw [he e ht]; simp), hs]

/-- every 200 of `get` carries an ETag (which Go computes as a function of the body alone) -/
theorem etag_on_200 (p : Str) (h : (getResp arch pub p).status = 200) : (getResp arch pub p).hasEtag = true := by
  unfold getResp at h ⊢
  cases hr : route p with
  | tile t =>
    simp only [hr] at h ⊢
    cases ha : arch t.name with
    | none => simp [ha] at h
    | some a =>
      simp only [ha] at h ⊢
      unfold tileResp at h ⊢
      simp only at h ⊢
      split at h
      · simp at h
      · rename_i hz
        rw [if_neg hz]
        split at h
        · simp at h
        rename_i hg
        rw [if_neg hg]
        cases ht : extOf a.header.tileType with
        | none => rw [ht] at h; simp only at h ⊢; split at h <;> simp_all
        | some e =>
          rw [ht] at h; simp only at h ⊢
          split at h
          · simp at h
          · rename_i hne; rw [if_neg hne]; split at h <;> simp_all
  | tilejson n =>
    simp only [hr] at h ⊢
    cases ha : arch n with
    | none => simp [ha] at h
    | some a => simp [ha]
  | metadata n =>
    simp only [hr] at h ⊢
    cases ha : arch n with
    | none => simp [ha] at h
    | some a => simp [ha]
  | root => simp [hr] at h
  | notFound => simp [hr] at h

/-- a conditional request presenting the ETag → 304 without body -/
theorem cond304 (method : String) (hm : method = "GET" ∨ method = "HEAD") (inm : Inm) (hi : inm.matches = true)
    (p : Str) (h : (getResp arch pub p).status = 200) :
    (serveHTTP arch pub method inm p).status = 304 ∧ (serveHTTP arch pub method inm p).body = [] := by
  unfold serveHTTP
  rw [if_neg (by rcases hm with rfl | rfl <;> decide)]
  simp [h, serveContent, hi]

/-- HEAD returns the same status, ETag flag and content headers as GET, without body -/
theorem head_same (inm : Inm) (p : Str) :
    let g := serveHTTP arch pub "GET" inm p
    let hd := serveHTTP arch pub "HEAD" inm p
    hd.status = g.status ∧ hd.hasEtag = g.hasEtag ∧ hd.ctype = g.ctype ∧ hd.cenc = g.cenc ∧ hd.body = [] := by
  have hG : ¬ ("GET" ≠ "GET" ∧ "GET" ≠ "HEAD") := by decide
  have hH : ¬ ("HEAD" ≠ "GET" ∧ "HEAD" ≠ "HEAD") := by decide
  have e1 : ("GET" == "HEAD") = false := by decide
  have e2 : ("HEAD" == "HEAD") = true := by decide
  simp only [serveHTTP, if_neg hG, if_neg hH, e1, e2]
  by_cases h200 : (getResp arch pub p).status = 200
  · simp only [if_pos h200, serveContent]
    cases hm : inm.matches <;> simp
  · simp [if_neg h200]

/-- the metadata endpoint returns the archive's JSON metadata unchanged -/
theorem meta_id (p : Str) (n : Str) (a : Archive) (hr : route p = .metadata n) (ha : arch n = some a) :
    getResp arch pub p = { status := 200, ctype := some "application/json", hasEtag := true, body := a.metadata } := by
  unfold getResp; rw [hr]; simp [ha]

/-- TileJSON is built from the public URL, the archive name and the archive's header/metadata -/
theorem tilejson_from_public_url (p : Str) (n : Str) (a : Archive) (hr : route p = .tilejson n) (ha : arch n = some a) :
    (getResp arch pub p).body = a.tilejson (pub ++ "/" ++ strOf n) ∧ (getResp arch pub p).status = 200 := by
  unfold getResp; rw [hr]; simp [ha]

end Pm.C12
