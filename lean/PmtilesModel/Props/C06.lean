import PmtilesModel.Proofs.ZoomRange
import PmtilesModel.Proofs.Convert
import PmtilesModel.Proofs.Clustered
import PmtilesModel.Proofs.WriterVerifies
import PmtilesModel.Model.Finalize
/-!
# C06 — Convert preserves the MBTiles tile map (XYZ-flipped), metadata and statistics

The tile passes of `convertMbtiles` (Model/Convert.lean) feed the resolver (Model/Resolver.lean);
`finalizeHeader` (Model/Finalize.lean) is the header that is written.  Proved here: the tile map,
its independence of deduplication, and the statistics.  Parameters (not proved, exercised end to
end by the tie on real MBTiles files): SQLite row access, JSON (un)marshalling of the metadata,
gzip (`gz`, with `1 ≤ |gz b|`), collision-freedom of FNV-128a (the model keys `seen` by content).
-/
namespace Pm.C06
open Pm Pm.Resolver Pm.Convert

variable (enc : Bytes → Bytes)

/-- tile `t` of the output holds exactly `enc` of the content of the first source row whose
    (z, column, 2^z-1-row) has ID `t`, if that row is non-empty — and no other tile is addressed.
    (`enc` = gzip-unless-gzipped for pbf, identity otherwise.) -/
theorem convert_tileMap (dedup : Bool) (rows : List Row) (henc : ∀ b, b ≠ [] → 1 ≤ (enc b).length) (t : Nat) :
    content (run enc (init dedup) (convertAdds rows)) t =
      match blobOf rows t with
      | some b => if b.isEmpty then none else some (enc b)
      | none => none := by
  rw [run_spec enc dedup (convertAdds rows)
    (fun a ha => henc a.2.1 (convertAdds_nonempty rows a ha)) (convertAdds_asc rows) t]
  unfold specContent
  rw [convertAdds_find]
  unfold convF
  cases blobOf rows t with
  | none => rfl
  | some b =>
    simp only
    by_cases hb : b.isEmpty = true
    · simp [hb]
    · simp [hb]

/-- with and without deduplication the tile-to-content map is identical -/
theorem dedup_irrelevant (rows : List Row) (henc : ∀ b, b ≠ [] → 1 ≤ (enc b).length) (t : Nat) :
    content (run enc (init true) (convertAdds rows)) t = content (run enc (init false) (convertAdds rows)) t := by
  rw [convert_tileMap enc true rows henc t, convert_tileMap enc false rows henc t]

/-- the row of tile (z, x, y) in XYZ is the MBTiles row (z, x, 2^z-1-y): the ID of a source row -/
theorem row_id_is_flipped (r : Row) : rowId r = TileId.goZxyToID r.z r.col (2^r.z - 1 - r.row) := rfl

/-- addressed-tile count = number of non-empty distinct-ID source tiles written -/
theorem convert_addressed (dedup : Bool) (rows : List Row) :
    (run enc (init dedup) (convertAdds rows)).addressed = (convertAdds rows).length := by
  rw [run_addressed]
  simp only [init, Nat.zero_add]
  have : ∀ l : List Add, (∀ a ∈ l, a.2.2 = 1) → sumRl l = l.length := by
    intro l hl
    induction l with
    | nil => rfl
    | cons a r ih => simp [sumRl, hl a (by simp), ih (fun x hx => hl x (by simp [hx]))]; omega
  apply this
  intro a ha
  rw [convertAdds_eq] at ha
  obtain ⟨id, _, hid⟩ := List.mem_filterMap.mp ha
  exact (convF_spec rows id a hid).2

/-- the header written by `finalize` declares the archive clustered, gzip-internal, and its three
    counts are the resolver's (which the directories written are built from) -/
theorem convert_header (h : Header.Header) (compress : Bool) (r : Res) (a b c : Nat) :
    let out := Finalize.finalizeHeader h compress r a b c
    out.clustered = true ∧ out.internalCompression = 2 ∧ out.addressedTilesCount = r.addressed ∧
    out.tileEntriesCount = r.rev.length ∧ out.tileContentsCount = numContents r ∧
    out.tileType = h.tileType ∧ out.minLonE7 = h.minLonE7 ∧ out.maxLatE7 = h.maxLatE7 ∧
    out.rootOffset = 127 ∧ out.tileDataLength = r.data.length := by
  simp only [Finalize.finalizeHeader, Finalize.setZoomCenterDefaults]
  split <;> simp

/-- **convert's output is clustered** and references exactly the tile data written (see
    `C13.cluster_output_clustered`) -/
theorem convert_output_clustered (dedup : Bool) (rows : List Row) (henc : ∀ b, b ≠ [] → 1 ≤ (enc b).length) :
    Pm.Sync.ClusteredFrom 0 (run enc (init dedup) (convertAdds rows)).rev.reverse ∧
    Pm.Sync.extent 0 (run enc (init dedup) (convertAdds rows)).rev.reverse =
      (run enc (init dedup) (convertAdds rows)).data.length :=
  run_clustered enc dedup (convertAdds rows) (fun a ha => henc a.2.1 (convertAdds_nonempty rows a ha))


/-- **verify's per-entry checks accept convert's output** -/
theorem convert_output_verifies (dedup : Bool) (rows : List Row) (henc : ∀ b, b ≠ [] → 1 ≤ (enc b).length) :
    Pm.Verify.entryLoop (run enc (init dedup) (convertAdds rows)).data.length true [] 0
      (run enc (init dedup) (convertAdds rows)).rev.reverse = false :=
  run_verifies enc dedup (convertAdds rows) (fun a ha => henc a.2.1 (convertAdds_nonempty rows a ha))

/-- **the header's zoom range is that of the addressed tiles** (with the D24 fix): for the ascending,
    non-overlapping entry list the resolver writes, the zoom of every addressed tile lies between the
    `MinZoom` and the `MaxZoom` that `finalize` stores, the first of which is the zoom of the first tile and
    the second the zoom of the LAST tile of the last entry's run -/
theorem convert_zoom_range (h : Header.Header) (entries : List Entry) (hasc : Finalize.Asc entries)
    (e : Entry) (he : e ∈ entries) (t : Nat) (ht : Finalize.addresses e t) :
    (Finalize.setZoomCenterDefaults h entries).minZoom ≤ TileId.goZoom t ∧
      TileId.goZoom t ≤ (Finalize.setZoomCenterDefaults h entries).maxZoom :=
  Finalize.zoom_range_covers h entries hasc e he t ht

/-- the center row of the source is kept; only when zoom, longitude and latitude are ALL zero ("no center
    declared") is it replaced by the minimum zoom and the midpoint of the bounds -/
theorem convert_center_kept (h : Header.Header) (entries : List Entry)
    (hd : ¬ (h.centerZoom = 0 ∧ h.centerLonE7 = 0 ∧ h.centerLatE7 = 0)) :
    (Finalize.setZoomCenterDefaults h entries).centerZoom = h.centerZoom ∧
    (Finalize.setZoomCenterDefaults h entries).centerLonE7 = h.centerLonE7 ∧
    (Finalize.setZoomCenterDefaults h entries).centerLatE7 = h.centerLatE7 :=
  Finalize.declared_center_kept h entries hd

theorem convert_center_default (h : Header.Header) (entries : List Entry)
    (hz : h.centerZoom = 0 ∧ h.centerLonE7 = 0 ∧ h.centerLatE7 = 0) :
    (Finalize.setZoomCenterDefaults h entries).centerZoom = (Finalize.setZoomCenterDefaults h entries).minZoom ∧
    (Finalize.setZoomCenterDefaults h entries).centerLonE7 = Finalize.i32avg h.minLonE7 h.maxLonE7 ∧
    (Finalize.setZoomCenterDefaults h entries).centerLatE7 = Finalize.i32avg h.minLatE7 h.maxLatE7 :=
  Finalize.absent_center_defaulted h entries hz

/-- non-vacuity (test): a three-entry list whose last run crosses from zoom 1 into zoom 2 is `Asc` -/
example : Finalize.Asc [⟨0, 0, 3, 1⟩, ⟨1, 3, 2, 2⟩, ⟨4, 5, 2, 3⟩] := by
  simp only [Finalize.Asc]; decide

end Pm.C06
