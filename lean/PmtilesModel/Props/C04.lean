import PmtilesModel.Proofs.ReaderBridge
/-!
# C04 — Tile lookup returns exactly the stored bytes of the requested tile, or absence

`findTile`, `walkGo`, `tileAnswer` (Model/Reader.lean) are run against Go's `findTile`, the
real `Server.Get` and the CLI `Show(tile)`; `flatten` / `lookupFlat` / `WF` (Spec/ReaderSpec.lean)
say what a well-formed archive stores.  `fetch` abstracts "read + decompress + decode a leaf
directory" (either internal compression), so the theorems hold for both.
-/
namespace Pm.C04
open Pm Pm.Reader

/-- Go's binary search on one directory = the last entry with `id ≤ t`, accepted iff it is a
    leaf pointer or its run covers `t` -/
theorem findTile_spec (es : List Entry) (t : Nat) (hs : StrictAscL es) :
    findTile es.toArray t = lookupDir es t := findTile_eq_lookupDir es t hs

/-- for an archive well-formed to depth `d ≤ 3` (root + up to three leaf levels), the walk of
    the server and of the CLI finds exactly the entry that stores tile `t` -/
theorem walk_tileMap {fetch d lo hi root} (h : WF fetch d lo hi root) (hd : d ≤ 3) (t : Nat) :
    walkGo fetch 3 root t = lookupFlat (flatten fetch d root) t := walkGo_tileMap h 3 t hd

/-- the answer: exactly the stored bytes of the entry covering `t` with status 200; 204 (CLI: not
    found) exactly when no entry of the archive addresses `t` -/
theorem served_exact {fetch d lo hi root} (h : WF fetch d lo hi root) (hd : d ≤ 3) (data : Bytes) (t : Nat) :
    tileAnswer fetch 3 root data t =
      match lookupFlat (flatten fetch d root) t with
      | some e => (200, slice data e.off e.len)
      | none => (204, []) := by
  unfold tileAnswer
  rw [walk_tileMap h hd t]
  cases lookupFlat (flatten fetch d root) t <;> rfl

/-- no request returns the bytes of a different tile: whatever entry is returned covers `t` and is
    an entry of the archive's enumeration -/
theorem no_foreign {fetch d lo hi root} (h : WF fetch d lo hi root) (hd : d ≤ 3) (t : Nat) (e : Entry)
    (hr : walkGo fetch 3 root t = some e) :
    e ∈ flatten fetch d root ∧ e.id ≤ t ∧ t < e.id + e.rl := by
  rw [walk_tileMap h hd t] at hr
  unfold lookupFlat at hr
  have hm := List.mem_of_find?_eq_some hr
  have hc := List.find?_some hr
  simp only [covers, decide_eq_true_eq] at hc
  exact ⟨hm, hc.1, hc.2⟩

/-- absent tiles: if no entry of the enumeration covers `t` the answer is 204 / not found -/
theorem absent_204 {fetch d lo hi root} (h : WF fetch d lo hi root) (hd : d ≤ 3) (data : Bytes) (t : Nat)
    (ha : ∀ e ∈ flatten fetch d root, ¬ (e.id ≤ t ∧ t < e.id + e.rl)) :
    tileAnswer fetch 3 root data t = (204, []) := by
  rw [served_exact h hd data t]
  have : lookupFlat (flatten fetch d root) t = none := by
    unfold lookupFlat
    rw [List.find?_eq_none]
    intro e he
    simp only [covers, decide_eq_true_eq]
    exact ha e he
  rw [this]

-- non-vacuity (test): a two-level tree that satisfies WF
def leafA : List Entry := [⟨5, 0, 3, 2⟩, ⟨9, 3, 4, 1⟩]
def sampleFetch : Fetch := fun off len => if off = 100 ∧ len = 20 then some leafA else none
example : WF sampleFetch 1 0 50 [⟨1, 7, 2, 1⟩, ⟨5, 100, 20, 0⟩, ⟨20, 9, 1, 3⟩] := by
  apply WF.tile (by decide) (by decide)
  apply WF.ptr (d := 0) (mid := 12) (e := ⟨5, 100, 20, 0⟩) (es' := leafA) (by decide) rfl (by simp [sampleFetch]) ⟨⟨5, 0, 3, 2⟩, [⟨9, 3, 4, 1⟩], rfl, rfl⟩
  · exact WF.tile (by decide) (by decide) (WF.tile (by decide) (by decide) (WF.nil (by decide)))
  · exact WF.tile (by decide) (by decide) (WF.nil (by decide))

end Pm.C04
