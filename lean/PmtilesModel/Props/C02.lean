import PmtilesModel.Proofs.Header
import PmtilesModel.Spec.HeaderLayout
/-!
# C02 — Header codec: 127-byte spec layout, lossless both ways, bad magic rejected

`serializeHeader` / `deserializeHeader` (Model/Header.lean) are what the correspondence
check runs against Go's `SerializeHeader` / `DeserializeHeader`; `HeaderLayout.v3` is the
layout table of the specification.
-/
namespace Pm.C02
open Pm Pm.Header

/-- the model's wire widths are the specification's widths, at the specification's offsets
    (offset of a field = 8 + sum of the widths before it) -/
theorem layout_is_spec :
    fieldWidths = HeaderLayout.v3.map (·.width) ∧
    (List.range 24).map (fun i => 8 + sum (fieldWidths.take i)) = HeaderLayout.v3.map (·.offset) ∧
    magic = HeaderLayout.magic ∧ 8 + sum fieldWidths = HeaderLayout.headerLen := by decide

/-- serializing any header yields exactly 127 bytes -/
theorem ser_length (h : Header) (hr : InRange h) : (serializeHeader h).length = 127 := by
  unfold serializeHeader
  simp only [List.length_append, encFields_length _ _ (toVals_fits h hr)]
  decide

/-- …that start with the magic number and version 3 -/
theorem ser_magic_version (h : Header) :
    (serializeHeader h).take 7 = HeaderLayout.magic ∧ ((serializeHeader h).drop 7).head? = some 3 := by
  unfold serializeHeader; constructor <;> simp [magic, HeaderLayout.magic]

/-- …with every field little-endian at its specified offset (E7 fields two's complement):
    for the `i`-th row of the spec table, the bytes at `[offset, offset+width)` are the
    little-endian encoding of the field's value. -/
theorem ser_layout (h : Header) (hr : InRange h) (i : Nat) (hi : i < 24) :
    slice (serializeHeader h) ((HeaderLayout.v3.map (·.offset)).getD i 0) ((HeaderLayout.v3.map (·.width)).getD i 0)
      = le ((HeaderLayout.v3.map (·.width)).getD i 0) ((toVals h).getD i 0) := by
  have hl := layout_is_spec
  rw [← hl.1, ← hl.2.1]
  have := enc_slice fieldWidths (toVals h) (toVals_fits h hr) (magic ++ [3]) i (by simpa [fieldWidths] using hi)
  unfold serializeHeader
  have e : (magic ++ [3]).length = 8 := by decide
  rw [e] at this
  have hg : ((List.range 24).map (fun i => 8 + sum (fieldWidths.take i))).getD i 0 = 8 + sum (fieldWidths.take i) := by
    simp [List.getD, hi]
  rw [hg]; exact this

/-- which value sits in which row: the rows of `toVals` in the order of the spec table -/
theorem vals_order (h : Header) : toVals h =
    [h.rootOffset, h.rootLength, h.metadataOffset, h.metadataLength, h.leafDirectoryOffset,
     h.leafDirectoryLength, h.tileDataOffset, h.tileDataLength, h.addressedTilesCount,
     h.tileEntriesCount, h.tileContentsCount, (if h.clustered then 1 else 0), h.internalCompression,
     h.tileCompression, h.tileType, h.minZoom, h.maxZoom, ofI32 h.minLonE7, ofI32 h.minLatE7,
     ofI32 h.maxLonE7, ofI32 h.maxLatE7, h.centerZoom, ofI32 h.centerLonE7, ofI32 h.centerLatE7] := rfl

/-- deserializing the serialized header returns every field unchanged (the wire format does not
    carry the struct's `specVersion`: the writer always emits 3) -/
theorem deser_ser (h : Header) (hr : InRange h) :
    deserializeHeader (serializeHeader h) = .ok { h with specVersion := 3 } := by
  have hlen := ser_length h hr
  unfold deserializeHeader
  rw [if_neg (by omega)]
  have hm : (serializeHeader h).take 7 = magic := by unfold serializeHeader; simp [magic]
  rw [if_neg (by rw [hm]; simp)]
  have hv : ((serializeHeader h).drop 7).headD 0 = 3 := by unfold serializeHeader; simp [magic]
  have hd : (serializeHeader h).drop 8 = encFields fieldWidths (toVals h) := by
    unfold serializeHeader; simp [magic]
  simp only [hv, hd]
  rw [if_neg (by decide)]
  have := dec_enc fieldWidths (toVals h) [] (toVals_fits h hr)
  rw [List.append_nil] at this
  rw [this, ofVals_toVals 3 h hr]

/-- any 127-byte v3 header whose clustered byte is 0 or 1 decodes, and re-serializing the
    result reproduces the input bytes -/
theorem ser_deser (d : Bytes) (hb : IsBytes d) (hl : d.length = 127) (hm : d.take 7 = magic)
    (hv : (d.drop 7).headD 0 = 3) (hc : (d.drop 96).headD 0 ≤ 1) :
    ∃ h, deserializeHeader d = .ok h ∧ serializeHeader h = d := by
  have hs : sum fieldWidths ≤ (d.drop 8).length := by simp [List.length_drop, hl]; decide
  have hf := dec_fits fieldWidths (d.drop 8) (hb.drop 8) hs
  -- clustered byte is value #11 of the decoded list
  have h11 : (decFields fieldWidths (d.drop 8)).getD 11 0 = (d.drop 96).headD 0 := by
    simp only [fieldWidths, decFields, List.getD_cons_succ, List.getD_cons_zero, List.drop_drop]
    have : (d.drop 96).length = 31 := by simp [List.length_drop, hl]
    match hd : d.drop 96, this with
    | x :: rest, _ =>
      have : List.drop (8 + (8 + (8 + (8 + (8 + (8 + (8 + (8 + (8 + (8 + (8 + 8))))))))))) d = x :: rest := hd
      simp [unle]
  obtain ⟨h, ho, htv, hsv⟩ := toVals_ofVals 3 _ hf (by rw [h11]; exact hc)
  refine ⟨h, ?_, ?_⟩
  · unfold deserializeHeader
    rw [if_neg (by omega), if_neg (by rw [hm]; simp)]
    simp only [hv]
    rw [if_neg (by decide), ho]
  · unfold serializeHeader
    rw [htv, enc_dec fieldWidths (d.drop 8) (hb.drop 8) hs]
    have h119 : sum fieldWidths = 119 := by decide
    rw [h119, List.take_of_length_le (by simp [List.length_drop, hl])]
    -- d = take 7 ++ [d[7]] ++ drop 8
    have : d = d.take 7 ++ (d.drop 7) := (List.take_append_drop 7 d).symm
    have h7 : (d.drop 7).length = 120 := by simp [List.length_drop, hl]
    match hd7 : d.drop 7, h7 with
    | x :: rest, _ =>
      have hx : x = 3 := by simpa [hd7] using hv
      have hrest : d.drop 8 = rest := by
        have : d.drop 8 = (d.drop 7).drop 1 := by rw [List.drop_drop]
        rw [this, hd7]; rfl
      rw [hrest, ← hm]
      conv => rhs; rw [this, hd7, hx]
      simp

/-- wrong magic number ⇒ rejected -/
theorem bad_magic (d : Bytes) (hl : 127 ≤ d.length) (hm : d.take 7 ≠ magic) :
    deserializeHeader d = .error .badMagic := by
  unfold deserializeHeader
  rw [if_neg (by omega), if_pos hm]

/-- spec version above 3 ⇒ rejected -/
theorem bad_version (d : Bytes) (hl : 127 ≤ d.length) (hm : d.take 7 = magic) (hv : (d.drop 7).headD 0 > 3) :
    deserializeHeader d = .error .badVersion := by
  unfold deserializeHeader
  rw [if_neg (by omega), if_neg (by rw [hm]; simp)]
  simp only [hv, if_true]

-- non-vacuity (tests, labelled as such): a header with negative E7 and large counts is in range
example : InRange { rootOffset := 127, tileDataLength := 2^64 - 1, minLonE7 := -1800000000, maxLatE7 := 2^31 - 1, clustered := true, tileType := 255 } := by decide
example : deserializeHeader (serializeHeader { rootOffset := 127, minLonE7 := -5, clustered := true }) =
    .ok { specVersion := 3, rootOffset := 127, minLonE7 := -5, clustered := true } := deser_ser _ (by decide)

end Pm.C02
