import PmtilesModel.Model.Path
/-!
# C11 — Request paths cannot reach objects outside the served bucket root

`route`, `bucketKey` (Model/Path.lean) model the path regexes and the dispatch of `Server.get`;
`resolveLocal` the local backend's guard (`filepath.IsLocal`) and `filepath.Join`.  That every
bucket call of a request uses `bucketKey` is a fact about `server.go` checked by the tie with a
recording bucket; symbolic links inside the served directory are OS behaviour and out of scope.
-/
namespace Pm.C11
open Pm.Path

theorem dropWhile_spec (c : Nat) (r : Str) (x : Nat) (before : Str) (h : r.dropWhile (· ≠ c) = x :: before) :
    x = c ∧ r = r.takeWhile (· ≠ c) ++ c :: before ∧ c ∉ r.takeWhile (· ≠ c) := by
  induction r with
  | nil => simp at h
  | cons y ys ih =>
    by_cases hy : y = c
    · subst hy
      simp only [List.dropWhile_cons, ne_eq, not_true_eq_false, decide_false, Bool.false_eq_true, if_false] at h
      cases h
      simp
    · have hd : (y :: ys).dropWhile (· ≠ c) = ys.dropWhile (· ≠ c) := by simp [List.dropWhile_cons, hy]
      rw [hd] at h
      obtain ⟨h1, h2, h3⟩ := ih h
      have ht : (y :: ys).takeWhile (· ≠ c) = y :: ys.takeWhile (· ≠ c) := by simp [List.takeWhile_cons, hy]
      refine ⟨h1, ?_, ?_⟩
      · rw [ht, List.cons_append, ← h2]
      · rw [ht]; simp only [List.mem_cons, not_or]; exact ⟨fun e => hy e.symm, h3⟩

/-- splitting at the last occurrence really is that: `s = a ++ [c] ++ b` and `c` does not occur in `b` -/
theorem splitLast_spec (c : Nat) (s a b : Str) (h : splitLast c s = some (a, b)) :
    s = a ++ c :: b ∧ c ∉ b := by
  unfold splitLast at h
  simp only at h
  cases hd : s.reverse.dropWhile (· ≠ c) with
  | nil => rw [hd] at h; cases h
  | cons x before =>
    rw [hd] at h
    simp only [Option.some.injEq, Prod.mk.injEq] at h
    obtain ⟨ha, hb⟩ := h
    obtain ⟨_, h2, h3⟩ := dropWhile_spec c s.reverse x before hd
    constructor
    · have := congrArg List.reverse h2
      rw [List.reverse_reverse] at this
      rw [this, ← ha, ← hb]
      simp
    · rw [← hb]; simpa using h3

/-- **the name is the archive part of the path**: a path accepted by the tile pattern is
    `"/" name "/" z "/" x "/" y "." ext` with decimal fields, a lower-case extension, and the captured
    name is non-empty and consists of class characters only -/
theorem tile_name_is_archive_part (p : Str) (t : TilePath) (h : parseTilePath p = some t) :
    ∃ zs xs ys : Str, p = slash :: (t.name ++ slash :: (zs ++ slash :: (xs ++ slash :: (ys ++ dot :: t.ext)))) ∧
      zs.all isDigit = true ∧ xs.all isDigit = true ∧ ys.all isDigit = true ∧ t.ext.all isLower = true ∧
      validName t.name = true := by
  unfold parseTilePath at h
  match p, h with
  | 0x2F :: body, h =>
    simp only at h
    cases h1 : splitLast dot body with
    | none => rw [h1] at h; cases h
    | some pr1 =>
      obtain ⟨b1, ext⟩ := pr1
      rw [h1] at h; simp only at h
      split at h
      · cases h
      · rename_i hext
        cases h2 : splitLast slash b1 with
        | none => rw [h2] at h; cases h
        | some pr2 =>
          obtain ⟨b2, ys⟩ := pr2
          rw [h2] at h; simp only at h
          split at h
          · cases h
          · rename_i hys
            cases h3 : splitLast slash b2 with
            | none => rw [h3] at h; cases h
            | some pr3 =>
              obtain ⟨b3, xs⟩ := pr3
              rw [h3] at h; simp only at h
              split at h
              · cases h
              · rename_i hxs
                cases h4 : splitLast slash b3 with
                | none => rw [h4] at h; cases h
                | some pr4 =>
                  obtain ⟨name, zs⟩ := pr4
                  rw [h4] at h; simp only at h
                  split at h
                  · cases h
                  · rename_i hzs
                    split at h
                    · cases h
                    · rename_i hname
                      cases hz' : parseUint 8 zs with
                      | none => rw [hz'] at h; simp at h
                      | some zv =>
                      cases hx' : parseUint 32 xs with
                      | none => rw [hz', hx'] at h; simp at h
                      | some xv =>
                      cases hy' : parseUint 32 ys with
                      | none => rw [hz', hx', hy'] at h; simp at h
                      | some yv =>
                      rw [hz', hx', hy'] at h
                      simp only [Option.some.injEq] at h
                      subst h
                      have e1 := (splitLast_spec dot body b1 ext h1).1
                      have e2 := (splitLast_spec slash b1 b2 ys h2).1
                      have e3 := (splitLast_spec slash b2 b3 xs h3).1
                      have e4 := (splitLast_spec slash b3 name zs h4).1
                      refine ⟨zs, xs, ys, ?_, ?_, ?_, ?_, ?_, ?_⟩
                      · show slash :: body = _
                        rw [e1, e2, e3, e4]; simp [slash]
                      · simp only [Bool.or_eq_true, Bool.not_eq_true', not_or, Bool.not_eq_false] at hzs; simpa using hzs.2
                      · simp only [Bool.or_eq_true, Bool.not_eq_true', not_or, Bool.not_eq_false] at hxs; simpa using hxs.2
                      · simp only [Bool.or_eq_true, Bool.not_eq_true', not_or, Bool.not_eq_false] at hys; simpa using hys.2
                      · simp only [Bool.or_eq_true, Bool.not_eq_true', not_or, Bool.not_eq_false] at hext; simpa using hext.2
                      · simpa using hname

/-- the only object a request reads is `<name>.pmtiles` for the name captured from its path -/
theorem key_is_name_pmtiles (p : Str) (k : Str) (h : bucketKey (route p) = some k) :
    (∃ t, parseTilePath p = some t ∧ k = t.name ++ pmtilesSuffix) ∨
    (∃ n, parseTilejsonPath p = some n ∧ k = n ++ pmtilesSuffix) ∨
    (∃ n, parseMetadataPath p = some n ∧ k = n ++ pmtilesSuffix) := by
  unfold route at h
  cases h1 : parseTilePath p with
  | some t => rw [h1] at h; simp [bucketKey] at h; exact Or.inl ⟨t, rfl, h.symm⟩
  | none =>
    rw [h1] at h; simp only at h
    cases h2 : parseTilejsonPath p with
    | some n => rw [h2] at h; simp [bucketKey] at h; exact Or.inr (Or.inl ⟨n, rfl, h.symm⟩)
    | none =>
      rw [h2] at h; simp only at h
      cases h3 : parseMetadataPath p with
      | some n => rw [h3] at h; simp [bucketKey] at h; exact Or.inr (Or.inr ⟨n, rfl, h.symm⟩)
      | none => rw [h3] at h; simp only at h; split at h <;> simp [bucketKey] at h

/-! ## lexical containment of the local backend -/

theorem cleanStack_append (st : List Str) (a b : List Str) :
    cleanStack st (a ++ b) = cleanStack (cleanStack st a) b := by
  induction a generalizing st with
  | nil => rfl
  | cons s rest ih =>
    simp only [List.cons_append, cleanStack]
    split
    · exact ih st
    · split
      · exact ih st.tail
      · exact ih (s :: st)

/-- a key accepted by the guard never pops below where it started -/
theorem cleanStack_local (key : List Str) : ∀ (d : Nat) (extra base : List Str), isLocalSegs d key = true →
    d ≤ extra.length → ∃ extra', cleanStack (extra ++ base) key = extra' ++ base ∧
      (∀ s ∈ extra', s ∈ extra ∨ (s ≠ [] ∧ s ≠ dotSeg ∧ s ≠ dotdotSeg)) := by
  induction key with
  | nil => intro d extra base _ _; exact ⟨extra, rfl, fun s hs => Or.inl hs⟩
  | cons s rest ih =>
    intro d extra base hl hd
    simp only [isLocalSegs] at hl
    simp only [cleanStack]
    split
    · rename_i hc
      rw [if_pos hc] at hl
      exact ih d extra base hl hd
    · rename_i hc
      rw [if_neg hc] at hl
      split
      · rename_i hdd
        rw [if_pos hdd] at hl
        split at hl
        · cases hl
        · rename_i hd0
          cases extra with
          | nil => simp at hd; omega
          | cons e es =>
            simp only [List.cons_append, List.tail_cons]
            obtain ⟨ex', h1, h2⟩ := ih (d - 1) es base hl (by simp at hd; omega)
            exact ⟨ex', h1, fun x hx => (h2 x hx).imp (fun h => List.mem_cons_of_mem _ h) id⟩
      · rename_i hdd
        rw [if_neg hdd] at hl
        obtain ⟨ex', h1, h2⟩ := ih (d + 1) (s :: extra) base hl (by simp; omega)
        refine ⟨ex', by simpa using h1, ?_⟩
        intro x hx
        rcases h2 x hx with h | h
        · simp only [List.mem_cons] at h
          rcases h with rfl | h
          · right
            refine ⟨fun e => hc (Or.inl e), fun e => hc (Or.inr e), hdd⟩
          · exact Or.inl h
        · exact Or.inr h

/-- **containment, for EVERY key** (every spelling, escaping or dot-segmenting of a request path ends up
    as some key): if the local backend opens a file at all, it is `clean(root)` followed by segments
    that are never `..`, `.` or empty — a file below the served directory -/
theorem local_contained (root : List Str) (key : Str) (f : List Str) (h : resolveLocal root key = some f) :
    ∃ rest, f = cleanAux [] root ++ rest ∧ ∀ s ∈ rest, s ≠ dotdotSeg ∧ s ≠ dotSeg ∧ s ≠ [] := by
  unfold resolveLocal at h
  split at h
  · rename_i hl
    cases h
    simp only [isLocal, Bool.and_eq_true] at hl
    obtain ⟨ex', h1, h2⟩ := cleanStack_local (segments key) 0 [] (cleanStack [] root) hl.2 (Nat.le_refl _)
    refine ⟨ex'.reverse, ?_, ?_⟩
    · simp only [cleanAux, cleanStack_append]
      simp only [List.nil_append] at h1
      rw [h1, List.reverse_append]
    · intro s hs
      rcases h2 s (List.mem_reverse.mp hs) with h | h
      · cases h
      · exact ⟨h.2.2, h.2.1, h.1⟩
  · cases h

/-- keys that climb out, are absolute or empty are refused (the backend answers not-found) -/
theorem local_refuses (root : List Str) (key : Str) (h : isLocal key = false) : resolveLocal root key = none := by
  unfold resolveLocal; simp [h]

-- non-vacuity (tests): "/../o/0/0/0.mvt" parses with name "../o"; its key "../o.pmtiles" is refused; "a/../b" resolves inside
example : (parseTilePath [47, 46, 46, 47, 111, 47, 48, 47, 48, 47, 48, 46, 109, 118, 116]).map (·.name) = some [46, 46, 47, 111] := by decide
example : resolveLocal [[115, 114, 118]] [46, 46, 47, 111, 46, 112, 109, 116, 105, 108, 101, 115] = none := by decide
example : resolveLocal [[115, 114, 118]] [97, 47, 46, 46, 47, 98] = some [[115, 114, 118], [98]] := by decide

end Pm.C11
