import PmtilesModel.Proofs.Hilbert
/-!
# C01 — Tile IDs: spec Hilbert numbering, bijective, contiguous per zoom, parent-exact

Property theorems only.  The functions `goZxyToID`, `goIDToZxy`, `goParentID` are the
operation-by-operation models of `pmtiles/tile_id.go` (Model/TileId.lean) that the
correspondence check runs against the Go functions; `H`, `G`, `base` are the
specification (Spec/Hilbert.lean).  Domain: `z ≤ 31`, `x, y < 2^z`, IDs `< base 32`.
-/
namespace Pm.C01
open Pm.Hilbert Pm.TileId

/-- The numbering is the spec numbering: block base plus Hilbert index. -/
theorem zxyToID_is_spec (z x y : Nat) (hz : z ≤ 31) (hx : x < 2^z) (hy : y < 2^z) :
    goZxyToID z x y = base z + G z (x, y) := zxyToID_spec z x y hz hx hy

theorem idToZxy_is_spec (z i : Nat) (hz : z ≤ 31) (h1 : base z ≤ i) (h2 : i < base (z+1)) :
    goIDToZxy i = (z, (H z (i - base z)).1, (H z (i - base z)).2) := idToZxy_spec z i hz h1 h2

/-- coordinate → ID → coordinate -/
theorem roundtrip_zxy (z x y : Nat) (hz : z ≤ 31) (hx : x < 2^z) (hy : y < 2^z) :
    goIDToZxy (goZxyToID z x y) = (z, x, y) := Pm.TileId.roundtrip_zxy z x y hz hx hy

/-- every ID below the first ID of zoom 32 lies in exactly one zoom block -/
theorem zoom_exists (i : Nat) (hi : i < base 32) : ∃ z, z ≤ 31 ∧ base z ≤ i ∧ i < base (z+1) := by
  -- least z with i < base (z+1)
  have : ∀ n, i < base (n+1) → ∃ z, z ≤ n ∧ base z ≤ i ∧ i < base (z+1) := by
    intro n
    induction n with
    | zero => intro h; exact ⟨0, Nat.le_refl 0, by simp [base], h⟩
    | succ n ih =>
      intro h
      by_cases hc : i < base (n+1)
      · obtain ⟨z, hz, h1, h2⟩ := ih hc
        exact ⟨z, by omega, h1, h2⟩
      · exact ⟨n+1, Nat.le_refl _, by omega, h⟩
  exact this 31 hi

/-- ID → coordinate → ID, for every ID below the first ID of zoom 32 -/
theorem roundtrip_id (i : Nat) (hi : i < base 32) :
    let r := goIDToZxy i
    r.1 ≤ 31 ∧ r.2.1 < 2^r.1 ∧ r.2.2 < 2^r.1 ∧ goZxyToID r.1 r.2.1 r.2.2 = i := by
  obtain ⟨z, hz, h1, h2⟩ := zoom_exists i hi
  have h := Pm.TileId.roundtrip_id z i hz h1 h2
  simp only at h
  intro r
  obtain ⟨e, hx, hy, hid⟩ := h
  have e' : r.1 = z := e
  rw [e']
  exact ⟨hz, hx, hy, by rw [← e']; exact hid⟩

/-- zoom `z` occupies the contiguous block `[base z, base (z+1))` -/
theorem block (z x y : Nat) (hz : z ≤ 31) (hx : x < 2^z) (hy : y < 2^z) :
    base z ≤ goZxyToID z x y ∧ goZxyToID z x y < base (z+1) := by
  rw [zxyToID_spec z x y hz hx hy, base_succ]
  have := G_lt z (x, y)
  omega

/-- the block is filled completely: every ID of the block is the ID of a tile of zoom `z` -/
theorem block_onto (z i : Nat) (hz : z ≤ 31) (h1 : base z ≤ i) (h2 : i < base (z+1)) :
    ∃ x y, x < 2^z ∧ y < 2^z ∧ goZxyToID z x y = i := by
  have h := Pm.TileId.roundtrip_id z i hz h1 h2
  simp only at h
  obtain ⟨e, hx, hy, hid⟩ := h
  refine ⟨(goIDToZxy i).2.1, (goIDToZxy i).2.2, hx, hy, ?_⟩
  rw [← e]; exact hid

/-- the curve of zoom `z` starts at `(z,0,0)` -/
theorem origin (z : Nat) (hz : z ≤ 31) : goZxyToID z 0 0 = base z := by
  have hp : 0 < 2^z := Nat.pow_pos (by decide)
  rw [zxyToID_spec z 0 0 hz hp hp]
  have h := G_H z 0 (Nat.pow_pos (by decide))
  rw [H_first] at h
  rw [h]; rfl

/-- consecutive IDs inside one zoom are edge-adjacent tiles -/
theorem adjacent (z i : Nat) (hz : z ≤ 31) (h1 : base z ≤ i) (h2 : i + 1 < base (z+1)) :
    dist1 ((goIDToZxy i).2.1, (goIDToZxy i).2.2) ((goIDToZxy (i+1)).2.1, (goIDToZxy (i+1)).2.2) :=
  Pm.TileId.adjacent z i hz h1 h2

/-- parent ID = ID of the halved coordinate, one zoom up -/
theorem parent (z x y : Nat) (hz1 : 1 ≤ z) (hz : z ≤ 31) (hx : x < 2^z) (hy : y < 2^z) :
    goParentID (goZxyToID z x y) = goZxyToID (z-1) (x/2) (y/2) :=
  Pm.TileId.parent z x y hz1 hz hx hy

/-- `base z = (4^z - 1)/3` satisfies `3·base z + 1 = 4^z` (so the blocks are what the spec says) -/
theorem base_closed (z : Nat) : 3 * base z + 1 = 4^z := three_base z

-- non-vacuity: concrete in-domain points (tests, labelled as such)
example : goZxyToID 3 5 2 = 76 ∧ goIDToZxy 76 = (3, 5, 2) := by decide
example : (3:Nat) ≤ 31 ∧ (5:Nat) < 2^3 ∧ (2:Nat) < 2^3 := by decide
example : goParentID (goZxyToID 3 5 2) = goZxyToID 2 2 1 := by decide

end Pm.C01
