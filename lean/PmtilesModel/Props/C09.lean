import PmtilesModel.Proofs.Cache
import PmtilesModel.Proofs.ServerProtocol
import PmtilesModel.Proofs.ServerTransparent
/-!
# C09 — Directory cache is transparent under concurrency, eviction and coalescing

`Pm.Cache` (Model/Cache.lean) is the loop's bookkeeping with the code's exact structure; it is
replayed event by event against the real server's hook log (totalSize, len(cache), list length,
in-flight keys, waiters).  Which element an eviction removes is the code's LRU choice (hit: move to front, insert: push
front, evict: from the back): `evicts_least_recent_first`, `newest_evicted_last`, `hit_moves_front`.
-/
namespace Pm.C09
open Pm Pm.Cache

/-- every reachable bookkeeping state satisfies the accounting invariant -/
def run (limit : Int) : St → List (Sum (Key × String) (Key × Bool × Nat × String)) → St
  | s, [] => s
  | s, .inl (k, p) :: r => run limit (onReq s k p).1 r
  | s, .inr (k, ok, sz, vt) :: r => run limit (onResp limit s k ok sz vt) r

theorem size_invariant (limit : Int) (evs : List (Sum (Key × String) (Key × Bool × Nat × String))) :
    Cache.Inv (run limit init evs) := by
  have : ∀ s, Cache.Inv s → Cache.Inv (run limit s evs) := by
    induction evs with
    | nil => intro s hs; exact hs
    | cons e r ih =>
      intro s hs
      cases e with
      | inl p => exact ih _ (onReq_inv s p.1 p.2 hs)
      | inr p => exact ih _ (onResp_inv limit s p.1 p.2.1 p.2.2.1 p.2.2.2 hs)
  exact this init init_inv

/-- the reported cache size is the sum of the cached sizes and never negative -/
theorem size_nonneg (limit : Int) (evs : List (Sum (Key × String) (Key × Bool × Nat × String))) :
    0 ≤ (run limit init evs).total := by
  rw [(size_invariant limit evs).acct]; exact sumSizes_nonneg _

/-- after every response the reported size is below the configured limit (limit ≥ 1 byte) -/
theorem size_bounded (limit : Int) (hl : 1 ≤ limit) (s : St) (hi : Cache.Inv s) (k : Key) (size : Nat) (vt : String) :
    (onResp limit s k true size vt).total < limit := by
  unfold onResp
  simp only [Bool.not_true, Bool.false_eq_true, if_false]
  exact evictLoop_bounded limit hl _ (insertOk_inv _ k size vt (dropWaiters_inv s k hi))

/-- eviction always terminates: at most one round per list element, for every limit -/
theorem evict_terminates (limit : Int) (s : St) :
    (evictLoop limit (s.evict.length + 1) s).total < limit ∨ (evictLoop limit (s.evict.length + 1) s).evict = [] :=
  evictLoop_done limit _ s (Nat.lt_succ_self _)

/-- coalescing: a request for a key that is being fetched joins its waiters — no new in-flight
    entry, hence no new bucket call -/
theorem coalesce (s : St) (k : Key) (n : Nat) (hc : cached s k = none) (hf : s.inflight.find? (fun p => p.1 == k) = some (k, n)) :
    (onReq s k "").2 = .join ∧ (onReq s k "").1.inflight.length = s.inflight.length := by
  unfold onReq
  simp only [ne_eq, not_true_eq_false, if_false, hc, hf, List.length_map, and_self]

/-- a request for a key that is neither cached nor in flight starts exactly one fetch -/
theorem miss_starts_one (s : St) (k : Key) (hc : cached s k = none) (hf : s.inflight.find? (fun p => p.1 == k) = none) :
    (onReq s k "").2 = .miss ∧ (onReq s k "").1.inflight = s.inflight ++ [(k, 1)] := by
  unfold onReq
  simp only [ne_eq, not_true_eq_false, if_false, hc, hf, and_self]

/-- a hit changes neither the size nor the map -/
theorem hit_keeps (s : St) (k : Key) (e : Elem) (hc : cached s k = some e) :
    (onReq s k "").2 = .hit ∧ (onReq s k "").1.total = s.total ∧ (onReq s k "").1.cache = s.cache := by
  unfold onReq
  simp only [ne_eq, not_true_eq_false, if_false, hc, and_self]

/-- a hit makes the element the most recently used one (front of the list) -/
theorem hit_moves_front (s : St) (k : Key) (e : Elem) (hc : cached s k = some e) :
    (onReq s k "").1.evict.head? = some e := by
  unfold onReq
  simp only [ne_eq, not_true_eq_false, if_false, hc, List.head?_cons]

/-- **evictions take the least recently used first**: whatever is left of the list after the
    eviction loop is a front segment of it — the victims are exactly its tail -/
theorem evicts_least_recent_first (limit : Int) (fuel : Nat) (s : St) :
    ∃ n, (evictLoop limit fuel s).evict = s.evict.take n :=
  evictLoop_prefix limit fuel s

/-- the directory that was just fetched is the last to go: after a successful response either the
    cache was emptied altogether (the new element alone exceeds the limit) or the new element is
    still there, at the front -/
theorem newest_evicted_last (limit : Int) (s : St) (k : Key) (size : Nat) (vt : String) :
    (onResp limit s k true size vt).evict ≠ [] →
    (onResp limit s k true size vt).evict.head? = some ⟨k, size, vt⟩ := by
  unfold onResp
  simp only [Bool.not_true, Bool.false_eq_true, if_false]
  intro h
  exact evictLoop_front_survives limit _ _ ⟨k, size, vt⟩ (dropWaiters s k).evict rfl h

/-- transparency at the protocol level is `C08.single_version` with a one-version history: the
    only version a response can be the answer of is the object itself -/
theorem transparent (s : ServerProtocol.Store) (cs : List (Nat × ServerProtocol.Q))
    (hu : ∀ n, (s n).Pairwise (fun a b => a.tag ≠ b.tag)) (hz : ∀ n, ∀ v ∈ s n, v.tag ≠ 0)
    (st : ServerProtocol.St) (hr : ServerProtocol.Reach (ServerProtocol.initSt s cs) st)
    (cid : Nat) (q : ServerProtocol.Q) (r : ServerProtocol.Resp)
    (h : (cid, ⟨q, .done r⟩) ∈ st.clients) (v0 : ServerProtocol.Version) (hone : ∀ v ∈ st.store q.name, v = v0) :
    r = .notFound ∨ r = .ioError ∨ r = ServerProtocol.answer v0 q := by
  rcases ServerProtocol.single_version_reachable s cs hu hz st hr cid q r h with h1 | h1 | ⟨v, hv, rfl⟩
  · exact Or.inl h1
  · exact Or.inr (Or.inl h1)
  · exact Or.inr (Or.inr (by rw [hone v hv]))

/-- **strong transparency**: an archive that is not replaced (single version `v0`, valid header, non-empty
    root, leaf pointers of positive length) is answered with exactly its uncached answer `answer v0 q` by
    every completed request — no failure, no "not found" — whatever else happens: any number of concurrent
    requests, any eviction choices, any schedule of loop steps and bucket deliveries, replacements of
    other archives.  (`transparent` above allows failures; this theorem excludes them.) -/
theorem transparent_strong (n0 : ServerProtocol.Name) (v0 : ServerProtocol.Version) (h0 : ServerProtocol.Hdr)
    (ha : ServerProtocol.ArchOK v0 h0) (s : ServerProtocol.Store) (cs : List (Nat × ServerProtocol.Q))
    (hu : ∀ n, (s n).Pairwise (fun a b => a.tag ≠ b.tag)) (hz : ∀ n, ∀ v ∈ s n, v.tag ≠ 0)
    (hs : s n0 = [v0]) (st : ServerProtocol.St) (hr : ServerProtocol.ReachFix n0 v0 (ServerProtocol.initSt s cs) st)
    (cid : Nat) (q : ServerProtocol.Q) (r : ServerProtocol.Resp) (hq : q.name = n0)
    (h : (cid, ⟨q, .done r⟩) ∈ st.clients) : r = ServerProtocol.answer v0 q :=
  ServerProtocol.transparent_strong n0 v0 h0 ha s cs hu hz hs st hr cid q r hq h

end Pm.C09
