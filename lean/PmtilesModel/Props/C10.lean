import PmtilesModel.Proofs.Cache
import PmtilesModel.Model.Reader
/-!
# C10 — Bucket faults and malformed archives are contained: error, no crash, no lie

What is logic is proved here: a failed fetch is not cached, the eviction loop halts for every
accepted cache size (0 and negative included — the D3 fix), and the tile walk never turns an
unavailable directory into "no content" (the D12 fix).  Crashes inside library code, memory
exhaustion and wall-clock bounds are runtime behaviour that only the tie exhibits (fault scripts
at every bucket-call position, truncations and field corruptions of archives, watchdog).
-/
namespace Pm.C10
open Pm Pm.Cache

/-- a fetch that failed or did not parse inserts nothing: map, list and size are unchanged -/
theorem fail_not_cached (limit : Int) (s : St) (k : Key) (size : Nat) (vt : String) :
    (onResp limit s k false size vt).cache = s.cache ∧ (onResp limit s k false size vt).evict = s.evict ∧
    (onResp limit s k false size vt).total = s.total := by
  unfold onResp; simp [dropWaiters]

/-- …but its waiters are answered (the in-flight entry is removed, so nobody stays blocked on it) -/
theorem fail_answers_waiters (limit : Int) (s : St) (k : Key) (ok : Bool) (size : Nat) (vt : String) :
    ∀ p ∈ (onResp limit s k ok size vt).inflight, p.1 ≠ k := by
  have hbase : ∀ p ∈ s.inflight.filter (fun p => p.1 ≠ k), p.1 ≠ k := by
    intro p hp; simpa using (List.mem_filter.mp hp).2
  have hev : ∀ (fuel : Nat) (s' : St), (evictLoop limit fuel s').inflight = s'.inflight := by
    intro fuel
    induction fuel with
    | zero => intro s'; rfl
    | succ f ih =>
      intro s'
      simp only [evictLoop]
      split
      · rfl
      · cases s'.evict.getLast? with
        | none => rfl
        | some v => simp only; rw [ih]
  unfold onResp
  simp only
  cases ok with
  | false => simpa [dropWaiters] using hbase
  | true =>
    simp only [Bool.not_true, Bool.false_eq_true, if_false]
    rw [hev]
    simpa [insertOk, dropWaiters] using hbase

/-- the eviction loop halts for EVERY cache size, also 0 and negative ones: below the limit or on
    an empty list (before the fix the loop spun forever on the empty list) -/
theorem eviction_halts (limit : Int) (s : St) :
    (evictLoop limit (s.evict.length + 1) s).total < limit ∨ (evictLoop limit (s.evict.length + 1) s).evict = [] :=
  evictLoop_done limit _ s (Nat.lt_succ_self _)

/-- the tile walk with directories that may be unavailable: `dir off len = none` models a fetch that
    failed or did not decode (`ok = false`) -/
inductive WalkOut
  | found (e : Entry) | absent | failed
deriving Repr, DecidableEq

def walkF (fetch : Reader.Fetch) : Nat → Option (List Entry) → Nat → WalkOut
  | fuel, dir, t =>
    match dir with
    | none => .failed                         -- `!dirValue.ok` → 500 (the D12 fix)
    | some es =>
      match Reader.findTile es.toArray t with
      | none => .absent
      | some e =>
        if 0 < e.rl then .found e else
        match fuel with
        | 0 => .absent
        | f+1 => walkF fetch f (fetch e.off e.len) t

/-- **no lie**: "no content" is answered only when some directory that WAS read says so; an
    unavailable directory on the path always yields a failure status -/
theorem no_lie_root (fetch : Reader.Fetch) (fuel t : Nat) : walkF fetch fuel none t = .failed := by
  cases fuel <;> rfl

theorem no_lie_leaf (fetch : Reader.Fetch) (fuel t : Nat) (es : List Entry) (e : Entry)
    (hf : Reader.findTile es.toArray t = some e) (hp : e.rl = 0) (hn : fetch e.off e.len = none) :
    walkF fetch (fuel + 1) (some es) t = .failed := by
  simp only [walkF, hf, hp, Nat.lt_irrefl, if_false, hn]

/-- when nothing fails the walk is C04's walk -/
theorem walkF_eq_walkGo (fetch : Reader.Fetch) (hall : ∀ o l, fetch o l ≠ none) :
    ∀ fuel es t, walkF fetch fuel (some es) t =
      match Reader.walkGo fetch fuel es t with
      | some e => .found e
      | none => .absent := by
  intro fuel
  induction fuel with
  | zero =>
    intro es t
    rw [walkF, Reader.walkGo]
    cases Reader.findTile es.toArray t with
    | none => rfl
    | some e => simp only; split <;> rfl
  | succ f ih =>
    intro es t
    rw [walkF, Reader.walkGo]
    cases Reader.findTile es.toArray t with
    | none => rfl
    | some e =>
      simp only
      split
      · rfl
      · cases hfe : fetch e.off e.len with
        | none => exact absurd hfe (hall _ _)
        | some d => simp only; exact ih d t

end Pm.C10
