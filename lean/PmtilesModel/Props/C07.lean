import PmtilesModel.Proofs.Extract
import PmtilesModel.Proofs.ExtractContent
/-!
# C07 — Extract is an exact restriction, identical for every thread/overfetch setting

Pure pipeline of `Extract` (Model/Extract.lean): run trimming of `RelevantEntries`,
`reencodeEntries`, and the execution of merged download plans.  `mergeOK` is the relation the
tie checks on every `MergeRanges` result of the real code; theorems quantify over all results
satisfying it, so greedy order, stop rule and sort ties are irrelevant.  The worker schedule is
covered by `config_independent`: ANY order of the same pairwise-disjoint writes (every thread
count, every completion order, every interleaving of chunk writes) yields the same file.
-/
namespace Pm.C07
open Pm Pm.Extract

/-- trimming a run to the relevance set `S`: the pieces cover exactly the IDs of the run that are
    in `S`, and keep the entry's offset and length (so every addressed tile has the source's bytes) -/
theorem relevant_trim (S : Nat → Bool) (e : Entry) (t : Nat) :
    (∃ p ∈ trim S e, covers p t) ↔ (covers e t ∧ S t = true) := trim_spec S e t

theorem relevant_same_content (S : Nat → Bool) (e : Entry) : ∀ p ∈ trim S e, p.off = e.off ∧ p.len = e.len :=
  fun p hp => splitLoop_same_content S e.off e.len e.rl e.id e.id 0 p hp

/-- re-encoding: after any entry list inside the source, the output ranges tile `[0, total)` in
    order and the rendered tile data has exactly that length -/
theorem reencode_layout (src : Bytes) (es : List Entry) (h : ∀ e ∈ es, e.off + e.len ≤ src.length) :
    RInv src (reencode es) := by
  unfold reencode
  have : ∀ (s : RS), RInv src s → RInv src (es.foldl step s) := by
    induction es with
    | nil => intro s hs; exact hs
    | cons e r ih =>
      intro s hs
      exact ih (fun x hx => h x (by simp [hx])) (step s e) (step_tiles src s e hs (h e (by simp)))
  apply this
  exact ⟨by simp [reencodeInit, Tiles], by simp [reencodeInit, render], by simp [reencodeInit], fun _ _ _ _ => trivial⟩

/-- each new content is appended at the old end of the output (so `out.data[new offset] = src.data[old offset]`) -/
theorem reencode_appends (src : Bytes) (s : RS) (e : Entry) (he : e.off + e.len ≤ src.length)
    (hl : lookup s.seen e.off = none) :
    render src (step s e).ranges = render src s.ranges ++ slice src e.off e.len := render_step src s e he hl

def writeOf (source : Bytes) (r : Rng) : Write := (r.dst, slice source r.src r.len)

/-- for every overfetch: executing the merged plans (in output order) writes exactly the bytes the
    unmerged ranges write, at the same offsets -/
theorem merge_same_bytes (source : Bytes) (ranges : List Rng) (budget : Nat) (plans : List Plan)
    (h : mergeOK ranges budget plans = true) :
    ((sortByDst plans).map (execPlan source)).flatten = ranges.map (writeOf source) := by
  obtain ⟨h1, h2, _⟩ := mergeOK_parts h
  rw [← h1]
  have hs : ∀ p ∈ sortByDst plans, p.rng.len = need p.cds :=
    fun p hp => h2 p ((perm_sortByDst plans).mem_iff.mp hp)
  generalize sortByDst plans = sp at hs
  induction sp with
  | nil => rfl
  | cons p rest ih =>
    simp only [List.map_cons, List.flatten_cons, List.map_append]
    rw [ih (fun q hq => hs q (by simp [hq])), execPlan_eq source p (hs p (by simp))]
    rfl

/-- **configuration independence**: whatever the overfetch (any two plan sets accepted by the
    relation for the same ranges), whatever the order in which workers pop plans and chunks complete
    (any permutation of the write list), the output file is the same as writing the unmerged ranges
    one by one — provided the ranges' writes are pairwise disjoint (they tile the output). -/
theorem config_independent (source : Bytes) (ranges : List Rng) (budget : Nat) (plans : List Plan)
    (h : mergeOK ranges budget plans = true) (hd : Disjoint (ranges.map (writeOf source)))
    (ws : List Write) (hp : ws.Perm ((plans.map (execPlan source)).flatten)) (f : Nat → Option Nat) :
    ws.foldl applyW f = (ranges.map (writeOf source)).foldl applyW f := by
  have h1 := merge_same_bytes source ranges budget plans h
  have hperm : ((plans.map (execPlan source)).flatten).Perm (((sortByDst plans).map (execPlan source)).flatten) :=
    List.Perm.flatten ((perm_sortByDst plans).symm.map _)
  rw [h1] at hperm
  exact (writes_commute f _ _ (hp.trans hperm).symm hd).symm

/-- a write may be split into consecutive chunk writes (io.CopyN's buffers) without changing the file -/
theorem split_write (f : Nat → Option Nat) (d : Nat) (a b : Bytes) :
    applyW (applyW f (d, a)) (d + a.length, b) = applyW f (d, a ++ b) := by
  funext i
  simp only [applyW, List.length_append]
  by_cases h2 : d + a.length ≤ i ∧ i < d + a.length + b.length
  · rw [if_pos h2, if_pos (by omega)]
    rw [List.getElem?_append_right (by omega)]
    congr 1; omega
  · rw [if_neg h2]
    by_cases h1 : d ≤ i ∧ i < d + a.length
    · rw [if_pos h1, if_pos (by omega), List.getElem?_append_left (by omega)]
    · rw [if_neg h1, if_neg (by omega)]

/-- header counts written by extract = those of the re-encoded entries -/
theorem reencode_counts (es : List Entry) :
    (reencode es).out.length = es.length := by
  unfold reencode
  have : ∀ s : RS, (es.foldl step s).out.length = s.out.length + es.length := by
    induction es with
    | nil => intro s; rfl
    | cons e r ih =>
      intro s
      simp only [List.foldl_cons, List.length_cons]
      rw [ih (step s e)]
      have : (step s e).out.length = s.out.length + 1 := by
        unfold step; cases lookup s.seen e.off <;> simp
      omega
  rw [this]; simp [reencodeInit]

/-- **content preservation of the re-encoding**: output entry `i` has the ID, run length and length
    of selected entry `i`, and the bytes at its new offset in the output tile data are the bytes at the
    old offset in the source — for first occurrences and for repeated (deduplicated) offsets alike -/
theorem reencode_keeps_content (src : Bytes) (es : List Entry) (hin : ∀ e ∈ es, e.off + e.len ≤ src.length)
    (hol : OffLen es) :
    All₂ (Keeps src (render src (reencode es).ranges)) (reencode es).out es.reverse :=
  reencode_keeps src es hin hol

/-- the tile entries of a set of directories -/
def tileEntries (dirs : List (List Entry)) : List Entry := dirs.flatten.filter (fun e => e.rl != 0)

/-- **exact restriction, end to end through the pure pipeline.**  `dirs` are the directories Extract
    visits (root and relevant leaves), `rel` any ordering (Extract sorts by tile ID) of the entries
    `RelevantEntries` keeps from them.  In the output archive — the re-encoded entries and the tile data
    the ranges render — tile `t` holds bytes `b` **iff** `t` is in the wanted set and holds `b` in the
    source: every wanted stored tile is present with the source's bytes, and no other tile is addressed. -/
theorem extract_exact (src : Bytes) (S : Nat → Bool) (meets : Nat → Nat → Bool) (lastTile : Nat)
    (dirs : List (List Entry)) (rel : List Entry)
    (hrel : rel.Perm (dirs.flatMap (fun d => (relevantAux S meets lastTile d).1)))
    (hin : ∀ e ∈ tileEntries dirs, e.off + e.len ≤ src.length)
    (hol : OffLen (tileEntries dirs))
    (t : Nat) (b : Bytes) :
    (∃ o ∈ (reencode rel).out, covers o t ∧ slice (render src (reencode rel).ranges) o.off o.len = b) ↔
      (S t = true ∧ ∃ e ∈ tileEntries dirs, covers e t ∧ slice src e.off e.len = b) := by
  have hmem : ∀ e, e ∈ tileEntries dirs ↔ (∃ d ∈ dirs, e ∈ d) ∧ e.rl ≠ 0 := by
    intro e
    unfold tileEntries
    rw [List.mem_filter, List.mem_flatten]
    constructor
    · rintro ⟨⟨d, hd, he⟩, h0⟩; exact ⟨⟨d, hd, he⟩, by simpa using h0⟩
    · rintro ⟨⟨d, hd, he⟩, h0⟩; exact ⟨⟨d, hd, he⟩, by simpa using h0⟩
  apply reencode_exact src S (tileEntries dirs) rel hin hol
  · intro t o l
    constructor
    · rintro ⟨p, hp, h⟩
      obtain ⟨d, hd, hpd⟩ := List.mem_flatMap.mp (hrel.mem_iff.mp hp)
      obtain ⟨hs, e, he, h0, hc⟩ := (relevant_tiles_spec S meets lastTile d t o l).mp ⟨p, hpd, h⟩
      exact ⟨hs, e, (hmem e).mpr ⟨⟨d, hd, he⟩, h0⟩, hc⟩
    · rintro ⟨hs, e, he, hc⟩
      obtain ⟨⟨d, hd, hed⟩, h0⟩ := (hmem e).mp he
      obtain ⟨p, hp, h⟩ := (relevant_tiles_spec S meets lastTile d t o l).mpr ⟨hs, e, hed, h0, hc⟩
      exact ⟨p, hrel.mem_iff.mpr (List.mem_flatMap.mpr ⟨d, hd, hp⟩), h⟩
  · intro p hp
    obtain ⟨d, hd, hpd⟩ := List.mem_flatMap.mp (hrel.mem_iff.mp hp)
    obtain ⟨e, he, h0, h1, h2⟩ := relevant_target S meets lastTile d p hpd
    exact ⟨e, (hmem e).mpr ⟨⟨d, hd, he⟩, h0⟩, h1, h2⟩

/-- the hypotheses are satisfiable by a non-trivial archive: a root with a run, a shared content and
    a leaf pointer, a wanted set that cuts the run -/
example :
    let src : Bytes := [1, 2, 3, 4, 5, 6]
    let dirs : List (List Entry) := [[⟨0, 0, 2, 3⟩, ⟨3, 2, 3, 1⟩, ⟨4, 0, 2, 1⟩, ⟨5, 100, 9, 0⟩], [⟨5, 5, 1, 1⟩]]
    (∀ e ∈ tileEntries dirs, e.off + e.len ≤ src.length) ∧ OffLen (tileEntries dirs) := by
  refine ⟨by decide, by unfold OffLen; decide⟩

/-- `OffLen` is needed, and the code behaves the same way: `seen` is keyed by the source offset alone,
    so two entries that share an offset but not a length make the second one point at too few bytes -/
theorem offlen_needed :
    let src : Bytes := [7, 8]
    let es : List Entry := [⟨0, 0, 1, 1⟩, ⟨1, 0, 2, 1⟩]
    ∃ o ∈ (reencode es).out, o.id = 1 ∧ slice (render src (reencode es).ranges) o.off o.len ≠ slice src 0 2 := by
  refine ⟨⟨1, 0, 2, 1⟩, by decide, rfl, by decide⟩

end Pm.C07
