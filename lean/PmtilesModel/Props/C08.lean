import PmtilesModel.Proofs.ServerProtocol
import PmtilesModel.Proofs.Cache
/-!
# C08 — Server never mixes archive versions within one answer

Two models carry the property.

* `Pm.ServerProtocol` (Proofs/ServerProtocol.lean): a transition system of the whole protocol —
  object store with version histories, the loop's cache with tagged keys, the purge rule, in-flight
  join with fan-out through per-client reply channels, arbitrary eviction, the two-attempt retry,
  the depth-bounded walk and the conditional tile read.  `Reach` = any finite sequence of steps =
  every history of replacements × every schedule of request arrival, loop steps and bucket
  deliveries.  The bucket proviso of the property is the semantics of its `serve` steps: versions
  carry pairwise distinct non-zero tags, a conditional read returns bytes of the current version
  iff its tag is the presented one.
* `Pm.Cache` (Model/Cache.lean): the loop's bookkeeping, replayed against the real server's hook
  events (trace validation); its purge rule is what keeps stale tags out of the cache.
-/
namespace Pm.C08
open Pm

/-- the invariant "whatever is held together with tag E is the view of the version tagged E"
    (cache elements, queued responses, fetcher buffers, client locals, reply channels) is inductive -/
theorem tag_truth {st st' : ServerProtocol.St} (hs : ServerProtocol.Step st st') (hi : ServerProtocol.SInv st) :
    ServerProtocol.SInv st' := ServerProtocol.step_inv hs hi

/-- **single version**: after ANY sequence of steps from ANY initial store whose versions carry
    distinct non-zero tags, every completed response is "archive not found", an I/O failure, or
    exactly what ONE stored version of the archive answers — never a blend -/
theorem single_version (s : ServerProtocol.Store) (cs : List (Nat × ServerProtocol.Q))
    (hu : ∀ n, (s n).Pairwise (fun a b => a.tag ≠ b.tag)) (hz : ∀ n, ∀ v ∈ s n, v.tag ≠ 0)
    (st : ServerProtocol.St) (hr : ServerProtocol.Reach (ServerProtocol.initSt s cs) st)
    (cid : Nat) (q : ServerProtocol.Q) (r : ServerProtocol.Resp)
    (h : (cid, ⟨q, .done r⟩) ∈ st.clients) :
    r = .notFound ∨ r = .ioError ∨ ∃ v ∈ st.store q.name, r = ServerProtocol.answer v q :=
  ServerProtocol.single_version_reachable s cs hu hz st hr cid q r h

/-- **a tile answer is the answer of the version that is current at the moment of its tile read**
    (the conditional read is atomic and lies inside the request): whenever the bucket accepts the
    presented tag, the bytes delivered are exactly what the then-current version answers to the whole
    request — header, directories and tile bytes all belong to that one version, current at that moment -/
theorem data_current_at_read (st : ServerProtocol.St) (hi : ServerProtocol.SInv st)
    (pre post : List (Nat × ServerProtocol.Client)) (cid : Nat) (q : ServerProtocol.Q) (a : Nat)
    (h : ServerProtocol.Hdr) (t : ServerProtocol.Tag) (e : ServerProtocol.Ent)
    (hc : st.clients = pre ++ (cid, ⟨q, .tileRead a h t e⟩) :: post)
    (v : ServerProtocol.Version) (hcur : ServerProtocol.current st.store q.name = some v) (htag : v.tag = t) :
    ServerProtocol.Resp.tile (v.raw (h.tileOff + e.off) e.len) = ServerProtocol.answer v q := by
  have hcg := hi.clients (cid, ⟨q, .tileRead a h t e⟩) (by rw [hc]; simp)
  simp only [ServerProtocol.ClientGood] at hcg
  obtain ⟨_, v', hv', htag', _, _, _, hans⟩ := hcg
  have hvm := ServerProtocol.current_mem hcur
  have : v = v' := ServerProtocol.uniq_tag (hi.uniq q.name) hvm hv' (by rw [htag, htag'])
  subst this
  exact hans.symm

/-- the purge of a retry: after a request carrying the stale tag `E` for archive `n`, nothing cached
    for `n` is keyed by `E` or holds a value tagged `E` (so the retry refetches header and directories) -/
theorem purge_removes_stale (s : Cache.St) (name tag : String) (hi : Cache.Inv s) :
    ∀ e ∈ (Cache.purge s name tag).cache, ¬ (e.key.name = name ∧ (e.key.etag = tag ∨ e.vtag = tag)) := by
  unfold Cache.purge
  -- every doomed element is filtered out of the cache, and the cache only ever shrinks during the fold
  have key : ∀ (doomed : List Cache.Elem) (s0 : Cache.St),
      ∀ x ∈ (doomed.foldl (fun s e => { s with cache := s.cache.filter (· ≠ e), evict := Cache.eraseElem e s.evict, total := s.total - e.size }) s0).cache,
        x ∈ s0.cache ∧ x ∉ doomed := by
    intro doomed
    induction doomed with
    | nil => intro s0 x hx; exact ⟨hx, by simp⟩
    | cons d r ih =>
      intro s0 x hx
      simp only [List.foldl_cons] at hx
      obtain ⟨h1, h2⟩ := ih _ x hx
      simp only [List.mem_filter, decide_eq_true_eq] at h1
      exact ⟨h1.1, by simp only [List.mem_cons, not_or]; exact ⟨h1.2, h2⟩⟩
  intro e he hbad
  obtain ⟨h1, h2⟩ := key _ s e he
  apply h2
  simp only [List.mem_filter, Bool.and_eq_true, beq_iff_eq, Bool.or_eq_true]
  exact ⟨h1, hbad.1, hbad.2⟩

end Pm.C08
