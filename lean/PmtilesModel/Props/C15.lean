import PmtilesModel.Model.Verify
/-!
# C15 — Verify rejects every inconsistency and accepts every consistent archive

`verify` (Model/Verify.lean) is run against Go's `Verify` on real files.  `Consistent` is the
property's list, stated over the header and the enumerated entries independently of the code's
control flow.
-/
namespace Pm.C15
open Pm Pm.Header Pm.Verify

/-- entries whose offset has not occurred earlier in the enumeration ("first occurrences") -/
def firstOccs : List Nat → List Entry → List Entry
  | _, [] => []
  | seen, e :: r => if seen.contains e.off then firstOccs (e.off :: seen) r else e :: firstOccs (e.off :: seen) r

/-- laid out back to back starting at `cur` -/
def Contig : Nat → List Entry → Prop
  | _, [] => True
  | cur, e :: r => e.off = cur ∧ Contig (cur + e.len) r

/-- what the property calls a consistent archive -/
structure Consistent (h : Header) (size : Nat) (es : List Entry) : Prop where
  offsetsNonZero : h.rootOffset ≠ 0 ∧ h.metadataOffset ≠ 0 ∧ h.leafDirectoryOffset ≠ 0 ∧ h.tileDataOffset ≠ 0
  sectionsFit : h.rootLength ≤ size ∧ h.metadataLength ≤ size ∧ h.leafDirectoryLength ≤ size ∧ h.tileDataLength ≤ size
  totalLength : size = 127 + h.rootLength + h.metadataLength + h.leafDirectoryLength + h.tileDataLength ∨
                size = 16384 + h.metadataLength + h.leafDirectoryLength + h.tileDataLength
  entriesInside : ∀ e ∈ es, e.off + e.len ≤ h.tileDataLength
  clusteredOrder : h.clustered = true → Contig 0 (firstOccs [] es)
  addressed : h.addressedTilesCount = sumRl es
  entries : h.tileEntriesCount = es.length
  contents : h.tileContentsCount = distinctOffsets es
  minZoom : h.minZoom = TileId.goZoom (minId es)
  maxZoom : h.maxZoom = TileId.goZoom (maxId es)
  centerZoom : h.minZoom ≤ h.centerZoom ∧ h.centerZoom ≤ h.maxZoom
  bounds : h.minLonE7 < h.maxLonE7 ∧ h.minLatE7 < h.maxLatE7

theorem firstErr_none (cs : List (Bool × VErr)) : firstErr cs = none ↔ ∀ c ∈ cs, c.1 = false := by
  induction cs with
  | nil => simp [firstErr]
  | cons c r ih =>
    obtain ⟨b, e⟩ := c
    cases b <;> simp [firstErr, ih]

/-- the per-entry loop records an error exactly when an entry leaves the tile data section or,
    for a clustered archive, the first occurrences are not laid out back to back in order -/
theorem entryLoop_false (tdl : Nat) (cl : Bool) (seen : List Nat) (cur : Nat) (es : List Entry) :
    entryLoop tdl cl seen cur es = false ↔
      (∀ e ∈ es, e.off + e.len ≤ tdl) ∧ (cl = true → Contig cur (firstOccs seen es)) := by
  induction es generalizing seen cur with
  | nil => simp [entryLoop, firstOccs, Contig]
  | cons e r ih =>
    cases cl with
    | false =>
      have := ih (e.off :: seen) cur
      simp only [Bool.false_eq_true, false_implies, and_true] at this
      simp [entryLoop, this]
    | true =>
      by_cases hm : e.off ∈ seen
      · have := ih (e.off :: seen) cur
        simp only [true_implies] at this
        simp [entryLoop, firstOccs, hm, this]
        exact ⟨fun ⟨a, b, c⟩ => ⟨⟨a, b⟩, c⟩, fun ⟨⟨a, b⟩, c⟩ => ⟨a, b, c⟩⟩
      · have := ih (e.off :: seen) (cur + e.len)
        simp only [true_implies] at this
        simp [entryLoop, firstOccs, hm, this, Contig]
        exact ⟨fun ⟨⟨a, b⟩, c, d⟩ => ⟨⟨a, c⟩, b, d⟩, fun ⟨⟨a, c⟩, b, d⟩ => ⟨⟨a, b⟩, c, d⟩⟩

/-- **Soundness and completeness of the decision logic**: verify succeeds exactly on the
    consistent archives — it rejects every inconsistency the property lists and accepts every
    archive in which all of them agree. -/
theorem verify_iff (h : Header) (size : Nat) (es : List Entry) :
    verify h size es = none ↔ Consistent h size es := by
  unfold verify
  rw [firstErr_none]
  simp only [List.mem_cons, List.mem_nil_iff, or_false, forall_eq_or_imp, forall_eq,
    decide_eq_false_iff_not, Bool.not_eq_false', Bool.or_eq_true, Bool.and_eq_true, decide_eq_true_eq,
    Bool.or_eq_false_iff, entryLoop_false, ne_eq, Decidable.not_not, ge_iff_le, Int.not_le]
  constructor
  · intro ⟨a1, a2, a3, a4, b1, b2, b3, b4, c, ⟨d1, d2⟩, e1, e2, e3, f1, f2, g, k1, k2⟩
    exact ⟨⟨a1, a2, a3, a4⟩, ⟨by omega, by omega, by omega, by omega⟩, c, d1, d2, e1.symm, e2.symm, e3.symm,
      f1.symm, f2.symm, g, ⟨k1, k2⟩⟩
  · intro hc
    obtain ⟨⟨a1, a2, a3, a4⟩, ⟨b1, b2, b3, b4⟩, c, d1, d2, e1, e2, e3, f1, f2, g, ⟨k1, k2⟩⟩ := hc
    exact ⟨a1, a2, a3, a4, by omega, by omega, by omega, by omega, c, ⟨d1, d2⟩, e1.symm, e2.symm, e3.symm,
      f1.symm, f2.symm, g, k1, k2⟩

/-- rejects every inconsistency: one corollary per clause of the property -/
theorem rejects_count_mismatch (h : Header) (size : Nat) (es : List Entry)
    (hm : h.addressedTilesCount ≠ sumRl es ∨ h.tileEntriesCount ≠ es.length ∨ h.tileContentsCount ≠ distinctOffsets es) :
    verify h size es ≠ none := by
  intro hv
  have := (verify_iff h size es).mp hv
  rcases hm with h1 | h1 | h1
  · exact h1 this.addressed
  · exact h1 this.entries
  · exact h1 this.contents

theorem rejects_zoom_mismatch (h : Header) (size : Nat) (es : List Entry)
    (hm : h.minZoom ≠ TileId.goZoom (minId es) ∨ h.maxZoom ≠ TileId.goZoom (maxId es)) :
    verify h size es ≠ none := by
  intro hv
  have := (verify_iff h size es).mp hv
  rcases hm with h1 | h1
  · exact h1 this.minZoom
  · exact h1 this.maxZoom

theorem rejects_entry_outside (h : Header) (size : Nat) (es : List Entry) (e : Entry) (he : e ∈ es)
    (ho : e.off + e.len > h.tileDataLength) : verify h size es ≠ none := by
  intro hv
  have := ((verify_iff h size es).mp hv).entriesInside e he
  omega

theorem rejects_bad_length (h : Header) (size : Nat) (es : List Entry)
    (hm : ¬ (size = 127 + h.rootLength + h.metadataLength + h.leafDirectoryLength + h.tileDataLength ∨
             size = 16384 + h.metadataLength + h.leafDirectoryLength + h.tileDataLength)) :
    verify h size es ≠ none := fun hv => hm ((verify_iff h size es).mp hv).totalLength

theorem rejects_unordered_clustered (h : Header) (size : Nat) (es : List Entry) (hc : h.clustered = true)
    (hm : ¬ Contig 0 (firstOccs [] es)) : verify h size es ≠ none :=
  fun hv => hm (((verify_iff h size es).mp hv).clusteredOrder hc)

/-- accepts every consistent archive -/
theorem accepts_consistent (h : Header) (size : Nat) (es : List Entry) (hc : Consistent h size es) :
    verify h size es = none := (verify_iff h size es).mpr hc

-- non-vacuity (test): a small consistent clustered archive with a shared content
def sampleH : Header := { rootOffset := 127, rootLength := 10, metadataOffset := 137, metadataLength := 2, leafDirectoryOffset := 139, leafDirectoryLength := 0, tileDataOffset := 139, tileDataLength := 7, addressedTilesCount := 4, tileEntriesCount := 3, tileContentsCount := 2, clustered := true, minZoom := 0, maxZoom := 1, centerZoom := 0, minLonE7 := (-10), maxLonE7 := 10, minLatE7 := (-10), maxLatE7 := 10 }
example : verify sampleH 146 [⟨0, 0, 3, 1⟩, ⟨1, 3, 4, 2⟩, ⟨4, 0, 3, 1⟩] = none := by decide

theorem lastId_eq (e : Entry) (h1 : 1 ≤ e.rl) (h2 : e.id + e.rl ≤ 2^64) : lastId e = e.id + e.rl - 1 := by
  unfold lastId
  split
  · apply Nat.mod_eq_of_lt; omega
  · omega

/-- **`maxId` is the highest addressed tile** (what `MaxZoom` is checked against): no addressed tile lies
    above it, and it is itself addressed — for entries with non-empty runs that do not wrap around 2^64 -/
theorem maxId_is_highest (es : List Entry) (h : ∀ e ∈ es, 1 ≤ e.rl ∧ e.id + e.rl ≤ 2^64) :
    (∀ e ∈ es, ∀ t, e.id ≤ t → t < e.id + e.rl → t ≤ maxId es) ∧
      (es ≠ [] → ∃ e ∈ es, e.id ≤ maxId es ∧ maxId es < e.id + e.rl) := by
  induction es with
  | nil => exact ⟨fun e he => by simp at he, fun hne => absurd rfl hne⟩
  | cons a r ih =>
    have ha := h a (by simp)
    have hr := ih (fun e he => h e (by simp [he]))
    have hl := lastId_eq a ha.1 ha.2
    constructor
    · intro e he t h1 h2
      simp only [maxId]
      rcases List.mem_cons.mp he with rfl | he
      · have : t ≤ lastId e := by rw [hl]; omega
        exact Nat.le_trans this (Nat.le_max_left _ _)
      · exact Nat.le_trans (hr.1 e he t h1 h2) (Nat.le_max_right _ _)
    · intro _
      simp only [maxId]
      by_cases hc : maxId r ≤ lastId a
      · refine ⟨a, by simp, ?_⟩
        rw [Nat.max_eq_left hc, hl]; omega
      · have hgt : lastId a < maxId r := by omega
        have hne : r ≠ [] := by
          intro hnil; subst hnil; simp [maxId] at hgt
        obtain ⟨e, he, h1, h2⟩ := hr.2 hne
        refine ⟨e, by simp [he], ?_⟩
        rw [Nat.max_eq_right (by omega)]
        exact ⟨h1, h2⟩

/-- **`minId` is the lowest addressed tile** (what `MinZoom` is checked against) -/
theorem minId_is_lowest (es : List Entry) (h : ∀ e ∈ es, 1 ≤ e.rl) (hb : ∀ e ∈ es, e.id < 2^64) :
    (∀ e ∈ es, ∀ t, e.id ≤ t → t < e.id + e.rl → minId es ≤ t) ∧
      (es ≠ [] → ∃ e ∈ es, e.id ≤ minId es ∧ minId es < e.id + e.rl) := by
  induction es with
  | nil => exact ⟨fun e he => by simp at he, fun hne => absurd rfl hne⟩
  | cons a r ih =>
    have hr := ih (fun e he => h e (by simp [he])) (fun e he => hb e (by simp [he]))
    have ha := h a (by simp)
    constructor
    · intro e he t h1 h2
      simp only [minId]
      rcases List.mem_cons.mp he with rfl | he
      · exact Nat.le_trans (Nat.min_le_left _ _) h1
      · exact Nat.le_trans (Nat.min_le_right _ _) (hr.1 e he t h1 h2)
    · intro _
      simp only [minId]
      by_cases hc : a.id ≤ minId r
      · exact ⟨a, by simp, by rw [Nat.min_eq_left hc]; omega⟩
      · have hne : r ≠ [] := by
          intro hnil; subst hnil
          have := hb a (by simp)
          simp [minId] at hc; omega
        obtain ⟨e, he, h1, h2⟩ := hr.2 hne
        refine ⟨e, by simp [he], ?_⟩
        rw [Nat.min_eq_right (by omega)]
        exact ⟨h1, h2⟩

/-- D25 (test): the maximum zoom is that of the last ADDRESSED tile — an archive whose only entry is a
    run over tiles 0..4 (zoom 0 and all of zoom 1) is consistent with MaxZoom = 1, not with MaxZoom = 0 -/
def runH (mz : Nat) : Header := { rootOffset := 127, rootLength := 10, metadataOffset := 137, metadataLength := 2, leafDirectoryOffset := 139, leafDirectoryLength := 0, tileDataOffset := 139, tileDataLength := 3, addressedTilesCount := 5, tileEntriesCount := 1, tileContentsCount := 1, clustered := true, minZoom := 0, maxZoom := mz, centerZoom := 0, minLonE7 := (-10), maxLonE7 := 10, minLatE7 := (-10), maxLatE7 := 10 }
example : verify (runH 1) 142 [⟨0, 0, 3, 5⟩] = none := by decide
example : verify (runH 0) 142 [⟨0, 0, 3, 5⟩] = some .maxZoom := by decide

end Pm.C15
