import PmtilesModel.Proofs.Build
import PmtilesModel.Proofs.F32Sched
/-!
# C05 — Written directories: root within first 16 KiB, root+leaves reproduce entries

`buildRootsLeaves`, `optimize`, `OptResult` (Model/Build.lean) model `directory.go:465-514`.
`ser`/`de` stand for SerializeEntries / DeserializeEntries under either internal compression,
with the round-trip law of C03 as hypothesis `hrt`.  The theorems hold for *every* leaf-size
schedule (the `×1.2` float32 growth is irrelevant to the property).
-/
namespace Pm.C05
open Pm Pm.Reader Pm.Build

variable (ser : List Entry → Bytes) (de : Bytes → List Entry)

/-- whatever the schedule, the code's loop only returns results of the relation -/
theorem opt_is_result (budget : Nat) (es : List Entry) (ls0 : Nat) (next : Nat → Nat) (fuel : Nat) (b : Built)
    (h0 : 1 ≤ ls0) (hnext : ∀ ls, 1 ≤ ls → 1 ≤ next ls)
    (h : optimize ser budget es ls0 next fuel = some b) : OptResult ser budget es b := by
  unfold optimize at h
  split at h
  · rename_i hc
    cases h
    exact ⟨hc.2, Or.inl ⟨rfl, rfl, rfl, rfl⟩⟩
  · exact optimizeLoop_result ser budget es next hnext fuel ls0 b h0 h

/-- header (127 bytes) + root lie within the first 16 384 bytes, for every budget the writers use
    (`budget + 127 ≤ 16384` is a facts obligation on both call sites) -/
theorem opt_within_16k (budget : Nat) (es : List Entry) (b : Built) (hb : budget + 127 ≤ 16384)
    (h : OptResult ser budget es b) : 127 + b.rootBytes.length ≤ 16384 := by
  have := h.1; omega

/-- every root entry that points to a leaf has run length 0 and the tile ID of that leaf's first
    entry, and the leaf directories tile the leaf section without gap or overlap -/
theorem build_pointers (es : List Entry) (ls : Nat) (hls : 1 ≤ ls) :
    let b := buildRootsLeaves ser es ls
    b.rootEntries = ptrsOf ser 0 (chunks ls es) ∧
    b.leavesBytes = ((chunks ls es).map ser).flatten ∧
    Tiles 0 b.rootEntries b.leavesBytes.length ∧
    (∀ c ∈ chunks ls es, c ≠ []) := by
  simp only [buildRootsLeaves]
  refine ⟨build_ptrs ser _ 0, build_leaves ser _ 0, ?_, fun c hc => (chunks_nonempty ls es hls c hc).1⟩
  rw [build_ptrs, build_leaves]
  have := ptrs_tile ser (chunks ls es) 0
  simpa using this

/-- each pointer addresses exactly the serialized form of its leaf -/
theorem pointer_addresses_leaf (cs : List (List Entry)) (pre post : Bytes) (c : List Entry) (rest : List (List Entry))
    (h : cs = c :: rest) :
    slice (pre ++ (buildGo ser pre.length cs).2 ++ post) pre.length (ser c).length = ser c := by
  subst h
  simp only [buildGo]
  have : pre ++ (ser c ++ (buildGo ser (pre.length + (ser c).length) rest).2) ++ post
       = pre ++ ser c ++ ((buildGo ser (pre.length + (ser c).length) rest).2 ++ post) := by
    simp [List.append_assoc]
  rw [this, slice_mid]

/-- reading the root and then the leaves in order yields exactly the original entries in their
    original order -/
theorem build_readback (hrt : ∀ es, de (ser es) = es) (es : List Entry) (ls : Nat) (hls : 1 ≤ ls)
    (htiles : ∀ e ∈ es, 0 < e.rl) :
    let b := buildRootsLeaves ser es ls
    flatten (fetchLeaf de b.leavesBytes) 1 b.rootEntries = es := by
  simp only [buildRootsLeaves]
  have hc : ∀ c ∈ chunks ls es, ∀ e ∈ c, 0 < e.rl := by
    intro c hc e he
    apply htiles
    rw [← chunks_flatten ls es hls]
    exact List.mem_flatten.mpr ⟨c, hc, he⟩
  have := Pm.Build.build_readback ser de hrt (chunks ls es) hc [] []
  simp only [List.length_nil, List.nil_append, List.append_nil] at this
  rw [this, chunks_flatten ls es hls]

/-- the same for whatever `optimizeDirectories` returns: root-only or root + leaves -/
theorem opt_readback (hrt : ∀ es, de (ser es) = es) (budget : Nat) (es : List Entry) (b : Built)
    (htiles : ∀ e ∈ es, 0 < e.rl) (h : OptResult ser budget es b) :
    flatten (fetchLeaf de b.leavesBytes) 1 b.rootEntries = es := by
  rcases h.2 with ⟨_, hr, _, _⟩ | ⟨ls, hls, rfl⟩
  · rw [hr]; exact flatten_tiles _ 1 es htiles
  · exact build_readback ser de hrt es ls hls htiles

-- non-vacuity (test): three entries, leaf size 2, identity codec on a toy serializer
example : (chunks 2 [⟨1,0,1,1⟩, ⟨2,1,1,1⟩, ⟨3,2,1,1⟩]).length = 2 := by decide

/-- **the growth loop terminates**: for every leaf-size schedule that strictly grows (the code's
    `leafSize *= 1.2` on a float32 ≥ 4096 does) and every serialiser whose output for a directory of
    at most one entry fits the budget (one pointer entry is a few bytes), `optimizeDirectories`
    returns within `len(entries) + 1` iterations — and by `opt_is_result` what it returns is a
    result of the relation -/
theorem opt_terminates (budget : Nat) (es : List Entry) (ls0 : Nat) (next : Nat → Nat)
    (hgrow : ∀ ls, ls < next ls)
    (hsmall : ∀ l : List Entry, l.length ≤ 1 → (ser l).length ≤ budget) :
    ∃ b, optimize ser budget es ls0 next (es.length + 1) = some b := by
  unfold optimize
  split
  · exact ⟨_, rfl⟩
  · exact optimizeLoop_terminates ser budget es next hgrow hsmall (es.length + 1) ls0 (by omega) (by omega)



/-! ## The code's own schedule: float32 `leafSize *= 1.2`, bit-exact (Model/F32Sched.lean)

`opt_terminates` above takes "the schedule strictly grows" as a hypothesis.  The three theorems
below discharge it for the arithmetic the code really performs: IEEE-754 binary32 multiplication
by the binary32 constant nearest 1.2, round-to-nearest-even, then truncation to `int`. -/

/-- **every `leafSize *= 1.2` raises `int(leafSize)` by at least 512**, for every finite float32
    value ≥ 4096 (all the clamp lets through); the value stays normal and ≥ 4096 -/
theorem f32_schedule_grows (x : F32.F32) (hn : F32.Normal x) (h12 : 12 ≤ x.e) :
    F32.trunc x + 512 ≤ F32.trunc (F32.mul12 x) ∧ F32.Normal (F32.mul12 x) ∧ 12 ≤ (F32.mul12 x).e :=
  F32.trunc_grows x hn h12

/-- **`optimizeDirectories` terminates with its own float32 schedule**, from every initial value
    the clamp can produce, within `len(entries) + 1` rounds — no hypothesis on the schedule left -/
theorem opt_terminates_f32 (budget : Nat) (es : List Entry) (x0 : F32.F32)
    (hn : F32.Normal x0) (h12 : 12 ≤ x0.e)
    (hsmall : ∀ l : List Entry, l.length ≤ 1 → (ser l).length ≤ budget) :
    ∃ b, F32.optimizeF ser budget es x0 (es.length + 1) = some b ∧ OptResult ser budget es b := by
  unfold F32.optimizeF
  split
  · rename_i hc
    exact ⟨_, rfl, hc.2, Or.inl ⟨rfl, rfl, rfl, rfl⟩⟩
  · obtain ⟨b, hb⟩ := F32.optimizeLoopF_terminates ser budget es hsmall (es.length + 1) x0 hn h12 (by omega) (by omega)
    exact ⟨b, hb, F32.optimizeLoopF_result ser budget es _ x0 b hn h12 hb⟩

/-- one growth step at most doubles the leaf size (plus one for the truncation) -/
theorem f32_step_at_most_doubles (x : F32.F32) (hn : F32.Normal x) (h12 : 12 ≤ x.e) :
    F32.trunc (F32.mul12 x) ≤ 2 * F32.trunc x + 1 :=
  F32.trunc_le_double x hn h12

/-- **no overflow on the way**: every leaf size the loop hands to `buildRootsLeaves` is at most the
    initial one or twice the number of entries — `int(leafSize)` is never applied to a float32
    outside int64 and the float32 never reaches +Inf, which is why the model's unbounded exponent
    loses nothing -/
theorem f32_leaf_sizes_bounded (budget : Nat) (es : List Entry) (x0 : F32.F32) (fuel : Nat)
    (hn : F32.Normal x0) (h12 : 12 ≤ x0.e)
    (hsmall : ∀ l : List Entry, l.length ≤ 1 → (ser l).length ≤ budget) :
    ∀ t ∈ F32.triedF ser budget es fuel x0, t ≤ max (F32.trunc x0) (2 * es.length) :=
  F32.triedF_bounded ser budget es hsmall fuel x0 hn h12

/-- the initial value `float32(len(entries)) / 3500`, clamped to 4096 (both roundings to nearest
    even computed exactly by `F32.init`), is a normal float32 ≥ 4096 for every entry count -/
theorem f32_init_ok (n : Nat) : F32.Normal (F32.init n) ∧ 12 ≤ (F32.init n).e := F32.init_ok n

/-- **`optimizeDirectories` as written terminates**: initial value, growth step and truncation are
    the code's own float32 arithmetic; no hypothesis about the schedule, none about the entry count.
    What remains assumed is only that a directory of at most one entry fits the budget. -/
theorem opt_terminates_code (budget : Nat) (es : List Entry)
    (hsmall : ∀ l : List Entry, l.length ≤ 1 → (ser l).length ≤ budget) :
    ∃ b, F32.optimizeF ser budget es (F32.init es.length) (es.length + 1) = some b ∧ OptResult ser budget es b :=
  opt_terminates_f32 ser budget es (F32.init es.length) (F32.init_ok _).1 (F32.init_ok _).2 hsmall

-- tests against values printed by Go (`math.Float32bits` of the clamped initial value)
example : F32.bits (F32.init 100) = 1166016512 := by decide
example : F32.bits (F32.init 14336001) = 1166016513 := by decide
example : F32.bits (F32.init 20000000) = 1169330761 := by decide

/-- the clamp value 4096 is such an initial value (it is THE initial value for every list of fewer
    than 14 336 000 entries, since then `float32(n)/3500 ≤ 4096`) -/
theorem f4096_ok : F32.Normal F32.f4096 ∧ 12 ≤ F32.f4096.e ∧ F32.trunc F32.f4096 = 4096 := by
  refine ⟨⟨by decide, by decide⟩, by decide, by decide⟩

-- tests of the bit-exact model against values computed by Go (float32 4096·1.2 = 4915.2002 =
-- 0x45999A · 2^-11 …; a tie case is exercised by the `f32mul` lines of the check)
example : F32.trunc (F32.mul12 F32.f4096) = 4915 := by decide
example : F32.bits F32.f4096 = 0x45800000 := by decide
example : F32.bits (F32.mul12 F32.f4096) = 0x4599999A := by decide

-- non-vacuity of `hsmall` (and so of the three termination theorems): a serializer of one byte per entry
-- with budget 1 meets it, and for it the loop as written returns on every entry list
/-- toy serializer for the non-vacuity checks: one byte per entry -/
def toySer (l : List Entry) : Bytes := List.replicate l.length 0
example : ∀ l : List Entry, l.length ≤ 1 → (toySer l).length ≤ 1 := by
  intro l h; simpa [toySer] using h
example (es : List Entry) : ∃ b, F32.optimizeF toySer 1 es (F32.init es.length) (es.length + 1) = some b ∧ OptResult toySer 1 es b :=
  opt_terminates_code toySer 1 es (by intro l h; simpa [toySer] using h)

end Pm.C05
