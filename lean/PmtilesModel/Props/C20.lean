import PmtilesModel.Proofs.SyncBlocks
import PmtilesModel.Proofs.SyncOps
import PmtilesModel.Proofs.SyncMMR
/-!
# C20 — makesync + sync converge the local archive to the remote one, byte for byte

Model: `Model/Sync.lean` (`mkBlocks`, `serBlocks`/`deserBlocks`, `diff`, `plan`, `assemble`,
`syncOps`), run against the real `Makesync` / `Sync` by the harness (loopback origin, child process).

The hash is an arbitrary function; *no collision between compared byte strings* is the explicit
hypothesis `NoCollision` (for XXH64 it is an assumption about the data, not a theorem).
What the theorems cannot exhibit: the goroutine interleavings of the hash workers and download
threads (the model's sets are order-independent by construction: `have`/`wanted` are sorted before
use), `net/http` and the origin's multipart framing, process-level panics — covered by the tie only.
-/
namespace Pm.C20
open Pm Pm.Header Pm.Sync Pm.Edit

/-- **makesync's blocks tile the referenced tile data** of every clustered archive, for every block size -/
theorem blocks_tile (bs : Nat) (es : List Entry) (hc : ClusteredFrom 0 es) :
    ∃ cs, mkBlocks bs es = some cs ∧ TileC 0 cs (extent 0 es) := mkBlocks_tile bs es hc

/-- **the `.sync` body round-trips**, including the offsets `deserializeSyncBlocks` recomputes by summing lengths -/
theorem syncfile_roundtrip (blocks : List Block) (rest : Bytes) (n : Nat) (ht : Tile 0 blocks n)
    (hs : (blocks.map (·.start)).Pairwise (· ≤ ·))
    (hb : ∀ b ∈ blocks, b.start < W ∧ b.len < 2^64 ∧ b.hash < 2^64) :
    deserBlocks blocks.length 0 0 (serBlocks 0 blocks ++ rest) = some blocks :=
  deser_ser blocks 0 0 rest n ht (by decide) hs (fun b h => ⟨Nat.zero_le _, hb b h⟩)

/-- **the diff places every remote block exactly once** — hashed against local bytes or declared
    wanted — for every local entry stream (no block skipped, none visited twice, no index outside the list) -/
theorem diff_total (blocks : List Block) (es : List Entry) :
    (∀ b, b ∈ blocks ↔ (b ∈ (diff blocks es).1.map (·.1) ∨ b ∈ (diff blocks es).2)) ∧
    (diff blocks es).1.length + (diff blocks es).2.length = blocks.length := diff_partition blocks es

/-- **convergence**: whatever the local archive is, if the blocks tile the remote tile data, no
    compared pair collides and the five copied sections cover the remote file, the assembled file
    IS the remote file -/
theorem sync_converges (hashFn : Bytes → Nat) (afile bfile : Bytes) (atdo : Nat) (bh : Header) (blocks : List Block)
    (aes : List Entry) (n : Nat) (htile : Tile 0 blocks n)
    (hinj : HashInj hashFn afile bfile atdo bh.tileDataOffset blocks) (hcov : SectionsCover bfile bh n) :
    assemble afile bfile atdo bh (plan hashFn afile atdo blocks aes) = bfile :=
  assemble_eq hashFn afile bfile atdo bh blocks aes n htile hinj hcov

/-- equal hashes of equally long pieces of the two files mean equal bytes -/
def NoCollision (hashFn : Bytes → Nat) (afile bfile : Bytes) : Prop :=
  ∀ o o' l, hashFn (slice afile o l) = hashFn (slice bfile o' l) → slice afile o l = slice bfile o' l

theorem clustered_len_pos : ∀ (es : List Entry) (e0 : Nat), ClusteredFrom e0 es → ∀ e ∈ es, 0 < e.len
  | [], _, _, e, he => by cases he
  | x :: xs, e0, h, e, he => by
    obtain ⟨hl, hc⟩ := h
    rcases List.mem_cons.mp he with e1 | hm
    · subst e1; exact hl
    · rcases hc with ⟨_, h'⟩ | ⟨_, h'⟩ <;> exact clustered_len_pos xs _ h' e hm

theorem tileC_within : ∀ (cs : List Cur) (off n : Nat), TileC off cs n → ∀ c ∈ cs, c.off + c.len ≤ n
  | [], _, _, _, c, hc => by cases hc
  | c0 :: cs, off, n, h, c, hc => by
    obtain ⟨e, h'⟩ := h
    have hle : ∀ (cs : List Cur) (o n : Nat), TileC o cs n → o ≤ n := by
      intro cs
      induction cs with
      | nil => intro o n h; simp only [TileC] at h; omega
      | cons x xs ih => intro o n h; have := ih _ _ h.2; omega
    rcases List.mem_cons.mp hc with e1 | hm
    · subst e1; have := hle cs _ _ h'; omega
    · exact tileC_within cs _ n h' c hm

/-- **makesync, then sync, end to end**: for every clustered remote archive (entries `bes` in
    ascending tile-ID order), every block size `bs`, and EVERY local archive (`afile`, `aes`
    arbitrary): makesync succeeds, its block list survives the `.sync` file unchanged, and the file
    sync assembles from it is byte-identical to the remote one -/
theorem makesync_then_sync (hashFn : Bytes → Nat) (afile bfile : Bytes) (atdo : Nat) (bh : Header)
    (bes aes : List Entry) (bs : Nat)
    (hcl : ClusteredFrom 0 bes) (hne : bes ≠ []) (hasc : bes.Pairwise (fun a b => a.id < b.id))
    (hid : ∀ e ∈ bes, e.id < W) (hext : extent 0 bes < 2^64) (hh : ∀ x, hashFn x < 2^64)
    (hnc : NoCollision hashFn afile bfile) (hcov : SectionsCover bfile bh (extent 0 bes)) :
    ∃ cs, mkBlocks bs bes = some cs ∧
      let blocks := sortBy Block.start (hashBlocks hashFn bfile bh.tileDataOffset cs)
      deserBlocks blocks.length 0 0 (serBlocks 0 blocks) = some blocks ∧
      assemble afile bfile atdo bh (plan hashFn afile atdo blocks aes) = bfile := by
  obtain ⟨cs, hmk, htile⟩ := mkBlocks_tile bs bes hcl
  obtain ⟨hsub, _⟩ := mkBlocks_starts bs bes cs (clustered_len_pos bes 0 hcl) hne hmk
  refine ⟨cs, hmk, ?_⟩
  have hstarts : (hashBlocks hashFn bfile bh.tileDataOffset cs).map (·.start) = cs.map (·.start) := by
    simp [hashBlocks, List.map_map, Function.comp_def]
  have hpw : (cs.map (·.start)).Pairwise (· < ·) := by
    have : (bes.map (·.id)).Pairwise (· < ·) := by rw [List.pairwise_map]; exact hasc
    exact this.sublist hsub
  have hsorted : sortBy Block.start (hashBlocks hashFn bfile bh.tileDataOffset cs) = hashBlocks hashFn bfile bh.tileDataOffset cs := by
    apply sortBy_ascending
    have := hpw
    rw [← hstarts, List.pairwise_map] at this
    exact this
  simp only [hsorted]
  have htb := tile_hashBlocks hashFn bfile bh.tileDataOffset cs 0 _ htile
  have hmemb : ∀ b ∈ hashBlocks hashFn bfile bh.tileDataOffset cs, ∃ c ∈ cs,
      b = ⟨c.start, c.off, c.len, hashFn (slice bfile (bh.tileDataOffset + c.off) c.len)⟩ := by
    intro b hb
    obtain ⟨c, hc, e⟩ := List.mem_map.mp hb
    exact ⟨c, hc, e.symm⟩
  constructor
  · have := syncfile_roundtrip (hashBlocks hashFn bfile bh.tileDataOffset cs) [] _ htb
      (by rw [hstarts]; exact hpw.imp (fun h => Nat.le_of_lt h))
      (fun b hb => by
        obtain ⟨c, hc, e⟩ := hmemb b hb
        subst e
        simp only
        have hcs : c.start ∈ bes.map (·.id) := hsub.subset (List.mem_map.mpr ⟨c, hc, rfl⟩)
        obtain ⟨x, hx, e1⟩ := List.mem_map.mp hcs
        have := tileC_within cs 0 _ htile c hc
        exact ⟨by rw [← e1]; exact hid x hx, by omega, hh _⟩)
    simpa using this
  · apply sync_converges hashFn afile bfile atdo bh _ aes _ htb ?_ hcov
    intro b hb o hhash
    obtain ⟨c, hc, e⟩ := hmemb b hb
    subst e
    simp only at hhash ⊢
    exact hnc _ _ _ hhash

theorem id_unique : ∀ (es : List Entry), es.Pairwise (fun a b => a.id < b.id) →
    ∀ a ∈ es, ∀ b ∈ es, a.id = b.id → a = b
  | [], _, a, ha, _, _, _ => by cases ha
  | x :: xs, hp, a, ha, b, hb, e => by
    have hlt : ∀ y ∈ xs, x.id < y.id := fun y hy => List.rel_of_pairwise_cons hp hy
    rcases List.mem_cons.mp ha with e1 | h1 <;> rcases List.mem_cons.mp hb with e2 | h2
    · rw [e1, e2]
    · subst e1; have := hlt b h2; omega
    · subst e2; have := hlt a h1; omega
    · exact id_unique xs (List.Pairwise.of_cons hp) a h1 b h2 e

/-- **no-op**: syncing an archive against itself matches every block and asks for no tile range —
    for every clustered archive and every block size -/
theorem sync_noop (hashFn : Bytes → Nat) (file : Bytes) (tdo : Nat) (es : List Entry) (bs : Nat)
    (hcl : ClusteredFrom 0 es) (hne : es ≠ []) (hasc : es.Pairwise (fun a b => a.id < b.id)) (base mx : Nat) :
    ∃ cs, mkBlocks bs es = some cs ∧
      let blocks := sortBy Block.start (hashBlocks hashFn file tdo cs)
      (plan hashFn file tdo blocks es).wantR = [] ∧ (plan hashFn file tdo blocks es).haveN = blocks.length ∧
      makeMultiRanges (plan hashFn file tdo blocks es).wantR base mx = [] := by
  obtain ⟨cs, hmk, _⟩ := mkBlocks_tile bs es hcl
  obtain ⟨hsub, hoffs⟩ := mkBlocks_starts bs es cs (clustered_len_pos es 0 hcl) hne hmk
  refine ⟨cs, hmk, ?_⟩
  have hstarts : (hashBlocks hashFn file tdo cs).map (·.start) = cs.map (·.start) := by
    simp [hashBlocks, List.map_map, Function.comp_def]
  have hpw : (cs.map (·.start)).Pairwise (· < ·) := by
    have : (es.map (·.id)).Pairwise (· < ·) := by rw [List.pairwise_map]; exact hasc
    exact this.sublist hsub
  have hsorted : sortBy Block.start (hashBlocks hashFn file tdo cs) = hashBlocks hashFn file tdo cs := by
    apply sortBy_ascending
    have := hpw
    rw [← hstarts, List.pairwise_map] at this
    exact this
  simp only [hsorted]
  obtain ⟨ts, hfold, hts, hte⟩ := diff_all_tasks es { rest := hashBlocks hashFn file tdo cs, tasks := [], wanted := [] }
    (by simp only; rw [hstarts]; exact hsub) hasc
  have hdiff : diff (hashBlocks hashFn file tdo cs) es = (ts, []) := by
    unfold diff; simp only; rw [hfold]; simp
  -- every task compares a block with the very bytes it was hashed from
  have hall : ∀ t ∈ ts, hashEq hashFn file tdo t = true := by
    intro t ht
    obtain ⟨e, he, e1, e2⟩ := hte t ht
    have htb : t.1 ∈ hashBlocks hashFn file tdo cs := by
      simp only at hts; rw [← hts]; exact List.mem_map.mpr ⟨t, ht, rfl⟩
    obtain ⟨c, hc, e3⟩ := List.mem_map.mp htb
    obtain ⟨e', he', e4, e5⟩ := hoffs c hc
    have : e = e' := id_unique es hasc e he e' he' (by rw [e1, e4, ← e3])
    subst this
    simp only [hashEq, beq_iff_eq]
    rw [← e2, ← e3]
    simp only
    rw [e5]
  have hwanted : wantedOf hashFn file tdo ts [] = [] := by
    unfold wantedOf
    simp only [List.nil_append, List.map_eq_nil_iff, List.filter_eq_nil_iff]
    intro t ht
    simp [hall t ht]
  have hhave : (haveOf hashFn file tdo ts).length = ts.length := by
    unfold haveOf
    rw [List.length_map, List.filter_eq_self.mpr hall]
  have hplan : plan hashFn file tdo (hashBlocks hashFn file tdo cs) es =
      { haveN := (sortBy Rng.src (haveOf hashFn file tdo ts)).length,
        wantedN := (sortBy Block.start (wantedOf hashFn file tdo ts [])).length,
        haveR := coalesce haveCond (sortBy Rng.src (haveOf hashFn file tdo ts)),
        wantR := coalesce wantedCond ((sortBy Block.start (wantedOf hashFn file tdo ts [])).map rngOfBlock) } := by
    unfold plan; rw [hdiff]
  rw [hplan, hwanted]
  simp only
  have hl : ts.length = (hashBlocks hashFn file tdo cs).length := by
    simp only at hts; rw [← hts, List.length_map]
  refine ⟨rfl, ?_, rfl⟩
  rw [length_sortBy, hhave, hl]

/-- **every wanted range is requested exactly once**: the `Range` batches partition the wanted ranges in
    order, whatever the header-size limit -/
theorem ranges_requested_once (rs : List Rng) (base maxBytes : Nat) :
    ((makeMultiRanges rs base maxBytes).map (·.ranges)).flatten = rs := mmr_partition rs base maxBytes

/-! ## file-system level: dry run, failure, commit -/

/-- what a run does to the file system -/
def opsOf (dry : Bool) (path : String) (afile bfile : Bytes) (atdo : Nat) (bh : Header) (p : Plan) : List FsOp :=
  if dry then [] else syncOps path afile bfile atdo bh p

/-- **a dry run performs no file-system operation** -/
theorem dry_run_pure (fs : Fs) (path : String) (afile bfile : Bytes) (atdo : Nat) (bh : Header) (p : Plan) :
    applyOps fs (opsOf true path afile bfile atdo bh p) = fs := rfl

/-- **a sync that stops anywhere before its last operation leaves the archive path untouched**:
    every operation but the final rename writes `FILE.tmp` only (failure of a request, of a write,
    a crash — any strict prefix of the operation list) -/
theorem sync_safe (fs : Fs) (path : String) (afile bfile : Bytes) (atdo : Nat) (bh : Header) (p : Plan)
    (k : Nat) (hk : k < (syncOps path afile bfile atdo bh p).length) :
    applyOps fs ((syncOps path afile bfile atdo bh p).take k) path = fs path := by
  rw [syncOps_split] at hk ⊢
  simp only [List.length_append, List.length_cons, List.length_nil] at hk
  rw [List.take_append_of_le_length (by omega)]
  apply applyOps_other (path ++ ".tmp") path (path_ne_tmp path)
  intro op hop
  exact preOps_onTmp path afile bfile atdo bh p op (List.mem_of_mem_take hop)

theorem applyOps_append (fs : Fs) (a b : List FsOp) : applyOps fs (a ++ b) = applyOps (applyOps fs a) b := by
  unfold applyOps; rw [List.foldl_append]

/-- **the completed operation list leaves exactly the remote file at the archive path**
    (under the hypotheses of `sync_converges`) -/
theorem sync_commit (fs : Fs) (path : String) (hashFn : Bytes → Nat) (afile bfile : Bytes) (atdo : Nat) (bh : Header)
    (blocks : List Block) (aes : List Entry) (n : Nat) (htile : Tile 0 blocks n)
    (hinj : HashInj hashFn afile bfile atdo bh.tileDataOffset blocks) (hcov : SectionsCover bfile bh n) :
    applyOps fs (syncOps path afile bfile atdo bh (plan hashFn afile atdo blocks aes)) path = some bfile := by
  obtain ⟨cH, cW, _⟩ := plan_correct hashFn afile bfile atdo bh.tileDataOffset blocks aes n htile hinj
  have hconv := assemble_eq hashFn afile bfile atdo bh blocks aes n htile hinj hcov
  generalize plan hashFn afile atdo blocks aes = p at cH cW hconv
  have hne := path_ne_tmp path
  have hne' : ¬ (path = path ++ ".tmp") := hne
  -- split the list into: create+truncate, the pwrites, the rename
  have hsplit : syncOps path afile bfile atdo bh p =
      [FsOp.create (path ++ ".tmp"), .append (path ++ ".tmp") (List.replicate bfile.length 0)] ++
      (([(0, slice bfile 0 16384), (bh.metadataOffset, slice bfile bh.metadataOffset bh.metadataLength),
         (bh.leafDirectoryOffset, slice bfile bh.leafDirectoryOffset bh.leafDirectoryLength)] ++
        p.haveR.map (fun r => (bh.tileDataOffset + r.dst, slice afile (atdo + r.src) r.len)) ++
        p.wantR.map (fun r => (bh.tileDataOffset + r.dst, slice bfile (bh.tileDataOffset + r.src) r.len))).map
          (fun w => FsOp.pwrite (path ++ ".tmp") w.1 w.2)) ++
      [.rename (path ++ ".tmp") path] := by
    unfold syncOps
    simp [List.map_append, List.map_map, Function.comp_def]
  rw [hsplit, applyOps_append, applyOps_append]
  generalize hws : ([(0, slice bfile 0 16384), (bh.metadataOffset, slice bfile bh.metadataOffset bh.metadataLength),
         (bh.leafDirectoryOffset, slice bfile bh.leafDirectoryOffset bh.leafDirectoryLength)] ++
        p.haveR.map (fun r => (bh.tileDataOffset + r.dst, slice afile (atdo + r.src) r.len)) ++
        p.wantR.map (fun r => (bh.tileDataOffset + r.dst, slice bfile (bh.tileDataOffset + r.src) r.len))) = ws
  have h1 : applyOps fs [FsOp.create (path ++ ".tmp"), .append (path ++ ".tmp") (List.replicate bfile.length 0)] (path ++ ".tmp")
      = some (List.replicate bfile.length 0) := by
    simp [applyOps, applyOp]
  have h2 := applyOps_pwrites (path ++ ".tmp") ws
    (applyOps fs [FsOp.create (path ++ ".tmp"), .append (path ++ ".tmp") (List.replicate bfile.length 0)])
  rw [h1] at h2
  have h3 : applyOps (applyOps (applyOps fs [FsOp.create (path ++ ".tmp"), .append (path ++ ".tmp") (List.replicate bfile.length 0)])
      (ws.map (fun w => FsOp.pwrite (path ++ ".tmp") w.1 w.2))) [.rename (path ++ ".tmp") path] path =
      applyOps (applyOps fs [FsOp.create (path ++ ".tmp"), .append (path ++ ".tmp") (List.replicate bfile.length 0)])
      (ws.map (fun w => FsOp.pwrite (path ++ ".tmp") w.1 w.2)) (path ++ ".tmp") := by
    simp [applyOps, applyOp]
  rw [h3, h2]
  simp only [Option.map_some, Option.some.injEq]
  rw [← hws, List.foldl_append, List.foldl_append, List.foldl_map, List.foldl_map]
  simp only [List.foldl_cons, List.foldl_nil]
  -- the three fixed writes
  have l0 : (List.replicate bfile.length 0).length = bfile.length := by simp
  rw [pw_piece bfile _ 0 16384 l0]
  have l1 : (writeAt (List.replicate bfile.length 0) 0 (slice bfile 0 16384)).length = bfile.length := by
    rw [writeAt_length]; exact l0
  rw [pw_piece bfile _ bh.metadataOffset bh.metadataLength l1]
  have l2 : (writeAt (writeAt (List.replicate bfile.length 0) 0 (slice bfile 0 16384)) bh.metadataOffset
      (slice bfile bh.metadataOffset bh.metadataLength)).length = bfile.length := by
    rw [writeAt_length]; exact l1
  rw [pw_piece bfile _ bh.leafDirectoryOffset bh.leafDirectoryLength l2]
  have l3 : (writeAt (writeAt (writeAt (List.replicate bfile.length 0) 0 (slice bfile 0 16384)) bh.metadataOffset
      (slice bfile bh.metadataOffset bh.metadataLength)) bh.leafDirectoryOffset
      (slice bfile bh.leafDirectoryOffset bh.leafDirectoryLength)).length = bfile.length := by
    rw [writeAt_length]; exact l2
  rw [pwRanges_eq afile bfile atdo bh.tileDataOffset p.haveR _ l3 cH]
  have l4 := (writeRanges_agree afile bfile atdo bh.tileDataOffset p.haveR _ l3 cH).1
  rw [pwRanges_eq bfile bfile bh.tileDataOffset bh.tileDataOffset p.wantR _ l4 cW]
  exact hconv

/-! ## non-vacuity: concrete streams meeting the hypotheses -/

/-- three contents back to back plus one deduplicated tile; block size 4 cuts after the first content -/
example : ClusteredFrom 0 [⟨0, 0, 3, 1⟩, ⟨1, 3, 2, 1⟩, ⟨5, 0, 3, 1⟩, ⟨7, 5, 4, 2⟩] ∧
    extent 0 [⟨0, 0, 3, 1⟩, ⟨1, 3, 2, 1⟩, ⟨5, 0, 3, 1⟩, ⟨7, 5, 4, 2⟩] = 9 ∧
    mkBlocks 4 [⟨0, 0, 3, 1⟩, ⟨1, 3, 2, 1⟩, ⟨5, 0, 3, 1⟩, ⟨7, 5, 4, 2⟩] = some [⟨0, 0, 3⟩, ⟨1, 3, 2⟩, ⟨7, 5, 4⟩] := by
  refine ⟨?_, by decide, by decide⟩
  simp [ClusteredFrom]

/-- the merge condition of the fix matters: ranges adjacent in the old file but not in the new one stay apart … -/
example : coalesce haveCond [⟨0, 0, 3⟩, ⟨3, 7, 4⟩] = [⟨0, 0, 3⟩, ⟨3, 7, 4⟩] := by decide
/-- … whereas merging on source contiguity alone (the code before the fix) yields one range that
    puts the second block at destination 3 instead of 7: it is NOT correct for a remote file holding it at 7 -/
example : coalesce wantedCond [⟨0, 0, 3⟩, ⟨3, 7, 4⟩] = [⟨0, 0, 7⟩] := by decide

/-- a local stream with an ID beyond every remote block start: all blocks are still placed (the index
    loop of the code before the fix ran past the end here) -/
example : diff [⟨0, 0, 3, 11⟩, ⟨1, 3, 2, 22⟩] [⟨0, 0, 3, 1⟩, ⟨9, 3, 1, 1⟩] = ([(⟨0, 0, 3, 11⟩, 0)], [⟨1, 3, 2, 22⟩]) := by decide

end Pm.C20
