import PmtilesModel.Proofs.ResolverRun
import PmtilesModel.Proofs.Clustered
import PmtilesModel.Proofs.WriterVerifies
import PmtilesModel.Proofs.Iterate
import PmtilesModel.Model.Finalize
import PmtilesModel.Model.Verify
/-!
# C13 — Cluster preserves tiles, declarations, metadata; writes truthful statistics

`Cluster` = enumerate the input (C17) in tile-ID order, add every entry's bytes with its run
length to the resolver (no compression), `finalize` with the input header.  Input: any archive
whose directory tree is well-formed (any entry order of offsets, run lengths > 1, shared
contents, any leaf depth ≤ d, either internal compression through `fetch`).
-/
namespace Pm.C13
open Pm Pm.Reader Pm.Resolver

/-- the add sequence cluster feeds to the resolver -/
def toAdds (data : Bytes) (es : List Entry) : List Add := es.map (fun e => (e.id, slice data e.off e.len, e.rl))

theorem toAdds_asc (data : Bytes) (es : List Entry) (lo : Nat) (hlo : ∀ e ∈ es, lo ≤ e.id)
    (hs : es.Pairwise (fun a b => a.id + a.rl ≤ b.id)) : AscAdds lo (toAdds data es) := by
  induction es generalizing lo with
  | nil => trivial
  | cons e r ih =>
    have h1 := (List.pairwise_cons.mp hs).1
    refine ⟨hlo e (by simp), ?_⟩
    exact ih (e.id + e.rl) (fun x hx => h1 x hx) (List.pairwise_cons.mp hs).2

theorem toAdds_find (data : Bytes) (es : List Entry) (t : Nat) :
    (toAdds data es).find? (addCovers t) = (es.find? (Reader.covers · t)).map (fun e => (e.id, slice data e.off e.len, e.rl)) := by
  induction es with
  | nil => rfl
  | cons e r ih =>
    simp only [toAdds, List.map_cons, List.find?_cons]
    have : addCovers t (e.id, slice data e.off e.len, e.rl) = Reader.covers e t := by simp [addCovers, Reader.covers]
    rw [this]
    cases Reader.covers e t with
    | true => rfl
    | false => simpa [toAdds] using ih

/-- the tile-to-content map of the clustered archive equals the input's: tile `t` holds exactly
    the bytes the input stores for `t`, and nothing else is addressed -/
theorem cluster_tileMap {fetch : Fetch} {d lo hi root} (h : WF fetch d lo hi root) (data : Bytes) (dedup : Bool)
    (hne : ∀ e ∈ flatten fetch d root, 1 ≤ e.len ∧ e.off + e.len ≤ data.length) (t : Nat) :
    content (run id (init dedup) (toAdds data (flatten fetch d root))) t =
      (lookupFlat (flatten fetch d root) t).map (fun e => slice data e.off e.len) := by
  have hs := flatten_sorted h
  rw [run_spec id dedup _ ?_ (toAdds_asc data _ 0 (fun _ _ => Nat.zero_le _) hs) t]
  · unfold specContent
    rw [toAdds_find]
    unfold lookupFlat
    cases (flatten fetch d root).find? (Reader.covers · t) <;> rfl
  · intro a ha
    simp only [toAdds, List.mem_map] at ha
    obtain ⟨e, he, rfl⟩ := ha
    obtain ⟨h1, h2⟩ := hne e he
    simp only [id, slice, List.length_take, List.length_drop]
    omega

/-- with and without deduplication -/
theorem cluster_dedup {fetch : Fetch} {d lo hi root} (h : WF fetch d lo hi root) (data : Bytes)
    (hne : ∀ e ∈ flatten fetch d root, 1 ≤ e.len ∧ e.off + e.len ≤ data.length) (t : Nat) :
    content (run id (init true) (toAdds data (flatten fetch d root))) t =
    content (run id (init false) (toAdds data (flatten fetch d root))) t := by
  rw [cluster_tileMap h data true hne t, cluster_tileMap h data false hne t]

/-- addressed-tile count written = sum of the run lengths of the input's entries (the D5 fix) -/
theorem cluster_addressed (data : Bytes) (es : List Entry) (dedup : Bool) :
    (run id (init dedup) (toAdds data es)).addressed = Verify.sumRl es := by
  rw [run_addressed]
  simp only [init, Nat.zero_add]
  induction es with
  | nil => rfl
  | cons e r ih => simp [toAdds, sumRl, Verify.sumRl] at ih ⊢; omega

/-- declarations: tile type, tile compression (the resolver does not compress), bounds are the
    input's; the result is marked clustered -/
theorem cluster_decls (h : Header.Header) (r : Res) (a b c : Nat) :
    let out := Finalize.finalizeHeader h false r a b c
    out.clustered = true ∧ out.tileType = h.tileType ∧ out.tileCompression = h.tileCompression ∧
    out.minLonE7 = h.minLonE7 ∧ out.minLatE7 = h.minLatE7 ∧ out.maxLonE7 = h.maxLonE7 ∧ out.maxLatE7 = h.maxLatE7 ∧
    out.addressedTilesCount = r.addressed ∧ out.tileEntriesCount = r.rev.length ∧ out.tileContentsCount = numContents r := by
  simp only [Finalize.finalizeHeader, Finalize.setZoomCenterDefaults]
  split <;> simp

/-- **cluster's output is clustered**: the written entries, in tile-ID order, lay their contents out
    back to back (repeated contents point back) and reference exactly the tile data written —
    the precondition `ClusteredFrom 0` of makesync/sync (C20) and of verify's clustered check (C15) -/
theorem cluster_output_clustered {fetch : Fetch} {d : Nat} {root : List Entry} (data : Bytes) (dedup : Bool)
    (hne : ∀ e ∈ flatten fetch d root, 1 ≤ e.len ∧ e.off + e.len ≤ data.length) :
    Pm.Sync.ClusteredFrom 0 (run id (init dedup) (toAdds data (flatten fetch d root))).rev.reverse ∧
    Pm.Sync.extent 0 (run id (init dedup) (toAdds data (flatten fetch d root))).rev.reverse =
      (run id (init dedup) (toAdds data (flatten fetch d root))).data.length := by
  apply run_clustered
  intro a ha
  simp only [toAdds, List.mem_map] at ha
  obtain ⟨e, he, rfl⟩ := ha
  obtain ⟨h1, h2⟩ := hne e he
  simp only [id, slice, List.length_take, List.length_drop]
  omega


/-- **verify's per-entry checks accept cluster's output** (inside the tile data; clustered order) -/
theorem cluster_output_verifies {fetch : Fetch} {d : Nat} {root : List Entry} (data : Bytes) (dedup : Bool)
    (hne : ∀ e ∈ flatten fetch d root, 1 ≤ e.len ∧ e.off + e.len ≤ data.length) :
    Pm.Verify.entryLoop (run id (init dedup) (toAdds data (flatten fetch d root))).data.length true [] 0
      (run id (init dedup) (toAdds data (flatten fetch d root))).rev.reverse = false := by
  apply run_verifies
  intro a ha
  simp only [toAdds, List.mem_map] at ha
  obtain ⟨e, he, rfl⟩ := ha
  obtain ⟨h1, h2⟩ := hne e he
  simp only [id, slice, List.length_take, List.length_drop]
  omega

end Pm.C13
