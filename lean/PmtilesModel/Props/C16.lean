import PmtilesModel.Proofs.Region
import PmtilesModel.Props.C01
/-!
# C16 — Region extracts cover the region at every zoom and stay near it

Combinatorial core of `bitmapMultiPolygon` / `generalizeOr` (Model/Region.lean).  The metric part
of the statement depends on orb's `tilecover` (is the boundary set really the tiles the rings meet?)
and on floating-point projection; those enter as the hypotheses `Sep` (checked on every run by
the tie for every adjacent pair of tiles) and are otherwise exercised by a geometric oracle.
-/
namespace Pm.C16
open Pm Pm.Region

/-- **interval fill is exact** between the first and last boundary ID: a non-boundary tile is
    filled iff the inside test says inside — provided the inside-status cannot change between two
    consecutive non-boundary IDs.  (Consecutive IDs are edge-adjacent tiles — C01 `adjacent` — so a
    region boundary separating their centres must meet one of the two tiles, which would then be a
    boundary tile.) -/
theorem fill_exact (inside : Nat → Bool) (B : List Nat) (hasc : StrictAsc B) (first : Nat)
    (hf : B.head? = some first)
    (sep : ∀ x, x ∉ B → x + 1 ∉ B → inside x = inside (x + 1))
    (t : Nat) (ht : t ∉ B) (hlt : first < t) (hub : ∃ l ∈ B, t < l) :
    memInt t (fill inside B) ↔ inside t = true :=
  Pm.Region.fill_exact inside B B hasc (fun _ h => h) sep (fun _ _ _ _ => trivial) first hf (fun _ h _ => h) t ht hlt hub

/-- **the fill never leaves the span of the boundary set**: a filled tile lies strictly between two
    boundary IDs.  (So a boundary tile in the wrong place drags the fill with it — D26 — and a boundary
    set inside one zoom block keeps the whole selection inside that block.) -/
theorem fill_between_boundaries (inside : Nat → Bool) :
    ∀ (B : List Nat) (t : Nat), memInt t (fill inside B) → ∃ a ∈ B, ∃ b ∈ B, a < t ∧ t < b
  | [], t, h => by simp [fill, memInt] at h
  | [_], t, h => by simp [fill, memInt] at h
  | a :: b :: rest, t, h => by
    unfold fill at h
    obtain ⟨p, hp, h1, h2⟩ := h
    rcases List.mem_append.mp hp with hp | hp
    · by_cases hc : a + 1 < b ∧ inside (a + 1) = true
      · rw [if_pos hc] at hp
        simp at hp
        subst hp
        exact ⟨a, by simp, b, by simp, by simp at h1; omega, h2⟩
      · rw [if_neg hc] at hp
        simp at hp
    · obtain ⟨x, hx, y, hy, hlt⟩ := fill_between_boundaries inside (b :: rest) t ⟨p, hp, h1, h2⟩
      exact ⟨x, by simp [List.mem_cons] at hx ⊢; exact Or.inr hx, y, by simp [List.mem_cons] at hy ⊢; exact Or.inr hy, hlt⟩

/-- corollary: a boundary set inside `[lo, hi)` (one zoom block, with the D26 guard) keeps every filled tile inside it -/
theorem fill_stays_in_block (inside : Nat → Bool) (B : List Nat) (lo hi : Nat)
    (hB : ∀ x ∈ B, lo ≤ x ∧ x < hi) (t : Nat) (h : memInt t (fill inside B)) : lo < t ∧ t < hi := by
  obtain ⟨a, ha, b, hb, h1, h2⟩ := fill_between_boundaries inside B t h
  have := hB a ha
  have := hB b hb
  omega

/-- the geometric hypothesis is discharged by C01 where it is about the numbering: consecutive
    IDs of one zoom are edge-adjacent -/
theorem consecutive_ids_adjacent (z i : Nat) (hz : z ≤ 31) (h1 : Hilbert.base z ≤ i) (h2 : i + 1 < Hilbert.base (z+1)) :
    Hilbert.dist1 ((TileId.goIDToZxy i).2.1, (TileId.goIDToZxy i).2.2) ((TileId.goIDToZxy (i+1)).2.1, (TileId.goIDToZxy (i+1)).2.2) :=
  Pm.C01.adjacent z i hz h1 h2

/-- what `generalizeOr` produces: exactly the ancestors, up to `k` levels, of the original members -/
theorem closure_minimal (parent : Nat → Nat) (k : Nat) (r : List Nat) (t : Nat) :
    t ∈ generalizeOr parent k r ↔ ∃ j, j ≤ k ∧ ∃ s ∈ r, t = iter parent j s := generalizeOr_mem parent k r t

/-- **ancestor closure**: all original members at zoom `Z`, `parent` lowers the zoom by one, `k = Z - m`
    rounds: whenever the result contains a tile above zoom `m` it contains its parent -/
theorem closure (parent : Nat → Nat) (zoomOf : Nat → Nat) (Z m : Nat) (r : List Nat) (hm : m ≤ Z)
    (hz : ∀ s ∈ r, zoomOf s = Z) (hp : ∀ x, zoomOf (parent x) = zoomOf x - 1)
    (t : Nat) (ht : t ∈ generalizeOr parent (Z - m) r) (hzt : m < zoomOf t) :
    parent t ∈ generalizeOr parent (Z - m) r := by
  rw [generalizeOr_mem] at ht ⊢
  obtain ⟨j, hj, s, hs, rfl⟩ := ht
  have hzj : ∀ j, zoomOf (iter parent j s) = Z - j := by
    intro j
    induction j with
    | zero => simpa [iter] using hz s hs
    | succ j ih => simp only [iter]; rw [hp, ih]; omega
  rw [hzj j] at hzt
  exact ⟨j + 1, by omega, s, hs, rfl⟩

/-- the parent operation does lower the zoom by one (C01): the ID of the parent is the ID of
    the halved coordinate one zoom up -/
theorem parent_zoom (z x y : Nat) (hz1 : 1 ≤ z) (hz : z ≤ 31) (hx : x < 2^z) (hy : y < 2^z) :
    TileId.goParentID (TileId.goZxyToID z x y) = TileId.goZxyToID (z-1) (x/2) (y/2) := Pm.C01.parent z x y hz1 hz hx hy

-- non-vacuity (test)
example : fill (fun t => t == 5) [3, 4, 9, 10] = [(5, 9)] := by decide

end Pm.C16
