import PmtilesModel.Proofs.DirCodec
/-!
# C03 — Directory codec: lossless and interoperable with the v3 wire format

`serializeEntries` / `deserializeEntries` (Model/DirCodec.lean) are run against Go's
`SerializeEntries` / `deserializeEntriesChecked`; `specDecode` / `specEncode`
(Spec/DirWire.lean) are the independent decoder / encoder written from the specification.
`InRange`: IDs `< 2^64`, offsets `< 2^64 - 1`, lengths and run lengths `< 2^32`.
-/
namespace Pm.C03
open Pm Pm.DirCodec Pm.DirWire

/-- strictly ascending IDs from 0 imply the no-wrap condition on IDs -/
theorem noWrap_of_ascending (es : List Entry) (last : Nat)
    (hfirst : ∀ e, es.head? = some e → last ≤ e.id) (ha : Ascending es)
    (hoff : ∀ e ∈ es, e.off + e.len < W - 1) : NoWrap last es := by
  induction es generalizing last with
  | nil => trivial
  | cons e es ih =>
    refine ⟨hfirst e rfl, hoff e (by simp), ?_⟩
    cases es with
    | nil => trivial
    | cons f fs =>
      exact ih e.id (by intro g hg; simp at hg; subst hg; exact Nat.le_of_lt ha.1) ha.2
        (fun x hx => hoff x (by simp [hx]))

/-- lossless, both internal compressions, for every in-range directory (ascending order is not
    even needed for the round trip itself) -/
theorem roundtrip (C : Codec) (hC : C.Lawful) (c : Compression) (es : List Entry)
    (hn : es.length < 2^64) (h : ∀ e ∈ es, e.InRange) :
    deserializeEntries C c (serializeEntries C c es) = some es := by
  cases c with
  | none => exact roundtripF es [] hn h
  | gzip =>
    simp only [deserializeEntries, serializeEntries, hC (serialize es), Option.bind_some]
    exact roundtripF es [] hn h

/-- the serialized form is the v3 encoding: the independent specification decoder reads it to
    the same entries -/
theorem spec_reads_ours (es : List Entry) (hn : es.length < 2^64) (h : ∀ e ∈ es, e.InRange)
    (ha : Ascending es) (hoff : ∀ e ∈ es, e.off + e.len < W - 1) :
    specDecode (serialize es) = some es :=
  specDecode_serializeF es [] hn h (noWrap_of_ascending es 0 (fun _ _ => Nat.zero_le _) ha hoff)

/-- directories produced by the independent specification encoder, with or without the
    contiguous-offset shorthand (any choice per entry), are decoded to the entries encoded -/
theorem ours_reads_spec (es : List Entry) (flags : List Bool) (hn : es.length < 2^64)
    (h : ∀ e ∈ es, e.InRange) (ha : Ascending es) (hoff : ∀ e ∈ es, e.off + e.len < W - 1) :
    deserialize (specEncode es flags) = some es := by
  rw [specEncode_eq es flags h (noWrap_of_ascending es 0 (fun _ _ => Nat.zero_le _) ha hoff)]
  exact roundtripF es flags hn h

/-- and the writer's output is itself one of the specification encoder's outputs -/
theorem ours_is_spec_encoding (es : List Entry) (h : ∀ e ∈ es, e.InRange) (ha : Ascending es)
    (hoff : ∀ e ∈ es, e.off + e.len < W - 1) : serialize es = specEncode es [] :=
  (specEncode_eq es [] h (noWrap_of_ascending es 0 (fun _ _ => Nat.zero_le _) ha hoff)).symm

-- non-vacuity (tests): a directory with a shared offset, a contiguous pair and a jump
def sample : List Entry := [⟨1, 0, 10, 1⟩, ⟨2, 10, 5, 3⟩, ⟨7, 0, 10, 1⟩, ⟨2^62, 2^62, 2^32-1, 0⟩]
example : (∀ e ∈ sample, e.InRange) ∧ Ascending sample ∧ (∀ e ∈ sample, e.off + e.len < W - 1) := by
  refine ⟨by decide, by simp [sample, Ascending], by decide⟩

end Pm.C03
