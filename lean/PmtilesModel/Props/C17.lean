import PmtilesModel.Proofs.Iterate
/-!
# C17 — Entry enumeration visits every entry once, in order, or reports the failure

`iterate` (Model/Iterate.lean) is run against Go's `IterateEntries`.  `flatten` is the
specification enumeration; `WF` well-formedness (any number of leaf levels ≤ `d`, mixed
directories allowed); `fetch` abstracts read + decompress + decode, so both internal
compressions are covered.
-/
namespace Pm.C17
open Pm Pm.Reader

/-- with no fault the enumeration succeeds with exactly the archive's entries -/
theorem iterate_spec {fetch : Fetch} {d lo hi root} (h : WF fetch d lo hi root) :
    iterate fetch d root = some (flatten fetch d root) := iterate_ok h

/-- in ascending tile-ID order, runs not overlapping (hence every entry exactly once) -/
theorem iterate_order {fetch : Fetch} {d lo hi root} (h : WF fetch d lo hi root) :
    (flatten fetch d root).Pairwise (fun a b => a.id + a.rl ≤ b.id) := flatten_sorted h

/-- and nothing else: only tile entries (positive run length) are visited, never a leaf pointer -/
theorem iterate_tiles_only {fetch : Fetch} {d lo hi root} (h : WF fetch d lo hi root) :
    ∀ e ∈ flatten fetch d root, 0 < e.rl := by
  induction h with
  | nil _ => intro e he; rw [flatten_nil] at he; cases he
  | @tile d lo hi e es h1 h2 hw ih =>
    intro x hx
    rw [flatten_tile _ _ _ _ h2] at hx
    simp only [List.mem_cons] at hx
    rcases hx with rfl | hx
    · exact h2
    · exact ih x hx
  | @ptr d lo hi mid e es es' h1 h2 hfe hh hw1 hw2 ih1 ih2 =>
    intro x hx
    rw [flatten_ptr _ _ _ _ _ (by omega) hfe] at hx
    rcases List.mem_append.mp hx with hx | hx
    · exact ih1 x hx
    · exact ih2 x hx

/-- whatever fetches fail: a *successful* enumeration is the complete one — never silently shortened -/
theorem iterate_never_short {fetch0 fetch : Fetch} (hf : Faulty fetch0 fetch) {d lo hi root}
    (h : WF fetch0 d lo hi root) (xs : List Entry) (hx : iterate fetch d root = some xs) :
    xs = flatten fetch0 d root := iterate_ok_complete hf h xs hx

/-- a fetch failure at ANY leaf-directory position (any depth) is reported as an error -/
theorem iterate_fails_at {fetch0 fetch : Fetch} (hf : Faulty fetch0 fetch) {d lo hi root}
    (h : WF fetch0 d lo hi root) (p : Nat × Nat) (hp : p ∈ ptrs fetch0 d root) (hn : fetch p.1 p.2 = none) :
    iterate fetch d root = none := iterate_fails hf h p hp hn

/-- and so is a failure to fetch the root directory -/
theorem root_fails (fetch : Fetch) (d : Nat) : iterateArchive none fetch d = none := rfl

end Pm.C17
