/-!
# Model of the region bitmap (`pmtiles/bitmap.go`)

* `fill inside B` — the interior fill of `bitmapMultiPolygon` over the sorted boundary IDs `B`:
  for consecutive boundary IDs `a < b` with a gap, the tile `a+1` is tested and, if inside, the
  whole ID interval `[a+1, b)` is added.  `inside` stands for orb's projected
  `MultiPolygonContains` of the tile centre (a parameter).
* `generalizeOr parent k r` — `generalizeOr`: `k = maxZoom - minZoom` rounds of "add the parents
  of the previous round".
-/
namespace Pm.Region

def fill (inside : Nat → Bool) : List Nat → List (Nat × Nat)
  | a :: b :: rest =>
    (if a + 1 < b ∧ inside (a + 1) = true then [(a + 1, b)] else []) ++ fill inside (b :: rest)
  | _ => []

def memInt (t : Nat) (ivs : List (Nat × Nat)) : Prop := ∃ p ∈ ivs, p.1 ≤ t ∧ t < p.2

def StrictAsc : List Nat → Prop
  | a :: b :: rest => a < b ∧ StrictAsc (b :: rest)
  | _ => True

def genOrLoop (parent : Nat → Nat) : Nat → List Nat → List Nat → List Nat
  | 0, _, acc => acc
  | k+1, cur, acc => genOrLoop parent k (cur.map parent) (acc ++ cur.map parent)

def generalizeOr (parent : Nat → Nat) (k : Nat) (r : List Nat) : List Nat := genOrLoop parent k r r

def iter (f : Nat → Nat) : Nat → Nat → Nat
  | 0, x => x
  | n+1, x => f (iter f n x)

end Pm.Region
