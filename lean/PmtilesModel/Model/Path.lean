/-!
# Model of the request-path grammar (`server.go:436-484`) and of the local backend's key → file
mapping (`bucket.go`, after the D4 fix)

Paths are lists of bytes (`Nat < 256`).  The three regexes are modelled as recognisers with
capture; the tile pattern is decomposed from the right (extension after the last `.`, three
`/`-separated decimal fields), which is the unique match, so regex greediness is irrelevant.
-/
namespace Pm.Path

abbrev Str := List Nat

/-- the character class `[-A-Za-z0-9_\/!-_\.\*'\(\)']`: `!-_` is the RANGE 0x21..0x5F, plus `a-z` -/
def inClass (c : Nat) : Bool := (0x21 ≤ c && c ≤ 0x5F) || (0x61 ≤ c && c ≤ 0x7A)

def isDigit (c : Nat) : Bool := 0x30 ≤ c && c ≤ 0x39
def isLower (c : Nat) : Bool := 0x61 ≤ c && c ≤ 0x7A

def slash : Nat := 0x2F
def dot : Nat := 0x2E

/-- a valid archive name capture: non-empty, all characters in the class -/
def validName (s : Str) : Bool := !s.isEmpty && s.all inClass

/-- split at the last occurrence of `c`: (before, after) -/
def splitLast (c : Nat) (s : Str) : Option (Str × Str) :=
  let r := s.reverse
  match r.dropWhile (· ≠ c) with
  | [] => none
  | _ :: before => some (before.reverse, (r.takeWhile (· ≠ c)).reverse)

/-- `strconv.ParseUint(s, 10, bits)` on a string of digits: `none` on a range error (the path is then
    not a tile path) -/
def parseUint (bits : Nat) (s : Str) : Option Nat :=
  let v := s.foldl (fun acc c => acc * 10 + (c - 0x30)) 0
  if v < 2^bits then some v else none

structure TilePath where
  name : Str
  z : Nat
  x : Nat
  y : Nat
  ext : Str
deriving Repr, DecidableEq

/-- `parseTilePath` -/
def parseTilePath (p : Str) : Option TilePath :=
  match p with
  | 0x2F :: body =>
    match splitLast dot body with
    | none => none
    | some (b1, ext) =>
      if ext.isEmpty || !ext.all isLower then none else
      match splitLast slash b1 with
      | none => none
      | some (b2, ys) =>
        if ys.isEmpty || !ys.all isDigit then none else
        match splitLast slash b2 with
        | none => none
        | some (b3, xs) =>
          if xs.isEmpty || !xs.all isDigit then none else
          match splitLast slash b3 with
          | none => none
          | some (name, zs) =>
            if zs.isEmpty || !zs.all isDigit then none else
            if !validName name then none else
            match parseUint 8 zs, parseUint 32 xs, parseUint 32 ys with
            | some z, some x, some y => some ⟨name, z, x, y, ext⟩
            | _, _, _ => none
  | _ => none

def jsonSuffix : Str := [0x2E, 0x6A, 0x73, 0x6F, 0x6E]           -- ".json"
def metaSuffix : Str := [0x2F, 0x6D, 0x65, 0x74, 0x61, 0x64, 0x61, 0x74, 0x61]  -- "/metadata"

def stripSuffix (suf s : Str) : Option Str :=
  if suf.length ≤ s.length ∧ s.drop (s.length - suf.length) = suf then some (s.take (s.length - suf.length)) else none

def parseTilejsonPath (p : Str) : Option Str :=
  match p with
  | 0x2F :: body => match stripSuffix jsonSuffix body with
    | some name => if validName name then some name else none
    | none => none
  | _ => none

def parseMetadataPath (p : Str) : Option Str :=
  match p with
  | 0x2F :: body => match stripSuffix metaSuffix body with
    | some name => if validName name then some name else none
    | none => none
  | _ => none

inductive Route
  | tile (t : TilePath) | tilejson (name : Str) | metadata (name : Str) | root | notFound
deriving Repr, DecidableEq

/-- dispatch order of `Server.get` -/
def route (p : Str) : Route :=
  match parseTilePath p with
  | some t => .tile t
  | none => match parseTilejsonPath p with
    | some n => .tilejson n
    | none => match parseMetadataPath p with
      | some n => .metadata n
      | none => if p = [slash] then .root else .notFound

def pmtilesSuffix : Str := [0x2E, 0x70, 0x6D, 0x74, 0x69, 0x6C, 0x65, 0x73]   -- ".pmtiles"

/-- the bucket key the server reads for a route (every read of a request uses this key) -/
def bucketKey : Route → Option Str
  | .tile t => some (t.name ++ pmtilesSuffix)
  | .tilejson n => some (n ++ pmtilesSuffix)
  | .metadata n => some (n ++ pmtilesSuffix)
  | _ => none

/-! ## local backend: `filepath.IsLocal` guard + `filepath.Join(root, key)` (lexical `Clean`) -/

/-- split on `/` -/
def segments (s : Str) : List Str :=
  (s.foldr (fun c (acc : Str × List Str) => if c = slash then ([], acc.1 :: acc.2) else (c :: acc.1, acc.2)) ([], [])) |> fun p => p.1 :: p.2

def dotSeg : Str := [dot]
def dotdotSeg : Str := [dot, dot]

/-- `filepath.IsLocal` on segments: never climbs above the starting directory -/
def isLocalSegs : Nat → List Str → Bool
  | _, [] => true
  | d, s :: rest =>
    if s = [] ∨ s = dotSeg then isLocalSegs d rest
    else if s = dotdotSeg then (if d = 0 then false else isLocalSegs (d - 1) rest)
    else isLocalSegs (d + 1) rest

def isLocal (key : Str) : Bool := !key.isEmpty && key.head? ≠ some slash && isLocalSegs 0 (segments key)

/-- lexical `Clean` of an absolute path given as segments: a stack machine (`..` at the root stays
    at the root); returns the stack, top first -/
def cleanStack : List Str → List Str → List Str
  | st, [] => st
  | st, s :: rest =>
    if s = [] ∨ s = dotSeg then cleanStack st rest
    else if s = dotdotSeg then cleanStack st.tail rest
    else cleanStack (s :: st) rest

def cleanAux (st : List Str) (l : List Str) : List Str := (cleanStack st l).reverse

/-- the file the local backend opens for `key` under the directory `root` (segments), or `none` = refused -/
def resolveLocal (root : List Str) (key : Str) : Option (List Str) :=
  if isLocal key then some (cleanAux [] (root ++ segments key)) else none

end Pm.Path
