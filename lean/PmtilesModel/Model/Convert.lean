import PmtilesModel.Model.Resolver
import PmtilesModel.Model.TileId
/-!
# Model of the tile passes of `convertMbtiles` (`convert.go:160-235`)

Input: tile rows `(zoom, column, row, blob)` in table order.  Pass 1 collects the set of
`ZxyToID(z, col, 2^z-1-row)`; pass 2 walks the IDs in ascending order, reads the first matching
row and adds every non-empty blob with run length 1.
-/
namespace Pm.Convert
open Pm Pm.Resolver

structure Row where
  z : Nat
  col : Nat
  row : Nat
  blob : Bytes
deriving Repr

def rowId (r : Row) : Nat := TileId.goZxyToID r.z r.col (2^r.z - 1 - r.row)

/-- insert into a strictly ascending list, keeping it duplicate-free -/
def insertUniq (x : Nat) : List Nat → List Nat
  | [] => [x]
  | y :: ys => if x < y then x :: y :: ys else if x = y then y :: ys else y :: insertUniq x ys

/-- the roaring bitmap of pass 1, iterated in ascending order -/
def idSet (rows : List Row) : List Nat := rows.foldr (fun r acc => insertUniq (rowId r) acc) []

/-- `SELECT tile_data … WHERE zoom_level = ? AND tile_column = ? AND tile_row = ?` (first match) -/
def blobOf (rows : List Row) (id : Nat) : Option Bytes :=
  (rows.find? (fun r => rowId r == id)).map (·.blob)

def convertAdds (rows : List Row) : List Add :=
  (idSet rows).filterMap (fun id =>
    match blobOf rows id with
    | some b => if b.isEmpty then none else some (id, b, 1)
    | none => none)

/-- `enc` of the conversion: gzip unless the blob already starts with the gzip magic (MVT only) -/
def encFor (isMvt : Bool) (gz : Bytes → Bytes) (b : Bytes) : Bytes :=
  if !isMvt || (b.length ≥ 2 && b.headD 0 == 31 && (b.drop 1).headD 0 == 139) then b else gz b

end Pm.Convert
