import PmtilesModel.Model.Entry
import PmtilesModel.Model.Bytes
/-!
# Model of the extract pipeline (`pmtiles/extract.go`)

* `trim` / `relevant` — `RelevantEntries`: intersection of a directory with a relevance set `S`
  (leaf pointers kept iff `S` meets their ID interval; runs cut into the maximal sub-runs inside `S`);
* `step` / `reencode` — `reencodeEntries`: re-addressing to contiguous output offsets + source ranges;
* merged download plans: `expand`, `execPlan` (`downloadPart`), and the decidable relation
  `mergeOK` that the tie checks on Go's `MergeRanges` output (the greedy order, the stop rule and
  unstable-sort ties are free; only "groups of consecutive ranges, true gaps, within budget" matters).
-/
namespace Pm.Extract
open Pm

structure Rng where
  src : Nat
  dst : Nat
  len : Nat
deriving Repr, DecidableEq

def covers (e : Entry) (t : Nat) : Prop := e.id ≤ t ∧ t < e.id + e.rl

/-- the Go loop `for y := id; y < id+rl; y++`, `n` = iterations left -/
def splitLoop (S : Nat → Bool) (off len : Nat) : Nat → Nat → Nat → Nat → List Entry
  | 0, _, curId, curRl => if 0 < curRl then [⟨curId, off, len, curRl⟩] else []
  | n+1, y, curId, curRl =>
    if S y then
      (if curRl = 0 then splitLoop S off len n (y+1) y 1 else splitLoop S off len n (y+1) curId (curRl+1))
    else
      (if 0 < curRl then ⟨curId, off, len, curRl⟩ :: splitLoop S off len n (y+1) curId 0
       else splitLoop S off len n (y+1) curId 0)

def trim (S : Nat → Bool) (e : Entry) : List Entry := splitLoop S e.off e.len e.rl e.id e.id 0

/-- `RelevantEntries(bitmap, maxzoom, dir)`: `S` the bitmap, `lastTile` = first ID of zoom maxzoom+1,
    `meets lo hi` = "the bitmap intersects [lo, hi)" -/
def relevantAux (S : Nat → Bool) (meets : Nat → Nat → Bool) (lastTile : Nat) : List Entry → List Entry × List Entry
  | [] => ([], [])
  | e :: rest =>
    let r := relevantAux S meets lastTile rest
    if e.rl = 0 then
      let hi := match rest with | [] => lastTile | n :: _ => n.id
      if meets e.id hi then (r.1, e :: r.2) else r
    else if e.rl = 1 then
      if S e.id then (e :: r.1, r.2) else r
    else (trim S e ++ r.1, r.2)

structure RS where
  out : List Entry                 -- reencoded, newest first
  seen : List (Nat × Nat)          -- source offset ↦ new offset
  ranges : List Rng                -- newest first (Go appends; the last one may be extended)
  dstOff : Nat

def lookup (seen : List (Nat × Nat)) (o : Nat) : Option Nat :=
  match seen.find? (fun p => p.1 == o) with
  | some p => some p.2
  | none => none

def step (s : RS) (e : Entry) : RS :=
  match lookup s.seen e.off with
  | some v => { s with out := ⟨e.id, v, e.len, e.rl⟩ :: s.out }
  | none =>
    let ranges' :=
      match s.ranges with
      | last :: rest => if last.src + last.len = e.off then { last with len := last.len + e.len } :: rest
                        else ⟨e.off, s.dstOff, e.len⟩ :: s.ranges
      | [] => [⟨e.off, s.dstOff, e.len⟩]
    { out := ⟨e.id, s.dstOff, e.len, e.rl⟩ :: s.out,
      seen := (e.off, s.dstOff) :: s.seen,
      ranges := ranges',
      dstOff := s.dstOff + e.len }

def reencodeInit : RS := { out := [], seen := [], ranges := [], dstOff := 0 }
def reencode (es : List Entry) : RS := es.foldl step reencodeInit

def sumRl : List Entry → Nat
  | [] => 0
  | e :: r => e.rl + sumRl r

/-- the output tile data: source slices laid down in range order (oldest first) -/
def render (src : Bytes) : List Rng → Bytes
  | [] => []
  | r :: older => render src older ++ slice src r.src r.len

/-- ranges, oldest first, tile [0, dstOff) -/
def Tiles : List Rng → Nat → Prop
  | [], n => n = 0
  | r :: older, n => r.dst + r.len = n ∧ Tiles older r.dst

/-! ## download plans -/

structure Plan where
  rng : Rng
  cds : List (Nat × Nat)        -- (wanted, discard)
deriving Repr, DecidableEq

/-- the ranges a plan stands for -/
def expandAux : Nat → Nat → List (Nat × Nat) → List Rng
  | _, _, [] => []
  | s, d, (w, g) :: rest => ⟨s, d, w⟩ :: expandAux (s + w + g) (d + w) rest

def expand (p : Plan) : List Rng := expandAux p.rng.src p.rng.dst p.cds

def need : List (Nat × Nat) → Nat
  | [] => 0
  | (w, g) :: rest => w + g + need rest

def discards : List (Nat × Nat) → Nat
  | [] => 0
  | (_, g) :: rest => g + discards rest

/-- `downloadPart`: sequentially copy `wanted` bytes to the offset writer, then discard -/
def execCDs : Bytes → Nat → List (Nat × Nat) → List (Nat × Bytes)
  | _, _, [] => []
  | chunk, dst, (w, d) :: rest => (dst, chunk.take w) :: execCDs (chunk.drop (w + d)) (dst + w) rest

def execPlan (source : Bytes) (p : Plan) : List (Nat × Bytes) :=
  execCDs (slice source p.rng.src p.rng.len) p.rng.dst p.cds

def insertByDst (p : Plan) : List Plan → List Plan
  | [] => [p]
  | q :: qs => if p.rng.dst ≤ q.rng.dst then p :: q :: qs else q :: insertByDst p qs

def sortByDst (ps : List Plan) : List Plan := ps.foldr insertByDst []

def sumLens : List Rng → Nat
  | [] => 0
  | r :: rest => r.len + sumLens rest

def totalDiscards : List Plan → Nat
  | [] => 0
  | p :: ps => discards p.cds + totalDiscards ps

def totalTransfer : List Plan → Nat
  | [] => 0
  | p :: ps => p.rng.len + totalTransfer ps

/-- certificate check: the plans are groups of consecutive input ranges (in output order) joined
    over their true gaps, each request spans exactly its group, and the merged gaps fit the budget -/
def mergeOK (ranges : List Rng) (budget : Nat) (plans : List Plan) : Bool :=
  decide (((sortByDst plans).map expand).flatten = ranges) &&
  plans.all (fun p => decide (p.rng.len = need p.cds) && decide ((p.cds.getLast?.map (·.2)) = some 0)) &&
  decide (totalDiscards plans ≤ budget)

/-- `mergeBudget`: floor(total * overfetch), overfetch = num / den exactly (a float32 value) -/
def mergeBudget (total num den : Nat) : Nat := total * num / den

end Pm.Extract
