import PmtilesModel.Model.Entry
import PmtilesModel.Model.Bytes
/-!
# Model of the resolver (`convert.go:48-93`, after the D5 fix): de-duplicating, run-length
merging accumulator shared by convert and cluster

`seen` is Go's `OffsetMap`, keyed here by the content itself (collision-free hash idealisation,
FNV-128a in Go).  `enc` is "gzip unless already gzip" for MVT conversion and the identity for
cluster.  `rev` holds `r.Entries` newest first; `data` is what has been written to the temp file.
-/
namespace Pm.Resolver
open Pm

structure Res where
  dedup : Bool
  rev : List Entry                      -- newest first  (Go: r.Entries, appended at the end)
  data : Bytes                          -- what has been written to the temp file
  seen : List (Bytes × (Nat × Nat))     -- content ↦ (offset, length)   (Go: OffsetMap keyed by the hash)
  addressed : Nat


def lookupSeen (seen : List (Bytes × (Nat × Nat))) (b : Bytes) : Option (Nat × Nat) :=
  match seen.find? (fun p => p.1 == b) with
  | some p => some p.2
  | none => none

variable (enc : Bytes → Bytes)

def add (r : Res) (id : Nat) (blob : Bytes) (rl : Nat) : Res :=
  match (if r.dedup then lookupSeen r.seen blob else none) with
  | some (off, len) =>
    match r.rev with
    | last :: rest =>
      if id = last.id + last.rl ∧ last.off = off then
        { r with rev := { last with rl := last.rl + rl } :: rest, addressed := r.addressed + rl }
      else
        { r with rev := ⟨id, off, len, rl⟩ :: r.rev, addressed := r.addressed + rl }
    | [] => { r with rev := [⟨id, off, len, rl⟩], addressed := r.addressed + rl }
  | none =>
    let nd := enc blob
    { dedup := r.dedup,
      rev := ⟨id, r.data.length, nd.length, rl⟩ :: r.rev,
      data := r.data ++ nd,
      seen := if r.dedup then (blob, (r.data.length, nd.length)) :: r.seen else r.seen,
      addressed := r.addressed + rl }

def covers (e : Entry) (t : Nat) : Bool := decide (e.id ≤ t ∧ t < e.id + e.rl)

/-- what a reader gets for tile t -/
def content (r : Res) (t : Nat) : Option Bytes :=
  match r.rev.find? (covers · t) with
  | some e => some (slice r.data e.off e.len)
  | none => none

/-- an add request: tile ID, content, run length -/
abbrev Add := Nat × Bytes × Nat

def run (enc : Bytes → Bytes) (r : Res) (adds : List Add) : Res :=
  adds.foldl (fun r a => add enc r a.1 a.2.1 a.2.2) r

def init (dedup : Bool) : Res := { dedup := dedup, rev := [], data := [], seen := [], addressed := 0 }

/-- `NumContents()` after the D5 fix -/
def numContents (r : Res) : Nat := if r.dedup then r.seen.length else r.rev.length

end Pm.Resolver
