import PmtilesModel.Model.Resolver
import PmtilesModel.Model.Header
import PmtilesModel.Model.TileId
/-!
# Model of `setZoomCenterDefaults` and of the header assignments of `finalize` (`convert.go`)

Directory bytes, metadata bytes and their gzip sizes are produced by Go (C05 / gzip / JSON
are parameters): the three section lengths enter as arguments.
-/
namespace Pm.Finalize
open Pm Pm.Header Pm.Resolver

/-- Go `int32` addition followed by `/ 2` (truncating division) -/
def i32avg (a b : Int) : Int := Int.tdiv (toI32 (ofI32 (a + b))) 2

/-- the last tile an entry addresses: `TileID + RunLength - 1` (uint64); the first one for run lengths ≤ 1 -/
def lastTile (e : Entry) : Nat := if e.rl > 1 then (e.id + e.rl - 1) % 2^64 else e.id

/-- minimum zoom from the first entry's first tile, maximum zoom from the LAST tile of the last entry's run
    (fix D24: a run may reach into the next zoom level) -/
def setZoomCenterDefaults (h : Header) (entries : List Entry) : Header :=
  let h1 := { h with minZoom := TileId.goZoom ((entries.headD default).id),
                     maxZoom := TileId.goZoom (lastTile (entries.getLastD default)) }
  if h1.centerZoom = 0 ∧ h1.centerLonE7 = 0 ∧ h1.centerLatE7 = 0 then
    { h1 with centerZoom := h1.minZoom,
              centerLonE7 := i32avg h1.minLonE7 h1.maxLonE7,
              centerLatE7 := i32avg h1.minLatE7 h1.maxLatE7 }
  else h1

/-- the header that `finalize` writes; `compress` = the resolver's compress flag -/
def finalizeHeader (h : Header) (compress : Bool) (r : Res) (rootLen metaLen leavesLen : Nat) : Header :=
  let entries := r.rev.reverse
  let h1 := { h with addressedTilesCount := r.addressed, tileEntriesCount := entries.length,
                     tileContentsCount := numContents r }
  let h2 := setZoomCenterDefaults h1 entries
  { h2 with clustered := true, internalCompression := 2,
            tileCompression := if compress then 2 else h2.tileCompression,
            rootOffset := 127, rootLength := rootLen,
            metadataOffset := 127 + rootLen, metadataLength := metaLen,
            leafDirectoryOffset := 127 + rootLen + metaLen, leafDirectoryLength := leavesLen,
            tileDataOffset := 127 + rootLen + metaLen + leavesLen, tileDataLength := r.data.length }

end Pm.Finalize
