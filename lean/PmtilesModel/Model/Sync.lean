import PmtilesModel.Model.Iterate
import PmtilesModel.Model.DirCodec
import PmtilesModel.Model.Header
import PmtilesModel.Model.Uvarint
import PmtilesModel.Model.Edit
/-!
# Model of `Makesync` (`makesync.go`) and `Sync` (`sync.go`)

* `mkBlocks` — the fold over the clustered entry stream that cuts the tile data into blocks
  (`makesync.go:149-178`); `none` is Go's `panic("Invalid clustering …")`.
* `serBlocks` / `deserBlocks` — the `.sync` body; `syncFileOf` the whole file.
* `diff` — `sync.go:165-198`: remote blocks against the local entry stream (list-based: the
  Go index loop with the bounds of the fix).
* `classify`, `sortBy`, `coalesce` — have / wanted, sorted, contiguous ranges merged
  (`haveCond` requires contiguity in both files, the fix).
* `makeMultiRanges` — batching of `Range` header strings.
* `assemble` — the writes into `FILE.tmp`; `syncOps` the same as file-system operations.

The hash is a parameter `hashFn : Bytes → Nat` (the driver instantiates XXH64).  Offsets are `Nat`
(no uint64 wrap-around: real archives are far below 2^64 bytes).
-/
namespace Pm.Sync
open Pm Pm.Header Pm.Reader

structure Cur where
  start : Nat
  off : Nat
  len : Nat
deriving Repr, DecidableEq

structure Block where
  start : Nat
  off : Nat
  len : Nat
  hash : Nat
deriving Repr, DecidableEq

/-! ## makesync -/

def mkStep (bs : Nat) (st : Cur × List Cur) (e : Entry) : Option (Cur × List Cur) :=
  let cur := st.1
  if cur.len = 0 then some (⟨e.id, e.off, e.len⟩, st.2)
  else if e.off > cur.off + cur.len then none
  else if e.off = cur.off + cur.len then
    if cur.len + e.len > bs then some (⟨e.id, e.off, e.len⟩, st.2 ++ [cur])
    else some ({ cur with len := cur.len + e.len }, st.2)
  else some st

def mkFold (bs : Nat) : Cur × List Cur → List Entry → Option (Cur × List Cur)
  | st, [] => some st
  | st, e :: es => match mkStep bs st e with
    | none => none
    | some st' => mkFold bs st' es

/-- the blocks in emission order (the final `current` is always emitted) -/
def mkBlocks (bs : Nat) (es : List Entry) : Option (List Cur) :=
  match mkFold bs (⟨0, 0, 0⟩, []) es with
  | none => none
  | some (cur, out) => some (out ++ [cur])

def insertBy {α} (key : α → Nat) (x : α) : List α → List α
  | [] => [x]
  | y :: ys => if key x < key y then x :: y :: ys else y :: insertBy key x ys

/-- stable insertion sort on a key (Go: `sort.Slice`, whose result is determined up to the order
    of equal keys; the tie's inputs have distinct keys where it matters) -/
def sortBy {α} (key : α → Nat) (xs : List α) : List α := xs.foldr (insertBy key) []

def hashBlocks (hashFn : Bytes → Nat) (file : Bytes) (tdo : Nat) (cs : List Cur) : List Block :=
  cs.map (fun c => ⟨c.start, c.off, c.len, hashFn (slice file (tdo + c.off) c.len)⟩)

def serBlocks : Nat → List Block → Bytes
  | _, [] => []
  | last, b :: bs => putUvarint ((b.start + W - last) % W) ++ putUvarint b.len ++ le 8 b.hash ++ serBlocks b.start bs

/-- `deserializeSyncBlocks` on well-formed input (`none`: input ended or a varint overflowed —
    Go ignores these errors; such a `.sync` is not makesync output) -/
def deserBlocks : Nat → Nat → Nat → Bytes → Option (List Block)
  | 0, _, _, _ => some []
  | n+1, last, off, bs =>
    match readUvarint bs with
    | none => none
    | some (d, r1) =>
      match readUvarint r1 with
      | none => none
      | some (len, r2) =>
        if r2.length < 8 then none else
        match deserBlocks n ((last + d) % W) (off + len) (r2.drop 8) with
        | none => none
        | some rest => some (⟨(last + d) % W, off, len, unle (r2.take 8)⟩ :: rest)

def natDigits (n : Nat) : Bytes := (toString n).toUTF8.toList.map (·.toNat)
def strBytes (s : String) : Bytes := s.toUTF8.toList.map (·.toNat)

def syncHeaderLine (version : String) (blockSize numBlocks : Nat) : Bytes :=
  strBytes "{\"version\":\"" ++ strBytes version ++ strBytes "\",\"block_size\":" ++ natDigits blockSize ++
  strBytes ",\"hash_type\":\"xxh64\",\"hash_size\":8,\"num_blocks\":" ++ natDigits numBlocks ++ strBytes "}" ++ [10]

/-- directory fetch from the file bytes (uncompressed directories) -/
def fetchOf (file : Bytes) (ldo : Nat) : Fetch := fun off len => DirCodec.deserialize (slice file (ldo + off) len)

/-- `IterateEntries(header, read-from-file, …)` -/
def entriesOf (file : Bytes) (h : Header) : Option (List Entry) :=
  iterateArchive (DirCodec.deserialize (slice file h.rootOffset h.rootLength)) (fetchOf file h.leafDirectoryOffset) 8

inductive Err | header | notClustered | iterate | badClustering | syncfile | http | short
deriving Repr, DecidableEq

def headerOf (file : Bytes) : Except Err Header :=
  match deserializeHeader (file.take 127) with
  | .ok h => .ok h
  | .error _ => .error .header

/-- the whole `.sync` file `Makesync` writes for archive `file` -/
def syncFileOf (hashFn : Bytes → Nat) (version : String) (blockSizeKb : Nat) (file : Bytes) : Except Err Bytes := do
  let h ← headerOf file
  if !h.clustered then throw .notClustered
  match entriesOf file h with
  | none => throw .iterate
  | some es =>
    match mkBlocks (1000 * blockSizeKb) es with
    | none => throw .badClustering
    | some cs =>
      let blocks := sortBy Block.start (hashBlocks hashFn file h.tileDataOffset cs)
      pure (syncHeaderLine version (1000 * blockSizeKb) blocks.length ++ serBlocks 0 blocks)

/-! ## sync: diff -/

structure DiffSt where
  rest : List Block
  tasks : List (Block × Nat)
  wanted : List Block

def diffStep (st : DiffSt) (e : Entry) : DiffSt :=
  match st.rest with
  | [] => st
  | _ :: _ =>
    let sk := st.rest.takeWhile (fun b => decide (b.start < e.id))
    match st.rest.dropWhile (fun b => decide (b.start < e.id)) with
    | [] => { rest := [], tasks := st.tasks, wanted := st.wanted ++ sk }
    | b :: r =>
      if e.id = b.start then { rest := r, tasks := st.tasks ++ [(b, e.off)], wanted := st.wanted ++ sk }
      else { rest := b :: r, tasks := st.tasks, wanted := st.wanted ++ sk }

/-- `(tasks, wanted)`: blocks to be hashed against local bytes at an offset, and blocks with no local start -/
def diff (blocks : List Block) (es : List Entry) : List (Block × Nat) × List Block :=
  let st := es.foldl diffStep { rest := blocks, tasks := [], wanted := [] }
  (st.tasks, st.wanted ++ st.rest)

structure Rng where
  src : Nat
  dst : Nat
  len : Nat
deriving Repr, DecidableEq

def hashEq (hashFn : Bytes → Nat) (afile : Bytes) (atdo : Nat) (t : Block × Nat) : Bool :=
  hashFn (slice afile (atdo + t.2) t.1.len) == t.1.hash

def haveOf (hashFn : Bytes → Nat) (afile : Bytes) (atdo : Nat) (tasks : List (Block × Nat)) : List Rng :=
  (tasks.filter (hashEq hashFn afile atdo)).map (fun t => ⟨t.2, t.1.off, t.1.len⟩)

def wantedOf (hashFn : Bytes → Nat) (afile : Bytes) (atdo : Nat) (tasks : List (Block × Nat)) (direct : List Block) : List Block :=
  direct ++ (tasks.filter (fun t => !hashEq hashFn afile atdo t)).map (·.1)

/-- append `v`, or extend the last range when `cond last v` (the accumulator is kept reversed) -/
def pushMerge (cond : Rng → Rng → Bool) (acc : List Rng) (v : Rng) : List Rng :=
  match acc with
  | l :: rest => if cond l v then { l with len := l.len + v.len } :: rest else v :: acc
  | [] => [v]

def coalesce (cond : Rng → Rng → Bool) (vs : List Rng) : List Rng := (vs.foldl (pushMerge cond) []).reverse

def wantedCond (l v : Rng) : Bool := l.src + l.len == v.src
def haveCond (l v : Rng) : Bool := l.src + l.len == v.src && l.dst + l.len == v.dst

def rngOfBlock (b : Block) : Rng := ⟨b.off, b.off, b.len⟩

structure Plan where
  haveN : Nat              -- matched blocks
  wantedN : Nat
  haveR : List Rng
  wantR : List Rng
deriving Repr

def plan (hashFn : Bytes → Nat) (afile : Bytes) (atdo : Nat) (blocks : List Block) (aes : List Entry) : Plan :=
  let (tasks, direct) := diff blocks aes
  let hv := sortBy Rng.src (haveOf hashFn afile atdo tasks)
  let wn := sortBy Block.start (wantedOf hashFn afile atdo tasks direct)
  { haveN := hv.length, wantedN := wn.length,
    haveR := coalesce haveCond hv, wantR := coalesce wantedCond (wn.map rngOfBlock) }

/-! ## sync: Range batching -/

def rangeStr (base : Nat) (r : Rng) : String := s!"{base + r.src}-{base + r.src + r.len - 1}"

structure MR where
  str : String
  ranges : List Rng
deriving Repr

def mmrStep (base maxBytes : Nat) (st : List MR × String × List Rng) (r : Rng) : List MR × String × List Rng :=
  let (res, cur, curR) := st
  let rs := rangeStr base r
  let (res, cur, curR) :=
    if cur.length + rs.length + 1 > maxBytes ∧ cur.length > 0 then (res ++ [⟨cur, curR⟩], "", []) else (res, cur, curR)
  (res, (if cur.length > 0 then cur ++ "," else cur) ++ rs, curR ++ [r])

def makeMultiRanges (ranges : List Rng) (base maxBytes : Nat) : List MR :=
  let (res, cur, curR) := ranges.foldl (mmrStep base maxBytes) ([], "", [])
  if cur.length > 0 then res ++ [⟨cur, curR⟩] else res

/-! ## sync: assembly -/

/-- `WriteAt` into a file of fixed length (writes here never extend the truncated temp file) -/
def writeAt (f : Bytes) (off : Nat) (b : Bytes) : Bytes :=
  if off + b.length ≤ f.length then f.take off ++ b ++ f.drop (off + b.length) else f

def writeRanges (src : Bytes) (stdo dtdo : Nat) (f : Bytes) (rs : List Rng) : Bytes :=
  rs.foldl (fun f r => writeAt f (dtdo + r.dst) (slice src (stdo + r.src) r.len)) f

def assemble (afile bfile : Bytes) (atdo : Nat) (bh : Header) (p : Plan) : Bytes :=
  let f0 := List.replicate bfile.length 0
  let f1 := writeAt f0 0 (slice bfile 0 16384)
  let f2 := writeAt f1 bh.metadataOffset (slice bfile bh.metadataOffset bh.metadataLength)
  let f3 := writeAt f2 bh.leafDirectoryOffset (slice bfile bh.leafDirectoryOffset bh.leafDirectoryLength)
  let f4 := writeRanges afile atdo bh.tileDataOffset f3 p.haveR
  writeRanges bfile bh.tileDataOffset bh.tileDataOffset f4 p.wantR

/-- the requests a non-dry sync sends after the `.sync` download, fixed part then the batched tile ranges -/
def requests (bh : Header) (p : Plan) : List String :=
  ["HEAD", "0-16383"] ++
  (if bh.metadataLength = 0 then [] else [s!"{bh.metadataOffset}-{bh.metadataOffset + bh.metadataLength - 1}"]) ++
  (if bh.leafDirectoryLength = 0 then [] else [s!"{bh.leafDirectoryOffset}-{bh.leafDirectoryOffset + bh.leafDirectoryLength - 1}"]) ++
  (makeMultiRanges p.wantR bh.tileDataOffset (1048576 - 200)).map (·.str)

structure Outcome where
  plan : Plan
  newFile : Bytes
  reqs : List String

/-- numBlocks from the JSON line: the digits after `"num_blocks":` -/
def parseNumBlocks (line : Bytes) : Option Nat :=
  let key := strBytes "\"num_blocks\":"
  let rec go : Nat → Bytes → Option Nat
    | 0, _ => none
    | fuel+1, l =>
      if l.take key.length = key then
        let ds := (l.drop key.length).takeWhile (fun c => 48 ≤ c ∧ c ≤ 57)
        if ds = [] then none else some (ds.foldl (fun a c => a * 10 + (c - 48)) 0)
      else match l with
        | [] => none
        | _ :: t => go fuel t
  go (line.length + 1) line

def parseSyncFile (sf : Bytes) : Option (List Block) :=
  let line := sf.takeWhile (· ≠ 10)
  match parseNumBlocks line with
  | none => none
  | some n => deserBlocks n 0 0 (sf.drop (line.length + 1))

/-- `Sync(old, url, dryRun)` against origin files `bfile`, `sf` (fault-free origin) -/
def sync (hashFn : Bytes → Nat) (afile bfile sf : Bytes) : Except Err Outcome := do
  let blocks ← match parseSyncFile sf with | some b => pure b | none => throw Err.syncfile
  let ah ← headerOf afile
  if !ah.clustered then throw .notClustered
  let aes ← match entriesOf afile ah with | some es => pure es | none => throw Err.iterate
  let p := plan hashFn afile ah.tileDataOffset blocks aes
  let bh ← headerOf bfile
  pure { plan := p, newFile := assemble afile bfile ah.tileDataOffset bh p, reqs := requests bh p }

/-! ## sync as file-system operations -/

open Pm.Edit in
def syncOps (path : String) (afile bfile : Bytes) (atdo : Nat) (bh : Header) (p : Plan) : List FsOp :=
  let tmp := path ++ ".tmp"
  [.create tmp, .append tmp (List.replicate bfile.length 0),
   .pwrite tmp 0 (slice bfile 0 16384),
   .pwrite tmp bh.metadataOffset (slice bfile bh.metadataOffset bh.metadataLength),
   .pwrite tmp bh.leafDirectoryOffset (slice bfile bh.leafDirectoryOffset bh.leafDirectoryLength)] ++
  p.haveR.map (fun r => .pwrite tmp (bh.tileDataOffset + r.dst) (slice afile (atdo + r.src) r.len)) ++
  p.wantR.map (fun r => .pwrite tmp (bh.tileDataOffset + r.dst) (slice bfile (bh.tileDataOffset + r.src) r.len)) ++
  [.rename tmp path]

end Pm.Sync
