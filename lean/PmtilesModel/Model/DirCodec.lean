import PmtilesModel.Model.Uvarint
import PmtilesModel.Model.Entry
/-!
# Model of `SerializeEntries` / `deserializeEntriesChecked` (`pmtiles/directory.go`)

Uncompressed payload: count, `uint64` delta column, run lengths, lengths, offsets
(`0` iff `i > 0` and the offset continues the previous entry, else `offset + 1`).
Compression is a parameter (`Codec`); the driver instantiates it from a table that the
harness computes with Go's `compress/gzip`.
-/
namespace Pm.DirCodec

/-- delta column, `uint64` subtraction -/
def deltas : Nat → List Entry → List Nat
  | _, [] => []
  | last, e :: es => ((e.id + W - last) % W) :: deltas e.id es

/-- offset column with a per-entry choice whether to use the contiguous-offset shorthand
    where it is allowed; Go's writer always uses it (`flags = all true`). -/
def offColF : Option Entry → List Entry → List Bool → List Nat
  | _, [], _ => []
  | none, e :: es, fl => ((e.off + 1) % W) :: offColF (some e) es fl.tail
  | some p, e :: es, fl =>
    (if fl.headD true ∧ e.off = (p.off + p.len) % W then 0 else (e.off + 1) % W) :: offColF (some e) es fl.tail

def serializeF (es : List Entry) (flags : List Bool) : Bytes :=
  putUvarint es.length ++ putAll (deltas 0 es) ++ putAll (es.map (·.rl)) ++ putAll (es.map (·.len))
    ++ putAll (offColF none es flags)

/-- payload written by `SerializeEntries` before compression -/
def serialize (es : List Entry) : Bytes := serializeF es []

def undeltas : Nat → List Nat → List Nat
  | _, [] => []
  | last, d :: ds => ((last + d) % W) :: undeltas ((last + d) % W) ds

def unoff : Option (Nat × Nat) → List (Nat × Nat) → List Nat      -- (encoded, len) pairs
  | _, [] => []
  | none, (t, l) :: r => let o := (t + W - 1) % W; o :: unoff (some (o, l)) r
  | some (po, pl), (t, l) :: r =>
    let o := if t = 0 then (po + pl) % W else (t + W - 1) % W
    o :: unoff (some (o, l)) r

def zip4 : List Nat → List Nat → List Nat → List Nat → List Entry
  | i :: is, o :: os, l :: ls, r :: rs => ⟨i, o, l, r⟩ :: zip4 is os ls rs
  | _, _, _, _ => []

/-- checked decoder on the uncompressed payload: `none` = a read error (EOF / varint overflow) -/
def deserialize (bs : Bytes) : Option (List Entry) :=
  match readUvarint bs with
  | none => none
  | some (n, r0) =>
  match readN n r0 with
  | none => none
  | some (ds, r1) =>
  match readN n r1 with
  | none => none
  | some (rls, r2) =>
  match readN n r2 with
  | none => none
  | some (lens, r3) =>
  match readN n r3 with
  | none => none
  | some (offs, _) =>
    let ids := undeltas 0 ds
    let lens32 := lens.map (· % 2^32)
    let rls32 := rls.map (· % 2^32)
    some (zip4 ids (unoff none (offs.zip lens32)) lens32 rls32)

/-- internal compression as a parameter -/
structure Codec where
  gz : Bytes → Bytes
  gunz : Bytes → Option Bytes

def Codec.Lawful (C : Codec) : Prop := ∀ b, C.gunz (C.gz b) = some b

inductive Compression | none | gzip
deriving DecidableEq, Repr

def serializeEntries (C : Codec) (c : Compression) (es : List Entry) : Bytes :=
  match c with
  | .none => serialize es
  | .gzip => C.gz (serialize es)

def deserializeEntries (C : Codec) (c : Compression) (b : Bytes) : Option (List Entry) :=
  match c with
  | .none => deserialize b
  | .gzip => (C.gunz b).bind deserialize

end Pm.DirCodec
