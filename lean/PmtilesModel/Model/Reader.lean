import PmtilesModel.Spec.ReaderSpec
import PmtilesModel.Model.Bytes
/-!
# Model of `findTile` (`directory.go`) and of the directory walk shared by
`Server.getTileAttempt` (`server.go`) and `Show` (`show.go`)

`findTile`: binary search on `[m, n]`; we carry `lo = m` and `hi = n + 1`.  Go compares through
`int64(tileID) - int64(entries[k].TileID)`, exact for IDs `< 2^63` (all valid tile IDs).
-/
namespace Pm.Reader

def search (es : Array Entry) (t : Nat) (lo hi : Nat) : Nat ⊕ Entry :=   -- inl n1 : loop ended with n+1 = n1
  if h : lo < hi then
    let k := (hi - 1 + lo) / 2
    if hk : k < es.size then
      if es[k].id < t then search es t (k+1) hi
      else if t < es[k].id then search es t lo k
      else .inr es[k]
    else .inl 0
  else .inl hi
termination_by hi - lo
decreasing_by all_goals omega

def findTile (es : Array Entry) (t : Nat) : Option Entry :=
  match search es t 0 es.size with
  | .inr e => some e
  | .inl n1 =>
    if h : 0 < n1 ∧ n1 - 1 < es.size then
      let e := es[n1 - 1]
      if e.rl = 0 then some e
      else if t - e.id < e.rl then some e else none
    else none

/-- the walk: `fuel` = number of leaf levels that may still be descended (Go: `depth <= 3`,
    i.e. root + 3 leaf levels, `fuel = 3`) -/
def walkGo (fetch : Fetch) : Nat → List Entry → Nat → Option Entry
  | fuel, dir, t =>
    match findTile dir.toArray t with
    | none => none
    | some e =>
      if 0 < e.rl then some e else
      match fuel with
      | 0 => none
      | f+1 => match fetch e.off e.len with
        | none => none
        | some d => walkGo fetch f d t

end Pm.Reader

namespace Pm.Reader
open Pm

/-- answer of the tile endpoint for an admissible request (zoom in range, extension matching):
    `(status, body)`; the CLI writes the same body and reports "not found" where the server says 204 -/
def tileAnswer (fetch : Fetch) (fuel : Nat) (root : List Entry) (tileData : Bytes) (t : Nat) : Nat × Bytes :=
  match walkGo fetch fuel root t with
  | some e => (200, slice tileData e.off e.len)
  | none => (204, [])

end Pm.Reader
