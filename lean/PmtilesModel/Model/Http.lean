import PmtilesModel.Model.Header
import PmtilesModel.Model.Path
import PmtilesModel.Model.Reader
import PmtilesModel.Model.TileId
/-!
# Model of the HTTP contract (`server.go`: `getTileAttempt`, `get`, `getMetadata`, `getTileJSON`,
`ServeHTTP`; enum tables of `directory.go`)

Decision logic for one fixed archive version and no faults (the cache and versions are C08–C10).
`http.ServeContent` is a parameter with three laws, spelled out in `serveContent`: no matching
validator ⇒ 200 with the body; `If-None-Match` matching the response's strong ETag (exact, `*`,
weak form, or in a list) ⇒ 304 without body and without content headers; `HEAD` ⇒ same status
and headers, empty body.  The ETag is `tagOf body` for an abstract `tagOf` (xxhash64 in Go).
-/
namespace Pm.Http
open Pm Pm.Header Pm.Path

/-- tile type byte → extension / MIME type (`tileTypeToString`, `headerContentType`) -/
def extOf : Nat → Option String
  | 1 => some "mvt" | 2 => some "png" | 3 => some "jpg" | 4 => some "webp" | 5 => some "avif" | _ => none

def ctOf : Nat → Option String
  | 1 => some "application/x-protobuf" | 2 => some "image/png" | 3 => some "image/jpeg"
  | 4 => some "image/webp" | 5 => some "image/avif" | _ => none

/-- tile compression byte → Content-Encoding (`compressionToString`; absent for none/unknown) -/
def encOf : Nat → Option String
  | 2 => some "gzip" | 3 => some "br" | 4 => some "zstd" | _ => none

structure Resp where
  status : Nat
  ctype : Option String := none
  cenc : Option String := none
  hasEtag : Bool := false
  body : Bytes := []
deriving Repr, DecidableEq

/-- an archive as the handlers see it: `none` = unknown archive (header fetch not ok) -/
structure Archive where
  header : Header
  tile : Nat → Option Bytes          -- the tile map (C04: walk = tileMap)
  metadata : Bytes                    -- decompressed JSON metadata
  tilejson : String → Bytes           -- CreateTileJSON(header, metadata, publicURL/name) — assembled by Go's encoding/json

def strOf (s : Str) : String := String.ofList (s.map (fun c => Char.ofNat c))

/-- the coordinates do not lie on the zoom's 2^z × 2^z grid (zooms the tile-ID arithmetic supports) -/
def outsideGrid (z x y : Nat) : Prop := z < 32 ∧ (2^z ≤ x ∨ 2^z ≤ y)

instance (z x y : Nat) : Decidable (outsideGrid z x y) := by unfold outsideGrid; infer_instance

/-- `getTileAttempt` for a known archive -/
def tileResp (a : Archive) (z x y : Nat) (ext : Str) : Resp :=
  let h := a.header
  if z < h.minZoom ∨ z > h.maxZoom then { status := 404 }
  else if outsideGrid z x y then { status := 404 }
  else match extOf h.tileType with
    | some e => if strOf ext ≠ e then { status := 400 } else
        match a.tile (TileId.goZxyToID z x y) with
        | some b => { status := 200, ctype := ctOf h.tileType, cenc := encOf h.tileCompression, hasEtag := true, body := b }
        | none => { status := 204 }
    | none =>
        match a.tile (TileId.goZxyToID z x y) with
        | some b => { status := 200, ctype := ctOf h.tileType, cenc := encOf h.tileCompression, hasEtag := true, body := b }
        | none => { status := 204 }

/-- `Server.get`: `arch name` = the archive stored under that name, `publicURL` non-empty -/
def getResp (arch : Str → Option Archive) (publicURL : String) (p : Str) : Resp :=
  match route p with
  | .tile t => match arch t.name with
    | none => { status := 404 }
    | some a => tileResp a t.z t.x t.y t.ext
  | .tilejson n => match arch n with
    | none => { status := 404 }
    | some a => { status := 200, ctype := some "application/json", hasEtag := true, body := a.tilejson (publicURL ++ "/" ++ strOf n) }
  | .metadata n => match arch n with
    | none => { status := 404 }
    | some a => { status := 200, ctype := some "application/json", hasEtag := true, body := a.metadata }
  | .root => { status := 204 }
  | .notFound => { status := 404 }

inductive Inm | none | exact | star | weak | list | other
deriving DecidableEq, Repr

/-- does the presented If-None-Match validator match the response's ETag? -/
def Inm.matches : Inm → Bool
  | .exact | .star | .weak | .list => true
  | _ => false

/-- `http.ServeContent` on a 200 response -/
def serveContent (isHead : Bool) (inm : Inm) (r : Resp) : Resp :=
  if inm.matches then { status := 304, hasEtag := r.hasEtag }
  else if isHead then { r with body := [] } else r

/-- `ServeHTTP` -/
def serveHTTP (arch : Str → Option Archive) (publicURL : String) (method : String) (inm : Inm) (p : Str) : Resp :=
  if method ≠ "GET" ∧ method ≠ "HEAD" then { status := 405 }
  else
    let r := getResp arch publicURL p
    if r.status = 200 then serveContent (method == "HEAD") inm r
    else if method == "HEAD" then { r with body := [] } else r

end Pm.Http
