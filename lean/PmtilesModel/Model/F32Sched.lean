import PmtilesModel.Model.Build
/-!
# The leaf-size schedule of `optimizeDirectories`, bit-exact (`pmtiles/directory.go`)

```go
var leafSize float32
leafSize = float32(len(entries)) / 3500
if leafSize < 4096 { leafSize = 4096 }
for {
    … buildRootsLeaves(entries, int(leafSize), compression) …
    leafSize *= 1.2
}
```

A finite positive normal IEEE-754 binary32 number is `m · 2^(e-23)` with `2^23 ≤ m < 2^24`.
After the clamp the variable is at least `4096 = 2^12`, so `e ≥ 12` throughout.  The constant
`1.2` is converted to binary32 at compile time: `0x3F99999A = 10066330 · 2^-23`.  The product of
two 24-bit significands is exact in 48 bits and is rounded to nearest, ties to even
(`rneShift`); `int(leafSize)` truncates toward zero (`trunc`).  Nothing here is a parameter: the
functions compute the very bits Go computes (tie: `f32sched` lines of the C05 check compare
`math.Float32bits` of Go's `leafSize *= 1.2` and `int(leafSize)` with these definitions).

The exponent is an unbounded `Nat`: overflow to `+Inf` (e > 127, leaf sizes above 3·10^38) is not
modelled — `optimizeDirectories` returns at the latest when the leaf size reaches
`len(entries) < 2^63` (`Pm.C05.opt_terminates_f32`).
-/
namespace Pm.F32

structure F32 where
  m : Nat
  e : Nat
deriving Repr, DecidableEq

def Normal (x : F32) : Prop := 8388608 ≤ x.m ∧ x.m < 16777216

/-- the float32 nearest to 1.2 is `C12 · 2^-23` -/
def C12 : Nat := 10066330

/-- `p / 2^k` rounded to nearest, ties to even -/
def rneShift (p k : Nat) : Nat :=
  let q := p / 2 ^ k
  let r := p % 2 ^ k
  let h := 2 ^ (k - 1)
  if h < r ∨ (r = h ∧ q % 2 = 1) then q + 1 else q

/-- rounding may carry into the next binade -/
def norm (m e : Nat) : F32 := if m = 16777216 then ⟨8388608, e + 1⟩ else ⟨m, e⟩

/-- `leafSize *= 1.2` -/
def mul12 (x : F32) : F32 :=
  let p := x.m * C12
  if p < 140737488355328 then norm (rneShift p 23) x.e else norm (rneShift p 24) (x.e + 1)

/-- 4096 -/
def f4096 : F32 := ⟨8388608, 12⟩

/-- `int(leafSize)` -/
def trunc (x : F32) : Nat := if 23 ≤ x.e then x.m * 2 ^ (x.e - 23) else x.m / 2 ^ (23 - x.e)

/-- `a / b` rounded to nearest, ties to even -/
def rneDiv (a b : Nat) : Nat :=
  let q := a / b
  let r := a % b
  if b < 2 * r ∨ (2 * r = b ∧ q % 2 = 1) then q + 1 else q

/-- the float32 nearest to the rational `num / den` (for `num / den ≥ 1`; below 1 the result has
    exponent field 0 and is only ever compared with 4096) -/
def ofRat (num den : Nat) : F32 :=
  let e := Nat.log2 (num / den)
  if e ≤ 23 then norm (rneDiv (num * 2 ^ (23 - e)) den) e
  else norm (rneDiv num (den * 2 ^ (e - 23))) e

/-- `float32(len(entries))` -/
def ofNat (n : Nat) : F32 := ofRat n 1

/-- `x / 3500` in float32 -/
def div3500 (x : F32) : F32 :=
  if 23 ≤ x.e then ofRat (x.m * 2 ^ (x.e - 23)) 3500 else ofRat x.m (3500 * 2 ^ (23 - x.e))

/-- `leafSize = float32(len(entries)) / 3500; if leafSize < 4096 { leafSize = 4096 }` -/
def init (n : Nat) : F32 :=
  let y := div3500 (ofNat n)
  if y.e < 12 then f4096 else y

def iter (k : Nat) (x : F32) : F32 := (List.range k).foldl (fun a _ => mul12 a) x

/-- IEEE bits of a normal value (sign 0, biased exponent, 23 stored fraction bits) -/
def bits (x : F32) : Nat := (x.e + 127) * 8388608 + (x.m - 8388608)

def ofBits (b : Nat) : F32 := ⟨b % 8388608 + 8388608, b / 8388608 - 127⟩

/-- the loop of `optimizeDirectories` over the float32 state -/
def optimizeLoopF (ser : List Entry → Bytes) (budget : Nat) (es : List Entry) : Nat → F32 → Option Build.Built
  | 0, _ => none
  | fuel+1, x =>
    let b := Build.buildRootsLeaves ser es (trunc x)
    if b.rootBytes.length ≤ budget then some b else optimizeLoopF ser budget es fuel (mul12 x)

/-- ghost: the leaf sizes `int(leafSize)` the loop hands to `buildRootsLeaves`, in order -/
def triedF (ser : List Entry → Bytes) (budget : Nat) (es : List Entry) : Nat → F32 → List Nat
  | 0, _ => []
  | fuel+1, x =>
    let b := Build.buildRootsLeaves ser es (trunc x)
    if b.rootBytes.length ≤ budget then [trunc x] else trunc x :: triedF ser budget es fuel (mul12 x)

/-- `optimizeDirectories` with its own schedule, started from the clamped initial value `x0` -/
def optimizeF (ser : List Entry → Bytes) (budget : Nat) (es : List Entry) (x0 : F32) (fuel : Nat) : Option Build.Built :=
  if es.length < 16384 ∧ (ser es).length ≤ budget then
    some { rootBytes := ser es, leavesBytes := [], numLeaves := 0, rootEntries := es }
  else optimizeLoopF ser budget es fuel x0

end Pm.F32
