/-!
# Bytes and little-endian integers (shared model component, DESIGN §3.1)

A byte string is a `List Nat` whose elements are `< 256` (predicate `IsBytes`); this keeps
`omega` usable.  `le k n` = `k` little-endian bytes of `n`, `unle` the inverse.
-/
namespace Pm

abbrev Bytes := List Nat

def IsBytes (b : Bytes) : Prop := ∀ x ∈ b, x < 256

def le : Nat → Nat → Bytes
  | 0, _ => []
  | k+1, n => n % 256 :: le k (n / 256)

def unle : Bytes → Nat
  | [] => 0
  | b :: r => b + 256 * unle r

/-- `int32 → uint32` and back (two's complement) -/
def ofI32 (v : Int) : Nat := (v % 2^32).toNat
def toI32 (u : Nat) : Int := if u < 2^31 then (u : Int) else (u : Int) - 2^32

/-- `d[off : off+w]` -/
def slice (d : Bytes) (off w : Nat) : Bytes := (d.drop off).take w

end Pm
