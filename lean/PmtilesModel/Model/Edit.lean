import PmtilesModel.Model.Header
/-!
# Model of `Edit` (`pmtiles/edit.go`) and of `headerToJson` (`directory.go`)

An archive is its header plus the four sections.  Degrees are decimals `num / 10^scale`
(what the JSON text says); the executable model converts them to E7 by exact rational rounding
(half away from zero) — Proofs/Rounding.lean shows that Go's float64 path
`math.Round(parse(s) * 1e7)` computes the same value for every decimal with ≤ 7 places.

File-system effects are an explicit operation list (`FsOp`); a crash is "apply a prefix".
-/
namespace Pm.Edit
open Pm Pm.Header

structure Arch where
  header : Header
  root : Bytes
  metadata : Bytes
  leaves : Bytes
  tiles : Bytes
deriving Repr

/-- section lengths declared by the header are those of the sections (offsets may leave gaps) -/
def LengthsMatch (a : Arch) : Prop :=
  a.header.rootLength = a.root.length ∧ a.header.metadataLength = a.metadata.length ∧
  a.header.leafDirectoryLength = a.leaves.length ∧ a.header.tileDataLength = a.tiles.length

/-- the archive file: header followed by the four sections -/
def fileOf (a : Arch) : Bytes := serializeHeader a.header ++ a.root ++ a.metadata ++ a.leaves ++ a.tiles

/-- extend with zeros up to `off`, then append `b` (sections laid out in ascending offset order) -/
def placeAt (f : Bytes) (off : Nat) (b : Bytes) : Bytes := f ++ List.replicate (off - f.length) 0 ++ b

/-- the archive file with every section at the offset its header declares (gaps zero-filled);
    equals `fileOf` for contiguous archives -/
def layoutFile (a : Arch) : Bytes :=
  placeAt (placeAt (placeAt (placeAt (serializeHeader a.header) a.header.rootOffset a.root)
    a.header.metadataOffset a.metadata) a.header.leafDirectoryOffset a.leaves) a.header.tileDataOffset a.tiles

/-- sections contiguous from byte 127, as every writer of this tool lays them out -/
def Contig (a : Arch) : Prop :=
  a.header.rootOffset = 127 ∧ a.header.rootLength = a.root.length ∧
  a.header.metadataOffset = 127 + a.root.length ∧ a.header.metadataLength = a.metadata.length ∧
  a.header.leafDirectoryOffset = 127 + a.root.length + a.metadata.length ∧ a.header.leafDirectoryLength = a.leaves.length ∧
  a.header.tileDataOffset = 127 + a.root.length + a.metadata.length + a.leaves.length ∧ a.header.tileDataLength = a.tiles.length

/-- a decimal `num / 10^scale` converted to E7, rounding half away from zero (exact arithmetic) -/
def e7OfDecimal (num : Int) (scale : Nat) : Int :=
  let p := num * 10^7          -- value * 10^7 * 10^scale
  let d : Int := 10^scale
  if 0 ≤ p then (2 * p + d) / (2 * d) else -((2 * (-p) + d) / (2 * d))

def stringToTileType : String → Nat
  | "mvt" => 1 | "png" => 2 | "jpg" => 3 | "webp" => 4 | "avif" => 5 | _ => 0

def stringToCompression : String → Nat
  | "none" => 1 | "gzip" => 2 | "br" => 3 | "zstd" => 4 | _ => 0

def tileTypeToString : Nat → String
  | 1 => "mvt" | 2 => "png" | 3 => "jpg" | 4 => "webp" | 5 => "avif" | _ => ""

def compressionToString : Nat → String
  | 1 => "none" | 2 => "gzip" | 3 => "br" | 4 => "zstd" | _ => "unknown"

/-- the editable part of the header as `--header-json` supplies it (coordinates already as E7) -/
structure HeaderEdit where
  tileType : String
  tileCompression : String
  minZoom : Nat
  maxZoom : Nat
  bounds : Int × Int × Int × Int
  center : Int × Int × Nat
deriving Repr

def applyHeaderEdit (h : Header) (e : HeaderEdit) : Header :=
  { h with tileType := stringToTileType e.tileType, tileCompression := stringToCompression e.tileCompression,
           minZoom := e.minZoom % 256, maxZoom := e.maxZoom % 256,
           minLonE7 := e.bounds.1, minLatE7 := e.bounds.2.1, maxLonE7 := e.bounds.2.2.1, maxLatE7 := e.bounds.2.2.2,
           centerLonE7 := e.center.1, centerLatE7 := e.center.2.1, centerZoom := e.center.2.2 % 256 }

/-- what `show --header-json` prints of a header (`headerToJson`), coordinates kept as E7 -/
def headerToEdit (h : Header) : HeaderEdit :=
  { tileType := tileTypeToString h.tileType, tileCompression := compressionToString h.tileCompression,
    minZoom := h.minZoom, maxZoom := h.maxZoom,
    bounds := (h.minLonE7, h.minLatE7, h.maxLonE7, h.maxLatE7),
    center := (h.centerLonE7, h.centerLatE7, h.centerZoom) }

/-- header-only edit: the header is rewritten in place -/
def editHeaderOnly (a : Arch) (e : HeaderEdit) : Arch := { a with header := applyHeaderEdit a.header e }

/-- edit with new metadata bytes (`metaBytes` = SerializeMetadata of the supplied object under the
    archive's internal compression): sections are copied, offsets recomputed -/
def editWithMetadata (a : Arch) (e : Option HeaderEdit) (metaBytes : Bytes) : Arch :=
  let h1 := match e with | some e => applyHeaderEdit a.header e | none => a.header
  let mo := 127 + h1.rootLength
  { a with metadata := metaBytes,
           header := { h1 with rootOffset := 127, metadataOffset := mo, metadataLength := metaBytes.length,
                               leafDirectoryOffset := mo + metaBytes.length,
                               tileDataOffset := mo + metaBytes.length + h1.leafDirectoryLength } }

/-! ## file-system operations -/

inductive FsOp
  | create (p : String)
  | append (p : String) (b : Bytes)
  | pwrite (p : String) (off : Nat) (b : Bytes)     -- atomic for sub-page writes (assumption)
  | rename (src dst : String)                        -- atomic (assumption)
deriving Repr

abbrev Fs := String → Option Bytes

def applyOp (fs : Fs) : FsOp → Fs
  | .create p => fun q => if q = p then some [] else fs q
  | .append p b => fun q => if q = p then (fs p).map (· ++ b) else fs q
  | .pwrite p off b => fun q => if q = p then (fs p).map (fun c => c.take off ++ b ++ c.drop (off + b.length)) else fs q
  | .rename s d => fun q => if q = d then fs s else if q = s then none else fs q

def applyOps (fs : Fs) (ops : List FsOp) : Fs := ops.foldl applyOp fs

/-- the operations of the metadata path: temp file written section by section, then renamed over the archive -/
def metadataOps (path : String) (out : Arch) : List FsOp :=
  let tmp := path ++ ".tmp"
  [.create tmp, .append tmp (serializeHeader out.header), .append tmp out.root, .append tmp out.metadata,
   .append tmp out.leaves, .append tmp out.tiles, .rename tmp path]

/-- the operations of the header-only path -/
def headerOps (path : String) (out : Arch) : List FsOp := [.pwrite path 0 (serializeHeader out.header)]

end Pm.Edit
