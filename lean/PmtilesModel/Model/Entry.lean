/-! Directory entry (`EntryV3`): `TileID, Offset : uint64`, `Length, RunLength : uint32`. -/
namespace Pm

structure Entry where
  id : Nat
  off : Nat
  len : Nat
  rl : Nat
deriving Repr, DecidableEq, Inhabited

def W : Nat := 2^64

/-- fields within their Go types; `off < 2^64 - 1` because the wire stores `off + 1` -/
def Entry.InRange (e : Entry) : Prop := e.id < W ∧ e.off < W - 1 ∧ e.len < 2^32 ∧ e.rl < 2^32

instance (e : Entry) : Decidable e.InRange := by unfold Entry.InRange; infer_instance

end Pm
