import PmtilesModel.Spec.Hilbert
/-!
# Model of `pmtiles/tile_id.go`

Operation-by-operation model of `rotate`, `ZxyToID`, `IDToZxy`, `ParentID` with the
machine-integer behaviour made explicit (`uint32` wrap as `% 2^32`, `uint64` as `% 2^64`).
-/
namespace Pm.TileId
open Pm.Hilbert

def M32 : Nat := 2^32

/-- `rotate(n, x, y, rx, ry)` on `uint32` (the subtraction `n-1-x` wraps). -/
def goRotate (n x y rx ry : Nat) : Nat × Nat :=
  if ry = 0 then
    if rx ≠ 0 then ((n - 1 + M32 - y) % M32, (n - 1 + M32 - x) % M32) else (y, x)
  else (x, y)

/-- the loop of `ZxyToID`: `k+1` iterations remaining, `s = 2^k`, `n = k`. -/
def goZxyLoop : Nat → Nat → Nat → Nat → Nat
  | 0, _, _, acc => acc
  | k+1, x, y, acc =>
    let s := 2^k
    let rx := s &&& x
    let ry := s &&& y
    let acc' := (acc + ((((3 * rx) % M32) ^^^ ry) <<< k)) % 2^64
    let p := goRotate s x y rx ry
    goZxyLoop k p.1 p.2 acc'

/-- `ZxyToID(z, x, y)` for `z ≤ 31` (`(1<<(2z) - 1)/3 = base z`). -/
def goZxyToID (z x y : Nat) : Nat := goZxyLoop z x y (base z)

/-- the loop of `IDToZxy`, ascending `a`, consuming base-4 digits of `t` low to high. -/
def goIdLoop : Nat → Nat → Nat → Nat → Nat → Nat × Nat   -- remaining, a, t, tx, ty
  | 0, _, _, tx, ty => (tx, ty)
  | n+1, a, t, tx, ty =>
    let s := 2^a
    let rx := 1 &&& ((t % M32) >>> 1)
    let ry := 1 &&& ((t % M32) ^^^ rx)
    let p := goRotate s tx ty rx ry
    goIdLoop n (a+1) (t >>> 2) ((p.1 + rx <<< a) % M32) ((p.2 + ry <<< a) % M32)

/-- Go: `uint8(bits.Len64(3*i+1)-1) / 2`; `Len64 x - 1 = log2 x` for `x > 0`. -/
def goZoom (i : Nat) : Nat := (3 * i + 1).log2 / 2

def goIDToZxy (i : Nat) : Nat × Nat × Nat :=
  let z := goZoom i
  let p := goIdLoop z 0 (i - base z) 0 0
  (z, p.1, p.2)

def goParentID (i : Nat) : Nat :=
  let z := goZoom i
  base (z - 1) + (i - base z) / 4

end Pm.TileId
