import PmtilesModel.Model.Bytes
/-!
# Model of the bucket backends (`pmtiles/bucket.go`)

An object is its bytes plus the version tag the backend reports for it (in-memory: hash of the
content; local file: hash of mtime and size; HTTP: the origin's ETag).  `cond` is the tag a
conditional read presents (`none` = unconditioned).
-/
namespace Pm.Bucket
open Pm

inductive Outcome
  | ok (data : Bytes)
  | refresh            -- RefreshRequiredError (412 / 416)
  | err                -- ordinary error
deriving Repr, DecidableEq

structure Obj where
  bytes : Bytes
  tag : Nat

/-- in-memory backend (`mockBucket.NewRangeReaderEtag`) -/
def readMem (o : Option Obj) (off len : Nat) (cond : Option Nat) : Outcome :=
  match o with
  | none => .err
  | some o =>
    if cond.isSome ∧ cond ≠ some o.tag then .refresh
    else if off ≥ o.bytes.length then .refresh
    else .ok (slice o.bytes off (min (off + len) o.bytes.length - off))

/-- local-directory backend (`FileBucket.NewRangeReaderEtag`, key already accepted by the guard):
    `ReadAt` semantics — a read reaching EOF returns the bytes before it -/
def readFile (o : Option Obj) (off len : Nat) (cond : Option Nat) : Outcome :=
  match o with
  | none => .err
  | some o =>
    if cond.isSome ∧ cond ≠ some o.tag then .refresh
    else .ok (slice o.bytes off len)

/-- a small RFC 7233 origin: `If-Match` precondition, then the byte range `off..off+len-1` -/
def originStatus (o : Option Obj) (off : Nat) (cond : Option Nat) : Nat :=
  match o with
  | none => 404
  | some o =>
    if cond.isSome ∧ cond ≠ some o.tag then 412
    else if off ≥ o.bytes.length then 416
    else 206

def isRefreshCode (c : Nat) : Bool := c == 412 || c == 416

/-- HTTP backend against that origin (`len ≥ 1`); `up = false` is a transport failure -/
def readHttp (up : Bool) (o : Option Obj) (off len : Nat) (cond : Option Nat) : Outcome :=
  if !up then .err else
  let st := originStatus o off cond
  if st = 200 ∨ st = 206 then
    match o with
    | some o => .ok (slice o.bytes off (min (off + len) o.bytes.length - off))
    | none => .err
  else if isRefreshCode st then .refresh else .err

end Pm.Bucket
