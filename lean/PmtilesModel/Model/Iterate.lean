import PmtilesModel.Spec.ReaderSpec
/-!
# Model of `IterateEntries` (`directory.go`), with the error propagation of the D1 fix

`iterate fetch d dir` = the visit sequence, or `none` when a fetch failed.  Go's recursion is
unbounded; the model is bounded by `d` leaf levels (at depth 0 a pointer cannot be followed —
well-formed archives of depth ≤ d never get there, theorem `iterate_ok`).
-/
namespace Pm.Reader

def iterAux (fetch : Fetch) (sub : List Entry → Option (List Entry)) : List Entry → Option (List Entry)
  | [] => some []
  | e :: es =>
    if 0 < e.rl then
      match iterAux fetch sub es with
      | none => none
      | some r => some (e :: r)
    else
      match fetch e.off e.len with
      | none => none                       -- fetch error is returned
      | some es' =>
        match sub es' with
        | none => none                     -- the recursive call's error is propagated (the fix)
        | some l =>
          match iterAux fetch sub es with
          | none => none
          | some r => some (l ++ r)

def iterate (fetch : Fetch) : Nat → List Entry → Option (List Entry)
  | 0 => iterAux fetch (fun _ => none)
  | d+1 => iterAux fetch (iterate fetch d)

/-- `IterateEntries(header, fetch, op)`: the root directory is fetched first -/
def iterateArchive (root : Option (List Entry)) (fetch : Fetch) (d : Nat) : Option (List Entry) :=
  match root with
  | none => none
  | some r => iterate fetch d r

/-- all leaf-directory ranges of the tree (the fetch positions below the root) -/
def ptrsAux (fetch : Fetch) (sub : List Entry → List (Nat × Nat)) : List Entry → List (Nat × Nat)
  | [] => []
  | e :: es =>
    (if 0 < e.rl then [] else
      (e.off, e.len) :: (match fetch e.off e.len with
        | none => []
        | some es' => sub es')) ++ ptrsAux fetch sub es

def ptrs (fetch : Fetch) : Nat → List Entry → List (Nat × Nat)
  | 0 => ptrsAux fetch (fun _ => [])
  | d+1 => ptrsAux fetch (ptrs fetch d)

end Pm.Reader
