import PmtilesModel.Model.Bytes
/-! Model of Go's `binary.PutUvarint` / `binary.ReadUvarint` (incl. the 10-byte overflow rule). -/
namespace Pm

def putUvarint (x : Nat) : Bytes :=
  if h : x < 128 then [x] else (x % 128 + 128) :: putUvarint (x / 128)
termination_by x
decreasing_by omega

/-- `i` = index of the current byte, `acc` = value so far; `none` on EOF / overflow -/
def readUvarintAux : (bs : Bytes) → (i : Nat) → (acc : Nat) → Option (Nat × Bytes)
  | [], _, _ => none
  | b :: rest, i, acc =>
    if i = 10 then none else
    if b < 128 then
      if i = 9 ∧ b > 1 then none else some (acc + b * 2^(7*i), rest)
    else readUvarintAux rest (i+1) (acc + (b % 128) * 2^(7*i))

def readUvarint (bs : Bytes) := readUvarintAux bs 0 0

def putAll : List Nat → Bytes
  | [] => []
  | x :: xs => putUvarint x ++ putAll xs

def readN : Nat → Bytes → Option (List Nat × Bytes)
  | 0, bs => some ([], bs)
  | n+1, bs =>
    match readUvarint bs with
    | none => none
    | some (x, r) =>
      match readN n r with
      | none => none
      | some (xs, r') => some (x :: xs, r')

end Pm
