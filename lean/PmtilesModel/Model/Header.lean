import PmtilesModel.Model.Bytes
/-!
# Model of `SerializeHeader` / `DeserializeHeader` (`pmtiles/directory.go`)

The header is a record of 25 fields; after the 7-byte magic and the version byte come 24
fixed-width little-endian fields.  `fieldWidths` is the wire layout (regenerated and checked
against the Go source by the facts extractor); signed E7 fields are stored two's complement.
-/
namespace Pm.Header

structure Header where
  specVersion : Nat := 0
  rootOffset : Nat := 0
  rootLength : Nat := 0
  metadataOffset : Nat := 0
  metadataLength : Nat := 0
  leafDirectoryOffset : Nat := 0
  leafDirectoryLength : Nat := 0
  tileDataOffset : Nat := 0
  tileDataLength : Nat := 0
  addressedTilesCount : Nat := 0
  tileEntriesCount : Nat := 0
  tileContentsCount : Nat := 0
  clustered : Bool := false
  internalCompression : Nat := 0
  tileCompression : Nat := 0
  tileType : Nat := 0
  minZoom : Nat := 0
  maxZoom : Nat := 0
  minLonE7 : Int := 0
  minLatE7 : Int := 0
  maxLonE7 : Int := 0
  maxLatE7 : Int := 0
  centerZoom : Nat := 0
  centerLonE7 : Int := 0
  centerLatE7 : Int := 0
deriving DecidableEq, Repr

/-- "PMTiles" -/
def magic : Bytes := [80, 77, 84, 105, 108, 101, 115]

/-- widths of the 24 fields that follow magic and version, in wire order -/
def fieldWidths : List Nat := [8,8,8,8,8,8,8,8,8,8,8, 1,1,1,1,1,1, 4,4,4,4, 1, 4,4]

def encFields : List Nat → List Nat → Bytes
  | w :: ws, v :: vs => le w v ++ encFields ws vs
  | _, _ => []

def decFields : List Nat → Bytes → List Nat
  | [], _ => []
  | w :: ws, d => unle (d.take w) :: decFields ws (d.drop w)

def toVals (h : Header) : List Nat :=
  [h.rootOffset, h.rootLength, h.metadataOffset, h.metadataLength, h.leafDirectoryOffset,
   h.leafDirectoryLength, h.tileDataOffset, h.tileDataLength, h.addressedTilesCount,
   h.tileEntriesCount, h.tileContentsCount,
   (if h.clustered then 1 else 0), h.internalCompression, h.tileCompression, h.tileType,
   h.minZoom, h.maxZoom,
   ofI32 h.minLonE7, ofI32 h.minLatE7, ofI32 h.maxLonE7, ofI32 h.maxLatE7,
   h.centerZoom, ofI32 h.centerLonE7, ofI32 h.centerLatE7]

def ofVals (ver : Nat) : List Nat → Option Header
  | [a1,a2,a3,a4,a5,a6,a7,a8,a9,a10,a11, c, ic, tc, tt, mn, mx, b1,b2,b3,b4, cz, c1,c2] =>
    some { specVersion := ver, rootOffset := a1, rootLength := a2, metadataOffset := a3,
           metadataLength := a4, leafDirectoryOffset := a5, leafDirectoryLength := a6,
           tileDataOffset := a7, tileDataLength := a8, addressedTilesCount := a9,
           tileEntriesCount := a10, tileContentsCount := a11,
           clustered := (c == 1), internalCompression := ic, tileCompression := tc, tileType := tt,
           minZoom := mn, maxZoom := mx,
           minLonE7 := toI32 b1, minLatE7 := toI32 b2, maxLonE7 := toI32 b3, maxLatE7 := toI32 b4,
           centerZoom := cz, centerLonE7 := toI32 c1, centerLatE7 := toI32 c2 }
  | _ => none

/-- `SerializeHeader`: always writes version 3. -/
def serializeHeader (h : Header) : Bytes :=
  magic ++ [3] ++ encFields fieldWidths (toVals h)

inductive HdrErr | badMagic | badVersion | short
deriving DecidableEq, Repr

/-- `DeserializeHeader(d)`; Go panics (slice bounds) when `len(d) < 127` — reported as `short`. -/
def deserializeHeader (d : Bytes) : Except HdrErr Header :=
  if d.length < 127 then .error .short
  else if d.take 7 ≠ magic then .error .badMagic
  else
    let v := (d.drop 7).headD 0
    if v > 3 then .error .badVersion
    else match ofVals v (decFields fieldWidths (d.drop 8)) with
      | some h => .ok h
      | none => .error .short

/-- every field within the range of its Go type -/
def InRange (h : Header) : Prop :=
  h.rootOffset < 2^64 ∧ h.rootLength < 2^64 ∧ h.metadataOffset < 2^64 ∧ h.metadataLength < 2^64 ∧
  h.leafDirectoryOffset < 2^64 ∧ h.leafDirectoryLength < 2^64 ∧ h.tileDataOffset < 2^64 ∧
  h.tileDataLength < 2^64 ∧ h.addressedTilesCount < 2^64 ∧ h.tileEntriesCount < 2^64 ∧
  h.tileContentsCount < 2^64 ∧
  h.internalCompression < 256 ∧ h.tileCompression < 256 ∧ h.tileType < 256 ∧
  h.minZoom < 256 ∧ h.maxZoom < 256 ∧ h.centerZoom < 256 ∧
  (-(2^31) ≤ h.minLonE7 ∧ h.minLonE7 < 2^31) ∧ (-(2^31) ≤ h.minLatE7 ∧ h.minLatE7 < 2^31) ∧
  (-(2^31) ≤ h.maxLonE7 ∧ h.maxLonE7 < 2^31) ∧ (-(2^31) ≤ h.maxLatE7 ∧ h.maxLatE7 < 2^31) ∧
  (-(2^31) ≤ h.centerLonE7 ∧ h.centerLonE7 < 2^31) ∧ (-(2^31) ≤ h.centerLatE7 ∧ h.centerLatE7 < 2^31)

instance (h : Header) : Decidable (InRange h) := by unfold InRange; infer_instance

end Pm.Header
