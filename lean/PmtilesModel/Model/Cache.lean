/-!
# Model of the server's event loop bookkeeping (`server.go`, `Start`)

The loop owns `cache` (a map key → list element), `evictList` (front = most recent), `totalSize`
and `inflight` (key → waiting requests).  The model keeps the code's exact structure: the map
domain is a duplicate-free key list, the eviction list holds `(key, size, valueTag)` elements and
MAY hold two elements for one key (a re-inserted key leaves an orphan element; eviction deletes
the map entry by the orphan's key) — transparency must not depend on this.

Keys are `(name, etag, offset, length)`.
-/
namespace Pm.Cache

structure Key where
  name : String
  etag : String
  off : Nat
  len : Nat
deriving DecidableEq, Repr

structure Elem where
  key : Key
  size : Nat
  vtag : String          -- etag stored in the cached value
deriving DecidableEq, Repr

structure St where
  cache : List Elem           -- map: at most one element per key (the one the map points to)
  evict : List Elem           -- front = most recently used
  total : Int
  inflight : List (Key × Nat) -- key ↦ number of waiters
deriving Repr

def init : St := { cache := [], evict := [], total := 0, inflight := [] }

def sumSizes : List Elem → Int
  | [] => 0
  | e :: r => (e.size : Int) + sumSizes r

def cached (s : St) (k : Key) : Option Elem := s.cache.find? (fun e => e.key == k)

/-- remove ONE occurrence (the element the map pointed to) -/
def eraseElem (e : Elem) : List Elem → List Elem
  | [] => []
  | x :: r => if x = e then r else x :: eraseElem e r

/-- the purge of a request carrying `purgeEtag` (`for k, v := range cache { … }`) -/
def purge (s : St) (name purgeTag : String) : St :=
  let doomed := s.cache.filter (fun e => e.key.name == name && (e.key.etag == purgeTag || e.vtag == purgeTag))
  doomed.foldl (fun s e => { s with cache := s.cache.filter (· ≠ e), evict := eraseElem e s.evict, total := s.total - e.size }) s

inductive ReqOutcome | hit | join | miss
deriving DecidableEq, Repr

/-- `case req := <-server.reqs` -/
def onReq (s : St) (k : Key) (purgeTag : String) : St × ReqOutcome :=
  let s := if purgeTag ≠ "" then purge s k.name purgeTag else s
  match cached s k with
  | some e => ({ s with evict := e :: eraseElem e s.evict }, .hit)
  | none =>
    match s.inflight.find? (fun p => p.1 == k) with
    | some _ => ({ s with inflight := s.inflight.map (fun p => if p.1 == k then (p.1, p.2 + 1) else p) }, .join)
    | none => ({ s with inflight := s.inflight ++ [(k, 1)] }, .miss)

/-- the eviction loop: `fuel` = list length + 1 (shown sufficient: every round removes an element) -/
def evictLoop (limit : Int) : Nat → St → St
  | 0, s => s
  | fuel+1, s =>
    if s.total < limit then s else
    match s.evict.getLast? with
    | none => s                                  -- empty list: stop (the eviction fix)
    | some v =>
      evictLoop limit fuel { s with evict := s.evict.dropLast, cache := s.cache.filter (fun e => e.key ≠ v.key),
                                    total := s.total - v.size }

/-- insertion of a successful response (`totalSize += size; PushFront; cache[key] = entry`) -/
def insertOk (s : St) (k : Key) (size : Nat) (vtag : String) : St :=
  { s with total := s.total + size, evict := ⟨k, size, vtag⟩ :: s.evict, cache := ⟨k, size, vtag⟩ :: s.cache.filter (fun x => x.key ≠ k) }

def dropWaiters (s : St) (k : Key) : St := { s with inflight := s.inflight.filter (fun p => p.1 ≠ k) }

/-- `case resp := <-resps` : waiters are answered and forgotten; a successful response is inserted and
    the cache evicted down below the limit -/
def onResp (limit : Int) (s : St) (k : Key) (ok : Bool) (size : Nat) (vtag : String) : St :=
  let s := dropWaiters s k
  if !ok then s else
  let s1 := insertOk s k size vtag
  evictLoop limit (s1.evict.length + 1) s1

def waiters (s : St) : Nat := s.inflight.foldl (fun acc p => acc + p.2) 0

end Pm.Cache
