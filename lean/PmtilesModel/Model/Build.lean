import PmtilesModel.Spec.ReaderSpec
import PmtilesModel.Model.Bytes
/-!
# Model of `buildRootsLeaves` / `optimizeDirectories` (`pmtiles/directory.go`)

`ser` stands for `SerializeEntries(·, compression)` (either compression).  `buildRootsLeaves`
is a function of `(entries, leafSize)`; `optimizeDirectories` is modelled both as the code's
loop over a leaf-size schedule (`optimize`) and relationally (`OptResult`): the property does
not depend on the schedule, only on "some leaf size ≥ 1 whose root fits the budget".
-/
namespace Pm.Build
open Pm Pm.Reader

/-- the cutting loop `for idx := 0; idx < len; idx += leafSize` (fuel = number of entries) -/
def chunksAux : Nat → Nat → List Entry → List (List Entry)
  | 0, _, _ => []
  | _, _, [] => []
  | fuel+1, n, es => es.take n :: chunksAux fuel n (es.drop n)

def chunks (n : Nat) (es : List Entry) : List (List Entry) := chunksAux es.length n es

def headId : List Entry → Nat
  | [] => 0
  | e :: _ => e.id

/-- the loop body over the already-cut chunks, `off` = `len(leavesBytes)` so far -/
def buildGo (ser : List Entry → Bytes) (off : Nat) : List (List Entry) → List Entry × Bytes
  | [] => ([], [])
  | c :: cs =>
    let b := ser c
    let r := buildGo ser (off + b.length) cs
    (⟨headId c, off, b.length, 0⟩ :: r.1, b ++ r.2)

structure Built where
  rootBytes : Bytes
  leavesBytes : Bytes
  numLeaves : Nat
  rootEntries : List Entry      -- ghost: what rootBytes encodes
deriving Repr

def buildRootsLeaves (ser : List Entry → Bytes) (es : List Entry) (leafSize : Nat) : Built :=
  let cs := chunks leafSize es
  let r := buildGo ser 0 cs
  { rootBytes := ser r.1, leavesBytes := r.2, numLeaves := cs.length, rootEntries := r.1 }

/-- `optimizeDirectories(entries, budget, compression)` with the leaf-size schedule as a parameter:
    `ls0` the initial leaf size, `next` the growth step; `fuel` bounds the `for {}` loop -/
def optimizeLoop (ser : List Entry → Bytes) (budget : Nat) (es : List Entry) (next : Nat → Nat) : Nat → Nat → Option Built
  | 0, _ => none
  | fuel+1, ls =>
    let b := buildRootsLeaves ser es ls
    if b.rootBytes.length ≤ budget then some b else optimizeLoop ser budget es next fuel (next ls)

def optimize (ser : List Entry → Bytes) (budget : Nat) (es : List Entry) (ls0 : Nat) (next : Nat → Nat) (fuel : Nat) : Option Built :=
  if es.length < 16384 ∧ (ser es).length ≤ budget then
    some { rootBytes := ser es, leavesBytes := [], numLeaves := 0, rootEntries := es }
  else optimizeLoop ser budget es next fuel ls0

/-- what any run of `optimizeDirectories` returns, whatever the schedule -/
def OptResult (ser : List Entry → Bytes) (budget : Nat) (es : List Entry) (b : Built) : Prop :=
  b.rootBytes.length ≤ budget ∧
  ((b.numLeaves = 0 ∧ b.rootEntries = es ∧ b.rootBytes = ser es ∧ b.leavesBytes = []) ∨
   (∃ ls, 1 ≤ ls ∧ b = buildRootsLeaves ser es ls))

/-- reading a leaf back: offsets are relative to the start of the leaf section -/
def fetchLeaf (de : Bytes → List Entry) (section_ : Bytes) : Fetch := fun o l => some (de (slice section_ o l))

/-- certificate check used by the tie: the decoded root and decoded leaves (with their byte
    lengths) that Go produced are a build result for SOME leaf size and the root fits -/
def certOK (budget rootLen : Nat) (es root : List Entry) (leaves : List (Nat × List Entry)) : Bool :=
  decide (rootLen ≤ budget) &&
  (if leaves.isEmpty then decide (root = es) && decide (es.length < 16384)
   else
     let ls := (leaves.headD (0, [])).2.length
     decide (1 ≤ ls) &&
     decide (chunks ls es = leaves.map (·.2)) &&
     decide (root = (leaves.foldl (fun (acc : Nat × List Entry) l => (acc.1 + l.1, acc.2 ++ [⟨headId l.2, acc.1, l.1, 0⟩])) (0, [])).2))

end Pm.Build
