import PmtilesModel.Model.Header
import PmtilesModel.Model.Entry
import PmtilesModel.Model.TileId
/-!
# Model of `Verify` (`pmtiles/verify.go`, after the D6 fix)

`verify h size es`: `h` the header, `size` the file size, `es` the entries in enumeration
order (what `IterateEntries` visits; enumeration failure is C17's subject).  The checks are
evaluated in the code's order; the first failing one determines the error class.
-/
namespace Pm.Verify
open Pm Pm.Header

inductive VErr
  | zeroOffset | sectionOOB | totalLength | entry | addressed | entries | contents
  | minZoom | maxZoom | centerZoom | bounds
deriving DecidableEq, Repr

def firstErr : List (Bool × VErr) → Option VErr
  | [] => none
  | (c, e) :: r => if c then some e else firstErr r

def sumRl : List Entry → Nat
  | [] => 0
  | e :: r => e.rl + sumRl r

/-- number of distinct offsets (cardinality of the roaring bitmap) -/
def distinctOffsets (es : List Entry) : Nat := (es.map (·.off)).eraseDups.length

def minId : List Entry → Nat
  | [] => 2^64 - 1
  | e :: r => min e.id (minId r)

/-- the last tile an entry addresses: `TileID + RunLength - 1` (uint64), the first one for run lengths ≤ 1 -/
def lastId (e : Entry) : Nat := if e.rl > 1 then (e.id + e.rl - 1) % 2^64 else e.id

/-- the highest addressed tile: the maximum over the ENDS of the runs (a run may reach into the next zoom) -/
def maxId : List Entry → Nat
  | [] => 0
  | e :: r => max (lastId e) (maxId r)

/-- the per-entry loop: `seen` = offsets added so far, `cur` = `currentOffset`; returns whether an
    entry error was recorded (outside the tile data section, or out of order when clustered) -/
def entryLoop (tdl : Nat) (clustered : Bool) : List Nat → Nat → List Entry → Bool
  | _, _, [] => false
  | seen, cur, e :: r =>
    let isNew := !(seen.contains e.off)
    let outside := decide (e.off + e.len > tdl)
    let disorder := clustered && isNew && decide (e.off ≠ cur)
    let cur' := if clustered && isNew then cur + e.len else cur
    outside || disorder || entryLoop tdl clustered (e.off :: seen) cur' r

def verify (h : Header) (size : Nat) (es : List Entry) : Option VErr :=
  firstErr [
    (decide (h.rootOffset = 0), .zeroOffset), (decide (h.metadataOffset = 0), .zeroOffset),
    (decide (h.leafDirectoryOffset = 0), .zeroOffset), (decide (h.tileDataOffset = 0), .zeroOffset),
    (decide (h.rootLength > size), .sectionOOB), (decide (h.metadataLength > size), .sectionOOB),
    (decide (h.leafDirectoryLength > size), .sectionOOB), (decide (h.tileDataLength > size), .sectionOOB),
    (!(decide (size = 127 + h.rootLength + h.metadataLength + h.leafDirectoryLength + h.tileDataLength) ||
       decide (size = 16384 + h.metadataLength + h.leafDirectoryLength + h.tileDataLength)), .totalLength),
    (entryLoop h.tileDataLength h.clustered [] 0 es, .entry),
    (decide (sumRl es ≠ h.addressedTilesCount), .addressed),
    (decide (es.length ≠ h.tileEntriesCount), .entries),
    (decide (distinctOffsets es ≠ h.tileContentsCount), .contents),
    (decide (TileId.goZoom (minId es) ≠ h.minZoom), .minZoom),
    (decide (TileId.goZoom (maxId es) ≠ h.maxZoom), .maxZoom),
    (!(decide (h.minZoom ≤ h.centerZoom) && decide (h.centerZoom ≤ h.maxZoom)), .centerZoom),
    (decide (h.minLonE7 ≥ h.maxLonE7) || decide (h.minLatE7 ≥ h.maxLatE7), .bounds)]

end Pm.Verify
