import PmtilesModel.Model.Bytes
/-!
# XXH64 (seed 0), executable

Only used by the driver so that the model can produce the bytes of a `.sync` file and decide
which blocks match; every theorem about sync treats the hash as an arbitrary function
`hashFn : Bytes → Nat` (and names collision-freedom as an explicit hypothesis).  The tie compares
this implementation with `github.com/cespare/xxhash/v2` through the `.sync` files.
-/
namespace Pm.XXHash

def P1 : UInt64 := 11400714785074694791
def P2 : UInt64 := 14029467366897019727
def P3 : UInt64 := 1609587929392839161
def P4 : UInt64 := 9650029242287828579
def P5 : UInt64 := 2870177450012600261

@[inline] def rotl (x : UInt64) (r : UInt64) : UInt64 := (x <<< r) ||| (x >>> (64 - r))

@[inline] def round (acc input : UInt64) : UInt64 := rotl (acc + input * P2) 31 * P1

@[inline] def mergeRound (acc v : UInt64) : UInt64 := (acc ^^^ round 0 v) * P1 + P4

def leU (bs : List Nat) : UInt64 := UInt64.ofNat (unle bs)

/-- the four-lane loop over 32-byte stripes; returns the lanes and the unconsumed tail -/
def stripes : Nat → List Nat → UInt64 → UInt64 → UInt64 → UInt64 → (UInt64 × UInt64 × UInt64 × UInt64 × List Nat)
  | 0, d, v1, v2, v3, v4 => (v1, v2, v3, v4, d)
  | n+1, d, v1, v2, v3, v4 =>
    stripes n (d.drop 32) (round v1 (leU (d.take 8))) (round v2 (leU ((d.drop 8).take 8)))
      (round v3 (leU ((d.drop 16).take 8))) (round v4 (leU ((d.drop 24).take 8)))

def tail8 : Nat → List Nat → UInt64 → UInt64 × List Nat
  | 0, d, h => (h, d)
  | n+1, d, h => tail8 n (d.drop 8) (rotl (h ^^^ round 0 (leU (d.take 8))) 27 * P1 + P4)

def tail1 : List Nat → UInt64 → UInt64
  | [], h => h
  | b :: d, h => tail1 d (rotl (h ^^^ (UInt64.ofNat b * P5)) 11 * P1)

def xxh64 (data : List Nat) : Nat :=
  let n := data.length
  let (h0, rest) :=
    if n ≥ 32 then
      let (v1, v2, v3, v4, rest) := stripes (n / 32) data (P1 + P2) P2 0 (0 - P1)
      let h := rotl v1 1 + rotl v2 7 + rotl v3 12 + rotl v4 18
      (mergeRound (mergeRound (mergeRound (mergeRound h v1) v2) v3) v4, rest)
    else (P5, data)
  let h1 := h0 + UInt64.ofNat n
  let (h2, rest2) := tail8 (rest.length / 8) rest h1
  let (h3, rest3) :=
    if rest2.length ≥ 4 then (rotl (h2 ^^^ (leU (rest2.take 4) * P1)) 23 * P2 + P3, rest2.drop 4) else (h2, rest2)
  let h4 := tail1 rest3 h3
  let h5 := (h4 ^^^ (h4 >>> 33)) * P2
  let h6 := (h5 ^^^ (h5 >>> 29)) * P3
  (h6 ^^^ (h6 >>> 32)).toNat

end Pm.XXHash
