def hello := "world"
