/-!
# Specification: PMTiles v3 header layout (from the specification text, §3 "Header")

`(name, offset, width, signed)` for every field after the magic number (bytes 0–6,
"PMTiles") and the version byte (byte 7, value 3).  Total length 127 bytes.
-/
namespace Pm.HeaderLayout

structure Field where
  name : String
  offset : Nat
  width : Nat
  signed : Bool
deriving DecidableEq, Repr

def v3 : List Field := [
  ⟨"RootOffset", 8, 8, false⟩, ⟨"RootLength", 16, 8, false⟩,
  ⟨"MetadataOffset", 24, 8, false⟩, ⟨"MetadataLength", 32, 8, false⟩,
  ⟨"LeafDirectoryOffset", 40, 8, false⟩, ⟨"LeafDirectoryLength", 48, 8, false⟩,
  ⟨"TileDataOffset", 56, 8, false⟩, ⟨"TileDataLength", 64, 8, false⟩,
  ⟨"AddressedTilesCount", 72, 8, false⟩, ⟨"TileEntriesCount", 80, 8, false⟩,
  ⟨"TileContentsCount", 88, 8, false⟩,
  ⟨"Clustered", 96, 1, false⟩, ⟨"InternalCompression", 97, 1, false⟩,
  ⟨"TileCompression", 98, 1, false⟩, ⟨"TileType", 99, 1, false⟩,
  ⟨"MinZoom", 100, 1, false⟩, ⟨"MaxZoom", 101, 1, false⟩,
  ⟨"MinLonE7", 102, 4, true⟩, ⟨"MinLatE7", 106, 4, true⟩,
  ⟨"MaxLonE7", 110, 4, true⟩, ⟨"MaxLatE7", 114, 4, true⟩,
  ⟨"CenterZoom", 118, 1, false⟩,
  ⟨"CenterLonE7", 119, 4, true⟩, ⟨"CenterLatE7", 123, 4, true⟩ ]

def headerLen : Nat := 127
def magic : List Nat := [0x50, 0x4D, 0x54, 0x69, 0x6C, 0x65, 0x73]
def version : Nat := 3

end Pm.HeaderLayout
