import PmtilesModel.Model.Entry
/-!
# Specification: what an archive's directory tree *means* (DESIGN §3.4)

`Fetch off len` is "the decoded directory stored at that range of the leaf section" (slice ∘
decompress ∘ decode), `none` when it cannot be read.  No tree datatype: everything is defined
by recursion on a depth bound.

* `flatten fetch d root` — the entries in enumeration order (tile entries; leaf pointers
  replaced by their leaf's entries, recursively, to depth `d`);
* `lookupFlat` — the tile map: the entry whose run covers a tile ID;
* `WF fetch d lo hi es` — well-formed directory of depth ≤ `d` responsible for the ID interval
  `[lo, hi)`: tile entries ascending with non-overlapping runs, every leaf pointer has run
  length 0 and the ID of its leaf's first entry, the leaf's IDs lie in `[ptr.id, next.id)`.
-/
namespace Pm.Reader

abbrev Fetch := Nat → Nat → Option (List Entry)

/-- last entry with `id ≤ t` of an ascending list (linear scan) -/
def lastLE : List Entry → Nat → Option Entry
  | [], _ => none
  | e :: rest, t => if e.id ≤ t then (match lastLE rest t with | some e' => some e' | none => some e) else none

/-- accepted if it is a leaf pointer or `t` lies inside its run -/
def accept (e : Entry) (t : Nat) : Option Entry := if e.rl = 0 ∨ t - e.id < e.rl then some e else none

/-- single-directory lookup specification -/
def lookupDir (es : List Entry) (t : Nat) : Option Entry :=
  match lastLE es t with | some e => accept e t | none => none

/-- enumeration order -/
def flattenAux (fetch : Fetch) (sub : List Entry → List Entry) : List Entry → List Entry
  | [] => []
  | e :: es =>
    (if 0 < e.rl then [e] else
      match fetch e.off e.len with
      | none => []
      | some es' => sub es') ++ flattenAux fetch sub es

def flatten (fetch : Fetch) : Nat → List Entry → List Entry
  | 0 => flattenAux fetch (fun _ => [])
  | d+1 => flattenAux fetch (flatten fetch d)

def covers (e : Entry) (t : Nat) : Bool := decide (e.id ≤ t ∧ t < e.id + e.rl)

/-- the tile map of a flattened enumeration -/
def lookupFlat (es : List Entry) (t : Nat) : Option Entry := es.find? (covers · t)

inductive WF (fetch : Fetch) : Nat → Nat → Nat → List Entry → Prop
  | nil {d lo hi} : lo ≤ hi → WF fetch d lo hi []
  | tile {d lo hi e es} : lo ≤ e.id → 0 < e.rl → WF fetch d (e.id + e.rl) hi es → WF fetch d lo hi (e :: es)
  | ptr {d lo hi mid e es es'} : lo ≤ e.id → e.rl = 0 → fetch e.off e.len = some es' →
      (∃ h t, es' = h :: t ∧ h.id = e.id) → WF fetch d e.id mid es' → WF fetch (d+1) mid hi es →
      WF fetch (d+1) lo hi (e :: es)

end Pm.Reader
