import PmtilesModel.Model.Uvarint
import PmtilesModel.Model.Entry
/-!
# Specification: PMTiles v3 directory encoding (from the specification text, §4 "Directories")

"A directory is: the number of entries; then for all entries the tile-ID deltas; the run
lengths; the lengths; the offsets, where an offset is stored as `offset + 1`, or as `0` when
the entry's data directly follows the previous entry's data" — all as unsigned LEB128 varints.

`specDecode` is an independent decoder written from that text over unbounded naturals (no
machine-integer wrap-around, no truncation); `specEncode` is the corresponding encoder with a
per-entry choice of spelling.
-/
namespace Pm.DirWire

/-- assemble entries from the four decoded columns, carrying the running tile ID and the
    previous entry's end-of-data -/
def assemble : (lastId : Nat) → (prevEnd : Option Nat) → List Nat → List Nat → List Nat → List Nat → List Entry
  | lastId, prevEnd, d :: ds, r :: rs, l :: ls, o :: os =>
    let id := lastId + d
    let off := match prevEnd, o with
      | some pe, 0 => pe
      | _, t => t - 1
    ⟨id, off, l, r⟩ :: assemble id (some (off + l)) ds rs ls os
  | _, _, _, _, _, _ => []

def specDecode (bs : Bytes) : Option (List Entry) :=
  match readUvarint bs with
  | none => none
  | some (n, r0) =>
  match readN n r0 with
  | none => none
  | some (ds, r1) =>
  match readN n r1 with
  | none => none
  | some (rls, r2) =>
  match readN n r2 with
  | none => none
  | some (lens, r3) =>
  match readN n r3 with
  | none => none
  | some (offs, _) => some (assemble 0 none ds rls lens offs)

/-- column of deltas / offsets as the text describes them -/
def specDeltas : Nat → List Entry → List Nat
  | _, [] => []
  | last, e :: es => (e.id - last) :: specDeltas e.id es

def specOffs : Option Nat → List Entry → List Bool → List Nat
  | _, [], _ => []
  | prevEnd, e :: es, fl =>
    (if fl.headD true ∧ prevEnd = some e.off then 0 else e.off + 1) :: specOffs (some (e.off + e.len)) es fl.tail

/-- an independent encoder; `flags[i] = false` spells a contiguous offset explicitly -/
def specEncode (es : List Entry) (flags : List Bool) : Bytes :=
  putUvarint es.length ++ putAll (specDeltas 0 es) ++ putAll (es.map (·.rl)) ++ putAll (es.map (·.len))
    ++ putAll (specOffs none es flags)

/-- what the property calls a directory: strictly ascending tile IDs -/
def Ascending : List Entry → Prop
  | [] => True
  | [_] => True
  | a :: b :: r => a.id < b.id ∧ Ascending (b :: r)

end Pm.DirWire
