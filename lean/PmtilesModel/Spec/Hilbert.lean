/-!
# Specification: PMTiles v3 tile numbering (Hilbert curve)

Independent of the Go code.  `H k d` is the cell visited at step `d` of the order-`k`
Hilbert curve that starts at `(0,0)` (quadrant recursion), `G` its inverse, `base z`
the first ID of zoom `z`.
-/
namespace Pm.Hilbert

def place (s : Nat) (q : Nat) (p : Nat × Nat) : Nat × Nat :=
  match q with
  | 0 => (p.2, p.1)
  | 1 => (p.1, p.2 + s)
  | 2 => (p.1 + s, p.2 + s)
  | _ => (2*s - 1 - p.2, s - 1 - p.1)

def H : Nat → Nat → Nat × Nat
  | 0, _ => (0, 0)
  | k+1, d => place (2^k) (d / 4^k) (H k (d % 4^k))

/-- edge adjacency of two cells -/
def dist1 (p q : Nat × Nat) : Prop :=
  (p.1 = q.1 ∧ (p.2 + 1 = q.2 ∨ q.2 + 1 = p.2)) ∨ (p.2 = q.2 ∧ (p.1 + 1 = q.1 ∨ q.1 + 1 = p.1))

instance (p q : Nat × Nat) : Decidable (dist1 p q) := by unfold dist1; infer_instance

def rot (s rx ry : Nat) (p : Nat × Nat) : Nat × Nat :=
  if ry = 0 then (if rx = 1 then (s - 1 - p.2, s - 1 - p.1) else (p.2, p.1)) else p

def digit (rx ry : Nat) : Nat := (3 * rx) ^^^ ry

def G : Nat → Nat × Nat → Nat
  | 0, _ => 0
  | k+1, p =>
    let s := 2^k
    digit (p.1 / s % 2) (p.2 / s % 2) * 4^k + G k (rot s (p.1 / s % 2) (p.2 / s % 2) (p.1 % s, p.2 % s))

/-- first tile ID of zoom `z`: `(4^z - 1) / 3` -/
def base (z : Nat) : Nat := (4^z - 1) / 3

end Pm.Hilbert
