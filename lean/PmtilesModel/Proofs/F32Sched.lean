import PmtilesModel.Model.F32Sched
import PmtilesModel.Proofs.Build
/-! Growth of the bit-exact float32 leaf-size schedule, and termination of the loop over it. -/
namespace Pm.F32
open Pm Pm.Build

theorem rneShift_ge (p k : Nat) : p / 2 ^ k ≤ rneShift p k := by
  unfold rneShift
  simp only
  split <;> omega

theorem rneShift_le (p k : Nat) : rneShift p k ≤ p / 2 ^ k + 1 := by
  unfold rneShift
  simp only
  split <;> omega

/-- value in units of 2^-11 (exact for every value ≥ 4096) -/
def val11 (x : F32) : Nat := x.m * 2 ^ (x.e - 12)

theorem trunc_eq (x : F32) (he : 12 ≤ x.e) : trunc x = val11 x / 2048 := by
  unfold trunc val11
  split
  · rename_i h
    have : x.e - 12 = (x.e - 23) + 11 := by omega
    rw [this, Nat.pow_add, ← Nat.mul_assoc]
    have : (2:Nat) ^ 11 = 2048 := by decide
    rw [this, Nat.mul_div_cancel _ (by decide : 0 < 2048)]
  · rename_i h
    have h2 : (2048 : Nat) = 2 ^ (x.e - 12) * 2 ^ (23 - x.e) := by
      rw [← Nat.pow_add]
      have : x.e - 12 + (23 - x.e) = 11 := by omega
      rw [this]
    rw [h2, Nat.mul_comm x.m]
    exact (Nat.mul_div_mul_left _ _ (Nat.pow_pos (by decide))).symm

/-- one step, in the mantissa units of the OLD exponent: the new value is `M' · 2^(e-23)` with
    `M' ≥ m + 2^20`, and the result is normal with an exponent that did not shrink -/
theorem mul12_step (x : F32) (hn : Normal x) (h12 : 12 ≤ x.e) :
    Normal (mul12 x) ∧ x.e ≤ (mul12 x).e ∧
    (x.m + 1048576) * 2 ^ (x.e - 12) ≤ val11 (mul12 x) := by
  obtain ⟨hlo, hhi⟩ := hn
  have hsucc : ∀ k, x.e + k + 1 - 12 = (x.e - 12) + k + 1 := by intro k; omega
  unfold mul12 C12
  simp only
  split
  · rename_i hp
    have hge := rneShift_ge (x.m * 10066330) 23
    have hle := rneShift_le (x.m * 10066330) 23
    have h23 : (2:Nat) ^ 23 = 8388608 := by decide
    rw [h23] at hge hle
    generalize rneShift (x.m * 10066330) 23 = r at hge hle
    have hr1 : x.m + 1048576 ≤ r := by omega
    have hr2 : r ≤ 16777216 := by omega
    unfold norm
    split
    · rename_i hr
      refine ⟨⟨by simp, by simp⟩, by simp, ?_⟩
      simp only [val11]
      have := hsucc 0
      simp only [Nat.add_zero] at this
      rw [this, Nat.pow_succ]
      have : 8388608 * (2 ^ (x.e - 12) * 2) = 16777216 * 2 ^ (x.e - 12) := by omega
      rw [this]
      exact Nat.mul_le_mul_right _ (by omega)
    · rename_i hr
      refine ⟨⟨by simp; omega, by simp; omega⟩, by simp, ?_⟩
      simp only [val11]
      exact Nat.mul_le_mul_right _ hr1
  · rename_i hp
    have hge := rneShift_ge (x.m * 10066330) 24
    have hle := rneShift_le (x.m * 10066330) 24
    have h24 : (2:Nat) ^ 24 = 16777216 := by decide
    rw [h24] at hge hle
    generalize rneShift (x.m * 10066330) 24 = r at hge hle
    have hr1 : x.m + 1048576 ≤ 2 * r := by omega
    have hr0 : 8388608 ≤ r := by omega
    have hr2 : r ≤ 16777216 := by omega
    unfold norm
    split
    · rename_i hr
      refine ⟨⟨by simp, by simp⟩, by simp; omega, ?_⟩
      simp only [val11]
      have := hsucc 1
      rw [this, Nat.pow_succ, Nat.pow_succ]
      have : 8388608 * (2 ^ (x.e - 12) * 2 * 2) = 33554432 * 2 ^ (x.e - 12) := by omega
      rw [this]
      exact Nat.mul_le_mul_right _ (by omega)
    · rename_i hr
      refine ⟨⟨by simp; omega, by simp; omega⟩, by simp, ?_⟩
      simp only [val11]
      have := hsucc 0
      simp only [Nat.add_zero] at this
      rw [this, Nat.pow_succ]
      have : r * (2 ^ (x.e - 12) * 2) = (2 * r) * 2 ^ (x.e - 12) := by
        simp only [Nat.mul_assoc, Nat.mul_comm, Nat.mul_left_comm]
      rw [this]
      exact Nat.mul_le_mul_right _ hr1

/-- **`int(leafSize)` strictly grows with every `leafSize *= 1.2`** (by at least 512), for every
    finite float32 value ≥ 4096 — i.e. for every value the variable can hold after the clamp -/
theorem trunc_grows (x : F32) (hn : Normal x) (h12 : 12 ≤ x.e) :
    trunc x + 512 ≤ trunc (mul12 x) ∧ Normal (mul12 x) ∧ 12 ≤ (mul12 x).e := by
  obtain ⟨hN, he, hv⟩ := mul12_step x hn h12
  refine ⟨?_, hN, by omega⟩
  rw [trunc_eq x h12, trunc_eq (mul12 x) (by omega)]
  have hk : 1 ≤ 2 ^ (x.e - 12) := Nat.pow_pos (by decide)
  have : val11 x + 1048576 ≤ val11 (mul12 x) := by
    have h1 : (x.m + 1048576) * 2 ^ (x.e - 12) = val11 x + 1048576 * 2 ^ (x.e - 12) := by
      simp only [val11, Nat.add_mul]
    rw [h1] at hv
    have : 1048576 * 1 ≤ 1048576 * 2 ^ (x.e - 12) := Nat.mul_le_mul_left _ hk
    omega
  omega

/-- one step at most doubles the value: `leafSize * 1.2`, rounded, stays ≤ `2 · leafSize`
    (so the loop, which returns once `int(leafSize) ≥ len(entries)`, never hands `int()` a value
    beyond twice the entry count: far inside int64 and far from float32 overflow) -/
theorem mul12_le_double (x : F32) (hn : Normal x) : val11 (mul12 x) ≤ 2 * val11 x := by
  obtain ⟨hlo, hhi⟩ := hn
  have hsucc : x.e + 1 - 12 ≤ (x.e - 12) + 1 := by omega
  have hpow1 : 2 ^ (x.e + 1 - 12) ≤ 2 * 2 ^ (x.e - 12) := by
    calc 2 ^ (x.e + 1 - 12) ≤ 2 ^ ((x.e - 12) + 1) := Nat.pow_le_pow_right (by decide) hsucc
      _ = 2 * 2 ^ (x.e - 12) := by rw [Nat.pow_succ, Nat.mul_comm]
  have hpow2 : 2 ^ (x.e + 1 + 1 - 12) ≤ 4 * 2 ^ (x.e - 12) := by
    have : x.e + 1 + 1 - 12 ≤ (x.e - 12) + 2 := by omega
    calc 2 ^ (x.e + 1 + 1 - 12) ≤ 2 ^ ((x.e - 12) + 2) := Nat.pow_le_pow_right (by decide) this
      _ = 4 * 2 ^ (x.e - 12) := by rw [Nat.pow_add, Nat.mul_comm]
  unfold mul12 C12
  simp only
  split
  · rename_i hp
    have hle := rneShift_le (x.m * 10066330) 23
    have h23 : (2:Nat) ^ 23 = 8388608 := by decide
    rw [h23] at hle
    generalize rneShift (x.m * 10066330) 23 = r at hle
    unfold norm
    split
    · rename_i hr
      simp only [val11]
      -- r = 2^24 ≤ 1.2 m + 1, value 2^23 · 2^(e+1-12) ≤ 2^24 · 2^(e-12) ≤ 2 m · 2^(e-12)
      calc 8388608 * 2 ^ (x.e + 1 - 12) ≤ 8388608 * (2 * 2 ^ (x.e - 12)) := Nat.mul_le_mul_left _ hpow1
        _ = 16777216 * 2 ^ (x.e - 12) := by omega
        _ ≤ (2 * x.m) * 2 ^ (x.e - 12) := Nat.mul_le_mul_right _ (by omega)
        _ = 2 * (x.m * 2 ^ (x.e - 12)) := by rw [Nat.mul_assoc]
    · simp only [val11]
      calc r * 2 ^ (x.e - 12) ≤ (2 * x.m) * 2 ^ (x.e - 12) := Nat.mul_le_mul_right _ (by omega)
        _ = 2 * (x.m * 2 ^ (x.e - 12)) := by rw [Nat.mul_assoc]
  · rename_i hp
    have hle := rneShift_le (x.m * 10066330) 24
    have h24 : (2:Nat) ^ 24 = 16777216 := by decide
    rw [h24] at hle
    generalize rneShift (x.m * 10066330) 24 = r at hle
    unfold norm
    split
    · rename_i hr
      -- impossible: r ≤ m·C/2^24 + 1 < 2^24
      omega
    · simp only [val11]
      calc r * 2 ^ (x.e + 1 - 12) ≤ r * (2 * 2 ^ (x.e - 12)) := Nat.mul_le_mul_left _ hpow1
        _ = (2 * r) * 2 ^ (x.e - 12) := by rw [← Nat.mul_assoc, Nat.mul_comm r 2]
        _ ≤ (2 * x.m) * 2 ^ (x.e - 12) := Nat.mul_le_mul_right _ (by omega)
        _ = 2 * (x.m * 2 ^ (x.e - 12)) := by rw [Nat.mul_assoc]

theorem trunc_le_double (x : F32) (hn : Normal x) (h12 : 12 ≤ x.e) :
    trunc (mul12 x) ≤ 2 * trunc x + 1 := by
  obtain ⟨_, he, _⟩ := mul12_step x hn h12
  have := mul12_le_double x hn
  rw [trunc_eq x h12, trunc_eq (mul12 x) (by omega)]
  omega

theorem rneDiv_ge (a b : Nat) : a / b ≤ rneDiv a b := by
  unfold rneDiv; simp only; split <;> omega

theorem rneDiv_le (a b : Nat) : rneDiv a b ≤ a / b + 1 := by
  unfold rneDiv; simp only; split <;> omega

theorem norm_normal (r e : Nat) (h1 : 8388608 ≤ r) (h2 : r ≤ 16777216) : Normal (norm r e) := by
  unfold norm Normal
  split
  · simp
  · simp only; omega

theorem norm_e (r e : Nat) : e ≤ (norm r e).e ∧ (norm r e).e ≤ e + 1 := by
  unfold norm; split <;> simp

/-- rounding a rational ≥ 1 gives a normal number -/
theorem ofRat_normal (num den : Nat) (hden : 0 < den) (hk : num / den ≠ 0) : Normal (ofRat num den) := by
  have hlo : 2 ^ Nat.log2 (num / den) ≤ num / den := Nat.log2_self_le hk
  have hhi : num / den < 2 ^ (Nat.log2 (num / den) + 1) := Nat.lt_log2_self
  have h1 : den * 2 ^ Nat.log2 (num / den) ≤ num :=
    Nat.le_trans (Nat.mul_le_mul_left _ hlo) (Nat.mul_div_le num den)
  have h2 : num < den * 2 ^ (Nat.log2 (num / den) + 1) := by
    have : num < den * (num / den + 1) := Nat.lt_mul_div_succ num hden
    exact Nat.lt_of_lt_of_le this (Nat.mul_le_mul_left _ hhi)
  unfold ofRat
  simp only
  generalize Nat.log2 (num / den) = e at *
  split
  · rename_i he
    apply norm_normal
    · refine Nat.le_trans ?_ (rneDiv_ge _ _)
      rw [Nat.le_div_iff_mul_le hden]
      have : 8388608 * den = den * 2 ^ 23 := by rw [Nat.mul_comm]
      rw [this]
      have h23 : 23 = e + (23 - e) := by omega
      rw [h23, Nat.pow_add, ← Nat.mul_assoc]
      have : e + (23 - e) - e = 23 - e := by omega
      rw [this]
      exact Nat.mul_le_mul_right _ h1
    · refine Nat.le_trans (rneDiv_le _ _) ?_
      have : num * 2 ^ (23 - e) / den < 16777216 := by
        rw [Nat.div_lt_iff_lt_mul hden]
        have h24 : 16777216 * den = den * 2 ^ (e + 1) * 2 ^ (23 - e) := by
          rw [Nat.mul_assoc, ← Nat.pow_add]
          have : e + 1 + (23 - e) = 24 := by omega
          rw [this, Nat.mul_comm]
        rw [h24]
        exact Nat.mul_lt_mul_of_pos_right h2 (Nat.pow_pos (by decide))
      omega
  · rename_i he
    have hD : 0 < den * 2 ^ (e - 23) := Nat.mul_pos hden (Nat.pow_pos (by decide))
    apply norm_normal
    · refine Nat.le_trans ?_ (rneDiv_ge _ _)
      rw [Nat.le_div_iff_mul_le hD]
      have : 8388608 * (den * 2 ^ (e - 23)) = den * 2 ^ e := by
        have he' : e = (e - 23) + 23 := by omega
        conv => rhs; rw [he', Nat.pow_add]
        have : (2:Nat) ^ 23 = 8388608 := by decide
        rw [this]
        simp only [Nat.mul_assoc, Nat.mul_comm, Nat.mul_left_comm]
      rw [this]; exact h1
    · refine Nat.le_trans (rneDiv_le _ _) ?_
      have : num / (den * 2 ^ (e - 23)) < 16777216 := by
        rw [Nat.div_lt_iff_lt_mul hD]
        have : 16777216 * (den * 2 ^ (e - 23)) = den * 2 ^ (e + 1) := by
          have he' : e + 1 = (e - 23) + 24 := by omega
          conv => rhs; rw [he', Nat.pow_add]
          have : (2:Nat) ^ 24 = 16777216 := by decide
          rw [this]
          simp only [Nat.mul_assoc, Nat.mul_comm, Nat.mul_left_comm]
        rw [this]; exact h2
      omega

theorem ofRat_small (num den : Nat) (hk : num / den = 0) : (ofRat num den).e ≤ 1 := by
  unfold ofRat
  simp only [hk]
  have : Nat.log2 0 = 0 := by decide
  rw [this]
  simp only [Nat.zero_le, if_true]
  exact (norm_e _ 0).2

/-- the initial leaf size, whatever the number of entries, is a normal float32 ≥ 4096 -/
theorem init_ok (n : Nat) : Normal (init n) ∧ 12 ≤ (init n).e := by
  unfold init
  simp only
  split
  · exact ⟨⟨by decide, by decide⟩, by decide⟩
  · rename_i h
    refine ⟨?_, by omega⟩
    unfold div3500 at h ⊢
    split
    · rename_i h23
      rw [if_pos h23] at h
      apply ofRat_normal _ _ (by decide)
      intro hk
      have := ofRat_small _ _ hk
      omega
    · rename_i h23
      rw [if_neg h23] at h
      apply ofRat_normal _ _ (Nat.mul_pos (by decide) (Nat.pow_pos (by decide)))
      intro hk
      have := ofRat_small _ _ hk
      omega

theorem optimizeLoopF_terminates (ser : List Entry → Bytes) (budget : Nat) (es : List Entry)
    (hsmall : ∀ l : List Entry, l.length ≤ 1 → (ser l).length ≤ budget) :
    ∀ fuel x, Normal x → 12 ≤ x.e → 1 ≤ fuel → es.length < fuel + trunc x →
      ∃ b, optimizeLoopF ser budget es fuel x = some b := by
  intro fuel
  induction fuel with
  | zero => intro x _ _ h; omega
  | succ f ih =>
    intro x hn h12 _ h
    simp only [optimizeLoopF]
    split
    · exact ⟨_, rfl⟩
    · rename_i hnot
      have hlt : trunc x < es.length := by
        by_cases hc : es.length ≤ trunc x
        · exfalso
          apply hnot
          have := build_big_root ser es (trunc x) hc
          have hr : (buildRootsLeaves ser es (trunc x)).rootBytes = ser (buildRootsLeaves ser es (trunc x)).rootEntries := rfl
          rw [hr]
          exact hsmall _ this
        · omega
      obtain ⟨g1, g2, g3⟩ := trunc_grows x hn h12
      exact ih (mul12 x) g2 g3 (by omega) (by omega)

/-- whatever the float32 loop returns is a result of the schedule-free relation -/
theorem optimizeLoopF_result (ser : List Entry → Bytes) (budget : Nat) (es : List Entry) :
    ∀ fuel x b, Normal x → 12 ≤ x.e → optimizeLoopF ser budget es fuel x = some b → OptResult ser budget es b := by
  intro fuel
  induction fuel with
  | zero => intro x b _ _ h; simp [optimizeLoopF] at h
  | succ f ih =>
    intro x b hn h12 h
    simp only [optimizeLoopF] at h
    split at h
    · rename_i hc
      cases h
      refine ⟨hc, Or.inr ⟨trunc x, ?_, rfl⟩⟩
      rw [trunc_eq x h12]
      have : 8388608 * 1 ≤ x.m * 2 ^ (x.e - 12) := Nat.mul_le_mul hn.1 (Nat.pow_pos (by decide))
      simp only [val11]; omega
    · obtain ⟨_, g2, g3⟩ := trunc_grows x hn h12
      exact ih (mul12 x) b g2 g3 h

/-- every leaf size the loop ever tries is at most the first one or twice the entry count: the
    conversions `int(leafSize)` stay far inside int64, the float32 far from overflow -/
theorem triedF_bounded (ser : List Entry → Bytes) (budget : Nat) (es : List Entry)
    (hsmall : ∀ l : List Entry, l.length ≤ 1 → (ser l).length ≤ budget) :
    ∀ fuel x, Normal x → 12 ≤ x.e → ∀ t ∈ triedF ser budget es fuel x, t ≤ max (trunc x) (2 * es.length) := by
  intro fuel
  induction fuel with
  | zero => intro x _ _ t ht; simp [triedF] at ht
  | succ f ih =>
    intro x hn h12 t ht
    simp only [triedF] at ht
    split at ht
    · simp only [List.mem_singleton] at ht
      subst ht; exact Nat.le_max_left _ _
    · rename_i hnot
      have hlt : trunc x < es.length := by
        by_cases hc : es.length ≤ trunc x
        · exfalso
          apply hnot
          have := build_big_root ser es (trunc x) hc
          have hr : (buildRootsLeaves ser es (trunc x)).rootBytes = ser (buildRootsLeaves ser es (trunc x)).rootEntries := rfl
          rw [hr]
          exact hsmall _ this
        · omega
      rcases List.mem_cons.mp ht with h | h
      · subst h; exact Nat.le_max_left _ _
      · obtain ⟨_, g2, g3⟩ := trunc_grows x hn h12
        have := ih (mul12 x) g2 g3 t h
        have hd := trunc_le_double x hn h12
        have : t ≤ 2 * es.length := by
          rcases Nat.le_total (trunc (mul12 x)) (2 * es.length) with hm | hm
          · rw [Nat.max_eq_right hm] at this; exact this
          · omega
        exact Nat.le_trans this (Nat.le_max_right _ _)

end Pm.F32
