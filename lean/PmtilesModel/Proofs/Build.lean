import PmtilesModel.Model.Build
import PmtilesModel.Proofs.Reader
namespace Pm.Build
open Pm Pm.Reader

theorem chunksAux_flatten (fuel n : Nat) (es : List Entry) (hn : 1 ≤ n) (hf : es.length ≤ fuel) :
    (chunksAux fuel n es).flatten = es := by
  induction fuel generalizing es with
  | zero =>
    have : es = [] := List.eq_nil_of_length_eq_zero (by omega)
    subst this; rfl
  | succ f ih =>
    cases es with
    | nil => rfl
    | cons e t =>
      simp only [chunksAux, List.flatten_cons]
      rw [ih ((e :: t).drop n) (by simp only [List.length_drop, List.length_cons] at *; omega)]
      exact List.take_append_drop n (e :: t)

theorem chunks_flatten (n : Nat) (es : List Entry) (hn : 1 ≤ n) : (chunks n es).flatten = es :=
  chunksAux_flatten es.length n es hn (Nat.le_refl _)

theorem chunksAux_nonempty (fuel n : Nat) (es : List Entry) (hn : 1 ≤ n) :
    ∀ c ∈ chunksAux fuel n es, c ≠ [] ∧ c.length ≤ n := by
  induction fuel generalizing es with
  | zero => intro c hc; simp [chunksAux] at hc
  | succ f ih =>
    cases es with
    | nil => intro c hc; simp [chunksAux] at hc
    | cons e t =>
      intro c hc
      simp only [chunksAux, List.mem_cons] at hc
      rcases hc with rfl | hc
      · constructor
        · intro h
          have := congrArg List.length h
          simp only [List.length_take, List.length_cons, List.length_nil] at this
          omega
        · simp only [List.length_take]; omega
      · exact ih _ c hc

theorem chunks_nonempty (n : Nat) (es : List Entry) (hn : 1 ≤ n) :
    ∀ c ∈ chunks n es, c ≠ [] ∧ c.length ≤ n := chunksAux_nonempty es.length n es hn

theorem flatten0_tiles (fetch : Fetch) (es : List Entry) (h : ∀ e ∈ es, 0 < e.rl) :
    flatten fetch 0 es = es := by
  induction es with
  | nil => exact flatten_nil fetch 0
  | cons e es ih =>
    rw [flatten_tile _ _ _ _ (h e (by simp)), ih (fun x hx => h x (by simp [hx]))]

theorem flatten_tiles (fetch : Fetch) (d : Nat) (es : List Entry) (h : ∀ e ∈ es, 0 < e.rl) :
    flatten fetch d es = es := by
  induction es with
  | nil => exact flatten_nil fetch d
  | cons e es ih =>
    rw [flatten_tile _ _ _ _ (h e (by simp)), ih (fun x hx => h x (by simp [hx]))]

theorem slice_mid (pre b post : Bytes) : slice (pre ++ b ++ post) pre.length b.length = b := by
  unfold slice
  simp [List.append_assoc]

/-- tiling + read-back for any list of chunks -/
theorem build_readback (ser : List Entry → Bytes) (de : Bytes → List Entry) (hrt : ∀ es, de (ser es) = es)
    (cs : List (List Entry)) (htiles : ∀ c ∈ cs, ∀ e ∈ c, 0 < e.rl) :
    ∀ (pre post : Bytes),
      flatten (fetchLeaf de (pre ++ (buildGo ser pre.length cs).2 ++ post)) 1 (buildGo ser pre.length cs).1 = cs.flatten := by
  induction cs with
  | nil => intro pre post; simp [buildGo, flatten_nil]
  | cons c cs ih =>
    intro pre post
    simp only [buildGo, List.flatten_cons]
    have hnr : ¬ 0 < (⟨headId c, pre.length, (ser c).length, 0⟩ : Entry).rl := by simp
    have hf : fetchLeaf de (pre ++ (ser c ++ (buildGo ser (pre.length + (ser c).length) cs).2) ++ post)
                pre.length (ser c).length = some c := by
      unfold fetchLeaf
      have : pre ++ (ser c ++ (buildGo ser (pre.length + (ser c).length) cs).2) ++ post
           = pre ++ ser c ++ ((buildGo ser (pre.length + (ser c).length) cs).2 ++ post) := by
        simp [List.append_assoc]
      rw [this, slice_mid, hrt]
    rw [flatten_ptr _ 0 _ _ c hnr hf]
    rw [flatten0_tiles _ c (htiles c (by simp))]
    congr 1
    have := ih (fun c' hc' => htiles c' (by simp [hc'])) (pre ++ ser c) post
    simp only [List.length_append, List.append_assoc] at this ⊢
    exact this

theorem build_leaves (ser : List Entry → Bytes) (cs : List (List Entry)) (off : Nat) :
    (buildGo ser off cs).2 = (cs.map ser).flatten := by
  induction cs generalizing off with
  | nil => rfl
  | cons c cs ih => simp [buildGo, ih]

/-- pointer list in closed form -/
def ptrsOf (ser : List Entry → Bytes) : Nat → List (List Entry) → List Entry
  | _, [] => []
  | off, c :: cs => ⟨headId c, off, (ser c).length, 0⟩ :: ptrsOf ser (off + (ser c).length) cs

theorem build_ptrs (ser : List Entry → Bytes) (cs : List (List Entry)) (off : Nat) :
    (buildGo ser off cs).1 = ptrsOf ser off cs := by
  induction cs generalizing off with
  | nil => rfl
  | cons c cs ih => simp [buildGo, ptrsOf, ih]

/-- the pointers tile `[off, off + |leaves|)` in order: each starts where the previous ended -/
def Tiles : Nat → List Entry → Nat → Prop
  | start, [], stop => start = stop
  | start, p :: ps, stop => p.off = start ∧ p.rl = 0 ∧ Tiles (p.off + p.len) ps stop

theorem ptrs_tile (ser : List Entry → Bytes) (cs : List (List Entry)) (off : Nat) :
    Tiles off (ptrsOf ser off cs) (off + ((cs.map ser).flatten).length) := by
  induction cs generalizing off with
  | nil => simp [ptrsOf, Tiles]
  | cons c cs ih =>
    simp only [ptrsOf, Tiles, List.map_cons, List.flatten_cons, List.length_append, true_and]
    have := ih (off + (ser c).length)
    rw [Nat.add_assoc] at this
    exact this

theorem optimizeLoop_result (ser : List Entry → Bytes) (budget : Nat) (es : List Entry) (next : Nat → Nat)
    (hnext : ∀ ls, 1 ≤ ls → 1 ≤ next ls) :
    ∀ fuel ls b, 1 ≤ ls → optimizeLoop ser budget es next fuel ls = some b → OptResult ser budget es b := by
  intro fuel
  induction fuel with
  | zero => intro ls b _ h; simp [optimizeLoop] at h
  | succ f ih =>
    intro ls b hls h
    simp only [optimizeLoop] at h
    split at h
    · rename_i hfit
      cases h
      exact ⟨hfit, Or.inr ⟨ls, hls, rfl⟩⟩
    · exact ih (next ls) b (hnext ls hls) h

/-! ## termination of the growth loop -/

theorem chunks_big (n : Nat) (es : List Entry) (hn : es.length ≤ n) : (chunks n es).length ≤ 1 := by
  unfold chunks
  cases es with
  | nil => simp [chunksAux]
  | cons e t =>
    simp only [List.length_cons, chunksAux]
    have hd : (e :: t).drop n = [] := List.drop_eq_nil_of_le hn
    rw [hd]
    cases t.length <;> simp [chunksAux]

theorem buildGo_length (ser : List Entry → Bytes) (cs : List (List Entry)) (off : Nat) :
    (buildGo ser off cs).1.length = cs.length := by
  induction cs generalizing off with
  | nil => rfl
  | cons c cs ih => simp [buildGo, ih]

/-- once the leaf size reaches the number of entries the root holds at most one pointer -/
theorem build_big_root (ser : List Entry → Bytes) (es : List Entry) (ls : Nat) (h : es.length ≤ ls) :
    (buildRootsLeaves ser es ls).rootEntries.length ≤ 1 := by
  simp only [buildRootsLeaves, buildGo_length]
  exact chunks_big ls es h

theorem optimizeLoop_terminates (ser : List Entry → Bytes) (budget : Nat) (es : List Entry) (next : Nat → Nat)
    (hgrow : ∀ ls, ls < next ls)
    (hsmall : ∀ l : List Entry, l.length ≤ 1 → (ser l).length ≤ budget) :
    ∀ fuel ls, 1 ≤ fuel → es.length < fuel + ls → ∃ b, optimizeLoop ser budget es next fuel ls = some b := by
  intro fuel
  induction fuel with
  | zero => intro ls h; omega
  | succ f ih =>
    intro ls _ h
    simp only [optimizeLoop]
    split
    · exact ⟨_, rfl⟩
    · rename_i hnot
      have hlt : ls < es.length := by
        by_cases hc : es.length ≤ ls
        · exfalso
          apply hnot
          have := build_big_root ser es ls hc
          have hr : (buildRootsLeaves ser es ls).rootBytes = ser (buildRootsLeaves ser es ls).rootEntries := rfl
          rw [hr]
          exact hsmall _ this
        · omega
      have := hgrow ls
      exact ih (next ls) (by omega) (by omega)

end Pm.Build
