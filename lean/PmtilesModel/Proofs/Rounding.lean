import Mathlib.Tactic.Linarith
import Mathlib.Tactic.Ring
import Mathlib.Tactic.Positivity
import Mathlib.Tactic.NormNum
import Mathlib.Tactic.FieldSimp
import Mathlib.Algebra.Order.Floor.Ring
import Mathlib.Algebra.Order.AbsoluteValue.Basic
import Mathlib.Data.Rat.Floor
/-! Proofs/Rounding.lean — the only Mathlib-importing module: real-arithmetic argument for the degrees→E7 conversion -/
namespace Pm.Rounding
def E7 : ℚ := 10000000
theorem E7_pos : (0:ℚ) < E7 := by unfold E7; norm_num

/-- what IEEE-754 binary64 round-to-nearest guarantees in the normal range (trusted about Go's float64) -/
structure IsRN (rn : ℚ → ℚ) : Prop where
  err : ∀ x : ℚ, |rn x - x| ≤ |x| / 2^53

/-- math.Round : nearest integer, halves away from zero -/
def roundHalfAway (p : ℚ) : ℤ := if 0 ≤ p then ⌊p + 1/2⌋ else -⌊-p + 1/2⌋

theorem roundHalfAway_eq (p : ℚ) (n : ℤ) (h : |p - n| < 1/2) : roundHalfAway p = n := by
  have h1 := (abs_lt.mp h).1
  have h2 := (abs_lt.mp h).2
  unfold roundHalfAway
  split
  · rw [Int.floor_eq_iff]; constructor <;> linarith
  · rw [neg_eq_iff_eq_neg, Int.floor_eq_iff]; push_cast; constructor <;> linarith

/-- degrees → E7 as the fixed code does it: round (rn (d * E7)) where d = rn (n / E7) -/
theorem e7_exact (rn : ℚ → ℚ) (hrn : IsRN rn) (n : ℤ) (hn : |(n:ℚ)| < 2^31) :
    roundHalfAway (rn (rn ((n:ℚ) / E7) * E7)) = n := by
  apply roundHalfAway_eq
  have e1 := hrn.err ((n:ℚ) / E7)
  have e2 := hrn.err (rn ((n:ℚ) / E7) * E7)
  generalize hx : (n:ℚ) / E7 = x at *
  generalize hd : rn x = d at *
  have hE := E7_pos
  have hxn : x * E7 = n := by rw [← hx]; field_simp
  have habsx : |x| * E7 = |(n:ℚ)| := by
    rw [← hxn, abs_mul, abs_of_pos hE]
  -- |d - x| ≤ |x|/2^53
  have hdx : |d * E7 - n| ≤ |(n:ℚ)| / 2^53 := by
    have : d * E7 - n = (d - x) * E7 := by rw [← hxn]; ring
    rw [this, abs_mul]
    have : |E7| = E7 := abs_of_pos hE
    rw [this, ← habsx]
    have := mul_le_mul_of_nonneg_right e1 (le_of_lt hE)
    linarith [this]
  have hd7 : |d * E7| ≤ |(n:ℚ)| + |(n:ℚ)| / 2^53 := by
    have := abs_sub_abs_le_abs_sub (d * E7) (n:ℚ)
    linarith
  have hp : |rn (d * E7) - n| ≤ |rn (d * E7) - d * E7| + |d * E7 - n| := by
    have := abs_add_le (rn (d * E7) - d * E7) (d * E7 - n)
    simpa using this
  have hb : (0:ℚ) ≤ |(n:ℚ)| := abs_nonneg _
  have h53 : (0:ℚ) < 2^53 := by positivity
  have k1 : |(n:ℚ)| / 2^53 < 2^31 / 2^53 := by
    apply div_lt_div_of_pos_right hn h53
  have k2 : |d * E7| / 2^53 ≤ (|(n:ℚ)| + |(n:ℚ)| / 2^53) / 2^53 :=
    div_le_div_of_nonneg_right hd7 (le_of_lt h53)
  have k3 : ((2:ℚ)^31 + 2^31/2^53)/2^53 + 2^31/2^53 < 1/2 := by norm_num
  have k4 : (|(n:ℚ)| + |(n:ℚ)| / 2^53) / 2^53 ≤ ((2:ℚ)^31 + 2^31/2^53)/2^53 := by
    apply div_le_div_of_nonneg_right _ (le_of_lt h53); linarith
  linarith
end Pm.Rounding
