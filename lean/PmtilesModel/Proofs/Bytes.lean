import PmtilesModel.Model.Bytes
namespace Pm

theorem le_length (k n : Nat) : (le k n).length = k := by
  induction k generalizing n with
  | zero => rfl
  | succ k ih => simp [le, ih]

theorem le_isBytes (k n : Nat) : IsBytes (le k n) := by
  induction k generalizing n with
  | zero => intro x hx; simp [le] at hx
  | succ k ih =>
    intro x hx
    simp only [le, List.mem_cons] at hx
    rcases hx with rfl | hx
    · omega
    · exact ih _ x hx

theorem unle_le (k n : Nat) (h : n < 256^k) : unle (le k n) = n := by
  induction k generalizing n with
  | zero => simp at h; subst h; rfl
  | succ k ih =>
    simp only [le, unle]
    rw [ih (n / 256) (by rw [Nat.pow_succ] at h; omega)]
    omega

theorem le_unle (bs : Bytes) (h : IsBytes bs) : le bs.length (unle bs) = bs := by
  induction bs with
  | nil => rfl
  | cons b r ih =>
    have hb := h b (by simp)
    simp only [List.length_cons, le, unle]
    rw [show (b + 256 * unle r) % 256 = b by omega, show (b + 256 * unle r) / 256 = unle r by omega]
    rw [ih (fun x hx => h x (by simp [hx]))]

theorem unle_lt (bs : Bytes) (h : IsBytes bs) : unle bs < 256 ^ bs.length := by
  induction bs with
  | nil => simp [unle]
  | cons b r ih =>
    have hb := h b (by simp)
    have := ih (fun x hx => h x (by simp [hx]))
    simp only [unle, List.length_cons, Nat.pow_succ]
    omega

theorem toI32_ofI32 (v : Int) (h1 : -(2^31) ≤ v) (h2 : v < 2^31) : toI32 (ofI32 v) = v := by
  unfold toI32 ofI32
  split <;> omega

theorem ofI32_toI32 (u : Nat) (h : u < 2^32) : ofI32 (toI32 u) = u := by
  unfold toI32 ofI32
  split <;> omega

theorem ofI32_lt (v : Int) : ofI32 v < 2^32 := by
  unfold ofI32; omega

theorem toI32_range (u : Nat) (h : u < 2^32) : -(2^31) ≤ toI32 u ∧ toI32 u < 2^31 := by
  unfold toI32; split <;> omega

theorem IsBytes.append {a b : Bytes} (ha : IsBytes a) (hb : IsBytes b) : IsBytes (a ++ b) := by
  intro x hx
  rcases List.mem_append.mp hx with h | h
  · exact ha x h
  · exact hb x h

theorem IsBytes.take {a : Bytes} (ha : IsBytes a) (n : Nat) : IsBytes (a.take n) :=
  fun x hx => ha x (List.mem_of_mem_take hx)

theorem IsBytes.drop {a : Bytes} (ha : IsBytes a) (n : Nat) : IsBytes (a.drop n) :=
  fun x hx => ha x (List.mem_of_mem_drop hx)

end Pm
