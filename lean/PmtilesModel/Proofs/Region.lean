import PmtilesModel.Model.Region
namespace Pm.Region

/-- inside-status is constant along a run of non-boundary IDs -/
theorem const_on_gap (inside : Nat → Bool) (B : List Nat)
    (sep : ∀ x, x ∉ B → x + 1 ∉ B → inside x = inside (x + 1))
    (a b : Nat) (hgap : ∀ x, a < x → x < b → x ∉ B) :
    ∀ n, a + 1 + n < b → inside (a + 1 + n) = inside (a + 1) := by
  intro n
  induction n with
  | zero => intro _; rfl
  | succ n ih =>
    intro h
    have h1 := ih (by omega)
    have := sep (a + 1 + n) (hgap _ (by omega) (by omega)) (hgap _ (by omega) (by omega))
    rw [← h1, this]; rfl

theorem lower_bound_of_asc : ∀ (B : List Nat) (a : Nat), StrictAsc (a :: B) → ∀ x ∈ B, a < x
  | [], _, _ => by intro x hx; cases hx
  | b :: rest, a, h => by
    intro x hx
    obtain ⟨h1, h2⟩ := h
    rcases List.mem_cons.mp hx with rfl | hx
    · exact h1
    · exact Nat.lt_trans h1 (lower_bound_of_asc rest b h2 x hx)

/-- **fill_exact**: between the first and the last boundary ID, a non-boundary tile is filled iff it is inside -/
theorem fill_exact (inside : Nat → Bool) :
    ∀ (B : List Nat) (all : List Nat), StrictAsc B → (∀ x ∈ B, x ∈ all) →
      (∀ x, x ∉ all → x + 1 ∉ all → inside x = inside (x + 1)) →
      -- `all` is the whole boundary set; B is the suffix still to be processed; nothing of `all` lies strictly between consecutive elements of B
      (∀ a b rest, B = a :: b :: rest → True) →
      ∀ first, B.head? = some first →
      (∀ x ∈ all, first ≤ x → x ∈ B) →
      ∀ t, t ∉ all → first < t → (∃ l ∈ B, t < l) →
        (memInt t (fill inside B) ↔ inside t = true) := by
  intro B
  induction B with
  | nil => intro all _ _ _ _ first hf; cases hf
  | cons a rest ih =>
    intro all hasc hsub sep _ first hf hcl t ht hlt hub
    simp at hf; subst hf
    cases rest with
    | nil =>
      obtain ⟨l, hl, htl⟩ := hub
      simp at hl; subst hl; omega
    | cons b rest =>
      obtain ⟨hab, hasc'⟩ := hasc
      simp only [fill]
      by_cases htb : t < b
      · -- t is in the gap (a, b)
        have hgap : ∀ x, a < x → x < b → x ∉ all := by
          intro x h1 h2 hx
          have := hcl x hx (by omega)
          simp at this
          rcases this with rfl | rfl | hr
          · omega
          · omega
          · have := lower_bound_of_asc rest b hasc' x hr; omega
        have hconst := const_on_gap inside all sep a b hgap (t - (a + 1)) (by omega)
        rw [show a + 1 + (t - (a + 1)) = t by omega] at hconst
        have hrest : ¬ memInt t (fill inside (b :: rest)) := by
          -- all later intervals start after b > t
          intro ⟨p, hp, h1, h2⟩
          have : ∀ (L : List Nat) (lo : Nat), StrictAsc (lo :: L) → ∀ p ∈ fill inside (lo :: L), lo < p.1 := by
            intro L
            induction L with
            | nil => intro lo _ p hp; simp [fill] at hp
            | cons c L ihL =>
              intro lo hs p hp
              simp only [fill, List.mem_append] at hp
              rcases hp with hp | hp
              · split at hp
                · simp at hp; subst hp; simp
                · cases hp
              · have := ihL c hs.2 p hp; have := hs.1; omega
          have := this rest b hasc' p hp
          omega
        constructor
        · intro ⟨p, hp, h1, h2⟩
          simp only [List.mem_append] at hp
          rcases hp with hp | hp
          · split at hp
            · rename_i hc; rw [hconst]; exact hc.2
            · cases hp
          · exact absurd ⟨p, hp, h1, h2⟩ hrest
        · intro hin
          refine ⟨(a + 1, b), ?_, by simp; omega, htb⟩
          simp only [List.mem_append]
          left
          rw [hconst] at hin
          simp [hin]; omega
      · -- t is beyond b: defer to the rest
        have htb' : b < t := by
          rcases Nat.lt_or_ge b t with h | h
          · exact h
          · exfalso
            have : t = b := by omega
            subst this
            exact ht (hsub t (by simp))
        have hfirst : ¬ memInt t [(a + 1, b)] := by
          intro ⟨p, hp, h1, h2⟩; simp at hp; subst hp; simp at h2; omega
        have key := ih all hasc' (fun x hx => hsub x (by simp [hx])) sep (fun _ _ _ _ => trivial) b rfl
          (by
            intro x hx hbx
            have := hcl x hx (by omega)
            simp at this
            rcases this with rfl | h
            · omega
            · simpa using h)
          t ht htb'
          (by
            obtain ⟨l, hl, htl⟩ := hub
            simp at hl
            rcases hl with rfl | rfl | hl
            · omega
            · omega
            · exact ⟨l, by simp [hl], htl⟩)
        rw [← key]
        constructor
        · intro ⟨p, hp, h1, h2⟩
          simp only [List.mem_append] at hp
          rcases hp with hp | hp
          · split at hp
            · exact absurd ⟨p, hp, h1, h2⟩ hfirst
            · cases hp
          · exact ⟨p, hp, h1, h2⟩
        · intro ⟨p, hp, h1, h2⟩
          exact ⟨p, by simp only [List.mem_append]; right; exact hp, h1, h2⟩


theorem iter_comm (f : Nat → Nat) (j s : Nat) : iter f j (f s) = f (iter f j s) := by
  induction j with
  | zero => rfl
  | succ j ih => simp only [iter]; rw [ih]

theorem iter_map (f : Nat → Nat) (n : Nat) (l : List Nat) : (l.map (iter f n)).map f = l.map (iter f (n+1)) := by
  simp [List.map_map, iter, Function.comp_def]

/-- the loop's result = the accumulator plus the next `k` levels of ancestors of `cur` -/
theorem genOrLoop_mem (parent : Nat → Nat) (k : Nat) (cur acc : List Nat) (t : Nat) :
    t ∈ genOrLoop parent k cur acc ↔ t ∈ acc ∨ ∃ j, 1 ≤ j ∧ j ≤ k ∧ ∃ s ∈ cur, t = iter parent j s := by
  induction k generalizing cur acc with
  | zero =>
    simp only [genOrLoop]
    constructor
    · intro h; exact Or.inl h
    · rintro (h | ⟨j, h1, h2, _⟩)
      · exact h
      · omega
  | succ k ih =>
    simp only [genOrLoop]
    rw [ih]
    constructor
    · rintro (h | ⟨j, h1, h2, s, hs, rfl⟩)
      · rcases List.mem_append.mp h with h | h
        · exact Or.inl h
        · obtain ⟨s, hs, rfl⟩ := List.mem_map.mp h
          exact Or.inr ⟨1, by omega, by omega, s, hs, rfl⟩
      · obtain ⟨s0, hs0, rfl⟩ := List.mem_map.mp hs
        exact Or.inr ⟨j + 1, by omega, by omega, s0, hs0, iter_comm parent j s0⟩
    · rintro (h | ⟨j, h1, h2, s, hs, rfl⟩)
      · exact Or.inl (List.mem_append.mpr (Or.inl h))
      · cases j with
        | zero => omega
        | succ j =>
          cases j with
          | zero => exact Or.inl (List.mem_append.mpr (Or.inr (List.mem_map.mpr ⟨s, hs, rfl⟩)))
          | succ j =>
            exact Or.inr ⟨j + 1, by omega, by omega, parent s, List.mem_map.mpr ⟨s, hs, rfl⟩, (iter_comm parent (j+1) s).symm⟩

theorem generalizeOr_mem (parent : Nat → Nat) (k : Nat) (r : List Nat) (t : Nat) :
    t ∈ generalizeOr parent k r ↔ ∃ j, j ≤ k ∧ ∃ s ∈ r, t = iter parent j s := by
  unfold generalizeOr
  rw [genOrLoop_mem]
  constructor
  · rintro (h | ⟨j, _, h2, s, hs, rfl⟩)
    · exact ⟨0, Nat.zero_le _, t, h, rfl⟩
    · exact ⟨j, h2, s, hs, rfl⟩
  · rintro ⟨j, h2, s, hs, rfl⟩
    cases j with
    | zero => exact Or.inl hs
    | succ j => exact Or.inr ⟨j + 1, by omega, h2, s, hs, rfl⟩

end Pm.Region
