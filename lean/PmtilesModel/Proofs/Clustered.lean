import PmtilesModel.Proofs.ResolverRun
import PmtilesModel.Proofs.SyncBlocks
/-!
# What the writers (convert, cluster) produce is a clustered entry stream

The resolver appends new contents at the end of the tile data and lets repeated contents point
back: the entries, in the order they were added, satisfy `ClusteredFrom 0` (the precondition of
makesync/sync, and what verify's clustered check accepts), and the bytes they reference are exactly
the tile data written (`extent` = length of the data).
-/
namespace Pm.Resolver
open Pm Pm.Sync

/-- clusteredness read from the newest entry backwards; `e` = end of the data so far -/
def CRev : List Entry → Nat → Prop
  | [], e => e = 0
  | x :: rest, e => 0 < x.len ∧ ((x.off + x.len = e ∧ CRev rest x.off) ∨ (x.off < e ∧ CRev rest e))

theorem extent_snoc : ∀ (xs : List Entry) (s : Nat) (x : Entry),
    extent s (xs ++ [x]) = if x.off = extent s xs then extent s xs + x.len else extent s xs
  | [], s, x => by simp only [List.nil_append, extent]; rfl
  | y :: ys, s, x => by
    simp only [List.cons_append, extent]
    split
    · exact extent_snoc ys _ x
    · exact extent_snoc ys _ x

theorem clusteredFrom_snoc : ∀ (xs : List Entry) (s : Nat) (x : Entry),
    ClusteredFrom s (xs ++ [x]) ↔ (ClusteredFrom s xs ∧ 0 < x.len ∧ x.off ≤ extent s xs)
  | [], s, x => by
    simp only [List.nil_append, ClusteredFrom, extent, and_true, true_and]
    constructor
    · rintro ⟨h, h2 | h2⟩ <;> exact ⟨h, by omega⟩
    · rintro ⟨h, h2⟩
      refine ⟨h, ?_⟩
      by_cases e : x.off = s
      · exact Or.inl e
      · exact Or.inr (by omega)
  | y :: ys, s, x => by
    simp only [List.cons_append, ClusteredFrom, extent]
    constructor
    · rintro ⟨hl, ⟨e, h⟩ | ⟨e, h⟩⟩
      · obtain ⟨a, b, c⟩ := (clusteredFrom_snoc ys _ x).mp h
        rw [if_pos e]
        exact ⟨⟨hl, Or.inl ⟨e, a⟩⟩, b, c⟩
      · obtain ⟨a, b, c⟩ := (clusteredFrom_snoc ys _ x).mp h
        rw [if_neg (by omega)]
        exact ⟨⟨hl, Or.inr ⟨e, a⟩⟩, b, c⟩
    · rintro ⟨⟨hl, ⟨e, h⟩ | ⟨e, h⟩⟩, b, c⟩
      · rw [if_pos e] at c
        exact ⟨hl, Or.inl ⟨e, (clusteredFrom_snoc ys _ x).mpr ⟨h, b, c⟩⟩⟩
      · rw [if_neg (by omega)] at c
        exact ⟨hl, Or.inr ⟨e, (clusteredFrom_snoc ys _ x).mpr ⟨h, b, c⟩⟩⟩

theorem crev_forward : ∀ (rev : List Entry) (e : Nat), CRev rev e →
    ClusteredFrom 0 rev.reverse ∧ extent 0 rev.reverse = e
  | [], e, h => by simp only [CRev] at h; subst h; simp [ClusteredFrom, extent]
  | x :: rest, e, h => by
    obtain ⟨hl, ⟨h1, h2⟩ | ⟨h1, h2⟩⟩ := h
    · obtain ⟨c, ex⟩ := crev_forward rest x.off h2
      rw [List.reverse_cons]
      refine ⟨(clusteredFrom_snoc _ 0 x).mpr ⟨c, hl, by omega⟩, ?_⟩
      rw [extent_snoc, ex, if_pos rfl]; exact h1
    · obtain ⟨c, ex⟩ := crev_forward rest e h2
      rw [List.reverse_cons]
      refine ⟨(clusteredFrom_snoc _ 0 x).mpr ⟨c, hl, by omega⟩, ?_⟩
      rw [extent_snoc, ex, if_neg (by omega)]

variable (enc : Bytes → Bytes)

theorem add_crev (r : Res) (id : Nat) (blob : Bytes) (rl : Nat) (hb : 1 ≤ (enc blob).length)
    (hi : RInv enc r) (hc : CRev r.rev r.data.length) :
    CRev (add enc r id blob rl).rev (add enc r id blob rl).data.length := by
  unfold add
  cases hl : (if r.dedup then lookupSeen r.seen blob else none) with
  | some p =>
    obtain ⟨off, len⟩ := p
    obtain ⟨_, hmem⟩ := hit_mem hl
    have hs := hi.seenOk _ hmem
    simp only at hs ⊢
    cases hr : r.rev with
    | nil =>
      simp only
      rw [hr] at hc
      refine ⟨?_, Or.inr ⟨?_, hc⟩⟩ <;> simp only <;> omega
    | cons last rest =>
      simp only
      rw [hr] at hc
      split
      · -- run extended: offsets and lengths unchanged
        simp only
        exact hc
      · simp only
        refine ⟨?_, Or.inr ⟨?_, hc⟩⟩ <;> simp only <;> omega
  | none =>
    simp only [List.length_append]
    refine ⟨?_, Or.inl ⟨?_, hc⟩⟩ <;> simp only <;> omega

theorem run_crev (r : Res) (adds : List Add) (henc : ∀ a ∈ adds, 1 ≤ (enc a.2.1).length)
    (hi : RInv enc r) (hc : CRev r.rev r.data.length) :
    CRev (run enc r adds).rev (run enc r adds).data.length := by
  induction adds generalizing r with
  | nil => exact hc
  | cons a adds ih =>
    have hb := henc a (by simp)
    exact ih (add enc r a.1 a.2.1 a.2.2) (fun x hx => henc x (by simp [hx]))
      (add_inv enc r a.1 a.2.1 a.2.2 hb hi) (add_crev enc r a.1 a.2.1 a.2.2 hb hi hc)

/-- **the writers' entry stream is clustered and references exactly the data written** — for every
    sequence of adds (any IDs, any contents, dedup on or off) -/
theorem run_clustered (d : Bool) (adds : List Add) (henc : ∀ a ∈ adds, 1 ≤ (enc a.2.1).length) :
    ClusteredFrom 0 (run enc (init d) adds).rev.reverse ∧
    extent 0 (run enc (init d) adds).rev.reverse = (run enc (init d) adds).data.length := by
  apply crev_forward
  apply run_crev enc (init d) adds henc (init_inv enc d)
  simp [init, CRev]

end Pm.Resolver
