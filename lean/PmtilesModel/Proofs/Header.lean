import PmtilesModel.Model.Header
import PmtilesModel.Proofs.Bytes
namespace Pm.Header

def sum : List Nat → Nat
  | [] => 0
  | x :: xs => x + sum xs

/-- value list matches widths: same length, each value fits its width -/
def Fits : List Nat → List Nat → Prop
  | [], [] => True
  | w :: ws, v :: vs => v < 256^w ∧ Fits ws vs
  | _, _ => False

theorem encFields_length (ws vs : List Nat) (h : Fits ws vs) : (encFields ws vs).length = sum ws := by
  induction ws generalizing vs with
  | nil => cases vs <;> simp [encFields, sum]
  | cons w ws ih =>
    cases vs with
    | nil => simp [Fits] at h
    | cons v vs =>
      simp only [encFields, List.length_append, le_length, sum]
      rw [ih vs h.2]

theorem dec_enc (ws vs : List Nat) (rest : Bytes) (h : Fits ws vs) :
    decFields ws (encFields ws vs ++ rest) = vs := by
  induction ws generalizing vs with
  | nil => cases vs with
    | nil => rfl
    | cons v vs => simp [Fits] at h
  | cons w ws ih =>
    cases vs with
    | nil => simp [Fits] at h
    | cons v vs =>
      simp only [encFields, decFields, List.append_assoc]
      rw [List.take_append_of_le_length (by rw [le_length]; exact Nat.le_refl _),
          List.take_of_length_le (by rw [le_length]; exact Nat.le_refl _), unle_le w v h.1]
      rw [List.drop_append_of_le_length (by rw [le_length]; exact Nat.le_refl _),
          List.drop_of_length_le (by rw [le_length]; exact Nat.le_refl _), List.nil_append]
      rw [ih vs h.2]

theorem dec_fits (ws : List Nat) (d : Bytes) (hb : IsBytes d) (hl : sum ws ≤ d.length) :
    Fits ws (decFields ws d) := by
  induction ws generalizing d with
  | nil => simp [decFields, Fits]
  | cons w ws ih =>
    simp only [decFields, Fits, sum] at *
    refine ⟨?_, ih (d.drop w) (hb.drop w) (by simp [List.length_drop]; omega)⟩
    have := unle_lt (d.take w) (hb.take w)
    have hl' : (d.take w).length = w := by simp [List.length_take]; omega
    rw [hl'] at this; exact this

theorem enc_dec (ws : List Nat) (d : Bytes) (hb : IsBytes d) (hl : sum ws ≤ d.length) :
    encFields ws (decFields ws d) = d.take (sum ws) := by
  induction ws generalizing d with
  | nil => simp [decFields, encFields, sum]
  | cons w ws ih =>
    simp only [decFields, encFields, sum] at *
    have hl' : (d.take w).length = w := by simp [List.length_take]; omega
    have h1 := le_unle (d.take w) (hb.take w)
    rw [hl'] at h1
    rw [h1, ih (d.drop w) (hb.drop w) (by simp [List.length_drop]; omega)]
    rw [List.take_add]

/-- slice of an encoded field list at the prefix-sum offset of field `i` -/
theorem enc_slice (ws vs : List Nat) (h : Fits ws vs) (pre : Bytes) (i : Nat) (hi : i < ws.length) :
    slice (pre ++ encFields ws vs) (pre.length + sum (ws.take i)) (ws.getD i 0) = le (ws.getD i 0) (vs.getD i 0) := by
  induction ws generalizing vs pre i with
  | nil => simp at hi
  | cons w ws ih =>
    cases vs with
    | nil => simp [Fits] at h
    | cons v vs =>
      cases i with
      | zero =>
        simp only [List.take, sum, Nat.add_zero, List.getD_cons_zero, encFields, slice]
        rw [List.drop_append_of_le_length (Nat.le_refl _), List.drop_of_length_le (Nat.le_refl _), List.nil_append]
        rw [List.take_append_of_le_length (by rw [le_length]; exact Nat.le_refl _),
            List.take_of_length_le (by rw [le_length]; exact Nat.le_refl _)]
      | succ i =>
        simp only [List.take, sum, List.getD_cons_succ, encFields]
        have := ih vs h.2 (pre ++ le w v) i (by simpa using hi)
        simp only [List.length_append, le_length, List.append_assoc] at this
        rw [← this]
        congr 1
        omega

theorem toVals_fits (h : Header) (hr : InRange h) : Fits fieldWidths (toVals h) := by
  obtain ⟨h1,h2,h3,h4,h5,h6,h7,h8,h9,h10,h11,h12,h13,h14,h15,h16,h17,_,_,_,_,_,_⟩ := hr
  have e64 : (256:Nat)^8 = 2^64 := by decide
  have e32 : (256:Nat)^4 = 2^32 := by decide
  have e8 : (256:Nat)^1 = 256 := by decide
  simp only [fieldWidths, toVals, Fits, e64, e32, e8, and_true]
  refine ⟨h1,h2,h3,h4,h5,h6,h7,h8,h9,h10,h11, ?_, h12,h13,h14,h15,h16, ofI32_lt _, ofI32_lt _, ofI32_lt _, ofI32_lt _, h17, ofI32_lt _, ofI32_lt _⟩
  split <;> omega

theorem ofVals_toVals (v : Nat) (h : Header) (hr : InRange h) :
    ofVals v (toVals h) = some { h with specVersion := v } := by
  obtain ⟨_,_,_,_,_,_,_,_,_,_,_,_,_,_,_,_,_,a1,a2,a3,a4,a5,a6⟩ := hr
  simp only [toVals, ofVals]
  rw [toI32_ofI32 _ a1.1 a1.2, toI32_ofI32 _ a2.1 a2.2, toI32_ofI32 _ a3.1 a3.2,
      toI32_ofI32 _ a4.1 a4.2, toI32_ofI32 _ a5.1 a5.2, toI32_ofI32 _ a6.1 a6.2]
  cases h with | mk sv a b c d e f g hh i j k cl =>
  cases cl <;> rfl

theorem fits_length (ws vs : List Nat) (h : Fits ws vs) : vs.length = ws.length := by
  induction ws generalizing vs with
  | nil => cases vs with
    | nil => rfl
    | cons v vs => simp [Fits] at h
  | cons w ws ih =>
    cases vs with
    | nil => simp [Fits] at h
    | cons v vs => simp [ih vs h.2]

/-- a fitting value list whose clustered byte is 0 or 1 is the value list of the header it decodes to -/
theorem toVals_ofVals (ver : Nat) (vs : List Nat) (hf : Fits fieldWidths vs) (hc : vs.getD 11 0 ≤ 1) :
    ∃ h, ofVals ver vs = some h ∧ toVals h = vs ∧ h.specVersion = ver := by
  have hl := fits_length _ _ hf
  simp only [fieldWidths, List.length_cons, List.length_nil] at hl
  match vs, hl with
  | [a1,a2,a3,a4,a5,a6,a7,a8,a9,a10,a11, c, ic, tc, tt, mn, mx, b1,b2,b3,b4, cz, c1,c2], _ =>
    refine ⟨_, rfl, ?_, rfl⟩
    have e32 : (256:Nat)^4 = 2^32 := by decide
    simp only [fieldWidths, Fits, e32] at hf
    obtain ⟨_,_,_,_,_,_,_,_,_,_,_,_,_,_,_,_,_,g1,g2,g3,g4,_,g5,g6,_⟩ := hf
    simp only [toVals, ofI32_toI32 _ g1, ofI32_toI32 _ g2, ofI32_toI32 _ g3, ofI32_toI32 _ g4,
      ofI32_toI32 _ g5, ofI32_toI32 _ g6]
    simp only [List.getD_cons_succ, List.getD_cons_zero] at hc
    have : (if (c == 1) = true then 1 else 0) = c := by
      have : c = 0 ∨ c = 1 := by omega
      rcases this with rfl | rfl <;> rfl
    rw [this]

end Pm.Header
