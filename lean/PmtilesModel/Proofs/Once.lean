import PmtilesModel.Proofs.Extract
/-!
# C19, "each byte once": for a source-monotone range list the merged requests are pairwise disjoint
-/
namespace Pm.Extract
open Pm

/-- the last range of a group ends where the request ends (the last discard is 0) -/
theorem span_end : ∀ (cds : List (Nat × Nat)) (s d : Nat), cds ≠ [] → (cds.getLast?.map (·.2)) = some 0 →
    ∃ r ∈ expandAux s d cds, r.src + r.len = s + need cds
  | [], _, _, h, _ => absurd rfl h
  | [(w, g)], s, d, _, hl => by
    simp only [List.getLast?_singleton, Option.map_some, Option.some.injEq] at hl
    subst hl
    exact ⟨⟨s, d, w⟩, by simp [expandAux], by simp [need]⟩
  | (w, g) :: c2 :: rest, s, d, _, hl => by
    obtain ⟨r, hr, e⟩ := span_end (c2 :: rest) (s + w + g) (d + w) (by simp) (by simpa [List.getLast?_cons_cons] using hl)
    refine ⟨r, ?_, ?_⟩
    · simp only [expandAux, List.mem_cons]; right; simpa [expandAux] using hr
    · rw [e]; simp only [need]; omega

/-- the first range of a group starts where the request starts -/
theorem span_start (cds : List (Nat × Nat)) (s d : Nat) (h : cds ≠ []) :
    ∃ r ∈ expandAux s d cds, r.src = s := by
  cases cds with
  | nil => exact absurd rfl h
  | cons c rest => obtain ⟨w, g⟩ := c; exact ⟨⟨s, d, w⟩, by simp [expandAux], rfl⟩

theorem groups_disjoint : ∀ (ps : List Plan),
    (∀ p ∈ ps, p.rng.len = need p.cds ∧ (p.cds.getLast?.map (·.2)) = some 0) →
    ((ps.map expand).flatten).Pairwise (fun a b => a.src + a.len ≤ b.src) →
    ps.Pairwise (fun p q => p.rng.src + p.rng.len ≤ q.rng.src)
  | [], _, _ => List.Pairwise.nil
  | p :: rest, hp, hch => by
    simp only [List.map_cons, List.flatten_cons] at hch
    obtain ⟨_, h2, h3⟩ := List.pairwise_append.mp hch
    refine List.Pairwise.cons ?_ (groups_disjoint rest (fun q hq => hp q (by simp [hq])) h2)
    intro q hq
    obtain ⟨hlen, hlast⟩ := hp p (by simp)
    obtain ⟨_, hlastq⟩ := hp q (by simp [hq])
    have hne : p.cds ≠ [] := by intro e; rw [e] at hlast; simp at hlast
    have hneq : q.cds ≠ [] := by intro e; rw [e] at hlastq; simp at hlastq
    obtain ⟨a, ha, ea⟩ := span_end p.cds p.rng.src p.rng.dst hne hlast
    obtain ⟨b, hb, eb⟩ := span_start q.cds q.rng.src q.rng.dst hneq
    have hbm : b ∈ (rest.map expand).flatten := by
      rw [List.mem_flatten]; exact ⟨expand q, List.mem_map.mpr ⟨q, hq, rfl⟩, hb⟩
    have := h3 a ha b hbm
    rw [hlen, ← ea, ← eb]; exact this

theorem mergeOK_last {ranges : List Rng} {budget : Nat} {plans : List Plan} (h : mergeOK ranges budget plans = true) :
    ∀ p ∈ plans, (p.cds.getLast?.map (·.2)) = some 0 := by
  simp only [mergeOK, Bool.and_eq_true, decide_eq_true_eq, List.all_eq_true] at h
  exact fun p hp => (h.1.2 p hp).2

end Pm.Extract
