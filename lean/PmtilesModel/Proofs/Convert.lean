import PmtilesModel.Model.Convert
import PmtilesModel.Proofs.ResolverRun
namespace Pm.Convert
open Pm Pm.Resolver

theorem mem_insertUniq (x y : Nat) (l : List Nat) : y ∈ insertUniq x l ↔ y = x ∨ y ∈ l := by
  induction l with
  | nil => simp [insertUniq]
  | cons z zs ih =>
    simp only [insertUniq]
    split
    · simp
    · split
      · rename_i h1 h2; subst h2; simp
      · simp only [List.mem_cons, ih]
        constructor
        · rintro (h | h | h)
          · right; left; exact h
          · left; exact h
          · right; right; exact h
        · rintro (h | h | h)
          · right; left; exact h
          · left; exact h
          · right; right; exact h

theorem sorted_insertUniq (x : Nat) (l : List Nat) (h : l.Pairwise (· < ·)) : (insertUniq x l).Pairwise (· < ·) := by
  induction l with
  | nil => simp [insertUniq]
  | cons z zs ih =>
    have hz := (List.pairwise_cons.mp h).1
    have hzs := (List.pairwise_cons.mp h).2
    simp only [insertUniq]
    split
    · rename_i hlt
      refine List.pairwise_cons.mpr ⟨?_, h⟩
      intro a ha
      simp only [List.mem_cons] at ha
      rcases ha with rfl | ha
      · exact hlt
      · exact Nat.lt_trans hlt (hz a ha)
    · split
      · exact h
      · rename_i h1 h2
        refine List.pairwise_cons.mpr ⟨?_, ih hzs⟩
        intro a ha
        rcases (mem_insertUniq x a zs).mp ha with rfl | ha
        · omega
        · exact hz a ha

theorem idSet_sorted (rows : List Row) : (idSet rows).Pairwise (· < ·) := by
  induction rows with
  | nil => simp [idSet]
  | cons r rs ih => exact sorted_insertUniq _ _ ih

theorem mem_idSet (rows : List Row) (t : Nat) : t ∈ idSet rows ↔ ∃ r ∈ rows, rowId r = t := by
  induction rows with
  | nil => simp [idSet]
  | cons r rs ih =>
    have : idSet (r :: rs) = insertUniq (rowId r) (idSet rs) := rfl
    rw [this, mem_insertUniq, ih]
    constructor
    · rintro (h | ⟨q, hq, hq2⟩)
      · exact ⟨r, by simp, h.symm⟩
      · exact ⟨q, by simp [hq], hq2⟩
    · rintro ⟨q, hq, hq2⟩
      simp only [List.mem_cons] at hq
      rcases hq with rfl | hq
      · left; exact hq2.symm
      · right; exact ⟨q, hq, hq2⟩

theorem blobOf_none_iff (rows : List Row) (t : Nat) : blobOf rows t = none ↔ ¬ ∃ r ∈ rows, rowId r = t := by
  unfold blobOf
  rw [Option.map_eq_none_iff, List.find?_eq_none]
  constructor
  · intro h ⟨r, hr, he⟩; exact h r hr (by simp [he])
  · intro h r hr hc; exact h ⟨r, hr, by simpa using hc⟩

/-- one add per ID with `f id = some (id, _, 1)`: the covering add of `t` is `f t` -/
theorem find_filterMap (l : List Nat) (f : Nat → Option Add)
    (hf : ∀ id a, f id = some a → a.1 = id ∧ a.2.2 = 1) (t : Nat) :
    (l.filterMap f).find? (addCovers t) = if t ∈ l then f t else none := by
  induction l with
  | nil => simp
  | cons y ys ih =>
    simp only [List.filterMap_cons]
    cases hy : f y with
    | none =>
      simp only [ih, List.mem_cons]
      by_cases hty : t = y
      · subst hty; simp [hy]
      · simp [hty]
    | some a =>
      obtain ⟨h1, h2⟩ := hf y a hy
      simp only [List.find?_cons, List.mem_cons]
      by_cases hty : t = y
      · subst hty
        have : addCovers t a = true := by simp [addCovers, h1, h2]
        simp [this, hy]
      · have : addCovers t a = false := by simp [addCovers, h1, h2]; omega
        simp [this, ih, hty]

theorem ascAdds_filterMap (l : List Nat) (f : Nat → Option Add)
    (hf : ∀ id a, f id = some a → a.1 = id ∧ a.2.2 = 1) (hs : l.Pairwise (· < ·)) (lo : Nat)
    (hlo : ∀ x ∈ l, lo ≤ x) : AscAdds lo (l.filterMap f) := by
  induction l generalizing lo with
  | nil => trivial
  | cons y ys ih =>
    have hy := (List.pairwise_cons.mp hs).1
    have hys := (List.pairwise_cons.mp hs).2
    simp only [List.filterMap_cons]
    cases hfy : f y with
    | none => exact ih hys lo (fun x hx => hlo x (by simp [hx]))
    | some a =>
      obtain ⟨h1, h2⟩ := hf y a hfy
      refine ⟨by rw [h1]; exact hlo y (by simp), ?_⟩
      rw [h1, h2]
      exact ih hys (y + 1) (fun x hx => hy x hx)

def convF (rows : List Row) : Nat → Option Add := fun id =>
  match blobOf rows id with
  | some b => if b.isEmpty then none else some (id, b, 1)
  | none => none

theorem convF_spec (rows : List Row) : ∀ id a, convF rows id = some a → a.1 = id ∧ a.2.2 = 1 := by
  intro id a h
  unfold convF at h
  cases hb : blobOf rows id with
  | none => rw [hb] at h; cases h
  | some b =>
    rw [hb] at h
    simp only at h
    split at h
    · cases h
    · cases h; exact ⟨rfl, rfl⟩

theorem convertAdds_eq (rows : List Row) : convertAdds rows = (idSet rows).filterMap (convF rows) := rfl

theorem convertAdds_asc (rows : List Row) : AscAdds 0 (convertAdds rows) :=
  ascAdds_filterMap _ _ (convF_spec rows) (idSet_sorted rows) 0 (fun _ _ => Nat.zero_le _)

theorem convertAdds_find (rows : List Row) (t : Nat) :
    (convertAdds rows).find? (addCovers t) = convF rows t := by
  rw [convertAdds_eq, find_filterMap _ _ (convF_spec rows)]
  by_cases h : t ∈ idSet rows
  · simp [h]
  · simp only [h, if_false]
    have : blobOf rows t = none := (blobOf_none_iff rows t).mpr (by rw [← mem_idSet]; exact h)
    unfold convF; rw [this]

theorem convertAdds_nonempty (rows : List Row) : ∀ a ∈ convertAdds rows, a.2.1 ≠ [] := by
  intro a ha
  rw [convertAdds_eq] at ha
  obtain ⟨id, _, hid⟩ := List.mem_filterMap.mp ha
  unfold convF at hid
  cases hb : blobOf rows id with
  | none => rw [hb] at hid; cases hid
  | some b =>
    rw [hb] at hid
    simp only at hid
    split at hid
    · cases hid
    · rename_i hne
      cases hid
      intro hc
      have hb2 : b = [] := hc
      apply hne; simp [hb2]

end Pm.Convert
