import PmtilesModel.Proofs.SyncPlan
import PmtilesModel.Proofs.Uvarint
import PmtilesModel.Proofs.Bytes
/-!
# makesync: the blocks tile the referenced tile data; the `.sync` body round-trips;
a block list whose starts are local tile IDs is matched without skipping anything
-/
namespace Pm.Sync
open Pm

/-! ## clustered entry streams -/

/-- entries in tile-ID order whose contents are laid out back to back: each entry starts exactly at
    the running end (new content) or points back below it (deduplicated content) -/
def ClusteredFrom : Nat → List Entry → Prop
  | _, [] => True
  | end_, e :: es => 0 < e.len ∧ ((e.off = end_ ∧ ClusteredFrom (end_ + e.len) es) ∨ (e.off < end_ ∧ ClusteredFrom end_ es))

/-- the running end after the stream: the number of tile-data bytes the entries reference -/
def extent : Nat → List Entry → Nat
  | end_, [] => end_
  | end_, e :: es => if e.off = end_ then extent (end_ + e.len) es else extent end_ es

def TileC : Nat → List Cur → Nat → Prop
  | off, [], n => off = n
  | off, c :: cs, n => c.off = off ∧ TileC (off + c.len) cs n

theorem tileC_snoc_iff : ∀ (xs : List Cur) (o : Nat) (c : Cur) (n : Nat),
    TileC o (xs ++ [c]) n ↔ TileC o xs c.off ∧ n = c.off + c.len
  | [], o, c, n => by simp only [List.nil_append, TileC]; omega
  | x :: xs, o, c, n => by
    simp only [List.cons_append, TileC, tileC_snoc_iff xs (o + x.len) c n]
    constructor
    · rintro ⟨h1, h2, h3⟩; exact ⟨⟨h1, h2⟩, h3⟩
    · rintro ⟨⟨h1, h2⟩, h3⟩; exact ⟨h1, h2, h3⟩

theorem tile_hashBlocks (hashFn : Bytes → Nat) (file : Bytes) (tdo : Nat) :
    ∀ (cs : List Cur) (o n : Nat), TileC o cs n → Tile o (hashBlocks hashFn file tdo cs) n
  | [], _, _, h => h
  | c :: cs, o, n, h => ⟨h.1, tile_hashBlocks hashFn file tdo cs _ n h.2⟩

/-- invariant of the makesync fold: emitted blocks plus the current one tile `[0, end)` -/
def MkInv (st : Cur × List Cur) (end_ : Nat) : Prop :=
  TileC 0 (st.2 ++ [st.1]) end_ ∧ (st.1.len = 0 → st.2 = [] ∧ st.1.off = 0)

theorem mkFold_tile (bs : Nat) : ∀ (es : List Entry) (st : Cur × List Cur) (end_ : Nat),
    ClusteredFrom end_ es → MkInv st end_ →
    ∃ st', mkFold bs st es = some st' ∧ MkInv st' (extent end_ es)
  | [], st, end_, _, hi => ⟨st, rfl, hi⟩
  | e :: es, (cur, out), end_, hc, hi => by
    obtain ⟨hlen, hcase⟩ := hc
    obtain ⟨ht, hz⟩ := hi
    simp only at ht hz
    obtain ⟨ht1, hend⟩ := (tileC_snoc_iff out 0 cur end_).mp ht
    by_cases h0 : cur.len = 0
    · obtain ⟨ho, hoff⟩ := hz h0
      have hend0 : end_ = 0 := by omega
      have heoff : e.off = end_ := by rcases hcase with ⟨h, _⟩ | ⟨h, _⟩ <;> omega
      have hcl : ClusteredFrom (end_ + e.len) es := by
        rcases hcase with ⟨_, h⟩ | ⟨h, _⟩
        · exact h
        · omega
      have hstep : mkStep bs (cur, out) e = some (⟨e.id, e.off, e.len⟩, out) := by
        simp [mkStep, h0]
      have hinv : MkInv (⟨e.id, e.off, e.len⟩, out) (end_ + e.len) := by
        constructor
        · subst ho
          simp only [List.nil_append, TileC]; omega
        · intro h; simp only at h; omega
      obtain ⟨st', h1, h2⟩ := mkFold_tile bs es _ _ hcl hinv
      refine ⟨st', ?_, ?_⟩
      · simp only [mkFold, hstep]; exact h1
      · simp only [extent, if_pos heoff]; exact h2
    · rcases hcase with ⟨heq, hcl⟩ | ⟨hlt, hcl⟩
      · -- new content at the running end: start a new block or extend the current one
        by_cases hbig : cur.len + e.len > bs
        · have hstep : mkStep bs (cur, out) e = some (⟨e.id, e.off, e.len⟩, out ++ [cur]) := by
            have : ¬ (e.off > cur.off + cur.len) := by omega
            have h2 : e.off = cur.off + cur.len := by omega
            simp [mkStep, h0, this, h2, hbig]
          have hinv : MkInv (⟨e.id, e.off, e.len⟩, out ++ [cur]) (end_ + e.len) := by
            constructor
            · simp only
              rw [tileC_snoc_iff]
              simp only
              refine ⟨?_, by omega⟩
              rw [tileC_snoc_iff]
              exact ⟨ht1, by omega⟩
            · intro h; simp only at h; omega
          obtain ⟨st', h1, h2⟩ := mkFold_tile bs es _ _ hcl hinv
          refine ⟨st', ?_, ?_⟩
          · simp only [mkFold, hstep]; exact h1
          · simp only [extent, if_pos heq]; exact h2
        · have hstep : mkStep bs (cur, out) e = some ({ cur with len := cur.len + e.len }, out) := by
            have : ¬ (e.off > cur.off + cur.len) := by omega
            have h2 : e.off = cur.off + cur.len := by omega
            simp [mkStep, h0, this, h2, hbig]
          have hinv : MkInv ({ cur with len := cur.len + e.len }, out) (end_ + e.len) := by
            constructor
            · simp only
              rw [tileC_snoc_iff]
              simp only
              exact ⟨ht1, by omega⟩
            · intro h; simp only at h; omega
          obtain ⟨st', h1, h2⟩ := mkFold_tile bs es _ _ hcl hinv
          refine ⟨st', ?_, ?_⟩
          · simp only [mkFold, hstep]; exact h1
          · simp only [extent, if_pos heq]; exact h2
      · -- deduplicated content: the entry points below the running end and is skipped
        have hstep : mkStep bs (cur, out) e = some (cur, out) := by
          have h1 : ¬ (e.off > cur.off + cur.len) := by omega
          have h2 : ¬ (e.off = cur.off + cur.len) := by omega
          simp [mkStep, h0, h1, h2]
        obtain ⟨st', h1, h2⟩ := mkFold_tile bs es (cur, out) end_ hcl ⟨ht, hz⟩
        refine ⟨st', ?_, ?_⟩
        · simp only [mkFold, hstep]; exact h1
        · have : ¬ (e.off = end_) := by omega
          simp only [extent, if_neg this]; exact h2

/-- **makesync cuts a clustered archive's tile data into blocks that tile it exactly** -/
theorem mkBlocks_tile (bs : Nat) (es : List Entry) (hc : ClusteredFrom 0 es) :
    ∃ cs, mkBlocks bs es = some cs ∧ TileC 0 cs (extent 0 es) := by
  have h0 : MkInv (⟨0, 0, 0⟩, []) 0 := by
    constructor
    · simp [TileC]
    · intro _; exact ⟨rfl, rfl⟩
  obtain ⟨⟨cur, out⟩, h1, h2, _⟩ := mkFold_tile bs es _ 0 hc h0
  exact ⟨out ++ [cur], by simp [mkBlocks, h1], h2⟩

/-! ## where the block starts come from -/

/-- block starts are a subsequence of the tile IDs seen so far, and each block begins at the
    offset of the entry whose ID it carries -/
def StartsInv (st : Cur × List Cur) (pre : List Entry) : Prop :=
  (st.1.len = 0 → st.2 = [] ∧ pre = []) ∧
  (0 < st.1.len → ((st.2 ++ [st.1]).map (·.start)).Sublist (pre.map (·.id)) ∧
    ∀ c ∈ st.2 ++ [st.1], ∃ e ∈ pre, e.id = c.start ∧ e.off = c.off)

theorem mkFold_starts (bs : Nat) : ∀ (es : List Entry) (st st' : Cur × List Cur) (pre : List Entry),
    (∀ e ∈ es, 0 < e.len) → StartsInv st pre → mkFold bs st es = some st' → StartsInv st' (pre ++ es)
  | [], st, st', pre, _, hi, h => by
    simp only [mkFold, Option.some.injEq] at h
    subst h; simpa using hi
  | e :: es, (cur, out), st', pre, hl, hi, h => by
    have hel : 0 < e.len := hl e (by simp)
    have hl' : ∀ x ∈ es, 0 < x.len := fun x hx => hl x (by simp [hx])
    simp only [mkFold] at h
    cases hs : mkStep bs (cur, out) e with
    | none => rw [hs] at h; cases h
    | some st1 =>
      rw [hs] at h
      simp only at h
      have key : StartsInv st1 (pre ++ [e]) := by
        obtain ⟨hz, hp⟩ := hi
        simp only at hz hp
        unfold mkStep at hs
        simp only at hs
        by_cases h0 : cur.len = 0
        · obtain ⟨ho, hpre⟩ := hz h0
          rw [if_pos h0] at hs
          simp only [Option.some.injEq] at hs
          subst hs; subst ho; subst hpre
          constructor
          · intro h; simp only at h; omega
          · intro _
            simp only [List.nil_append, List.map_cons, List.map_nil, List.mem_singleton, forall_eq]
            exact ⟨List.Sublist.refl _, e, by simp, rfl, rfl⟩
        · rw [if_neg h0] at hs
          obtain ⟨hsub, hmem⟩ := hp (by omega)
          have hsub' : ((out ++ [cur]).map (·.start)).Sublist ((pre ++ [e]).map (·.id)) := by
            have : (pre ++ [e]).map (·.id) = pre.map (·.id) ++ [e.id] := by simp
            rw [this]
            exact hsub.trans (List.sublist_append_left _ _)
          have hmem' : ∀ c ∈ out ++ [cur], ∃ x ∈ pre ++ [e], x.id = c.start ∧ x.off = c.off := by
            intro c hc
            obtain ⟨x, hx, h1, h2⟩ := hmem c hc
            exact ⟨x, by simp [hx], h1, h2⟩
          split at hs
          · cases hs
          · split at hs
            · split at hs
              · simp only [Option.some.injEq] at hs
                subst hs
                constructor
                · intro h; simp only at h; omega
                · intro _
                  simp only
                  constructor
                  · rw [List.map_append, List.map_append (l₁ := pre)]
                    exact List.Sublist.append hsub (List.Sublist.refl _)
                  · intro c hc
                    rcases List.mem_append.mp hc with hc | hc
                    · exact hmem' c hc
                    · simp only [List.mem_singleton] at hc
                      subst hc
                      exact ⟨e, by simp, rfl, rfl⟩
              · simp only [Option.some.injEq] at hs
                subst hs
                constructor
                · intro h; simp only at h; omega
                · intro _
                  simp only
                  constructor
                  · simpa using hsub'
                  · intro c hc
                    rcases List.mem_append.mp hc with hc | hc
                    · exact hmem' c (by simp [hc])
                    · simp only [List.mem_singleton] at hc
                      subst hc
                      obtain ⟨x, hx, h1, h2⟩ := hmem' cur (by simp)
                      exact ⟨x, hx, h1, h2⟩
            · simp only [Option.some.injEq] at hs
              subst hs
              exact ⟨fun h => absurd h h0, fun _ => ⟨hsub', hmem'⟩⟩
      have := mkFold_starts bs es st1 st' (pre ++ [e]) hl' key h
      simpa using this

theorem mkBlocks_starts (bs : Nat) (es : List Entry) (cs : List Cur) (hl : ∀ e ∈ es, 0 < e.len) (hne : es ≠ [])
    (h : mkBlocks bs es = some cs) :
    (cs.map (·.start)).Sublist (es.map (·.id)) ∧ ∀ c ∈ cs, ∃ e ∈ es, e.id = c.start ∧ e.off = c.off := by
  unfold mkBlocks at h
  cases hf : mkFold bs (⟨0, 0, 0⟩, []) es with
  | none => rw [hf] at h; cases h
  | some st' =>
    rw [hf] at h
    obtain ⟨cur, out⟩ := st'
    simp only [Option.some.injEq] at h
    subst h
    have h0 : StartsInv (⟨0, 0, 0⟩, []) [] := ⟨fun _ => ⟨rfl, rfl⟩, fun h => by simp at h⟩
    obtain ⟨hz, hp⟩ := mkFold_starts bs es _ _ [] hl h0 hf
    simp only [List.nil_append] at hz hp
    by_cases h0 : cur.len = 0
    · exact absurd (hz h0).2 hne
    · exact hp (by omega)

/-! ## the `.sync` body round-trips -/

theorem deser_ser : ∀ (blocks : List Block) (last off : Nat) (rest : Bytes) (n : Nat),
    Tile off blocks n → last < W →
    (blocks.map (·.start)).Pairwise (· ≤ ·) → (∀ b ∈ blocks, last ≤ b.start ∧ b.start < W ∧ b.len < 2^64 ∧ b.hash < 2^64) →
    deserBlocks blocks.length last off (serBlocks last blocks ++ rest) = some blocks
  | [], _, _, _, _, _, _, _, _ => rfl
  | b :: bs, last, off, rest, n, ht, hl, hs, hb => by
    obtain ⟨hoff, ht'⟩ := ht
    obtain ⟨h1, h2, h3, h4⟩ := hb b (by simp)
    have hd : (b.start + W - last) % W = b.start - last := by
      have : b.start + W - last = (b.start - last) + W := by omega
      rw [this, Nat.add_mod_right, Nat.mod_eq_of_lt (by omega)]
    have hW : W = 2^64 := rfl
    simp only [List.length_cons, serBlocks, deserBlocks, List.append_assoc, hd]
    rw [read_put (b.start - last) (by omega)]
    simp only
    rw [read_put b.len h3]
    simp only
    have l8 : (le 8 b.hash).length = 8 := le_length 8 b.hash
    have hlen : ¬ ((le 8 b.hash ++ (serBlocks b.start bs ++ rest)).length < 8) := by
      simp only [List.length_append, l8]; omega
    rw [if_neg hlen]
    have hst : (last + (b.start - last)) % W = b.start := by
      rw [Nat.mod_eq_of_lt (by omega)]; omega
    rw [hst]
    have hdrop : (le 8 b.hash ++ (serBlocks b.start bs ++ rest)).drop 8 = serBlocks b.start bs ++ rest := by
      exact List.drop_left' l8
    have htake : (le 8 b.hash ++ (serBlocks b.start bs ++ rest)).take 8 = le 8 b.hash := by
      exact List.take_left' l8
    rw [hdrop, htake]
    have hrec := deser_ser bs b.start (off + b.len) rest n ht' h2 (List.Pairwise.of_cons (by simpa using hs))
      (fun x hx => by
        obtain ⟨_, q2, q3, q4⟩ := hb x (by simp [hx])
        have : b.start ≤ x.start := by
          have := List.rel_of_pairwise_cons (by simpa using hs) (List.mem_map.mpr ⟨x, hx, rfl⟩)
          exact this
        exact ⟨this, q2, q3, q4⟩)
    rw [hrec]
    simp only
    have hu : unle (le 8 b.hash) = b.hash := unle_le 8 b.hash (by simpa using h4)
    rw [hu]
    cases b
    simp only at hoff
    subst hoff
    rfl

/-! ## diff against a stream that contains every block start -/

theorem diff_all_tasks : ∀ (es : List Entry) (st : DiffSt),
    (st.rest.map (·.start)).Sublist (es.map (·.id)) → es.Pairwise (fun a b => a.id < b.id) →
    ∃ ts : List (Block × Nat), es.foldl diffStep st = { rest := [], tasks := st.tasks ++ ts, wanted := st.wanted } ∧
      ts.map (·.1) = st.rest ∧ ∀ t ∈ ts, ∃ e ∈ es, e.id = t.1.start ∧ e.off = t.2
  | [], ⟨rest, tasks, wanted⟩, hsub, _ => by
    simp only [List.map_nil, List.sublist_nil, List.map_eq_nil_iff] at hsub
    subst hsub
    exact ⟨[], by simp, rfl, by simp⟩
  | e :: es, st, hsub, hp => by
    have hp' := List.Pairwise.of_cons hp
    have hlt : ∀ x ∈ es, e.id < x.id := fun x hx => List.rel_of_pairwise_cons hp hx
    cases hr : st.rest with
    | nil =>
      have hstep : diffStep st e = st := by unfold diffStep; rw [hr]
      obtain ⟨ts, h1, h2, h3⟩ := diff_all_tasks es st (by simp [hr]) hp'
      refine ⟨ts, by rw [List.foldl_cons, hstep]; exact h1, by rw [h2, hr], fun t ht => ?_⟩
      obtain ⟨x, hx, q⟩ := h3 t ht
      exact ⟨x, by simp [hx], q⟩
    | cons b r =>
      rw [hr] at hsub
      simp only [List.map_cons] at hsub
      -- the head block's start is either this entry's ID or a later one
      have hcases : ((b.start :: r.map (·.start)).Sublist (es.map (·.id))) ∨
          (b.start = e.id ∧ (r.map (·.start)).Sublist (es.map (·.id))) := by
        rcases List.sublist_cons_iff.mp hsub with h | ⟨r', e1, h⟩
        · exact Or.inl h
        · simp only [List.cons.injEq] at e1
          obtain ⟨e2, e3⟩ := e1
          subst e3
          exact Or.inr ⟨e2, h⟩
      have hge : ¬ (b.start < e.id) := by
        rcases hcases with h | ⟨h, _⟩
        · have : b.start ∈ es.map (·.id) := h.subset (by simp)
          obtain ⟨x, hx, e1⟩ := List.mem_map.mp this
          have := hlt x hx
          omega
        · omega
      have htw : (b :: r).takeWhile (fun b : Block => decide (b.start < e.id)) = [] := by
        simp [List.takeWhile_cons, hge]
      have hdw : (b :: r).dropWhile (fun b : Block => decide (b.start < e.id)) = b :: r := by
        simp [List.dropWhile_cons, hge]
      by_cases heq : e.id = b.start
      · have hstep : diffStep st e = { rest := r, tasks := st.tasks ++ [(b, e.off)], wanted := st.wanted } := by
          unfold diffStep; rw [hr]; simp only [htw, hdw, if_pos heq, List.append_nil]
        have hsub' : (r.map (·.start)).Sublist (es.map (·.id)) := by
          rcases hcases with h | ⟨_, h⟩
          · exact (List.sublist_cons_self _ _).trans h
          · exact h
        obtain ⟨ts, h1, h2, h3⟩ := diff_all_tasks es { rest := r, tasks := st.tasks ++ [(b, e.off)], wanted := st.wanted } hsub' hp'
        refine ⟨(b, e.off) :: ts, ?_, ?_, ?_⟩
        · rw [List.foldl_cons, hstep, h1]; simp
        · simp only [List.map_cons]; rw [h2]
        · intro t ht
          rcases List.mem_cons.mp ht with e1 | hm
          · subst e1; exact ⟨e, by simp, heq, rfl⟩
          · obtain ⟨x, hx, q⟩ := h3 t hm
            exact ⟨x, by simp [hx], q⟩
      · have hstep : diffStep st e = { rest := b :: r, tasks := st.tasks, wanted := st.wanted } := by
          unfold diffStep; rw [hr]; simp only [htw, hdw, if_neg heq, List.append_nil]
        have hsub' : ((b :: r).map (·.start)).Sublist (es.map (·.id)) := by
          rcases hcases with h | ⟨h, _⟩
          · exact h
          · exact absurd h.symm heq
        obtain ⟨ts, h1, h2, h3⟩ := diff_all_tasks es { rest := b :: r, tasks := st.tasks, wanted := st.wanted } hsub' hp'
        refine ⟨ts, ?_, ?_, ?_⟩
        · rw [List.foldl_cons, hstep, h1]
        · rw [h2]
        · intro t ht
          obtain ⟨x, hx, q⟩ := h3 t ht
          exact ⟨x, by simp [hx], q⟩

end Pm.Sync
