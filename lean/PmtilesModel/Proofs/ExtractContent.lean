import PmtilesModel.Proofs.Extract
/-!
# Extract keeps every relevant tile's bytes (content preservation of `reencodeEntries`)

`RInv` (Proofs/Extract.lean) says the output ranges tile `[0, total)`.  This file adds what the
re-encoded ENTRIES point at: entry `i` of the output has the ID, run length and length of entry `i`
of the input, and the bytes at its new offset in the rendered tile data are the bytes at the old
offset in the source — for first occurrences (appended at the end) and for repeated offsets
(looked up in `seen`) alike.  The code keys `seen` by source offset only; that equal offsets mean
equal lengths is the hypothesis `OffLen` (true of every archive whose entries address whole
contents, and necessary: see `offlen_needed`).
-/
namespace Pm.Extract
open Pm

/-- pointwise relation between two lists of the same length -/
def All₂ (R : Entry → Entry → Prop) : List Entry → List Entry → Prop
  | [], [] => True
  | o :: os, e :: es => R o e ∧ All₂ R os es
  | _, _ => False

theorem All₂.imp {R Q : Entry → Entry → Prop} (h : ∀ a b, R a b → Q a b) :
    ∀ {l₁ l₂ : List Entry}, All₂ R l₁ l₂ → All₂ Q l₁ l₂
  | [], [], _ => trivial
  | _ :: _, _ :: _, ⟨h1, h2⟩ => ⟨h _ _ h1, All₂.imp h h2⟩
  | [], _ :: _, hf => hf.elim
  | _ :: _, [], hf => hf.elim

theorem All₂.length_eq {R : Entry → Entry → Prop} : ∀ {l₁ l₂ : List Entry}, All₂ R l₁ l₂ → l₁.length = l₂.length
  | [], [], _ => rfl
  | _ :: _, _ :: _, ⟨_, h2⟩ => by simp [All₂.length_eq h2]
  | [], _ :: _, hf => hf.elim
  | _ :: _, [], hf => hf.elim

theorem All₂.left {R : Entry → Entry → Prop} : ∀ {l₁ l₂ : List Entry}, All₂ R l₁ l₂ → ∀ o ∈ l₁, ∃ e ∈ l₂, R o e
  | [], [], _ => fun _ h => by simp at h
  | a :: as, b :: bs, ⟨h1, h2⟩ => fun o ho => by
      rcases List.mem_cons.mp ho with rfl | ho
      · exact ⟨b, by simp, h1⟩
      · obtain ⟨e, he, hr⟩ := All₂.left h2 o ho
        exact ⟨e, by simp [he], hr⟩
  | [], _ :: _, hf => hf.elim
  | _ :: _, [], hf => hf.elim

theorem All₂.right {R : Entry → Entry → Prop} : ∀ {l₁ l₂ : List Entry}, All₂ R l₁ l₂ → ∀ e ∈ l₂, ∃ o ∈ l₁, R o e
  | [], [], _ => fun _ h => by simp at h
  | a :: as, b :: bs, ⟨h1, h2⟩ => fun e he => by
      rcases List.mem_cons.mp he with rfl | he
      · exact ⟨a, by simp, h1⟩
      · obtain ⟨o, ho, hr⟩ := All₂.right h2 e he
        exact ⟨o, by simp [ho], hr⟩
  | [], _ :: _, hf => hf.elim
  | _ :: _, [], hf => hf.elim

/-- output entry `o` re-encodes source entry `e`: same tile run, same length, same bytes -/
def Keeps (src out : Bytes) (o e : Entry) : Prop :=
  o.id = e.id ∧ o.rl = e.rl ∧ o.len = e.len ∧ o.off + o.len ≤ out.length ∧
    slice out o.off o.len = slice src e.off e.len

theorem slice_append_left (a b : Bytes) (o l : Nat) (h : o + l ≤ a.length) :
    slice (a ++ b) o l = slice a o l := by
  unfold slice
  rw [List.drop_append_of_le_length (by omega), List.take_append_of_le_length (by simp; omega)]

theorem slice_append_right (a b : Bytes) : slice (a ++ b) a.length b.length = b := by
  unfold slice
  rw [List.drop_left', List.take_length]
  rfl

theorem Keeps.mono {src out : Bytes} (x : Bytes) {o e : Entry} (h : Keeps src out o e) : Keeps src (out ++ x) o e := by
  obtain ⟨h1, h2, h3, h4, h5⟩ := h
  refine ⟨h1, h2, h3, by simp; omega, ?_⟩
  rw [slice_append_left _ _ _ _ h4]; exact h5

theorem lookup_some {seen : List (Nat × Nat)} {o v : Nat} (h : lookup seen o = some v) : (o, v) ∈ seen := by
  unfold lookup at h
  split at h
  · rename_i p hp
    have hm := List.mem_of_find?_eq_some hp
    have hq := List.find?_some hp
    simp at hq h
    obtain ⟨a, b⟩ := p
    simp at hq h
    subst hq; subst h
    exact hm
  · cases h

/-- what `seen` remembers: the bytes at the new offset are the bytes at the source offset -/
def SeenOK (src out : Bytes) (done : List Entry) (p : Nat × Nat) : Prop :=
  ∃ e ∈ done, e.off = p.1 ∧ p.2 + e.len ≤ out.length ∧ slice out p.2 e.len = slice src p.1 e.len

structure CInv (src : Bytes) (s : RS) (done : List Entry) : Prop where
  r : RInv src s
  keeps : All₂ (Keeps src (render src s.ranges)) s.out done
  seen : ∀ p ∈ s.seen, SeenOK src (render src s.ranges) done p

theorem step_cinv (src : Bytes) (s : RS) (done : List Entry) (e : Entry) (hi : CInv src s done)
    (he : e.off + e.len ≤ src.length) (hol : ∀ a ∈ done, a.off = e.off → a.len = e.len) :
    CInv src (step s e) (e :: done) := by
  have hr' := step_tiles src s e hi.r he
  cases hl : lookup s.seen e.off with
  | some v =>
    have hranges : (step s e).ranges = s.ranges := by unfold step; rw [hl]
    have hout : (step s e).out = ⟨e.id, v, e.len, e.rl⟩ :: s.out := by unfold step; rw [hl]
    have hseen : (step s e).seen = s.seen := by unfold step; rw [hl]
    obtain ⟨e0, he0, ho, hlen, hsl⟩ := hi.seen _ (lookup_some hl)
    simp only at ho hlen hsl
    have hl0 : e0.len = e.len := hol e0 he0 ho
    refine ⟨hr', ?_, ?_⟩
    · rw [hout, hranges]
      refine ⟨⟨rfl, rfl, rfl, by simp only; omega, ?_⟩, hi.keeps⟩
      simp only; rw [← hl0]; exact hsl
    · rw [hseen, hranges]
      intro p hp
      obtain ⟨a, ha, h1, h2, h3⟩ := hi.seen p hp
      exact ⟨a, by simp [ha], h1, h2, h3⟩
  | none =>
    have hrender := render_step src s e he hl
    have hout : (step s e).out = ⟨e.id, s.dstOff, e.len, e.rl⟩ :: s.out := by unfold step; rw [hl]
    have hseen : (step s e).seen = (e.off, s.dstOff) :: s.seen := by unfold step; rw [hl]
    have hlen : (render src s.ranges).length = s.dstOff := hi.r.rlen
    have hsl : (slice src e.off e.len).length = e.len := slice_len _ _ _ he
    have hnew : slice (render src s.ranges ++ slice src e.off e.len) s.dstOff e.len = slice src e.off e.len := by
      have := slice_append_right (render src s.ranges) (slice src e.off e.len)
      rw [hlen, hsl] at this; exact this
    refine ⟨hr', ?_, ?_⟩
    · rw [hout, hrender]
      refine ⟨⟨rfl, rfl, rfl, by simp; omega, hnew⟩, ?_⟩
      exact All₂.imp (fun a b h => Keeps.mono _ h) hi.keeps
    · rw [hseen, hrender]
      intro p hp
      rcases List.mem_cons.mp hp with rfl | hp
      · exact ⟨e, by simp, rfl, by simp; omega, hnew⟩
      · obtain ⟨a, ha, h1, h2, h3⟩ := hi.seen p hp
        refine ⟨a, by simp [ha], h1, by simp; omega, ?_⟩
        rw [slice_append_left _ _ _ _ h2]; exact h3

/-- equal source offsets carry equal lengths -/
def OffLen (es : List Entry) : Prop := ∀ a ∈ es, ∀ b ∈ es, a.off = b.off → a.len = b.len

theorem foldl_cinv (src : Bytes) (es : List Entry) (hin : ∀ e ∈ es, e.off + e.len ≤ src.length) :
    ∀ (s : RS) (done : List Entry), CInv src s done → (∀ a ∈ done, ∀ e ∈ es, a.off = e.off → a.len = e.len) →
      OffLen es → CInv src (es.foldl step s) (es.reverse ++ done) := by
  induction es with
  | nil => intro s done h _ _; simpa using h
  | cons e r ih =>
    intro s done h hd hol
    simp only [List.foldl_cons, List.reverse_cons, List.append_assoc, List.singleton_append]
    apply ih (fun x hx => hin x (by simp [hx])) (step s e) (e :: done)
    · exact step_cinv src s done e h (hin e (by simp)) (fun a ha hao => hd a ha e (by simp) hao)
    · intro a ha x hx hax
      rcases List.mem_cons.mp ha with rfl | ha
      · exact hol a (by simp) x (by simp [hx]) hax
      · exact hd a ha x (by simp [hx]) hax
    · intro a ha b hb; exact hol a (by simp [ha]) b (by simp [hb])

/-- **content preservation**: the re-encoded entries (newest first) pair up with the input entries
    (reversed); each keeps ID, run length, length — and its bytes, read from the rendered output -/
theorem reencode_keeps (src : Bytes) (es : List Entry) (hin : ∀ e ∈ es, e.off + e.len ≤ src.length)
    (hol : OffLen es) :
    All₂ (Keeps src (render src (reencode es).ranges)) (reencode es).out es.reverse := by
  have h0 : CInv src reencodeInit [] :=
    ⟨⟨by simp [reencodeInit, Tiles], by simp [reencodeInit, render], by simp [reencodeInit], fun _ _ _ _ => trivial⟩,
     by simp [reencodeInit, All₂], by simp [reencodeInit]⟩
  have := (foldl_cinv src es hin reencodeInit [] h0 (by simp) hol).keeps
  simpa [reencode] using this

/-- the tile entries `RelevantEntries` keeps from one directory: for every tile `t`, a kept entry
    covering `t` with target `(o, l)` exists iff `t` is wanted and a tile entry of the directory
    covering `t` has that target -/
theorem relevant_tiles_spec (S : Nat → Bool) (meets : Nat → Nat → Bool) (lastTile : Nat) (dir : List Entry)
    (t o l : Nat) :
    (∃ p ∈ (relevantAux S meets lastTile dir).1, covers p t ∧ p.off = o ∧ p.len = l) ↔
      (S t = true ∧ ∃ e ∈ dir, e.rl ≠ 0 ∧ covers e t ∧ e.off = o ∧ e.len = l) := by
  induction dir with
  | nil => simp [relevantAux]
  | cons e rest ih =>
    unfold relevantAux
    simp only
    by_cases h0 : e.rl = 0
    · simp only [h0, if_true]
      have hrest : (∃ p ∈ (relevantAux S meets lastTile rest).1, covers p t ∧ p.off = o ∧ p.len = l) ↔
          (S t = true ∧ ∃ x ∈ e :: rest, x.rl ≠ 0 ∧ covers x t ∧ x.off = o ∧ x.len = l) := by
        rw [ih]
        constructor
        · rintro ⟨hs, x, hx, h⟩; exact ⟨hs, x, by simp [hx], h⟩
        · rintro ⟨hs, x, hx, h⟩
          rcases List.mem_cons.mp hx with rfl | hx
          · exact absurd h0 h.1
          · exact ⟨hs, x, hx, h⟩
      have hfst : ∀ (c : Prop) [Decidable c] (a : List Entry) (r : List Entry × List Entry),
          (if c then (r.1, a) else r).1 = r.1 := by intro c _ a r; split <;> rfl
      rw [hfst]; exact hrest
    · simp only [h0, if_false]
      by_cases h1 : e.rl = 1
      · simp only [h1, if_true]
        by_cases hs : S e.id = true
        · rw [if_pos hs]
          constructor
          · rintro ⟨p, hp, hc, ho, hl⟩
            rcases List.mem_cons.mp hp with rfl | hp
            · have : t = p.id := by unfold covers at hc; omega
              exact ⟨by rw [this]; exact hs, p, by simp, h0, hc, ho, hl⟩
            · obtain ⟨hs', x, hx, h⟩ := (ih.mp ⟨p, hp, hc, ho, hl⟩)
              exact ⟨hs', x, by simp [hx], h⟩
          · rintro ⟨hs', x, hx, h⟩
            rcases List.mem_cons.mp hx with rfl | hx
            · exact ⟨x, by simp, h.2⟩
            · obtain ⟨p, hp, hh⟩ := ih.mpr ⟨hs', x, hx, h⟩
              exact ⟨p, by simp [hp], hh⟩
        · rw [if_neg hs, ih]
          constructor
          · rintro ⟨hs', x, hx, h⟩; exact ⟨hs', x, by simp [hx], h⟩
          · rintro ⟨hs', x, hx, h⟩
            rcases List.mem_cons.mp hx with rfl | hx
            · have : t = x.id := by have := h.2.1; unfold covers at this; omega
              rw [this] at hs'; exact absurd hs' hs
            · exact ⟨hs', x, hx, h⟩
      · simp only [h1, if_false]
        constructor
        · rintro ⟨p, hp, hc, ho, hl⟩
          rcases List.mem_append.mp hp with hp | hp
          · have hsame := splitLoop_same_content S e.off e.len e.rl e.id e.id 0 p hp
            have := (trim_spec S e t).mp ⟨p, hp, hc⟩
            exact ⟨this.2, e, by simp, h0, this.1, by rw [← hsame.1]; exact ho, by rw [← hsame.2]; exact hl⟩
          · obtain ⟨hs', x, hx, h⟩ := (ih.mp ⟨p, hp, hc, ho, hl⟩)
            exact ⟨hs', x, by simp [hx], h⟩
        · rintro ⟨hs', x, hx, h⟩
          rcases List.mem_cons.mp hx with rfl | hx
          · obtain ⟨p, hp, hc⟩ := (trim_spec S x t).mpr ⟨h.2.1, hs'⟩
            have hsame := splitLoop_same_content S x.off x.len x.rl x.id x.id 0 p hp
            exact ⟨p, List.mem_append.mpr (Or.inl hp), hc, by rw [hsame.1]; exact h.2.2.1, by rw [hsame.2]; exact h.2.2.2⟩
          · obtain ⟨p, hp, hh⟩ := ih.mpr ⟨hs', x, hx, h⟩
            exact ⟨p, List.mem_append.mpr (Or.inr hp), hh⟩

end Pm.Extract

namespace Pm.Extract
open Pm

/-- every kept entry has the target of a tile entry of the directory -/
theorem relevant_target (S : Nat → Bool) (meets : Nat → Nat → Bool) (lastTile : Nat) (dir : List Entry) :
    ∀ p ∈ (relevantAux S meets lastTile dir).1, ∃ e ∈ dir, e.rl ≠ 0 ∧ p.off = e.off ∧ p.len = e.len := by
  induction dir with
  | nil => simp [relevantAux]
  | cons e rest ih =>
    unfold relevantAux
    simp only
    have lift : ∀ p : Entry, (∃ x ∈ rest, x.rl ≠ 0 ∧ p.off = x.off ∧ p.len = x.len) →
        ∃ x ∈ e :: rest, x.rl ≠ 0 ∧ p.off = x.off ∧ p.len = x.len :=
      fun p ⟨x, hx, h⟩ => ⟨x, by simp [hx], h⟩
    by_cases h0 : e.rl = 0
    · simp only [h0, if_true]
      have hfst : ∀ (c : Prop) [Decidable c] (a : List Entry) (r : List Entry × List Entry),
          (if c then (r.1, a) else r).1 = r.1 := by intro c _ a r; split <;> rfl
      rw [hfst]
      exact fun p hp => lift p (ih p hp)
    · simp only [h0, if_false]
      by_cases h1 : e.rl = 1
      · simp only [h1, if_true]
        by_cases hs : S e.id = true
        · rw [if_pos hs]
          intro p hp
          rcases List.mem_cons.mp hp with rfl | hp
          · exact ⟨p, by simp, h0, rfl, rfl⟩
          · exact lift p (ih p hp)
        · rw [if_neg hs]; exact fun p hp => lift p (ih p hp)
      · simp only [h1, if_false]
        intro p hp
        rcases List.mem_append.mp hp with hp | hp
        · have hsame := splitLoop_same_content S e.off e.len e.rl e.id e.id 0 p hp
          exact ⟨e, by simp, h0, hsame.1, hsame.2⟩
        · exact lift p (ih p hp)

/-- **re-encoding an exact selection gives an exact restriction.**  Let `rel` be a selection of
    the tile entries `E` for the wanted set `S` (`hspec`: a selected entry covers `t` with target
    `(o, l)` iff `t` is wanted and an entry of `E` covering `t` has that target; `htgt`: every
    selected target is a target of `E`).  Then in the output — re-encoded entries plus rendered
    tile data — tile `t` holds bytes `b` iff `t` is wanted and holds `b` in the source. -/
theorem reencode_exact (src : Bytes) (S : Nat → Bool) (E rel : List Entry)
    (hin : ∀ e ∈ E, e.off + e.len ≤ src.length)
    (hol : OffLen E)
    (hspec : ∀ t o l, (∃ p ∈ rel, covers p t ∧ p.off = o ∧ p.len = l) ↔
        (S t = true ∧ ∃ e ∈ E, covers e t ∧ e.off = o ∧ e.len = l))
    (htgt : ∀ p ∈ rel, ∃ e ∈ E, p.off = e.off ∧ p.len = e.len)
    (t : Nat) (b : Bytes) :
    (∃ o ∈ (reencode rel).out, covers o t ∧ slice (render src (reencode rel).ranges) o.off o.len = b) ↔
      (S t = true ∧ ∃ e ∈ E, covers e t ∧ slice src e.off e.len = b) := by
  have hin' : ∀ p ∈ rel, p.off + p.len ≤ src.length := by
    intro p hp; obtain ⟨e, he, h1, h2⟩ := htgt p hp; rw [h1, h2]; exact hin e he
  have hol' : OffLen rel := by
    intro a ha c hc hac
    obtain ⟨ea, hea, a1, a2⟩ := htgt a ha
    obtain ⟨ec, hec, c1, c2⟩ := htgt c hc
    rw [a2, c2]; exact hol ea hea ec hec (by rw [← a1, ← c1]; exact hac)
  have hk := reencode_keeps src rel hin' hol'
  constructor
  · rintro ⟨o, ho, hc, hb⟩
    obtain ⟨p, hp, k1, k2, k3, _, k5⟩ := All₂.left hk o ho
    have hp' : p ∈ rel := List.mem_reverse.mp hp
    have hcp : covers p t := by unfold covers at hc ⊢; rw [← k1, ← k2]; exact hc
    obtain ⟨hs, e, he, hce, ho', hl'⟩ := (hspec t p.off p.len).mp ⟨p, hp', hcp, rfl, rfl⟩
    refine ⟨hs, e, he, hce, ?_⟩
    rw [ho', hl', ← k5]; exact hb
  · rintro ⟨hs, e, he, hce, hb⟩
    obtain ⟨p, hp, hcp, ho', hl'⟩ := (hspec t e.off e.len).mpr ⟨hs, e, he, hce, rfl, rfl⟩
    obtain ⟨o, ho, k1, k2, k3, _, k5⟩ := All₂.right hk p (List.mem_reverse.mpr hp)
    refine ⟨o, ho, ?_, ?_⟩
    · unfold covers at hcp ⊢; rw [k1, k2]; exact hcp
    · rw [k5, ho', hl']; exact hb

end Pm.Extract
