import PmtilesModel.Model.Sync
/-!
# Lemmas on `writeAt` / `writeRanges`: writing correct pieces of `g` into a buffer of `g`'s length
leaves every already-correct position correct and makes every covered position correct.
-/
namespace Pm.Sync
open Pm

theorem slice_length (d : Bytes) (off w : Nat) : (slice d off w).length = min w (d.length - off) := by
  simp [slice]

theorem slice_getElem? (d : Bytes) (off w i : Nat) : (slice d off w)[i]? = if i < w then d[off + i]? else none := by
  unfold slice
  rw [List.getElem?_take]
  split
  · rw [List.getElem?_drop]
  · rfl

theorem slice_add (d : Bytes) (off a b : Nat) : slice d off (a + b) = slice d off a ++ slice d (off + a) b := by
  unfold slice
  rw [List.take_add, List.drop_drop]

theorem writeAt_length (f : Bytes) (off : Nat) (b : Bytes) : (writeAt f off b).length = f.length := by
  unfold writeAt
  split
  · simp; omega
  · rfl

theorem writeAt_getElem? (f : Bytes) (off : Nat) (b : Bytes) (i : Nat) (h : off + b.length ≤ f.length) :
    (writeAt f off b)[i]? = if off ≤ i ∧ i < off + b.length then b[i - off]? else f[i]? := by
  unfold writeAt
  rw [if_pos h]
  by_cases h1 : i < off
  · have : ¬ (off ≤ i ∧ i < off + b.length) := by omega
    rw [if_neg this, List.append_assoc, List.getElem?_append_left (by simp; omega), List.getElem?_take, if_pos h1]
  · by_cases h2 : i < off + b.length
    · rw [if_pos ⟨by omega, h2⟩, List.append_assoc, List.getElem?_append_right (by simp; omega)]
      have hl : (List.take off f).length = off := by simp; omega
      rw [hl, List.getElem?_append_left (by omega)]
    · have : ¬ (off ≤ i ∧ i < off + b.length) := by omega
      rw [if_neg this, List.getElem?_append_right (by simp; omega)]
      have hl : (List.take off f ++ b).length = off + b.length := by simp; omega
      rw [hl, List.getElem?_drop]
      congr 1; omega

/-- one correct write -/
theorem writeAt_piece (g f : Bytes) (off len : Nat) (hf : f.length = g.length) (i : Nat) :
    (f[i]? = g[i]? → (writeAt f off (slice g off len))[i]? = g[i]?) ∧
    (off ≤ i → i < off + len → (writeAt f off (slice g off len))[i]? = g[i]?) := by
  by_cases hfit : off + (slice g off len).length ≤ f.length
  · rw [writeAt_getElem? _ _ _ _ hfit]
    have hl := slice_length g off len
    constructor
    · intro h
      split
      · rename_i hc
        rw [slice_getElem?, if_pos (by omega)]
        congr 1; omega
      · exact h
    · intro h1 h2
      by_cases hi : i < g.length
      · rw [if_pos ⟨h1, by omega⟩, slice_getElem?, if_pos (by omega)]
        congr 1; omega
      · have e1 : g[i]? = none := by rw [List.getElem?_eq_none_iff]; omega
        have e2 : f[i]? = none := by rw [List.getElem?_eq_none_iff]; omega
        rw [e1]
        split
        · rw [List.getElem?_eq_none_iff]; omega
        · exact e2
  · -- the piece is empty and lies beyond the end: nothing is written, nothing in range exists
    have hl := slice_length g off len
    have hw : writeAt f off (slice g off len) = f := by unfold writeAt; rw [if_neg hfit]
    rw [hw]
    refine ⟨fun h => h, fun h1 _ => ?_⟩
    have : g.length < off := by
      by_cases h : off ≤ g.length
      · exfalso; apply hfit; rw [hl, hf]; omega
      · omega
    rw [List.getElem?_eq_none_iff.mpr (by omega), List.getElem?_eq_none_iff.mpr (by omega)]

/-- a range is *correct* when the bytes it copies are the bytes the target holds at the destination -/
def Correct (src g : Bytes) (stdo dtdo : Nat) (r : Rng) : Prop :=
  slice src (stdo + r.src) r.len = slice g (dtdo + r.dst) r.len

def Covers (base : Nat) (rs : List Rng) (i : Nat) : Prop := ∃ r ∈ rs, base + r.dst ≤ i ∧ i < base + r.dst + r.len

theorem writeRanges_agree (src g : Bytes) (stdo dtdo : Nat) (rs : List Rng) :
    ∀ (f : Bytes), f.length = g.length → (∀ r ∈ rs, Correct src g stdo dtdo r) →
      (writeRanges src stdo dtdo f rs).length = g.length ∧
      ∀ i, (f[i]? = g[i]? ∨ Covers dtdo rs i) → (writeRanges src stdo dtdo f rs)[i]? = g[i]? := by
  induction rs with
  | nil =>
    intro f hf _
    refine ⟨hf, fun i h => ?_⟩
    rcases h with h | ⟨r, hr, _⟩
    · exact h
    · cases hr
  | cons r rs ih =>
    intro f hf hc
    have hcr : Correct src g stdo dtdo r := hc r (by simp)
    unfold Correct at hcr
    have step : writeRanges src stdo dtdo f (r :: rs) =
        writeRanges src stdo dtdo (writeAt f (dtdo + r.dst) (slice g (dtdo + r.dst) r.len)) rs := by
      simp only [writeRanges, List.foldl_cons, hcr]
    rw [step]
    have hl : (writeAt f (dtdo + r.dst) (slice g (dtdo + r.dst) r.len)).length = g.length := by
      rw [writeAt_length]; exact hf
    obtain ⟨l2, a2⟩ := ih _ hl (fun r' hr' => hc r' (by simp [hr']))
    refine ⟨l2, fun i h => a2 i ?_⟩
    have hp := writeAt_piece g f (dtdo + r.dst) r.len hf i
    rcases h with h | ⟨r', hr', h1, h2⟩
    · exact Or.inl (hp.1 h)
    · rcases List.mem_cons.mp hr' with e | hm
      · subst e; exact Or.inl (hp.2 h1 h2)
      · exact Or.inr ⟨r', hm, h1, h2⟩

end Pm.Sync
