import PmtilesModel.Proofs.SyncPlan
/-!
# The plan is correct and covering; assembling it reproduces the remote file
-/
namespace Pm.Sync
open Pm Pm.Header

theorem mem_haveOf (hashFn : Bytes → Nat) (afile : Bytes) (atdo : Nat) (tasks : List (Block × Nat)) (r : Rng) :
    r ∈ haveOf hashFn afile atdo tasks ↔ ∃ t ∈ tasks, hashEq hashFn afile atdo t = true ∧ r = ⟨t.2, t.1.off, t.1.len⟩ := by
  unfold haveOf
  simp only [List.mem_map, List.mem_filter]
  constructor
  · rintro ⟨t, ⟨h1, h2⟩, e⟩; exact ⟨t, h1, h2, e.symm⟩
  · rintro ⟨t, h1, h2, e⟩; exact ⟨t, ⟨h1, h2⟩, e.symm⟩

theorem mem_wantedOf (hashFn : Bytes → Nat) (afile : Bytes) (atdo : Nat) (tasks : List (Block × Nat)) (direct : List Block) (b : Block) :
    b ∈ wantedOf hashFn afile atdo tasks direct ↔ b ∈ direct ∨ ∃ t ∈ tasks, hashEq hashFn afile atdo t = false ∧ b = t.1 := by
  unfold wantedOf
  simp only [List.mem_append, List.mem_map, List.mem_filter, Bool.not_eq_true']
  constructor
  · rintro (h | ⟨t, ⟨h1, h2⟩, e⟩)
    · exact Or.inl h
    · exact Or.inr ⟨t, h1, h2, e.symm⟩
  · rintro (h | ⟨t, h1, h2, e⟩)
    · exact Or.inl h
    · exact Or.inr ⟨t, ⟨h1, h2⟩, e.symm⟩

/-- no hash collision between a remote block and the local bytes it is compared with -/
def HashInj (hashFn : Bytes → Nat) (afile bfile : Bytes) (atdo btdo : Nat) (blocks : List Block) : Prop :=
  ∀ b ∈ blocks, ∀ o, hashFn (slice afile (atdo + o) b.len) = b.hash →
    slice afile (atdo + o) b.len = slice bfile (btdo + b.off) b.len

theorem plan_correct (hashFn : Bytes → Nat) (afile bfile : Bytes) (atdo btdo : Nat) (blocks : List Block)
    (aes : List Entry) (n : Nat) (htile : Tile 0 blocks n) (hinj : HashInj hashFn afile bfile atdo btdo blocks) :
    (∀ r ∈ (plan hashFn afile atdo blocks aes).haveR, Correct afile bfile atdo btdo r) ∧
    (∀ r ∈ (plan hashFn afile atdo blocks aes).wantR, Correct bfile bfile btdo btdo r) ∧
    ∀ i, btdo ≤ i → i < btdo + n →
      Covers btdo (plan hashFn afile atdo blocks aes).haveR i ∨ Covers btdo (plan hashFn afile atdo blocks aes).wantR i := by
  obtain ⟨hpart, _⟩ := diff_partition blocks aes
  rcases hd : diff blocks aes with ⟨tasks, direct⟩
  rw [hd] at hpart
  simp only at hpart
  have hplan : plan hashFn afile atdo blocks aes =
      { haveN := (sortBy Rng.src (haveOf hashFn afile atdo tasks)).length,
        wantedN := (sortBy Block.start (wantedOf hashFn afile atdo tasks direct)).length,
        haveR := coalesce haveCond (sortBy Rng.src (haveOf hashFn afile atdo tasks)),
        wantR := coalesce wantedCond ((sortBy Block.start (wantedOf hashFn afile atdo tasks direct)).map rngOfBlock) } := by
    unfold plan; rw [hd]
  rw [hplan]
  simp only
  -- every task's block is a remote block
  have htb : ∀ t ∈ tasks, t.1 ∈ blocks := fun t ht => (hpart t.1).mpr (Or.inl (List.mem_map.mpr ⟨t, ht, rfl⟩))
  -- sorted have ranges are correct
  have hcH : ∀ r ∈ sortBy Rng.src (haveOf hashFn afile atdo tasks), Correct afile bfile atdo btdo r := by
    intro r hr
    rw [mem_sortBy, mem_haveOf] at hr
    obtain ⟨t, ht, hm, e⟩ := hr
    subst e
    unfold Correct; simp only
    apply hinj t.1 (htb t ht) t.2
    simpa [hashEq] using hm
  have hcW : ∀ r ∈ (sortBy Block.start (wantedOf hashFn afile atdo tasks direct)).map rngOfBlock, Correct bfile bfile btdo btdo r := by
    intro r hr
    obtain ⟨b, _, e⟩ := List.mem_map.mp hr
    subst e
    unfold Correct rngOfBlock; rfl
  have hqW : ∀ r ∈ (sortBy Block.start (wantedOf hashFn afile atdo tasks direct)).map rngOfBlock, r.src = r.dst := by
    intro r hr
    obtain ⟨b, _, e⟩ := List.mem_map.mp hr
    subst e; rfl
  obtain ⟨cH, covH⟩ := coalesce_spec (fun _ => True) haveCond haveCond_ok afile bfile atdo btdo _ (fun _ _ => trivial) hcH
  obtain ⟨cW, covW⟩ := coalesce_spec (fun r => r.src = r.dst) wantedCond wantedCond_ok bfile bfile btdo btdo _ hqW hcW
  refine ⟨cH, cW, fun i h1 h2 => ?_⟩
  rw [covH i, covW i]
  obtain ⟨b, hb, c1, c2⟩ := tile_cover blocks 0 n (i - btdo) htile (by omega) (by omega)
  have wantedCase : b ∈ wantedOf hashFn afile atdo tasks direct →
      Covers btdo ((sortBy Block.start (wantedOf hashFn afile atdo tasks direct)).map rngOfBlock) i := by
    intro hw
    refine ⟨rngOfBlock b, List.mem_map.mpr ⟨b, (mem_sortBy _ _ _).mpr hw, rfl⟩, ?_, ?_⟩
    · simp only [rngOfBlock]; omega
    · simp only [rngOfBlock]; omega
  rcases (hpart b).mp hb with ht | hdct
  · obtain ⟨t, ht, e⟩ := List.mem_map.mp ht
    cases hm : hashEq hashFn afile atdo t with
    | true =>
      left
      refine ⟨⟨t.2, t.1.off, t.1.len⟩, (mem_sortBy _ _ _).mpr ((mem_haveOf _ _ _ _ _).mpr ⟨t, ht, hm, rfl⟩), ?_, ?_⟩
      · simp only; rw [e]; omega
      · simp only; rw [e]; omega
    | false =>
      right
      exact wantedCase ((mem_wantedOf _ _ _ _ _ _).mpr (Or.inr ⟨t, ht, hm, e.symm⟩))
  · right
    exact wantedCase ((mem_wantedOf _ _ _ _ _ _).mpr (Or.inl hdct))

/-- the sections sync copies cover the whole remote file -/
def SectionsCover (bfile : Bytes) (bh : Header) (n : Nat) : Prop :=
  ∀ i, i < bfile.length →
    i < 16384 ∨ (bh.metadataOffset ≤ i ∧ i < bh.metadataOffset + bh.metadataLength) ∨
    (bh.leafDirectoryOffset ≤ i ∧ i < bh.leafDirectoryOffset + bh.leafDirectoryLength) ∨
    (bh.tileDataOffset ≤ i ∧ i < bh.tileDataOffset + n)

theorem assemble_eq (hashFn : Bytes → Nat) (afile bfile : Bytes) (atdo : Nat) (bh : Header) (blocks : List Block)
    (aes : List Entry) (n : Nat) (htile : Tile 0 blocks n)
    (hinj : HashInj hashFn afile bfile atdo bh.tileDataOffset blocks)
    (hcov : SectionsCover bfile bh n) :
    assemble afile bfile atdo bh (plan hashFn afile atdo blocks aes) = bfile := by
  obtain ⟨cH, cW, cov⟩ := plan_correct hashFn afile bfile atdo bh.tileDataOffset blocks aes n htile hinj
  unfold assemble
  simp only
  generalize hf0 : List.replicate bfile.length 0 = f0
  have l0 : f0.length = bfile.length := by rw [← hf0]; simp
  generalize hf1 : writeAt f0 0 (slice bfile 0 16384) = f1
  have l1 : f1.length = bfile.length := by rw [← hf1, writeAt_length]; exact l0
  generalize hf2 : writeAt f1 bh.metadataOffset (slice bfile bh.metadataOffset bh.metadataLength) = f2
  have l2 : f2.length = bfile.length := by rw [← hf2, writeAt_length]; exact l1
  generalize hf3 : writeAt f2 bh.leafDirectoryOffset (slice bfile bh.leafDirectoryOffset bh.leafDirectoryLength) = f3
  have l3 : f3.length = bfile.length := by rw [← hf3, writeAt_length]; exact l2
  have a1 : ∀ i, i < 16384 → f1[i]? = bfile[i]? := by
    intro i hi
    rw [← hf1]
    exact (writeAt_piece bfile f0 0 16384 l0 i).2 (by omega) (by omega)
  have a2 : ∀ i, (f1[i]? = bfile[i]? ∨ (bh.metadataOffset ≤ i ∧ i < bh.metadataOffset + bh.metadataLength)) → f2[i]? = bfile[i]? := by
    intro i h
    rw [← hf2]
    rcases h with h | ⟨h1, h2⟩
    · exact (writeAt_piece bfile f1 _ _ l1 i).1 h
    · exact (writeAt_piece bfile f1 _ _ l1 i).2 h1 h2
  have a3 : ∀ i, (f2[i]? = bfile[i]? ∨ (bh.leafDirectoryOffset ≤ i ∧ i < bh.leafDirectoryOffset + bh.leafDirectoryLength)) → f3[i]? = bfile[i]? := by
    intro i h
    rw [← hf3]
    rcases h with h | ⟨h1, h2⟩
    · exact (writeAt_piece bfile f2 _ _ l2 i).1 h
    · exact (writeAt_piece bfile f2 _ _ l2 i).2 h1 h2
  obtain ⟨l4, a4⟩ := writeRanges_agree afile bfile atdo bh.tileDataOffset _ f3 l3 cH
  obtain ⟨l5, a5⟩ := writeRanges_agree bfile bfile bh.tileDataOffset bh.tileDataOffset _ _ l4 cW
  apply List.ext_getElem?
  intro i
  by_cases hi : i < bfile.length
  · apply a5
    rcases hcov i hi with h | h | h | ⟨h1, h2⟩
    · exact Or.inl (a4 i (Or.inl (a3 i (Or.inl (a2 i (Or.inl (a1 i h)))))))
    · exact Or.inl (a4 i (Or.inl (a3 i (Or.inl (a2 i (Or.inr h))))))
    · exact Or.inl (a4 i (Or.inl (a3 i (Or.inr h))))
    · rcases cov i h1 h2 with c | c
      · exact Or.inl (a4 i (Or.inr c))
      · exact Or.inr c
  · rw [List.getElem?_eq_none_iff.mpr (by omega), List.getElem?_eq_none_iff.mpr (by omega)]

end Pm.Sync
