import PmtilesModel.Model.Iterate
import PmtilesModel.Proofs.Reader
namespace Pm.Reader

theorem iterate_nil (fetch : Fetch) (d : Nat) : iterate fetch d [] = some [] := by
  cases d <;> rfl

/-- `fetch` is the true archive's `fetch0`, except that any call may fail -/
def Faulty (fetch0 fetch : Fetch) : Prop := ∀ off len, fetch off len = fetch0 off len ∨ fetch off len = none

/-- never a silently shortened result: success means the complete enumeration -/
theorem iterate_ok_complete {fetch0 fetch : Fetch} (hf : Faulty fetch0 fetch) {d lo hi es}
    (h : WF fetch0 d lo hi es) : ∀ xs, iterate fetch d es = some xs → xs = flatten fetch0 d es := by
  induction h with
  | nil _ =>
    intro xs hx
    rw [iterate_nil] at hx
    simp at hx; subst hx; rw [flatten_nil]
  | @tile d lo hi e es h1 h2 hw ih =>
    intro xs hx
    rw [flatten_tile _ _ _ _ h2]
    have key : ∀ sub, iterAux fetch sub (e :: es) = (match iterAux fetch sub es with | none => none | some r => some (e :: r)) := by
      intro sub; rw [iterAux, if_pos h2]; cases iterAux fetch sub es <;> rfl
    cases d with
    | zero =>
      simp only [iterate, key] at hx
      cases hr : iterAux fetch (fun _ => none) es with
      | none => rw [hr] at hx; cases hx
      | some r =>
        rw [hr] at hx; simp at hx; subst hx
        rw [ih r (by simp [iterate, hr])]
    | succ d =>
      simp only [iterate, key] at hx
      cases hr : iterAux fetch (iterate fetch d) es with
      | none => rw [hr] at hx; cases hx
      | some r =>
        rw [hr] at hx; simp at hx; subst hx
        rw [ih r (by simp [iterate, hr])]
  | @ptr d lo hi mid e es es' h1 h2 hfe hh hw1 hw2 ih1 ih2 =>
    intro xs hx
    have hnr : ¬ (0 < e.rl) := by omega
    rw [flatten_ptr _ _ _ _ _ hnr hfe]
    simp only [iterate, iterAux, hnr, if_false] at hx
    rcases hf e.off e.len with hfo | hfo
    · rw [hfo, hfe] at hx
      simp only at hx
      cases hl : iterate fetch d es' with
      | none => rw [hl] at hx; cases hx
      | some l =>
        rw [hl] at hx; simp only at hx
        cases hr : iterAux fetch (iterate fetch d) es with
        | none => rw [hr] at hx; cases hx
        | some r =>
          rw [hr] at hx; simp at hx; subst hx
          rw [ih1 l hl, ih2 r (by simp [iterate, hr])]
    · rw [hfo] at hx; cases hx

/-- and with no fault the enumeration succeeds -/
theorem iterate_ok {fetch : Fetch} {d lo hi es} (h : WF fetch d lo hi es) :
    iterate fetch d es = some (flatten fetch d es) := by
  induction h with
  | nil _ => rw [iterate_nil, flatten_nil]
  | @tile d lo hi e es h1 h2 hw ih =>
    rw [flatten_tile _ _ _ _ h2]
    cases d with
    | zero => simp only [iterate] at ih ⊢; simp [iterAux, h2, ih]
    | succ d => simp only [iterate] at ih ⊢; simp [iterAux, h2, ih]
  | @ptr d lo hi mid e es es' h1 h2 hfe hh hw1 hw2 ih1 ih2 =>
    have hnr : ¬ (0 < e.rl) := by omega
    rw [flatten_ptr _ _ _ _ _ hnr hfe]
    simp only [iterate] at ih2 ⊢
    simp [iterAux, hnr, hfe, ih1, ih2]

/-- the enumeration is strictly ascending, run by run, inside [lo,hi) -/
theorem flatten_sorted {fetch : Fetch} {d lo hi es} (h : WF fetch d lo hi es) :
    (flatten fetch d es).Pairwise (fun a b => a.id + a.rl ≤ b.id) := by
  induction h with
  | nil _ => rw [flatten_nil]; exact List.Pairwise.nil
  | @tile d lo hi e es h1 h2 hw ih =>
    rw [flatten_tile _ _ _ _ h2]
    refine List.Pairwise.cons ?_ ih
    intro b hb
    exact (flat_bounds hw b hb).1
  | @ptr d lo hi mid e es es' h1 h2 hfe hh hw1 hw2 ih1 ih2 =>
    have hnr : ¬ (0 < e.rl) := by omega
    rw [flatten_ptr _ _ _ _ _ hnr hfe, List.pairwise_append]
    refine ⟨ih1, ih2, ?_⟩
    intro a ha b hb
    have := (flat_bounds hw1 a ha).2
    have := (flat_bounds hw2 b hb).1
    omega


theorem ptrs_nil (fetch : Fetch) (d : Nat) : ptrs fetch d [] = [] := by
  cases d <;> rfl

/-- a failure at ANY leaf-directory position of the tree makes the enumeration fail -/
theorem iterate_fails {fetch0 fetch : Fetch} (hf : Faulty fetch0 fetch) {d lo hi es}
    (h : WF fetch0 d lo hi es) : ∀ p ∈ ptrs fetch0 d es, fetch p.1 p.2 = none → iterate fetch d es = none := by
  induction h with
  | nil _ => intro p hp; rw [ptrs_nil] at hp; cases hp
  | @tile d lo hi e es h1 h2 hw ih =>
    intro p hp hn
    have hp' : p ∈ ptrs fetch0 d es := by
      cases d <;> simpa [ptrs, ptrsAux, h2] using hp
    have := ih p hp' hn
    cases d with
    | zero => simp only [iterate] at this ⊢; simp [iterAux, h2, this]
    | succ d => simp only [iterate] at this ⊢; simp [iterAux, h2, this]
  | @ptr d lo hi mid e es es' h1 h2 hfe hh hw1 hw2 ih1 ih2 =>
    intro p hp hn
    have hnr : ¬ (0 < e.rl) := by omega
    simp only [ptrs, ptrsAux, hnr, if_false, hfe, List.cons_append, List.mem_cons, List.mem_append] at hp
    simp only [iterate, iterAux, hnr, if_false]
    rcases hp with rfl | hp | hp
    · simp only at hn; rw [hn]
    · have h1' := ih1 p hp hn
      rcases hf e.off e.len with hfo | hfo
      · rw [hfo, hfe]; simp only; rw [h1']
      · rw [hfo]
    · have h2' := ih2 p hp hn
      simp only [iterate] at h2'
      cases fetch e.off e.len with
      | none => rfl
      | some x =>
        simp only
        cases iterate fetch d x with
        | none => rfl
        | some l => simp only; rw [h2']

end Pm.Reader
