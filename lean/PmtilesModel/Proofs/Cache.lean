import PmtilesModel.Model.Cache
namespace Pm.Cache

theorem sumSizes_append (a b : List Elem) : sumSizes (a ++ b) = sumSizes a + sumSizes b := by
  induction a with
  | nil => simp [sumSizes]
  | cons x xs ih => simp [sumSizes, ih]; omega

theorem sumSizes_erase (e : Elem) (l : List Elem) (h : e ∈ l) : sumSizes (eraseElem e l) = sumSizes l - e.size := by
  induction l with
  | nil => cases h
  | cons x r ih =>
    simp only [eraseElem]
    split
    · rename_i hx; subst hx; simp only [sumSizes]; omega
    · rename_i hx
      have : e ∈ r := by
        simp only [List.mem_cons] at h
        rcases h with rfl | h
        · exact absurd rfl hx
        · exact h
      simp only [sumSizes, ih this]; omega

theorem mem_erase_of_ne (e x : Elem) (l : List Elem) (hx : x ∈ l) (hne : x ≠ e) : x ∈ eraseElem e l := by
  induction l with
  | nil => cases hx
  | cons y r ih =>
    simp only [eraseElem]
    split
    · rename_i hy
      simp only [List.mem_cons] at hx
      rcases hx with rfl | hx
      · exact absurd hy hne
      · exact hx
    · simp only [List.mem_cons] at hx ⊢
      rcases hx with rfl | hx
      · exact Or.inl rfl
      · exact Or.inr (ih hx)

/-- the bookkeeping invariant: the gauge is the sum of the sizes on the eviction list, everything
    the map points to is on the list, and the map has one element per key -/
structure Inv (s : St) : Prop where
  acct : s.total = sumSizes s.evict
  sub : ∀ e ∈ s.cache, e ∈ s.evict
  uniq : s.cache.Pairwise (fun a b => a.key ≠ b.key)

theorem init_inv : Inv init := by
  refine ⟨rfl, ?_, List.Pairwise.nil⟩
  intro e he
  cases he

theorem sumSizes_nonneg (l : List Elem) : 0 ≤ sumSizes l := by
  induction l with
  | nil => simp [sumSizes]
  | cons x r ih => simp only [sumSizes]; omega

/-- one purge step keeps the invariant -/
theorem purge_step_inv (s : St) (e : Elem) (hi : Inv s) (he : e ∈ s.cache) :
    Inv { s with cache := s.cache.filter (· ≠ e), evict := eraseElem e s.evict, total := s.total - e.size } := by
  refine ⟨?_, ?_, ?_⟩
  · simp only; rw [sumSizes_erase e s.evict (hi.sub e he), hi.acct]
  · intro x hx
    simp only [List.mem_filter, decide_eq_true_eq] at hx
    exact mem_erase_of_ne e x s.evict (hi.sub x hx.1) hx.2
  · exact hi.uniq.filter _

theorem purge_fold_inv (doomed : List Elem) : ∀ (s : St), Inv s → (∀ e ∈ doomed, e ∈ s.cache) → doomed.Nodup →
    Inv (doomed.foldl (fun s e => { s with cache := s.cache.filter (· ≠ e), evict := eraseElem e s.evict, total := s.total - e.size }) s) := by
  induction doomed with
  | nil => intro s hi _ _; exact hi
  | cons e r ih =>
    intro s hi hm hn
    simp only [List.foldl_cons]
    apply ih _ (purge_step_inv s e hi (hm e (by simp)))
    · intro x hx
      simp only [List.mem_filter, decide_eq_true_eq]
      refine ⟨hm x (by simp [hx]), ?_⟩
      intro hxe; subst hxe
      exact (List.nodup_cons.mp hn).1 hx
    · exact (List.nodup_cons.mp hn).2

theorem nodup_of_uniq (l : List Elem) (h : l.Pairwise (fun a b => a.key ≠ b.key)) : l.Nodup := by
  apply h.imp
  intro a b hab heq; subst heq; exact hab rfl

theorem purge_inv (s : St) (name tag : String) (hi : Inv s) : Inv (purge s name tag) := by
  unfold purge
  apply purge_fold_inv _ s hi
  · intro e he; exact (List.mem_filter.mp he).1
  · exact (nodup_of_uniq _ hi.uniq).filter _

theorem onReq_inv (s : St) (k : Key) (p : String) (hi : Inv s) : Inv (onReq s k p).1 := by
  unfold onReq
  simp only
  have hi' : Inv (if p ≠ "" then purge s k.name p else s) := by
    split
    · exact purge_inv s k.name p hi
    · exact hi
  generalize (if p ≠ "" then purge s k.name p else s) = s1 at hi'
  cases hc : cached s1 k with
  | some e =>
    simp only
    have hec : e ∈ s1.cache := by unfold cached at hc; exact List.mem_of_find?_eq_some hc
    have hee := hi'.sub e hec
    refine ⟨?_, ?_, hi'.uniq⟩
    · simp only [sumSizes, sumSizes_erase e s1.evict hee, hi'.acct]; omega
    · intro x hx
      by_cases hxe : x = e
      · subst hxe; simp
      · exact List.mem_cons_of_mem _ (mem_erase_of_ne e x s1.evict (hi'.sub x hx) hxe)
  | none =>
    simp only
    cases s1.inflight.find? (fun p => p.1 == k) with
    | some _ => exact ⟨hi'.acct, hi'.sub, hi'.uniq⟩
    | none => exact ⟨hi'.acct, hi'.sub, hi'.uniq⟩

theorem sumSizes_dropLast (l : List Elem) (v : Elem) (h : l.getLast? = some v) :
    sumSizes l.dropLast = sumSizes l - v.size ∧ l = l.dropLast ++ [v] := by
  have hl : l = l.dropLast ++ [v] := by
    have hne : l ≠ [] := by intro h0; subst h0; simp at h
    have := List.dropLast_concat_getLast hne
    rw [List.getLast?_eq_getLast hne] at h
    cases h
    exact this.symm
  refine ⟨?_, hl⟩
  have := congrArg sumSizes hl
  rw [sumSizes_append] at this
  simp only [sumSizes] at this
  omega

theorem evictLoop_inv (limit : Int) (fuel : Nat) (s : St) (hi : Inv s) : Inv (evictLoop limit fuel s) := by
  induction fuel generalizing s with
  | zero => exact hi
  | succ f ih =>
    simp only [evictLoop]
    split
    · exact hi
    · cases hl : s.evict.getLast? with
      | none => exact hi
      | some v =>
        simp only
        apply ih
        obtain ⟨h1, h2⟩ := sumSizes_dropLast s.evict v hl
        refine ⟨?_, ?_, hi.uniq.filter _⟩
        · simp only; rw [h1, hi.acct]
        · intro x hx
          simp only [List.mem_filter, decide_eq_true_eq] at hx
          have hxe := hi.sub x hx.1
          rw [h2] at hxe
          rcases List.mem_append.mp hxe with h | h
          · exact h
          · simp only [List.mem_singleton] at h; subst h; exact absurd rfl hx.2

/-- the eviction loop stops below the limit or on an empty list, whatever the limit -/
theorem evictLoop_done (limit : Int) (fuel : Nat) (s : St) (hf : s.evict.length < fuel) :
    (evictLoop limit fuel s).total < limit ∨ (evictLoop limit fuel s).evict = [] := by
  induction fuel generalizing s with
  | zero => omega
  | succ f ih =>
    simp only [evictLoop]
    split
    · rename_i h; exact Or.inl h
    · cases hl : s.evict.getLast? with
      | none =>
        simp only
        right
        cases he : s.evict with
        | nil => rfl
        | cons a r => rw [he] at hl; simp [List.getLast?_cons] at hl
      | some v =>
        simp only
        apply ih
        simp only [List.length_dropLast]
        have : s.evict ≠ [] := by intro h0; rw [h0] at hl; simp at hl
        have := List.length_pos_iff.mpr this
        omega

theorem insertOk_inv (s : St) (k : Key) (size : Nat) (vt : String) (hi : Inv s) : Inv (insertOk s k size vt) := by
  refine ⟨?_, ?_, ?_⟩
  · simp only [insertOk, sumSizes, hi.acct]; omega
  · intro x hx
    simp only [insertOk, List.mem_cons, List.mem_filter] at hx ⊢
    rcases hx with rfl | hx
    · exact Or.inl rfl
    · exact Or.inr (hi.sub x hx.1)
  · refine List.pairwise_cons.mpr ⟨?_, hi.uniq.filter _⟩
    intro x hx
    simp only [List.mem_filter, decide_eq_true_eq] at hx
    exact fun h => hx.2 h.symm

theorem dropWaiters_inv (s : St) (k : Key) (hi : Inv s) : Inv (dropWaiters s k) := ⟨hi.acct, hi.sub, hi.uniq⟩

theorem onResp_inv (limit : Int) (s : St) (k : Key) (ok : Bool) (size : Nat) (vt : String) (hi : Inv s) :
    Inv (onResp limit s k ok size vt) := by
  unfold onResp
  simp only
  cases ok with
  | false => exact dropWaiters_inv s k hi
  | true =>
    simp only [Bool.not_true, Bool.false_eq_true, if_false]
    exact evictLoop_inv _ _ _ (insertOk_inv _ k size vt (dropWaiters_inv s k hi))

/-- after the eviction loop the size is below any limit ≥ 1 -/
theorem evictLoop_bounded (limit : Int) (hl : 1 ≤ limit) (s : St) (hi : Inv s) :
    (evictLoop limit (s.evict.length + 1) s).total < limit := by
  rcases evictLoop_done limit (s.evict.length + 1) s (Nat.lt_succ_self _) with h | h
  · exact h
  · have := (evictLoop_inv limit (s.evict.length + 1) s hi).acct
    rw [h] at this
    simp only [sumSizes] at this
    omega

/-- eviction removes from the back only: what is left is a front segment of the list as it was -/
theorem evictLoop_prefix (limit : Int) (fuel : Nat) : ∀ s : St, ∃ n, (evictLoop limit fuel s).evict = s.evict.take n := by
  induction fuel with
  | zero => intro s; exact ⟨s.evict.length, by simp [evictLoop]⟩
  | succ f ih =>
    intro s
    simp only [evictLoop]
    split
    · exact ⟨s.evict.length, by simp⟩
    · split
      · exact ⟨s.evict.length, by simp⟩
      · rename_i v hv
        obtain ⟨n, hn⟩ := ih { s with evict := s.evict.dropLast, cache := s.cache.filter (fun e => e.key ≠ v.key), total := s.total - v.size }
        refine ⟨min n (s.evict.length - 1), ?_⟩
        rw [hn]
        simp only [List.dropLast_eq_take, List.take_take]

/-- … and it never stops early: if anything is left while the total is still at or above the limit, fuel ran out
    (it does not with `fuel = length + 1`, `evictLoop_done`) -/
theorem evictLoop_front_survives (limit : Int) (fuel : Nat) (s : St) (e : Elem) (rest : List Elem)
    (hs : s.evict = e :: rest) (hne : (evictLoop limit fuel s).evict ≠ []) :
    (evictLoop limit fuel s).evict.head? = some e := by
  obtain ⟨n, hn⟩ := evictLoop_prefix limit fuel s
  rw [hn, hs] at hne ⊢
  cases n with
  | zero => simp at hne
  | succ n => simp

end Pm.Cache
