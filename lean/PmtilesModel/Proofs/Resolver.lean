import PmtilesModel.Model.Resolver
namespace Pm.Resolver
open Pm

variable (enc : Bytes → Bytes)

structure RInv (r : Res) : Prop where
  seenOk : ∀ p ∈ r.seen, 1 ≤ p.2.2 ∧ p.2.1 + p.2.2 ≤ r.data.length ∧ slice r.data p.2.1 p.2.2 = enc p.1
  inData : ∀ e ∈ r.rev, e.off + e.len ≤ r.data.length
  pairs  : r.dedup = true → ∀ e ∈ r.rev, ∃ p ∈ r.seen, p.2 = (e.off, e.len)
  offInj : ∀ p ∈ r.seen, ∀ q ∈ r.seen, p.2.1 = q.2.1 → p = q

theorem slice_append (d nd : Bytes) (o l : Nat) (h : o + l ≤ d.length) :
    slice (d ++ nd) o l = slice d o l := by
  unfold slice
  rw [List.drop_append_of_le_length (by omega), List.take_append_of_le_length (by simp; omega)]

theorem slice_new (d nd : Bytes) : slice (d ++ nd) d.length nd.length = nd := by
  unfold slice
  simp

theorem lookupSeen_mem {seen : List (Bytes × (Nat × Nat))} {b : Bytes} {o l : Nat}
    (h : lookupSeen seen b = some (o, l)) : (b, (o, l)) ∈ seen := by
  unfold lookupSeen at h
  cases hf : seen.find? (fun p => p.1 == b) with
  | none => rw [hf] at h; cases h
  | some p =>
    rw [hf] at h; simp at h
    have hm := List.mem_of_find?_eq_some hf
    have hp := List.find?_some hf
    simp at hp
    obtain ⟨p1, p2⟩ := p
    simp at hp h; subst hp; subst h; exact hm

theorem hit_mem {r : Res} {blob : Bytes} {off len : Nat}
    (hl : (if r.dedup then lookupSeen r.seen blob else none) = some (off, len)) :
    r.dedup = true ∧ (blob, (off, len)) ∈ r.seen := by
  cases hd : r.dedup
  · rw [hd] at hl; simp at hl
  · rw [hd] at hl; simp at hl; exact ⟨rfl, lookupSeen_mem hl⟩


theorem add_inv (r : Res) (id : Nat) (blob : Bytes) (rl : Nat) (hb : 1 ≤ (enc blob).length) (hi : RInv enc r) :
    RInv enc (add enc r id blob rl) := by
  unfold add
  cases hl : (if r.dedup then lookupSeen r.seen blob else none) with
  | some p =>
    obtain ⟨off, len⟩ := p
    obtain ⟨hd, hmem⟩ := hit_mem hl
    have hs := hi.seenOk _ hmem
    simp only at hs
    simp only
    cases hr : r.rev with
    | nil =>
      simp only
      refine ⟨hi.seenOk, ?_, ?_, hi.offInj⟩
      · intro e he; simp at he; subst he; exact hs.2.1
      · intro _ e he; simp at he; subst he; exact ⟨_, hmem, rfl⟩
    | cons last rest =>
      simp only
      split
      · refine ⟨hi.seenOk, ?_, ?_, hi.offInj⟩
        · intro e he
          simp at he
          rcases he with rfl | he
          · exact hi.inData last (by rw [hr]; simp)
          · exact hi.inData e (by rw [hr]; simp [he])
        · intro hdd e he
          simp at he
          rcases he with rfl | he
          · exact hi.pairs hd last (by rw [hr]; simp)
          · exact hi.pairs hd e (by rw [hr]; simp [he])
      · refine ⟨hi.seenOk, ?_, ?_, hi.offInj⟩
        · intro e he
          simp at he
          rcases he with rfl | rfl | he
          · exact hs.2.1
          · exact hi.inData _ (by rw [hr]; simp)
          · exact hi.inData e (by rw [hr]; simp [he])
        · intro hdd e he
          simp at he
          rcases he with rfl | rfl | he
          · exact ⟨_, hmem, rfl⟩
          · exact hi.pairs hd _ (by rw [hr]; simp)
          · exact hi.pairs hd e (by rw [hr]; simp [he])
  | none =>
    simp only
    have old : ∀ p ∈ r.seen, 1 ≤ p.2.2 ∧ p.2.1 + p.2.2 ≤ (r.data ++ enc blob).length ∧ slice (r.data ++ enc blob) p.2.1 p.2.2 = enc p.1 := by
      intro p hp
      have := hi.seenOk p hp
      exact ⟨this.1, by simp; omega, by rw [slice_append _ _ _ _ this.2.1]; exact this.2.2⟩
    refine ⟨?_, ?_, ?_, ?_⟩
    · intro p hp
      cases hd : r.dedup
      · rw [hd] at hp; simp at hp; exact old p hp
      · rw [hd] at hp; simp at hp
        rcases hp with rfl | hp
        · exact ⟨hb, by simp, slice_new _ _⟩
        · exact old p hp
    · intro e he
      simp at he
      rcases he with rfl | he
      · simp
      · have := hi.inData e he; simp; omega
    · intro hd e he
      simp only at hd
      simp only [hd, if_true]
      simp at he
      rcases he with rfl | he
      · exact ⟨(blob, (r.data.length, (enc blob).length)), by simp, rfl⟩
      · obtain ⟨p, hp, hpe⟩ := hi.pairs hd e he
        exact ⟨p, by simp [hp], hpe⟩
    · intro p hp q hq hpq
      cases hd : r.dedup
      · rw [hd] at hp hq; simp at hp hq; exact hi.offInj p hp q hq hpq
      · rw [hd] at hp hq; simp at hp hq
        rcases hp with rfl | hp <;> rcases hq with rfl | hq
        · rfl
        · have := hi.seenOk q hq; simp at hpq; omega
        · have := hi.seenOk p hp; simp at hpq; omega
        · exact hi.offInj p hp q hq hpq

/-- **content_add**: adding tile `id` with run length `rl` sets exactly the IDs of the run, and nothing else changes. -/
theorem content_add (r : Res) (id : Nat) (blob : Bytes) (rl : Nat) (hi : RInv enc r)
    (hpre : ∀ e ∈ r.rev, e.id + e.rl ≤ id) (t : Nat) :
    content (add enc r id blob rl) t =
      if id ≤ t ∧ t < id + rl then some (enc blob) else content r t := by
  unfold add
  cases hl : (if r.dedup then lookupSeen r.seen blob else none) with
  | some p =>
    obtain ⟨off, len⟩ := p
    obtain ⟨hd, hmem⟩ := hit_mem hl
    have hs := hi.seenOk _ hmem
    simp only at hs
    simp only
    cases hr : r.rev with
    | nil =>
      simp only [content, List.find?_cons, covers, hr, List.find?_nil]
      by_cases hc : id ≤ t ∧ t < id + rl
      · simp [hc, hs.2.2]
      · simp [hc]
    | cons last rest =>
      simp only
      have hlast := hpre last (by rw [hr]; simp)
      split
      · -- run-length extension of the last entry
        rename_i hcond
        obtain ⟨hid, hoff⟩ := hcond
        -- the last entry carries the (offset, length) pair recorded for this content
        obtain ⟨p', hp', hpe⟩ := hi.pairs hd last (by rw [hr]; simp)
        have hpp : p' = (blob, (off, len)) := by
          apply hi.offInj p' hp' _ hmem
          rw [hpe]; exact hoff
        have hlen : last.len = len := by rw [hpp] at hpe; simp at hpe; exact hpe.2.symm
        simp only [content, List.find?_cons, covers, hr]
        by_cases hc : id ≤ t ∧ t < id + rl
        · have : last.id ≤ t ∧ t < last.id + (last.rl + rl) := by omega
          simp only [this, hc, decide_true, and_self, if_true]
          rw [hoff, hlen, hs.2.2]
        · by_cases hcl : last.id ≤ t ∧ t < last.id + last.rl
          · have : last.id ≤ t ∧ t < last.id + (last.rl + rl) := by omega
            simp [this, hcl, hc]
          · have : ¬ (last.id ≤ t ∧ t < last.id + (last.rl + rl)) := by omega
            simp [this, hcl, hc]
      · simp only [content, List.find?_cons, covers, hr]
        by_cases hc : id ≤ t ∧ t < id + rl
        · simp [hc, hs.2.2]
        · simp [hc]
  | none =>
    simp only [content, List.find?_cons, covers]
    by_cases hc : id ≤ t ∧ t < id + rl
    · simp [hc, slice_new]
    · simp only [hc, decide_false, Bool.false_eq_true, if_false]
      cases hf : r.rev.find? (fun x => decide (x.id ≤ t ∧ t < x.id + x.rl)) with
      | none => rfl
      | some e =>
        have he := List.mem_of_find?_eq_some hf
        simp only
        rw [slice_append _ _ _ _ (hi.inData e he)]

end Pm.Resolver
