import PmtilesModel.Proofs.SyncConverge
/-!
# Sync as file-system operations: only `FILE.tmp` is touched until the final rename
-/
namespace Pm.Sync
open Pm Pm.Header Pm.Edit

/-- the operation writes (only) the temp file -/
def OnTmp (tmp : String) : FsOp → Prop
  | .create p => p = tmp
  | .append p _ => p = tmp
  | .pwrite p _ _ => p = tmp
  | .rename _ _ => False

theorem applyOps_other (tmp q : String) (hq : q ≠ tmp) : ∀ (ops : List FsOp) (fs : Fs),
    (∀ op ∈ ops, OnTmp tmp op) → applyOps fs ops q = fs q
  | [], _, _ => rfl
  | op :: ops, fs, h => by
    have h1 : OnTmp tmp op := h op (by simp)
    have ih := applyOps_other tmp q hq ops (applyOp fs op) (fun o ho => h o (by simp [ho]))
    unfold applyOps at ih ⊢
    rw [List.foldl_cons, ih]
    cases op with
    | create p => simp only [OnTmp] at h1; subst h1; simp [applyOp, hq]
    | append p b => simp only [OnTmp] at h1; subst h1; simp [applyOp, hq]
    | pwrite p o b => simp only [OnTmp] at h1; subst h1; simp [applyOp, hq]
    | rename s d => exact absurd h1 (by simp [OnTmp])

/-- `pwrite`'s effect on the file content -/
def pw (c : Bytes) (off : Nat) (b : Bytes) : Bytes := c.take off ++ b ++ c.drop (off + b.length)

theorem applyOps_pwrites (tmp : String) : ∀ (ws : List (Nat × Bytes)) (fs : Fs),
    applyOps fs (ws.map (fun w => FsOp.pwrite tmp w.1 w.2)) tmp =
      (fs tmp).map (fun c => ws.foldl (fun c w => pw c w.1 w.2) c)
  | [], fs => by simp [applyOps]
  | w :: ws, fs => by
    have ih := applyOps_pwrites tmp ws (applyOp fs (.pwrite tmp w.1 w.2))
    unfold applyOps at ih ⊢
    rw [List.map_cons, List.foldl_cons, ih]
    simp only [applyOp, if_true, Option.map_map, List.foldl_cons]
    rfl

theorem pw_piece (g c : Bytes) (off len : Nat) (hl : c.length = g.length) :
    pw c off (slice g off len) = writeAt c off (slice g off len) := by
  unfold writeAt pw
  split
  · rfl
  · rename_i h
    have hs := slice_length g off len
    have hgt : g.length < off := by
      by_cases h' : off ≤ g.length
      · exfalso; apply h; rw [hs, hl]; omega
      · omega
    have : slice g off len = [] := by
      apply List.eq_nil_of_length_eq_zero; rw [hs]; omega
    rw [this]
    simp

theorem pwRanges_eq (src g : Bytes) (stdo dtdo : Nat) : ∀ (rs : List Rng) (f : Bytes),
    f.length = g.length → (∀ r ∈ rs, Correct src g stdo dtdo r) →
    rs.foldl (fun f r => pw f (dtdo + r.dst) (slice src (stdo + r.src) r.len)) f = writeRanges src stdo dtdo f rs
  | [], _, _, _ => rfl
  | r :: rs, f, hl, hc => by
    have hr : Correct src g stdo dtdo r := hc r (by simp)
    unfold Correct at hr
    simp only [List.foldl_cons, writeRanges]
    rw [hr, pw_piece g f _ _ hl]
    have hl' : (writeAt f (dtdo + r.dst) (slice g (dtdo + r.dst) r.len)).length = g.length := by
      rw [writeAt_length]; exact hl
    exact pwRanges_eq src g stdo dtdo rs _ hl' (fun x hx => hc x (by simp [hx]))

theorem path_ne_tmp (path : String) : path ≠ path ++ ".tmp" := by
  intro h
  have := congrArg String.length h
  simp at this

/-- the operations before the rename -/
def preOps (path : String) (afile bfile : Bytes) (atdo : Nat) (bh : Header) (p : Plan) : List FsOp :=
  (syncOps path afile bfile atdo bh p).dropLast

theorem syncOps_split (path : String) (afile bfile : Bytes) (atdo : Nat) (bh : Header) (p : Plan) :
    syncOps path afile bfile atdo bh p = preOps path afile bfile atdo bh p ++ [.rename (path ++ ".tmp") path] := by
  unfold preOps syncOps
  simp only
  rw [List.dropLast_concat]

theorem preOps_onTmp (path : String) (afile bfile : Bytes) (atdo : Nat) (bh : Header) (p : Plan) :
    ∀ op ∈ preOps path afile bfile atdo bh p, OnTmp (path ++ ".tmp") op := by
  unfold preOps syncOps
  simp only
  rw [List.dropLast_concat]
  intro op hop
  simp only [List.mem_append, List.mem_cons, List.mem_map, List.not_mem_nil, or_false] at hop
  rcases hop with ((h | h | h | h | h) | ⟨r, _, h⟩) | ⟨r, _, h⟩ <;> subst h <;> simp [OnTmp]

end Pm.Sync
