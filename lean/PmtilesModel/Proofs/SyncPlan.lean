import PmtilesModel.Proofs.SyncWrite
/-!
# The sync plan: sorting, coalescing, diff — membership/coverage/correctness lemmas
-/
namespace Pm.Sync
open Pm

/-! ## sortBy -/

theorem mem_insertBy {α} (key : α → Nat) (x y : α) (ys : List α) : y ∈ insertBy key x ys ↔ y = x ∨ y ∈ ys := by
  induction ys with
  | nil => simp [insertBy]
  | cons z zs ih =>
    unfold insertBy
    split
    · simp
    · simp only [List.mem_cons, ih]
      constructor
      · rintro (h | h | h)
        · exact Or.inr (Or.inl h)
        · exact Or.inl h
        · exact Or.inr (Or.inr h)
      · rintro (h | h | h)
        · exact Or.inr (Or.inl h)
        · exact Or.inl h
        · exact Or.inr (Or.inr h)

theorem mem_sortBy {α} (key : α → Nat) (y : α) (xs : List α) : y ∈ sortBy key xs ↔ y ∈ xs := by
  induction xs with
  | nil => simp [sortBy]
  | cons x xs ih =>
    have : sortBy key (x :: xs) = insertBy key x (sortBy key xs) := rfl
    rw [this, mem_insertBy, ih]; simp

theorem length_insertBy {α} (key : α → Nat) (x : α) (ys : List α) : (insertBy key x ys).length = ys.length + 1 := by
  induction ys with
  | nil => rfl
  | cons z zs ih => unfold insertBy; split <;> simp [ih]

theorem length_sortBy {α} (key : α → Nat) (xs : List α) : (sortBy key xs).length = xs.length := by
  induction xs with
  | nil => rfl
  | cons x xs ih =>
    have : sortBy key (x :: xs) = insertBy key x (sortBy key xs) := rfl
    rw [this, length_insertBy, ih]; rfl

/-- a strictly ascending list is already sorted: `sortBy` leaves it alone -/
theorem sortBy_ascending {α} (key : α → Nat) (xs : List α) (h : xs.Pairwise (fun a b => key a < key b)) :
    sortBy key xs = xs := by
  induction xs with
  | nil => rfl
  | cons x xs ih =>
    have hs : sortBy key (x :: xs) = insertBy key x (sortBy key xs) := rfl
    rw [hs, ih (List.Pairwise.of_cons h)]
    cases xs with
    | nil => rfl
    | cons y ys =>
      unfold insertBy
      rw [if_pos ((List.pairwise_cons.mp h).1 y (by simp))]

/-! ## coalesce -/

/-- `Q`: a class of ranges closed under merging on which `cond` implies contiguity in both files -/
structure MergeOK (Q : Rng → Prop) (cond : Rng → Rng → Bool) : Prop where
  contig : ∀ l v, Q l → Q v → cond l v = true → l.src + l.len = v.src ∧ l.dst + l.len = v.dst
  closed : ∀ l v, Q l → Q v → cond l v = true → Q { l with len := l.len + v.len }

theorem haveCond_ok : MergeOK (fun _ => True) haveCond := by
  constructor
  · intro l v _ _ h
    simp only [haveCond, Bool.and_eq_true, beq_iff_eq] at h
    exact h
  · intros; trivial

theorem wantedCond_ok : MergeOK (fun r => r.src = r.dst) wantedCond := by
  constructor
  · intro l v hl hv h
    simp only [wantedCond, beq_iff_eq] at h
    omega
  · intro l v hl _ _
    exact hl

theorem correct_merge (src g : Bytes) (stdo dtdo : Nat) (l v : Rng)
    (h1 : l.src + l.len = v.src) (h2 : l.dst + l.len = v.dst)
    (cl : Correct src g stdo dtdo l) (cv : Correct src g stdo dtdo v) :
    Correct src g stdo dtdo { l with len := l.len + v.len } := by
  unfold Correct at *
  simp only
  rw [slice_add, slice_add, cl]
  have e1 : stdo + l.src + l.len = stdo + v.src := by omega
  have e2 : dtdo + l.dst + l.len = dtdo + v.dst := by omega
  rw [e1, e2, cv]

theorem pushMerge_pos (cond : Rng → Rng → Bool) (l v : Rng) (rest : List Rng) (h : cond l v = true) :
    pushMerge cond (l :: rest) v = { l with len := l.len + v.len } :: rest := by
  simp [pushMerge, h]

theorem pushMerge_neg (cond : Rng → Rng → Bool) (l v : Rng) (rest : List Rng) (h : ¬ cond l v = true) :
    pushMerge cond (l :: rest) v = v :: l :: rest := by
  simp [pushMerge, h]

theorem pushMerge_spec (Q : Rng → Prop) (cond : Rng → Rng → Bool) (ok : MergeOK Q cond)
    (src g : Bytes) (stdo dtdo : Nat) (acc : List Rng) (v : Rng)
    (hq : ∀ r ∈ acc, Q r) (hv : Q v)
    (hc : ∀ r ∈ acc, Correct src g stdo dtdo r) (cv : Correct src g stdo dtdo v) :
    (∀ r ∈ pushMerge cond acc v, Q r) ∧ (∀ r ∈ pushMerge cond acc v, Correct src g stdo dtdo r) ∧
    (∀ i, Covers dtdo (pushMerge cond acc v) i ↔ (Covers dtdo acc i ∨ (dtdo + v.dst ≤ i ∧ i < dtdo + v.dst + v.len))) := by
  cases acc with
  | nil =>
    simp only [pushMerge, List.mem_singleton, forall_eq]
    refine ⟨hv, cv, fun i => ?_⟩
    simp [Covers]
  | cons l rest =>
    by_cases hcnd : cond l v = true
    · rw [pushMerge_pos cond l v rest hcnd]
      have hl : Q l := hq l (by simp)
      obtain ⟨c1, c2⟩ := ok.contig l v hl hv hcnd
      refine ⟨?_, ?_, fun i => ?_⟩
      · intro r hr
        rcases List.mem_cons.mp hr with e | hm
        · subst e; exact ok.closed l v hl hv hcnd
        · exact hq r (by simp [hm])
      · intro r hr
        rcases List.mem_cons.mp hr with e | hm
        · subst e; exact correct_merge src g stdo dtdo l v c1 c2 (hc l (by simp)) cv
        · exact hc r (by simp [hm])
      · unfold Covers
        constructor
        · rintro ⟨r, hr, h1, h2⟩
          rcases List.mem_cons.mp hr with e | hm
          · subst e
            simp only at h1 h2
            by_cases hi : i < dtdo + l.dst + l.len
            · exact Or.inl ⟨l, by simp, h1, hi⟩
            · exact Or.inr ⟨by omega, by omega⟩
          · exact Or.inl ⟨r, by simp [hm], h1, h2⟩
        · rintro (⟨r, hr, h1, h2⟩ | ⟨h1, h2⟩)
          · rcases List.mem_cons.mp hr with e | hm
            · subst e
              exact ⟨{ r with len := r.len + v.len }, by simp, by simpa using h1, by simp only; omega⟩
            · exact ⟨r, by simp [hm], h1, h2⟩
          · exact ⟨{ l with len := l.len + v.len }, by simp, by simp only; omega, by simp only; omega⟩
    · rw [pushMerge_neg cond l v rest hcnd]
      refine ⟨?_, ?_, fun i => ?_⟩
      · intro r hr
        rcases List.mem_cons.mp hr with e | hm
        · subst e; exact hv
        · exact hq r hm
      · intro r hr
        rcases List.mem_cons.mp hr with e | hm
        · subst e; exact cv
        · exact hc r hm
      · unfold Covers
        constructor
        · rintro ⟨r, hr, h1, h2⟩
          rcases List.mem_cons.mp hr with e | hm
          · subst e; exact Or.inr ⟨h1, h2⟩
          · exact Or.inl ⟨r, hm, h1, h2⟩
        · rintro (⟨r, hr, h1, h2⟩ | ⟨h1, h2⟩)
          · exact ⟨r, by simp [hr], h1, h2⟩
          · exact ⟨v, by simp, h1, h2⟩

theorem foldl_pushMerge_spec (Q : Rng → Prop) (cond : Rng → Rng → Bool) (ok : MergeOK Q cond)
    (src g : Bytes) (stdo dtdo : Nat) (vs : List Rng) :
    ∀ (acc : List Rng), (∀ r ∈ acc, Q r) → (∀ r ∈ vs, Q r) →
      (∀ r ∈ acc, Correct src g stdo dtdo r) → (∀ r ∈ vs, Correct src g stdo dtdo r) →
      (∀ r ∈ vs.foldl (pushMerge cond) acc, Correct src g stdo dtdo r) ∧
      (∀ i, Covers dtdo (vs.foldl (pushMerge cond) acc) i ↔ (Covers dtdo acc i ∨ Covers dtdo vs i)) := by
  induction vs with
  | nil =>
    intro acc _ _ hc _
    refine ⟨hc, fun i => ?_⟩
    simp [Covers]
  | cons v vs ih =>
    intro acc hq hqv hc hcv
    obtain ⟨q1, c1, cov1⟩ := pushMerge_spec Q cond ok src g stdo dtdo acc v hq (hqv v (by simp)) hc (hcv v (by simp))
    obtain ⟨c2, cov2⟩ := ih (pushMerge cond acc v) q1 (fun r hr => hqv r (by simp [hr])) c1 (fun r hr => hcv r (by simp [hr]))
    refine ⟨c2, fun i => ?_⟩
    rw [List.foldl_cons, cov2 i, cov1 i]
    unfold Covers
    constructor
    · rintro ((h | h) | ⟨r, hr, h1, h2⟩)
      · exact Or.inl h
      · exact Or.inr ⟨v, by simp, h.1, h.2⟩
      · exact Or.inr ⟨r, by simp [hr], h1, h2⟩
    · rintro (h | ⟨r, hr, h1, h2⟩)
      · exact Or.inl (Or.inl h)
      · rcases List.mem_cons.mp hr with e | hm
        · subst e; exact Or.inl (Or.inr ⟨h1, h2⟩)
        · exact Or.inr ⟨r, hm, h1, h2⟩

/-- coalescing keeps every range correct and covers exactly the same destination bytes -/
theorem coalesce_spec (Q : Rng → Prop) (cond : Rng → Rng → Bool) (ok : MergeOK Q cond)
    (src g : Bytes) (stdo dtdo : Nat) (vs : List Rng)
    (hq : ∀ r ∈ vs, Q r) (hc : ∀ r ∈ vs, Correct src g stdo dtdo r) :
    (∀ r ∈ coalesce cond vs, Correct src g stdo dtdo r) ∧
    (∀ i, Covers dtdo (coalesce cond vs) i ↔ Covers dtdo vs i) := by
  obtain ⟨c, cov⟩ := foldl_pushMerge_spec Q cond ok src g stdo dtdo vs [] (by simp) hq (by simp) hc
  unfold coalesce
  refine ⟨fun r hr => c r (List.mem_reverse.mp hr), fun i => ?_⟩
  have : Covers dtdo (vs.foldl (pushMerge cond) []).reverse i ↔ Covers dtdo (vs.foldl (pushMerge cond) []) i := by
    unfold Covers; simp only [List.mem_reverse]
  rw [this, cov i]
  simp [Covers]

/-! ## diff -/

theorem takeWhile_dropWhile_mem {α} (p : α → Bool) (xs : List α) (x : α) :
    x ∈ xs ↔ x ∈ xs.takeWhile p ∨ x ∈ xs.dropWhile p := by
  rw [← List.mem_append, List.takeWhile_append_dropWhile]

/-- the blocks still to be placed, those handed to the hashers and those declared wanted together
    are exactly the blocks (as a set), and none is lost or duplicated in number -/
def DiffInv (blocks : List Block) (st : DiffSt) : Prop :=
  (∀ b, b ∈ blocks ↔ (b ∈ st.rest ∨ b ∈ st.tasks.map (·.1) ∨ b ∈ st.wanted)) ∧
  st.rest.length + st.tasks.length + st.wanted.length = blocks.length

theorem diffStep_inv (blocks : List Block) (st : DiffSt) (e : Entry) (h : DiffInv blocks st) :
    DiffInv blocks (diffStep st e) := by
  obtain ⟨hm, hl⟩ := h
  unfold diffStep
  cases hr : st.rest with
  | nil => simp only; exact ⟨hm, hl⟩
  | cons b0 r0 =>
    simp only
    have hsplit := takeWhile_dropWhile_mem (fun b : Block => decide (b.start < e.id)) (b0 :: r0)
    have hlen : ((b0 :: r0).takeWhile (fun b : Block => decide (b.start < e.id))).length +
        ((b0 :: r0).dropWhile (fun b : Block => decide (b.start < e.id))).length = (b0 :: r0).length := by
      rw [← List.length_append, List.takeWhile_append_dropWhile]
    rw [hr] at hm hl
    cases hd : (b0 :: r0).dropWhile (fun b : Block => decide (b.start < e.id)) with
    | nil =>
      rw [hd] at hsplit hlen
      simp only
      constructor
      · intro b
        rw [hm b, hsplit b]
        simp only [List.mem_append, List.not_mem_nil, or_false, false_or]
        constructor
        · rintro (h | h | h)
          · exact Or.inr (Or.inr h)
          · exact Or.inl h
          · exact Or.inr (Or.inl h)
        · rintro (h | h | h)
          · exact Or.inr (Or.inl h)
          · exact Or.inr (Or.inr h)
          · exact Or.inl h
      · simp only [List.length_append, List.length_nil] at hlen ⊢
        omega
    | cons b r =>
      rw [hd] at hsplit hlen
      simp only
      split
      · constructor
        · intro x
          rw [hm x, hsplit x]
          simp only [List.mem_append, List.map_append, List.map_cons, List.map_nil, List.mem_cons, List.not_mem_nil, or_false]
          constructor
          · rintro ((h | h | h) | h | h)
            · exact Or.inr (Or.inr (Or.inr h))
            · exact Or.inr (Or.inl (Or.inr h))
            · exact Or.inl h
            · exact Or.inr (Or.inl (Or.inl h))
            · exact Or.inr (Or.inr (Or.inl h))
          · rintro (h | (h | h) | h | h)
            · exact Or.inl (Or.inr (Or.inr h))
            · exact Or.inr (Or.inl h)
            · exact Or.inl (Or.inr (Or.inl h))
            · exact Or.inr (Or.inr h)
            · exact Or.inl (Or.inl h)
        · simp only [List.length_append, List.length_cons, List.length_nil] at hlen hl ⊢
          omega
      · constructor
        · intro x
          rw [hm x, hsplit x]
          simp only [List.mem_append, List.mem_cons]
          constructor
          · rintro ((h | h | h) | h | h)
            · exact Or.inr (Or.inr (Or.inr h))
            · exact Or.inl (Or.inl h)
            · exact Or.inl (Or.inr h)
            · exact Or.inr (Or.inl h)
            · exact Or.inr (Or.inr (Or.inl h))
          · rintro ((h | h) | h | h | h)
            · exact Or.inl (Or.inr (Or.inl h))
            · exact Or.inl (Or.inr (Or.inr h))
            · exact Or.inr (Or.inl h)
            · exact Or.inr (Or.inr h)
            · exact Or.inl (Or.inl h)
        · simp only [List.length_append, List.length_cons] at hlen hl ⊢
          omega

theorem diff_foldl_inv (blocks : List Block) (es : List Entry) :
    ∀ st, DiffInv blocks st → DiffInv blocks (es.foldl diffStep st) := by
  induction es with
  | nil => intro st h; exact h
  | cons e es ih => intro st h; exact ih _ (diffStep_inv blocks st e h)

/-- every remote block is either handed to a hasher (exactly once) or declared wanted: none is
    skipped, none is visited twice — for every local entry stream -/
theorem diff_partition (blocks : List Block) (es : List Entry) :
    (∀ b, b ∈ blocks ↔ (b ∈ (diff blocks es).1.map (·.1) ∨ b ∈ (diff blocks es).2)) ∧
    (diff blocks es).1.length + (diff blocks es).2.length = blocks.length := by
  have h0 : DiffInv blocks { rest := blocks, tasks := [], wanted := [] } := by
    constructor
    · intro b; simp
    · simp
  obtain ⟨hm, hl⟩ := diff_foldl_inv blocks es _ h0
  unfold diff
  simp only
  constructor
  · intro b
    rw [hm b]
    simp only [List.mem_append]
    constructor
    · rintro (h | h | h)
      · exact Or.inr (Or.inr h)
      · exact Or.inl h
      · exact Or.inr (Or.inl h)
    · rintro (h | h | h)
      · exact Or.inr (Or.inl h)
      · exact Or.inr (Or.inr h)
      · exact Or.inl h
  · simp only [List.length_append]; omega

/-! ## tiling -/

/-- `blocks` tile `[off, n)`: consecutive, no gap, no overlap (what `deserializeSyncBlocks` assumes) -/
def Tile : Nat → List Block → Nat → Prop
  | off, [], n => off = n
  | off, b :: bs, n => b.off = off ∧ Tile (off + b.len) bs n

theorem tile_le : ∀ (bs : List Block) (off n : Nat), Tile off bs n → off ≤ n
  | [], off, n, h => by simp only [Tile] at h; omega
  | b :: bs, off, n, h => by
    obtain ⟨_, h2⟩ := h
    have := tile_le bs _ _ h2; omega

theorem tile_cover : ∀ (bs : List Block) (off n i : Nat), Tile off bs n → off ≤ i → i < n →
    ∃ b ∈ bs, b.off ≤ i ∧ i < b.off + b.len
  | [], off, n, i, h, h1, h2 => by simp only [Tile] at h; omega
  | b :: bs, off, n, i, h, h1, h2 => by
    obtain ⟨e, h'⟩ := h
    by_cases hi : i < off + b.len
    · exact ⟨b, by simp, by omega, by omega⟩
    · obtain ⟨b', hb', c1, c2⟩ := tile_cover bs _ n i h' (by omega) h2
      exact ⟨b', by simp [hb'], c1, c2⟩

theorem tile_within : ∀ (bs : List Block) (off n : Nat), Tile off bs n → ∀ b ∈ bs, b.off + b.len ≤ n
  | [], _, _, _, b, hb => by cases hb
  | b0 :: bs, off, n, h, b, hb => by
    obtain ⟨e, h'⟩ := h
    rcases List.mem_cons.mp hb with e1 | hm
    · subst e1; have := tile_le bs _ _ h'; omega
    · exact tile_within bs _ n h' b hm

end Pm.Sync
