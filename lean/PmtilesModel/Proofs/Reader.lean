import PmtilesModel.Model.Reader
/-! Proofs for C04/C17: binary search = last-≤ spec; the walk = lookup in the flattened enumeration. -/
namespace Pm.Reader

/-- spec: position of the last entry with id ≤ t -/
def StrictAsc (es : Array Entry) : Prop := ∀ i j (hi : i < es.size) (hj : j < es.size), i < j → es[i].id < es[j].id

theorem search_spec (es : Array Entry) (t : Nat) (hs : StrictAsc es) (lo hi : Nat) (hhi : hi ≤ es.size) (hlo : lo ≤ hi)
    (hL : ∀ i (h : i < es.size), i < lo → es[i].id < t)
    (hR : ∀ i (h : i < es.size), hi ≤ i → t < es[i].id) :
    (∃ e, search es t lo hi = .inr e ∧ e ∈ es ∧ e.id = t) ∨
    (∃ n1, search es t lo hi = .inl n1 ∧ n1 ≤ es.size ∧
        (∀ i (h : i < es.size), i < n1 → es[i].id < t) ∧ (∀ i (h : i < es.size), n1 ≤ i → t < es[i].id)) := by
  induction h : hi - lo using Nat.strongRecOn generalizing lo hi with
  | _ d ih =>
    unfold search
    split
    · rename_i hlt
      have hk : (hi - 1 + lo) / 2 < es.size := by omega
      simp only [hk, dite_true]
      have hk1 : lo ≤ (hi - 1 + lo) / 2 := by omega
      have hk2 : (hi - 1 + lo) / 2 < hi := by omega
      split
      · rename_i hcmp
        apply ih (hi - ((hi - 1 + lo) / 2 + 1)) (by omega) _ _ hhi (by omega) _ hR rfl
        intro i hi' hil
        rcases Nat.lt_or_ge i ((hi - 1 + lo) / 2) with h' | h'
        · exact Nat.lt_trans (hs i _ hi' hk h') hcmp
        · have : i = (hi - 1 + lo) / 2 := by omega
          subst this; exact hcmp
      · split
        · rename_i hn hcmp
          apply ih ((hi - 1 + lo) / 2 - lo) (by omega) _ _ (by omega) hk1 hL _ rfl
          intro i hi' hil
          rcases Nat.lt_or_ge ((hi - 1 + lo) / 2) i with h' | h'
          · exact Nat.lt_trans hcmp (hs _ i hk hi' h')
          · have : i = (hi - 1 + lo) / 2 := by omega
            subst this; exact hcmp
        · rename_i hn1 hn2
          left
          exact ⟨_, rfl, Array.getElem_mem hk, by omega⟩
    · right
      have : lo = hi := by omega
      subst this
      exact ⟨lo, rfl, hhi, hL, hR⟩

/-- linear-scan specification -/
def coversP (e : Entry) (t : Nat) : Prop := e.id ≤ t ∧ (e.rl = 0 ∨ t - e.id < e.rl)

theorem findTile_sound (es : Array Entry) (t : Nat) (hs : StrictAsc es) (e : Entry)
    (h : findTile es t = some e) :
    e ∈ es ∧ coversP e t ∧ ∀ i (hi : i < es.size), es[i].id ≤ t → es[i].id ≤ e.id := by
  unfold findTile at h
  rcases search_spec es t hs 0 es.size (Nat.le_refl _) (Nat.zero_le _) (by intro i _ h; omega) (by intro i h h'; omega) with
    ⟨e', he', hmem, hid⟩ | ⟨n1, hn, hle, hL, hR⟩
  · rw [he'] at h; simp at h; subst h
    refine ⟨hmem, ⟨by omega, ?_⟩, ?_⟩
    · by_cases hz : e'.rl = 0
      · exact Or.inl hz
      · right; omega
    · intro i hi hle; omega
  · rw [hn] at h
    simp only at h
    split at h
    · rename_i hc
      have hlast : es[n1 - 1].id < t := hL (n1 - 1) hc.2 (by omega)
      have hmax : ∀ i (hi : i < es.size), es[i].id ≤ t → es[i].id ≤ es[n1 - 1].id := by
        intro i hi hle
        rcases Nat.lt_or_ge i n1 with h' | h'
        · rcases Nat.lt_or_ge i (n1 - 1) with h'' | h''
          · exact Nat.le_of_lt (hs i (n1 - 1) hi hc.2 h'')
          · have : i = n1 - 1 := by omega
            subst this; exact Nat.le_refl _
        · have := hR i hi h'; omega
      split at h
      · rename_i hz
        simp at h; subst h
        exact ⟨Array.getElem_mem hc.2, ⟨by omega, Or.inl hz⟩, hmax⟩
      · split at h
        · rename_i hz hr
          simp at h; subst h
          exact ⟨Array.getElem_mem hc.2, ⟨by omega, Or.inr hr⟩, hmax⟩
        · simp at h
    · simp at h

theorem findTile_complete (es : Array Entry) (t : Nat) (hs : StrictAsc es)
    (h : findTile es t = none) :
    ∀ i (hi : i < es.size), es[i].id ≤ t → (∃ j, ∃ (hj : j < es.size), es[i].id < es[j].id ∧ es[j].id ≤ t) ∨ ¬ coversP es[i] t := by
  unfold findTile at h
  rcases search_spec es t hs 0 es.size (Nat.le_refl _) (Nat.zero_le _) (by intro i _ h; omega) (by intro i h h'; omega) with
    ⟨e', he', hmem, hid⟩ | ⟨n1, hn, hle, hL, hR⟩
  · rw [he'] at h; simp at h
  · rw [hn] at h
    simp only at h
    intro i hi hit
    have hin : i < n1 := by
      rcases Nat.lt_or_ge i n1 with h' | h'
      · exact h'
      · have := hR i hi h'; omega
    have hc : 0 < n1 ∧ n1 - 1 < es.size := by omega
    rw [dif_pos hc] at h
    rcases Nat.lt_or_ge i (n1 - 1) with h' | h'
    · left
      exact ⟨n1 - 1, hc.2, hs i (n1 - 1) hi hc.2 h', Nat.le_of_lt (hL (n1 - 1) hc.2 (by omega))⟩
    · right
      have : i = n1 - 1 := by omega
      subst this
      intro hcov
      split at h
      · simp at h
      · rename_i hz
        split at h
        · simp at h
        · rename_i hr
          rcases hcov.2 with h0 | h1
          · exact hz h0
          · exact hr h1


/-- the directory walk shared by server.go and show.go -/
def walk (fetch : Fetch) : Nat → List Entry → Nat → Option Entry
  | fuel, dir, t =>
    match lookupDir dir t with
    | none => none
    | some e =>
      if 0 < e.rl then some e else
      match fuel with
      | 0 => none
      | f+1 => match fetch e.off e.len with
        | none => none
        | some d => walk fetch f d t


theorem flatten_nil (fetch : Fetch) (d : Nat) : flatten fetch d [] = [] := by
  cases d <;> rfl

theorem flatten_tile (fetch : Fetch) (d : Nat) (e : Entry) (es : List Entry) (h : 0 < e.rl) :
    flatten fetch d (e :: es) = e :: flatten fetch d es := by
  cases d <;> simp [flatten, flattenAux, h]

theorem flatten_ptr (fetch : Fetch) (d : Nat) (e : Entry) (es es' : List Entry) (h : ¬ 0 < e.rl)
    (hf : fetch e.off e.len = some es') :
    flatten fetch (d+1) (e :: es) = flatten fetch d es' ++ flatten fetch (d+1) es := by
  simp [flatten, flattenAux, h, hf]


theorem WF.le {fetch d lo hi es} (h : WF fetch d lo hi es) : lo ≤ hi := by
  induction h with
  | nil h => exact h
  | tile h1 h2 _ ih => omega
  | ptr h1 _ _ _ _ _ ih1 ih2 => omega

/-- every flattened entry's coverage lies in [lo, hi) -/
theorem flat_bounds {fetch d lo hi es} (h : WF fetch d lo hi es) :
    ∀ x ∈ flatten fetch d es, lo ≤ x.id ∧ x.id + x.rl ≤ hi := by
  induction h with
  | nil _ => intro x hx; simp [flatten_nil] at hx
  | @tile d lo hi e es h1 h2 hw ih =>
    intro x hx
    rw [flatten_tile _ _ _ _ h2] at hx; simp only [List.mem_cons] at hx
    rcases hx with rfl | hx
    · exact ⟨h1, hw.le⟩
    · have := ih x hx; omega
  | @ptr d lo hi mid e es es' h1 h2 hf hh hw1 hw2 ih1 ih2 =>
    intro x hx
    have : ¬ (0 < e.rl) := by omega
    rw [flatten_ptr _ _ _ _ _ this hf] at hx; simp only [List.mem_append] at hx
    rcases hx with hx | hx
    · have := ih1 x hx; have := hw2.le; omega
    · have := ih2 x hx; have := hw1.le; omega

theorem lookupFlat_none_of_lt {fetch d lo hi es} (h : WF fetch d lo hi es) (t : Nat) (ht : t < lo) :
    lookupFlat (flatten fetch d es) t = none := by
  unfold lookupFlat
  rw [List.find?_eq_none]
  intro x hx
  have := flat_bounds h x hx
  simp [covers]; omega

theorem lookupFlat_none_of_ge {fetch d lo hi es} (h : WF fetch d lo hi es) (t : Nat) (ht : hi ≤ t) :
    lookupFlat (flatten fetch d es) t = none := by
  unfold lookupFlat
  rw [List.find?_eq_none]
  intro x hx
  have := flat_bounds h x hx
  simp [covers]; omega

theorem lastLE_none_of_lt {fetch d lo hi es} (h : WF fetch d lo hi es) (t : Nat) (ht : t < lo) :
    lastLE es t = none := by
  cases h with
  | nil _ => rfl
  | tile h1 _ _ => simp [lastLE]; omega
  | ptr h1 _ _ _ _ _ => simp [lastLE]; omega

theorem lookupFlat_append (a b : List Entry) (t : Nat) :
    lookupFlat (a ++ b) t = (match lookupFlat a t with | some e => some e | none => lookupFlat b t) := by
  unfold lookupFlat
  rw [List.find?_append]
  cases List.find? (covers · t) a <;> rfl

theorem walk_eq {fetch d lo hi es} (h : WF fetch d lo hi es) :
    ∀ fuel t, d ≤ fuel → walk fetch fuel es t = lookupFlat (flatten fetch d es) t := by
  induction h with
  | nil _ => intro fuel t _; simp [walk, lookupDir, lastLE, flatten_nil, lookupFlat]
  | @tile d lo hi e es h1 h2 hw ih =>
    intro fuel t hfu
    have hrest := ih fuel t hfu
    rw [flatten_tile _ _ _ _ h2]
    by_cases hlt : e.id ≤ t
    · by_cases hin : t < e.id + e.rl
      · -- inside e's run
        have hn := lastLE_none_of_lt hw t hin
        have hacc : accept e t = some e := by unfold accept; rw [if_pos]; right; omega
        unfold walk
        simp only [lookupDir, lastLE, hlt, if_true, hn, hacc, h2]
        simp [lookupFlat, covers, hlt, hin]
      · -- beyond e's run: behaves like the rest
        have hflat : lookupFlat (e :: flatten fetch d es) t = lookupFlat (flatten fetch d es) t := by
          simp [lookupFlat, covers, List.find?_cons, hin]
        rw [hflat, ← hrest]
        cases hl : lastLE es t with
        | none =>
          have hacc : accept e t = none := by unfold accept; rw [if_neg]; omega
          unfold walk
          simp [lookupDir, lastLE, hlt, hl, hacc]
        | some e' =>
          unfold walk
          simp [lookupDir, lastLE, hlt, hl]
    · -- before e
      have hn : lastLE es t = none := lastLE_none_of_lt hw t (by omega)
      have h1' : lookupFlat (e :: flatten fetch d es) t = none := by
        have := lookupFlat_none_of_lt hw t (by omega)
        simp [lookupFlat, covers, List.find?_cons, hlt] at this ⊢
        exact this
      rw [h1']
      unfold walk
      simp [lookupDir, lastLE, hlt]
  | @ptr d lo hi mid e es es' h1 h2 hf hh hw1 hw2 ih1 ih2 =>
    intro fuel t hfu
    have hnr : ¬ (0 < e.rl) := by omega
    rw [flatten_ptr _ _ _ _ _ hnr hf]
    rw [lookupFlat_append]
    obtain ⟨f, rfl⟩ : ∃ f, fuel = f + 1 := ⟨fuel - 1, by omega⟩
    have hleaf := ih1 f t (by omega)
    have hrest := ih2 (f+1) t hfu
    have hmidle := hw1.le
    by_cases hlt : e.id ≤ t
    · by_cases hin : t < mid
      · -- t belongs to the leaf's interval
        have hn := lastLE_none_of_lt hw2 t hin
        have hacc : accept e t = some e := by unfold accept; rw [if_pos]; left; exact h2
        have hrn := lookupFlat_none_of_lt hw2 t hin
        rw [hrn]
        have : walk fetch (f+1) (e :: es) t = walk fetch f es' t := by
          conv => lhs; unfold walk
          simp only [lookupDir, lastLE, hlt, if_true, hn, hacc, hnr, if_false, hf]
        rw [this, hleaf]
        cases lookupFlat (flatten fetch d es') t <;> rfl
      · -- t ≥ mid: leaf contributes nothing
        have hln := lookupFlat_none_of_ge hw1 t (by omega)
        rw [hln]
        simp only
        rw [← hrest]
        cases hl : lastLE es t with
        | none =>
          -- pointer e is the last ≤ t; descend; leaf has nothing for t; rest has nothing either
          have hacc : accept e t = some e := by unfold accept; rw [if_pos]; left; exact h2
          have hw : walk fetch (f+1) (e :: es) t = walk fetch f es' t := by
            conv => lhs; unfold walk
            simp only [lookupDir, lastLE, hlt, if_true, hl, hacc, hnr, if_false, hf]
          rw [hw, hleaf, hln]
          conv => rhs; unfold walk
          simp [lookupDir, hl]
        | some e' =>
          conv => lhs; unfold walk
          conv => rhs; unfold walk
          simp [lookupDir, lastLE, hlt, hl]
    · have hn : lastLE es t = none := lastLE_none_of_lt hw2 t (by omega)
      have hln := lookupFlat_none_of_lt hw1 t (by omega)
      have hrn := lookupFlat_none_of_lt hw2 t (by omega)
      rw [hln]; simp only; rw [hrn]
      unfold walk
      simp [lookupDir, lastLE, hlt]

end Pm.Reader
