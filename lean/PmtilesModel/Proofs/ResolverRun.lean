import PmtilesModel.Proofs.Resolver
namespace Pm.Resolver
open Pm

variable (enc : Bytes → Bytes)

/-- adds arrive in increasing tile-ID order, runs not overlapping (the resolver's precondition:
    "must be called in increasing tile_id order, uniquely") -/
def AscAdds : Nat → List Add → Prop
  | _, [] => True
  | lo, a :: r => lo ≤ a.1 ∧ AscAdds (a.1 + a.2.2) r

def addCovers (t : Nat) (a : Add) : Bool := decide (a.1 ≤ t ∧ t < a.1 + a.2.2)

/-- what the tile map must be after a sequence of adds -/
def specContent (adds : List Add) (t : Nat) : Option Bytes :=
  match adds.find? (addCovers t) with
  | some a => some (enc a.2.1)
  | none => none

theorem ascAdds_none (lo : Nat) (adds : List Add) (h : AscAdds lo adds) (t : Nat) (ht : t < lo) :
    adds.find? (addCovers t) = none := by
  induction adds generalizing lo with
  | nil => rfl
  | cons a r ih =>
    obtain ⟨h1, h2⟩ := h
    rw [List.find?_cons]
    have : addCovers t a = false := by simp [addCovers]; omega
    rw [this]
    exact ih (a.1 + a.2.2) h2 (by omega)

theorem add_bound (r : Res) (id : Nat) (blob : Bytes) (rl : Nat)
    (hpre : ∀ e ∈ r.rev, e.id + e.rl ≤ id) :
    ∀ e ∈ (add enc r id blob rl).rev, e.id + e.rl ≤ id + rl := by
  unfold add
  cases (if r.dedup then lookupSeen r.seen blob else none) with
  | some p =>
    obtain ⟨off, len⟩ := p
    simp only
    cases hr : r.rev with
    | nil => intro e he; simp at he; subst he; simp
    | cons last rest =>
      simp only
      split
      · rename_i hc
        intro e he
        simp only [List.mem_cons] at he
        rcases he with rfl | he
        · simp only; omega
        · have := hpre e (by rw [hr]; simp [he]); omega
      · intro e he
        simp only [List.mem_cons] at he
        rcases he with rfl | he
        · simp
        · have := hpre e (by rw [hr]; simpa using he); omega
  | none =>
    simp only
    intro e he
    simp only [List.mem_cons] at he
    rcases he with rfl | he
    · simp
    · have := hpre e he; omega

theorem add_dedup (r : Res) (id : Nat) (blob : Bytes) (rl : Nat) : (add enc r id blob rl).dedup = r.dedup := by
  unfold add
  cases (if r.dedup then lookupSeen r.seen blob else none) with
  | some p =>
    obtain ⟨off, len⟩ := p
    simp only
    cases r.rev with
    | nil => rfl
    | cons last rest => simp only; split <;> rfl
  | none => rfl

theorem add_addressed (r : Res) (id : Nat) (blob : Bytes) (rl : Nat) :
    (add enc r id blob rl).addressed = r.addressed + rl := by
  unfold add
  cases (if r.dedup then lookupSeen r.seen blob else none) with
  | some p =>
    obtain ⟨off, len⟩ := p
    simp only
    cases r.rev with
    | nil => rfl
    | cons last rest => simp only; split <;> rfl
  | none => rfl

def sumRl : List Add → Nat
  | [] => 0
  | a :: r => a.2.2 + sumRl r

theorem run_addressed (r : Res) (adds : List Add) : (run enc r adds).addressed = r.addressed + sumRl adds := by
  induction adds generalizing r with
  | nil => simp [run, sumRl]
  | cons a rest ih =>
    have : run enc r (a :: rest) = run enc (add enc r a.1 a.2.1 a.2.2) rest := rfl
    rw [this, ih, add_addressed]
    simp [sumRl]; omega


theorem run_inv (r : Res) (adds : List Add) (henc : ∀ a ∈ adds, 1 ≤ (enc a.2.1).length) (hi : RInv enc r) : RInv enc (run enc r adds) := by
  induction adds generalizing r with
  | nil => exact hi
  | cons a rest ih => exact ih _ (fun x hx => henc x (by simp [hx])) (add_inv enc r a.1 a.2.1 a.2.2 (henc a (by simp)) hi)

/-- after any ascending sequence of adds the reader sees `enc blob` on exactly the added runs and what
    it saw before everywhere else -/
theorem run_content (r : Res) (lo : Nat) (adds : List Add) (henc : ∀ a ∈ adds, 1 ≤ (enc a.2.1).length) (hi : RInv enc r)
    (hpre : ∀ e ∈ r.rev, e.id + e.rl ≤ lo) (ha : AscAdds lo adds) (t : Nat) :
    content (run enc r adds) t =
      match adds.find? (addCovers t) with
      | some a => some (enc a.2.1)
      | none => content r t := by
  induction adds generalizing r lo with
  | nil => rfl
  | cons a rest ih =>
    obtain ⟨h1, h2⟩ := ha
    have hrun : run enc r (a :: rest) = run enc (add enc r a.1 a.2.1 a.2.2) rest := rfl
    have hpre' : ∀ e ∈ r.rev, e.id + e.rl ≤ a.1 := fun e he => Nat.le_trans (hpre e he) h1
    rw [hrun, ih (add enc r a.1 a.2.1 a.2.2) (a.1 + a.2.2) (fun x hx => henc x (by simp [hx])) (add_inv enc r _ _ _ (henc a (by simp)) hi)
      (add_bound enc r _ _ _ hpre') h2]
    rw [content_add enc r a.1 a.2.1 a.2.2 hi hpre' t]
    rw [List.find?_cons]
    by_cases hc : a.1 ≤ t ∧ t < a.1 + a.2.2
    · have hcov : addCovers t a = true := by simp [addCovers, hc]
      rw [hcov, ascAdds_none _ rest h2 t hc.2]
      simp only [hc, and_self, if_true]
    · have hcov : addCovers t a = false := by simp [addCovers]; omega
      rw [hcov, if_neg hc]

theorem init_inv (d : Bool) : RInv enc (init d) := by
  refine ⟨?_, ?_, ?_, ?_⟩ <;> simp [init]

/-- the tile map written by a whole run = the specification map, with or without deduplication -/
theorem run_spec (d : Bool) (adds : List Add) (henc : ∀ a ∈ adds, 1 ≤ (enc a.2.1).length) (ha : AscAdds 0 adds) (t : Nat) :
    content (run enc (init d) adds) t = specContent enc adds t := by
  rw [run_content enc (init d) 0 adds henc (init_inv enc d) (by simp [init]) ha t]
  unfold specContent
  cases adds.find? (addCovers t) with
  | some a => rfl
  | none => simp [content, init]

end Pm.Resolver
