import PmtilesModel.Model.Uvarint
namespace Pm

theorem read_put_aux (x : Nat) (i acc : Nat) (rest : Bytes) (hx : x * 2^(7*i) < 2^64) (hi : i ≤ 9) :
    readUvarintAux (putUvarint x ++ rest) i acc = some (acc + x * 2^(7*i), rest) := by
  induction x using Nat.strongRecOn generalizing i acc with
  | _ x ih =>
    rw [putUvarint]
    split
    · rename_i h
      simp only [List.cons_append, List.nil_append, readUvarintAux]
      have h10 : i ≠ 10 := by omega
      simp only [h10, if_false, h, if_true]
      split
      · rename_i h9
        exfalso
        obtain ⟨rfl, hb⟩ := h9
        have e0 : (2:Nat)^(7*9) = 2^63 := rfl
        rw [e0] at hx
        have : x * 2^63 ≥ 2 * 2^63 := Nat.mul_le_mul_right _ hb
        have e : (2:Nat)^64 = 2 * 2^63 := by decide
        omega
      · rfl
    · rename_i h
      simp only [List.cons_append, readUvarintAux]
      have h10 : i ≠ 10 := by omega
      have hb : ¬ (x % 128 + 128 < 128) := by omega
      simp only [h10, if_false, hb]
      have hi9 : i < 9 := by
        rcases Nat.lt_or_ge i 9 with h' | h'
        · exact h'
        · exfalso
          have : i = 9 := by omega
          subst this
          have : x * 2^63 ≥ 128 * 2^63 := Nat.mul_le_mul_right _ (by omega)
          have e : (2:Nat)^64 = 2 * 2^63 := by decide
          have e2 : 7 * 9 = 63 := rfl
          rw [e2] at hx
          omega
      have hpow : (2:Nat)^(7*(i+1)) = 128 * 2^(7*i) := by
        rw [show 7*(i+1) = 7*i + 7 by omega, Nat.pow_add, Nat.mul_comm]
      have hx' : x / 128 * 2^(7*(i+1)) < 2^64 := by
        rw [hpow, ← Nat.mul_assoc]
        have : x / 128 * 128 ≤ x := Nat.div_mul_le_self x 128
        exact Nat.lt_of_le_of_lt (Nat.mul_le_mul_right _ this) hx
      rw [ih (x/128) (by omega) (i+1) _ hx' (by omega)]
      congr 2
      rw [hpow]
      have : (x % 128 + 128) % 128 = x % 128 := by omega
      rw [this, Nat.add_assoc, ← Nat.mul_assoc, ← Nat.add_mul]
      congr 2
      have := Nat.div_add_mod x 128
      omega

theorem read_put (x : Nat) (hx : x < 2^64) (rest : Bytes) :
    readUvarint (putUvarint x ++ rest) = some (x, rest) := by
  have := read_put_aux x 0 0 rest (by simpa using hx) (by omega)
  simpa [readUvarint] using this

theorem readN_putAll (xs : List Nat) (h : ∀ x ∈ xs, x < 2^64) (rest : Bytes) :
    readN xs.length (putAll xs ++ rest) = some (xs, rest) := by
  induction xs with
  | nil => rfl
  | cons x xs ih =>
    simp only [List.length_cons, putAll, readN, List.append_assoc]
    rw [read_put x (h x (by simp))]
    simp only
    rw [ih (fun y hy => h y (by simp [hy]))]

end Pm
