import PmtilesModel.Proofs.Clustered
import PmtilesModel.Model.Verify
/-!
# The writers' entry stream passes verify's per-entry checks (clustered mode)

`Verify.entryLoop` demands that every entry lies inside the tile data and, for clustered archives,
that every entry with a not-yet-seen offset starts exactly at the running end of the data.  The
resolver (convert, cluster) produces exactly that, for every sequence of adds.
-/
namespace Pm.Resolver
open Pm Pm.Verify

def stepState (st : List Nat × Nat) (e : Entry) : List Nat × Nat :=
  (e.off :: st.1, if !(st.1.contains e.off) then st.2 + e.len else st.2)

def loopState (st : List Nat × Nat) (es : List Entry) : List Nat × Nat := es.foldl stepState st

def entryBad (tdl : Nat) (st : List Nat × Nat) (e : Entry) : Bool :=
  decide (e.off + e.len > tdl) || (!(st.1.contains e.off) && decide (e.off ≠ st.2))

theorem entryLoop_snoc (tdl : Nat) : ∀ (xs : List Entry) (seen : List Nat) (cur : Nat) (x : Entry),
    entryLoop tdl true seen cur (xs ++ [x]) =
      (entryLoop tdl true seen cur xs || entryBad tdl (loopState (seen, cur) xs) x)
  | [], seen, cur, x => by
    simp only [List.nil_append, entryLoop, entryBad, loopState, List.foldl_nil, Bool.true_and, Bool.or_false, Bool.false_or]
    congr
  | y :: ys, seen, cur, x => by
    simp only [List.cons_append, entryLoop, Bool.true_and]
    rw [entryLoop_snoc tdl ys]
    simp only [loopState, List.foldl_cons, stepState, Bool.or_assoc]

theorem loopState_snoc (st : List Nat × Nat) (xs : List Entry) (x : Entry) :
    loopState st (xs ++ [x]) = stepState (loopState st xs) x := by
  simp [loopState, List.foldl_append]

variable (enc : Bytes → Bytes)

/-- invariant tying the resolver's state to verify's loop state over the entries written so far -/
structure VInv (r : Res) : Prop where
  ok    : entryLoop r.data.length true [] 0 r.rev.reverse = false
  cur   : (loopState ([], 0) r.rev.reverse).2 = r.data.length
  seen  : ∀ o, o ∈ (loopState ([], 0) r.rev.reverse).1 ↔ ∃ e ∈ r.rev, e.off = o
  below : ∀ e ∈ r.rev, e.off < r.data.length
  known : ∀ p ∈ r.seen, ∃ e ∈ r.rev, e.off = p.2.1

/-- growing the data section never turns an accepted prefix into a rejected one -/
theorem entryLoop_mono (c : Bool) : ∀ (es : List Entry) (seen : List Nat) (cur t t' : Nat), t ≤ t' →
    entryLoop t c seen cur es = false → entryLoop t' c seen cur es = false
  | [], _, _, _, _, _, _ => rfl
  | e :: es, seen, cur, t, t', ht, h => by
    simp only [entryLoop, Bool.or_eq_false_iff, decide_eq_false_iff_not] at h ⊢
    obtain ⟨⟨h1, h2⟩, h3⟩ := h
    exact ⟨⟨by omega, h2⟩, entryLoop_mono c es _ _ t t' ht h3⟩

theorem contains_iff (l : List Nat) (o : Nat) : l.contains o = true ↔ o ∈ l := by
  simp

theorem add_vinv (r : Res) (id : Nat) (blob : Bytes) (rl : Nat) (hb : 1 ≤ (enc blob).length)
    (hi : RInv enc r) (hv : VInv r) : VInv (add enc r id blob rl) := by
  unfold add
  cases hl : (if r.dedup then lookupSeen r.seen blob else none) with
  | some p =>
    obtain ⟨off, len⟩ := p
    obtain ⟨_, hmem⟩ := hit_mem hl
    have hs := hi.seenOk _ hmem
    obtain ⟨e0, he0, eoff⟩ := hv.known _ hmem
    simp only at hs eoff ⊢
    -- the referenced offset has been seen by the loop
    have hseen : off ∈ (loopState ([], 0) r.rev.reverse).1 := (hv.seen off).mpr ⟨e0, he0, eoff⟩
    cases hr : r.rev with
    | nil => rw [hr] at he0; cases he0
    | cons last rest =>
      simp only
      have hvok := hv.ok; have hvcur := hv.cur; have hvseen := hv.seen; have hvbelow := hv.below; have hvknown := hv.known
      rw [hr] at hvok hvcur hvseen hvbelow hvknown hseen
      split
      · -- the last entry's run is extended: offsets and lengths are unchanged
        rename_i hc
        simp only [List.reverse_cons] at hvok hvcur hvseen hseen ⊢
        have e1 : entryBad r.data.length (loopState ([], 0) rest.reverse) { last with rl := last.rl + rl } =
            entryBad r.data.length (loopState ([], 0) rest.reverse) last := rfl
        have e2 : stepState (loopState ([], 0) rest.reverse) { last with rl := last.rl + rl } =
            stepState (loopState ([], 0) rest.reverse) last := rfl
        refine ⟨?_, ?_, ?_, ?_, ?_⟩
        · simp only [List.reverse_cons]; rw [entryLoop_snoc, e1, ← entryLoop_snoc]; exact hvok
        · simp only [List.reverse_cons]; rw [loopState_snoc, e2, ← loopState_snoc]; exact hvcur
        · intro o
          simp only [List.reverse_cons]
          rw [loopState_snoc, e2, ← loopState_snoc, hvseen o]
          simp only [List.mem_cons]
          constructor
          · rintro ⟨e, he | he, eo⟩
            · subst he; exact ⟨_, Or.inl rfl, eo⟩
            · exact ⟨e, Or.inr he, eo⟩
          · rintro ⟨e, he | he, eo⟩
            · subst he; exact ⟨last, Or.inl rfl, eo⟩
            · exact ⟨e, Or.inr he, eo⟩
        · intro e he
          rcases List.mem_cons.mp he with e' | hm
          · subst e'; exact hvbelow last (by simp)
          · exact hvbelow e (by simp [hm])
        · intro p hp
          obtain ⟨e, he, eo⟩ := hvknown p hp
          rcases List.mem_cons.mp he with e' | hm
          · exact ⟨{ last with rl := last.rl + rl }, List.mem_cons_self, by rw [← eo, e']⟩
          · exact ⟨e, List.mem_cons_of_mem _ hm, eo⟩
      · -- a new entry pointing back at a content already written
        have hcont : (loopState ([], 0) (last :: rest).reverse).1.contains off = true := (contains_iff _ _).mpr hseen
        refine ⟨?_, ?_, ?_, ?_, ?_⟩
        · rw [List.reverse_cons, entryLoop_snoc, hvok]
          simp only [entryBad, hcont, Bool.false_or, Bool.not_true, Bool.false_and, Bool.or_false, decide_eq_false_iff_not]
          omega
        · rw [List.reverse_cons, loopState_snoc]
          simp only [stepState, hcont, Bool.not_true]
          exact hvcur
        · intro o
          rw [List.reverse_cons, loopState_snoc]
          simp only [stepState, List.mem_cons]
          rw [hvseen o]
          constructor
          · rintro (h | ⟨e, he, eo⟩)
            · exact ⟨⟨id, off, len, rl⟩, Or.inl rfl, h.symm⟩
            · exact ⟨e, Or.inr (by simpa using he), eo⟩
          · rintro ⟨e, he | he, eo⟩
            · subst he; exact Or.inl eo.symm
            · exact Or.inr ⟨e, by simpa using he, eo⟩
        · intro e he
          rcases List.mem_cons.mp he with e' | hm
          · subst e'; simp only; omega
          · exact hvbelow e hm
        · intro p hp
          obtain ⟨e, he, eo⟩ := hvknown p hp
          exact ⟨e, by simp only [List.mem_cons]; right; simpa using he, eo⟩
  | none =>
    have hnot : (loopState ([], 0) r.rev.reverse).1.contains r.data.length = false := by
      cases hc : (loopState ([], 0) r.rev.reverse).1.contains r.data.length with
      | false => rfl
      | true =>
        obtain ⟨e, he, eo⟩ := (hv.seen _).mp ((contains_iff _ _).mp hc)
        have := hv.below e he
        omega
    refine ⟨?_, ?_, ?_, ?_, ?_⟩ <;> dsimp only <;> try simp only [List.length_append]
    · rw [List.reverse_cons, entryLoop_snoc, entryLoop_mono true _ _ _ _ _ (Nat.le_add_right _ _) hv.ok]
      simp only [entryBad, hnot, hv.cur, Bool.false_or, Bool.not_false, Bool.true_and, Bool.or_eq_false_iff, decide_eq_false_iff_not]
      omega
    · rw [List.reverse_cons, loopState_snoc]
      simp only [stepState, hnot, Bool.not_false, if_true, hv.cur]
    · intro o
      rw [List.reverse_cons, loopState_snoc]
      simp only [stepState, List.mem_cons]
      rw [hv.seen o]
      constructor
      · rintro (h | ⟨e, he, eo⟩)
        · exact ⟨_, Or.inl rfl, h.symm⟩
        · exact ⟨e, Or.inr he, eo⟩
      · rintro ⟨e, he | he, eo⟩
        · subst he; exact Or.inl eo.symm
        · exact Or.inr ⟨e, he, eo⟩
    · intro e he
      rcases List.mem_cons.mp he with e' | hm
      · subst e'; simp only; omega
      · have := hv.below e hm; omega
    · intro p hp
      split at hp
      · rcases List.mem_cons.mp hp with e' | hm
        · subst e'; exact ⟨⟨id, r.data.length, (enc blob).length, rl⟩, List.mem_cons_self, rfl⟩
        · obtain ⟨e, he, eo⟩ := hv.known p hm
          exact ⟨e, by simp [he], eo⟩
      · obtain ⟨e, he, eo⟩ := hv.known p hp
        exact ⟨e, by simp [he], eo⟩

theorem run_vinv (r : Res) (adds : List Add) (henc : ∀ a ∈ adds, 1 ≤ (enc a.2.1).length)
    (hi : RInv enc r) (hv : VInv r) : VInv (run enc r adds) := by
  induction adds generalizing r with
  | nil => exact hv
  | cons a adds ih =>
    have hb := henc a (by simp)
    exact ih (add enc r a.1 a.2.1 a.2.2) (fun x hx => henc x (by simp [hx]))
      (add_inv enc r a.1 a.2.1 a.2.2 hb hi) (add_vinv enc r a.1 a.2.1 a.2.2 hb hi hv)

/-- **verify's per-entry checks accept what the writers write** (clustered mode: inside the tile
    data, every new offset exactly at the running end), for every sequence of adds -/
theorem run_verifies (d : Bool) (adds : List Add) (henc : ∀ a ∈ adds, 1 ≤ (enc a.2.1).length) :
    entryLoop (run enc (init d) adds).data.length true [] 0 (run enc (init d) adds).rev.reverse = false := by
  have h0 : VInv (init d) := by
    refine ⟨rfl, rfl, ?_, ?_, ?_⟩
    · intro o; simp [init, loopState]
    · intro e he; simp [init] at he
    · intro p hp; simp [init] at hp
  exact (run_vinv enc (init d) adds henc (init_inv enc d) h0).ok

end Pm.Resolver
