namespace Pm.ServerProtocol
/-! Fuller server model (tile requests): header+root double response, tagged directory keys, purge,
    in-flight join and fan-out through per-client reply channels, two-attempt retry, depth-bounded walk,
    conditional tile read.  Goal: `tag_truth` is inductive and implies `single_version`. -/

abbrev Name := Nat
abbrev Tag := Nat          -- 0 is the empty tag ""

structure Hdr where
  rootOff : Nat
  rootLen : Nat
  leafOff : Nat
  tileOff : Nat
  minZ : Nat
  maxZ : Nat
deriving DecidableEq, Repr

structure Ent where
  id : Nat
  off : Nat
  len : Nat
  rl : Nat
deriving DecidableEq, Repr

structure Version where
  tag : Tag
  hdr : Option Hdr
  dir : Nat → Nat → List Ent
  raw : Nat → Nat → Nat

abbrev Store := Name → List Version

structure Key where
  name : Name
  tag : Tag
  off : Nat
  len : Nat
deriving DecidableEq, Repr

inductive Pay
  | hdr (h : Hdr)
  | dir (es : List Ent)
  | fail (bad : Bool)
deriving Repr

structure Item where
  key : Key
  tag : Tag
  pay : Pay
deriving Repr

def isHeaderKey (k : Key) : Bool := k.off == 0 && k.len == 0

/-- tag_truth for one item -/
def Good (s : Store) (it : Item) : Prop :=
  match it.pay with
  | .fail _ => True
  | .hdr h => ∃ v ∈ s it.key.name, v.tag = it.tag ∧ v.hdr = some h
  | .dir es => (it.key.tag ≠ 0 → it.tag = it.key.tag) ∧
               ∃ v ∈ s it.key.name, v.tag = it.tag ∧ es = v.dir it.key.off it.key.len

/-- request descriptor -/
structure Q where
  name : Name
  z : Nat
  tile : Nat          -- tile id (ZxyToID z x y)
deriving Repr

inductive Resp
  | notFound | outOfZoom | noContent | tile (bytes : Nat) | ioError
deriving DecidableEq, Repr

/-- abstract findTile -/
opaque findTile : List Ent → Nat → Option Ent

/-- the uncached walk on ONE version, from a given directory position -/
def walkFrom (v : Version) (h : Hdr) (t : Nat) : Nat → Nat → Nat → Resp
  | 0, _, _ => .noContent
  | fuel+1, off, len =>
    match findTile (v.dir off len) t with
    | none => .noContent
    | some e => if 0 < e.rl then .tile (v.raw (h.tileOff + e.off) e.len)
                else walkFrom v h t fuel (h.leafOff + e.off) e.len

def answer (v : Version) (q : Q) : Resp :=
  match v.hdr with
  | none => .notFound
  | some h => if q.z < h.minZ ∨ h.maxZ < q.z then .outOfZoom else walkFrom v h q.tile 4 h.rootOff h.rootLen

inductive Pc
  | start (attempt : Nat) (purge : Tag)
  | waitRoot (attempt : Nat)
  | needDir (attempt : Nat) (h : Hdr) (tag : Tag) (fuel off len : Nat)
  | waitDir (attempt : Nat) (h : Hdr) (tag : Tag) (fuel off len : Nat)
  | tileRead (attempt : Nat) (h : Hdr) (tag : Tag) (e : Ent)
  | done (r : Resp)
deriving Repr

structure Client where
  q : Q
  pc : Pc

structure Req where
  cid : Nat
  key : Key
  purge : Tag

structure Fetcher where
  key : Key
  buf : Option (List Item)      -- none: bucket call parked; some items: still to push

structure St where
  store : Store
  cache : List Item
  inflight : List (Key × List Nat)
  reqQ : List Req
  respQ : List Item
  fetch : List Fetcher
  chans : List (Nat × Item)       -- reply channel contents (cid, value)
  clients : List (Nat × Client)

def current (s : Store) (n : Name) : Option Version := (s n).head?

/-- result of the bucket read a fetcher performs (atomic) -/
def fetchResult (s : Store) (k : Key) : List Item :=
  match current s k.name with
  | none => [⟨k, 0, .fail false⟩]
  | some v =>
    if isHeaderKey k then
      match v.hdr with
      | none => [⟨k, 0, .fail false⟩]
      | some h => [⟨⟨k.name, 0, h.rootOff, h.rootLen⟩, v.tag, .dir (v.dir h.rootOff h.rootLen)⟩, ⟨k, v.tag, .hdr h⟩]
    else if k.tag ≠ 0 ∧ v.tag ≠ k.tag then [⟨k, 0, .fail true⟩]
    else [⟨k, v.tag, .dir (v.dir k.off k.len)⟩]

def purgeKeep (name : Name) (purge : Tag) (it : Item) : Bool :=
  !(it.key.name == name && (it.key.tag == purge || it.tag == purge))

inductive Step : St → St → Prop
  | replace (st : St) (n : Name) (v : Version) (hfresh : ∀ w ∈ st.store n, w.tag ≠ v.tag) (hnz : v.tag ≠ 0) :
      Step st { st with store := fun m => if m = n then v :: st.store n else st.store m }
  -- client sends its root request
  | sendRoot (st : St) (pre post : List (Nat × Client)) (cid : Nat) (q : Q) (a : Nat) (p : Tag)
      (hc : st.clients = pre ++ (cid, ⟨q, .start a p⟩) :: post) :
      Step st { st with clients := pre ++ (cid, ⟨q, .waitRoot a⟩) :: post,
                        reqQ := st.reqQ ++ [⟨cid, ⟨q.name, 0, 0, 0⟩, p⟩] }
  | sendDir (st : St) (pre post : List (Nat × Client)) (cid : Nat) (q : Q) (a : Nat) (h : Hdr) (t : Tag) (fuel off len : Nat)
      (hc : st.clients = pre ++ (cid, ⟨q, .needDir a h t fuel off len⟩) :: post) :
      Step st { st with clients := pre ++ (cid, ⟨q, .waitDir a h t fuel off len⟩) :: post,
                        reqQ := st.reqQ ++ [⟨cid, ⟨q.name, t, off, len⟩, 0⟩] }
  -- event loop: request, cache hit (any cached item with that key, after the purge)
  | loopReqHit (st : St) (r : Req) (rest : List Req) (hq : st.reqQ = r :: rest) (it : Item)
      (hit : it ∈ (if r.purge ≠ 0 then st.cache.filter (purgeKeep r.key.name r.purge) else st.cache)) (hk : it.key = r.key) :
      Step st { st with reqQ := rest,
                        cache := (if r.purge ≠ 0 then st.cache.filter (purgeKeep r.key.name r.purge) else st.cache),
                        chans := st.chans ++ [(r.cid, it)] }
  | loopReqJoin (st : St) (r : Req) (rest : List Req) (hq : st.reqQ = r :: rest)
      (pre post : List (Key × List Nat)) (ws : List Nat) (hi : st.inflight = pre ++ (r.key, ws) :: post) :
      Step st { st with reqQ := rest,
                        cache := (if r.purge ≠ 0 then st.cache.filter (purgeKeep r.key.name r.purge) else st.cache),
                        inflight := pre ++ (r.key, ws ++ [r.cid]) :: post }
  | loopReqMiss (st : St) (r : Req) (rest : List Req) (hq : st.reqQ = r :: rest) :
      Step st { st with reqQ := rest,
                        cache := (if r.purge ≠ 0 then st.cache.filter (purgeKeep r.key.name r.purge) else st.cache),
                        inflight := (r.key, [r.cid]) :: st.inflight,
                        fetch := ⟨r.key, none⟩ :: st.fetch }
  -- fetcher: the bucket read (atomic) and the pushes
  | serveFetch (st : St) (pre post : List Fetcher) (k : Key) (hf : st.fetch = pre ++ ⟨k, none⟩ :: post) :
      Step st { st with fetch := pre ++ ⟨k, some (fetchResult st.store k)⟩ :: post }
  | push (st : St) (pre post : List Fetcher) (k : Key) (it : Item) (more : List Item)
      (hf : st.fetch = pre ++ ⟨k, some (it :: more)⟩ :: post) :
      Step st { st with fetch := pre ++ ⟨k, some more⟩ :: post, respQ := st.respQ ++ [it] }
  -- event loop: response (fan-out to waiters of that key, insert if ok, arbitrary eviction)
  | loopResp (st : St) (it : Item) (rest : List Item) (hq : st.respQ = it :: rest)
      (ws : List Nat) (infl' : List (Key × List Nat)) (hsub : ∀ x ∈ infl', x ∈ st.inflight)
      (keep : List Item) (hk : ∀ x ∈ keep, x ∈ it :: st.cache) :
      Step st { st with respQ := rest, inflight := infl', cache := keep,
                        chans := st.chans ++ ws.map (fun c => (c, it)) }
  -- client receives the root value
  | recvRoot (st : St) (pre post : List (Nat × Client)) (cid : Nat) (q : Q) (a : Nat)
      (cpre cpost : List (Nat × Item)) (it : Item)
      (hc : st.clients = pre ++ (cid, ⟨q, .waitRoot a⟩) :: post)
      (hch : st.chans = cpre ++ (cid, it) :: cpost) (hkey : it.key = ⟨q.name, 0, 0, 0⟩) :
      Step st { st with chans := cpre ++ cpost,
                        clients := pre ++ (cid, ⟨q,
                          match it.pay with
                          | .hdr h => if q.z < h.minZ ∨ h.maxZ < q.z then .done .outOfZoom
                                      else .needDir a h it.tag 4 h.rootOff h.rootLen
                          | _ => .done .notFound⟩) :: post }
  -- client receives a directory value
  | recvDir (st : St) (pre post : List (Nat × Client)) (cid : Nat) (q : Q) (a : Nat) (h : Hdr) (t : Tag) (fuel off len : Nat)
      (cpre cpost : List (Nat × Item)) (it : Item)
      (hc : st.clients = pre ++ (cid, ⟨q, .waitDir a h t (fuel+1) off len⟩) :: post)
      (hch : st.chans = cpre ++ (cid, it) :: cpost) (hkey : it.key = ⟨q.name, t, off, len⟩) :
      Step st { st with chans := cpre ++ cpost,
                        clients := pre ++ (cid, ⟨q,
                          match it.pay with
                          | .fail true => if a = 1 then .start 2 t else .done .ioError
                          | .fail false => .done .ioError
                          | .hdr _ => .done .ioError
                          | .dir es =>
                            match findTile es q.tile with
                            | none => .done .noContent
                            | some e => if 0 < e.rl then .tileRead a h t e
                                        else if fuel = 0 then .done .noContent
                                        else .needDir a h t fuel (h.leafOff + e.off) e.len⟩) :: post }
  -- conditional tile read (atomic bucket read)
  | tileServe (st : St) (pre post : List (Nat × Client)) (cid : Nat) (q : Q) (a : Nat) (h : Hdr) (t : Tag) (e : Ent)
      (hc : st.clients = pre ++ (cid, ⟨q, .tileRead a h t e⟩) :: post) :
      Step st { st with clients := pre ++ (cid, ⟨q,
                          match current st.store q.name with
                          | none => .done .notFound
                          | some v => if v.tag = t then .done (.tile (v.raw (h.tileOff + e.off) e.len))
                                      else if a = 1 then .start 2 t else .done .ioError⟩) :: post }

/-- what a client's local state must satisfy -/
def ClientGood (s : Store) (c : Client) : Prop :=
  match c.pc with
  | .start _ _ => True
  | .waitRoot _ => True
  | .needDir _ h t fuel off len | .waitDir _ h t fuel off len =>
      t ≠ 0 ∧ ∃ v ∈ s c.q.name, v.tag = t ∧ v.hdr = some h ∧ ¬ (c.q.z < h.minZ ∨ h.maxZ < c.q.z) ∧
        answer v c.q = walkFrom v h c.q.tile fuel off len
  | .tileRead _ h t e =>
      t ≠ 0 ∧ ∃ v ∈ s c.q.name, v.tag = t ∧ v.hdr = some h ∧ ¬ (c.q.z < h.minZ ∨ h.maxZ < c.q.z) ∧
        0 < e.rl ∧ answer v c.q = .tile (v.raw (h.tileOff + e.off) e.len)
  | .done r => r = .notFound ∨ r = .ioError ∨ ∃ v ∈ s c.q.name, r = answer v c.q

structure SInv (st : St) : Prop where
  uniq  : ∀ n, (st.store n).Pairwise (fun a b => a.tag ≠ b.tag)
  nz    : ∀ n, ∀ v ∈ st.store n, v.tag ≠ 0
  cache : ∀ it ∈ st.cache, Good st.store it
  respQ : ∀ it ∈ st.respQ, Good st.store it
  fetch : ∀ f ∈ st.fetch, ∀ its, f.buf = some its → ∀ it ∈ its, Good st.store it
  chans : ∀ p ∈ st.chans, Good st.store p.2
  clients : ∀ p ∈ st.clients, ClientGood st.store p.2

/-! ### helper lemmas -/
theorem uniq_tag {l : List Version} (h : l.Pairwise (fun a b => a.tag ≠ b.tag)) {v w : Version}
    (hv : v ∈ l) (hw : w ∈ l) (e : v.tag = w.tag) : v = w := by
  induction l with
  | nil => cases hv
  | cons a l ih =>
    rw [List.pairwise_cons] at h
    rcases List.mem_cons.mp hv with rfl | hv' <;> rcases List.mem_cons.mp hw with rfl | hw'
    · rfl
    · exact absurd e (h.1 w hw')
    · exact absurd e.symm (h.1 v hv')
    · exact ih h.2 hv' hw'

theorem current_mem {s : Store} {n : Name} {v : Version} (h : current s n = some v) : v ∈ s n := by
  unfold current at h
  cases hs : s n with
  | nil => rw [hs] at h; cases h
  | cons a l => rw [hs] at h; simp at h; subst h; simp

/-- the store only grows -/
def Grows (s s' : Store) : Prop := ∀ n, ∀ v ∈ s n, v ∈ s' n

theorem good_mono {s s' : Store} (hg : Grows s s') {it : Item} (h : Good s it) : Good s' it := by
  unfold Good at *
  cases hp : it.pay with
  | fail b => simp
  | hdr hh =>
    rw [hp] at h; simp only at h ⊢
    obtain ⟨v, hv, h1, h2⟩ := h
    exact ⟨v, hg _ v hv, h1, h2⟩
  | dir es =>
    rw [hp] at h; simp only at h ⊢
    obtain ⟨h0, v, hv, h1, h2⟩ := h
    exact ⟨h0, v, hg _ v hv, h1, h2⟩

theorem clientGood_mono {s s' : Store} (hg : Grows s s') {c : Client} (h : ClientGood s c) : ClientGood s' c := by
  unfold ClientGood at *
  cases hp : c.pc with
  | start a p => simp
  | waitRoot a => simp
  | needDir a hh t fuel off len =>
    rw [hp] at h; simp only at h ⊢
    obtain ⟨h0, v, hv, r⟩ := h; exact ⟨h0, v, hg _ v hv, r⟩
  | waitDir a hh t fuel off len =>
    rw [hp] at h; simp only at h ⊢
    obtain ⟨h0, v, hv, r⟩ := h; exact ⟨h0, v, hg _ v hv, r⟩
  | tileRead a hh t e =>
    rw [hp] at h; simp only at h ⊢
    obtain ⟨h0, v, hv, r⟩ := h; exact ⟨h0, v, hg _ v hv, r⟩
  | done r =>
    rw [hp] at h; simp only at h ⊢
    rcases h with h | h | ⟨v, hv, hr⟩
    · exact Or.inl h
    · exact Or.inr (Or.inl h)
    · exact Or.inr (Or.inr ⟨v, hg _ v hv, hr⟩)

theorem fetchResult_good (s : Store) (k : Key) : ∀ it ∈ fetchResult s k, Good s it := by
  intro it hit
  unfold fetchResult at hit
  cases hc : current s k.name with
  | none => rw [hc] at hit; simp at hit; subst hit; simp [Good]
  | some v =>
    rw [hc] at hit; simp only at hit
    have hv := current_mem hc
    split at hit
    · cases hh : v.hdr with
      | none => rw [hh] at hit; simp at hit; subst hit; simp [Good]
      | some h =>
        rw [hh] at hit; simp at hit
        rcases hit with rfl | rfl
        · simp only [Good]
          exact ⟨by intro hne; exact absurd rfl hne, v, hv, rfl, rfl⟩
        · simp only [Good]
          exact ⟨v, hv, rfl, hh⟩
    · split at hit
      · simp at hit; subst hit; simp [Good]
      · rename_i hcond
        simp at hit; subst hit
        simp only [Good]
        refine ⟨?_, v, hv, rfl, rfl⟩
        intro hne
        by_cases e : v.tag = k.tag
        · exact e
        · exact absurd ⟨hne, e⟩ hcond

/-- updating one client in the list -/
theorem clients_update {P : Client → Prop} {pre post : List (Nat × Client)} {cid : Nat} {c c' : Client}
    (h : ∀ p ∈ pre ++ (cid, c) :: post, P p.2) (hc' : P c') :
    ∀ p ∈ pre ++ (cid, c') :: post, P p.2 := by
  intro p hp
  simp only [List.mem_append, List.mem_cons] at hp
  rcases hp with hp | rfl | hp
  · exact h p (by simp [hp])
  · exact hc'
  · exact h p (by simp [hp])

theorem step_inv {st st' : St} (hs : Step st st') (hi : SInv st) : SInv st' := by
  obtain ⟨huniq, hnz, hcache, hresp, hfetch, hchans, hcl⟩ := hi
  cases hs with
  | replace n v hfresh hnzv =>
    have hg : Grows st.store (fun m => if m = n then v :: st.store n else st.store m) := by
      intro m w hw
      by_cases e : m = n
      · subst e; simp [hw]
      · simp [e, hw]
    refine ⟨?_, ?_, fun it h => good_mono hg (hcache it h), fun it h => good_mono hg (hresp it h),
            fun f hf its e it h => good_mono hg (hfetch f hf its e it h), fun p h => good_mono hg (hchans p h),
            fun p h => clientGood_mono hg (hcl p h)⟩
    · intro m
      by_cases e : m = n
      · subst e; simp only [if_true]
        exact List.Pairwise.cons (fun w hw => (hfresh w hw).symm) (huniq m)
      · simp only [e, if_false]; exact huniq m
    · intro m w hw
      by_cases e : m = n
      · subst e; simp only [if_true, List.mem_cons] at hw
        rcases hw with rfl | hw
        · exact hnzv
        · exact hnz m w hw
      · simp only [e, if_false] at hw; exact hnz m w hw
  | sendRoot pre post cid q a p hc =>
    refine ⟨huniq, hnz, hcache, hresp, hfetch, hchans, ?_⟩
    rw [hc] at hcl
    exact clients_update hcl (by simp [ClientGood])
  | sendDir pre post cid q a h t fuel off len hc =>
    refine ⟨huniq, hnz, hcache, hresp, hfetch, hchans, ?_⟩
    rw [hc] at hcl
    have := hcl (cid, ⟨q, .needDir a h t fuel off len⟩) (by simp)
    exact clients_update hcl (by simpa [ClientGood] using this)
  | loopReqHit r rest hq it hit hk =>
    have hsub : ∀ x ∈ (if r.purge ≠ 0 then st.cache.filter (purgeKeep r.key.name r.purge) else st.cache), x ∈ st.cache := by
      intro x hx; split at hx
      · exact (List.mem_filter.mp hx).1
      · exact hx
    refine ⟨huniq, hnz, fun x hx => hcache x (hsub x hx), hresp, hfetch, ?_, hcl⟩
    intro p hp
    simp only [List.mem_append, List.mem_singleton] at hp
    rcases hp with hp | rfl
    · exact hchans p hp
    · exact hcache it (hsub it hit)
  | loopReqJoin r rest hq pre post ws hi' =>
    have hsub : ∀ x ∈ (if r.purge ≠ 0 then st.cache.filter (purgeKeep r.key.name r.purge) else st.cache), x ∈ st.cache := by
      intro x hx; split at hx
      · exact (List.mem_filter.mp hx).1
      · exact hx
    exact ⟨huniq, hnz, fun x hx => hcache x (hsub x hx), hresp, hfetch, hchans, hcl⟩
  | loopReqMiss r rest hq =>
    have hsub : ∀ x ∈ (if r.purge ≠ 0 then st.cache.filter (purgeKeep r.key.name r.purge) else st.cache), x ∈ st.cache := by
      intro x hx; split at hx
      · exact (List.mem_filter.mp hx).1
      · exact hx
    refine ⟨huniq, hnz, fun x hx => hcache x (hsub x hx), hresp, ?_, hchans, hcl⟩
    intro f hf its e it hit
    simp only [List.mem_cons] at hf
    rcases hf with rfl | hf
    · simp at e
    · exact hfetch f hf its e it hit
  | serveFetch pre post k hf =>
    refine ⟨huniq, hnz, hcache, hresp, ?_, hchans, hcl⟩
    intro f hfm its e it hit
    simp only [List.mem_append, List.mem_cons] at hfm
    rcases hfm with h | rfl | h
    · exact hfetch f (by rw [hf]; simp [h]) its e it hit
    · simp at e; subst e; exact fetchResult_good st.store k it hit
    · exact hfetch f (by rw [hf]; simp [h]) its e it hit
  | push pre post k it more hf =>
    refine ⟨huniq, hnz, hcache, ?_, ?_, hchans, hcl⟩
    · intro x hx
      simp only [List.mem_append, List.mem_singleton] at hx
      rcases hx with hx | rfl
      · exact hresp x hx
      · exact hfetch ⟨k, some (x :: more)⟩ (by rw [hf]; simp) _ rfl x (by simp)
    · intro f hfm its' e x hx
      simp only [List.mem_append, List.mem_cons] at hfm
      rcases hfm with h | rfl | h
      · exact hfetch f (by rw [hf]; simp [h]) its' e x hx
      · simp only [Option.some.injEq] at e; subst e
        exact hfetch ⟨k, some (it :: more)⟩ (by rw [hf]; simp) _ rfl x (by simp [hx])
      · exact hfetch f (by rw [hf]; simp [h]) its' e x hx
  | loopResp it rest hq ws infl' hsub keep hk =>
    have hit : Good st.store it := hresp it (by rw [hq]; simp)
    refine ⟨huniq, hnz, ?_, fun x hx => hresp x (by rw [hq]; simp [hx]), hfetch, ?_, hcl⟩
    · intro x hx
      have := hk x hx
      simp only [List.mem_cons] at this
      rcases this with rfl | h
      · exact hit
      · exact hcache x h
    · intro p hp
      simp only [List.mem_append, List.mem_map] at hp
      rcases hp with hp | ⟨c, _, rfl⟩
      · exact hchans p hp
      · exact hit
  | recvRoot pre post cid q a cpre cpost it hc hch hkey =>
    have hit : Good st.store it := hchans (cid, it) (by rw [hch]; simp)
    refine ⟨huniq, hnz, hcache, hresp, hfetch, ?_, ?_⟩
    · intro p hp
      simp only [List.mem_append] at hp
      exact hchans p (by rw [hch]; simp only [List.mem_append, List.mem_cons]; rcases hp with h | h <;> simp [h])
    · rw [hc] at hcl
      apply clients_update hcl
      cases hp : it.pay with
      | fail b => simp [ClientGood]
      | dir es => simp [ClientGood]
      | hdr h =>
        unfold Good at hit
        rw [hp] at hit; simp only at hit
        obtain ⟨v, hv, htag, hh⟩ := hit
        rw [hkey] at hv
        simp only at hv
        by_cases hz : q.z < h.minZ ∨ h.maxZ < q.z
        · simp only; rw [if_pos hz]; simp only [ClientGood]
          right; right
          refine ⟨v, hv, ?_⟩
          simp [answer, hh, hz]
        · simp only; rw [if_neg hz]; simp only [ClientGood]
          refine ⟨by rw [← htag]; exact hnz _ v hv, v, hv, htag, hh, hz, ?_⟩
          simp [answer, hh, hz]
  | recvDir pre post cid q a h t fuel off len cpre cpost it hc hch hkey =>
    have hit : Good st.store it := hchans (cid, it) (by rw [hch]; simp)
    refine ⟨huniq, hnz, hcache, hresp, hfetch, ?_, ?_⟩
    · intro p hp
      simp only [List.mem_append] at hp
      exact hchans p (by rw [hch]; simp only [List.mem_append, List.mem_cons]; rcases hp with h | h <;> simp [h])
    · rw [hc] at hcl
      have hcg := hcl (cid, ⟨q, .waitDir a h t (fuel+1) off len⟩) (by simp)
      apply clients_update hcl
      unfold ClientGood at hcg
      simp only at hcg
      obtain ⟨htnz, v, hv, hvt, hvh, hz, hans⟩ := hcg
      cases hp : it.pay with
      | fail b =>
        cases b
        · simp [ClientGood]
        · by_cases ha : a = 1
          · simp [ClientGood, ha]
          · simp [ClientGood, ha]
      | hdr _ => simp [ClientGood]
      | dir es =>
        unfold Good at hit
        rw [hp] at hit; simp only at hit
        obtain ⟨hkt, v', hv', hv't, hes⟩ := hit
        rw [hkey] at hkt hv' hes
        simp only at hkt hv' hes
        have htt : it.tag = t := hkt htnz
        have hvv : v' = v := uniq_tag (huniq q.name) hv' hv (by rw [hv't, htt, hvt])
        subst hvv
        rw [walkFrom] at hans
        rw [← hes] at hans
        dsimp only
        cases hf : findTile es q.tile with
        | none =>
          rw [hf] at hans
          simp only [ClientGood]
          right; right; exact ⟨v', hv, hans.symm⟩
        | some e =>
          rw [hf] at hans
          simp only at hans ⊢
          by_cases hrl : 0 < e.rl
          · rw [if_pos hrl] at hans ⊢
            simp only [ClientGood]
            exact ⟨htnz, v', hv, hvt, hvh, hz, hrl, hans⟩
          · rw [if_neg hrl] at hans ⊢
            by_cases hf0 : fuel = 0
            · rw [if_pos hf0]; subst hf0
              simp only [ClientGood]
              right; right
              refine ⟨v', hv, ?_⟩
              rw [hans]; rfl
            · rw [if_neg hf0]
              simp only [ClientGood]
              exact ⟨htnz, v', hv, hvt, hvh, hz, hans⟩
  | tileServe pre post cid q a h t e hc =>
    refine ⟨huniq, hnz, hcache, hresp, hfetch, hchans, ?_⟩
    rw [hc] at hcl
    have hcg := hcl (cid, ⟨q, .tileRead a h t e⟩) (by simp)
    apply clients_update hcl
    unfold ClientGood at hcg
    simp only at hcg
    obtain ⟨htnz, v, hv, hvt, hvh, hz, hrl, hans⟩ := hcg
    cases hcur : current st.store q.name with
    | none => simp [ClientGood]
    | some v' =>
      simp only
      by_cases htag : v'.tag = t
      · rw [if_pos htag]
        have hvv : v' = v := uniq_tag (huniq q.name) (current_mem hcur) hv (by rw [htag, hvt])
        subst hvv
        simp only [ClientGood]
        right; right; exact ⟨v', hv, hans.symm⟩
      · rw [if_neg htag]
        by_cases ha : a = 1
        · simp [ClientGood, ha]
        · simp [ClientGood, ha]

/-- **single_version**: in every reachable state, every completed response is a failure status or
    exactly what ONE stored version of that archive answers. -/
theorem single_version {st : St} (hi : SInv st) (cid : Nat) (q : Q) (r : Resp)
    (h : (cid, ⟨q, .done r⟩) ∈ st.clients) :
    r = .notFound ∨ r = .ioError ∨ ∃ v ∈ st.store q.name, r = answer v q := by
  have := hi.clients _ h
  simpa [ClientGood] using this

/-- reachability: any finite sequence of steps (= any schedule, any replacement history) -/
inductive Reach : St → St → Prop
  | refl (s : St) : Reach s s
  | step {a b c : St} : Reach a b → Step b c → Reach a c

theorem reach_inv {a b : St} (h : Reach a b) (hi : SInv a) : SInv b := by
  induction h with
  | refl => exact hi
  | step _ hs ih => exact step_inv hs ih

def initSt (s : Store) (cs : List (Nat × Q)) : St :=
  { store := s, cache := [], inflight := [], reqQ := [], respQ := [], fetch := [], chans := [],
    clients := cs.map (fun p => (p.1, ⟨p.2, .start 1 0⟩)) }

theorem init_inv (s : Store) (cs : List (Nat × Q))
    (hu : ∀ n, (s n).Pairwise (fun a b => a.tag ≠ b.tag)) (hz : ∀ n, ∀ v ∈ s n, v.tag ≠ 0) :
    SInv (initSt s cs) := by
  refine ⟨hu, hz, ?_, ?_, ?_, ?_, ?_⟩
  · simp [initSt]
  · simp [initSt]
  · simp [initSt]
  · simp [initSt]
  · intro p hp
    simp only [initSt, List.mem_map] at hp
    obtain ⟨x, _, rfl⟩ := hp
    simp [ClientGood]

/-- C08 `single_version` for the model: whatever the schedule and the history of replacements. -/
theorem single_version_reachable (s : Store) (cs : List (Nat × Q))
    (hu : ∀ n, (s n).Pairwise (fun a b => a.tag ≠ b.tag)) (hz : ∀ n, ∀ v ∈ s n, v.tag ≠ 0)
    (st : St) (hr : Reach (initSt s cs) st) (cid : Nat) (q : Q) (r : Resp)
    (h : (cid, ⟨q, .done r⟩) ∈ st.clients) :
    r = .notFound ∨ r = .ioError ∨ ∃ v ∈ st.store q.name, r = answer v q :=
  single_version (reach_inv hr (init_inv s cs hu hz)) cid q r h
end Pm.ServerProtocol
