import PmtilesModel.Model.Extract
namespace Pm.Extract
open Pm

/-! ## run trimming -/
/-- the precise statement: IDs covered by the output = (pending run) ∪ (remaining IDs that are in S) -/
theorem splitLoop_covers (S : Nat → Bool) (off len : Nat) :
    ∀ n y curId curRl, (0 < curRl → curId + curRl = y) →
      ∀ t, (∃ e ∈ splitLoop S off len n y curId curRl, covers e t) ↔
           ((0 < curRl ∧ curId ≤ t ∧ t < y) ∨ (y ≤ t ∧ t < y + n ∧ S t = true)) := by
  intro n
  induction n with
  | zero =>
    intro y curId curRl hinv t
    simp only [splitLoop]
    by_cases hc : 0 < curRl
    · have := hinv hc
      rw [if_pos hc]
      simp only [List.mem_singleton, exists_eq_left, covers]
      constructor
      · intro h; left; exact ⟨hc, h.1, by omega⟩
      · intro h
        rcases h with h | h
        · exact ⟨h.2.1, by omega⟩
        · omega
    · rw [if_neg hc]
      constructor
      · intro ⟨e, he, _⟩; cases he
      · intro h; rcases h with h | h <;> omega
  | succ n ih =>
    intro y curId curRl hinv t
    simp only [splitLoop]
    by_cases hS : S y = true
    · simp only [hS, if_true]
      by_cases hz : curRl = 0
      · simp only [hz, if_true]
        rw [ih (y+1) y 1 (by intro _; rfl) t]
        constructor
        · intro h
          rcases h with h | h
          · right; have : t = y := by omega
            subst this; exact ⟨Nat.le_refl _, by omega, hS⟩
          · right; exact ⟨by omega, by omega, h.2.2⟩
        · intro h
          rcases h with h | h
          · omega
          · by_cases hty : t = y
            · left; subst hty; exact ⟨by omega, Nat.le_refl _, by omega⟩
            · right; exact ⟨by omega, by omega, h.2.2⟩
      · simp only [hz, if_false]
        have hpos : 0 < curRl := by omega
        have hy := hinv hpos
        rw [ih (y+1) curId (curRl+1) (by intro _; omega) t]
        constructor
        · intro h
          rcases h with h | h
          · by_cases hty : t = y
            · right; subst hty; exact ⟨Nat.le_refl _, by omega, hS⟩
            · left; exact ⟨hpos, h.2.1, by omega⟩
          · right; exact ⟨by omega, by omega, h.2.2⟩
        · intro h
          rcases h with h | h
          · left; exact ⟨by omega, h.2.1, by omega⟩
          · by_cases hty : t = y
            · left; exact ⟨by omega, by omega, by omega⟩
            · right; exact ⟨by omega, by omega, h.2.2⟩
    · have hS' : S y = false := by cases h : S y <;> simp_all
      simp only [hS', Bool.false_eq_true, if_false]
      by_cases hpos : 0 < curRl
      · have hy := hinv hpos
        rw [if_pos hpos]
        simp only [List.mem_cons, exists_eq_or_imp]
        rw [ih (y+1) curId 0 (by intro h; omega) t]
        simp only [covers]
        constructor
        · intro h
          rcases h with h | h
          · left; exact ⟨hpos, h.1, by omega⟩
          · rcases h with h | h
            · omega
            · right; exact ⟨by omega, by omega, h.2.2⟩
        · intro h
          rcases h with h | h
          · left; exact ⟨h.2.1, by omega⟩
          · right; right
            have : t ≠ y := by intro e; subst e; rw [hS'] at h; simp at h
            exact ⟨by omega, by omega, h.2.2⟩
      · rw [if_neg hpos]
        rw [ih (y+1) curId 0 (by intro h; omega) t]
        constructor
        · intro h
          rcases h with h | h
          · omega
          · right; exact ⟨by omega, by omega, h.2.2⟩
        · intro h
          rcases h with h | h
          · omega
          · right
            have : t ≠ y := by intro e; subst e; rw [hS'] at h; simp at h
            exact ⟨by omega, by omega, h.2.2⟩

/-- **trim_spec**: the trimmed pieces cover exactly the IDs of the run that are in S, and keep offset and length -/
theorem trim_spec (S : Nat → Bool) (e : Entry) (t : Nat) :
    (∃ p ∈ trim S e, covers p t) ↔ (covers e t ∧ S t = true) := by
  unfold trim
  rw [splitLoop_covers S e.off e.len e.rl e.id e.id 0 (by intro h; omega) t]
  simp only [covers]
  constructor
  · intro h; rcases h with h | h
    · omega
    · exact ⟨⟨h.1, h.2.1⟩, h.2.2⟩
  · intro h; right; exact ⟨h.1.1, h.1.2, h.2⟩

theorem splitLoop_same_content (S : Nat → Bool) (off len : Nat) :
    ∀ n y curId curRl, ∀ p ∈ splitLoop S off len n y curId curRl, p.off = off ∧ p.len = len := by
  intro n
  induction n with
  | zero =>
    intro y curId curRl p hp
    simp only [splitLoop] at hp
    split at hp
    · simp at hp; subst hp; exact ⟨rfl, rfl⟩
    · cases hp
  | succ n ih =>
    intro y curId curRl p hp
    simp only [splitLoop] at hp
    split at hp
    · split at hp
      · exact ih _ _ _ p hp
      · exact ih _ _ _ p hp
    · split at hp
      · simp only [List.mem_cons] at hp
        rcases hp with rfl | hp
        · exact ⟨rfl, rfl⟩
        · exact ih _ _ _ p hp
      · exact ih _ _ _ p hp


/-! ## re-encoding -/
structure RInv (src : Bytes) (s : RS) : Prop where
  tiles : Tiles s.ranges s.dstOff
  rlen  : (render src s.ranges).length = s.dstOff
  inSrc : ∀ r ∈ s.ranges, r.src + r.len ≤ src.length
  seenOk : ∀ p ∈ s.seen, ∀ e ∈ s.out, True

theorem slice_len (d : Bytes) (o l : Nat) (h : o + l ≤ d.length) : (slice d o l).length = l := by
  unfold slice; simp; omega

theorem slice_add (d : Bytes) (o l1 l2 : Nat) (h : o + l1 + l2 ≤ d.length) :
    slice d o (l1 + l2) = slice d o l1 ++ slice d (o + l1) l2 := by
  unfold slice
  rw [← List.drop_drop, List.take_add]

theorem step_tiles (src : Bytes) (s : RS) (e : Entry) (hi : RInv src s) (he : e.off + e.len ≤ src.length) :
    RInv src (step s e) := by
  unfold step
  cases hl : lookup s.seen e.off with
  | some v => exact ⟨hi.tiles, hi.rlen, hi.inSrc, fun _ _ _ _ => trivial⟩
  | none =>
    simp only
    cases hr : s.ranges with
    | nil =>
      have ht := hi.tiles; rw [hr] at ht; simp only [Tiles] at ht
      have hl' := hi.rlen; rw [hr] at hl'; simp only [render, List.length_nil] at hl'
      refine ⟨?_, ?_, ?_, fun _ _ _ _ => trivial⟩
      · simp only [Tiles]; exact ⟨trivial, ht⟩
      · simp only [render, List.nil_append]; rw [slice_len _ _ _ he]; omega
      · intro r hr'; simp at hr'; subst hr'; exact he
    | cons last rest =>
      have ht := hi.tiles; rw [hr] at ht; simp only [Tiles] at ht
      have hl' := hi.rlen; rw [hr] at hl'; simp only [render, List.length_append] at hl'
      have hlast := hi.inSrc last (by rw [hr]; simp)
      simp only
      split
      · rename_i hc
        refine ⟨?_, ?_, ?_, fun _ _ _ _ => trivial⟩
        · simp only [Tiles]; exact ⟨by omega, ht.2⟩
        · simp only [render, List.length_append]
          rw [slice_len _ _ _ (by omega)]
          rw [slice_len _ _ _ hlast] at hl'
          omega
        · intro r hr'
          simp only [List.mem_cons] at hr'
          rcases hr' with rfl | hr'
          · simp only; omega
          · exact hi.inSrc r (by rw [hr]; simp [hr'])
      · refine ⟨?_, ?_, ?_, fun _ _ _ _ => trivial⟩
        · simp only [Tiles]; exact ⟨trivial, ht⟩
        · simp only [render, List.length_append]
          rw [slice_len _ _ _ he]
          have := hi.rlen; rw [hr] at this; simp only [render, List.length_append] at this
          omega
        · intro r hr'
          simp only [List.mem_cons] at hr'
          rcases hr' with rfl | hr'
          · exact he
          · exact hi.inSrc r (by rw [hr]; simp at hr' ⊢; exact hr')

/-- extending the last range by contiguous source bytes appends exactly those bytes -/
theorem render_extend (src : Bytes) (last : Rng) (rest : List Rng) (l : Nat)
    (h : last.src + last.len + l ≤ src.length) :
    render src ({ last with len := last.len + l } :: rest) =
      render src (last :: rest) ++ slice src (last.src + last.len) l := by
  simp only [render]
  rw [slice_add _ _ _ _ h, List.append_assoc]

/-- **new content lands at the old end of the output**: in both branches the output grows by exactly the entry's bytes -/
theorem render_step (src : Bytes) (s : RS) (e : Entry) (he : e.off + e.len ≤ src.length)
    (hl : lookup s.seen e.off = none) :
    render src (step s e).ranges = render src s.ranges ++ slice src e.off e.len := by
  unfold step
  rw [hl]
  simp only
  cases hr : s.ranges with
  | nil => simp [render]
  | cons last rest =>
    simp only
    split
    · rename_i hc
      rw [render_extend src last rest e.len (by omega), hc]
    · simp [render]


/-! ## download plans -/

theorem take_drop_slice (source : Bytes) (o L k : Nat) :
    (slice source o L).drop k = slice source (o + k) (L - k) := by
  unfold slice
  rw [List.drop_take, List.drop_drop]

theorem take_slice (source : Bytes) (o L w : Nat) (hw : w ≤ L) :
    (slice source o L).take w = slice source o w := by
  unfold slice
  rw [List.take_take, Nat.min_eq_left hw]

/-- executing a plan's copy/discard list on its requested span writes exactly the individual
    ranges it stands for, byte for byte, at their output offsets -/
theorem exec_expand (source : Bytes) (cds : List (Nat × Nat)) :
    ∀ (s d L : Nat), need cds ≤ L →
      execCDs (slice source s L) d cds = (expandAux s d cds).map (fun r => (r.dst, slice source r.src r.len)) := by
  induction cds with
  | nil => intro s d L _; rfl
  | cons c rest ih =>
    obtain ⟨w, g⟩ := c
    intro s d L hL
    simp only [need] at hL
    simp only [execCDs, expandAux, List.map_cons]
    rw [take_slice _ _ _ _ (by omega), take_drop_slice]
    rw [ih (s + (w + g)) (d + w) (L - (w + g)) (by omega)]
    rw [show s + w + g = s + (w + g) by omega]

theorem execPlan_eq (source : Bytes) (p : Plan) (h : p.rng.len = need p.cds) :
    execPlan source p = (expand p).map (fun r => (r.dst, slice source r.src r.len)) := by
  unfold execPlan expand
  exact exec_expand source p.cds _ _ _ (by omega)

theorem sumLens_append (a b : List Rng) : sumLens (a ++ b) = sumLens a + sumLens b := by
  induction a with
  | nil => simp [sumLens]
  | cons x xs ih => simp [sumLens, ih]; omega

theorem need_eq (cds : List (Nat × Nat)) (s d : Nat) : need cds = sumLens (expandAux s d cds) + discards cds := by
  induction cds generalizing s d with
  | nil => rfl
  | cons c rest ih =>
    obtain ⟨w, g⟩ := c
    simp only [need, expandAux, sumLens, discards, ih (s + w + g) (d + w)]
    omega

theorem transfer_eq (ps : List Plan) (h : ∀ p ∈ ps, p.rng.len = need p.cds) :
    totalTransfer ps = sumLens ((ps.map expand).flatten) + totalDiscards ps := by
  induction ps with
  | nil => rfl
  | cons p rest ih =>
    simp only [totalTransfer, List.map_cons, List.flatten_cons, sumLens_append, totalDiscards]
    rw [ih (fun q hq => h q (by simp [hq])), h p (by simp)]
    unfold expand
    rw [need_eq p.cds p.rng.src p.rng.dst]
    omega

theorem perm_insertByDst (p : Plan) (l : List Plan) : (insertByDst p l).Perm (p :: l) := by
  induction l with
  | nil => exact List.Perm.refl _
  | cons q qs ih =>
    simp only [insertByDst]
    split
    · exact List.Perm.refl _
    · exact (List.Perm.cons q ih).trans (List.Perm.swap p q qs)

theorem perm_sortByDst (ps : List Plan) : (sortByDst ps).Perm ps := by
  induction ps with
  | nil => exact List.Perm.refl _
  | cons p rest ih =>
    exact (perm_insertByDst p (sortByDst rest)).trans (List.Perm.cons p ih)

theorem totalTransfer_perm {a b : List Plan} (h : a.Perm b) : totalTransfer a = totalTransfer b := by
  induction h with
  | nil => rfl
  | cons x _ ih => simp [totalTransfer, ih]
  | swap x y l => simp [totalTransfer]; omega
  | trans _ _ ih1 ih2 => rw [ih1, ih2]

theorem totalDiscards_perm {a b : List Plan} (h : a.Perm b) : totalDiscards a = totalDiscards b := by
  induction h with
  | nil => rfl
  | cons x _ ih => simp [totalDiscards, ih]
  | swap x y l => simp [totalDiscards]; omega
  | trans _ _ ih1 ih2 => rw [ih1, ih2]

/-- what the certificate check establishes -/
theorem mergeOK_parts {ranges : List Rng} {budget : Nat} {plans : List Plan} (h : mergeOK ranges budget plans = true) :
    ((sortByDst plans).map expand).flatten = ranges ∧ (∀ p ∈ plans, p.rng.len = need p.cds) ∧
    totalDiscards plans ≤ budget := by
  simp only [mergeOK, Bool.and_eq_true, decide_eq_true_eq, List.all_eq_true] at h
  exact ⟨h.1.1, fun p hp => (h.1.2 p hp).1, h.2⟩


/-! ## writes to the output file: pairwise-disjoint writes give the same file in any order -/

abbrev Write := Nat × Bytes

/-- a file as a function from position to byte (`none` = not written) -/
def applyW (f : Nat → Option Nat) (w : Write) : Nat → Option Nat :=
  fun i => if w.1 ≤ i ∧ i < w.1 + w.2.length then w.2[i - w.1]? else f i

def inW (i : Nat) (w : Write) : Prop := w.1 ≤ i ∧ i < w.1 + w.2.length

def Disjoint (ws : List Write) : Prop := ws.Pairwise (fun a b => ∀ i, ¬ (inW i a ∧ inW i b))

theorem applyW_outside (f : Nat → Option Nat) (ws : List Write) (i : Nat) (h : ∀ w ∈ ws, ¬ inW i w) :
    (ws.foldl applyW f) i = f i := by
  induction ws generalizing f with
  | nil => rfl
  | cons w rest ih =>
    simp only [List.foldl_cons]
    rw [ih (applyW f w) (fun x hx => h x (by simp [hx]))]
    have := h w (by simp)
    simp only [applyW, inW] at this ⊢
    rw [if_neg this]

/-- closed form: position `i` holds the byte of the unique write covering it -/
theorem applyW_inside (f : Nat → Option Nat) (ws : List Write) (hd : Disjoint ws) (w : Write) (hw : w ∈ ws)
    (i : Nat) (hi : inW i w) : (ws.foldl applyW f) i = w.2[i - w.1]? := by
  induction ws generalizing f with
  | nil => cases hw
  | cons x rest ih =>
    have hx := (List.pairwise_cons.mp hd).1
    have hrest := (List.pairwise_cons.mp hd).2
    simp only [List.foldl_cons]
    simp only [List.mem_cons] at hw
    rcases hw with rfl | hw
    · rw [applyW_outside _ rest i (fun y hy hiy => hx y hy i ⟨hi, hiy⟩)]
      simp only [applyW]
      have hi' : w.1 ≤ i ∧ i < w.1 + w.2.length := hi
      rw [if_pos hi']
    · exact ih (applyW f x) hrest hw

/-- **any order**: two lists of the same pairwise-disjoint writes (any permutation, hence any
    interleaving of workers and chunks) produce the same file -/
theorem writes_commute (f : Nat → Option Nat) (ws ws' : List Write) (hp : ws.Perm ws') (hd : Disjoint ws) :
    ws.foldl applyW f = ws'.foldl applyW f := by
  have hd' : Disjoint ws' := by
    unfold Disjoint at *
    exact hp.pairwise hd (fun h i hab => h i ⟨hab.2, hab.1⟩)
  funext i
  by_cases hc : ∃ w ∈ ws, inW i w
  · obtain ⟨w, hw, hi⟩ := hc
    rw [applyW_inside f ws hd w hw i hi, applyW_inside f ws' hd' w (hp.mem_iff.mp hw) i hi]
  · have h1 : ∀ w ∈ ws, ¬ inW i w := fun w hw hi => hc ⟨w, hw, hi⟩
    have h2 : ∀ w ∈ ws', ¬ inW i w := fun w hw hi => hc ⟨w, hp.mem_iff.mpr hw, hi⟩
    rw [applyW_outside f ws i h1, applyW_outside f ws' i h2]

end Pm.Extract
