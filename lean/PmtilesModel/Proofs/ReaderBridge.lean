import PmtilesModel.Proofs.Reader
/-! Bridge: Go's binary search = the linear `lookupDir` spec on strictly ascending directories;
    the Go walk = the spec walk on well-formed trees. -/
namespace Pm.Reader

def StrictAscL (es : List Entry) : Prop := es.Pairwise (fun a b => a.id < b.id)

theorem strictAsc_toArray (es : List Entry) (h : StrictAscL es) : StrictAsc es.toArray := by
  intro i j hi hj hij
  simp only [List.size_toArray] at hi hj
  simp only [List.getElem_toArray]
  exact (List.pairwise_iff_getElem.mp h) i j hi hj hij

theorem lastLE_none_iff (es : List Entry) (t : Nat) (hs : StrictAscL es) :
    lastLE es t = none ↔ ∀ e ∈ es, t < e.id := by
  cases es with
  | nil => simp [lastLE]
  | cons x xs =>
    have hx := (List.pairwise_cons.mp hs).1
    simp only [lastLE]
    constructor
    · intro h
      by_cases hc : x.id ≤ t
      · rw [if_pos hc] at h
        cases h2 : lastLE xs t <;> simp [h2] at h
      · intro e he
        simp only [List.mem_cons] at he
        rcases he with rfl | he
        · omega
        · have := hx e he; omega
    · intro h
      have := h x (by simp)
      rw [if_neg (by omega)]

theorem lastLE_some_iff (es : List Entry) (t : Nat) (e : Entry) (hs : StrictAscL es) :
    lastLE es t = some e ↔ (e ∈ es ∧ e.id ≤ t ∧ ∀ e' ∈ es, e'.id ≤ t → e'.id ≤ e.id) := by
  induction es generalizing e with
  | nil => simp [lastLE]
  | cons x xs ih =>
    have hx := (List.pairwise_cons.mp hs).1
    have hxs := (List.pairwise_cons.mp hs).2
    have ih := fun e => ih e hxs
    simp only [lastLE]
    by_cases hc : x.id ≤ t
    · rw [if_pos hc]
      cases h2 : lastLE xs t with
      | none =>
        have hn := (lastLE_none_iff xs t hxs).mp h2
        simp only [Option.some.injEq]
        constructor
        · intro h; subst h
          refine ⟨by simp, hc, ?_⟩
          intro e' he' hle
          simp only [List.mem_cons] at he'
          rcases he' with rfl | he'
          · exact Nat.le_refl _
          · have := hn e' he'; omega
        · intro ⟨hm, hle, _⟩
          simp only [List.mem_cons] at hm
          rcases hm with rfl | hm
          · rfl
          · have := hn e hm; omega
      | some e2 =>
        simp only [Option.some.injEq]
        rw [h2] at ih
        constructor
        · intro h; subst h
          obtain ⟨hm, hle, hmax⟩ := (ih e2).mp rfl
          refine ⟨by simp [hm], hle, ?_⟩
          intro e' he' hle'
          simp only [List.mem_cons] at he'
          rcases he' with rfl | he'
          · exact Nat.le_of_lt (hx e2 hm)
          · exact hmax e' he' hle'
        · intro ⟨hm, hle, hmax⟩
          obtain ⟨hm2, hle2, hmax2⟩ := (ih e2).mp rfl
          simp only [List.mem_cons] at hm
          rcases hm with rfl | hm
          · -- e = x but e2 ∈ xs has a larger id ≤ t: contradiction with maximality
            have := hmax e2 (by simp [hm2]) hle2
            have := hx e2 hm2
            omega
          · have : e2 = e := by
              have h5 : some e2 = some e := by
                have a := hmax e2 (by simp [hm2]) hle2
                have b := hmax2 e hm hle
                -- equal ids in a strictly ascending list ⇒ equal entries
                have heq : e2.id = e.id := by omega
                obtain ⟨i, hi, rfl⟩ := List.mem_iff_getElem.mp hm2
                obtain ⟨j, hj, rfl⟩ := List.mem_iff_getElem.mp hm
                have hp := List.pairwise_iff_getElem.mp hxs
                rcases Nat.lt_trichotomy i j with hlt | heq' | hgt
                · have := hp i j hi hj hlt; omega
                · subst heq'; rfl
                · have := hp j i hj hi hgt; omega
              exact Option.some.inj h5
            exact this
    · rw [if_neg hc]
      constructor
      · intro h; cases h
      · intro ⟨hm, hle, _⟩
        simp only [List.mem_cons] at hm
        rcases hm with rfl | hm
        · omega
        · have := hx e hm; omega

/-- `findTile` (binary search) computes the single-directory lookup specification -/
theorem findTile_eq_lookupDir (es : List Entry) (t : Nat) (hs : StrictAscL es) :
    findTile es.toArray t = lookupDir es t := by
  have hsa := strictAsc_toArray es hs
  cases h : findTile es.toArray t with
  | some e =>
    obtain ⟨hm, hcov, hmax⟩ := findTile_sound es.toArray t hsa e h
    have hm' : e ∈ es := by simpa using hm
    have hl : lastLE es t = some e := by
      rw [lastLE_some_iff es t e hs]
      refine ⟨hm', hcov.1, ?_⟩
      intro e' he' hle
      obtain ⟨i, hi, rfl⟩ := List.mem_iff_getElem.mp he'
      have := hmax i (by simpa using hi) (by simpa using hle)
      simpa using this
    unfold lookupDir
    rw [hl]
    simp only [accept]
    rw [if_pos hcov.2]
  | none =>
    have hc := findTile_complete es.toArray t hsa h
    unfold lookupDir
    cases hl : lastLE es t with
    | none => rfl
    | some e =>
      obtain ⟨hm, hle, hmax⟩ := (lastLE_some_iff es t e hs).mp hl
      obtain ⟨i, hi, rfl⟩ := List.mem_iff_getElem.mp hm
      have := hc i (by simpa using hi) (by simpa using hle)
      simp only [List.getElem_toArray] at this
      rcases this with ⟨j, hj, h1, h2⟩ | hn
      · have := hmax es[j] (List.getElem_mem _) h2; omega
      · simp only [accept]
        rw [if_neg]
        intro hh; exact hn ⟨hle, hh⟩

theorem lookupDir_mem (es : List Entry) (t : Nat) (e : Entry) (h : lookupDir es t = some e) : e ∈ es := by
  unfold lookupDir at h
  cases hl : lastLE es t with
  | none => rw [hl] at h; cases h
  | some e' =>
    rw [hl] at h
    simp only [accept] at h
    split at h
    · cases h
      induction es with
      | nil => simp [lastLE] at hl
      | cons x xs ih =>
        simp only [lastLE] at hl
        split at hl
        · cases h2 : lastLE xs t with
          | none => rw [h2] at hl; cases hl; simp
          | some e2 => rw [h2] at hl; cases hl; simp [ih h2]
        · cases hl
    · cases h

/-! ## well-formed trees: ascending at every level, sub-trees of member pointers are well-formed -/

theorem WF_head_lt {fetch d lo hi es} (h : WF fetch d lo hi es) : ∀ x xs, es = x :: xs → x.id < hi := by
  induction h with
  | nil _ => intro x xs h; cases h
  | @tile d lo hi e es h1 h2 hw _ =>
    intro x xs h; cases h
    have := hw.le; omega
  | @ptr d lo hi mid e es es' h1 h2 hf hh hsub hrest ih1 _ =>
    intro x xs h; cases h
    obtain ⟨hd, tl, rfl, hid⟩ := hh
    have := ih1 hd tl rfl
    have := hrest.le
    omega

theorem WF_ids_ge {fetch d lo hi es} (h : WF fetch d lo hi es) : ∀ x ∈ es, lo ≤ x.id := by
  induction h with
  | nil _ => intro x hx; cases hx
  | @tile d lo hi e es h1 h2 hw ih =>
    intro x hx
    simp only [List.mem_cons] at hx
    rcases hx with rfl | hx
    · exact h1
    · have := ih x hx; omega
  | @ptr d lo hi mid e es es' h1 h2 hf hh hsub hrest ih1 ih2 =>
    intro x hx
    simp only [List.mem_cons] at hx
    rcases hx with rfl | hx
    · exact h1
    · have := ih2 x hx
      obtain ⟨hd, tl, rfl, hid⟩ := hh
      have := WF_head_lt hsub hd tl rfl
      omega

theorem WF_strictAsc {fetch d lo hi es} (h : WF fetch d lo hi es) : StrictAscL es := by
  induction h with
  | nil _ => exact List.Pairwise.nil
  | @tile d lo hi e es h1 h2 hw ih =>
    refine List.pairwise_cons.mpr ⟨?_, ih⟩
    intro x hx
    have := WF_ids_ge hw x hx; omega
  | @ptr d lo hi mid e es es' h1 h2 hf hh hsub hrest ih1 ih2 =>
    refine List.pairwise_cons.mpr ⟨?_, ih2⟩
    intro x hx
    have := WF_ids_ge hrest x hx
    obtain ⟨hd, tl, rfl, hid⟩ := hh
    have := WF_head_lt hsub hd tl rfl
    omega

theorem WF_mem_ptr {fetch d lo hi es} (h : WF fetch d lo hi es) :
    ∀ e ∈ es, e.rl = 0 → ∃ d' lo' hi' es', d = d' + 1 ∧ fetch e.off e.len = some es' ∧ WF fetch d' lo' hi' es' := by
  induction h with
  | nil _ => intro e he; cases he
  | @tile d lo hi e es h1 h2 hw ih =>
    intro x hx hz
    simp only [List.mem_cons] at hx
    rcases hx with rfl | hx
    · omega
    · exact ih x hx hz
  | @ptr d lo hi mid e es es' h1 h2 hf hh hsub hrest ih1 ih2 =>
    intro x hx hz
    simp only [List.mem_cons] at hx
    rcases hx with rfl | hx
    · exact ⟨d, _, _, es', rfl, hf, hsub⟩
    · exact ih2 x hx hz

/-- on a well-formed tree Go's walk (binary search at every level) is the specification walk -/
theorem walkGo_eq_walk (fetch : Fetch) : ∀ fuel {d lo hi es}, WF fetch d lo hi es →
    ∀ t, walkGo fetch fuel es t = walk fetch fuel es t := by
  intro fuel
  induction fuel with
  | zero =>
    intro d lo hi es h t
    unfold walkGo walk
    rw [findTile_eq_lookupDir es t (WF_strictAsc h)]
    cases hl : lookupDir es t with
    | none => rfl
    | some e => simp only
  | succ f ih =>
    intro d lo hi es h t
    unfold walkGo walk
    rw [findTile_eq_lookupDir es t (WF_strictAsc h)]
    cases hl : lookupDir es t with
    | none => rfl
    | some e =>
      simp only
      split
      · rfl
      · rename_i hz
        cases hf : fetch e.off e.len with
        | none => rfl
        | some d' =>
          simp only
          obtain ⟨d'', lo', hi', es', _, hf', hw'⟩ := WF_mem_ptr h e (lookupDir_mem es t e hl) (by omega)
          rw [hf] at hf'; cases hf'
          exact ih hw' t

/-- C04 core: for a tree well-formed to depth `d` and any fuel ≥ `d`, Go's walk returns exactly
    the entry of the flattened enumeration whose run covers the tile ID (or nothing). -/
theorem walkGo_tileMap {fetch d lo hi es} (h : WF fetch d lo hi es) (fuel t : Nat) (hf : d ≤ fuel) :
    walkGo fetch fuel es t = lookupFlat (flatten fetch d es) t := by
  rw [walkGo_eq_walk fetch fuel h t]
  exact walk_eq h fuel t hf

end Pm.Reader
