import PmtilesModel.Model.Finalize
/-!
# The zoom range `setZoomCenterDefaults` writes is the zoom range of the addressed tiles

For an ascending, non-overlapping entry list (what the resolver of convert/cluster writes), every
addressed tile lies between the first tile of the first entry and the last tile of the last entry;
`goZoom` is monotone; hence the header's `minZoom`/`maxZoom` bound the zoom of every addressed tile
and both are attained (by the first and by the last addressed tile).  The last tile of a RUN matters:
`zoom_of_first_tile_is_not_enough` exhibits the D24 shape.
-/
namespace Pm.Finalize
open Pm Pm.Header

theorem goZoom_mono {a b : Nat} (h : a ≤ b) : TileId.goZoom a ≤ TileId.goZoom b := by
  unfold TileId.goZoom
  apply Nat.div_le_div_right
  have ha : 3 * a + 1 ≠ 0 := by omega
  have hb : 3 * b + 1 ≠ 0 := by omega
  rw [Nat.le_log2 hb]
  exact Nat.le_trans (Nat.log2_self_le ha) (by omega)

/-- entry `e` addresses tile `t` -/
def addresses (e : Entry) (t : Nat) : Prop := e.id ≤ t ∧ t < e.id + e.rl

/-- ascending and non-overlapping, every run non-empty, no uint64 wrap-around -/
def Asc : List Entry → Prop
  | [] => True
  | [e] => 1 ≤ e.rl ∧ e.id + e.rl ≤ 2^64
  | e :: f :: r => 1 ≤ e.rl ∧ e.id + e.rl ≤ f.id ∧ Asc (f :: r)

theorem lastTile_eq (e : Entry) (h1 : 1 ≤ e.rl) (h2 : e.id + e.rl ≤ 2^64) : lastTile e = e.id + e.rl - 1 := by
  unfold lastTile
  split
  · apply Nat.mod_eq_of_lt; omega
  · omega

theorem Asc.tail {e : Entry} {r : List Entry} (h : Asc (e :: r)) : Asc r := by
  cases r with
  | nil => trivial
  | cons f r => exact h.2.2

theorem Asc.head_rl {e : Entry} {r : List Entry} (h : Asc (e :: r)) : 1 ≤ e.rl := by
  cases r with
  | nil => exact h.1
  | cons f r => exact h.1

/-- everything after the head starts behind the head's run -/
theorem Asc.head_lt {e : Entry} {r : List Entry} (h : Asc (e :: r)) : ∀ f ∈ r, e.id + e.rl ≤ f.id := by
  induction r generalizing e with
  | nil => intro f hf; simp at hf
  | cons g r ih =>
    intro f hf
    rcases List.mem_cons.mp hf with rfl | hf
    · exact h.2.1
    · have := ih h.2.2 f hf
      have := h.2.1
      have := Asc.head_rl h.2.2
      omega

/-- every run ends at or before the end of the last entry's run, and inside uint64 -/
theorem Asc.le_last {l : List Entry} (h : Asc l) (d : Entry) :
    ∀ f ∈ l, f.id + f.rl ≤ (l.getLastD d).id + (l.getLastD d).rl ∧ (l.getLastD d).id + (l.getLastD d).rl ≤ 2^64 := by
  induction l with
  | nil => intro f hf; simp at hf
  | cons e r ih =>
    cases r with
    | nil =>
      intro f hf
      simp at hf; subst hf
      simp [List.getLastD]
      exact h.2
    | cons g r =>
      intro f hf
      have hl : (e :: g :: r).getLastD d = (g :: r).getLastD d := by simp [List.getLastD]
      rw [hl]
      have hr := ih h.2.2
      rcases List.mem_cons.mp hf with rfl | hf
      · have hg := hr g (by simp)
        have := h.2.1
        have := Asc.head_rl h.2.2
        omega
      · exact hr f hf

/-- **the header's zoom range is the zoom range of the addressed tiles**: every addressed tile's zoom
    lies in `[minZoom, maxZoom]` -/
theorem zoom_range_covers (h : Header) (entries : List Entry) (hasc : Asc entries) (e : Entry) (he : e ∈ entries)
    (t : Nat) (ht : addresses e t) :
    (setZoomCenterDefaults h entries).minZoom ≤ TileId.goZoom t ∧
      TileId.goZoom t ≤ (setZoomCenterDefaults h entries).maxZoom := by
  have hmin : (setZoomCenterDefaults h entries).minZoom = TileId.goZoom ((entries.headD default).id) := by
    unfold setZoomCenterDefaults; simp only; split <;> rfl
  have hmax : (setZoomCenterDefaults h entries).maxZoom = TileId.goZoom (lastTile (entries.getLastD default)) := by
    unfold setZoomCenterDefaults; simp only; split <;> rfl
  rw [hmin, hmax]
  cases entries with
  | nil => simp at he
  | cons a r =>
    constructor
    · apply goZoom_mono
      simp only [List.headD_cons]
      rcases List.mem_cons.mp he with rfl | he
      · exact ht.1
      · have := Asc.head_lt hasc e he
        have := ht.1
        omega
    · apply goZoom_mono
      obtain ⟨h1, h2⟩ := Asc.le_last hasc default e he
      have hl : (a :: r).getLastD default ∈ a :: r := by
        rw [List.getLastD_eq_getLast?]
        cases hgl : (a :: r).getLast? with
        | none => simp at hgl
        | some x => simp only [Option.getD_some]; exact List.mem_of_getLast? hgl
      have hrl : 1 ≤ ((a :: r).getLastD default).rl := by
        -- every member of an Asc list has a non-empty run
        have : ∀ l : List Entry, Asc l → ∀ x ∈ l, 1 ≤ x.rl := by
          intro l
          induction l with
          | nil => intro _ x hx; simp at hx
          | cons y ys ih =>
            intro hy x hx
            rcases List.mem_cons.mp hx with rfl | hx
            · exact Asc.head_rl hy
            · exact ih (Asc.tail hy) x hx
        exact this _ hasc _ hl
      rw [lastTile_eq _ hrl h2]
      have := ht.2
      omega

/-- both ends are attained: the first entry's first tile has zoom `minZoom`, the last tile of the last
    entry's run has zoom `maxZoom` (definitionally — stated for the record) -/
theorem zoom_range_attained (h : Header) (entries : List Entry) :
    (setZoomCenterDefaults h entries).minZoom = TileId.goZoom ((entries.headD default).id) ∧
    (setZoomCenterDefaults h entries).maxZoom = TileId.goZoom (lastTile (entries.getLastD default)) := by
  unfold setZoomCenterDefaults; simp only; split <;> exact ⟨rfl, rfl⟩

/-- D24 (test): one entry, a run over tiles 0..4 — the zoom of its first tile is 0, the highest addressed
    tile (4) has zoom 1, and that is what the header says -/
theorem zoom_of_first_tile_is_not_enough (h : Header) :
    TileId.goZoom (⟨0, 0, 3, 5⟩ : Entry).id = 0 ∧
      (setZoomCenterDefaults h [⟨0, 0, 3, 5⟩]).maxZoom = 1 := by
  refine ⟨by decide, ?_⟩
  rw [(zoom_range_attained h _).2]
  decide

end Pm.Finalize

namespace Pm.Finalize
open Pm Pm.Header

/-- a center the source declares is kept: the default is applied only when all THREE center fields are zero
    (zoom 0 with a real position is a declared center) -/
theorem declared_center_kept (h : Header) (entries : List Entry)
    (hd : ¬ (h.centerZoom = 0 ∧ h.centerLonE7 = 0 ∧ h.centerLatE7 = 0)) :
    (setZoomCenterDefaults h entries).centerZoom = h.centerZoom ∧
    (setZoomCenterDefaults h entries).centerLonE7 = h.centerLonE7 ∧
    (setZoomCenterDefaults h entries).centerLatE7 = h.centerLatE7 := by
  unfold setZoomCenterDefaults
  simp only
  rw [if_neg hd]
  exact ⟨rfl, rfl, rfl⟩

/-- no center declared: the minimum zoom and the midpoint of the bounds (Go's int32 arithmetic) -/
theorem absent_center_defaulted (h : Header) (entries : List Entry)
    (hz : h.centerZoom = 0 ∧ h.centerLonE7 = 0 ∧ h.centerLatE7 = 0) :
    (setZoomCenterDefaults h entries).centerZoom = (setZoomCenterDefaults h entries).minZoom ∧
    (setZoomCenterDefaults h entries).centerLonE7 = i32avg h.minLonE7 h.maxLonE7 ∧
    (setZoomCenterDefaults h entries).centerLatE7 = i32avg h.minLatE7 h.maxLatE7 := by
  unfold setZoomCenterDefaults
  simp only
  rw [if_pos hz]
  exact ⟨rfl, rfl, rfl⟩

end Pm.Finalize
