import PmtilesModel.Proofs.ServerProtocol
/-!
# Strong transparency: an archive that is never replaced is always answered with its uncached answer

For a fixed archive name `n0` whose history is the single version `v0` (valid header `h0`), along
any run in which `n0` is not replaced — other archives may be replaced freely, any schedule, any
eviction — no request for `n0` ever fails and every completed response is exactly `answer v0 q`.
-/
namespace Pm.ServerProtocol

variable (n0 : Name) (v0 : Version) (h0 : Hdr)

/-- payload kind matches key kind, and is never a failure (for items of archive `n0`) -/
def ItemT (it : Item) : Prop :=
  it.key.name = n0 →
    match it.pay with
    | .fail _ => False
    | .hdr _ => isHeaderKey it.key = true
    | .dir _ => isHeaderKey it.key = false

/-- keys requested for `n0`: the header key, or a directory key carrying `v0`'s tag and a positive length -/
def KeyT (k : Key) : Prop :=
  k.name = n0 → (k.off = 0 ∧ k.len = 0 ∧ k.tag = 0) ∨ (0 < k.len ∧ k.tag = v0.tag)

def ClientT (c : Client) : Prop :=
  c.q.name = n0 →
    match c.pc with
    | .needDir _ _ _ _ _ len | .waitDir _ _ _ _ _ len => 0 < len
    | .done r => r ≠ .notFound ∧ r ≠ .ioError
    | _ => True

structure TInv (st : St) : Prop where
  sinv   : SInv st
  store  : st.store n0 = [v0]
  cache  : ∀ it ∈ st.cache, ItemT n0 it
  respQ  : ∀ it ∈ st.respQ, ItemT n0 it
  chans  : ∀ p ∈ st.chans, ItemT n0 p.2
  reqQ   : ∀ r ∈ st.reqQ, KeyT n0 v0 r.key
  fetch  : ∀ f ∈ st.fetch, KeyT n0 v0 f.key ∧ ∀ its, f.buf = some its → ∀ it ∈ its, ItemT n0 it
  clients : ∀ p ∈ st.clients, ClientT n0 p.2

/-- hypotheses on the archive: a valid header, a non-empty root, leaf pointers of positive length -/
structure ArchOK : Prop where
  hdr : v0.hdr = some h0
  root : 0 < h0.rootLen
  leaf : ∀ off len t e, findTile (v0.dir off len) t = some e → ¬ 0 < e.rl → 0 < e.len

theorem current_fix {s : Store} (h : s n0 = [v0]) : current s n0 = some v0 := by
  unfold current; rw [h]; rfl

theorem mem_fix {s : Store} (h : s n0 = [v0]) {v : Version} (hv : v ∈ s n0) : v = v0 := by
  rw [h] at hv; simpa using hv

theorem fetchResult_T (s : Store) (hs : s n0 = [v0]) (ha : ArchOK v0 h0) (k : Key) (hk : KeyT n0 v0 k) :
    ∀ it ∈ fetchResult s k, ItemT n0 it := by
  intro it hit hname
  by_cases hn : k.name = n0
  · rcases hk hn with ⟨o, l, t⟩ | ⟨l, t⟩
    · -- header fetch
      have hh : isHeaderKey k = true := by simp [isHeaderKey, o, l]
      unfold fetchResult at hit
      rw [hn, current_fix n0 v0 hs] at hit
      simp only [hh, if_true, ha.hdr] at hit
      simp only [List.mem_cons, List.not_mem_nil, or_false] at hit
      rcases hit with rfl | rfl
      · simp only [isHeaderKey, Bool.and_eq_false_iff, beq_eq_false_iff_ne]
        right; have := ha.root; omega
      · simp only; exact hh
    · have hh : isHeaderKey k = false := by
        simp only [isHeaderKey, Bool.and_eq_false_iff, beq_eq_false_iff_ne]; right; omega
      unfold fetchResult at hit
      rw [hn, current_fix n0 v0 hs] at hit
      simp only [hh, Bool.false_eq_true, if_false] at hit
      have hc : ¬ (k.tag ≠ 0 ∧ v0.tag ≠ k.tag) := by rw [t]; simp
      rw [if_neg hc] at hit
      simp only [List.mem_cons, List.not_mem_nil, or_false] at hit
      subst hit
      simp only; exact hh
  · -- another archive: every item of the result carries that archive's name
    exfalso
    unfold fetchResult at hit
    cases hc : current s k.name with
    | none => rw [hc] at hit; simp at hit; subst hit; exact hn hname
    | some v =>
      rw [hc] at hit; simp only at hit
      split at hit
      · cases hh : v.hdr with
        | none => rw [hh] at hit; simp at hit; subst hit; exact hn hname
        | some h =>
          rw [hh] at hit; simp at hit
          rcases hit with rfl | rfl
          · exact hn hname
          · exact hn hname
      · split at hit <;> (simp at hit; subst hit; exact hn hname)

theorem clientsT_update {pre post : List (Nat × Client)} {cid : Nat} {c c' : Client}
    (h : ∀ p ∈ pre ++ (cid, c) :: post, ClientT n0 p.2) (hc' : ClientT n0 c') :
    ∀ p ∈ pre ++ (cid, c') :: post, ClientT n0 p.2 :=
  clients_update (P := ClientT n0) h hc'

theorem step_tinv (ha : ArchOK v0 h0) {st st' : St} (hs : Step st st') (hfix : st'.store n0 = [v0])
    (hi : TInv n0 v0 st) : TInv n0 v0 st' := by
  have hsinv' : SInv st' := step_inv hs hi.sinv
  obtain ⟨hsinv, hstore, hcache, hresp, hchans, hreq, hfetch, hcl⟩ := hi
  cases hs with
  | replace n v hfresh hnzv =>
    exact ⟨hsinv', hfix, hcache, hresp, hchans, hreq, hfetch, hcl⟩
  | sendRoot pre post cid q a p hc =>
    refine ⟨hsinv', hfix, hcache, hresp, hchans, ?_, hfetch, ?_⟩
    · intro r hr
      simp only [List.mem_append, List.mem_singleton] at hr
      rcases hr with hr | rfl
      · exact hreq r hr
      · intro _; exact Or.inl ⟨rfl, rfl, rfl⟩
    · rw [hc] at hcl
      exact clientsT_update n0 hcl (by intro _; trivial)
  | sendDir pre post cid q a h t fuel off len hc =>
    rw [hc] at hcl
    have hme : (cid, (⟨q, .needDir a h t fuel off len⟩ : Client)) ∈ st.clients := by rw [hc]; simp
    refine ⟨hsinv', hfix, hcache, hresp, hchans, ?_, hfetch, ?_⟩
    · intro r hr
      simp only [List.mem_append, List.mem_singleton] at hr
      rcases hr with hr | rfl
      · exact hreq r hr
      · intro hn
        simp only at hn
        have hpos := hcl (cid, ⟨q, .needDir a h t fuel off len⟩) (by simp) hn
        simp only at hpos
        have hg := hsinv.clients _ hme
        simp only [ClientGood] at hg
        obtain ⟨_, v, hv, htag, _⟩ := hg
        have : v = v0 := mem_fix n0 v0 hstore (by rw [← hn]; exact hv)
        subst this
        exact Or.inr ⟨hpos, htag.symm⟩
    · refine clientsT_update n0 hcl ?_
      intro hn
      have := hcl (cid, ⟨q, .needDir a h t fuel off len⟩) (by simp) hn
      exact this
  | loopReqHit r rest hq it hit hk =>
    have hitc : it ∈ st.cache := by
      split at hit
      · exact (List.mem_filter.mp hit).1
      · exact hit
    refine ⟨hsinv', hfix, ?_, hresp, ?_, ?_, hfetch, hcl⟩
    · intro x hx
      simp only at hx
      split at hx
      · exact hcache x (List.mem_filter.mp hx).1
      · exact hcache x hx
    · intro p hp
      simp only [List.mem_append, List.mem_singleton] at hp
      rcases hp with hp | rfl
      · exact hchans p hp
      · exact hcache it hitc
    · intro x hx; exact hreq x (by rw [hq]; simp [hx])
  | loopReqJoin r rest hq pre post ws hinf =>
    refine ⟨hsinv', hfix, ?_, hresp, hchans, ?_, hfetch, hcl⟩
    · intro x hx
      simp only at hx
      split at hx
      · exact hcache x (List.mem_filter.mp hx).1
      · exact hcache x hx
    · intro x hx; exact hreq x (by rw [hq]; simp [hx])
  | loopReqMiss r rest hq =>
    refine ⟨hsinv', hfix, ?_, hresp, hchans, ?_, ?_, hcl⟩
    · intro x hx
      simp only at hx
      split at hx
      · exact hcache x (List.mem_filter.mp hx).1
      · exact hcache x hx
    · intro x hx; exact hreq x (by rw [hq]; simp [hx])
    · intro f hf
      rcases List.mem_cons.mp hf with rfl | hf
      · exact ⟨hreq r (by rw [hq]; simp), by intro its h; cases h⟩
      · exact hfetch f hf
  | serveFetch pre post k hf =>
    have hkT : KeyT n0 v0 k := (hfetch ⟨k, none⟩ (by rw [hf]; simp)).1
    refine ⟨hsinv', hfix, hcache, hresp, hchans, hreq, ?_, hcl⟩
    intro f hfm
    simp only [List.mem_append, List.mem_cons] at hfm
    rcases hfm with hfm | rfl | hfm
    · exact hfetch f (by rw [hf]; simp [hfm])
    · refine ⟨hkT, ?_⟩
      intro its hits
      simp only [Option.some.injEq] at hits
      subst hits
      exact fetchResult_T n0 v0 h0 st.store hstore ha k hkT
    · exact hfetch f (by rw [hf]; simp [hfm])
  | push pre post k it more hf =>
    have hold := hfetch ⟨k, some (it :: more)⟩ (by rw [hf]; simp)
    refine ⟨hsinv', hfix, hcache, ?_, hchans, hreq, ?_, hcl⟩
    · intro x hx
      simp only [List.mem_append, List.mem_singleton] at hx
      rcases hx with hx | rfl
      · exact hresp x hx
      · exact hold.2 _ rfl x (by simp)
    · intro f hfm
      simp only [List.mem_append, List.mem_cons] at hfm
      rcases hfm with hfm | rfl | hfm
      · exact hfetch f (by rw [hf]; simp [hfm])
      · refine ⟨hold.1, ?_⟩
        intro its hits
        simp only [Option.some.injEq] at hits
        subst hits
        intro x hx
        exact hold.2 _ rfl x (by simp [hx])
      · exact hfetch f (by rw [hf]; simp [hfm])
  | loopResp it rest hq ws infl' hsub keep hk =>
    have hit : ItemT n0 it := hresp it (by rw [hq]; simp)
    refine ⟨hsinv', hfix, ?_, ?_, ?_, hreq, hfetch, hcl⟩
    · intro x hx
      rcases List.mem_cons.mp (hk x hx) with rfl | hx'
      · exact hit
      · exact hcache x hx'
    · intro x hx; exact hresp x (by rw [hq]; simp [hx])
    · intro p hp
      simp only [List.mem_append, List.mem_map] at hp
      rcases hp with hp | ⟨c, _, rfl⟩
      · exact hchans p hp
      · exact hit
  | recvRoot pre post cid q a cpre cpost it hc hch hkey =>
    rw [hc] at hcl
    have hitT : ItemT n0 it := hchans (cid, it) (by rw [hch]; simp)
    have hitG : Good st.store it := hsinv.chans (cid, it) (by rw [hch]; simp)
    refine ⟨hsinv', hfix, hcache, hresp, ?_, hreq, hfetch, ?_⟩
    · intro p hp
      exact hchans p (by rw [hch]; simp only [List.mem_append, List.mem_cons] at hp ⊢; rcases hp with hp | hp; exact Or.inl hp; exact Or.inr (Or.inr hp))
    · refine clientsT_update n0 hcl ?_
      intro hn
      simp only at hn
      have hk0 : it.key.name = n0 := by rw [hkey]; exact hn
      have hT := hitT hk0
      have hhk : isHeaderKey it.key = true := by rw [hkey]; rfl
      cases hp : it.pay with
      | fail b => rw [hp] at hT; exact absurd hT (by simp)
      | dir es => rw [hp] at hT; simp only at hT; rw [hhk] at hT; cases hT
      | hdr h =>
        by_cases hz : q.z < h.minZ ∨ h.maxZ < q.z
        · simp only [hz, if_true]
          exact ⟨by simp, by simp⟩
        · simp only [hz, if_false]
          -- the header is v0's: the root is non-empty
          unfold Good at hitG
          rw [hp] at hitG
          simp only at hitG
          obtain ⟨v, hv, _, hh⟩ := hitG
          have : v = v0 := mem_fix n0 v0 hstore (by rw [← hk0]; exact hv)
          subst this
          have : h = h0 := by rw [ha.hdr] at hh; exact (Option.some.inj hh).symm
          subst this
          exact ha.root
  | recvDir pre post cid q a h t fuel off len cpre cpost it hc hch hkey =>
    rw [hc] at hcl
    have hitT : ItemT n0 it := hchans (cid, it) (by rw [hch]; simp)
    have hitG : Good st.store it := hsinv.chans (cid, it) (by rw [hch]; simp)
    refine ⟨hsinv', hfix, hcache, hresp, ?_, hreq, hfetch, ?_⟩
    · intro p hp
      exact hchans p (by rw [hch]; simp only [List.mem_append, List.mem_cons] at hp ⊢; rcases hp with hp | hp; exact Or.inl hp; exact Or.inr (Or.inr hp))
    · refine clientsT_update n0 hcl ?_
      intro hn
      simp only at hn
      have hpos : 0 < len := hcl (cid, ⟨q, .waitDir a h t (fuel+1) off len⟩) (by simp) hn
      have hk0 : it.key.name = n0 := by rw [hkey]; exact hn
      have hT := hitT hk0
      have hhk : isHeaderKey it.key = false := by
        rw [hkey]; simp only [isHeaderKey, Bool.and_eq_false_iff, beq_eq_false_iff_ne]; right; omega
      cases hp : it.pay with
      | fail b => rw [hp] at hT; exact absurd hT (by simp)
      | hdr hh => rw [hp] at hT; simp only at hT; rw [hhk] at hT; cases hT
      | dir es =>
        simp only
        unfold Good at hitG
        rw [hp] at hitG
        simp only at hitG
        obtain ⟨_, v, hv, _, hes⟩ := hitG
        have : v = v0 := mem_fix n0 v0 hstore (by rw [← hk0]; exact hv)
        subst this
        cases hft : findTile es q.tile with
        | none => simp only; exact ⟨by simp, by simp⟩
        | some e =>
          by_cases hrl : 0 < e.rl
          · simp only [hrl, if_true]
          · by_cases hf0 : fuel = 0
            · simp only [hrl, if_false, hf0, if_true]
              exact ⟨by simp, by simp⟩
            · simp only [hrl, if_false, hf0]
              rw [hes] at hft
              exact ha.leaf _ _ _ _ hft hrl
  | tileServe pre post cid q a h t e hc =>
    rw [hc] at hcl
    have hme : (cid, (⟨q, .tileRead a h t e⟩ : Client)) ∈ st.clients := by rw [hc]; simp
    refine ⟨hsinv', hfix, hcache, hresp, hchans, hreq, hfetch, ?_⟩
    refine clientsT_update n0 hcl ?_
    intro hn
    simp only at hn
    have hg := hsinv.clients _ hme
    simp only [ClientGood] at hg
    obtain ⟨_, v, hv, htag, _⟩ := hg
    have : v = v0 := mem_fix n0 v0 hstore (by rw [← hn]; exact hv)
    subst this
    have hcur : current st.store q.name = some v := by rw [hn]; exact current_fix n0 v hstore
    simp only [hcur, htag, if_true]
    exact ⟨by simp, by simp⟩

/-- runs in which archive `n0` keeps its single version -/
inductive ReachFix : St → St → Prop
  | refl (s : St) : ReachFix s s
  | step {a b c : St} : ReachFix a b → Step b c → c.store n0 = [v0] → ReachFix a c

theorem reachFix_inv (ha : ArchOK v0 h0) {a b : St} (h : ReachFix n0 v0 a b) (hi : TInv n0 v0 a) : TInv n0 v0 b := by
  induction h with
  | refl => exact hi
  | step _ hs hfix ih => exact step_tinv n0 v0 h0 ha hs hfix ih

theorem init_tinv (s : Store) (cs : List (Nat × Q))
    (hu : ∀ n, (s n).Pairwise (fun a b => a.tag ≠ b.tag)) (hz : ∀ n, ∀ v ∈ s n, v.tag ≠ 0)
    (hs : s n0 = [v0]) : TInv n0 v0 (initSt s cs) := by
  refine ⟨init_inv s cs hu hz, hs, ?_, ?_, ?_, ?_, ?_, ?_⟩
  · simp [initSt]
  · simp [initSt]
  · simp [initSt]
  · simp [initSt]
  · simp [initSt]
  · intro p hp
    simp only [initSt, List.mem_map] at hp
    obtain ⟨x, _, rfl⟩ := hp
    intro _; trivial

/-- **strong transparency** -/
theorem transparent_strong (ha : ArchOK v0 h0) (s : Store) (cs : List (Nat × Q))
    (hu : ∀ n, (s n).Pairwise (fun a b => a.tag ≠ b.tag)) (hz : ∀ n, ∀ v ∈ s n, v.tag ≠ 0)
    (hs : s n0 = [v0]) (st : St) (hr : ReachFix n0 v0 (initSt s cs) st)
    (cid : Nat) (q : Q) (r : Resp) (hq : q.name = n0)
    (h : (cid, ⟨q, .done r⟩) ∈ st.clients) : r = answer v0 q := by
  have hi := reachFix_inv n0 v0 h0 ha hr (init_tinv n0 v0 s cs hu hz hs)
  have hc := hi.clients _ h hq
  simp only at hc
  rcases single_version hi.sinv cid q r h with h1 | h1 | ⟨v, hv, rfl⟩
  · exact absurd h1 hc.1
  · exact absurd h1 hc.2
  · have hv0 : v = v0 := mem_fix n0 v0 hi.store (by rw [← hq]; exact hv)
    rw [hv0]

end Pm.ServerProtocol
