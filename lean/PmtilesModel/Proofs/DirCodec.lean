import PmtilesModel.Model.DirCodec
import PmtilesModel.Spec.DirWire
import PmtilesModel.Proofs.Uvarint
namespace Pm.DirCodec
open Pm

theorem deltas_lt (last : Nat) (es : List Entry) : ∀ x ∈ deltas last es, x < 2^64 := by
  induction es generalizing last with
  | nil => simp [deltas]
  | cons e es ih =>
    intro x hx
    simp only [deltas, List.mem_cons] at hx
    rcases hx with rfl | hx
    · exact Nat.mod_lt _ (by decide)
    · exact ih _ x hx

theorem offColF_lt (p : Option Entry) (es : List Entry) (fl : List Bool) : ∀ x ∈ offColF p es fl, x < 2^64 := by
  induction es generalizing p fl with
  | nil => cases p <;> simp [offColF]
  | cons e es ih =>
    intro x hx
    cases p with
    | none =>
      simp only [offColF, List.mem_cons] at hx
      rcases hx with rfl | hx
      · exact Nat.mod_lt _ (by decide)
      · exact ih _ _ x hx
    | some p =>
      simp only [offColF, List.mem_cons] at hx
      rcases hx with rfl | hx
      · split
        · decide
        · exact Nat.mod_lt _ (by decide)
      · exact ih _ _ x hx

theorem undeltas_deltas (last : Nat) (es : List Entry) (hl : last < W) (h : ∀ e ∈ es, e.id < W) :
    undeltas last (deltas last es) = es.map (·.id) := by
  induction es generalizing last with
  | nil => rfl
  | cons e es ih =>
    have he : e.id < W := h e (by simp)
    have : (last + (e.id + W - last) % W) % W = e.id := by
      unfold W at *; omega
    simp only [deltas, undeltas, List.map_cons, this]
    rw [ih e.id he (fun x hx => h x (by simp [hx]))]

theorem unoff_offColF (p : Option Entry) (es : List Entry) (fl : List Bool) (h : ∀ e ∈ es, e.InRange)
    (hp : ∀ q, p = some q → q.off < W ∧ q.len < 2^32) :
    unoff (p.map (fun q => (q.off, q.len))) ((offColF p es fl).zip (es.map (·.len))) = es.map (·.off) := by
  induction es generalizing p fl with
  | nil => cases p <;> rfl
  | cons e es ih =>
    have he := h e (by simp)
    obtain ⟨h1, h2, h3, h4⟩ := he
    have hrec := ih (some e) fl.tail (fun x hx => h x (by simp [hx])) (by intro q hq; cases hq; exact ⟨by unfold W at *; omega, h3⟩)
    cases p with
    | none =>
      simp only [offColF, List.map_cons, List.zip_cons_cons, Option.map_none, unoff]
      have : ((e.off + 1) % W + W - 1) % W = e.off := by unfold W at *; omega
      rw [this]
      simp only [Option.map_some] at hrec
      rw [hrec]
    | some q =>
      simp only [offColF, List.map_cons, List.zip_cons_cons, Option.map_some, unoff]
      have hq := hp q rfl
      split
      · rename_i hc
        simp only [if_true]
        rw [← hc.2]
        simp only [Option.map_some] at hrec
        rw [hrec]
      · rename_i hc
        have hne : (e.off + 1) % W ≠ 0 := by unfold W at *; omega
        simp only [hne, if_false]
        have : ((e.off + 1) % W + W - 1) % W = e.off := by unfold W at *; omega
        rw [this]
        simp only [Option.map_some] at hrec
        rw [hrec]

theorem zip4_map (es : List Entry) :
    zip4 (es.map (·.id)) (es.map (·.off)) (es.map (·.len)) (es.map (·.rl)) = es := by
  induction es with
  | nil => rfl
  | cons e es ih => simp [zip4, ih]

theorem map_mod_id (es : List Entry) (f : Entry → Nat) (h : ∀ e ∈ es, f e < 2^32) :
    (es.map f).map (· % 2^32) = es.map f := by
  induction es with
  | nil => rfl
  | cons e es ih =>
    simp only [List.map_cons]
    rw [Nat.mod_eq_of_lt (h e (by simp)), ih (fun x hx => h x (by simp [hx]))]

theorem deltas_length (last : Nat) (es : List Entry) : (deltas last es).length = es.length := by
  induction es generalizing last with
  | nil => rfl
  | cons e es ih => simp [deltas, ih]

theorem offColF_length (p : Option Entry) (es : List Entry) (fl : List Bool) : (offColF p es fl).length = es.length := by
  induction es generalizing p fl with
  | nil => cases p <;> rfl
  | cons e es ih => cases p <;> simp [offColF, ih]

/-- reading the four columns of any payload of this shape -/
theorem read_columns (n : Nat) (c1 c2 c3 c4 : List Nat) (hn : n < 2^64)
    (l1 : c1.length = n) (l2 : c2.length = n) (l3 : c3.length = n) (l4 : c4.length = n)
    (b1 : ∀ x ∈ c1, x < 2^64) (b2 : ∀ x ∈ c2, x < 2^64) (b3 : ∀ x ∈ c3, x < 2^64) (b4 : ∀ x ∈ c4, x < 2^64) :
    deserialize (putUvarint n ++ putAll c1 ++ putAll c2 ++ putAll c3 ++ putAll c4) =
      some (zip4 (undeltas 0 c1) (unoff none (c4.zip (c3.map (· % 2^32)))) (c3.map (· % 2^32)) (c2.map (· % 2^32))) := by
  unfold deserialize
  simp only [List.append_assoc]
  rw [read_put _ hn]
  simp only
  have r1 := readN_putAll c1 b1; rw [l1] at r1; rw [r1]; simp only
  have r2 := readN_putAll c2 b2; rw [l2] at r2; rw [r2]; simp only
  have r3 := readN_putAll c3 b3; rw [l3] at r3; rw [r3]; simp only
  have r4 := readN_putAll c4 b4 []; rw [l4, List.append_nil] at r4; rw [r4]

theorem roundtripF (es : List Entry) (fl : List Bool) (hn : es.length < 2^64) (h : ∀ e ∈ es, e.InRange) :
    deserialize (serializeF es fl) = some es := by
  unfold serializeF
  rw [read_columns es.length _ _ _ _ hn (deltas_length 0 es) (by simp) (by simp) (offColF_length none es fl)
    (deltas_lt 0 es)
    (by intro x hx; simp at hx; obtain ⟨e, he, rfl⟩ := hx; have := (h e he).2.2.2; omega)
    (by intro x hx; simp at hx; obtain ⟨e, he, rfl⟩ := hx; have := (h e he).2.2.1; omega)
    (offColF_lt none es fl)]
  rw [undeltas_deltas 0 es (by decide) (fun e he => (h e he).1)]
  rw [map_mod_id es (·.len) (fun e he => (h e he).2.2.1), map_mod_id es (·.rl) (fun e he => (h e he).2.2.2)]
  have := unoff_offColF none es fl h (by intro q hq; cases hq)
  simp only [Option.map_none] at this
  rw [this, zip4_map]

/-! ## relation to the specification encoder / decoder -/
open Pm.DirWire

/-- no `uint64` wrap: IDs non-decreasing from `last`, every entry's data ends below 2^64 - 1 -/
def NoWrap : Nat → List Entry → Prop
  | _, [] => True
  | last, e :: es => last ≤ e.id ∧ e.off + e.len < W - 1 ∧ NoWrap e.id es

theorem specDeltas_eq (last : Nat) (es : List Entry) (h : ∀ e ∈ es, e.InRange) (hw : NoWrap last es) :
    specDeltas last es = deltas last es := by
  induction es generalizing last with
  | nil => rfl
  | cons e es ih =>
    have he := (h e (by simp)).1
    obtain ⟨h1, _, h3⟩ := hw
    simp only [specDeltas, deltas]
    rw [ih e.id (fun x hx => h x (by simp [hx])) h3]
    congr 1
    unfold W at *; omega

theorem specOffs_eq (p : Option Entry) (es : List Entry) (fl : List Bool)
    (hp : ∀ q, p = some q → q.off + q.len < W - 1) (hw : ∀ last, NoWrap last es → True)
    (hnw : ∀ e ∈ es, e.off + e.len < W - 1) :
    specOffs (p.map (fun q => q.off + q.len)) es fl = offColF p es fl := by
  induction es generalizing p fl with
  | nil => cases p <;> rfl
  | cons e es ih =>
    have he := hnw e (by simp)
    have hrec := ih (some e) fl.tail (by intro q hq; cases hq; exact he) (fun _ _ => trivial) (fun x hx => hnw x (by simp [hx]))
    simp only [Option.map_some] at hrec
    cases p with
    | none =>
      simp only [specOffs, offColF, Option.map_none]
      rw [hrec]
      have : e.off + 1 < W := by unfold W at *; omega
      simp [Nat.mod_eq_of_lt this]
    | some q =>
      have hq := hp q rfl
      simp only [specOffs, offColF, Option.map_some]
      rw [hrec]
      have h1 : e.off + 1 < W := by unfold W at *; omega
      have h2 : (q.off + q.len) % W = q.off + q.len := Nat.mod_eq_of_lt (by unfold W at *; omega)
      rw [Nat.mod_eq_of_lt h1, h2]
      congr 1
      by_cases hc : fl.headD true = true ∧ e.off = q.off + q.len
      · rw [if_pos hc, if_pos ⟨hc.1, by rw [hc.2]⟩]
      · rw [if_neg hc, if_neg (by intro hh; apply hc; exact ⟨hh.1, by have := hh.2; simp at this; omega⟩)]

theorem noWrap_all (last : Nat) (es : List Entry) (hw : NoWrap last es) : ∀ e ∈ es, e.off + e.len < W - 1 := by
  induction es generalizing last with
  | nil => intro e he; simp at he
  | cons x xs ih =>
    intro e he
    simp only [List.mem_cons] at he
    rcases he with rfl | he
    · exact hw.2.1
    · exact ih x.id hw.2.2 e he

/-- the specification encoder writes exactly what the model's writer would write for the same spelling -/
theorem specEncode_eq (es : List Entry) (fl : List Bool) (h : ∀ e ∈ es, e.InRange) (hw : NoWrap 0 es) :
    specEncode es fl = serializeF es fl := by
  unfold specEncode serializeF
  rw [specDeltas_eq 0 es h hw]
  have := specOffs_eq none es fl (by intro q hq; cases hq) (fun _ _ => trivial) (noWrap_all 0 es hw)
  simp only [Option.map_none] at this
  rw [this]

theorem assemble_cols (last : Nat) (p : Option Entry) (es : List Entry) (fl : List Bool)
    (h : ∀ e ∈ es, e.InRange) (hw : NoWrap last es) (hl : last < W)
    (hp : ∀ q, p = some q → q.off + q.len < W - 1) :
    assemble last (p.map (fun q => q.off + q.len)) (deltas last es) (es.map (·.rl)) (es.map (·.len)) (offColF p es fl) = es := by
  induction es generalizing last p fl with
  | nil => cases p <;> simp [deltas, offColF, assemble]
  | cons e es ih =>
    obtain ⟨h1, h2, h3⟩ := hw
    have he := h e (by simp)
    have hrec := ih e.id (some e) fl.tail (fun x hx => h x (by simp [hx])) h3 he.1 (by intro q hq; cases hq; exact h2)
    simp only [Option.map_some] at hrec
    have hidlt : e.id < W := he.1
    have hid : last + (e.id + W - last) % W = e.id := by unfold W at *; omega
    have h1' : (e.off + 1) % W = e.off + 1 := Nat.mod_eq_of_lt (by unfold W at *; omega)
    cases p with
    | none =>
      simp only [deltas, offColF, List.map_cons, assemble, Option.map_none, hid, h1', Nat.add_sub_cancel]
      rw [hrec]
    | some q =>
      have hq := hp q rfl
      have h2' : (q.off + q.len) % W = q.off + q.len := Nat.mod_eq_of_lt (by unfold W at *; omega)
      simp only [deltas, offColF, List.map_cons, assemble, Option.map_some, hid, h1', h2']
      by_cases hc : fl.headD true = true ∧ e.off = q.off + q.len
      · simp only [if_pos hc]
        rw [← hc.2, hrec]
      · simp only [if_neg hc, Nat.add_sub_cancel]
        rw [hrec]

theorem specDecode_serializeF (es : List Entry) (fl : List Bool) (hn : es.length < 2^64)
    (h : ∀ e ∈ es, e.InRange) (hw : NoWrap 0 es) :
    specDecode (serializeF es fl) = some es := by
  unfold specDecode serializeF
  simp only [List.append_assoc]
  rw [read_put _ hn]
  simp only
  have r1 := readN_putAll (deltas 0 es) (deltas_lt 0 es); rw [deltas_length] at r1; rw [r1]; simp only
  have r2 := readN_putAll (es.map (·.rl)) (by intro x hx; simp at hx; obtain ⟨e, he, rfl⟩ := hx; have := (h e he).2.2.2; omega)
  rw [List.length_map] at r2; rw [r2]; simp only
  have r3 := readN_putAll (es.map (·.len)) (by intro x hx; simp at hx; obtain ⟨e, he, rfl⟩ := hx; have := (h e he).2.2.1; omega)
  rw [List.length_map] at r3; rw [r3]; simp only
  have r4 := readN_putAll (offColF none es fl) (offColF_lt none es fl) []
  rw [offColF_length, List.append_nil] at r4; rw [r4]; simp only
  have := assemble_cols 0 none es fl h hw (by decide) (by intro q hq; cases hq)
  simp only [Option.map_none] at this
  rw [this]

end Pm.DirCodec
