import PmtilesModel.Model.TileId
/-! Proofs for C01: Hilbert spec facts and Go-model = spec. -/
namespace Pm.TileId
open Pm.Hilbert


theorem H_lt (k d : Nat) (hd : d < 4^k) : (H k d).1 < 2^k ∧ (H k d).2 < 2^k := by
  induction k generalizing d with
  | zero => simp [H]
  | succ k ih =>
    have h4 : 0 < 4^k := Nat.pow_pos (by decide)
    have hq : d / 4^k < 4 := by
      rw [Nat.div_lt_iff_lt_mul h4]; rw [Nat.pow_succ] at hd; omega
    have hr := ih (d % 4^k) (Nat.mod_lt _ h4)
    have h2 : 2^(k+1) = 2 * 2^k := by rw [Nat.pow_succ]; omega
    have hp : 0 < 2^k := Nat.pow_pos (by decide)
    simp only [H]
    generalize H k (d % 4^k) = p at hr
    obtain ⟨p1, p2⟩ := p
    simp only at hr
    generalize d / 4^k = q at hq
    have : q = 0 ∨ q = 1 ∨ q = 2 ∨ q = 3 := by omega
    rcases this with h | h | h | h <;> subst h <;> simp only [place] <;> omega

theorem H_first (k : Nat) : H k 0 = (0,0) := by
  induction k with
  | zero => rfl
  | succ k ih =>
    have h4 : 0 < 4^k := Nat.pow_pos (by decide)
    simp [H, Nat.zero_div, ih, place]

theorem H_last (k : Nat) : H k (4^k - 1) = (2^k - 1, 0) := by
  induction k with
  | zero => rfl
  | succ k ih =>
    have h4 : 0 < 4^k := Nat.pow_pos (by decide)
    have hp : 0 < 2^k := Nat.pow_pos (by decide)
    have e : 4^(k+1) - 1 = 3 * 4^k + (4^k - 1) := by rw [Nat.pow_succ]; omega
    have hq : (4^(k+1) - 1) / 4^k = 3 := by
      rw [e]; rw [Nat.mul_comm, Nat.mul_add_div h4]; rw [Nat.div_eq_of_lt (by omega)]
    have hr : (4^(k+1) - 1) % 4^k = 4^k - 1 := by
      rw [e]; rw [Nat.mul_comm, Nat.mul_add_mod]; exact Nat.mod_eq_of_lt (by omega)
    simp only [H, hq, hr, ih, place]
    have h2 : 2^(k+1) = 2 * 2^k := by rw [Nat.pow_succ]; omega
    rw [h2]; congr 1 <;> omega

theorem H_succ (k q r : Nat) (hr : r < 4^k) : H (k+1) (q * 4^k + r) = place (2^k) q (H k r) := by
  have h4 : 0 < 4^k := Nat.pow_pos (by decide)
  simp only [H]
  rw [Nat.mul_comm q, Nat.mul_add_div h4, Nat.mul_add_mod, Nat.div_eq_of_lt hr, Nat.mod_eq_of_lt hr, Nat.add_zero]

theorem decomp (k d : Nat) (hd : d < 4^(k+1)) : ∃ q r, q < 4 ∧ r < 4^k ∧ d = q * 4^k + r := by
  have h4 : 0 < 4^k := Nat.pow_pos (by decide)
  refine ⟨d / 4^k, d % 4^k, ?_, Nat.mod_lt _ h4, ?_⟩
  · rw [Nat.div_lt_iff_lt_mul h4]; rw [Nat.pow_succ] at hd; omega
  · have := Nat.div_add_mod d (4^k); rw [Nat.mul_comm] at this; omega

theorem H_adj (k d : Nat) (hd : d + 1 < 4^k) : dist1 (H k d) (H k (d+1)) := by
  induction k generalizing d with
  | zero => simp at hd
  | succ k ih =>
    have hp : 0 < 2^k := Nat.pow_pos (by decide)
    have hpow : 4^(k+1) = 4 * 4^k := by rw [Nat.pow_succ]; omega
    obtain ⟨q, r, hq, hr, rfl⟩ := decomp k d (by omega)
    by_cases hc : r + 1 < 4^k
    · have e : q * 4^k + r + 1 = q * 4^k + (r+1) := by omega
      rw [e, H_succ k q r hr, H_succ k q (r+1) hc]
      have hlt := H_lt k r hr
      have hlt' := H_lt k (r+1) hc
      have := ih r hc
      generalize H k r = p at this hlt
      generalize H k (r + 1) = p' at this hlt'
      obtain ⟨a, b⟩ := p; obtain ⟨a', b'⟩ := p'
      simp only [dist1] at this ⊢
      simp only at hlt hlt'
      have : q = 0 ∨ q = 1 ∨ q = 2 ∨ q = 3 := by omega
      rcases this with h | h | h | h <;> subst h <;> simp only [place] <;> omega
    · have hr' : r = 4^k - 1 := by omega
      have h4 : 0 < 4^k := Nat.pow_pos (by decide)
      have hq3 : q < 3 := by
        rcases Nat.lt_or_ge q 3 with h | h
        · exact h
        · exfalso
          have : 3 * 4^k ≤ q * 4^k := Nat.mul_le_mul_right _ h
          omega
      have e : q * 4^k + r + 1 = (q+1) * 4^k + 0 := by rw [Nat.add_mul]; omega
      rw [e, H_succ k q r hr, H_succ k (q+1) 0 h4, hr', H_last, H_first]
      have : q = 0 ∨ q = 1 ∨ q = 2 := by omega
      simp only [dist1]
      rcases this with h | h | h <;> subst h <;> simp only [place]
      all_goals (try simp only [true_and])
      all_goals omega


theorem G_lt (k : Nat) (p : Nat × Nat) : G k p < 4^k := by
  induction k generalizing p with
  | zero => simp [G]
  | succ k ih =>
    simp only [G]
    have h := ih (rot (2^k) (p.1 / 2^k % 2) (p.2 / 2^k % 2) (p.1 % 2^k, p.2 % 2^k))
    have hd : digit (p.1 / 2^k % 2) (p.2 / 2^k % 2) ≤ 3 := by
      have h1 : p.1 / 2^k % 2 < 2 := Nat.mod_lt _ (by decide)
      have h2 : p.2 / 2^k % 2 < 2 := Nat.mod_lt _ (by decide)
      generalize p.1 / 2^k % 2 = a at h1
      generalize p.2 / 2^k % 2 = b at h2
      have : a = 0 ∨ a = 1 := by omega
      have : b = 0 ∨ b = 1 := by omega
      rcases ‹a = 0 ∨ a = 1› with rfl | rfl <;> rcases ‹b = 0 ∨ b = 1› with rfl | rfl <;> decide
    have hpow : 4^(k+1) = 4 * 4^k := by rw [Nat.pow_succ]; omega
    have : digit (p.1 / 2^k % 2) (p.2 / 2^k % 2) * 4^k ≤ 3 * 4^k := Nat.mul_le_mul_right _ hd
    omega

theorem G_H (k d : Nat) (hd : d < 4^k) : G k (H k d) = d := by
  induction k generalizing d with
  | zero => simp at hd; subst hd; rfl
  | succ k ih =>
    obtain ⟨q, r, hq, hr, rfl⟩ := decomp k d hd
    rw [H_succ k q r hr]
    have hlt := H_lt k r hr
    have ihr := ih r hr
    generalize H k r = p at hlt ihr
    obtain ⟨a, b⟩ := p
    simp only at hlt
    have hp : 0 < 2^k := Nat.pow_pos (by decide)
    have q4 : q = 0 ∨ q = 1 ∨ q = 2 ∨ q = 3 := by omega
    simp only [G]
    rcases q4 with rfl | rfl | rfl | rfl <;> simp only [place]
    · -- (b, a)
      have e1 : b / 2^k = 0 := Nat.div_eq_of_lt hlt.2
      have e2 : a / 2^k = 0 := Nat.div_eq_of_lt hlt.1
      simp [e1, e2, Nat.mod_eq_of_lt hlt.1, Nat.mod_eq_of_lt hlt.2, rot, digit, ihr]
    · have e1 : a / 2^k = 0 := Nat.div_eq_of_lt hlt.1
      have e2 : (b + 2^k) / 2^k = 1 := by
        rw [Nat.add_div_right _ hp, Nat.div_eq_of_lt hlt.2]
      have e3 : (b + 2^k) % 2^k = b := by rw [Nat.add_mod_right]; exact Nat.mod_eq_of_lt hlt.2
      simp [e1, e2, e3, Nat.mod_eq_of_lt hlt.1, rot, digit, ihr]
    · have e1 : (a + 2^k) / 2^k = 1 := by
        rw [Nat.add_div_right _ hp, Nat.div_eq_of_lt hlt.1]
      have e2 : (b + 2^k) / 2^k = 1 := by
        rw [Nat.add_div_right _ hp, Nat.div_eq_of_lt hlt.2]
      have e3 : (b + 2^k) % 2^k = b := by rw [Nat.add_mod_right]; exact Nat.mod_eq_of_lt hlt.2
      have e4 : (a + 2^k) % 2^k = a := by rw [Nat.add_mod_right]; exact Nat.mod_eq_of_lt hlt.1
      simp [e1, e2, e3, e4, rot, digit, ihr]
    · have ex : 2 * 2^k - 1 - b = (2^k - 1 - b) + 2^k := by omega
      have hx : 2^k - 1 - b < 2^k := by omega
      have hy : 2^k - 1 - a < 2^k := by omega
      have e1 : (2 * 2^k - 1 - b) / 2^k = 1 := by
        rw [ex, Nat.add_div_right _ hp, Nat.div_eq_of_lt hx]
      have e2 : (2^k - 1 - a) / 2^k = 0 := Nat.div_eq_of_lt hy
      have e3 : (2 * 2^k - 1 - b) % 2^k = 2^k - 1 - b := by
        rw [ex, Nat.add_mod_right]; exact Nat.mod_eq_of_lt hx
      have e4 : (2^k - 1 - a) % 2^k = 2^k - 1 - a := Nat.mod_eq_of_lt hy
      have e5 : 2^k - 1 - (2^k - 1 - a) = a := by omega
      have e6 : 2^k - 1 - (2^k - 1 - b) = b := by omega
      simp [e1, e2, e3, e4, e5, e6, rot, digit, ihr]

theorem bit_decomp (x k : Nat) (hx : x < 2^(k+1)) :
    x = (x / 2^k % 2) * 2^k + x % 2^k ∧ x / 2^k % 2 = x / 2^k ∧ x / 2^k < 2 := by
  have hp : 0 < 2^k := Nat.pow_pos (by decide)
  have h2 : 2^(k+1) = 2 * 2^k := by rw [Nat.pow_succ]; omega
  have hq : x / 2^k < 2 := by rw [Nat.div_lt_iff_lt_mul hp]; omega
  have hm : x / 2^k % 2 = x / 2^k := Nat.mod_eq_of_lt hq
  refine ⟨?_, hm, hq⟩
  rw [hm]
  have := Nat.div_add_mod x (2^k)
  rw [Nat.mul_comm] at this; omega

theorem H_G (k : Nat) (p : Nat × Nat) (h1 : p.1 < 2^k) (h2 : p.2 < 2^k) : H k (G k p) = p := by
  induction k generalizing p with
  | zero =>
    obtain ⟨a, b⟩ := p
    simp at h1 h2; subst h1; subst h2; rfl
  | succ k ih =>
    obtain ⟨x, y⟩ := p
    simp only at h1 h2
    have hp : 0 < 2^k := Nat.pow_pos (by decide)
    obtain ⟨ex, emx, hqx⟩ := bit_decomp x k h1
    obtain ⟨ey, emy, hqy⟩ := bit_decomp y k h2
    have hxm : x % 2^k < 2^k := Nat.mod_lt _ hp
    have hym : y % 2^k < 2^k := Nat.mod_lt _ hp
    simp only [G]
    rw [emx, emy]
    rw [emx] at ex; rw [emy] at ey
    generalize x / 2^k = rx at *
    generalize y / 2^k = ry at *
    generalize x % 2^k = a at *
    generalize y % 2^k = b at *
    have hrx : rx = 0 ∨ rx = 1 := by omega
    have hry : ry = 0 ∨ ry = 1 := by omega
    rcases hrx with rfl | rfl <;> rcases hry with rfl | rfl
    · have : digit 0 0 = 0 := by decide
      rw [this, H_succ k 0 _ (G_lt k _)]
      simp [rot]
      rw [ih (b, a) hym hxm]
      simp [place]; omega
    · have : digit 0 1 = 1 := by decide
      rw [this, H_succ k 1 _ (G_lt k _)]
      simp [rot]
      rw [ih (a, b) hxm hym]
      simp [place]; omega
    · have : digit 1 0 = 3 := by decide
      rw [this, H_succ k 3 _ (G_lt k _)]
      simp [rot]
      rw [ih (2^k - 1 - b, 2^k - 1 - a) (by simp; omega) (by simp; omega)]
      simp [place]; omega
    · have : digit 1 1 = 2 := by decide
      rw [this, H_succ k 2 _ (G_lt k _)]
      simp [rot]
      rw [ih (a, b) hxm hym]
      simp [place]; omega

/-- hierarchy: the cell of index d at level k+1 lies in the cell of index d/4 at level k -/
theorem H_parent (k d : Nat) (hd : d < 4^(k+1)) :
    ((H (k+1) d).1 / 2, (H (k+1) d).2 / 2) = H k (d / 4) := by
  induction k generalizing d with
  | zero =>
    have : d / 4 = 0 := by omega
    have hd' : d = 0 ∨ d = 1 ∨ d = 2 ∨ d = 3 := by omega
    rcases hd' with rfl | rfl | rfl | rfl <;> decide
  | succ k ih =>
    obtain ⟨q, r, hq, hr, rfl⟩ := decomp (k+1) d hd
    have hpow : 4^(k+1) = 4 * 4^k := by rw [Nat.pow_succ]; omega
    have h4 : 0 < 4^k := Nat.pow_pos (by decide)
    have hp : 0 < 2^k := Nat.pow_pos (by decide)
    have h2 : 2^(k+1) = 2 * 2^k := by rw [Nat.pow_succ]; omega
    have hdiv : (q * 4^(k+1) + r) / 4 = q * 4^k + r / 4 := by
      rw [hpow, Nat.mul_left_comm, Nat.mul_add_div (by decide : 0 < 4)]
    have hr4 : r / 4 < 4^k := by omega
    rw [hdiv, H_succ (k+1) q r hr, H_succ k q (r/4) hr4, ← ih r hr]
    have hlt := H_lt (k+1) r hr
    generalize H (k+1) r = p at hlt
    obtain ⟨a, b⟩ := p
    simp only at hlt
    have q4 : q = 0 ∨ q = 1 ∨ q = 2 ∨ q = 3 := by omega
    rcases q4 with rfl | rfl | rfl | rfl <;> simp only [place, h2] <;> congr 1 <;> omega


theorem two_pow_and (k x : Nat) : 2^k &&& x = (x / 2^k % 2) * 2^k := by
  apply Nat.eq_of_testBit_eq
  intro i
  rw [Nat.testBit_and, Nat.testBit_two_pow]
  have hb : x / 2^k % 2 = 0 ∨ x / 2^k % 2 = 1 := by omega
  rcases hb with h | h
  · rw [h, Nat.zero_mul, Nat.zero_testBit]
    by_cases e : k = i
    · subst e
      have : x.testBit k = false := by
        rw [Nat.testBit_eq_decide_div_mod_eq]; simp [h]
      simp [this]
    · simp [e]
  · rw [h, Nat.one_mul, Nat.testBit_two_pow]
    by_cases e : k = i
    · subst e
      have : x.testBit k = true := by
        rw [Nat.testBit_eq_decide_div_mod_eq]; simp [h]
      simp [this]
    · simp [e]

theorem digit_shift (k bx b_y : Nat) (hk : k ≤ 30) (hbx : bx < 2) (hby : b_y < 2) :
    ((((3 * (bx * 2^k)) % M32) ^^^ (b_y * 2^k)) <<< k) = digit bx b_y * 4^k := by
  have h4 : (4:Nat)^k = 2^k * 2^k := by
    rw [show (4:Nat) = 2*2 from rfl, Nat.mul_pow]
  have hlt : 3 * (bx * 2^k) < M32 := by
    have : 2^k ≤ 2^30 := Nat.pow_le_pow_right (by decide) hk
    have : bx * 2^k ≤ 1 * 2^k := Nat.mul_le_mul_right _ (by omega)
    unfold M32; omega
  rw [Nat.mod_eq_of_lt hlt]
  have e1 : 3 * (bx * 2^k) = (3 * bx) <<< k := by rw [Nat.shiftLeft_eq, Nat.mul_assoc]
  have e2 : b_y * 2^k = b_y <<< k := by rw [Nat.shiftLeft_eq]
  rw [e1, e2, ← Nat.shiftLeft_xor_distrib, Nat.shiftLeft_eq, Nat.shiftLeft_eq, h4, Nat.mul_assoc]
  rfl

theorem flip_mod (k x : Nat) (hk : k ≤ 32) (hx : x < M32) :
    ((2^k - 1 + M32 - x) % M32) % 2^k = 2^k - 1 - x % 2^k := by
  have hp : 0 < 2^k := Nat.pow_pos (by decide)
  have hdvd : 2^k ∣ M32 := by unfold M32; exact Nat.pow_dvd_pow 2 hk
  rw [Nat.mod_mod_of_dvd _ hdvd]
  obtain ⟨c, hc⟩ := hdvd
  have hxd := Nat.div_add_mod x (2^k)
  have hm : x % 2^k < 2^k := Nat.mod_lt _ hp
  -- x = 2^k * (x / 2^k) + x % 2^k, and x / 2^k < c
  have hq : x / 2^k < c := by
    rw [Nat.div_lt_iff_lt_mul hp]; rw [hc] at hx; rw [Nat.mul_comm]; exact hx
  have : 2^k - 1 + M32 - x = (2^k - 1 - x % 2^k) + 2^k * (c - x / 2^k) := by
    rw [Nat.mul_sub, ← hc]
    have : 2^k * (x / 2^k) ≤ x := Nat.mul_div_le x (2^k)
    have : 2^k * (x / 2^k) + 2^k ≤ 2^k * c := by
      have := Nat.mul_le_mul_left (2^k) (Nat.succ_le_of_lt hq)
      rw [Nat.mul_succ] at this; exact this
    omega
  rw [this, Nat.add_mul_mod_self_left]
  exact Nat.mod_eq_of_lt (by omega)

theorem goZxyLoop_spec (k x y acc : Nat) (hk : k ≤ 31) (hx : x < M32) (hy : y < M32)
    (hacc : acc + 4^k ≤ 2^64) :
    goZxyLoop k x y acc = acc + G k (x % 2^k, y % 2^k) := by
  induction k generalizing x y acc with
  | zero => simp [goZxyLoop, G]
  | succ k ih =>
    have hp : 0 < 2^k := Nat.pow_pos (by decide)
    have h4 : 0 < 4^k := Nat.pow_pos (by decide)
    have hpow : 4^(k+1) = 4 * 4^k := by rw [Nat.pow_succ]; omega
    have h2 : 2^(k+1) = 2 * 2^k := by rw [Nat.pow_succ]; omega
    simp only [goZxyLoop, G]
    rw [two_pow_and k x, two_pow_and k y]
    have hbx : x / 2^k % 2 < 2 := Nat.mod_lt _ (by decide)
    have hby : y / 2^k % 2 < 2 := Nat.mod_lt _ (by decide)
    rw [digit_shift k _ _ (by omega) hbx hby]
    -- bits of the reduced coordinates
    have ebx : x % 2^(k+1) / 2^k % 2 = x / 2^k % 2 := by
      rw [Nat.pow_succ, Nat.mod_mul_right_div_self, Nat.mod_mod]
    have eby : y % 2^(k+1) / 2^k % 2 = y / 2^k % 2 := by
      rw [Nat.pow_succ, Nat.mod_mul_right_div_self, Nat.mod_mod]
    have emx : x % 2^(k+1) % 2^k = x % 2^k := by
      rw [h2]; exact Nat.mod_mod_of_dvd _ ⟨2, by omega⟩
    have emy : y % 2^(k+1) % 2^k = y % 2^k := by
      rw [h2]; exact Nat.mod_mod_of_dvd _ ⟨2, by omega⟩
    simp only [ebx, eby, emx, emy]
    have hd : digit (x / 2^k % 2) (y / 2^k % 2) ≤ 3 := by
      generalize x / 2^k % 2 = a at hbx
      generalize y / 2^k % 2 = b at hby
      have ha : a = 0 ∨ a = 1 := by omega
      have hb : b = 0 ∨ b = 1 := by omega
      rcases ha with rfl | rfl <;> rcases hb with rfl | rfl <;> decide
    have hdm : digit (x / 2^k % 2) (y / 2^k % 2) * 4^k ≤ 3 * 4^k := Nat.mul_le_mul_right _ hd
    have hno : acc + digit (x / 2^k % 2) (y / 2^k % 2) * 4^k < 2^64 := by omega
    rw [Nat.mod_eq_of_lt hno]
    -- rotated coordinates
    have hxm : x % 2^k < 2^k := Nat.mod_lt _ hp
    have hym : y % 2^k < 2^k := Nat.mod_lt _ hp
    have hrot : ∀ (p : Nat × Nat), p = goRotate (2^k) x y (x / 2^k % 2 * 2^k) (y / 2^k % 2 * 2^k) →
        p.1 < M32 ∧ p.2 < M32 ∧
        (p.1 % 2^k, p.2 % 2^k) = rot (2^k) (x / 2^k % 2) (y / 2^k % 2) (x % 2^k, y % 2^k) := by
      intro p hpdef
      have hM : 0 < M32 := by unfold M32; exact Nat.pow_pos (by decide)
      have ha : x / 2^k % 2 = 0 ∨ x / 2^k % 2 = 1 := by omega
      have hb : y / 2^k % 2 = 0 ∨ y / 2^k % 2 = 1 := by omega
      rcases ha with ha | ha <;> rcases hb with hb | hb <;>
        simp only [ha, hb, goRotate, rot, Nat.zero_mul, Nat.one_mul] at hpdef ⊢
      · subst hpdef; simp [hx, hy]
      · subst hpdef
        have : ¬ (2^k = 0) := by omega
        simp [this, hx, hy]
      · subst hpdef
        have : ¬ (2^k = 0) := by omega
        simp only [this, if_true, if_false, ne_eq, not_false_eq_true, not_true_eq_false]
        refine ⟨Nat.mod_lt _ hM, Nat.mod_lt _ hM, ?_⟩
        rw [flip_mod k y (by omega) hy, flip_mod k x (by omega) hx]
      · subst hpdef
        have : ¬ (2^k = 0) := by omega
        simp [this, hx, hy]
    obtain ⟨hp1, hp2, hpr⟩ := hrot _ rfl
    rw [ih _ _ _ (by omega) hp1 hp2 (by omega)]
    rw [hpr, Nat.add_assoc]


theorem and_one (x : Nat) : 1 &&& x = x % 2 := by
  rw [Nat.and_comm]; exact Nat.and_one_is_mod x

theorem xor_mod_two (a b : Nat) : (a ^^^ b) % 2 = (a % 2 + b % 2) % 2 := by
  have h := Nat.testBit_xor a b 0
  simp only [Nat.testBit_zero] at h
  have ha : a % 2 = 0 ∨ a % 2 = 1 := by omega
  have hb : b % 2 = 0 ∨ b % 2 = 1 := by omega
  have hc : (a ^^^ b) % 2 = 0 ∨ (a ^^^ b) % 2 = 1 := by omega
  rcases ha with ha | ha <;> rcases hb with hb | hb <;> rcases hc with hc | hc <;> simp [ha, hb, hc] at h ⊢

theorem digit_bits (t : Nat) :
    let rx := 1 &&& ((t % M32) >>> 1)
    let ry := 1 &&& ((t % M32) ^^^ rx)
    rx = t / 2 % 2 ∧ ry = (t % 2 + t / 2 % 2) % 2 ∧ t % 4 = digit rx ry := by
  simp only [and_one, Nat.shiftRight_eq_div_pow]
  have h1 : t % M32 / 2 ^ 1 % 2 = t / 2 % 2 := by unfold M32; omega
  rw [h1]
  have hb : t / 2 % 2 = 0 ∨ t / 2 % 2 = 1 := by omega
  have hx : (t % M32 ^^^ (t / 2 % 2)) % 2 = (t % 2 + t / 2 % 2) % 2 := by
    rw [xor_mod_two]
    have : t % M32 % 2 = t % 2 := by unfold M32; omega
    rw [this, Nat.mod_mod]
  refine ⟨rfl, hx, ?_⟩
  rw [hx]
  have h0 : t % 2 = 0 ∨ t % 2 = 1 := by omega
  have h4 : t % 4 = t % 2 + 2 * (t / 2 % 2) := by omega
  rcases hb with hb | hb <;> rcases h0 with h0 | h0 <;> rw [h4, hb, h0] <;> decide

theorem goRotate_small (s a b rx ry : Nat) (hs : 0 < s) (hsm : s ≤ M32) (ha : a < s) (hb : b < s)
    (hrx : rx < 2) :
    goRotate s a b rx ry = rot s rx ry (a, b) := by
  unfold goRotate rot
  have hrx' : rx = 0 ∨ rx = 1 := by omega
  by_cases hry : ry = 0
  · rcases hrx' with rfl | rfl
    · simp [hry]
    · simp only [hry, if_true, ne_eq, Nat.succ_ne_zero, not_false_eq_true]
      have e1 : (s - 1 + M32 - b) % M32 = s - 1 - b := by
        have : s - 1 + M32 - b = (s - 1 - b) + M32 := by omega
        rw [this, Nat.add_mod_right]; exact Nat.mod_eq_of_lt (by omega)
      have e2 : (s - 1 + M32 - a) % M32 = s - 1 - a := by
        have : s - 1 + M32 - a = (s - 1 - a) + M32 := by omega
        rw [this, Nat.add_mod_right]; exact Nat.mod_eq_of_lt (by omega)
      simp [e1, e2]
  · simp [hry]

/-- the ascending loop computes H: invariant (tx,ty) = H a (t_orig mod 4^a) -/
theorem goIdLoop_spec (n a t0 : Nat) (ha : a + n ≤ 31) :
    goIdLoop n a (t0 / 4^a) (H a (t0 % 4^a)).1 (H a (t0 % 4^a)).2 = H (a+n) (t0 % 4^(a+n)) := by
  induction n generalizing a with
  | zero => simp [goIdLoop]
  | succ n ih =>
    have h4 : 0 < 4^a := Nat.pow_pos (by decide)
    have hp : 0 < 2^a := Nat.pow_pos (by decide)
    have hlt := H_lt a (t0 % 4^a) (Nat.mod_lt _ h4)
    simp only [goIdLoop]
    obtain ⟨hrx, hry, hdig⟩ := digit_bits (t0 / 4^a)
    generalize hrxd : 1 &&& ((t0 / 4^a % M32) >>> 1) = rx at *
    generalize hryd : 1 &&& ((t0 / 4^a % M32) ^^^ rx) = ry at *
    have hrx2 : rx < 2 := by omega
    have hry2 : ry < 2 := by omega
    have hsm : 2^a ≤ M32 := by unfold M32; exact Nat.pow_le_pow_right (by decide) (by omega)
    rw [goRotate_small (2^a) _ _ rx ry hp hsm hlt.1 hlt.2 hrx2]
    -- next state equals H (a+1) (t0 % 4^(a+1))
    have hnext : t0 % 4^(a+1) = (t0 / 4^a % 4) * 4^a + t0 % 4^a := by
      rw [Nat.pow_succ, Nat.mod_mul, Nat.mul_comm]; omega
    have hH : H (a+1) (t0 % 4^(a+1)) = place (2^a) (digit rx ry) (H a (t0 % 4^a)) := by
      rw [hnext, H_succ a _ _ (Nat.mod_lt _ h4), hdig]
    have hshift : (t0 / 4^a) >>> 2 = t0 / 4^(a+1) := by
      rw [Nat.shiftRight_eq_div_pow, Nat.div_div_eq_div_mul, Nat.pow_succ]; rfl
    have hstep : ((rot (2^a) rx ry (H a (t0 % 4^a))).1 + rx <<< a) % M32 = (H (a+1) (t0 % 4^(a+1))).1 ∧
                 ((rot (2^a) rx ry (H a (t0 % 4^a))).2 + ry <<< a) % M32 = (H (a+1) (t0 % 4^(a+1))).2 := by
      rw [hH]
      generalize H a (t0 % 4^a) = p at hlt
      obtain ⟨u, v⟩ := p
      simp only at hlt
      have h31 : 2 * 2^a ≤ M32 := by
        have : 2^(a+1) ≤ 2^32 := Nat.pow_le_pow_right (by decide) (by omega)
        rw [Nat.pow_succ] at this; unfold M32; omega
      have hrx' : rx = 0 ∨ rx = 1 := by omega
      have hry' : ry = 0 ∨ ry = 1 := by omega
      simp only [Nat.shiftLeft_eq]
      rcases hrx' with rfl | rfl <;> rcases hry' with rfl | rfl
      · have : digit 0 0 = 0 := by decide
        simp only [this, rot, place]
        try simp
        constructor <;> (apply Nat.mod_eq_of_lt; omega)
      · have : digit 0 1 = 1 := by decide
        simp only [this, rot, place]
        try simp
        constructor <;> (apply Nat.mod_eq_of_lt; omega)
      · have : digit 1 0 = 3 := by decide
        simp only [this, rot, place]
        try simp
        constructor
        · rw [Nat.mod_eq_of_lt (by omega)]; omega
        · apply Nat.mod_eq_of_lt; omega
      · have : digit 1 1 = 2 := by decide
        simp only [this, rot, place]
        try simp
        constructor <;> (apply Nat.mod_eq_of_lt; omega)
    rw [hshift]
    have heta : ((H a (t0 % 4^a)).fst, (H a (t0 % 4^a)).snd) = H a (t0 % 4^a) := rfl
    rw [heta, hstep.1, hstep.2]
    have := ih (a+1) (by omega)
    rw [show a + 1 + n = a + (n+1) by omega] at this
    exact this

/-! ## top level: base, zoom from bit length, the three exported functions -/

theorem three_base (z : Nat) : 3 * base z + 1 = 4^z := by
  unfold base
  have h : 4^z % 3 = 1 := by
    induction z with
    | zero => rfl
    | succ z ih => rw [Nat.pow_succ, Nat.mul_mod, ih]
  have hp : 0 < 4^z := Nat.pow_pos (by decide)
  omega

theorem base_succ (z : Nat) : base (z+1) = base z + 4^z := by
  have h1 := three_base z
  have h2 := three_base (z+1)
  rw [Nat.pow_succ] at h2
  omega


theorem goZoom_spec (z i : Nat) (h1 : base z ≤ i) (h2 : i < base (z+1)) : goZoom i = z := by
  unfold goZoom
  have hb1 := three_base z
  have hb2 := three_base (z+1)
  have hlo : 2^(2*z) ≤ 3*i+1 := by
    rw [Nat.pow_mul]; show 4^z ≤ _; omega
  have hhi : 3*i+1 < 2^(2*z+2) := by
    rw [show 2*z+2 = 2*(z+1) by omega, Nat.pow_mul]; show _ < 4^(z+1); omega
  have hne : 3*i+1 ≠ 0 := by omega
  have l1 : 2*z ≤ (3*i+1).log2 := (Nat.le_log2 hne).mpr hlo
  have l2 : (3*i+1).log2 < 2*z+2 := (Nat.log2_lt hne).mpr hhi
  omega


theorem zxyToID_spec (z x y : Nat) (hz : z ≤ 31) (hx : x < 2^z) (hy : y < 2^z) :
    goZxyToID z x y = base z + G z (x, y) := by
  unfold goZxyToID
  have hxm : x < M32 := by
    have : 2^z ≤ 2^31 := Nat.pow_le_pow_right (by decide) hz
    unfold M32; omega
  have hym : y < M32 := by
    have : 2^z ≤ 2^31 := Nat.pow_le_pow_right (by decide) hz
    unfold M32; omega
  have hacc : base z + 4^z ≤ 2^64 := by
    have := three_base z
    have : 4^z ≤ 4^31 := Nat.pow_le_pow_right (by decide) hz
    have e : (4:Nat)^31 = 2^62 := by decide
    have e2 : (2:Nat)^64 = 4 * 2^62 := by decide
    omega
  rw [goZxyLoop_spec z x y (base z) hz hxm hym hacc, Nat.mod_eq_of_lt hx, Nat.mod_eq_of_lt hy]

theorem idToZxy_spec (z i : Nat) (hz : z ≤ 31) (h1 : base z ≤ i) (h2 : i < base (z+1)) :
    goIDToZxy i = (z, (H z (i - base z)).1, (H z (i - base z)).2) := by
  unfold goIDToZxy
  simp only [goZoom_spec z i h1 h2]
  have ht : i - base z < 4^z := by rw [base_succ] at h2; omega
  have := goIdLoop_spec z 0 (i - base z) (by omega)
  simp only [Nat.pow_zero, Nat.div_one, Nat.mod_one, Nat.zero_add] at this
  have hH0 : H 0 0 = (0, 0) := rfl
  rw [hH0] at this
  rw [this, Nat.mod_eq_of_lt ht]

theorem roundtrip_zxy (z x y : Nat) (hz : z ≤ 31) (hx : x < 2^z) (hy : y < 2^z) :
    goIDToZxy (goZxyToID z x y) = (z, x, y) := by
  rw [zxyToID_spec z x y hz hx hy]
  have hg := G_lt z (x, y)
  rw [idToZxy_spec z _ hz (by omega) (by rw [base_succ]; omega)]
  rw [Nat.add_sub_cancel_left, H_G z (x, y) hx hy]

theorem roundtrip_id (z i : Nat) (hz : z ≤ 31) (h1 : base z ≤ i) (h2 : i < base (z+1)) :
    let r := goIDToZxy i
    r.1 = z ∧ r.2.1 < 2^z ∧ r.2.2 < 2^z ∧ goZxyToID r.1 r.2.1 r.2.2 = i := by
  have ht : i - base z < 4^z := by rw [base_succ] at h2; omega
  have hlt := H_lt z (i - base z) ht
  intro r
  have hr : r = (z, (H z (i - base z)).1, (H z (i - base z)).2) := idToZxy_spec z i hz h1 h2
  rw [hr]
  refine ⟨rfl, hlt.1, hlt.2, ?_⟩
  show goZxyToID z (H z (i - base z)).1 (H z (i - base z)).2 = i
  rw [zxyToID_spec z _ _ hz hlt.1 hlt.2]
  have : ((H z (i - base z)).1, (H z (i - base z)).2) = H z (i - base z) := rfl
  rw [this, G_H z _ ht]; omega

theorem adjacent (z i : Nat) (hz : z ≤ 31) (h1 : base z ≤ i) (h2 : i + 1 < base (z+1)) :
    dist1 ((goIDToZxy i).2.1, (goIDToZxy i).2.2) ((goIDToZxy (i+1)).2.1, (goIDToZxy (i+1)).2.2) := by
  rw [idToZxy_spec z i hz h1 (by omega), idToZxy_spec z (i+1) hz (by omega) h2]
  have ht : i - base z + 1 < 4^z := by rw [base_succ] at h2; omega
  have := H_adj z (i - base z) ht
  rw [show i + 1 - base z = i - base z + 1 by omega]
  exact this

theorem parent (z x y : Nat) (hz1 : 1 ≤ z) (hz : z ≤ 31) (hx : x < 2^z) (hy : y < 2^z) :
    goParentID (goZxyToID z x y) = goZxyToID (z-1) (x/2) (y/2) := by
  obtain ⟨k, rfl⟩ : ∃ k, z = k + 1 := ⟨z - 1, by omega⟩
  have hg := G_lt (k+1) (x, y)
  have h2k : 2^(k+1) = 2 * 2^k := by rw [Nat.pow_succ]; omega
  rw [zxyToID_spec (k+1) x y hz hx hy]
  unfold goParentID
  simp only [goZoom_spec (k+1) _ (by omega : base (k+1) ≤ base (k+1) + G (k+1) (x, y)) (by rw [base_succ (k+1)]; omega)]
  simp only [Nat.add_sub_cancel, Nat.add_sub_cancel_left]
  rw [zxyToID_spec k (x/2) (y/2) (by omega) (by omega) (by omega)]
  congr 1
  -- G k (x/2, y/2) = G (k+1) (x,y) / 4  via the hierarchy lemma and the inverse laws
  have hp := H_parent k (G (k+1) (x, y)) hg
  rw [H_G (k+1) (x, y) hx hy] at hp
  simp only at hp
  have hd : G (k+1) (x, y) / 4 < 4^k := by rw [Nat.pow_succ] at hg; omega
  have := G_H k (G (k+1) (x, y) / 4) hd
  rw [← hp] at this
  exact this.symm

end Pm.TileId
