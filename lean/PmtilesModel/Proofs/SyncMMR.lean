import PmtilesModel.Model.Sync
/-!
# `makeMultiRanges` batches every range exactly once, in order
-/
namespace Pm.Sync
open Pm

theorem mmr_fold_ranges (base maxBytes : Nat) : ∀ (rs : List Rng) (st : List MR × String × List Rng),
    let out := rs.foldl (mmrStep base maxBytes) st
    (out.1.map (·.ranges)).flatten ++ out.2.2 = (st.1.map (·.ranges)).flatten ++ st.2.2 ++ rs
  | [], st => by simp
  | r :: rs, (res, cur, curR) => by
    simp only [List.foldl_cons]
    have ih := mmr_fold_ranges base maxBytes rs (mmrStep base maxBytes (res, cur, curR) r)
    simp only at ih ⊢
    rw [ih]
    unfold mmrStep
    simp only
    split
    · simp [List.map_append, List.flatten_append]
    · simp

/-- the batches' range lists, concatenated, are exactly the input ranges: nothing dropped, nothing
    requested twice, order kept -/
theorem mmr_partition (rs : List Rng) (base maxBytes : Nat) :
    ((makeMultiRanges rs base maxBytes).map (·.ranges)).flatten = rs := by
  have h := mmr_fold_ranges base maxBytes rs ([], "", [])
  simp only [List.map_nil, List.flatten_nil, List.nil_append] at h
  unfold makeMultiRanges
  -- after a step the current batch string is non-empty
  have hpos : ∀ (st : List MR × String × List Rng) (r : Rng), 0 < (mmrStep base maxBytes st r).2.1.length := by
    intro st r
    obtain ⟨res, cur, curR⟩ := st
    have hr : 0 < (rangeStr base r).length := by
      unfold rangeStr
      have e : (toString "-" : String).length = 1 := rfl
      simp only [String.length_append]
      omega
    by_cases hc : cur.length + (rangeStr base r).length + 1 > maxBytes ∧ cur.length > 0
    · simp only [mmrStep, hc, and_self, if_true, String.length_append]
      omega
    · simp only [mmrStep, hc, if_false, String.length_append]
      omega
  have hinv : ∀ (rs : List Rng) (st : List MR × String × List Rng),
      (st.2.1.length = 0 → st.2.2 = []) →
      ((rs.foldl (mmrStep base maxBytes) st).2.1.length = 0 → (rs.foldl (mmrStep base maxBytes) st).2.2 = []) := by
    intro rs
    induction rs with
    | nil => intro st h; exact h
    | cons r rs ih =>
      intro st _
      simp only [List.foldl_cons]
      apply ih
      intro hz
      have := hpos st r
      omega
  have hz := hinv rs ([], "", []) (by simp)
  generalize rs.foldl (mmrStep base maxBytes) ([], "", []) = out at h hz
  obtain ⟨res, cur, curR⟩ := out
  simp only at h hz ⊢
  split
  · simp only [List.map_append, List.flatten_append, List.map_cons, List.map_nil, List.flatten_cons, List.flatten_nil, List.append_nil]
    exact h
  · rename_i hc
    have : curR = [] := hz (by omega)
    rw [this] at h
    simpa using h

end Pm.Sync
