#!/bin/bash
# try_seed.sh <seed-dir-name> <prop> [tier] : apply seeded patch to /repo, run check, undo.
d=/verif/seeded/$1; p=$2; tier=${3:-quick}
git -C /repo apply $d/patch.diff || { echo "patch does not apply"; exit 2; }
VERIF_EVIDENCE_DIR=/tmp/verif_seed_evidence /verif/check $p $tier > /tmp/try_$1_$p.log 2>&1; rc=$?
git -C /repo checkout -- . ; git -C /repo clean -fdq -- pmtiles >/dev/null 2>&1
grep -E "VIOLATION|KNOWN|violation\(s\)" /tmp/try_$1_$p.log | head -8
echo "exit=$rc"
