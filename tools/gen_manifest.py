#!/usr/bin/env python3
"""Regenerates /verif/MANIFEST.json from tools/manifest_src.json (claimed checks) + properties.jsonl."""
import json, os, subprocess
V = os.path.dirname(os.path.dirname(os.path.abspath(__file__)))
src = json.load(open(os.path.join(V, "tools", "manifest_src.json")))
props = [json.loads(l) for l in open(os.path.join(V, "properties.jsonl"))]
checks, na = [], []
for p in props:
    pid = p["id"]
    c = src["checks"].get(pid)
    if c and c.get("claimed", True):
        checks.append({
            "property_id": pid,
            "quick_cmd": "./check %s quick" % pid,
            "thorough_cmd": "./check %s thorough" % pid,
            "evidence_file": "/verif/evidence/%s.json" % pid,
            "replay_cmd_template": "./check %s --replay {path}" % pid,
            "engine": "lean4-proof+correspondence",
            "level_claimed": {"category": "proof", "text": c["text"], "design_ref": c.get("design_ref", "DESIGN.md §4 " + pid)},
            "level_note": c["note"],
            "technique": c.get("technique", "Lean 4 theorems about an executable model + differential correspondence check (model driver vs real Go code) + facts extractor obligations"),
        })
    else:
        na.append({"property_id": pid, "reason": (c or {}).get("reason", "check not built yet in this session (proof/correspondence in progress; see DESIGN.md §8 build order)")})
try:
    commits = subprocess.run(["git", "-C", "/repo", "log", "--format=%H %s"], capture_output=True, text=True).stdout.strip().split("\n")
    hook_commits = [l.split(" ")[0] for l in commits if " verif-hook:" in l or " hook:" in l]
except Exception:
    hook_commits = []
m = {
    "version": 1,
    "setup_cmd": "./check --setup",
    "hooks": {
        "guard": "verif",
        "enable": "go build -tags verif (the harness module under /verif/harness replaces github.com/protomaps/go-pmtiles with /repo and is built with -tags verif on every check run)",
        "baseline_off_cmd": "cd /repo && GOFLAGS=-mod=mod GOPROXY=off GOSUMDB=off GOTOOLCHAIN=local go test -vet=off -count=1 -timeout 25m ./...",
        "source_commits": hook_commits,
        "add_only": True,
    },
    "engines": [
        {"name": "lean4-proof+correspondence", "path": "/verif/check", "serves_properties": [c["property_id"] for c in checks],
         "kind_free_text": "Lean 4 project /verif/lean (models, specs, proofs, property theorems, pmdriver executable) + Go harness /verif/harness (generators, real-code runner, oracle, facts extractor) orchestrated by /verif/check"}
    ],
    "checks": checks,
    "not_applicable": na,
    "notes": src.get("notes", ""),
}
json.dump(m, open(os.path.join(V, "MANIFEST.json"), "w"), indent=1)
print("claimed:", [c["property_id"] for c in checks], "not claimed:", [n["property_id"] for n in na])
