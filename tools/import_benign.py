#!/usr/bin/env python3
"""Import behaviour-preserving changes written by fresh sub-agents (/tmp/wt<round>_<id>/out/<k>/) into
benign/<id>-b-<k>/, confirm them (builds with and without the verif tag, suite passes, the author's
demonstration passes with and without the patch), then run — with the patch applied to /repo — the check of
the property it was written for and the checks of every property whose anchored files it touches.
Expected: exit 0 and no VIOLATION line.  Anything else is a candidate false alarm (or a change that is
not as harmless as its author thought) and is looked at by hand.  Results: benign/results.json."""
import json, os, re, shutil, subprocess, sys, time
V = "/verif"
os.environ["VERIF_EVIDENCE_DIR"] = "/tmp/verif_seed_evidence"
WT = "/tmp/wtconfirm"
ENV = dict(os.environ, GOFLAGS="-mod=mod", GOPROXY="off", GOSUMDB="off", GOTOOLCHAIN="local")
FILEPROPS = {"tile_id.go": ["C01", "C04"], "directory.go": ["C02", "C03", "C04", "C05", "C17"], "server.go": ["C08", "C09", "C10", "C11", "C12"],
             "bucket.go": ["C18", "C11", "C08"], "convert.go": ["C06", "C13", "C05"], "extract.go": ["C07", "C16", "C19"],
             "bitmap.go": ["C16"], "region.go": ["C16"], "cluster.go": ["C13"], "edit.go": ["C14"], "verify.go": ["C15"],
             "makesync.go": ["C20", "C17"], "sync.go": ["C20"], "show.go": ["C04", "C14", "C02"],
             "main.go": ["C02", "C04", "C06", "C07", "C13", "C14", "C15", "C19", "C20"]}
def sh(cmd, cwd=None, timeout=1800):
    try:
        p = subprocess.run(cmd, cwd=cwd, env=ENV, capture_output=True, text=True, timeout=timeout)
        return p.returncode, p.stdout + p.stderr
    except subprocess.TimeoutExpired:
        return 124, "timeout"
rp = os.path.join(V, "benign/results.json")
os.makedirs(os.path.join(V, "benign"), exist_ok=True)
res = json.load(open(rp)) if os.path.exists(rp) else {}
rnd = "5"
MAXPROPS = int(os.environ.get("BENIGN_MAXPROPS", "2"))
ids = sys.argv[1:]
if ids and ids[0].startswith("--round="):
    rnd = ids[0].split("=")[1]; ids = ids[1:]
for pid in ids:
    for k in ("1", "2", "3", "4"):
        src = "/tmp/wt%s_%s/out/%s" % (rnd, pid, k)
        if not os.path.exists(src + "/patch.diff"):
            continue
        name = "%s-b-%s" % (pid, k) if rnd == "5" else "%s-b-r%s-%s" % (pid, rnd, k)
        dst = os.path.join(V, "benign", name)
        os.makedirs(dst, exist_ok=True)
        shutil.copy(src + "/patch.diff", dst + "/patch.diff")
        demo = "zz_benign_%s_%s_test.go" % (pid, k)
        if os.path.exists(src + "/demo_test.go"):
            shutil.copy(src + "/demo_test.go", os.path.join(dst, demo))
        if os.path.exists(src + "/README.md"):
            shutil.copy(src + "/README.md", dst + "/README.md")
        r = {"property": pid}
        sh(["git", "checkout", "--", "."], cwd=WT); sh(["git", "clean", "-fdq"], cwd=WT)
        rc, out = sh(["git", "apply", dst + "/patch.diff"], cwd=WT)
        r["applies"] = rc == 0
        if rc != 0:
            r["err"] = out[:300]; res[name] = r; print(name, "PATCH DOES NOT APPLY"); json.dump(res, open(rp, "w"), indent=1); continue
        rc1, _ = sh(["go", "build", "./..."], cwd=WT)
        rc2, _ = sh(["go", "build", "-tags", "verif", "./..."], cwd=WT)
        rc3, _ = sh(["go", "test", "-vet=off", "-count=1", "./..."], cwd=WT)
        r["builds"], r["suite_passes_with_patch"] = rc1 == 0 and rc2 == 0, rc3 == 0
        names = re.findall(r"^func (Test\w+)\(", open(os.path.join(dst, demo)).read(), re.M) if os.path.exists(os.path.join(dst, demo)) else []
        if names:
            shutil.copy(os.path.join(dst, demo), os.path.join(WT, "pmtiles", "zz_demo_test.go"))
            pat = "^(" + "|".join(names) + ")$"
            rc4, o4 = sh(["go", "test", "-vet=off", "-count=1", "-run", pat, "./pmtiles"], cwd=WT, timeout=900)
            sh(["git", "apply", "-R", dst + "/patch.diff"], cwd=WT)
            rc5, o5 = sh(["go", "test", "-vet=off", "-count=1", "-run", pat, "./pmtiles"], cwd=WT, timeout=900)
            r["demo_passes_with_patch"], r["demo_passes_without"] = rc4 == 0, rc5 == 0
        sh(["git", "checkout", "--", "."], cwd=WT); sh(["git", "clean", "-fdq"], cwd=WT)
        files = re.findall(r"^\+\+\+ b/(\S+)", open(dst + "/patch.diff").read(), re.M)
        props = [pid]
        for f in files:
            for p in FILEPROPS.get(os.path.basename(f), []):
                if p not in props and len(props) < MAXPROPS:
                    props.append(p)
        r["files"], r["checks"] = files, {}
        a = subprocess.run(["git", "-C", "/repo", "apply", dst + "/patch.diff"], capture_output=True, text=True)
        if a.returncode != 0:
            r["applies"] = False; res[name] = r; continue
        alarms = []
        for p in props:
            t0 = time.time()
            c = subprocess.run([os.path.join(V, "check"), p, "quick"], capture_output=True, text=True)
            out = c.stdout + c.stderr
            viol = [l for l in out.splitlines() if l.startswith("VIOLATION")]
            r["checks"][p] = {"exit": c.returncode, "violations": len(viol), "no_witness": len([l for l in viol if l.endswith("no-failing-input-found")]),
                              "seconds": round(time.time() - t0, 1), "last": out.strip().splitlines()[-1][:200] if out.strip() else ""}
            if c.returncode != 0 or viol:
                alarms.append(p)
        subprocess.run(["git", "-C", "/repo", "checkout", "--", "."]); subprocess.run(["git", "-C", "/repo", "clean", "-fdq", "--", "pmtiles"])
        r["alarms"] = alarms
        res[name] = r
        ok = r.get("builds") and r.get("suite_passes_with_patch") and r.get("demo_passes_with_patch", True)
        print(name, "confirmed" if ok else "UNCONFIRMED", "checks:", ",".join(props), "ALARM:" + ",".join(alarms) if alarms else "quiet", flush=True)
        json.dump(res, open(rp, "w"), indent=1)
