#!/usr/bin/env python3
"""Regenerate the seed table of DESIGN.md §9.5 from seeded/*/meta.json."""
import json, glob, os, re
V = "/verif"
rows = []
for p in sorted(glob.glob(os.path.join(V, "seeded/*/meta.json"))):
    m = json.load(open(p))
    o = m.get("outcome") or {}
    if not o:
        verdict = "not run"
    elif not o.get("applies"):
        verdict = "patch no longer applies"
    elif o.get("caught"):
        verdict = "caught, %d/%d with failing input" % (o.get("with_witness", 0), o.get("violations", 0))
    else:
        verdict = "**missed**"
    if m.get("note"):
        verdict += " — " + m["note"]
    summ = (m.get("summary") or "").split("\n")[0].strip()
    if len(summ) > 150:
        summ = summ[:147] + "…"
    rows.append("| %s | %s | %s | %s |" % (m["id"], m.get("property") or "", summ.replace("|", "/"), verdict))
tbl = "| seed | check | change | outcome (quick tier) |\n|---|---|---|---|\n" + "\n".join(rows) + "\n"
s = open(os.path.join(V, "DESIGN.md")).read()
s = re.sub(r"<!-- SEED-TABLE-BEGIN -->.*?<!-- SEED-TABLE-END -->", "<!-- SEED-TABLE-BEGIN -->\n" + tbl + "<!-- SEED-TABLE-END -->", s, flags=re.S)
open(os.path.join(V, "DESIGN.md"), "w").write(s)
print(len(rows), "rows")
