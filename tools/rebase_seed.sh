#!/bin/bash
# rebase_seed.sh <id> <python-edit-script>: apply an equivalent edit on the current /repo HEAD in a scratch worktree,
# store the resulting diff as seeded/<id>/patch.diff (the original is kept as patch.orig.diff), and confirm it.
set -e
id=$1; script=$2
wt=$(mktemp -d /tmp/rebase_${id}_XXXX); rmdir $wt
git -C /repo worktree add --detach $wt HEAD >/dev/null 2>&1
( cd $wt && python3 $script && git diff > /tmp/rebased_$id.diff )
git -C /repo worktree remove --force $wt
[ -f /verif/seeded/$id/patch.orig.diff ] || cp /verif/seeded/$id/patch.diff /verif/seeded/$id/patch.orig.diff
cp /tmp/rebased_$id.diff /verif/seeded/$id/patch.diff
/verif/tools/confirm_seed.sh $id /verif/seeded/$id/patch.diff /verif/seeded/$id/zz_seed_${id}_test.go
