#!/usr/bin/env python3
"""Import round-2 sub-agent changes from /tmp/wt2_<id>/out/<k>/ into seeded/<id>-r2-<k>/, confirm each
demonstration in a scratch worktree (suite passes with the patch, demo fails with it and passes without),
then run the property's check against it in /repo and record the outcome in seeded/results.json."""
import json, os, re, shutil, subprocess, sys, time
V = "/verif"
os.environ["VERIF_EVIDENCE_DIR"] = "/tmp/verif_seed_evidence"
WT = "/tmp/wtconfirm"
ENV = dict(os.environ, GOFLAGS="-mod=mod", GOPROXY="off", GOSUMDB="off", GOTOOLCHAIN="local")
def sh(cmd, cwd=None, timeout=1800):
    try:
        p = subprocess.run(cmd, cwd=cwd, env=ENV, capture_output=True, text=True, timeout=timeout)
        return p.returncode, p.stdout + p.stderr
    except subprocess.TimeoutExpired:
        return 124, "timeout"
if not os.path.isdir(WT):
    sh(["git", "-C", "/repo", "worktree", "add", "-q", "--detach", WT, "HEAD"])
rp = os.path.join(V, "seeded/results.json")
res = json.load(open(rp)) if os.path.exists(rp) else {}
tier = "quick"
rnd = "2"
ids = sys.argv[1:]
if ids and ids[0].startswith("--round="):
    rnd = ids[0].split("=")[1]
    ids = ids[1:]
for pid in ids:
    for k in ("1", "2", "3", "4"):
        src = "/tmp/wt%s_%s/out/%s" % (rnd, pid, k)
        if not os.path.exists(src + "/patch.diff"):
            continue
        name = "%s-r%s-%s" % (pid, rnd, k)
        dst = os.path.join(V, "seeded", name)
        os.makedirs(dst, exist_ok=True)
        shutil.copy(src + "/patch.diff", dst + "/patch.diff")
        demo = "zz_seed_%s_r%s_%s_test.go" % (pid, rnd, k)
        if os.path.exists(src + "/demo_test.go"):
            shutil.copy(src + "/demo_test.go", os.path.join(dst, demo))
        if os.path.exists(src + "/README.md"):
            shutil.copy(src + "/README.md", dst + "/README.md")
        r = {"property": pid, "tier": tier}
        # --- confirm the demonstration
        sh(["git", "checkout", "--", "."], cwd=WT); sh(["git", "clean", "-fdq"], cwd=WT)
        rc, out = sh(["git", "apply", dst + "/patch.diff"], cwd=WT)
        r["applies"] = rc == 0
        if rc != 0:
            r["err"] = out[:300]; res[name] = r; print(name, "PATCH DOES NOT APPLY"); json.dump(res, open(rp, "w"), indent=1); continue
        rc1, o1 = sh(["go", "build", "./..."], cwd=WT)
        rc2, o2 = sh(["go", "build", "-tags", "verif", "./..."], cwd=WT)
        rc3, o3 = sh(["go", "test", "-vet=off", "-count=1", "./..."], cwd=WT)
        r["builds"] = rc1 == 0 and rc2 == 0
        r["suite_passes_with_patch"] = rc3 == 0
        names = re.findall(r"^func (Test\w+)\(", open(os.path.join(dst, demo)).read(), re.M) if os.path.exists(os.path.join(dst, demo)) else []
        if names:
            shutil.copy(os.path.join(dst, demo), os.path.join(WT, "pmtiles", "zz_demo_test.go"))
            pat = "^(" + "|".join(names) + ")$"
            rc4, o4 = sh(["go", "test", "-vet=off", "-count=1", "-run", pat, "./pmtiles"], cwd=WT, timeout=900)
            sh(["git", "apply", "-R", dst + "/patch.diff"], cwd=WT)
            rc5, o5 = sh(["go", "test", "-vet=off", "-count=1", "-run", pat, "./pmtiles"], cwd=WT, timeout=900)
            r["demo_fails_with_patch"] = rc4 != 0
            r["demo_passes_without"] = rc5 == 0
            if rc5 != 0:
                r["demo_without_tail"] = o5[-400:]
        sh(["git", "checkout", "--", "."], cwd=WT); sh(["git", "clean", "-fdq"], cwd=WT)
        # --- run the check against it
        a = subprocess.run(["git", "-C", "/repo", "apply", dst + "/patch.diff"], capture_output=True, text=True)
        if a.returncode != 0:
            r["applies"] = False; res[name] = r; continue
        t0 = time.time()
        c = subprocess.run([os.path.join(V, "check"), pid, tier], capture_output=True, text=True)
        subprocess.run(["git", "-C", "/repo", "checkout", "--", "."]); subprocess.run(["git", "-C", "/repo", "clean", "-fdq", "--", "pmtiles"])
        out = c.stdout + c.stderr
        viol = [l for l in out.splitlines() if l.startswith("VIOLATION")]
        nowit = [l for l in viol if l.endswith("no-failing-input-found")]
        r.update(exit=c.returncode, violations=len(viol), with_witness=len(viol) - len(nowit), caught=c.returncode == 1 and len(viol) > 0,
                 seconds=round(time.time() - t0, 1), last=out.strip().splitlines()[-1][:200] if out.strip() else "")
        res[name] = r
        print(name, "confirmed" if (r.get("demo_fails_with_patch") and r.get("demo_passes_without") and r.get("suite_passes_with_patch")) else "UNCONFIRMED",
              "caught" if r["caught"] else "MISSED", "%d/%d" % (r["with_witness"], len(viol)), "%.0fs" % r["seconds"], flush=True)
        json.dump(res, open(rp, "w"), indent=1)
