#!/usr/bin/env python3
"""Re-run checks against the behaviour-preserving changes kept in benign/<id>-b-<k>/patch.diff: the check of
the property each was written for and the checks of the properties whose anchored files it touches (at most
BENIGN_MAXPROPS of them, default all).  A check already recorded as quiet for a change is skipped unless
--all is given.  Expected: exit 0, no VIOLATION line.  Results are merged into benign/results.json."""
import json, os, re, subprocess, sys, time
V = "/verif"
os.environ["VERIF_EVIDENCE_DIR"] = "/tmp/verif_seed_evidence"
sys.path.insert(0, os.path.join(V, "tools"))
src = open(os.path.join(V, "tools/import_benign.py")).read()
FILEPROPS = eval(re.search(r"FILEPROPS = (\{.*?\})\n", src, re.S).group(1))
MAXPROPS = int(os.environ.get("BENIGN_MAXPROPS", "99"))
redo = "--all" in sys.argv
only = [a for a in sys.argv[1:] if not a.startswith("--")]
rp = os.path.join(V, "benign/results.json")
res = json.load(open(rp)) if os.path.exists(rp) else {}
for name in sorted(os.listdir(os.path.join(V, "benign"))):
    d = os.path.join(V, "benign", name)
    if not os.path.isdir(d) or (only and name not in only and name.split("-")[0] not in only):
        continue
    patch = os.path.join(d, "patch.diff")
    pid = name.split("-")[0]
    files = re.findall(r"^\+\+\+ b/(\S+)", open(patch).read(), re.M)
    props = [pid]
    for f in files:
        for p in FILEPROPS.get(os.path.basename(f), []):
            if p not in props and len(props) < MAXPROPS:
                props.append(p)
    r = res.setdefault(name, {"property": pid, "files": files, "checks": {}, "alarms": []})
    todo = [p for p in props if redo or p not in r.get("checks", {}) or r["checks"][p].get("exit") != 0 or r["checks"][p].get("violations")]
    if not todo:
        continue
    a = subprocess.run(["git", "-C", "/repo", "apply", patch], capture_output=True, text=True)
    if a.returncode != 0:
        print(name, "DOES NOT APPLY", flush=True); r["applies"] = False; continue
    for p in todo:
        t0 = time.time()
        c = subprocess.run([os.path.join(V, "check"), p, "quick"], capture_output=True, text=True)
        out = c.stdout + c.stderr
        viol = [l for l in out.splitlines() if l.startswith("VIOLATION")]
        r.setdefault("checks", {})[p] = {"exit": c.returncode, "violations": len(viol), "no_witness": len([l for l in viol if l.endswith("no-failing-input-found")]),
                                         "seconds": round(time.time() - t0, 1), "last": out.strip().splitlines()[-1][:200] if out.strip() else ""}
    subprocess.run(["git", "-C", "/repo", "checkout", "--", "."]); subprocess.run(["git", "-C", "/repo", "clean", "-fdq", "--", "pmtiles"])
    r["alarms"] = [p for p, c in r["checks"].items() if c.get("exit") != 0 or c.get("violations")]
    print(name, "ran:", ",".join(todo), "ALARM:" + ",".join(r["alarms"]) if r["alarms"] else "quiet", flush=True)
    json.dump(res, open(rp, "w"), indent=1)
json.dump(res, open(rp, "w"), indent=1)
